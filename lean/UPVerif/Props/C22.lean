import UPVerif.Lemmas.BuildInv
/-!
# C22 — Problem cloning yields an equal, independent copy that accepts the same edits

Statements only (helper lemmas live in `Lemmas/BuildLemmas.lean`, `Lemmas/BuildInv.lean`).  The model
is `Core/Build.lean`: the building API of `Problem` as a state machine whose states carry the
conflict bookkeeping, `clone` written field by field as `Problem._clone_to` does on a FRESH problem,
and `Problem.__eq__` as written.  Everything is parametric in the environment `E` (type hierarchy,
`error_used_name`, type checker, simplifier) and in the kind computation `K`.

"Every problem" = every state reachable through the API from `Problem(name, initial_defaults=…)`
(`Build.Reachable`).
-/
namespace UPVerif.C22
open UPVerif UPVerif.Build

/-- `clone` never raises on a reachable problem and copies EVERY field — syntax, defaults, time model
    and all the conflict bookkeeping the later calls read.  (With `_fluents_inc_dec` left out, as in the
    code before the fix, this is false: `asFound_clone_diverges` below.) -/
theorem clone_copies_everything {E : Env} {s : State} (h : Reachable E s) : clone s = .ok s :=
  clone_eq_self (reachable_inv h)

/-- clause 1a: the clone is `==` to the original (`Problem.__eq__` as written, any kind function) -/
theorem clone_eq {κ : Type} [DecidableEq κ] (K : State → κ) {E : Env} {s : State} (h : Reachable E s) :
    ∃ c, clone s = .ok c ∧ eq K E.types c s = true :=
  ⟨s, clone_copies_everything h, eq_refl K E.types (reachable_inv h)⟩

/-- clause 1b: same kind — `kind` being any function of the content that ignores the bookkeeping -/
theorem clone_kind {κ : Type} (K : State → κ) {E : Env} {s : State} (h : Reachable E s) :
    ∃ c, clone s = .ok c ∧ kind K c = kind K s :=
  ⟨s, clone_copies_everything h, rfl⟩

/-- clause 2: for EVERY later sequence of building calls, each call raises on the clone exactly what
    it raises on the original (in particular succeeds iff it succeeds there) and the two end up `==`;
    since `ops` is arbitrary this holds after every prefix, i.e. the two stay equal throughout -/
theorem C22_same_edits {κ : Type} [DecidableEq κ] (K : State → κ) {E : Env} {s : State}
    (h : Reachable E s) (ops : List Build.Op) :
    ∃ c, clone s = .ok c ∧
      (runOps E c ops).2 = (runOps E s ops).2 ∧
      eq K E.types (runOps E c ops).1 (runOps E s ops).1 = true ∧
      kind K (runOps E c ops).1 = kind K (runOps E s ops).1 :=
  ⟨s, clone_copies_everything h, rfl, eq_refl K E.types (inv_runOps E ops (reachable_inv h)), rfl⟩

/-- the same in the two-object world: starting from a problem and its clone, any history of calls
    made on both and of re-clonings keeps the two objects identical -/
theorem C22_lockstep {E : Env} {p : State} (h : Reachable E p) :
    ∀ (items : List Item), (∀ it ∈ items, it.isSym = true) →
      (runWorld E p p items).1 = (runWorld E p p items).2 := by
  intro items
  have hi := reachable_inv h
  clear h
  induction items generalizing p with
  | nil => intro _; rfl
  | cons it its ih =>
    intro hsym
    have hit := hsym it (by simp)
    have hrest : ∀ x ∈ its, x.isSym = true := fun x hx => hsym x (by simp [hx])
    cases it with
    | both op =>
      simp only [runWorld, stepWorld]
      exact ih (inv_apply E op hi) hrest
    | left op => simp [Item.isSym] at hit
    | right op => simp [Item.isSym] at hit
    | reclone =>
      simp only [runWorld, stepWorld, clone_eq_self hi]
      exact ih hi hrest

/-- clause 3: calls on one object never change the other.  In a pure model this is structural
    (its code-level content — no list/dict/action object shared between original and clone — is what
    the correspondence check dumps after every single-sided call). -/
theorem C22_independent (E : Env) (p c : State) (op : Build.Op) :
    (stepWorld E p c (.left op)).2 = c ∧ (stepWorld E p c (.right op)).1 = p :=
  ⟨rfl, rfl⟩

/-- … and over whole histories: the original ends exactly where the calls made ON IT lead, whatever
    was done to the clone in between -/
theorem C22_original_unaffected (E : Env) : ∀ (items : List Item) (p c : State),
    (runWorld E p c items).1 = (runOps E p (items.filterMap Item.onOrig)).1 := by
  intro items
  induction items with
  | nil => intro p c; rfl
  | cons it its ih =>
    intro p c
    cases it with
    | both op => simp only [runWorld, stepWorld, List.filterMap_cons, Item.onOrig, runOps]; exact ih _ _
    | left op => simp only [runWorld, stepWorld, List.filterMap_cons, Item.onOrig, runOps]; exact ih _ _
    | right op => simp only [runWorld, stepWorld, List.filterMap_cons, Item.onOrig]; exact ih _ _
    | reclone =>
      simp only [runWorld, stepWorld, List.filterMap_cons, Item.onOrig]
      split <;> exact ih _ _

/-! ### non-vacuity and the defect the property was written for -/

/-- a small environment: no user types, default flag, leaves and fluent applications typed by the
    model itself -/
def E0 : Env := { types := ⟨[]⟩, errorUsedName := true, typeOf := tableTypeOf [], simplify := id }

def xRef : FluentRef := { name := "x", ty := .int none none, sig := [] }
def xExp : Expr := Expr.mkFluent xRef []
def t5 : Timing := { kind := .globalStart, delay := 5 }

/-- `x : int`, an action with an effect, a timed INCREASE of `x` at time 5 -/
def buildOps : List Build.Op :=
  [.addFluent xRef (some (Expr.int 0)), .addAction "a" [],
   .actAddEff "a" .assign xExp (Expr.int 1) Expr.tt [],
   .addTimedEffect t5 .increase xExp (Expr.int 1) Expr.tt []]

def s1 : State := (runOps E0 (freshProblem "p") buildOps).1

example : Reachable E0 s1 := ⟨"p", [], freshProblem "p", buildOps, rfl, rfl⟩
example : (runOps E0 (freshProblem "p") buildOps).2 = [none, none, none, none] := by decide
example : s1.tIncDec = [(t5, [xExp])] := by decide

/-- the call of the property's `why_tests_cant`: a timed ASSIGNMENT of `x` at time 5 -/
def conflictingOp : Build.Op := .addTimedEffect t5 .assign xExp (Expr.int 7) Expr.tt []

example : (apply E0 s1 conflictingOp).err = some .conflict := by decide

/-- `Problem.clone` as found (before the fix): `_fluents_inc_dec` is not copied -/
def cloneAsFound (s : State) : Except Err State :=
  match clone s with
  | .ok c => .ok { c with tIncDec := [] }
  | .error e => .error e

/-- refutation of the property for the code as found: the conflicting timed assignment is rejected
    by the original and accepted by its clone -/
theorem asFound_clone_diverges :
    ∃ c, cloneAsFound s1 = .ok c ∧
      (apply E0 s1 conflictingOp).err = some .conflict ∧ (apply E0 c conflictingOp).err = none := by
  refine ⟨{ s1 with tIncDec := [] }, ?_, by decide, by decide⟩
  have h : clone s1 = .ok s1 := clone_copies_everything ⟨"p", [], freshProblem "p", buildOps, rfl, rfl⟩
  simp [cloneAsFound, h]

end UPVerif.C22
