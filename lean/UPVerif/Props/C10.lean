import UPVerif.Lemmas.KindOfComplete
import UPVerif.Lemmas.KindLemmas
import UPVerif.Gen.Features
/-!
# C10 — Problem kind reports every feature the problem uses

Statements only (helper lemmas live in `Lemmas/KindOf*.lean`).

* `kindOf` (`Core/KindOf.lean`) mirrors `Problem.kind` = `_KindFactory` of
  `unified_planning/model/problem.py`, statement by statement, for classical / numeric / temporal
  problems with processes and events; it is tied to the code by the correspondence check (exact
  equality of feature sets).  The answers of `LinearChecker` and `Simplifier` are a parameter
  (`Facts`): the theorems hold for EVERY such answer.
* `Uses P f` (`Spec/Uses.lean`) is the positional, traversal-independent specification: one rule per
  feature named in the property statement.

The hierarchical / scheduling / contingent / multi-agent extensions of the kind computation are
modelled in `Core/KindOfExt.lean`; their theorems are in `Props/C10Ext.lean`.
-/
namespace UPVerif.C10
open UPVerif UPVerif.KindOf UPVerif.Spec

/-- **Completeness.**  Every feature the problem syntactically uses is in the computed kind —
    for every problem of the modelled syntax, of any size, and every answer of the walkers the
    model does not contain. -/
theorem C10_complete (F : Facts) (P : KProblem) (f : Feature) (h : Uses P f) :
    ∀ k, kindOf F P = some k → f ∈ k := by
  intro k hk
  unfold kindOf at hk
  cases hu : undefFluents P P.fluents with
  | none => simp [hu] at hk
  | some u =>
    simp only [hu, Option.some.injEq] at hk
    subst hk
    have hs := statementFeatures_stable f (uses_statementFeature h)
    exact finalize_mono P hs.1 hs.2 (run_sets hs.1 (uses_sets hu h) [])

/-- The computation is defined (does not raise) unless some fluent without default has a parameter
    whose type cannot be enumerated — the documented "Parameter not groundable!" error. -/
theorem C10_defined (F : Facts) (P : KProblem) (h : kindOf F P = none) :
    ∃ d, d ∈ P.fluents ∧ d.default = none ∧ groundSize P d.ref.sig = none := by
  unfold kindOf at h
  have key : ∀ ds : List FluentDecl, undefFluents P ds = none →
      ∃ d, d ∈ ds ∧ d.default = none ∧ groundSize P d.ref.sig = none := by
    intro ds
    induction ds with
    | nil => intro h; simp [undefFluents] at h
    | cons x xs ih =>
      intro hn
      unfold undefFluents at hn
      by_cases hx : x.default.isSome = true
      · rw [if_pos hx] at hn
        obtain ⟨d, hd, h0, hg⟩ := ih hn
        exact ⟨d, List.mem_cons_of_mem _ hd, h0, hg⟩
      · rw [if_neg hx] at hn
        cases hgx : groundSize P x.ref.sig with
        | none => exact ⟨x, List.mem_cons_self, by simpa using hx, hgx⟩
        | some g =>
          cases hr : undefFluents P xs with
          | none =>
            obtain ⟨d, hd, h0, hg⟩ := ih hr
            exact ⟨d, List.mem_cons_of_mem _ hd, h0, hg⟩
          | some r => simp [hgx, hr] at hn
  cases hu : undefFluents P P.fluents with
  | none => exact key _ hu
  | some u => simp [hu] at h

/-- every feature the specification can demand exists at the latest kind version of /repo
    (re-decided on the tables regenerated from `problem_kind.py` / `problem_kind_versioning.py`) -/
theorem statement_features_valid :
    statementFeatures.all (fun f => Kind.isValid Gen.tables Gen.tables.latest f) = true := by
  decide +kernel

/-- **Engine consequence.**  If the computed kind is `<=` an engine's supported kind `K` (of the
    latest version, as `ProblemKind()` creates them), the engine has declared every used feature. -/
theorem C10_engine_consequence (F : Facts) (P : KProblem) (f : Feature) (k : KS) (K : Kind.Kind)
    (hk : kindOf F P = some k) (hv : K.ver Gen.tables = Gen.tables.latest)
    (hle : Kind.Kind.le Gen.tables { feats := k, version := some Gen.tables.latest } K = true)
    (hu : Uses P f) : f ∈ K.feats := by
  have hver : ({ feats := k, version := some Gen.tables.latest } : Kind.Kind).ver Gen.tables = K.ver Gen.tables := by
    rw [hv]; rfl
  rw [Kind.le_same hver, Kind.subset_iff] at hle
  have hf : f ∈ k := C10_complete F P f hu k hk
  have hval : Kind.isValid Gen.tables (K.ver Gen.tables) f = true := by
    rw [hv]
    exact List.all_eq_true.1 statement_features_valid f (uses_statementFeature hu)
  exact (Kind.mem_validPart.1 (hle f (Kind.mem_validPart.2 ⟨hf, hval⟩))).1

/-! ### non-vacuity: a concrete problem meets the hypotheses, in the position the original code missed -/
section examples

def b : FluentRef := { name := "b", ty := .bool, sig := [] }
def x : FluentRef := { name := "x", ty := .real none none, sig := [] }

def exPr : Proc :=
  { name := "pr", params := [], pre := [.app .not [.app (.fluent b) []]],
    effs := [{ fluent := .app (.fluent x) [], value := Expr.int 1, kind := .inc }] }

/-- one process `pr` with precondition `not b` and effect `dx/dt = 1`; `x` has no initial value -/
def exP : KProblem :=
  { types := { fathers := [] }, objects := [],
    fluents := [{ ref := b, default := some Expr.ff }, { ref := x, default := none }],
    init := [], iactions := [], dactions := [],
    processes := [exPr],
    events := [], timedEffects := [], timedGoals := [], goals := [], traj := [], metrics := [],
    discreteTime := false, selfOverlapping := false }

def exF : Facts := { lin := fun _ => true, simpFluentExps := fun _ => [] }

example : Uses exP "NEGATIVE_CONDITIONS" :=
  .negativeConditions (c := .app .not [.app (.fluent b) []])
    (.processPrecondition (p := exPr) List.mem_cons_self List.mem_cons_self) (.refl _)

example : Uses exP "INCREASE_CONTINUOUS_EFFECTS" :=
  .increaseContinuousEffects (e := { fluent := .app (.fluent x) [], value := Expr.int 1, kind := .inc })
    (.process (p := exPr) List.mem_cons_self List.mem_cons_self) rfl

example : Uses exP "UNDEFINED_INITIAL_NUMERIC" :=
  .undefinedInitialNumeric (d := { ref := x, default := none }) (g := 1) (by simp [exP]) rfl rfl (by decide) rfl

example : kindOf exF exP = some ["PROCESSES", "UNDEFINED_INITIAL_NUMERIC", "INCREASE_CONTINUOUS_EFFECTS",
    "NEGATIVE_CONDITIONS", "REAL_FLUENTS", "SIMPLE_NUMERIC_PLANNING", "ACTION_BASED"] := by decide +kernel

/-- an engine kind that contains the computed kind -/
example : Kind.Kind.le Gen.tables
    { feats := ["PROCESSES", "UNDEFINED_INITIAL_NUMERIC", "INCREASE_CONTINUOUS_EFFECTS", "NEGATIVE_CONDITIONS",
                "REAL_FLUENTS", "SIMPLE_NUMERIC_PLANNING", "ACTION_BASED"], version := some Gen.tables.latest }
    { feats := ["ACTION_BASED", "SIMPLE_NUMERIC_PLANNING", "REAL_FLUENTS", "NEGATIVE_CONDITIONS", "PROCESSES",
                "INCREASE_CONTINUOUS_EFFECTS", "DECREASE_CONTINUOUS_EFFECTS", "UNDEFINED_INITIAL_NUMERIC"],
      version := some Gen.tables.latest } = true := by decide +kernel

end examples

end UPVerif.C10
