import UPVerif.Props.C06
import UPVerif.Lemmas.CompileBTR
import UPVerif.Lemmas.CompileQRTyped
import UPVerif.Lemmas.CompileHyps
/-!
# C06 (continued) — soundness of BoundedTypesRemover and QuantifiersRemover, and a pipeline of three compilers

Statements only; frame, semantics (`tsOf`: the parameterless actions of a problem under C01's documented successor)
and conventions as in `Props/C06.lean` (read its header first).  Models: `Compile.btrCompile`
(Core/Compile/Invariant.lean) and `Compile.qrCompile` (Core/Compile/QR.lean), tied to the real compilers by the
variant correspondence of the check.  Helper lemmas: `Lemmas/CompileBTR*.lean`, `Lemmas/CompileQR*.lean`.

**BoundedTypesRemover.**  The original problem checks the bounds of its numeric fluents as invariants of the
simulator (`invOK`: a step into a state violating a bound is not applicable, Core/Sim.lean `invariants`); the
compiled problem declares unbounded COPIES of the fluents (new fluent objects: a ground fluent of the compiled
problem is a different key) and puts the conjunction of the bound conditions into every precondition and the goal.
States are related by `Compile.Rel`: the original state reads, on every declared fluent, what the compiled state
holds for its copy; a compiled state violating a bound is a dead end (viability, `Compile.btrV`).  Hypotheses
(`Compile.BtrOK`, all decidable but those on the simplifiers; the driver evaluates them on every generated problem,
`Compile.btrClauses`): expressions in the expression manager's normal form (`normal`: no 0/1-ary And/Or/Plus/Times,
no double negation — every real FNode) over declared fluents; declared fluents distinct up to their type; effects
well-formed (forall effects included); `Always` constraints, which BoundedTypesRemover keeps, with quantifier-free
bodies; the simplifiers keep the TRUTH of what they are applied to (`SimpTruth`, weaker than `SimpExact`).

**QuantifiersRemover.**  `rq_den_exact_where_defined`: `den (removeQuantifiers P e) = den e` wherever `den e` is
defined, over the problem's finite object lists — NO non-emptiness hypothesis is needed here (finding D-C11e is about
the simplifier dropping a quantifier; the expansion over an object-less type is the empty disjunction/conjunction,
which is what the quantifier denotes).  The state evaluator of the simulator exits a quantifier loop early, the
expansion is evaluated strictly: the two agree exactly where no evaluation error is hidden by the early exit, i.e.
where the expression is defined in the (strict) reference denotation.  So the step of a compiled action IS the
step of the original one in every state where the original action is strictly defined (`qr_step_identity`), and
soundness follows for problems that are strictly defined in their reachable states (`QrOK.defined`); for typed
(ADL + numeric, division-free) problems this is a theorem (`Compile.typed_defined`), which leaves decidable hypotheses only
(`qr_sound_typed_partial`).  The simplifier hypothesis is the form C11 proves: every defined value preserved.
-/
namespace UPVerif.C06
open UPVerif UPVerif.Expr UPVerif.Sim UPVerif.Spec UPVerif.Simulation UPVerif.Compile

/-! ## BoundedTypesRemover -/

/-- SOUNDNESS of BoundedTypesRemover for every plan of every length: a valid plan of the compiled problem (unbounded
    fluents, bound conditions in every precondition and in the goal) maps back to a valid plan of the original
    problem, whose simulator checks the bounds in every state -/
theorem btr_sound_partial (simp : Expr → Expr) (W : World) (c : Compiled) (hc : btrCompile simp W.P = some c)
    (hok : BtrOK simp W c) (π : List Nat) (hv : (tsOf (withProblem W c.prob)).Valid π) :
    (tsOf W).Valid (mapBack (backOf c) π) := (btr_fwd W hc hok).sound π hv

/-- … and the mapped-back plan visits, state by state, the states of the compiled plan read through the renaming of
    the fluents -/
theorem btr_same_trace (simp : Expr → Expr) (W : World) (c : Compiled) (hc : btrCompile simp W.P = some c)
    (hok : BtrOK simp W c) (π : List Nat) (hβ : ∀ b ∈ π, (backOf c b).isSome) (gB gf gA : St) (t : List St)
    (hR : Rel (declared W.P) gB gA)
    (hr : (tsOf (withProblem W c.prob)).run gB π = some gf) (hg : (tsOf (withProblem W c.prob)).goal gf)
    (ht : (tsOf (withProblem W c.prob)).trace gB π = some t) :
    ∃ tA, (tsOf W).trace gA (mapBack (backOf c) π) = some tA ∧ TraceRel (Rel (declared W.P)) t tA :=
  (btr_fwd W hc hok).trace π hβ gB gf gA t hR hr hg ht

/-- the bound conditions ARE the simulator's bounded-type invariants: `And(conditions)` is TRUE in a compiled state
    iff every bound holds in the related original state -/
theorem btr_condition_is_invariant (P : Problem) (cB cA : EvalCtx) (h : RelCtx (declared P) cB cA) :
    Spec.isTrue (eval cB [] (mkAnd (btrConditions P))) = (boundInvs P).all (fun si => isTrueB (evalBool cA si)) :=
  btr_cond_true P h

/-- the same with the hypotheses in the executable form the driver evaluates on every generated problem
    (`Compile.btrClauses`, Core/Compile/Hyps.lean): soundness holds for every problem the check tags `btr-hyps-ok` -/
theorem btr_sound_of_clauses_partial (simp : Expr → Expr) (hs : SimpTruth simp) (W : World) (c : Compiled)
    (hw : SimpTruthOn W.simp (stateInvariants W.P)) (hwc : SimpTruthOn W.simp (stateInvariants c.prob))
    (hc : btrCompile simp W.P = some c) (h : (btrClauses simp W.P c).all (·.2) = true) (π : List Nat)
    (hv : (tsOf (withProblem W c.prob)).Valid π) : (tsOf W).Valid (mapBack (backOf c) π) :=
  btr_sound_partial simp W c hc (BtrOK.of_clauses hs hw hwc h) π hv

/-- full clause for BoundedTypesRemover; proved part: `btr_sound_partial`.  Missing: parameters (instances of lifted
    actions), `Always` constraints with quantified bodies. -/
def btr_sound_full (simp : Expr → Expr) : Prop := SimpTruth simp → SoundOnAllInstances (btrCompile simp)

/-! ## QuantifiersRemover -/

/-- `ExpressionQuantifiersRemover.remove_quantifiers` is exact where the expression is defined: over the finite
    object lists of the problem, every defined value of the reference denotation is preserved -/
theorem rq_den_exact_where_defined (ι : Interp) (P : Problem) (hdom : ∀ t, ι.dom t = (tyDomain P t).map Val.o)
    (e : Expr) (ρ : VEnv) (v : Val) (hq : qNodup e = true) (h : den ι ρ e = some v) :
    den ι ρ (removeQuantifiers P e) = some v := (rq_den hdom).1 e ρ v hq h

/-- the simulator's state evaluator extends the reference denotation: where `den` is defined, `evaluate` returns
    that value (the converse fails: a quantifier loop may exit before an undefined instance is reached) -/
theorem state_evaluator_extends_den (c : EvalCtx) (e : Expr) (ρ : VEnv) (v : Val) (hq : qNodup e = true)
    (h : den (ctxInterp c) ρ e = some v) : eval c ρ e = .ok v := (den_eval c).1 e ρ v hq h

/-- the expanded effects agree with the simulator's own `expand_effect`: the compiled effect list is the expanded
    original one, instance by instance, with expanded conditions and values; FALSE-conditioned instances dropped -/
theorem qr_effects_are_expanded (simp : Expr → Expr) (P : Problem) (effs : List Effect) :
    qrEffects simp P effs = (expandEffs P effs).filterMap (qrEff simp P) := rfl

/-- THE STEP LEMMA: in a state where the original action is strictly defined, the step of the compiled action is
    the step of the original action — same applicability, same successor -/
theorem qr_step_identity (simp : Expr → Expr) (W : World) (c : Compiled) (hok : QrOK simp W c)
    (hsig : SameSig c.prob W.P) (a a' : Action) (ha : a ∈ W.P.actions) (hq : qrAction simp W.P a = some a')
    (g : St) (hd : DefAct simp W g a) : stepAct (withProblem W c.prob) g a' = stepAct W g a :=
  qr_step_eq hok hsig ha hq hd

/-- SOUNDNESS of QuantifiersRemover for every plan of every length (identity simulation) -/
theorem qr_sound_partial (simp : Expr → Expr) (W : World) (c : Compiled) (hc : qrCompile simp W.P = some c)
    (hok : QrOK simp W c) (π : List Nat) (hv : (tsOf (withProblem W c.prob)).Valid π) :
    (tsOf W).Valid (mapBack (backOf c) π) := (qr_fwd W hc hok).sound π hv

/-- the map-back of QuantifiersRemover is the identity on plans: the mapped-back plan is the compiled plan -/
theorem qr_back_identity (simp : Expr → Expr) (P : Problem) (c : Compiled) (hc : qrCompile simp P = some c) (i : Nat)
    (a' : Action) (h : c.prob.actions[i]? = some a') : backOf c i = some i := by
  obtain ⟨_, _, _, hfw, _⟩ := qrCompile_some hc
  obtain ⟨_, hb, _⟩ := hfw i a' h
  exact hb

/-- SOUNDNESS of QuantifiersRemover on typed (ADL + numeric, division-free) problems: all hypotheses on the problem are decidable -/
theorem qr_sound_typed_partial (simp : Expr → Expr) (hs : SimpDen simp) (W : World) (c : Compiled)
    (hc : qrCompile simp W.P = some c) (hb : TypedProblem W)
    (hnp : ∀ a ∈ W.P.actions, ∀ p ∈ a.pre, qNodup p = true)
    (hne : ∀ a ∈ W.P.actions, ∀ x ∈ expandEffs W.P a.effs, qNodup x.cond = true ∧ qNodup x.value = true)
    (hng : ∀ e ∈ W.P.goals, qNodup e = true)
    (hna : stateInvariants W.P = []) (hnc : stateInvariants c.prob = [])
    (π : List Nat) (hv : (tsOf (withProblem W c.prob)).Valid π) : (tsOf W).Valid (mapBack (backOf c) π) :=
  qr_sound_partial simp W c hc ⟨hs, hnp, hne, hng, hna, hnc, typed_defined simp hb⟩ π hv

/-- the same with the hypotheses in the executable form the driver evaluates on every generated problem
    (`Compile.qrClauses`, `Compile.typedClauses`): soundness holds for every problem tagged `qr-hyps-ok`, `qr-typed-ok` -/
theorem qr_sound_of_clauses_partial (simp : Expr → Expr) (hs : SimpDen simp) (W : World) (c : Compiled)
    (hc : qrCompile simp W.P = some c) (h : (qrClauses W.P c).all (·.2) = true)
    (hb : (typedClauses W.P).all (·.2) = true) (π : List Nat)
    (hv : (tsOf (withProblem W c.prob)).Valid π) : (tsOf W).Valid (mapBack (backOf c) π) :=
  qr_sound_partial simp W c hc (QrOK.of_clauses hs h hb) π hv

/-- full clause for QuantifiersRemover; proved part: `qr_sound_partial`.  Missing: parameters; `Always` constraints;
    and the clause is FALSE without a definedness hypothesis: with a fluent that has no value the quantifier loop of
    the state evaluator exits before the undefined instance, the expansion does not. -/
def qr_sound_full (simp : Expr → Expr) : Prop := SimpDen simp → SoundOnAllInstances (qrCompile simp)

/-! ## a pipeline of three modelled compilers -/

/-- quantifiers removed, then conditional effects, then bounded types: the pipeline is sound whenever its stages
    are (each stage runs on the previous stage's compiled problem; map-back last compiler first) -/
theorem qr_then_cer_then_btr_sound_partial (simp : Expr → Expr) (hse : SimpExact simp) (W : World)
    (c₁ c₂ c₃ : Compiled)
    (h₁ : qrCompile simp W.P = some c₁) (hok₁ : QrOK simp W c₁)
    (h₂ : cerCompile simp c₁.prob = some c₂) (hok₂ : ∀ a ∈ c₁.prob.actions, cerOK (cerExpand c₁.prob a) = true)
    (h₃ : btrCompile simp c₂.prob = some c₃) (hok₃ : BtrOK simp (withProblem (withProblem W c₁.prob) c₂.prob) c₃)
    (π : List Nat)
    (hv : (tsOf (withProblem (withProblem (withProblem W c₁.prob) c₂.prob) c₃.prob)).Valid π) :
    (tsOf W).Valid (mapBack (compBack (compBack (backOf c₁) (backOf c₂)) (backOf c₃)) π) :=
  pipeline_sound
    (pipeline_sound (qr_sound_partial simp W c₁ h₁ hok₁)
      (cer_sound_partial simp hse (withProblem W c₁.prob) c₂ h₂ hok₂))
    (btr_sound_partial simp (withProblem (withProblem W c₁.prob) c₂.prob) c₃ h₃ hok₃) π hv

namespace BTQR
theorem some_getD {α : Type} {o : Option α} {d : α} (h : o.isSome = true) : o = some (o.getD d) := by
  cases o with
  | none => cases h
  | some x => rfl

/-! ## non-vacuity

### BoundedTypesRemover
fluents `b : bool = false`, `x : int[0,10] = 1`, `y : int = 5`; goal `b`, `3 <= x`; constraint `Always(x <= 8)`.
* `a0`: pre `x <= 5`; effects `b := true`, `x += 2 if y <= 5`, `y := 0 if not b`
* `a1`: pre —; effects `x -= 2` (leaves the bounds, not the constraint) -/
def a1 : Action := { name := "a1", params := [], pre := [], effs := [eff ex (Expr.int 2) Expr.tt .decrease] }
def P6 : Problem := { P1 with actions := [a0, a1] }
def W6 : World := { P := P6, simp := id, fn := fun _ _ => none }
def cBtr : Compiled := (btrCompile id P6).getD ⟨P6, []⟩
def W6c : World := withProblem W6 cBtr.prob

/-- the compiled problem: `x` unbounded, `0 <= x and x <= 10` added to every precondition and to the goal
    (the identity simplifier does not flatten the conjunction) -/
example : (btrCompile id P6).isSome = true ∧ cBtr.back = [some 0, some 1] ∧
    cBtr.prob.fluents.map (·.ref.ty) = [.bool, .int none none, .int none none] ∧
    (cBtr.prob.actions.map (·.pre.length)) = [2, 2] ∧ cBtr.prob.goals.length = 3 := by decide +kernel
/-- the hypotheses of `btr_sound_partial` hold (the `Always` constraint stays, renamed: `x' <= 8`) -/
example : (btrClauses id P6 cBtr).all (·.2) = true ∧ paramsFree P6 = true ∧
    stateInvariants cBtr.prob = [Expr.mkLE (.app (.fluent (unboundRef fx)) []) (Expr.int 8)] := by decide +kernel
example : BtrOK id W6 cBtr :=
  BtrOK.of_clauses SimpTruth_id (SimpTruthOn_id _) (SimpTruthOn_id _) (by decide +kernel)
/-- a valid compiled plan and its map-back -/
example : validB W6c [0] = true ∧ mapBack (backOf cBtr) [0] = [0] ∧ validB W6 [0] = true := by decide +kernel
/-- the compiled `a1` CAN be applied (nothing is checked in the successor any more) but leads to a dead end: the
    bounds are preconditions of every action and goals; the original `a1` is not applicable at all -/
example : ((initOf W6c).bind (fun g => (tsOf W6c).run g [1])).isSome = true ∧
    ((initOf W6).bind (fun g => (tsOf W6).run g [1])).isSome = false ∧
    validB W6c [1, 0] = false ∧ validB W6c [1] = false := by decide +kernel
example : (tsOf W6).Valid (mapBack (backOf cBtr) [0]) :=
  btr_sound_of_clauses_partial id SimpTruth_id W6 cBtr (SimpTruthOn_id _) (SimpTruthOn_id _)
    (some_getD (by decide +kernel)) (by decide +kernel) [0] (validB_sound (by decide +kernel))

/-- the hypotheses of `btr_same_trace` / `btr_condition_is_invariant` are met by the initial states: the compiled
    initial state is related to the original one (so are the evaluation contexts), and the bounds hold in both -/
example : ∃ gB gA, initOf W6c = some gB ∧ initOf W6 = some gA ∧ Rel (declared P6) gB gA ∧
    RelCtx (declared P6) (ctxOf W6c gB) (ctxOf W6 gA) ∧ (backOf cBtr 0).isSome = true := by
  have hc : btrCompile id W6.P = some cBtr := some_getD (by decide +kernel)
  have hok : BtrOK id W6 cBtr :=
    BtrOK.of_clauses SimpTruth_id (SimpTruthOn_id _) (SimpTruthOn_id _) (by decide +kernel)
  obtain ⟨ht, ho, _⟩ := btrCompile_some hc
  cases hB : initOf W6c with
  | none => exact absurd hB (by decide +kernel)
  | some gB =>
    have hV : btrV W6 cBtr gB := by
      have h0 : validB W6c [0] = true := by decide +kernel
      obtain ⟨g, gf, hi, hr, hg⟩ := validB_sound h0
      have : g = gB := by
        have hi' : initOf W6c = some g := hi
        rw [hB] at hi'; cases hi'; rfl
      subst this
      exact (btr_fwd W6 hc hok).viable g gf [0] hr hg
    obtain ⟨gA, hA, hR⟩ := (btr_fwd W6 hc hok).init gB hB hV
    exact ⟨gB, gA, rfl, hA, hR, relCtx_of ht ho hR, by decide +kernel⟩

/-! ### QuantifiersRemover
objects `o1 o2 : T`; fluents `p(T)`, `q(T)` (Boolean, default false), `p(o1)` initially true.
* `qa`: pre `Exists w:T. p(w)`; effect `forall w:T. when p(w): q(w) := true`
goal `Forall w:T. (q(w) or not p(w))` -/
def pw : Expr := .app (.fluent fp) [.leaf (.var vw)]
def qw : Expr := .app (.fluent fq) [.leaf (.var vw)]
def qa : Action where
  name := "qa"
  params := []
  pre := [.quant .ex [vw] pw]
  effs := [{ fluent := qw, value := Expr.tt, cond := pw, kind := .assign, forall_ := [vw] }]
def P7 : Problem := { P4 with actions := [qa], goals := [.quant .all [vw] (Expr.mkOr [qw, Expr.mkNot pw])] }
def W7 : World := { P := P7, simp := id, fn := fun _ _ => none }
def cQr : Compiled := (qrCompile id P7).getD ⟨P7, []⟩
def W7c : World := withProblem W7 cQr.prob

/-- the compiled action: precondition `p(o1) or p(o2)`, two conditional effects; the goal a conjunction of two -/
example : (qrCompile id P7).isSome = true ∧ cQr.back = [some 0] ∧
    cQr.prob.actions.map (·.pre) = [[Expr.mkOr [.app (.fluent fp) [o1], .app (.fluent fp) [.leaf (.obj "o2" "T")]]]] ∧
    cQr.prob.actions.map (·.effs.length) = [2] ∧ cQr.prob.goals.length = 1 := by decide +kernel
/-- `P7` is a typed problem -/
example : TypedProblem W7 := TypedProblem.of_clauses (by decide +kernel)
/-- the hypotheses of `qr_sound_partial` hold on `P7` (strict definedness by `typed_defined`) -/
example : QrOK id W7 cQr := QrOK.of_clauses SimpDen_id (by decide +kernel) (by decide +kernel)
example : (qrClauses P7 cQr).all (·.2) = true ∧ (typedClauses P7).all (·.2) = true := by decide +kernel
/-- a valid compiled plan, its map-back (itself) -/
example : validB W7c [0] = true ∧ mapBack (backOf cQr) [0] = [0] ∧ validB W7 [0] = true ∧
    validB W7c [] = false := by decide +kernel
example : (tsOf W7).Valid (mapBack (backOf cQr) [0]) :=
  qr_sound_typed_partial id SimpDen_id W7 cQr (some_getD (by decide +kernel))
    (TypedProblem.of_clauses (by decide +kernel))
    (by decide +kernel) (by decide +kernel) (by decide +kernel) (by decide +kernel) (by decide +kernel) [0]
    (validB_sound (by decide +kernel))
/-- the hypotheses of `qr_step_identity` are met in the initial state (strict definedness by `typed_defined`), and
    those of `qr_back_identity` by the compiled action -/
example : ∃ g a', initOf W7 = some g ∧ qrAction id W7.P qa = some a' ∧ DefAct id W7 g qa ∧
    cQr.prob.actions[0]? = some a' ∧ SameSig cQr.prob W7.P := by
  have hc : qrCompile id W7.P = some cQr := some_getD (by decide +kernel)
  obtain ⟨hsig, _, _, _, hbw⟩ := qrCompile_some hc
  obtain ⟨a', ha', _, hq⟩ := hbw 0 qa rfl
  cases hi : initOf W7 with
  | none => exact absurd hi (by decide +kernel)
  | some g =>
    have hd := (typed_defined id (W := W7) (TypedProblem.of_clauses (by decide +kernel)) g (Reach.init hi)).1 qa
      (List.mem_cons_self ..) rfl
    exact ⟨g, a', rfl, hq, hd, ha', hsig⟩
example : backOf cQr 0 = some 0 := by decide +kernel
/-- `rq_den_exact_where_defined` and `state_evaluator_extends_den` apply to the precondition of `qa` in the initial
    state: both the quantifier and its expansion are TRUE there -/
example : qNodup (.quant .ex [vw] pw) = true ∧
    ((initOf W7).map (fun g => (den (ctxInterp (ctxOf W7 g)) [] (.quant .ex [vw] pw),
      den (ctxInterp (ctxOf W7 g)) [] (removeQuantifiers P7 (.quant .ex [vw] pw))))) =
      some (some (.b true), some (.b true)) := by decide +kernel

/-! ### the pipeline quantifiers → conditional effects → bounded types
`P8`: objects `o1 o2 : T`; fluents `p(T)`, `q(T)` (Boolean, default false), `n : int[0,3] = 0`; `p(o1)` initially true.
* `qb`: pre `Exists w:T. p(w)`, `n <= 2`; effects `n += 1` and `forall w:T. when (p(w) and p(w)): q(w) := true`
goal `Forall w:T. (q(w) or not p(w))`, `1 <= n` -/
def fn : FluentRef := ⟨"n", .int (some 0) (some 3), []⟩
def en : Expr := .app (.fluent fn) []
def qb : Action where
  name := "qb"
  params := []
  pre := [.quant .ex [vw] pw, Expr.mkLE en (Expr.int 2)]
  effs := [{ fluent := en, value := Expr.int 1, cond := Expr.tt, kind := .increase, forall_ := [] },
           { fluent := qw, value := Expr.tt, cond := .app .and [pw, pw], kind := .assign, forall_ := [vw] }]
def P8 : Problem :=
  { P7 with fluents := P7.fluents ++ [⟨fn, some (Expr.int 0)⟩], actions := [qb],
            goals := P7.goals ++ [Expr.mkLE (Expr.int 1) en] }
def W8 : World := { P := P8, simp := id, fn := fun _ _ => none }
def c8a : Compiled := (qrCompile id P8).getD ⟨P8, []⟩
def c8b : Compiled := (cerCompile id c8a.prob).getD ⟨P8, []⟩
def c8c : Compiled := (btrCompile id c8b.prob).getD ⟨P8, []⟩
def W8a : World := withProblem W8 c8a.prob
def W8b : World := withProblem W8a c8b.prob
def W8c : World := withProblem W8b c8c.prob
/-- every hypothesis of `qr_then_cer_then_btr_sound_partial` holds on `P8` (a typed problem with a bounded fluent) -/
example : QrOK id W8 c8a := QrOK.of_clauses SimpDen_id (by decide +kernel) (by decide +kernel)
example : ∀ a ∈ c8a.prob.actions, cerOK (cerExpand c8a.prob a) = true := by decide +kernel
example : BtrOK id W8b c8c :=
  BtrOK.of_clauses SimpTruth_id (SimpTruthOn_id _) (SimpTruthOn_id _) (by decide +kernel)
/-- the three stages succeed: one action → its 2 × 2 variants minus the pruned ones, each with the bounds of `n`; a
    valid plan of the final problem and its map-back through the three compilers -/
example : (qrCompile id P8).isSome = true ∧ (cerCompile id c8a.prob).isSome = true ∧
    (btrCompile id c8b.prob).isSome = true ∧ c8c.prob.actions.length = 4 ∧
    (List.range 4).map (fun i => validB W8c [i]) = [false, true, false, false] ∧
    mapBack (compBack (compBack (backOf c8a) (backOf c8b)) (backOf c8c)) [1] = [0] ∧ validB W8 [0] = true := by
  decide +kernel
example : (tsOf W8).Valid (mapBack (compBack (compBack (backOf c8a) (backOf c8b)) (backOf c8c)) [1]) :=
  qr_then_cer_then_btr_sound_partial id SimpExact_id W8 c8a c8b c8c (some_getD (by decide +kernel))
    (QrOK.of_clauses SimpDen_id (by decide +kernel) (by decide +kernel)) (some_getD (by decide +kernel))
    (by decide +kernel) (some_getD (by decide +kernel))
    (BtrOK.of_clauses SimpTruth_id (SimpTruthOn_id _) (SimpTruthOn_id _) (by decide +kernel)) [1]
    (validB_sound (by decide +kernel))
end BTQR

end UPVerif.C06
