import UPVerif.Lemmas.HashConsLemmas
/-!
# C16 — Expressions are hash-consed and constructors normalise as documented

Statements only (helper lemmas live in `Lemmas/HashConsLemmas.lean`).  The model
(`Core/HashCons.lean`) is the expression manager: a heap of `FNode` objects (`Ref` = object
identity), the memo table keyed by node content, the id counter, `auto_promote` and the
constructors.  All theorems hold for EVERY manager state satisfying the table invariant `Inv`, and
`invariant_history` / `invariant_createNode` show that every state reachable by any history of
constructor calls, or by any sequence of direct `create_node` calls on existing nodes, satisfies
it.  No size bound anywhere.
-/
namespace UPVerif.C16
open UPVerif.HashCons

/-! ## the invariant holds over every construction history -/

/-- the freshly initialised manager (TRUE and FALSE registered) satisfies the invariant -/
theorem invariant_init : Inv Mgr.new := Mgr.new_inv

/-- `create_node` on existing children keeps the invariant and only adds nodes -/
theorem invariant_createNode {m : Mgr} (hI : Inv m) (op : Op) (args : List Ref) (p : Payload)
    (hv : ∀ a ∈ args, a < m.heap.length) :
    Inv (createNode m op args p).1 ∧ Ext m (createNode m op args p).1 :=
  let h := createNode_good hI op args p hv
  ⟨h.1, h.2.1⟩

/-- every constructor call keeps the invariant, only adds nodes, and returns an existing node -/
theorem invariant_step {m : Mgr} (hI : Inv m) {rs : List Res} (hrs : ∀ r ∈ rs, r.valid m) (c : Cmd)
    {m' : Mgr} {res : Res} (h : step m rs c = some (m', res)) : Inv m' ∧ Ext m m' ∧ res.valid m' :=
  let g := step_good hI hrs c h
  ⟨g.1.inv, g.1.ext, g.2⟩

/-- … hence so does every history of constructor calls, of any length, from the initial manager -/
theorem invariant_history (cmds : List Cmd) {m : Mgr} {rs : List Res}
    (h : run Mgr.new [] cmds = some (m, rs)) : Inv m ∧ Ext Mgr.new m ∧ ∀ r ∈ rs, r.valid m :=
  let g := run_good Mgr.new_inv (by simp) cmds h
  ⟨g.1.inv, g.1.ext, g.2.1⟩

/-- ids are positive, below the counter, and pairwise distinct: two allocated nodes have the same
    `node_id` exactly when they are the same node -/
theorem ids_distinct {m : Mgr} (hI : Inv m) {i j : Nat} {a b : FNode}
    (ha : m.heap[i]? = some a) (hb : m.heap[j]? = some b) :
    (a.nodeId = b.nodeId ↔ i = j) ∧ 0 < a.nodeId ∧ a.nodeId < m.nextFreeId := by
  have h1 := hI.ids i a ha
  have h2 := hI.ids j b hb
  have h3 := lt_of_getElem?_some ha
  refine ⟨⟨fun h => by omega, fun h => by omega⟩, by omega, by rw [hI.next]; omega⟩

/-- the table is injective both ways: a content is registered under exactly the node carrying it -/
theorem table_exact {m : Mgr} (hI : Inv m) (c : Content) (r : Ref) :
    m.expressions.lookup c = some r ↔ ∃ n, m.heap[r]? = some n ∧ n.content = c := by
  constructor
  · exact hI.lookup_some
  · rintro ⟨n, hn, hc⟩; subst hc; exact hI.lookup_of_mem hn

/-! ## same expression, same node -/

/-- building a content that exists already — at any later time — returns the very node that
    carries it and leaves the manager untouched -/
theorem same_content_same_node {m m' : Mgr} (hI' : Inv m') (hext : Ext m m') {r : Ref} {n : FNode}
    (hn : m.heap[r]? = some n) :
    createNode m' n.content.op n.content.args n.content.payload = (m', r) :=
  createNode_of_some (hI'.lookup_of_mem (hext.getElem?_some hn))

/-- in particular `create_node` is idempotent -/
theorem createNode_twice {m : Mgr} (hI : Inv m) (op : Op) (args : List Ref) (p : Payload)
    (hv : ∀ a ∈ args, a < m.heap.length) :
    createNode (createNode m op args p).1 op args p = createNode m op args p := by
  obtain ⟨h1, _, n, hn, hc⟩ := createNode_good hI op args p hv
  have := same_content_same_node h1 (Ext.refl _) hn
  rw [hc] at this
  exact this

/-- the same at the level of constructors: re-issuing ANY modelled constructor call (same constructor,
    same arguments) in any later state returns the identical node — or raises the same error — and
    creates nothing -/
theorem rebuild_same_node {m : Mgr} (hI : Inv m) {rs : List Res} (hrs : ∀ r ∈ rs, r.valid m) (c : Cmd)
    {m1 : Mgr} {res : Res} (h : step m rs c = some (m1, res))
    {M : Mgr} (hM : Inv M) (hext : Ext m1 M) : step M rs c = some (M, res) :=
  step_stable hI hrs c h hM hext

/-- … so after any history from the initial manager, building its k-th expression again (the
    arguments being the nodes they were) yields the k-th result again and leaves the manager as it is -/
theorem rebuild_history (cmds : List Cmd) {m : Mgr} {rs : List Res}
    (h : run Mgr.new [] cmds = some (m, rs)) (k : Nat) (c : Cmd) (hk : cmds[k]? = some c) :
    step m (rs.take k) c = (rs[k]?).map (fun r => (m, r)) := by
  have hI := (invariant_history cmds h).1
  have := run_replay Mgr.new_inv (by simp) cmds h k c hk m hI (Ext.refl m)
  simpa using this

/-- the expression denoted by a node: its operator and payload over the expressions of its children -/
theorem tree_unfold {m : Mgr} (hI : Inv m) {r : Ref} {n : FNode} (hn : m.heap[r]? = some n) :
    m.tree r = .node n.content.op (n.content.args.map m.tree) n.content.payload :=
  hI.tree_eq hn

/-- hash-consing proper: two nodes of one manager that denote the same expression tree are the
    same node (so node identity may be used as structural equality of expressions) -/
theorem same_expression_same_node {m : Mgr} (hI : Inv m) {i j : Ref}
    (hi : i < m.heap.length) (hj : j < m.heap.length) (h : m.tree i = m.tree j) : i = j :=
  hI.tree_inj i j hi hj h

/-! ## different expressions, different nodes, different ids -/

theorem different_content_different_id {m : Mgr} (hI : Inv m) {i j : Ref} {a b : FNode}
    (ha : m.heap[i]? = some a) (hb : m.heap[j]? = some b) (hc : a.content ≠ b.content) :
    i ≠ j ∧ a.nodeId ≠ b.nodeId := by
  have hij : i ≠ j := by
    intro e; subst e; rw [ha] at hb; exact hc (by rw [Option.some.inj hb])
  exact ⟨hij, fun e => hij ((ids_distinct hI ha hb).1.1 e)⟩

theorem different_expression_different_id {m : Mgr} (hI : Inv m) {i j : Ref} {a b : FNode}
    (ha : m.heap[i]? = some a) (hb : m.heap[j]? = some b) (ht : m.tree i ≠ m.tree j) :
    i ≠ j ∧ a.nodeId ≠ b.nodeId ∧ a.content ≠ b.content := by
  have hij : i ≠ j := fun e => ht (by rw [e])
  exact ⟨hij, fun e => hij ((ids_distinct hI ha hb).1.1 e), fun e => hij (hI.distinct i j a b ha hb e)⟩

/-- conversely distinct nodes never denote the same expression -/
theorem different_node_different_expression {m : Mgr} (hI : Inv m) {i j : Ref}
    (hi : i < m.heap.length) (hj : j < m.heap.length) (hij : i ≠ j) : m.tree i ≠ m.tree j :=
  fun h => hij (same_expression_same_node hI hi hj h)

/-! ## nodes never change -/

/-- a later state shows every old node with the same operator, children, payload and id, and the
    same denoted expression -/
theorem immutable {m m' : Mgr} (hext : Ext m m') {r : Ref} (hr : r < m.heap.length) :
    m'.heap[r]? = m.heap[r]? ∧ m'.tree r = m.tree r :=
  ⟨hext.getElem? hr, hext.tree hr⟩

/-- every history of constructor calls is such a later state -/
theorem immutable_history {m : Mgr} (hI : Inv m) {rs : List Res} (hrs : ∀ r ∈ rs, r.valid m)
    (cmds : List Cmd) {m' : Mgr} {rs' : List Res} (h : run m rs cmds = some (m', rs'))
    {r : Ref} {n : FNode} (hn : m.heap[r]? = some n) :
    m'.heap[r]? = some n ∧ m'.tree r = m.tree r ∧ rs <+: rs' := by
  obtain ⟨g, _, hp⟩ := run_good hI hrs cmds h
  exact ⟨g.ext.getElem?_some hn, g.ext.tree (lt_of_getElem?_some hn), hp⟩

/-! ## documented normalisations, one equation per rule -/

/-- `And()` is TRUE, `Or()` is FALSE … -/
theorem and_zero (m : Mgr) : apply m .and [] = some (m, .ok m.trueExpr) := rfl
theorem or_zero (m : Mgr) : apply m .or [] = some (m, .ok m.falseExpr) := rfl
/-- … and these are the Boolean constants -/
theorem true_false_nodes {m : Mgr} (hI : Inv m) :
    (∃ k, m.heap[m.trueExpr]? = some ⟨⟨.boolC, [], .bool true⟩, k⟩) ∧
    (∃ k, m.heap[m.falseExpr]? = some ⟨⟨.boolC, [], .bool false⟩, k⟩) := ⟨hI.true_, hI.false_⟩

/-- `Plus()` is `Int(0)`, `Times()` is `Int(1)` -/
theorem plus_zero (m : Mgr) : apply m .plus [] = apply m (.int 0) [] := rfl
theorem times_zero (m : Mgr) : apply m .times [] = apply m (.int 1) [] := rfl
theorem int_node {m : Mgr} (hI : Inv m) (z : Int) :
    ∃ m' r n, apply m (.int z) [] = some (m', .ok r) ∧ m'.heap[r]? = some n ∧
      n.content = ⟨.intC, [], .int z⟩ := by
  obtain ⟨_, _, n, hn, hc⟩ := createNode_good hI .intC [] (.int z) (by simp)
  exact ⟨_, _, n, rfl, hn, hc⟩

/-- `And`/`Or`/`Plus`/`Times` with ONE argument return that argument (after promotion) -/
theorem nary_one {m m1 : Mgr} {ps : List (PArg Arg)} {a : Ref}
    (h : autoPromote m (polymorph ps) = (m1, .ok [a])) :
    apply m .and ps = some (m1, .ok a) ∧ apply m .or ps = some (m1, .ok a) ∧
    apply m .plus ps = some (m1, .ok a) ∧ apply m .times ps = some (m1, .ok a) := by
  simp [apply, mkAnd, mkOr, mkPlus, mkTimes, mkNary, h, naryRefs]

/-- … with two or more they build one node over exactly the promoted arguments, in order -/
theorem nary_many {m m1 : Mgr} {ps : List (PArg Arg)} {a b : Ref} {rs : List Ref}
    (h : autoPromote m (polymorph ps) = (m1, .ok (a :: b :: rs))) :
    apply m .and ps = some ((createNode m1 .and (a :: b :: rs)).1, .ok (createNode m1 .and (a :: b :: rs)).2) ∧
    apply m .or ps = some ((createNode m1 .or (a :: b :: rs)).1, .ok (createNode m1 .or (a :: b :: rs)).2) ∧
    apply m .plus ps = some ((createNode m1 .plus (a :: b :: rs)).1, .ok (createNode m1 .plus (a :: b :: rs)).2) ∧
    apply m .times ps = some ((createNode m1 .times (a :: b :: rs)).1, .ok (createNode m1 .times (a :: b :: rs)).2) := by
  simp [apply, mkAnd, mkOr, mkPlus, mkTimes, mkNary, h, naryRefs]

/-- `Not` of a NOT node returns its child and creates nothing -/
theorem not_not {m : Mgr} {r x : Ref} {xs : List Ref} {n : FNode} (hn : m.heap[r]? = some n)
    (hop : n.content.op = .not) (hargs : n.content.args = x :: xs) :
    apply m .not [.one (.node r)] = some (m, .ok x) := by
  simp [apply, mkNot, polymorph, autoPromote, promote, notRef, hn, hop, hargs]

/-- `Not` of anything else builds the NOT node over it -/
theorem not_other {m : Mgr} {r : Ref} {n : FNode} (hn : m.heap[r]? = some n) (hop : n.content.op ≠ .not) :
    apply m .not [.one (.node r)] = some ((createNode m .not [r]).1, .ok (createNode m .not [r]).2) := by
  simp [apply, mkNot, polymorph, autoPromote, promote, notRef, hn, hop]

/-- double negation: negating `x` (not itself a negation) and negating the result gives back `x` -/
theorem not_not_roundtrip {m : Mgr} (hI : Inv m) {r : Ref} {n : FNode} (hn : m.heap[r]? = some n)
    (hop : n.content.op ≠ .not) :
    ∃ m1 r1, apply m .not [.one (.node r)] = some (m1, .ok r1) ∧
      apply m1 .not [.one (.node r1)] = some (m1, .ok r) := by
  have hv : ∀ a ∈ [r], a < m.heap.length := by simpa using lt_of_getElem?_some hn
  obtain ⟨_, _, n1, hn1, hc1⟩ := createNode_good hI .not [r] .none hv
  refine ⟨_, _, not_other hn hop, ?_⟩
  exact not_not hn1 (by rw [hc1]) (by rw [hc1])

/-- `GE(l, r)` is the LE node over the promoted arguments mirrored; `GT` likewise with LT -/
theorem ge_gt_mirrored {m m1 : Mgr} {l r : PArg Arg} {a b : Ref}
    (h : autoPromote m (polymorph [l, r]) = (m1, .ok [a, b])) :
    apply m .ge [l, r] = some ((createNode m1 .le [b, a]).1, .ok (createNode m1 .le [b, a]).2) ∧
    apply m .gt [l, r] = some ((createNode m1 .lt [b, a]).1, .ok (createNode m1 .lt [b, a]).2) ∧
    apply m .le [l, r] = some ((createNode m1 .le [a, b]).1, .ok (createNode m1 .le [a, b]).2) ∧
    apply m .lt [l, r] = some ((createNode m1 .lt [a, b]).1, .ok (createNode m1 .lt [a, b]).2) := by
  simp [apply, mkVia, h, post2, post2swap]

/-- on nodes: `GE(a, b)` IS `LE(b, a)` and `GT(a, b)` IS `LT(b, a)` — same node, same state -/
theorem ge_is_le (m : Mgr) (a b : Ref) :
    apply m .ge [.one (.node a), .one (.node b)] = apply m .le [.one (.node b), .one (.node a)] ∧
    apply m .gt [.one (.node a), .one (.node b)] = apply m .lt [.one (.node b), .one (.node a)] := by
  simp [apply, mkVia, polymorph, autoPromote, promote, post2, post2swap]

/-- numeric literals: `uniform_numeric_constant` keeps the value and returns an `int` whenever the
    value is integral (a `Fraction` result never has denominator 1) -/
theorem numeric_literal_canonical {l : Lit} {v : Num} (h : uniformNumericConstant l = .ok v) :
    l.value = some v.value ∧ v.canonical := uniform_spec h

/-- … so two spellings of one number are promoted to the same constant -/
theorem same_number_same_constant {l1 l2 : Lit} {v1 v2 : Num}
    (h1 : uniformNumericConstant l1 = .ok v1) (h2 : uniformNumericConstant l2 = .ok v2)
    (hv : l1.value = l2.value) : v1 = v2 := by
  obtain ⟨e1, c1⟩ := uniform_spec h1
  obtain ⟨e2, c2⟩ := uniform_spec h2
  rw [e1, e2, Option.some.injEq] at hv
  exact Num.eq_of_value c1 c2 hv

/-- … which `auto_promote` turns into `Int(z)` or `Real(q)`, i.e. an INT_CONSTANT / REAL_CONSTANT node
    with exactly that payload -/
theorem numeric_literal_promoted {m : Mgr} (hI : Inv m) {l : Lit} {v : Num} (h : uniformNumericConstant l = .ok v) :
    ∃ m' r n, promote m (.num l) = (m', .ok r) ∧ m'.heap[r]? = some n ∧
      n.content = (match v with
        | .i z => ⟨.intC, [], .int z⟩
        | .q q => ⟨.realC, [], .real q⟩) := by
  cases v with
  | i z =>
    obtain ⟨_, _, n, hn, hc⟩ := createNode_good hI .intC [] (.int z) (by simp)
    exact ⟨_, _, n, promote_num_int h, hn, hc⟩
  | q q =>
    obtain ⟨_, _, n, hn, hc⟩ := createNode_good hI .realC [] (.real q) (by simp)
    exact ⟨_, _, n, promote_num_real h, hn, hc⟩

/-! ## non-vacuity: a concrete history exercising every clause -/
section examples

def f0 : SArg := .fluent "b0" 0
def demo : List Cmd := [
  ⟨.fluentExp "b0" 0, [.many []]⟩,                              -- 0: b0
  ⟨.not, [.one (.res 0)]⟩,                                       -- 1: not b0
  ⟨.not, [.one (.res 1)]⟩,                                       -- 2: = step 0
  ⟨.and, [.one f0, .one (.res 1)]⟩,                              -- 3: b0 and not b0
  ⟨.and, [.many [.res 0, .res 1]]⟩,                              -- 4: = step 3
  ⟨.ge, [.one (.num (.int 3)), .one (.num (.str "1/2"))]⟩,       -- 5: 1/2 <= 3
  ⟨.le, [.one (.num (.float 1 2)), .one (.num (.frac 6 2))]⟩,    -- 6: = step 5
  ⟨.plus, []⟩, ⟨.and, [.one (.res 5)]⟩,                          -- 7: Int 0;  8: = step 5
  ⟨.exists [], [.one (.res 0)]⟩ ]                                -- 9: error

example : (run Mgr.new [] demo).map (·.2) =
    some [.ok 2, .ok 3, .ok 2, .ok 4, .ok 4, .ok 7, .ok 7, .ok 8, .ok 7, .err .usage] := by decide +kernel
example : (run Mgr.new [] demo).map (·.1.heap.length) = some 9 := by decide +kernel
example : demo[4]? = some ⟨.and, [.many [.res 0, .res 1]]⟩ ∧ demo.length = 10 := ⟨rfl, rfl⟩
example : (run Mgr.new [] demo).map (fun p => p.1.heap[7]?.map (·.content)) =
    some (some ⟨.le, [6, 5], .none⟩) := by decide +kernel
example : (uniformNumericConstant (.str "4/2")).toOption = some (.i 2)
    ∧ (uniformNumericConstant (.float 1 2)).toOption = some (.q (mkRat 1 2))
    ∧ (uniformNumericConstant (.str "0.50")).toOption = some (.q (mkRat 1 2))
    ∧ (uniformNumericConstant (.str "x")).toOption = none ∧ (uniformNumericConstant (.str "-12")).toOption = some (.i (-12)) := by
  decide +kernel

end examples

end UPVerif.C16
