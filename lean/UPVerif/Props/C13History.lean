import UPVerif.Lemmas.SubstLemmas
import UPVerif.Lemmas.SubstHistory
/-!
# C13 on the SHARED substituter: the result of a call, whatever was called before

`FNode.substitute` / `env.substituter.substitute` run on ONE `Substituter` object per environment,
whose work stack and one-time cache (keyed by the node only — `_get_key` ignores `subs`) survive from
call to call.  The theorems of `Props/C13.lean` are about `Expr.subst`, the pure recursion a single
walk computes.  Here the same clauses are stated for the LAST call of an arbitrary history run on the
stack-and-cache machine itself (`Dag.Env.run`, Core/DagWalker.lean: `DagWalker.walk`, `iter_walk`,
`_process_stack`, the overriding `_push_with_children_to_stack`, the pre-check of `substitute`), with
earlier calls that returned, were rejected by the pre-check, or raised half-way through the rebuild
because the expression manager refused a node (`reject`, an arbitrary predicate: which constructions
are ill-typed is C15's subject; the correspondence check measures it on the real type checker).

The machine theorems (`Clean` invariant, `walk_spec`) are property C14's; what is added here is their
composition with C13's clauses — the statement `./check C13` ties to the code on generated histories.
-/
namespace UPVerif.C13
open UPVerif UPVerif.Expr UPVerif.Dag

/-- the dict of a call (`Dag.Call.subst` carries, per pair, the verdict of the type-compatibility test) -/
def mapOf (σ : List (Expr × Expr × Bool)) : Subst := σ.map (fun kvc => (kvc.1, kvc.2.1))

/-- the answer to the last call of a history run on one fresh environment -/
def lastAnswer (reject : Expr → Bool) (h : List Call) (c : Call) : Option Ans :=
  (Env.run reject Env.fresh (h ++ [c])).1.getLast?

/-- **History independence of the result**: after ANY history `h` on the shared environment (other
    maps on shared sub-terms, the same call twice, rejected maps, walks that raised half-way), the
    answer to a call is the one computed from that call's arguments alone. -/
theorem history_last_answer (reject : Expr → Bool) (h : List Call) (c : Call) :
    lastAnswer reject h c = some (pureCall reject c) := by
  unfold lastAnswer
  rw [(envRun_spec reject (h ++ [c]) Env.fresh (EnvClean.fresh reject)).1]
  simp

/-- every call of the history, not only the last one -/
theorem history_answers (reject : Expr → Bool) (h : List Call) :
    (Env.run reject Env.fresh h).1 = h.map (pureCall reject) :=
  (envRun_spec reject h Env.fresh (EnvClean.fresh reject)).1

/-- A type-compatible non-empty map: the last call either returns `subst σ e` — the expression with
    each maximal free key occurrence replaced (`subst_spec`) — or raises at a node the manager
    refuses; never a stale value, never a `KeyError`. -/
theorem history_last_result (reject : Expr → Bool) (h : List Call)
    (σ : List (Expr × Expr × Bool)) (e : Expr)
    (hne : σ ≠ []) (hall : ∀ kvc ∈ σ, kvc.2.2 = true) :
    lastAnswer reject h (.subst σ e) = some (.expr (subst (mapOf σ) e)) ∨
    ∃ n, reject n = true ∧ lastAnswer reject h (.subst σ e) = some (.raised n) := by
  rw [history_last_answer]
  have h1 : σ.isEmpty = false := by
    cases σ with
    | nil => exact absurd rfl hne
    | cons _ _ => rfl
  have h2 : (σ.all fun kvc => kvc.2.2) = true := List.all_eq_true.2 hall
  simp only [pureCall, h1, h2, Bool.false_eq_true, if_false, if_true]
  cases hs : substE reject (σ.map fun kvc => (kvc.1, kvc.2.1)) e with
  | ok r =>
    left
    have := substE_ok reject _ e r hs
    simp [liftPure, ansOfSub, this, mapOf]
  | error x =>
    right
    cases x with
    | rejected n =>
      exact ⟨n, substE_error reject _ e n hs, by simp [liftPure, ansOfSub]⟩

/-- … so when the manager refuses nothing that this call builds (here: nothing at all), the call
    returns `subst σ e` whatever came before. -/
theorem history_last_result_total (h : List Call) (σ : List (Expr × Expr × Bool)) (e : Expr)
    (hne : σ ≠ []) (hall : ∀ kvc ∈ σ, kvc.2.2 = true) :
    lastAnswer (fun _ => false) h (.subst σ e) = some (.expr (subst (mapOf σ) e)) := by
  rcases history_last_result (fun _ => false) h σ e hne hall with h1 | ⟨n, hn, _⟩
  · exact h1
  · cases hn

/-- **The syntactic clause after any history**: if the last call returns `r`, then `r` is the
    expression with each maximal free occurrence of a key replaced by its value (top-down, values
    verbatim, keys mentioning a bound variable inert below its binder) — for every `reject`. -/
theorem history_last_replaces (reject : Expr → Bool) (h : List Call)
    (σ : List (Expr × Expr × Bool)) (e r : Expr) (hne : σ ≠ [])
    (hr : lastAnswer reject h (.subst σ e) = some (.expr r)) :
    Replaces (mapOf σ) [] e r := by
  rw [history_last_answer] at hr
  have h1 : σ.isEmpty = false := by
    cases σ with
    | nil => exact absurd rfl hne
    | cons _ _ => rfl
  simp only [pureCall, h1, Bool.false_eq_true, if_false, Option.some.injEq] at hr
  split at hr
  · cases hs : substE reject (σ.map fun kvc => (kvc.1, kvc.2.1)) e with
    | ok r' =>
      rw [hs] at hr
      simp only [liftPure, ansOfSub, Ans.expr.injEq] at hr
      subst hr
      have := substE_ok reject _ e r' hs
      rw [this]
      have hrep := replaces_subst (mapOf σ) e []
      rw [restrict_nil] at hrep
      exact hrep
    | error x =>
      rw [hs] at hr
      cases x with
      | rejected n => simp [liftPure, ansOfSub] at hr
  · cases hr

/-- the empty map returns the expression itself (not re-normalised), after any history -/
theorem history_last_empty (reject : Expr → Bool) (h : List Call) (e : Expr) :
    lastAnswer reject h (.subst [] e) = some (.expr e) := by
  rw [history_last_answer]; rfl

/-- **Rejected before anything changes — on the machine**: a map with an incompatible pair is
    answered `UPTypeError` and the environment (stack, cache of every shared walker) is EXACTLY what it
    was, whatever state it was in. -/
theorem history_reject_changes_nothing (reject : Expr → Bool) (E : Env)
    (σ : List (Expr × Expr × Bool)) (e : Expr) (kvc : Expr × Expr × Bool)
    (hmem : kvc ∈ σ) (hbad : kvc.2.2 = false) :
    E.call reject (.subst σ e) = (.incompatible, E) := by
  have h1 : σ.isEmpty = false := by
    cases σ with
    | nil => cases hmem
    | cons _ _ => rfl
  have h2 : (σ.all fun kvc => kvc.2.2) = false := by
    cases hh : (σ.all fun kvc => kvc.2.2) with
    | false => rfl
    | true =>
      rw [List.all_eq_true] at hh
      have := hh kvc hmem
      rw [hbad] at this
      cases this
  simp [Env.call, h1, h2]

/-- and it is rejected after any history -/
theorem history_last_rejects (reject : Expr → Bool) (h : List Call)
    (σ : List (Expr × Expr × Bool)) (e : Expr) (kvc : Expr × Expr × Bool)
    (hmem : kvc ∈ σ) (hbad : kvc.2.2 = false) :
    lastAnswer reject h (.subst σ e) = some .incompatible := by
  rw [history_last_answer]
  have h1 : σ.isEmpty = false := by
    cases σ with
    | nil => cases hmem
    | cons _ _ => rfl
  have h2 : (σ.all fun kvc => kvc.2.2) = false := by
    cases hh : (σ.all fun kvc => kvc.2.2) with
    | false => rfl
    | true =>
      rw [List.all_eq_true] at hh
      have := hh kvc hmem
      rw [hbad] at this
      cases this
  simp [pureCall, h1, h2]

/-- **The semantic clause after any history** — PARTIAL exactly as `subst_semantics_partial`: proved
    under `noCapture` (finding F-C13-capture; the statement without it is refuted in `Props/C13.lean`,
    `subst_semantics_full_refuted`, already on a one-call history). -/
theorem history_last_semantics_partial (reject : Expr → Bool) (h : List Call)
    (σ : List (Expr × Expr × Bool)) (e r : Expr)
    (hr : lastAnswer reject h (.subst σ e) = some (.expr r))
    (ι : Interp) (ρ : VEnv)
    (hok : SemOK (mapOf σ) e = true) (hcap : noCapture (mapOf σ) e = true)
    (hdef : VarValuesDefined ι ρ (mapOf σ)) (hcol : CollapseOK ι (mapOf σ) e) :
    den ι ρ r = den (updInterp ι ρ (mapOf σ)) (updEnv ι ρ (mapOf σ)) e := by
  cases σ with
  | nil =>
    rw [history_last_empty] at hr
    simp only [Option.some.injEq, Ans.expr.injEq] at hr
    subst hr
    show den ι ρ e = den (updInterp ι ρ []) (updEnv ι ρ []) e
    rw [(upd_nil ι ρ).1, (upd_nil ι ρ).2]
  | cons kvc σ =>
    have hrep := history_last_replaces reject h (kvc :: σ) e r (by simp) hr
    have := replaces_fun (mapOf (kvc :: σ)) e [] r hrep
    rw [restrict_nil] at this
    rw [this]
    exact subst_sem ι ρ _ e hok hcap hdef hcol

/-! ### non-vacuity: the history of `seeded/C13-2`

`g(i : int[0,3]) : bool`, `p : int[2,5]`, `q : int[4,9]`, Boolean fluents `a b c`.
Call 1: `And(g(p), Not(a)).substitute({p: q, a: b})` passes the pre-check (the intervals of `p` and `q`
overlap) and raises when `g(q)` is rebuilt — after `Not(a)` was rewritten to `Not(b)` and cached.
Call 2: `Or(Not(a), c).substitute({a: c})` must return `Or(Not(c), c)`. -/

private def fl0 (n : String) : Expr := .app (.fluent { name := n, ty := .bool, sig := [] }) []
private def A := fl0 "a"
private def Bx := fl0 "b"
private def C := fl0 "c"
private def I03 : Ty := .int (some 0) (some 3)
private def G (x : Expr) : Expr := .app (.fluent { name := "g", ty := .bool, sig := [I03] }) [x]
private def P : Expr := .leaf (.param "p" (.int (some 2) (some 5)))
private def Q : Expr := .leaf (.param "q" (.int (some 4) (some 9)))
private def refuseGQ (n : Expr) : Bool := decide (n = G Q)

private def call1 : Call := .subst [(P, Q, true), (A, Bx, true)] (.app .and [G P, .app .not [A]])
private def call2 : Call := .subst [(A, C, true)] (.app .or [.app .not [A], C])

/-- the machine, run on the two-call history: the first call raises at `g(q)`, the second returns
    `Or(Not(c), c)` -/
example : (Env.run refuseGQ Env.fresh [call1, call2]).1
    = [.raised (G Q), .expr (.app .or [.app .not [C], C])] := by decide +kernel
example : lastAnswer refuseGQ [call1] call2 = some (.expr (.app .or [.app .not [C], C])) := by
  decide +kernel
/-- hypotheses of `history_last_result` / `history_last_rejects` are satisfiable -/
example : ([(A, C, true)] : List (Expr × Expr × Bool)) ≠ [] ∧
    ∀ kvc ∈ ([(A, C, true)] : List (Expr × Expr × Bool)), kvc.2.2 = true := by decide
example : ((A, Expr.int 5, false) : Expr × Expr × Bool) ∈ [(Bx, C, true), (A, Expr.int 5, false)] := by
  decide
/-- the same expression twice with the same map, then with another map on a shared sub-term -/
example : (Env.run (fun _ => false) Env.fresh
      [call2, call2, .subst [(A, Bx, true)] (.app .and [.app .not [A], C])]).1
    = [.expr (.app .or [.app .not [C], C]), .expr (.app .or [.app .not [C], C]),
       .expr (.app .and [.app .not [Bx], C])] := by decide +kernel

/-! ### what the seeded change does to the machine

`walkKeepOnError` = `DagWalker.walk` with the cache cleared only after a SUCCESSFUL walk (the stack is
restored in both cases).  On the history above the second call then returns `Or(Not(b), c)`: the
theorem `history_last_answer` is false for that machine. -/

/-- `DagWalker.walk` clearing the one-time cache only on success -/
def walkKeepOnError {Arg Val ε : Type} (S : Spec Arg Val ε) (a : Arg) (w : Walker Val) (e : Expr) :
    Except (Err ε) Val × Walker Val :=
  match w.memo.get? e with
  | some v => (.ok v, w)
  | none =>
    match iterWalk S a (fuelFor e) w e with
    | (.ok v, w') => (.ok v, finish S w.stack.length w')
    | (.error x, w') => (.error x, { stack := keepBottom w.stack.length w'.stack, memo := w'.memo })

theorem keepOnError_not_history_independent :
    (runHistory (walkKeepOnError (substSpec refuseGQ)) Walker.fresh
        [([(P, Q), (A, Bx)], .app .and [G P, .app .not [A]]), ([(A, C)], .app .or [.app .not [A], C])]).1
      = [.error (.node (.rejected (G Q))), .ok (.app .or [.app .not [Bx], C])] := by decide +kernel

end UPVerif.C13
