import UPVerif.Lemmas.STNLemmas
import UPVerif.Lemmas.STNTermination
/-!
# C25 — DeltaSTN decides temporal consistency exactly

Statements only (helper lemmas: `Lemmas/STNLemmas.lean`, `Lemmas/STNTermination.lean`; model and
the vocabulary `Con`, `Sol`, `events`, `addAll`, `run`, `runLines`, `wellIndexed`: `Core/STN.lean`).

`addAll fuel empty cs = some s` reads: a fresh `DeltaSimpleTemporalNetwork()` received the
insertions `cs` (`add(c.x, c.y, c.b)`, i.e. `c.x - c.y ≤ c.b`) in order, every `_inc_check`
returned within `fuel` pops, and `s` is the resulting network.  All theorems hold for every event
type, every list of insertions with rational bounds, every fuel: no size bound anywhere.

The model's `while queue:` loop is fuelled.  `C25_terminates` / `C25_history_terminates` show that
for every history SOME fuel makes every `_inc_check` return, and `C25_fuel_irrelevant` that the
result does not depend on which; so the hypothesis `addAll fuel empty cs = some s` of the other
theorems can always be met and pins `s` uniquely.  (The driver uses a concrete fuel; if it were
too small the correspondence check would show `out-of-fuel` against the real code's answer.)
-/
namespace UPVerif.C25
open UPVerif.STN

variable {Ev : Type} [DecidableEq Ev]

/-! ## "while it is consistent, the reported model satisfies every inserted constraint" -/

/-- consistent verdict ⇒ `get_stn_model` satisfies EVERY inserted constraint, the ones dropped as
subsumed included -/
theorem C25_sat_sound (fuel : Nat) (cs : List (Con Ev)) (s : Net Ev)
    (h : addAll fuel empty cs = some s) (hs : checkStn s = true) : Sol (model s) cs := by
  have inv := addAll_inv fuel cs empty s [] inv_empty h
  simp only [List.nil_append] at inv
  intro c hc
  obtain ⟨w, hw, hm⟩ := inv.ins_edge hs c hc
  have := inv.feas hs c.x c.y w hm
  simp only [model]
  grind

/-- … and assigns a non-negative time to every event -/
theorem C25_model_nonneg (fuel : Nat) (cs : List (Con Ev)) (s : Net Ev)
    (h : addAll fuel empty cs = some s) (hs : checkStn s = true) : ∀ v, 0 ≤ model s v := by
  have inv := addAll_inv fuel cs empty s [] inv_empty h
  intro v
  have := inv.nonpos hs v
  simp only [model]
  grind

/-- … and is defined (`self._distances[x]` is present: no `KeyError`) on every inserted event -/
theorem C25_model_defined (fuel : Nat) (cs : List (Con Ev)) (s : Net Ev)
    (h : addAll fuel empty cs = some s) (hs : checkStn s = true) :
    ∀ v ∈ events cs, (lookup v s.dist).isSome = true := by
  intro v hv
  exact addAll_keys fuel cs empty s (fun _ => False) (fun _ _ hf => hf.elim) h hs v (Or.inr hv)

/-! ## "… and is the least solution in which every event time is non-negative" -/

/-- consistent verdict ⇒ the reported model is pointwise below every solution that is
non-negative on the inserted events -/
theorem C25_least (fuel : Nat) (cs : List (Con Ev)) (s : Net Ev)
    (h : addAll fuel empty cs = some s) (hs : checkStn s = true)
    (t : Ev → Rat) (ht : Sol t cs) (hpos : ∀ v ∈ events cs, 0 ≤ t v) :
    ∀ v ∈ events cs, model s v ≤ t v := by
  have inv := addAll_inv fuel cs empty s [] inv_empty h
  simp only [List.nil_append] at inv
  intro v hv
  have hx : ∀ c ∈ cs, c.x ∈ events cs := fun c hc => by
    simp only [events, List.mem_flatMap]; exact ⟨c, hc, by simp⟩
  have hy : ∀ c ∈ cs, c.y ∈ events cs := fun c hc => by
    simp only [events, List.mem_flatMap]; exact ⟨c, hc, by simp⟩
  have := inv.least hs (fun u => if u ∈ events cs then -(t u) else 0)
    (by
      intro c hc
      have := ht c hc
      simp only [hx c hc, hy c hc, if_true]
      grind)
    (by
      intro u
      by_cases hu : u ∈ events cs
      · have := hpos u hu; simp only [hu, if_true]; grind
      · simp only [hu, if_false]; exact Rat.le_refl)
    v
  simp only [hv, if_true] at this
  simp only [model]
  grind

/-! ## "the network reports consistency iff the inserted difference constraints have a solution" -/

/-- inconsistent verdict ⇒ no assignment of times satisfies the inserted constraints -/
theorem C25_unsat_sound (fuel : Nat) (cs : List (Con Ev)) (s : Net Ev)
    (h : addAll fuel empty cs = some s) (hs : checkStn s = false) : ¬ ∃ t : Ev → Rat, Sol t cs := by
  have inv := addAll_inv fuel cs empty s [] inv_empty h
  simp only [List.nil_append] at inv
  rintro ⟨t, ht⟩
  refine inv.unsat hs (fun v => -(t v)) ?_
  intro c hc
  have := ht c hc
  grind

theorem C25_consistent_iff (fuel : Nat) (cs : List (Con Ev)) (s : Net Ev)
    (h : addAll fuel empty cs = some s) : checkStn s = true ↔ ∃ t : Ev → Rat, Sol t cs := by
  constructor
  · intro hs; exact ⟨model s, C25_sat_sound fuel cs s h hs⟩
  · intro hex
    cases hs : checkStn s with
    | true => rfl
    | false => exact (C25_unsat_sound fuel cs s h hs hex).elim

/-! ## "a copy evolves independently of the network it was copied from" -/

/-- In any history of `add`s and `copy_stn`s over any number of live networks, every network ends
up exactly as a fresh, never-shared network fed with the insertions of its own lineage only
(`runLines`: the insertions it received itself plus those its ancestors had received before the
copy was taken).  Insertions into any other network — the one it was copied from or copies taken
from it — have no influence on it. -/
theorem C25_copy_independent (fuel : Nat) (ops : List (Op Ev)) (nets : List (Net Ev))
    (h : run fuel [empty] ops = some nets) :
    nets.length = (runLines [[]] ops).length ∧
    ∀ (j : Nat) (s : Net Ev) (l : List (Con Ev)), nets[j]? = some s → (runLines [[]] ops)[j]? = some l →
      addAll fuel empty l = some s :=
  run_lineage fuel ops [empty] nets [[]] (lineage_init fuel) h

/-- one `add` changes the network it is applied to and nothing else -/
theorem C25_add_local (fuel : Nat) (nets nets' : List (Net Ev)) (i : Nat) (c : Con Ev)
    (h : step fuel nets (.add i c) = some nets') : ∀ j, j ≠ i → nets'[j]? = nets[j]? := by
  intro j hj
  simp only [step] at h
  split at h
  · split at h
    · cases h; exact List.getElem?_set_ne (fun e => hj e.symm)
    · cases h
  · cases h

/-- `copy_stn` leaves all existing networks alone and appends a network equal to its source -/
theorem C25_copy_equal (fuel : Nat) (nets nets' : List (Net Ev)) (i : Nat)
    (h : step fuel nets (.copy i) = some nets') : ∃ s, nets[i]? = some s ∧ nets' = nets ++ [s] := by
  simp only [step] at h
  split at h
  · rename_i s hs; cases h; exact ⟨s, hs, by rw [copy_eq]⟩
  · cases h

/-! ## fuel -/

/-- the result of a run that returns does not depend on the fuel it was given -/
theorem C25_fuel_irrelevant (f1 f2 : Nat) (cs : List (Con Ev)) (s1 s2 : Net Ev)
    (h1 : addAll f1 empty cs = some s1) (h2 : addAll f2 empty cs = some s2) :
    s1.cons = s2.cons ∧ s1.dist = s2.dist ∧ s1.sat = s2.sat := by
  have e : some s1 = some s2 := by
    rcases Nat.le_total f1 f2 with hle | hle
    · obtain ⟨k, rfl⟩ := Nat.exists_eq_add_of_le hle
      rw [← addAll_fuel_mono f1 k cs empty s1 h1, h2]
    · obtain ⟨k, rfl⟩ := Nat.exists_eq_add_of_le hle
      rw [← h1, addAll_fuel_mono f2 k cs empty s2 h2]
  cases e
  exact ⟨rfl, rfl, rfl⟩

/-- `_inc_check` always terminates: for every list of insertions some fuel lets every `add` return
(distances stay within `[dOld - Δ, dOld]` and on the lattice of the common denominator, so the
number of successful relaxations — hence of queue entries — is bounded) -/
theorem C25_terminates (cs : List (Con Ev)) : ∃ fuel s, addAll fuel (empty : Net Ev) cs = some s :=
  addAll_terminates cs empty [] inv_empty latInv_empty

/-- … and so does every history of `add`s and `copy_stn`s whose ops refer to live networks -/
theorem C25_history_terminates (ops : List (Op Ev)) (h : wellIndexed 1 ops = true) :
    ∃ fuel nets, run fuel [(empty : Net Ev)] ops = some nets := by
  refine run_terminates ops [empty] ?_ h
  intro s hs
  simp only [List.mem_singleton] at hs
  subst hs
  exact ⟨[], inv_empty, latInv_empty⟩

/-! ## non-vacuity: concrete histories meeting the hypotheses -/

section examples

/-- events 0,1,2:  e1 - e0 ≤ -2,  e2 - e1 ≤ -3,  e0 - e2 ≤ 7,  and a subsumed re-insertion e2 - e1 ≤ 0 -/
def exSat : List (Con Nat) := [⟨1, 0, -2⟩, ⟨2, 1, -3⟩, ⟨0, 2, 7⟩, ⟨2, 1, 0⟩]
/-- closing the cycle with e0 - e2 ≤ 4 makes it inconsistent (cycle weight -1) -/
def exUnsat : List (Con Nat) := [⟨1, 0, -2⟩, ⟨2, 1, -3⟩, ⟨0, 2, 4⟩]
/-- a history with two copies whose lineages diverge -/
def exHist : List (Op Nat) :=
  [.add 0 ⟨1, 0, -2⟩, .copy 0, .add 1 ⟨0, 1, 1⟩, .add 0 ⟨2, 1, -3⟩, .copy 0, .add 2 ⟨0, 2, 4⟩]
/-- a solution of `exSat` other than the least one -/
def exT : Nat → Rat := fun v => if v = 0 then 6 else if v = 1 then 3 else 0

/-- hypotheses of `C25_sat_sound`, `C25_model_nonneg`, `C25_model_defined`, `C25_least`: a run that
returns, reports consistency, and has propagated (the least model is e0=5, e1=3, e2=0) -/
example : ∃ s, addAll 10 empty exSat = some s ∧ checkStn s = true ∧
    model s 0 = 5 ∧ model s 1 = 3 ∧ model s 2 = 0 := by
  refine ⟨(addAll 10 empty exSat).get (by decide +kernel), by simp, ?_⟩
  decide +kernel

/-- hypotheses `ht`, `hpos` of `C25_least` -/
example : Sol exT exSat ∧ ∀ v ∈ events exSat, 0 ≤ exT v := by
  constructor
  · intro c hc; simp only [exSat, List.mem_cons, List.not_mem_nil, or_false] at hc
    rcases hc with rfl | rfl | rfl | rfl <;> decide +kernel
  · intro v hv; simp only [events, exSat, List.flatMap_cons, List.flatMap_nil, List.mem_append, List.mem_cons,
      List.not_mem_nil, or_false] at hv
    rcases hv with (rfl | rfl) | (rfl | rfl) | (rfl | rfl) | (rfl | rfl) <;> decide +kernel

/-- hypotheses of `C25_unsat_sound`: a run that returns and reports inconsistency (after
propagation through three nodes) -/
example : ∃ s, addAll 10 empty exUnsat = some s ∧ checkStn s = false := by
  refine ⟨(addAll 10 empty exUnsat).get (by decide +kernel), by simp, ?_⟩
  decide +kernel

/-- hypothesis of `C25_copy_independent`: the history returns; network 0 stays consistent while
both copies become inconsistent; the lineages have 2, 2 and 3 insertions -/
example : ∃ nets, run 10 [empty] exHist = some nets ∧ nets.map checkStn = [true, false, false] ∧
    (runLines [[]] exHist).map List.length = [2, 2, 3] := by
  refine ⟨(run 10 [empty] exHist).get (by decide +kernel), by simp, ?_, ?_⟩ <;> decide +kernel

/-- hypothesis of `C25_history_terminates` -/
example : wellIndexed 1 exHist = true := by decide +kernel

/-- hypotheses of `C25_fuel_irrelevant`: the same history returns with fuel 4 and with fuel 1000 … -/
example : (addAll 4 empty exSat).isSome = true ∧ (addAll 1000 empty exSat).isSome = true := by
  constructor <;> decide +kernel
/-- … while fuel 1 is too little (so `none` really occurs and is not a verdict) -/
example : addAll 1 empty exSat = none := by decide +kernel

end examples

end UPVerif.C25
