import UPVerif.Lemmas.T2SLemmas
/-!
# C28 — Timed-to-sequential plans convert back to valid temporal plans

Statements only (helper lemmas live in `Lemmas/T2SLemmas.lean`; the model, the temporal semantics
`ttValid` and the predicates `Spaced` / `DurInside` live in `Core/T2S.lean`).

The model mirrors the REPAIRED `plan_back_conversion_callable`
(/verif/notes/patches/C28-left-open-duration.patch): a left-open duration interval gets its midpoint
instead of `min_time_step`.

* duration clause and spacing clause: FULL, for every interval / every plan / every state type;
* validity clause: PARTIAL — proved for the semantic fragment of `DAct` (conditions at start, at end and
  over all, effects at start and at end; no intermediate timings, no conditional/quantified effects) with
  the compiled action taken at its meaning `DAct.collapse` (tied to the real `_compile` by the
  correspondence check, not proved from its substitution/simplification pipeline), and under the decidable
  hypothesis `intervalsOK` (every durative step starts in a state where its interval is non-empty and
  admits only positive durations).  Without that hypothesis the statement is false for the model and
  for the code alike: `C28_valid_back_full_refuted`.
-/
namespace UPVerif.C28
open UPVerif UPVerif.T2S

/-! ## the chosen duration lies inside the interval -/

/-- For EVERY non-empty interval — closed, left-open, right-open, open, of any rational bounds — the
    chosen duration satisfies exactly the test `TimeTriggeredPlanValidator` applies to it. -/
theorem C28_duration_inside (I : Ival) (h : I.nonempty = true) :
    (if I.lopen then I.lo < chooseDuration I else I.lo ≤ chooseDuration I) ∧
    (if I.ropen then chooseDuration I < I.hi else chooseDuration I ≤ I.hi) :=
  chooseDuration_Mem I h

/-- the same as the executable check used by `ttValid` -/
theorem C28_duration_inside_memb (I : Ival) (h : I.nonempty = true) : I.memb (chooseDuration I) = true :=
  (memb_iff I _).mpr (chooseDuration_Mem I h)

example : (⟨5, 10, true, false⟩ : Ival).nonempty = true ∧ chooseDuration ⟨5, 10, true, false⟩ = 15 / 2 := by
  decide +kernel
example : (⟨3, 3, false, false⟩ : Ival).nonempty = true ∧ chooseDuration ⟨3, 3, false, false⟩ = 3 := by
  decide +kernel

/-- State-dependent bounds: along the whole back conversion, whatever the state type and the actions,
    every durative entry carries the duration chosen from the interval evaluated IN THE STATE ITS ACTION
    STARTS IN (the state the compiled plan has reached), inside that interval whenever it is non-empty;
    instantaneous entries carry none; the actions are those of the compiled plan, in order. -/
theorem C28_duration_inside_along_plan {σ : Type} (eps : Rat) (s : σ) (now : Rat) (acts : List (DAct σ))
    (plan : List (Entry σ)) (h : backLoop eps s now acts = some plan) :
    DurInside s plan ∧ plan.map (·.act) = acts :=
  ⟨backLoop_durInside eps acts s now plan h, backLoop_acts eps acts s now plan h⟩

/-! ## spacing -/

/-- the first action starts at `now` (0 for the real call) and each next one exactly
    `min_time_step` after the end of the previous one -/
theorem C28_spacing {σ : Type} (eps : Rat) (s : σ) (now : Rat) (acts : List (DAct σ))
    (plan : List (Entry σ)) (h : backLoop eps s now acts = some plan) : Spaced eps now plan :=
  backLoop_spaced eps acts s now plan h

/-- with a non-negative separation and well-formed intervals, actions never overlap: every later action
    starts at least `eps` after the end of every earlier one -/
theorem C28_spacing_no_overlap {σ : Type} (eps : Rat) (heps : 0 ≤ eps) (s : σ) (now : Rat)
    (acts : List (DAct σ)) (plan : List (Entry σ)) (h : backLoop eps s now acts = some plan)
    (hi : intervalsOK s acts = true) :
    plan.Pairwise (fun e1 e2 => e1.t + e1.len + eps ≤ e2.t) :=
  spaced_pairwise eps heps plan now (backLoop_spaced eps acts s now plan h)
    (backLoop_len_nonneg eps acts s now plan h hi)

/-- with a positive separation the happenings (starts and ends) of the converted plan are strictly
    increasing in time, in plan order: start₁ < end₁ < start₂ < end₂ < … -/
theorem C28_spacing_happenings_increasing {σ : Type} (eps : Rat) (heps : 0 < eps) (s sf : σ) (now : Rat)
    (acts : List (DAct σ)) (hr : runC s acts = some sf) (hi : intervalsOK s acts = true) :
    ∃ plan, backLoop eps s now acts = some plan ∧ incr (events plan) = true := by
  obtain ⟨plan, _, hb, _, _, _, hinc, _, _⟩ := back_main eps heps acts s now sf hr hi
  exact ⟨plan, hb, hinc⟩

/-- the default separation is positive -/
theorem C28_default_step_pos : 0 < minTimeStep none := by decide +kernel

/-! ## validity of the converted plan -/

/-- FULL statement: every plan valid for the compiled problem converts back to an accepted plan. -/
def C28_valid_back_full : Prop :=
  ∀ (σ : Type) (eps : Rat) (s0 : σ) (goal : σ → Bool) (acts : List (DAct σ)),
    0 < eps → seqValid s0 goal acts = true →
    ∃ plan, backLoop eps s0 0 acts = some plan ∧ ttValid s0 goal plan = true

/-- an action whose duration interval `[2, 1]` is empty, and nothing else -/
def emptyIvalAct : DAct Unit where
  durative := true
  ival := fun _ => some ⟨2, 1, false, false⟩
  cStart := fun _ => true
  cOverC := fun _ => true
  cOverO := fun _ => true
  cEnd := fun _ => true
  eStart := fun _ => some ()
  eEnd := fun _ => some ()

/-- The full statement fails: the compiled action of a durative action whose interval is empty in the
    state it starts in is applicable, and no duration can be valid.  (The real compilation has the same
    gap: `_compile` drops the duration without adding `lower <= upper` to the preconditions.) -/
theorem C28_valid_back_full_refuted : ¬ C28_valid_back_full := by
  intro h
  obtain ⟨plan, hb, hv⟩ := h Unit 1 () (fun _ => true) [emptyIvalAct] (by decide +kernel) (by decide +kernel)
  have hp : backLoop 1 () 0 [emptyIvalAct] = some [⟨0, emptyIvalAct, some 2⟩] := by
    simp [backLoop, emptyIvalAct, DAct.collapse, chooseDuration]
  rw [hp] at hb
  cases hb
  revert hv
  decide +kernel

/-- PARTIAL (see the header): for the fragment of `DAct`, a plan valid for the compiled problem, whose
    durative steps start in states where their intervals are non-empty and positive, converts back
    (the loop does not fail) to a plan accepted by the temporal semantics — non-simultaneous happenings,
    all effects applicable, every duration inside its interval evaluated at its start, every condition
    satisfied over its interval, goals reached. -/
theorem C28_valid_back_partial {σ : Type} (eps : Rat) (heps : 0 < eps) (s0 : σ) (goal : σ → Bool)
    (acts : List (DAct σ)) (hv : seqValid s0 goal acts = true) (hi : intervalsOK s0 acts = true) :
    ∃ plan, backLoop eps s0 0 acts = some plan ∧ ttValid s0 goal plan = true := by
  unfold seqValid at hv
  cases hr : runC s0 acts with
  | none => simp [hr] at hv
  | some sf =>
    simp only [hr] at hv
    obtain ⟨plan, tr, hb, hx, _, _, hinc, hls, hent⟩ := back_main eps heps acts s0 0 sf hr hi
    refine ⟨plan, hb, ?_⟩
    have he := hent s0 [] (by simp) rfl
    simp only [List.nil_append] at he
    simp [ttValid, sortEvs_of_incr _ hinc, hinc, hx, he, hls, hv]

/-- the same for the concrete model run by the driver: problems whose conditions, effects and duration
    bounds are expressions (evaluated by `den`), ground plans given by action names and parameters -/
theorem C28_valid_back_concrete_partial (P : TProblem) (steps : List Step) (acts : List (DAct State))
    (_hg : groundPlan P steps = some acts) (heps : 0 < minTimeStep P.eps)
    (hv : seqValid P.init (goalOf P) acts = true) (hi : intervalsOK P.init acts = true) :
    ∃ plan, backPlan P acts = some plan ∧ ttValid P.init (goalOf P) plan = true :=
  C28_valid_back_partial (minTimeStep P.eps) heps P.init (goalOf P) acts hv hi

/-! ### non-vacuity: a plan meeting the hypotheses of the validity theorem

State = a counter.  `work`: duration in `]s, s + 2]` (left-open, state-dependent), needs `s ≤ 3` at start,
`s ≥ 1` over all and at end, `+1` at start and `+1` at end.  `tick`: instantaneous `+1`. -/
def work : DAct Nat where
  durative := true
  ival := fun s => some ⟨s, s + 2, true, false⟩
  cStart := fun s => decide (s ≤ 3)
  cOverC := fun _ => true
  cOverO := fun s => decide (1 ≤ s)
  cEnd := fun s => decide (1 ≤ s)
  eStart := fun s => some (s + 1)
  eEnd := fun s => some (s + 1)

def tick : DAct Nat where
  durative := false
  ival := fun _ => none
  cStart := fun _ => true
  cOverC := fun _ => true
  cOverO := fun _ => true
  cEnd := fun _ => true
  eStart := fun s => some (s + 1)
  eEnd := fun s => some s

example : seqValid 0 (fun s => decide (s = 5)) [work, tick, work] = true ∧
    intervalsOK 0 [work, tick, work] = true := by decide +kernel

/-- … and the conclusion on it, computed: durations 1 (midpoint of ]0,2]) and 4 (midpoint of ]3,5]) -/
example : (backLoop (1 / 100) 0 0 [work, tick, work]).map (fun p => p.map (fun e => (e.t, e.dur))) =
    some [(0, some 1), (101 / 100, none), (51 / 50, some 4)] := by decide +kernel

example : ∃ steps acts, groundPlan (default : TProblem) steps = some acts := ⟨[], [], rfl⟩

end UPVerif.C28
