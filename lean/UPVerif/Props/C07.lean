import UPVerif.Lemmas.CompileCERSim
import UPVerif.Lemmas.CompileSIR
import UPVerif.Lemmas.CompileDCR
import UPVerif.Lemmas.CompileDCRGoal
/-!
# C07 — Compilers preserve solvability and every original plan (completeness)

Statements only; same frame, semantics and models as `Props/C06.lean` (read its header first).

`Bwd A B β R extra` is a backward simulation: every step of the original system `A` is matched by a step of
the compiled system `B` that maps back to it, and an `A`-goal state by at most `extra` further `B`-steps that
map back to nothing (the final goal action some compilations add).

ConditionalEffectsRemover prunes the variants without effects (documented behaviour the test-suite relies on)
and skips variants whose effects conflict statically: the full completeness statement is FALSE for it
(`cer_noop_witness`, a kernel-checked refutation on a concrete problem — open finding C07-noop-variant-pruned);
`cer_complete_partial` carries decidable hypotheses that exclude exactly these two causes.
-/
namespace UPVerif.C07
open UPVerif UPVerif.Expr UPVerif.Sim UPVerif.Spec UPVerif.Simulation UPVerif.Compile

/-! ## the frame -/

/-- COMPLETENESS from a backward simulation: a valid original plan of length `k` has a valid compiled plan of
    length at most `k + extra` that maps back to exactly the same sequence -/
theorem backward_simulation_complete {SA SB AA AB : Type} {A : TS SA AA} {B : TS SB AB} {β : AB → Option AA}
    {R : SB → SA → Prop} {extra : Nat} (h : Bwd A B β R extra) (π : List AA) (hv : A.Valid π) :
    ∃ π', B.Valid π' ∧ mapBack β π' = π ∧ π'.length ≤ π.length + extra := h.complete π hv

/-- an unsolvable compiled problem implies an unsolvable original problem -/
theorem unsolvable_compiled_implies_unsolvable_original {SA SB AA AB : Type} {A : TS SA AA} {B : TS SB AB}
    {β : AB → Option AA} {R : SB → SA → Prop} {extra : Nat} (h : Bwd A B β R extra) (hB : ¬ B.Solvable) :
    ¬ A.Solvable := h.unsolvable hB

/-- pipelines: completeness composes, the length bounds add up -/
theorem pipeline_complete {SA SB SC AA AB AC : Type} {A : TS SA AA} {B : TS SB AB} {C : TS SC AC}
    {β₁ : AB → Option AA} {β₂ : AC → Option AB} {e₁ e₂ : Nat}
    (h₁ : ∀ π, A.Valid π → ∃ π', B.Valid π' ∧ mapBack β₁ π' = π ∧ π'.length ≤ π.length + e₁)
    (h₂ : ∀ π, B.Valid π → ∃ π', C.Valid π' ∧ mapBack β₂ π' = π ∧ π'.length ≤ π.length + e₂)
    (π : List AA) (hv : A.Valid π) :
    ∃ π', C.Valid π' ∧ mapBack (compBack β₁ β₂) π' = π ∧ π'.length ≤ π.length + (e₁ + e₂) :=
  complete_comp h₁ h₂ π hv

/-! ## ConditionalEffectsRemover -/

/-- the step lemma: whenever the original action applies, the variant selected by the truth values of the
    effect conditions is among the yielded ones, applies, and gives the same successor -/
theorem cer_variant_complete (simp : Expr → Expr) (hs : SimpExact simp) (W : World) (a : Action)
    (hok : cerOK a = true) (hnc : cerNoConflict a = true) (hu : cerHasUncond a = true) (g g' : St)
    (hb : BoolConds a (ctxOf W g)) (h : stepAct W g a = some g') :
    ∃ a' ∈ cerVariants simp a, stepAct W g a' = some g' := cer_complete_step hs W hok hnc hu hb h

/-- COMPLETENESS of ConditionalEffectsRemover with the SAME plan length, for problems where no variant is
    pruned (every conditional action has an unconditional effect; no combination of its conditional effects
    conflicts statically) and the effect conditions are rooted in a connective or comparison -/
theorem cer_complete_partial (simp : Expr → Expr) (hs : SimpExact simp) (W : World) (c : Compiled)
    (hc : cerCompile simp W.P = some c) (hok : ∀ a ∈ W.P.actions, cerOK (cerExpand W.P a) = true)
    (hnc : ∀ a ∈ W.P.actions, Action.isConditional a = true →
      cerNoConflict (cerExpand W.P a) = true ∧ cerHasUncond (cerExpand W.P a) = true)
    (hr : ∀ a ∈ W.P.actions, cerRooted (cerExpand W.P a) = true) (π : List Nat) (hv : (tsOf W).Valid π) :
    ∃ π', (tsOf (withProblem W c.prob)).Valid π' ∧ mapBack (backOf c) π' = π ∧ π'.length ≤ π.length := by
  have := (cer_bwd hs W hc hok hnc (fun _ => True) (fun _ _ => trivial) (fun _ _ _ _ _ => trivial)
    (fun g _ a ha => boolConds_of_rooted (hr a ha) (ctxOf W g))).complete π hv
  simpa using this

/-- the same with an arbitrary typing invariant `T` of the original runs instead of the syntactic restriction
    on the conditions (a bare Boolean fluent as effect condition needs the state to hold a Boolean there) -/
theorem cer_complete_typed_partial (simp : Expr → Expr) (hs : SimpExact simp) (W : World) (c : Compiled)
    (hc : cerCompile simp W.P = some c) (hok : ∀ a ∈ W.P.actions, cerOK (cerExpand W.P a) = true)
    (hnc : ∀ a ∈ W.P.actions, Action.isConditional a = true →
      cerNoConflict (cerExpand W.P a) = true ∧ cerHasUncond (cerExpand W.P a) = true)
    (T : St → Prop) (hT0 : ∀ g, (tsOf W).init = some g → T g)
    (hTs : ∀ g i g', T g → (tsOf W).step g i = some g' → T g')
    (hb : ∀ g, T g → ∀ a ∈ W.P.actions, BoolConds (cerExpand W.P a) (ctxOf W g)) (π : List Nat) (hv : (tsOf W).Valid π) :
    ∃ π', (tsOf (withProblem W c.prob)).Valid π' ∧ mapBack (backOf c) π' = π ∧ π'.length ≤ π.length := by
  have := (cer_bwd hs W hc hok hnc T hT0 hTs hb).complete π hv
  simpa using this

theorem cer_unsolvable_partial (simp : Expr → Expr) (hs : SimpExact simp) (W : World) (c : Compiled)
    (hc : cerCompile simp W.P = some c) (hok : ∀ a ∈ W.P.actions, cerOK (cerExpand W.P a) = true)
    (hnc : ∀ a ∈ W.P.actions, Action.isConditional a = true →
      cerNoConflict (cerExpand W.P a) = true ∧ cerHasUncond (cerExpand W.P a) = true)
    (hr : ∀ a ∈ W.P.actions, cerRooted (cerExpand W.P a) = true) (hB : ¬ (tsOf (withProblem W c.prob)).Solvable) :
    ¬ (tsOf W).Solvable :=
  (cer_bwd hs W hc hok hnc (fun _ => True) (fun _ _ => trivial) (fun _ _ _ _ _ => trivial)
    (fun g _ a ha => boolConds_of_rooted (hr a ha) (ctxOf W g))).unsolvable hB

/-! ## StateInvariantsRemover -/

/-- COMPLETENESS of StateInvariantsRemover with the SAME plan length: in a valid original plan every state
    satisfies the invariants, hence every added precondition and the added goal -/
theorem sir_complete_partial (simp : Expr → Expr) (W : World) (c : Compiled) (hc : sirCompile simp W.P = some c)
    (hok : SirOK simp W c) (π : List Nat) (hv : (tsOf W).Valid π) :
    ∃ π', (tsOf (withProblem W c.prob)).Valid π' ∧ mapBack (backOf c) π' = π ∧ π'.length ≤ π.length := by
  have := (sir_bwd W hc hok).complete π hv
  simpa using this

theorem sir_unsolvable_partial (simp : Expr → Expr) (W : World) (c : Compiled) (hc : sirCompile simp W.P = some c)
    (hok : SirOK simp W c) (hB : ¬ (tsOf (withProblem W c.prob)).Solvable) : ¬ (tsOf W).Solvable :=
  (sir_bwd W hc hok).unsolvable hB

/-! ## DisjunctiveConditionsRemover -/

/-- COMPLETENESS of the action split of DisjunctiveConditionsRemover with the SAME plan length (problems whose
    goal needs no goal action — with one the bound is `k + 1`, not proved here —, whose conditional effects
    are not split and where no action loses all its effects) -/
theorem dcr_complete_partial (simp dnfE : Expr → Expr) (W : World) (c : Compiled)
    (hc : dcrCompile simp dnfE W.P = some c) (hok : DcrOK simp dnfE W)
    (hke : ∀ a ∈ W.P.actions, dcrKeepsEffects simp dnfE a = true) (π : List Nat) (hv : (tsOf W).Valid π) :
    ∃ π', (tsOf (withProblem W c.prob)).Valid π' ∧ mapBack (backOf c) π' = π ∧ π'.length ≤ π.length := by
  have := (dcr_bwd W hc hok hke).complete π hv
  simpa using this

/-- COMPLETENESS with bound `k + 1` when DisjunctiveConditionsRemover adds goal actions (the goals' DNF is a
    disjunction): the compiled counterpart is the original plan's counterpart followed by the goal action of a
    disjunct that holds in the final state -/
theorem dcr_goal_action_complete_partial (simp dnfE : Expr → Expr) (W : World) (c : Compiled) (args : List Expr)
    (hg : dnfE (mkAnd W.P.goals) = .app .or args) (hc : dcrCompile simp dnfE W.P = some c)
    (hok : DcrGoalOK simp dnfE W) (hke : ∀ a ∈ W.P.actions, dcrKeepsEffects simp dnfE a = true)
    (π : List Nat) (hv : (tsOf W).Valid π) :
    ∃ π', (tsOf (withProblem W c.prob)).Valid π' ∧ mapBack (backOf c) π' = π ∧ π'.length ≤ π.length + 1 :=
  (dcrGoal_bwd W hg hc hok hke).complete π hv

theorem dcr_unsolvable_partial (simp dnfE : Expr → Expr) (W : World) (c : Compiled)
    (hc : dcrCompile simp dnfE W.P = some c) (hok : DcrOK simp dnfE W)
    (hke : ∀ a ∈ W.P.actions, dcrKeepsEffects simp dnfE a = true)
    (hB : ¬ (tsOf (withProblem W c.prob)).Solvable) : ¬ (tsOf W).Solvable :=
  (dcr_bwd W hc hok hke).unsolvable hB

/-! ## the full statements -/

/-- completeness of a compiler model on ALL instances of lifted actions, `extra` final goal actions allowed -/
def CompleteOnAllInstances (compile : Problem → Option Compiled) (extra : Nat) : Prop :=
  ∀ (W : World) (c : Compiled), compile W.P = some c → ∀ π : List (Nat × List String), (tsLifted W).Valid π →
    ∃ π', (tsLifted (withProblem W c.prob)).Valid π' ∧ mapBack (backLifted c) π' = π ∧ π'.length ≤ π.length + extra

/-- full clause for ConditionalEffectsRemover — FALSE as it stands (`cer_noop_witness`); proved part:
    `cer_complete_partial`.  Besides the two excluded causes what is missing is the instantiation of parameters. -/
def cer_complete_full (simp : Expr → Expr) : Prop := SimpExact simp → CompleteOnAllInstances (cerCompile simp) 0

/-- full clause for StateInvariantsRemover; proved part: `sir_complete_partial` -/
def sir_complete_full (simp : Expr → Expr) : Prop := SimpExact simp → CompleteOnAllInstances (sirCompile simp) 0

/-- full clause for DisjunctiveConditionsRemover (one goal action allowed); proved part: `dcr_complete_partial`,
    `dcr_goal_action_complete_partial` -/
def dcr_complete_full (simp dnfE : Expr → Expr) : Prop :=
  SimpExact simp → DnfSplits dnfE → CompleteOnAllInstances (dcrCompile simp dnfE) 1

section witness
/-! ## the pruning of effect-less variants refutes completeness (finding C07-noop-variant-pruned)

fluents `b : bool = false`, `x : int = 1`; action `n`: `b := true if x <= 0`; goal `not b`.
The plan `[n]` is valid for the original problem (in the initial state `n` changes nothing).  The only
compiled action is the variant "condition true" (precondition `x <= 0`), which does not apply: no valid
compiled plan maps back to `[n]`. -/
def fb : FluentRef := ⟨"b", .bool, []⟩
def fx : FluentRef := ⟨"x", .int none none, []⟩
def eb : Expr := .app (.fluent fb) []
def ex : Expr := .app (.fluent fx) []
def eff (f v c : Expr) (k : EffKind) : Effect := { fluent := f, value := v, cond := c, kind := k, forall_ := [] }
def n : Action where
  name := "n"
  params := []
  pre := []
  effs := [eff eb Expr.tt (Expr.mkLE ex (Expr.int 0)) .assign]
def P2 : Problem where
  name := "noop"
  types := ⟨[]⟩
  objects := []
  fluents := [⟨fb, some Expr.ff⟩, ⟨fx, some (Expr.int 1)⟩]
  init := []
  actions := [n]
  goals := [Expr.mkNot eb]
  traj := []
  metrics := []
def W2 : World := { P := P2, simp := id, fn := fun _ _ => none }
def c2 : Compiled := (cerCompile id P2).getD ⟨P2, []⟩

/-- every first step of the compiled problem fails in its initial state -/
def firstStepFails (i : Nat) : Bool :=
  match (tsOf (withProblem W2 c2.prob)).init with
  | some g => ((tsOf (withProblem W2 c2.prob)).step g i).isNone
  | none => true

theorem cer_noop_witness :
    (tsOf W2).Valid [0] ∧
    ¬ ∃ π', (tsOf (withProblem W2 c2.prob)).Valid π' ∧ mapBack (backOf c2) π' = [0] := by
  refine ⟨validB_sound (by decide +kernel), ?_⟩
  rintro ⟨π', ⟨s0, sf, hi, hr, _⟩, hm⟩
  cases π' with
  | nil => simp [mapBack] at hm
  | cons i rest =>
    have hlen : c2.prob.actions.length = 1 := by decide +kernel
    have h0 : firstStepFails 0 = true := by decide +kernel
    simp only [TS.run] at hr
    cases hs : (tsOf (withProblem W2 c2.prob)).step s0 i with
    | none => rw [hs] at hr; cases hr
    | some s1 =>
      obtain ⟨a', ha', _⟩ := tsOf_step hs
      have hi0 : i = 0 := by
        have hlt : i < c2.prob.actions.length := by
          have := (List.getElem?_eq_some_iff.1 ha').1
          exact this
        omega
      subst hi0
      unfold firstStepFails at h0
      rw [hi] at h0
      dsimp only at h0
      rw [hs] at h0
      cases h0

/-- the hypothesis `cerHasUncond` of `cer_complete_partial` is what excludes this witness -/
example : cerHasUncond n = false := by decide +kernel
end witness

section examples
/-! ## non-vacuity (the problem of `Props/C06.lean`'s examples, re-stated) -/
def fy : FluentRef := ⟨"y", .int none none, []⟩
def fxb : FluentRef := ⟨"x", .int (some 0) (some 10), []⟩
def exb : Expr := .app (.fluent fxb) []
def ey : Expr := .app (.fluent fy) []
def a0 : Action := { name := "a0", params := [], pre := [Expr.mkLE exb (Expr.int 5)], effs := [
  eff eb Expr.tt Expr.tt .assign, eff exb (Expr.int 2) (Expr.mkLE ey (Expr.int 5)) .increase,
  eff ey (Expr.int 0) (Expr.mkNot eb) .assign ] }
def a1 : Action := { name := "a1", params := [], pre := [], effs := [eff exb (Expr.int 9) Expr.tt .increase] }
def P1 : Problem where
  name := "ex"
  types := ⟨[]⟩
  objects := []
  fluents := [⟨fb, some Expr.ff⟩, ⟨fxb, some (Expr.int 1)⟩, ⟨fy, some (Expr.int 5)⟩]
  init := []
  actions := [a0, a1]
  goals := [eb, Expr.mkLE (Expr.int 3) exb]
  traj := [.app .always [Expr.mkLE exb (Expr.int 8)]]
  metrics := []
def W1 : World := { P := P1, simp := id, fn := fun _ _ => none }
def cCer : Compiled := (cerCompile id P1).getD ⟨P1, []⟩
def cSir : Compiled := (sirCompile id P1).getD ⟨P1, []⟩

/-- the hypotheses of `cer_complete_partial` hold for `P1`, whose plan `[a0]` is valid; the counterpart the
    theorem promises is the variant at position 4 -/
example : (cerCompile id P1).isSome = true ∧ (∀ a ∈ P1.actions, cerOK (cerExpand P1 a) = true) ∧
    (∀ a ∈ P1.actions, Action.isConditional a = true →
      cerNoConflict (cerExpand P1 a) = true ∧ cerHasUncond (cerExpand P1 a) = true) ∧
    (∀ a ∈ P1.actions, cerRooted (cerExpand P1 a) = true) ∧ validB W1 [0] = true ∧
    validB (withProblem W1 cCer.prob) [4] = true ∧ mapBack (backOf cCer) [4] = [0] := by decide +kernel
/-- the hypotheses of `sir_complete_partial` -/
example : (sirCompile id P1).isSome = true ∧ validB W1 [0] = true ∧
    validB (withProblem W1 cSir.prob) [0] = true := by decide +kernel
example : SirOK id W1 cSir :=
  ⟨SimpExact_id, SimpExact_id, by decide +kernel, by decide +kernel, by decide +kernel⟩
end examples

end UPVerif.C07
