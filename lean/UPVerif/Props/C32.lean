import UPVerif.Lemmas.FactoryLemmas
import UPVerif.Gen.Features
/-!
# C32 — Factory engine selection honours every requested requirement

Statements only (helper lemmas live in `Lemmas/FactoryLemmas.lean`).  The theorems hold for EVERY
registry of engine classes (arbitrary predicates `is_<mode>`, `supports`, `satisfies`, `ensures`,
`supports_plan`, `supports_compilation`, arbitrary `resulting_problem_kind`), every preference
list, every problem kind and every request; the functions they are about (`engineSatisfies`,
`getEngineClass`, `allApplicable`, `pipeline` in `Core/Factory.lean`) are tied to
`unified_planning/engines/factory.py` by the correspondence check.

`Qualifies e r` (Core/Factory.lean) is the property's "supports the problem kind and every
requested requirement": the engine implements the operation mode, `supports` the kind, and for each
of the four optional requirements that is not `None` the corresponding predicate of the engine holds.
-/
namespace UPVerif.C32
open UPVerif.Kind UPVerif.Factory

/-- Clause 1.  Whatever engine the factory returns for a request (no `name` given) is registered,
    implements the operation mode, supports the problem kind and meets every requested
    requirement — for every request, well-shaped or not. -/
theorem C32_selected_satisfies (F : Factory) (r : Req) (n : String)
    (h : getEngineClass F none r = .selected n) :
    ∃ e, F.lookup n = some e ∧ Qualifies e r := by
  obtain ⟨_, _, e, _, hl, hq, _⟩ := selectLoop_selected (getEngineClass_selected h)
  exact ⟨e, hl, qualifiesB_iff.1 hq⟩

/-- Clause 1, order.  The returned engine is the FIRST entry of the preference list that
    qualifies: no earlier entry does. -/
theorem C32_first_in_preference (F : Factory) (r : Req) (n : String)
    (h : getEngineClass F none r = .selected n) :
    ∃ pre post, F.pref = pre ++ n :: post ∧
      ∀ m ∈ pre, ∀ e, F.lookup m = some e → ¬ Qualifies e r := by
  obtain ⟨pre, post, _, hp, _, _, hpre⟩ := selectLoop_selected (getEngineClass_selected h)
  refine ⟨pre, post, hp, ?_⟩
  intro m hm e hl
  obtain ⟨e', hl', hq⟩ := hpre m hm
  rw [hl] at hl'; cases hl'
  exact qualifiesB_false_iff.1 hq

/-- Clause 3.  For a request the public entry points can make (`wellShaped`) over a preference
    list of registered names: if no engine of the list qualifies, the factory raises
    `UPNoSuitableEngineAvailableException` (and nothing else). -/
theorem C32_none_raises (F : Factory) (r : Req)
    (hs : r.wellShaped = true) (hreg : F.prefRegistered)
    (hno : ∀ n ∈ F.pref, ∀ e, F.lookup n = some e → ¬ Qualifies e r) :
    getEngineClass F none r = .noSuitable := by
  rw [getEngineClass_wellShaped hs, selectLoop_eq_find hs F.pref hreg]
  cases hf : F.pref.find? (nameQualifies F r) with
  | none => rfl
  | some n =>
    have hq := List.find?_some hf
    have hm := List.mem_of_find?_eq_some hf
    obtain ⟨e, hl, hQ⟩ := nameQualifies_iff.1 hq
    exact absurd hQ (hno n hm e hl)

/-- Clause 3, converse (no hypotheses): the no-suitable-engine error is raised ONLY when no engine
    of the preference list qualifies. -/
theorem C32_no_suitable_only_if_none (F : Factory) (r : Req)
    (h : getEngineClass F none r = .noSuitable) :
    ∀ n ∈ F.pref, ∀ e, F.lookup n = some e → ¬ Qualifies e r := by
  intro n hn e hl
  obtain ⟨e', hl', hq⟩ := selectLoop_noSuitable (getEngineClass_noSuitable h) n hn
  rw [hl] at hl'; cases hl'
  exact qualifiesB_false_iff.1 hq

/-- Clauses 1+3 together: on a well-shaped request over registered names the factory either
    returns an engine or raises the no-suitable-engine error — no assertion failure, no `KeyError` —
    and it returns an engine whenever some entry of the preference list qualifies. -/
theorem C32_selects_when_some_qualifies (F : Factory) (r : Req)
    (hs : r.wellShaped = true) (hreg : F.prefRegistered)
    (hq : ∃ n ∈ F.pref, ∃ e, F.lookup n = some e ∧ Qualifies e r) :
    ∃ n, getEngineClass F none r = .selected n := by
  rw [getEngineClass_wellShaped hs, selectLoop_eq_find hs F.pref hreg]
  cases hf : F.pref.find? (nameQualifies F r) with
  | some n => exact ⟨n, rfl⟩
  | none =>
    obtain ⟨n, hn, e, hl, hQ⟩ := hq
    have := List.find?_eq_none.1 hf n hn
    exact absurd (nameQualifies_iff.2 ⟨e, hl, hQ⟩) this

/-- `get_all_applicable_engines` lists exactly the qualifying entries of the preference list, in
    order … -/
theorem C32_applicable_exact (F : Factory) (r : Req)
    (hs : r.wellShaped = true) (hreg : F.prefRegistered) :
    ∃ ns, allApplicable F r = .ok ns ∧
      ∀ n, n ∈ ns ↔ (n ∈ F.pref ∧ ∃ e, F.lookup n = some e ∧ Qualifies e r) := by
  refine ⟨_, applicableLoop_eq_filter hs F.pref hreg, ?_⟩
  intro n
  rw [List.mem_filter, nameQualifies_iff]

/-- … and the engine the factory selects is its head. -/
theorem C32_selected_is_first_applicable (F : Factory) (r : Req)
    (hs : r.wellShaped = true) (hreg : F.prefRegistered) :
    getEngineClass F none r =
      (match allApplicable F r with
       | .ok (n :: _) => .selected n
       | .ok [] => .noSuitable
       | .error o => o) := by
  unfold allApplicable
  rw [getEngineClass_wellShaped hs, selectLoop_eq_find hs F.pref hreg,
    applicableLoop_eq_filter hs F.pref hreg, find?_eq_head?_filter]
  cases List.filter (nameQualifies F r) F.pref <;> rfl

/-- Clause 2.  In a requested compilation pipeline (`Compiler(problem_kind=…, compilation_kinds=…)`),
    every selected compiler is registered, is a compiler, supports its compilation kind and supports
    the problem kind produced — as declared by `resulting_problem_kind` — by the compilers before it. -/
theorem C32_pipeline_chain (F : Factory) (k : Kind) (cks ns : List String)
    (h : pipeline F k cks = .ok ns) : ChainOK F k cks ns :=
  pipeline_ok cks k ns h

/-- Clause 3 for pipelines: over registered names a pipeline request either succeeds or raises the
    no-suitable-engine error. -/
theorem C32_pipeline_none_raises (F : Factory) (hreg : F.prefRegistered) (k : Kind)
    (cks : List String) (o : Outcome) (h : pipeline F k cks = .error o) : o = .noSuitable :=
  pipeline_error hreg cks k o h

/-- Selection by `name` bypasses every check (documented on the `preference_list` setter): the
    named engine if registered, else `UPNoRequestedEngineAvailableException`. -/
theorem C32_by_name (F : Factory) (r : Req) (n : String) :
    getEngineClass F (some n) r =
      (match F.lookup n with | some _ => .selected n | none => .noRequested) := by
  unfold getEngineClass
  cases hl : F.lookup n <;> simp [hl]

/-- for the engine classes of the library (`supports(pk) = pk <= supported_kind()`, as built by
    `mkEngine`), "supports the problem kind" is the `<=` of the C33 lattice (stated so that a
    change of the model is visible) -/
theorem C32_supports_is_le (T : Tables) (ms : List Mode) (sk : Kind) (o a p c : List String)
    (tr : Kind → String → Kind) (k : Kind) :
    (mkEngine T ms sk o a p c tr).supports k = k.le T sk := rfl

/-! non-vacuity: a concrete registry over the real feature tables meets the hypotheses, and every
    outcome occurs -/
section examples
open UPVerif.Gen

def kA : Kind := { feats := ["ACTION_BASED"], version := none }
def kAN : Kind := { feats := ["ACTION_BASED", "NEGATIVE_CONDITIONS"], version := some 3 }
def kANC : Kind := { feats := ["ACTION_BASED", "NEGATIVE_CONDITIONS", "CONDITIONAL_EFFECTS"], version := some 3 }
def noTr : Kind → String → Kind := fun k _ => k

def F0 : Factory where
  engines := [
    ("sat",  mkEngine tables [.oneshotPlanner] kAN ["SATISFICING"] [] [] [] noTr),
    ("opt",  mkEngine tables [.oneshotPlanner, .planRepairer] kA ["SATISFICING", "SOLVED_OPTIMALLY"] [] ["SEQUENTIAL_PLAN"] [] noTr),
    ("rep",  mkEngine tables [.replanner] kAN [] [] [] [] noTr),
    ("val",  mkEngine tables [.planValidator] kANC [] [] ["SEQUENTIAL_PLAN"] [] noTr),
    ("cer",  mkEngine tables [.compiler] kANC [] [] [] ["CONDITIONAL_EFFECTS_REMOVING"]
               (fun k _ => rulesTransform ["CONDITIONAL_EFFECTS"] [] k)),
    ("ncr",  mkEngine tables [.compiler] kAN [] [] [] ["NEGATIVE_CONDITIONS_REMOVING"]
               (fun k _ => rulesTransform ["NEGATIVE_CONDITIONS"] [] k)),
    ("ncr2", mkEngine tables [.compiler] kANC [] [] [] ["NEGATIVE_CONDITIONS_REMOVING"] noTr)]
  pref := ["sat", "opt", "rep", "val", "ncr2", "cer", "ncr"]

/-- results with decidable equality, for the examples -/
def res : Except Outcome (List String) → Outcome ⊕ List String
  | .ok ns => .inr ns
  | .error o => .inl o

def rOpt : Req := { mode := .oneshotPlanner, kind := kA, opt := some "SOLVED_OPTIMALLY" }
def rOptN : Req := { mode := .oneshotPlanner, kind := kAN, opt := some "SOLVED_OPTIMALLY" }
def rRep : Req := { mode := .replanner, kind := kA, opt := some "SOLVED_OPTIMALLY" }

example : F0.prefRegistered := prefRegistered_of_B (by decide +kernel)
example : rOpt.wellShaped = true ∧ rOptN.wellShaped = true ∧ rRep.wellShaped = true := by decide
/-- an engine is returned, and it is not the first of the list (the first does not qualify) -/
example : getEngineClass F0 none rOpt = .selected "opt" := by decide +kernel
/-- nobody qualifies: no-suitable-engine -/
example : getEngineClass F0 none rOptN = .noSuitable := by decide +kernel
/-- the witness of the defect repaired in /repo (a replanner that does not satisfy the requested
    optimality guarantee): no-suitable-engine, not an assertion failure -/
example : getEngineClass F0 none rRep = .noSuitable := by decide +kernel
/-- an ill-shaped request (a plan kind for a oneshot planner) fails the asserts -/
example : getEngineClass F0 none { rOpt with plan := some "SEQUENTIAL_PLAN" } = .assertion := by decide +kernel
/-- an unregistered entry of the preference list is a `KeyError` -/
example : getEngineClass { F0 with pref := ["ghost", "opt"] } none rOpt = .keyError := by decide +kernel
example : res (allApplicable F0 { mode := .oneshotPlanner, kind := kA }) = .inr ["sat", "opt"] := by decide +kernel
/-- a two-stage pipeline in which the second stage is chosen on the kind produced by the first:
    "ncr2" (first in the list) serves the first stage and "cer" the second;
    in the other order the kind produced by "cer" is within the reach of "ncr2" again -/
example : res (pipeline F0 kANC ["NEGATIVE_CONDITIONS_REMOVING", "CONDITIONAL_EFFECTS_REMOVING"]) = .inr ["ncr2", "cer"] := by
  decide +kernel
example : res (pipeline F0 kANC ["CONDITIONAL_EFFECTS_REMOVING", "NEGATIVE_CONDITIONS_REMOVING"]) = .inr ["cer", "ncr2"] := by
  decide +kernel
example : res (pipeline { F0 with pref := ["cer", "ncr"] } kANC ["NEGATIVE_CONDITIONS_REMOVING"]) = .inl .noSuitable := by
  decide +kernel
/-- here the kind declared by the first stage is what makes the second stage possible -/
example : res (pipeline { F0 with pref := ["cer", "ncr"] } kANC ["CONDITIONAL_EFFECTS_REMOVING", "NEGATIVE_CONDITIONS_REMOVING"])
    = .inr ["cer", "ncr"] := by decide +kernel
end examples

end UPVerif.C32
