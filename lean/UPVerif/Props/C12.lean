import UPVerif.Lemmas.NnfLemmas
import UPVerif.Lemmas.NnfStack
import UPVerif.Lemmas.DnfLemmas
/-!
# C12 — NNF and DNF conversions are equivalent and in normal form

Meaning is the Boolean view `bden` of the strict reference denotation `den` (Core/Den.lean):
`bden e = some v` iff `e` denotes the Boolean `v`; undefined and ill-typed both read `none`.

The DNF walker calls the expression simplifier on every conjunction it forms; the simplifier is
property C11's. Here it is a parameter `simp` with the single hypothesis C11 proves about it
(`SimpSound`: a defined Boolean value is never changed).
-/
namespace UPVerif.C12
open UPVerif UPVerif.Expr

/-- NNF is equivalent: under positive polarity it has exactly the Boolean meaning of the input,
    under negative polarity exactly the meaning of its negation — for every interpretation,
    including where the input is undefined. -/
theorem nnf_equiv (ι : Interp) (ρ : VEnv) (p : Bool) (e : Expr) :
    bden ι ρ (nnf p e) = (bden ι ρ e).map (pol p) :=
  (bden_nnf_both ι ρ).1 p e

/-- the public entry point `get_nnf_expression` -/
theorem nnf_preserves_value (ι : Interp) (ρ : VEnv) (e : Expr) (v : Bool)
    (h : den ι ρ e = some (.b v)) : den ι ρ (nnf true e) = some (.b v) := by
  rw [← bden_eq_some] at *
  rw [nnf_equiv, h]; rfl

/-- NNF is in normal form: built from atoms and negated atoms by AND / OR only (an atom is
    anything that is not NOT/AND/OR/IMPLIES/IFF; quantified subformulas are atoms, as in the code) -/
theorem nnf_shape (p : Bool) (e : Expr) : isNnf (nnf p e) = true :=
  isNnf_nnf_both.1 p e

/-- the explicit two-stack machine that `Nnf.get_nnf_expression` runs terminates after exactly
    `nnfCost e` loop iterations with an empty work stack and the recursion's result as the single
    solved entry -/
theorem nnf_machine_computes (e : Expr) : nnfMachine e = some (nnf true e) := by
  unfold nnfMachine
  rw [machine_both.1 true e [] []]

/-- DNF is equivalent, given a simplifier that preserves defined Boolean values (C11) -/
theorem dnf_equiv (ι : Interp) (ρ : VEnv) (simp : Expr → Expr) (hs : SimpSound ι ρ simp)
    (e : Expr) (v : Bool) (h : bden ι ρ e = some v) : bden ι ρ (dnf simp e) = some v := by
  have hn : bden ι ρ (nnf true e) = some v := by rw [nnf_equiv, h]; rfl
  obtain ⟨hdef, hval⟩ := (dnfWalk_sem hs).1 (nnf true e) v hn
  unfold dnf
  rw [bden_dnfExpr hdef, hval]

theorem dnf_preserves_value (ι : Interp) (ρ : VEnv) (simp : Expr → Expr) (hs : SimpSound ι ρ simp)
    (e : Expr) (v : Bool) (h : den ι ρ e = some (.b v)) : den ι ρ (dnf simp e) = some (.b v) := by
  rw [← bden_eq_some] at *
  exact dnf_equiv ι ρ simp hs e v h

/-- a conjunction that simplifies to TRUE makes the whole disjunction TRUE (the repaired
    `walk_and`; the code as found answered FALSE), one that simplifies to FALSE is dropped: neither
    changes the truth value — this is `dnf_equiv` specialised to the loop of `walk_and` -/
theorem dnf_constant_conjuncts (ι : Interp) (ρ : VEnv) (simp : Expr → Expr) (hs : SimpSound ι ρ simp)
    (ts : List (List (List Expr))) (hts : ∀ t ∈ ts, AllDefC ι ρ t.flatten) :
    dtrue ι ρ (dnfAndGo simp ts []) = ts.any (fun t => t.all (cval ι ρ)) := by
  have := (andGo_sem hs ts [] hts (by intro c hc; cases hc)).2
  simpa [dtrue] using this

/-! ### shape of the DNF result -/

/-- literal: an atom or a negated atom -/
def isLit (l : Expr) : Bool :=
  match l with
  | .app .and _ => false
  | .app .or _ => false
  | l => isNnf l

def allLit (c : List Expr) : Bool := c.all isLit

/-- what the DNF walker needs from the simplifier to stay in normal form: a conjunction of
    literals simplifies to a constant, to an AND of literals, or to a single literal -/
def SimpKeepsLits (simp : Expr → Expr) : Prop :=
  ∀ c, allLit c = true →
    (simp (mkAnd c)).isTrue = true ∨ (simp (mkAnd c)).isFalse = true ∨
    (∃ as, simp (mkAnd c) = .app .and as ∧ allLit as = true) ∨
    ((∀ as, simp (mkAnd c) ≠ .app .and as) ∧ isLit (simp (mkAnd c)) = true)

theorem andGo_lits (simp : Expr → Expr) (hk : SimpKeepsLits simp) (ts : List (List (List Expr)))
    (acc : DnfL) (hts : ∀ t ∈ ts, allLit t.flatten = true) (hacc : ∀ c ∈ acc, allLit c = true) :
    ∀ c ∈ dnfAndGo simp ts acc, allLit c = true := by
  induction ts generalizing acc with
  | nil => simpa [dnfAndGo] using hacc
  | cons t ts ih =>
    have ht := hts t (List.mem_cons_self ..)
    have hts' : ∀ t' ∈ ts, allLit t'.flatten = true := fun t' h => hts t' (List.mem_cons_of_mem _ h)
    simp only [dnfAndGo]
    split
    · intro c hc; simp at hc; subst hc; rfl
    · split
      · exact ih acc hts' hacc
      · rename_i hnt hnf
        rcases hk t.flatten ht with h | h | ⟨as, has, hlit⟩ | ⟨hna, hlit⟩
        · exact absurd h hnt
        · exact absurd h hnf
        · rw [has]
          apply ih _ hts'
          intro c hc
          rcases List.mem_append.1 hc with h | h
          · exact hacc c h
          · simp at h; subst h; exact hlit
        · split
          · rename_i as has; exact absurd has (hna as)
          · apply ih _ hts'
            intro c hc
            rcases List.mem_append.1 hc with h | h
            · exact hacc c h
            · simp at h; subst h; simp [allLit, hlit]

theorem allLit_flatten (t : List (List Expr)) (h : ∀ c ∈ t, allLit c = true) : allLit t.flatten = true := by
  simp only [allLit, List.all_eq_true, List.mem_flatten] at *
  intro l ⟨c, hc, hl⟩; exact h c hc l hl

theorem dnfWalk_lits (simp : Expr → Expr) (hk : SimpKeepsLits simp) :
    (∀ e, isNnf e = true → ∀ c ∈ dnfWalk simp e, allLit c = true) ∧
    (∀ es, isNnfList es = true → ∀ d ∈ dnfWalkList simp es, ∀ c ∈ d, allLit c = true) := by
  apply dnfWalk.mutual_induct
  · intro args ih h
    rw [isNnf] at h
    rw [dnfWalk]
    apply andGo_lits simp hk _ _ _ (by intro c hc; cases hc)
    intro t ht
    apply allLit_flatten
    intro c hc
    obtain ⟨d, hd, hcd⟩ := mem_product ht c hc
    exact ih h d hd c hcd
  · intro args ih h
    rw [isNnf] at h
    rw [dnfWalk]
    intro c hc
    rw [List.mem_flatten] at hc
    obtain ⟨d, hd, hcd⟩ := hc
    exact ih h d hd c hcd
  · intro e h1 h2 h
    have : dnfWalk simp e = [[e]] := by
      unfold dnfWalk
      split
      · exact absurd rfl (fun h => h1 _ h)
      · exact absurd rfl (fun h => h2 _ h)
      · rfl
    rw [this]
    intro c hc
    simp at hc; subst hc
    have : isLit e = true := by
      unfold isLit
      split
      · exact absurd rfl (fun h => h1 _ h)
      · exact absurd rfl (fun h => h2 _ h)
      · exact h
    simp [allLit, this]
  · intro _ d hd; cases hd
  · intro e es ihe ihes h d hd
    simp only [isNnfList, Bool.and_eq_true] at h
    simp only [dnfWalkList, List.mem_cons] at hd
    rcases hd with rfl | hd
    · exact ihe h.1
    · exact ihes h.2 d hd

/-- DNF is in normal form: a disjunction (`manager.Or`) of conjunctions (`manager.And`) of
    literals -/
theorem dnf_shape (simp : Expr → Expr) (hk : SimpKeepsLits simp) (e : Expr) :
    ∃ d : DnfL, dnf simp e = mkOr (d.map mkAnd) ∧ ∀ c ∈ d, allLit c = true :=
  ⟨dnfWalk simp (nnf true e), rfl, (dnfWalk_lits simp hk).1 _ (nnf_shape true e)⟩

/-! ### non-vacuity -/
section examples
def fA : Expr := .app (.fluent { name := "a", ty := .bool, sig := [] }) []
def fB : Expr := .app (.fluent { name := "b", ty := .bool, sig := [] }) []
def ιAB : Interp where
  fl := fun f _ => if f.name == "a" then some (.b true) else if f.name == "b" then some (.b false) else none
  fn := fun _ _ => none
  par := fun _ => none
  dom := fun _ => []
/-- `!(a => (b && a))` — the docstring's example shape — is defined and true here, and its NNF is
    `a && (!b || !a)` -/
example : den ιAB [] (.app .not [.app .implies [fA, .app .and [fB, fA]]]) = some (.b true) := by decide +kernel
example : nnf true (.app .not [.app .implies [fA, .app .and [fB, fA]]])
    = .app .and [fA, .app .or [.app .not [fB], .app .not [fA]]] := by decide +kernel
/-- the identity is a sound simplifier, so `dnf_equiv` is not vacuous -/
example : SimpSound ιAB [] id := fun _ _ h => h
example : dnf id (.app .not [.app .implies [fA, .app .and [fB, fA]]])
    = .app .or [.app .and [fA, .app .not [fB]], .app .and [fA, .app .not [fA]]] := by decide +kernel
end examples

end UPVerif.C12
