import UPVerif.Props.C19
import UPVerif.Lemmas.AnmlParse
/-!
# C19 — the types of the re-read problem (value types, fluent-parameter types, action-parameter types)

"Equivalent problem" includes the declared types: a bounded numeric type is a state invariant of every fluent of
that type and restricts the arguments of every action with a parameter of that type, so a bound that comes back
changed (`integer [-3, 0]` re-read as `integer [-3, infinity)`) changes applicability on reachable states.  These
theorems spell out that part of `roundtrip`, with NO restriction on the value of a bound:

* `int_type_roundtrip` / `real_type_roundtrip` / `type_roundtrip` — the printed name of a type (`_get_anml_name`)
  read by `type_ref` (`_parse_type_reference`) is that type again: both bounds, whether 0, negative, equal,
  fractional, of any size, or absent on one side only;
* `numeric_types_fixed` — the writer's renaming does not touch numeric types;
* `fluent_types_preserved`, `fluent_type_preserved` — the fluents of the re-read problem are exactly the renamed
  fluents of the original (name, value type, parameter types);
* `action_params_preserved` — every action comes back with its renamed parameter list, types unchanged.
-/
namespace UPVerif.C19
open UPVerif UPVerif.Anml Tok

/-- an integer type, whatever its bounds, is read back with exactly these bounds -/
theorem int_type_roundtrip (ρ : Ren) (lb ub : Option Int) (x : String) (r : List Tok) :
    pTy (printTy ρ (.int lb ub) ++ Tok.id x :: r) = some (.int lb ub, Tok.id x :: r) := by
  simpa [Ren.renTy] using pTy_printTy ρ (.int lb ub) (by simp) x r

/-- a real type, whatever its bounds, is read back with exactly these bounds -/
theorem real_type_roundtrip (ρ : Ren) (lb ub : Option Rat) (x : String) (r : List Tok) :
    pTy (printTy ρ (.real lb ub) ++ Tok.id x :: r) = some (.real lb ub, Tok.id x :: r) := by
  simpa [Ren.renTy] using pTy_printTy ρ (.real lb ub) (by simp) x r

/-- every type the writer can name is read back as its renamed self (`x` is the declared name that follows a type
    in every position where the writer prints one) -/
theorem type_roundtrip (ρ : Ren) (t : Ty) (ht : t ≠ .time) (x : String) (r : List Tok) :
    pTy (printTy ρ t ++ Tok.id x :: r) = some (ρ.renTy t, Tok.id x :: r) :=
  pTy_printTy ρ t ht x r

example : (Ty.int (some (-3)) (some 0)) ≠ .time := by decide

/-- the renaming leaves numeric types alone -/
theorem numeric_types_fixed (ρ : Ren) :
    (∀ lb ub, ρ.renTy (.int lb ub) = .int lb ub) ∧ (∀ lb ub, ρ.renTy (.real lb ub) = .real lb ub) ∧ ρ.renTy .bool = .bool :=
  ⟨fun _ _ => rfl, fun _ _ => rfl, rfl⟩

/-- the fluents of the re-read problem are exactly the renamed fluents of the original: nothing is lost, nothing
    is added, and a declaration comes back with its value type and its parameter types (bounds included) -/
theorem fluent_types_preserved (ρ : Ren) (P Q : AProblem) (hP : inFragment P = true) (hρ : Good ρ P)
    (hQ : anmlRead (anmlPrint ρ P) = some Q) (g : AFluent) :
    g ∈ Q.fluents ↔ g ∈ P.fluents.map ρ.renFluent := by
  rw [anmlRead_anmlPrint ρ P hP hρ] at hQ
  cases hQ
  simp only [reread, constantsFirst, Ren.renProblem, List.mem_append, List.mem_filter]
  constructor
  · rintro (h | h) <;> exact h.1
  · intro h
    cases hs : (ρ.renProblem P).isStatic g.ref
    · exact Or.inr ⟨h, by simpa [Ren.renProblem] using hs⟩
    · exact Or.inl ⟨h, by simpa [Ren.renProblem] using hs⟩

/-- per declaration: a fluent of `P` is found in the re-read problem under its new name with the same value type
    and the same parameter types -/
theorem fluent_type_preserved (ρ : Ren) (P Q : AProblem) (hP : inFragment P = true) (hρ : Good ρ P)
    (hQ : anmlRead (anmlPrint ρ P) = some Q) (f : AFluent) (hf : f ∈ P.fluents) :
    ∃ g ∈ Q.fluents, g.ref.name = ρ.fl f.ref.name ∧ g.ref.ty = ρ.renTy f.ref.ty ∧ g.ref.sig = f.ref.sig.map ρ.renTy :=
  ⟨ρ.renFluent f, (fluent_types_preserved ρ P Q hP hρ hQ _).2 (List.mem_map_of_mem hf), rfl, rfl, rfl⟩

theorem respellAction_params (a : AAction) : (respellAction a).params = a.params := by
  cases a <;> rfl

theorem renAction_params (ρ : Ren) (a : AAction) : (ρ.renAction a).params = ρ.renParams a.params := by
  cases a <;> rfl

/-- the actions come back in order, each with its renamed parameter list: same length, same types -/
theorem action_params_preserved (ρ : Ren) (P Q : AProblem) (hP : inFragment P = true) (hρ : Good ρ P)
    (hQ : anmlRead (anmlPrint ρ P) = some Q) :
    Q.actions.map (·.params) = P.actions.map (fun a => ρ.renParams a.params) := by
  rw [anmlRead_anmlPrint ρ P hP hρ] at hQ
  cases hQ
  simp [reread, Ren.renProblem, List.map_map, Function.comp_def, respellAction_params, renAction_params]

/-! non-vacuity and the exact spelling of the bound shapes: a problem whose declarations use an upper bound 0, a
    lower bound 0, equal bounds, one-sided bounds and fractional bounds around 0, in a fluent's value type, a
    fluent's parameter type and an action's parameter types -/
section example_
def debt : FluentRef := { name := "debt", ty := .int (some (-3)) (some 0), sig := [] }
def lvl : FluentRef := { name := "lvl", ty := .real (some (-1 / 2)) (some 0), sig := [.int (some 0) (some 0)] }
def cap : FluentRef := { name := "cap", ty := .int none (some 0), sig := [] }

def P1 : AProblem :=
  { types := [],
    fluents := [{ ref := debt, pnames := [] }, { ref := lvl, pnames := ["n"] }, { ref := cap, pnames := [] }],
    objects := [],
    init := [(.app (.fluent debt) [], Expr.int (-1)), (.app (.fluent lvl) [Expr.int 0], Expr.int 0),
             (.app (.fluent cap) [], Expr.int 0)],
    actions := [
      .inst "pay" [("k", .int (some 0) none), ("q", .real (some 0) (some (1 / 3))), ("e", .int (some 2) (some 2))]
        [.app .le [.leaf (.param "k" (.int (some 0) none)), Expr.int 3]]
        [{ fluent := .app (.fluent debt) [], value := .app .plus [.app (.fluent debt) [], Expr.int 1], cond := Expr.tt,
           kind := .assign, forall_ := [] }]],
    timedEffects := [], goals := [.app .le [Expr.int 0, .app (.fluent debt) []]], timedGoals := [], invariants := [] }

def ρ1 : Ren :=
  { ty := fun n => n, fl := fun n => n, act := fun n => n, obj := fun n => n, par := fun n _ => n, var := fun n _ => n }

example : inFragment P1 = true := by decide +kernel
example : goodRen ρ1 P1 = true := by decide +kernel

/-- `integer [-3, 0]`, `(-infinity, 0]`, `[0, infinity)`, `[0, 0]`, `float [-1/2, 0.0]`, `[0.0, 1/3]`: the spellings -/
example : printTy ρ1 (.int (some (-3)) (some 0)) = [kw "integer", sym "[", sym "-", num 3, sym ",", num 0, sym "]"] := by
  decide +kernel
example : printTy ρ1 (.int none (some 0)) = [kw "integer", sym "(", sym "-", kw "infinity", sym ",", num 0, sym "]"] := by
  decide +kernel
example : printTy ρ1 (.int (some 0) none) = [kw "integer", sym "[", num 0, sym ",", kw "infinity", sym ")"] := by
  decide +kernel
example : printTy ρ1 (.real (some (-1 / 2)) (some 0))
    = [kw "float", sym "[", sym "-", num 1, sym "/", num 2, sym ",", dec 0 0 1, sym "]"] := by decide +kernel

/-- the re-read `debt` still has the upper bound 0 and `pay` still takes `k : integer [0, infinity)` -/
example : ∃ Q, anmlRead (anmlPrint ρ1 P1) = some Q
    ∧ { ref := debt, pnames := [] } ∈ Q.fluents ∧ { ref := lvl, pnames := ["n"] } ∈ Q.fluents
    ∧ Q.actions.map (·.params)
        = [[("k", .int (some 0) none), ("q", .real (some 0) (some (1 / 3))), ("e", .int (some 2) (some 2))]] := by
  have hP : inFragment P1 = true := by decide +kernel
  have hρ : Good ρ1 P1 := goodRen_sound ρ1 P1 (by decide +kernel)
  refine ⟨_, roundtrip ρ1 P1 hP hρ, ?_, ?_, ?_⟩
  · exact (fluent_types_preserved ρ1 P1 _ hP hρ (roundtrip ρ1 P1 hP hρ) _).2 (by decide +kernel)
  · exact (fluent_types_preserved ρ1 P1 _ hP hρ (roundtrip ρ1 P1 hP hρ) _).2 (by decide +kernel)
  · rw [action_params_preserved ρ1 P1 _ hP hρ (roundtrip ρ1 P1 hP hρ)]; decide +kernel
end example_

end UPVerif.C19
