import UPVerif.Lemmas.MangleSelectLemmas
import UPVerif.Props.C38
/-!
# C38 — which keyword table applies (the writers' keyword SELECTION)

`Props/C38.lean` proves "no chosen name is a keyword of the writer" for whatever keyword set the writer has.  This
file closes the other half: the keyword set `PDDLWriter.__init__` / `MAPDDLWriter.__init__` SELECTS for a problem
contains every keyword of every fragment of PDDL that the text written for that problem uses (`Needed`,
`Core/MangleSelectSpec.lean`, written from the target language).  The conditions of the selection
(`Gen.pddlSelect`, `Gen.maSelect`) are regenerated from the `if` statements of `__init__` on every run, like the
tables; the statements quantify over EVERY problem view — both time models (`discrete`), problems that are temporal
only through timed effects or only through timed goals, hierarchical and contingent problems.
-/
namespace UPVerif.C38
open UPVerif.Mangle

/-- each fragment the written text uses is selected by some `if` of `PDDLWriter.__init__` -/
theorem uses_selected (v : ProblemView) (t : KwTable) (h : usesTable v t = true) :
    ∃ p ∈ UPVerif.Gen.pddlSelect, p.2 = t ∧ p.1.eval v = true := by
  cases t <;>
  · simp only [usesTable, usesPlus, usesPddl3, usesTemporal, usesContingent, usesHddl, durativeCls, contingentCls,
      hierarchicalCls] at h
    simp only [UPVerif.Gen.pddlSelect, List.mem_cons, List.not_mem_nil, or_false, exists_eq_or_imp, exists_eq_left,
      KwCond.eval, ProblemView.len]
    simpa using h

/-- SELECTION IS ADEQUATE: for every problem (any class, any actions, any number of processes, events, trajectory
    constraints, timed effects and timed goals, continuous or discrete time) and every table `T`, the keyword set of
    the writer contains every keyword the written text needs -/
theorem select_adequate (T : Tables) (v : ProblemView) (k : Name) (h : Needed T v k) :
    k ∈ initKeywords T UPVerif.Gen.pddlSelect v := by
  rw [mem_initKeywords]
  rcases h with h | ⟨t, hu, hk⟩
  · exact Or.inl h
  · obtain ⟨p, hp, rfl, hc⟩ := uses_selected v t hu
    exact Or.inr ⟨p, hp, hc, hk⟩

/-- the MA-PDDL writer's fixed set is adequate as well -/
theorem ma_select_adequate (T : Tables) (k : Name) (h : MaNeeded T k) : k ∈ maKeywords T UPVerif.Gen.maSelect := by
  rw [mem_maKeywords]
  rcases h with h | h
  · exact Or.inl h
  · exact Or.inr ⟨.temporal, by simp [UPVerif.Gen.maSelect], h⟩

/-- whatever the conditions are, the selected set stays admissible for the renaming theorems (`kwOK`) -/
theorem selected_keywords_ok (T : Tables) (hT : pddlTablesOK T = true) (sel : List (KwCond × KwTable))
    (v : ProblemView) : kwOK (initKeywords T sel v) = true := by
  simp only [pddlTablesOK, Bool.and_eq_true] at hT
  exact kwOK_of_subset (initKeywords_subset T sel v) hT.2

theorem ma_keywords_ok (T : Tables) (hT : pddlTablesOK T = true) (sel : List KwTable) :
    kwOK (maKeywords T sel) = true := by
  simp only [pddlTablesOK, Bool.and_eq_true] at hT
  exact kwOK_of_subset (maKeywords_subset T sel) hT.2

/-- the writer of a problem with view `v`, configured as `PDDLWriter.__init__` does -/
def problemEnv (v : ProblemView) (hier : Bool) (names : List Name) : PddlEnv :=
  { kw := initKeywords UPVerif.Gen.mangleTables UPVerif.Gen.pddlSelect v, hier := hier, names := names }

/-- EVERYTHING TOGETHER, no hypothesis left: for the tables and the selection conditions of /repo, every problem
    (view, `has_name`, typing) and every call sequence, each recorded name is a lower-case PDDL name (variable), is no
    keyword of ANY fragment the written text of that problem uses, maps back to its element, and belongs to no other
    element even up to case -/
theorem repo_problem_names (v : ProblemView) (hier : Bool) (names : List Name) (calls : List Item) (it : Item)
    (n : Name) (h : getPddlName (pddlRun UPVerif.Gen.mangleTables (problemEnv v hier names) calls) it = some n) :
    ((if it.isVar then isPddlVariable n else isPddlName n) = true ∧ lowerCase n = true)
    ∧ (¬ Needed UPVerif.Gen.mangleTables v n)
    ∧ getItemNamed (pddlRun UPVerif.Gen.mangleTables (problemEnv v hier names) calls) n = some it
    ∧ ∀ j m, getPddlName (pddlRun UPVerif.Gen.mangleTables (problemEnv v hier names) calls) j = some m →
        n.map Char.toLower = m.map Char.toLower → it = j :=
  ⟨pddl_names_valid _ tables_ok.1 _ calls it n h,
   fun hn => pddl_names_not_keyword _ (problemEnv v hier names)
     (selected_keywords_ok _ tables_ok.1 _ v) calls it n h (select_adequate _ v n hn),
   pddl_item_of_name _ _ calls it n h,
   fun j m hj hf => pddl_names_distinct_ci _ tables_ok.1 _ calls it j n m h hj hf⟩

/-- the same for the MA-PDDL writer's keyword set (its `_get_mangled_name` on non-agent elements is the same loop) -/
theorem repo_ma_names (hier : Bool) (names : List Name) (calls : List Item) (it : Item) (n : Name)
    (h : getPddlName (pddlRun UPVerif.Gen.mangleTables
          { kw := maKeywords UPVerif.Gen.mangleTables UPVerif.Gen.maSelect, hier := hier, names := names } calls) it
          = some n) :
    ((if it.isVar then isPddlVariable n else isPddlName n) = true ∧ lowerCase n = true)
    ∧ ¬ MaNeeded UPVerif.Gen.mangleTables n :=
  ⟨pddl_names_valid _ tables_ok.1 _ calls it n h,
   fun hn => pddl_names_not_keyword _ _ (ma_keywords_ok _ tables_ok.1 _) calls it n h (ma_select_adequate _ n hn)⟩

/-- every `:word` the writer can emit (section heads, requirement flags: all `:word`s in the string literals of
    pddl_writer.py) is in one of its keyword tables — `functions`, `numeric-fluents`, `action-costs`,
    `duration-inequalities`, `task`, `method`, `htn`, `subtasks`, `ordered-subtasks`, `ordering`, `hierarchy`,
    `method-preconditions` were not before the repair -/
theorem written_words_reserved :
    UPVerif.Gen.pddlWritten.all (allPddlKeywords UPVerif.Gen.mangleTables).contains = true := by
  decide +kernel

/-! ## non-vacuity and the two sides of each condition, over the real tables and conditions -/
section examples
open UPVerif.Gen

def problemMro : List Name := ["Problem".toList, "AbstractProblem".toList]
def durMro : List Name := ["DurativeAction".toList, "Action".toList]
def instMro : List Name := ["InstantaneousAction".toList, "Action".toList]
def view0 : ProblemView :=
  { mro := problemMro, actions := [], nProcesses := 0, nEvents := 0, nTrajectory := 0, nTimedEffects := 0,
    nTimedGoals := 0, discrete := false }

/-- the seeded case: a DISCRETE-time problem with a durative action -/
def viewDiscrete : ProblemView := { view0 with actions := [instMro, durMro], discrete := true }
/-- temporal only through a timed effect / only through a timed goal / classical -/
def viewTil : ProblemView := { view0 with nTimedEffects := 1 }
def viewTimedGoal : ProblemView := { view0 with nTimedGoals := 1 }
def viewHtn : ProblemView := { view0 with mro := "HierarchicalProblem".toList :: problemMro }

def dcls : Name := "DurativeAction".toList
def tcls : Name := "Task".toList
def items1 : List Item :=
  [ { cls := dcls, name := "start".toList, uid := 0 }, { cls := pcls, name := "duration".toList, uid := 1 },
    { cls := pcls, name := "ALL".toList, uid := 2 }, { cls := fcls, name := "at".toList, uid := 3 },
    { cls := tcls, name := "task".toList, uid := 4 }, { cls := fcls, name := "functions".toList, uid := 5 } ]

/-- discrete time, durative action: `start`, `?duration`, `?all`, `at` are escaped (`task` is not: no hierarchy) -/
example : (pddlRun mangleTables (problemEnv viewDiscrete false []) items1).otn.map (fun p => String.ofList p.2)
    = ["start_", "?duration_", "?all_", "at_", "task", "functions_"] := by decide +kernel
/-- timed effect only: the same temporal escapes -/
example : (pddlRun mangleTables (problemEnv viewTil false []) items1).otn.map (fun p => String.ofList p.2)
    = ["start_", "?duration_", "?all_", "at_", "task", "functions_"] := by decide +kernel
/-- timed goal only (nothing temporal can be written): classical names -/
example : (pddlRun mangleTables (problemEnv viewTimedGoal false []) items1).otn.map (fun p => String.ofList p.2)
    = ["start", "?duration", "?all", "at", "task", "functions_"] := by decide +kernel
/-- hierarchical problem: `task` is escaped, the temporal words are not -/
example : (pddlRun mangleTables (problemEnv viewHtn false []) items1).otn.map (fun p => String.ofList p.2)
    = ["start", "?duration", "?all", "at", "task_", "functions_"] := by decide +kernel

example : Needed mangleTables viewDiscrete "duration".toList :=
  Or.inr ⟨.temporal, by decide +kernel, by decide +kernel⟩
example : ¬ Needed mangleTables viewTimedGoal "duration".toList := by
  rintro (h | ⟨t, hu, hk⟩)
  · revert h; decide +kernel
  · cases t <;> first | (revert hu; decide +kernel) | (revert hk; decide +kernel)

/-- the selection as it was before the repair (no `or len(self.problem.timed_effects) > 0`, no HDDL table) is NOT
    adequate: a problem whose only temporal construct is a timed initial literal `(at 5 (at))` needs `at` -/
def selectBefore : List (KwCond × KwTable) :=
  [(.or (.lenPos .processes) (.lenPos .events), .plus), (.lenPos .trajectoryConstraints, .pddl3),
   (.anyActionIs "DurativeAction".toList, .temporal), (.problemIs "ContingentProblem".toList, .contingent)]

theorem select_before_repair_inadequate :
    ¬ ∀ (v : ProblemView) (k : Name), Needed mangleTables v k → k ∈ initKeywords mangleTables selectBefore v := by
  intro h
  have := h viewTil "at".toList (Or.inr ⟨.temporal, by decide +kernel, by decide +kernel⟩)
  revert this
  decide +kernel

end examples

end UPVerif.C38
