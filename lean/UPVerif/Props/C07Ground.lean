import UPVerif.Props.C06Ground
import UPVerif.Lemmas.CompileGroundDef
/-!
# C07 — Compilers preserve solvability and every original plan: the GROUNDER

Statements only (models and semantics as in `Props/C06Ground.lean`; helper lemmas `Lemmas/CompileGround*.lean`, the
completeness direction of the step lemma in `Lemmas/CompileGroundDef.lean`).

The simplifier hypothesis is ONE-DIRECTIONAL here (`GroundHypC.exact`, `SimpInstDefExact`): in every state that agrees with
the initial state on the static fluents, where a closed instance of an expression evaluates to a value, the same instance
of the simplified expression evaluates to that value — the shape of C11's theorem about the real simplifier (exact where
defined).  It follows from the two-sided hypothesis of C06 (`GroundHyp.toC`).  An applicable instance evaluates everything
the semantics looks at, so nothing more is needed, and a dropped effect needs no side condition.

Completeness of `Grounder(prune_actions = False | True)`: every valid plan of the original problem — a sequence of
INSTANCES `(action, arguments)` — has a plan of the ground problem of the SAME length that `lift_action_instance` maps
back to it.  Two things could lose an instance some valid plan needs:
* the static-fluent pruning of `get_possible_parameters` / `_purge_items_list` — PROVED harmless
  (`grounder_pruning_removes_only_inapplicable`): it removes only instances whose preconditions are false in every state
  that agrees with the initial state on the static fluents, and every reachable state does
  (`C06.grounder_static_fluents_keep_initial_value`);
* `create_action_with_given_subs` answering `None`: because the simplified preconditions are FALSE — harmless, PROVED —
  or because the instance's effects conflict STATICALLY (`_add_effect_instance`) — open finding
  C07-static-conflict-coinciding-values: the values may coincide in a state, where the instance applies.  The theorems
  carry the decidable hypothesis `noStaticConflict` that excludes exactly this cause, and
  `grounder_complete_needs_no_static_conflict` is a kernel-checked refutation of the statement without it.
-/
namespace UPVerif.C07
open UPVerif UPVerif.Expr UPVerif.Sim UPVerif.Spec UPVerif.Simulation UPVerif.Compile UPVerif.Compile.Ground

/-- STATIC-FLUENT PRUNING REMOVES ONLY INSTANCES THAT ARE INAPPLICABLE IN EVERY REACHABLE STATE: an instance of an
    action whose preconditions all hold in SOME state agreeing with the initial state on the static fluents is among
    `get_possible_parameters(action)` with `prune_actions = True`.  `pruneWF` is decidable: distinct parameter names,
    object nodes of the initial values carry their declared type, and the arguments of a pruning condition whose fluent
    has a default other than FALSE are parameters / objects typed inside the fluent's signature. -/
theorem grounder_pruning_removes_only_inapplicable (W : World) (g : St) (a : Action) (args : List String)
    (hwf : pruneWF W.P = true) (ha : a ∈ W.P.actions) (hinv : StaticInv W g) (hmem : args ∈ instancesOf W.P a)
    (hpre : preOK (ctxOf W g) (a.pre.map (substE (paramSubst W.P a args))) = true) :
    args ∈ possibleParameters W.P true a := pruning_complete hwf ha hinv hmem hpre

/-- EVERY APPLICABLE INSTANCE HAS ITS GROUND ACTION, which makes the same step -/
theorem grounder_applicable_instance_has_ground_action (simp : Expr → Expr) (prune : Bool) (W : World)
    (c : GroundCompiled) (hc : grounderCompile simp prune W.P = some c) (hyp : GroundHypC simp prune W)
    (hnc : noStaticConflict simp prune W.P = true) (hpw : prune = true → pruneWF W.P = true) (g g' : St)
    (hinv : StaticInv W g) (i : Nat) (a : Action) (args : List String) (ha : W.P.actions[i]? = some a)
    (hs : stepInst W g a args = some g') :
    ∃ j, groundBack c j = some (i, args) ∧ (tsOf (withProblem W c.prob)).step g j = some g' :=
  ground_complete_step_def hyp hc hnc hpw hinv ha hs

/-- COMPLETENESS of the Grounder for every plan of every length, same plan length, same instance sequence.
    Remaining hypotheses: `GroundHypC` (one-directional exactness of the simplifier parameter; decidable: instances
    closed, no forall variable vanishes in the simplification, effect targets are fluent expressions), `noStaticConflict`
    (decidable; the open finding), and with pruning the decidable `pruneWF`. -/
theorem grounder_complete_partial (simp : Expr → Expr) (prune : Bool) (W : World) (c : GroundCompiled)
    (hc : grounderCompile simp prune W.P = some c) (hyp : GroundHypC simp prune W)
    (hnc : noStaticConflict simp prune W.P = true) (hpw : prune = true → pruneWF W.P = true)
    (π : List (Nat × List String)) (hv : (tsLifted W).Valid π) :
    ∃ π', (tsOf (withProblem W c.prob)).Valid π' ∧ mapBack (groundBack c) π' = π ∧ π'.length ≤ π.length + 0 :=
  (ground_bwd_def hyp hc hnc hpw).complete π hv

/-- … hence an unsolvable ground problem implies an unsolvable original problem -/
theorem grounder_unsolvable_partial (simp : Expr → Expr) (prune : Bool) (W : World) (c : GroundCompiled)
    (hc : grounderCompile simp prune W.P = some c) (hyp : GroundHypC simp prune W)
    (hnc : noStaticConflict simp prune W.P = true) (hpw : prune = true → pruneWF W.P = true)
    (h : ¬ (tsOf (withProblem W c.prob)).Solvable) : ¬ (tsLifted W).Solvable :=
  (ground_bwd_def hyp hc hnc hpw).unsolvable h

/-- the Grounder as the first stage of a pipeline: completeness composes, the bounds add up -/
theorem grounder_then_complete (simp : Expr → Expr) (prune : Bool) (W : World) (c : GroundCompiled)
    (hc : grounderCompile simp prune W.P = some c) (hyp : GroundHypC simp prune W)
    (hnc : noStaticConflict simp prune W.P = true) (hpw : prune = true → pruneWF W.P = true)
    {SC AC : Type} (C : TS SC AC) (β₂ : AC → Option Nat) (e₂ : Nat)
    (h₂ : ∀ π, (tsOf (withProblem W c.prob)).Valid π → ∃ π', C.Valid π' ∧ mapBack β₂ π' = π ∧ π'.length ≤ π.length + e₂)
    (π : List (Nat × List String)) (hv : (tsLifted W).Valid π) :
    ∃ π', C.Valid π' ∧ mapBack (compBack (groundBack c) β₂) π' = π ∧ π'.length ≤ π.length + (0 + e₂) :=
  complete_comp (grounder_complete_partial simp prune W c hc hyp hnc hpw) h₂ π hv

/-- the statement WITHOUT the hypothesis that excludes the open finding (everything else kept) -/
def grounder_complete_full (simp : Expr → Expr) (prune : Bool) : Prop :=
  ∀ (W : World) (c : GroundCompiled), grounderCompile simp prune W.P = some c → GroundHypC simp prune W →
    (prune = true → pruneWF W.P = true) → ∀ π : List (Nat × List String), (tsLifted W).Valid π →
    ∃ π', (tsOf (withProblem W c.prob)).Valid π' ∧ mapBack (groundBack c) π' = π ∧ π'.length ≤ π.length + 0

namespace GroundEx
open UPVerif.C06.GroundEx
/-! ## non-vacuity on the problem of `Props/C06Ground.lean` -/

/-- the hypotheses of `grounder_complete_partial` hold with pruning and the static simplifier, and without pruning -/
example : noStaticConflict simpRoad true PG = true ∧ pruneWF PG = true ∧ noStaticConflict id false PG = true := by
  decide +kernel

/-- the valid original plan `[mv(o1)]` and its counterpart in the pruned ground problem -/
example : validLB WG [(0, ["o1"])] = true ∧ validB (withProblem WG cPrune.prob) [0] = true ∧
    mapBack (groundBack cPrune) [0] = [(0, ["o1"])] := by decide +kernel

/-- the theorem applied: the ground problem has a plan of length ≤ 1 mapping back to `[mv(o1)]` -/
example : ∃ π', (tsOf (withProblem WG cPrune.prob)).Valid π' ∧ mapBack (groundBack cPrune) π' = [(0, ["o1"])] ∧
    π'.length ≤ 1 :=
  grounder_complete_partial simpRoad true WG cPrune (some_getD _ (by decide +kernel)) hypPrune.toC (by decide +kernel)
    (fun _ => by decide +kernel) [(0, ["o1"])] (validLB_sound (by decide +kernel))

/-- the pruned instance `mv(o2)` is not applicable in the initial state (nor in any reachable one: its static
    precondition `road(o2)` is false), so nothing is lost by pruning it -/
example : validLB WG [(0, ["o2"])] = false ∧ validLB WG [(1, []), (0, ["o2"])] = false := by decide +kernel

/-! ## the open finding: a kernel-checked witness that `noStaticConflict` is needed

types `T`; object `o1 : T`; fluents `xq(T) : int = 0`, `y : int = 0`, `b : bool = false`; goal `b`;
`a(p : T)`: effects `xq(p) := 0`, `xq(p) := y`, `b := true`.
In the initial state `y = 0`, both assignments give `xq(o1)` the value `0`: the instance `a(o1)` applies and `[a(o1)]` is a
valid plan.  `create_action_with_given_subs` rejects the instance (`0` and `y` are different value expressions), the ground
problem has no action at all. -/
def fXq : FluentRef := ⟨"xq", .int none none, [tT]⟩
def fY : FluentRef := ⟨"y", .int none none, []⟩
def fB : FluentRef := ⟨"b", .bool, []⟩
def actA : Action where
  name := "a"
  params := [("p", tT)]
  pre := []
  effs := [eff (.app (.fluent fXq) [pP]) (Expr.int 0) Expr.tt .assign [],
           eff (.app (.fluent fXq) [pP]) (.app (.fluent fY) []) Expr.tt .assign [],
           eff (.app (.fluent fB) []) Expr.tt Expr.tt .assign []]
def PC : Problem where
  name := "coincide"
  types := ⟨[("T", none)]⟩
  objects := [("o1", "T")]
  fluents := [⟨fXq, some (Expr.int 0)⟩, ⟨fY, some (Expr.int 0)⟩, ⟨fB, some Expr.ff⟩]
  init := []
  actions := [actA]
  goals := [.app (.fluent fB) []]
  traj := []
  metrics := []
def WC : World := { P := PC, simp := id, fn := fun _ _ => none }
def cC : GroundCompiled := (grounderCompile id false PC).getD ⟨PC, [(0, [])]⟩

/-- the witness: compiled without any action; the decidable hypothesis fails; every other hypothesis holds; `[a(o1)]` is
    a valid plan of the original -/
theorem witness_facts : (grounderCompile id false PC).isSome = true ∧ cC.prob.actions = [] ∧
    noStaticConflict id false PC = false ∧ groundOKc id false PC = true ∧ effTargetsWF PC = true ∧
    validLB WC [(0, ["o1"])] = true := by decide +kernel

/-- THE UNRESTRICTED STATEMENT IS FALSE (finding C07-static-conflict-coinciding-values) -/
theorem grounder_complete_needs_no_static_conflict : ¬ grounder_complete_full id false := by
  intro h
  obtain ⟨h1, h2, _, h4, h5, h6⟩ := witness_facts
  have hc : grounderCompile id false WC.P = some cC := some_getD _ h1
  have hyp : GroundHypC id false WC := ⟨fun g _ => (SimpInstExact_id _ _).toDef, h4, h5⟩
  obtain ⟨π', hv, hm, _⟩ := h WC cC hc hyp (fun hp => by cases hp) [(0, ["o1"])] (validLB_sound h6)
  cases π' with
  | nil => cases hm
  | cons j r =>
    obtain ⟨s0, sf, _, hr, _⟩ := hv
    simp only [TS.run] at hr
    have : (tsOf (withProblem WC cC.prob)).step s0 j = none := by
      show (match (withProblem WC cC.prob).P.actions[j]? with
        | some a => stepAct (withProblem WC cC.prob) s0 a
        | none => none) = none
      have : (withProblem WC cC.prob).P.actions = [] := h2
      rw [this]; rfl
    rw [this] at hr
    cases hr
end GroundEx

end UPVerif.C07
