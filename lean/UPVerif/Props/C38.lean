import UPVerif.Lemmas.MangleLemmas
import UPVerif.Gen.Keywords
/-!
# C38 — Writer renamings are valid, injective and invertible

Statements only (helper lemmas live in `Lemmas/MangleLemmas.lean`; the model in `Core/Mangle.lean`; the
reference predicates — what a PDDL name / ANML identifier is, written from the grammars — and the decidable
side conditions on the tables in `Core/MangleSpec.lean`).

Every theorem quantifies over ALL call sequences on a new writer (`pddlRun`, `anmlRun`: any list of items,
with repetitions, in any order), over all problems (`env.names`, `env.hier`, the declared elements) and over
all ASCII names.  The theorems that depend on the keyword sets / `INITIAL_LETTER` / the character classes of the
regular expressions hold for EVERY table that meets `pddlTablesOK` / `anmlTablesOK` / `kwOK`; that the tables
regenerated from /repo meet them is re-decided by the kernel on every run (`tables_ok`).  The hand-written
functions are tied to the code by the correspondence check.
-/
namespace UPVerif.C38
open UPVerif.Mangle

variable (T : Tables)

/-! ## PDDL: `PDDLWriter._get_mangled_name`, `get_item_named`, `get_pddl_name` -/

/-- the two lookups are inverses of each other, after every call sequence -/
theorem pddl_lookups_inverse (env : PddlEnv) (calls : List Item) (it : Item) (n : Name) :
    getPddlName (pddlRun T env calls) it = some n ↔ getItemNamed (pddlRun T env calls) n = some it :=
  (pddlRun_inv T env calls).inverse it n

/-- consequently `get_item_named ∘ get_pddl_name` is the identity on everything that has a name -/
theorem pddl_item_of_name (env : PddlEnv) (calls : List Item) (it : Item) (n : Name)
    (h : getPddlName (pddlRun T env calls) it = some n) :
    getItemNamed (pddlRun T env calls) n = some it :=
  (pddl_lookups_inverse T env calls it n).1 h

/-- distinct model elements get distinct names (in ONE namespace: stronger than the property asks) -/
theorem pddl_names_distinct (env : PddlEnv) (calls : List Item) (i j : Item) (n : Name)
    (hi : getPddlName (pddlRun T env calls) i = some n) (hj : getPddlName (pddlRun T env calls) j = some n) :
    i = j := by
  have h1 := (pddl_lookups_inverse T env calls i n).1 hi
  have h2 := (pddl_lookups_inverse T env calls j n).1 hj
  rw [h1] at h2; injection h2

/-- every chosen name is a PDDL `<name>` (`?<name>` for parameters and variables) in lower case -/
theorem pddl_names_valid (hT : pddlTablesOK T = true) (env : PddlEnv) (calls : List Item) (it : Item) (n : Name)
    (h : getPddlName (pddlRun T env calls) it = some n) :
    (if it.isVar then isPddlVariable n else isPddlName n) = true ∧ lowerCase n = true := by
  have := pddl_names_invariant T env (fun it n => goodName it.isVar n = true)
    (fun it => ⟨pddlTmp_good T hT env it,
                fun k => goodName_append _ _ _ (pddlTmp_good T hT env it) (okTail_counter k)⟩) calls it n h
  simpa [goodName] using this

/-- PDDL is case-insensitive: the names stay distinct after case folding -/
theorem pddl_names_distinct_ci (hT : pddlTablesOK T = true) (env : PddlEnv) (calls : List Item) (i j : Item)
    (n m : Name) (hi : getPddlName (pddlRun T env calls) i = some n)
    (hj : getPddlName (pddlRun T env calls) j = some m)
    (hfold : n.map Char.toLower = m.map Char.toLower) : i = j := by
  rw [map_toLower_of_lowerCase n (pddl_names_valid T hT env calls i n hi).2,
      map_toLower_of_lowerCase m (pddl_names_valid T hT env calls j m hj).2] at hfold
  subst hfold
  exact pddl_names_distinct T env calls i j n hi hj

/-- no chosen name is a keyword of the writer -/
theorem pddl_names_not_keyword (env : PddlEnv) (hkw : kwOK env.kw = true) (calls : List Item) (it : Item)
    (n : Name) (h : getPddlName (pddlRun T env calls) it = some n) : n ∉ env.kw :=
  pddl_names_invariant T env (fun _ n => n ∉ env.kw)
    (fun it => ⟨pddlTmp_not_kw T env hkw it, fun k => kwOK_counter hkw _ k⟩) calls it n h

/-- every item that was asked for has a name, and a call returns exactly the recorded name -/
theorem pddl_call_returns_recorded (env : PddlEnv) (calls : List Item) (it : Item) :
    getPddlName (pddlRun T env (calls ++ [it])) it
      = some (getMangledName T env (pddlRun T env calls) it).1 := by
  simp only [pddlRun, List.foldl_append, List.foldl_cons, List.foldl_nil, getPddlName]
  exact getMangledName_returns T env _ it

/-- names are stable: later calls never rename an element -/
theorem pddl_names_stable (env : PddlEnv) (calls more : List Item) (it : Item) (n : Name)
    (h : getPddlName (pddlRun T env calls) it = some n) :
    getPddlName (pddlRun T env (calls ++ more)) it = some n := by
  simp only [pddlRun, List.foldl_append, getPddlName] at *
  exact foldl_invariant _ (fun (st : PddlState) => st.otn.lookup it = some n)
    (fun st i hs => getMangledName_keeps T env st i it n hs) more _ h

/-- the `assert` in `_get_mangled_name` can never fail -/
theorem pddl_assert_holds (env : PddlEnv) (calls : List Item) (it : Item)
    (h : getPddlName (pddlRun T env calls) it = none) :
    assertOk (pddlRun T env calls) (getMangledName T env (pddlRun T env calls) it).1 = true := by
  have hI := pddlRun_inv T env calls
  obtain ⟨new, he, hnew, _⟩ := getMangledName_miss T env _ it h
  rw [he]
  simp only [assertOk, Bool.and_eq_true, Bool.not_eq_true']
  constructor
  · cases hc : (dictKeys (pddlRun T env calls).nto).contains new with
    | false => rfl
    | true => exact absurd (List.contains_iff_mem.1 hc) hnew
  · cases hc : (dictValues (pddlRun T env calls).otn).contains new with
    | false => rfl
    | true =>
      exfalso
      have hm := List.contains_iff_mem.1 hc
      simp only [dictValues, List.mem_map] at hm
      obtain ⟨⟨k, v⟩, hp, rfl⟩ := hm
      have hl := lookup_of_mem_nodup hI.nodup hp
      have := (hI.inverse k v).1 hl
      exact hnew ((mem_dictKeys_iff _ _).2 (by rw [this]; rfl))

/-- both loops of the model leave through their condition, never because the fuel ran out -/
theorem loops_exit_by_condition (kw taken : List Name) (n tmp : Name) :
    escapeKw kw (escapeFuel kw) n ∉ kw ∧ fresh taken tmp (freshFuel taken) 0 tmp ∉ taken :=
  ⟨escapeKw_not_mem kw _ n (by simp [escapeFuel]; omega), fresh_not_taken taken tmp⟩

/-! ## ANML: `_is_valid_anml_name`, `_get_anml_valid_name`, `_get_anml_name`, `_write_problem` -/

/-- distinct keys of `names_mapping` (model elements and the built-in types) have distinct names,
    for every problem (`declared` may even contain equal names) and every call sequence -/
theorem anml_names_distinct (declared calls : List Item) (i j : Item) (n : Name)
    (hi : (anmlRun T declared calls).lookup i = some n) (hj : (anmlRun T declared calls).lookup j = some n) :
    i = j :=
  anmlRun_inj T declared calls i j n hi hj

/-- every name of a model element is an ANML identifier and not an ANML keyword -/
theorem anml_names_valid (hT : anmlTablesOK T = true) (declared calls : List Item) (it : Item) (n : Name)
    (h : (anmlRun T declared calls).lookup it = some n) (hb : it.isBuiltin = false) :
    isAnmlIdent n = true ∧ n ∉ T.anmlKw :=
  anmlRun_good T hT declared calls it n h hb

/-- a call returns exactly the recorded name -/
theorem anml_call_returns_recorded (declared calls : List Item) (it : Item) :
    (anmlRun T declared (calls ++ [it])).lookup it
      = some (getAnmlName T (anmlRun T declared calls) it).1 := by
  simp only [anmlRun, List.foldl_append, List.foldl_cons, List.foldl_nil]
  exact getAnmlName_returns T _ it

/-- names are stable: later calls never rename an element -/
theorem anml_names_stable (declared calls more : List Item) (it : Item) (n : Name)
    (h : (anmlRun T declared calls).lookup it = some n) :
    (anmlRun T declared (calls ++ more)).lookup it = some n := by
  simp only [anmlRun, List.foldl_append] at *
  exact foldl_invariant _ (fun (m : AnmlMap) => m.lookup it = some n)
    (fun m i hs => getAnmlName_keeps T m i it n hs) more _ h

/-- the whole writer (`_write_problem` on a problem without quantified expressions) is one such run -/
theorem anml_write_distinct_valid (hT : anmlTablesOK T = true) (p : AnmlProblem) (i j : Item) (n : Name)
    (hi : (anmlWrite T p).lookup i = some n) :
    ((anmlWrite T p).lookup j = some n → i = j) ∧ (i.isBuiltin = false → isAnmlIdent n = true ∧ n ∉ T.anmlKw) :=
  ⟨fun hj => anml_names_distinct T p.declared p.calls i j n hi hj,
   fun hb => anml_names_valid T hT p.declared p.calls i n hi hb⟩

/-! ## the tables of /repo -/

/-- side conditions on the regenerated tables (re-decided on every regeneration): the character classes only
    let PDDL / ANML characters through, a name that passes the start test keeps a letter in front, the initial
    letters are (lower-case) letters, no keyword ends in `_<digits>` or starts with `?`, `object_` is no keyword -/
theorem tables_ok : pddlTablesOK UPVerif.Gen.mangleTables = true ∧ anmlTablesOK UPVerif.Gen.mangleTables = true := by
  decide +kernel

/-- hence the keyword set of every writer (any combination of the four optional sets) is admissible -/
theorem writer_keywords_ok (hT : pddlTablesOK T = true) (plus pddl3 temporal contingent : Bool) :
    kwOK (pddlKeywords T plus pddl3 temporal contingent) = true := by
  simp only [pddlTablesOK, Bool.and_eq_true] at hT
  exact kwOK_of_subset (pddlKeywords_subset T plus pddl3 temporal contingent) hT.2

/-! ## the writers of /repo: everything together, no hypothesis left -/

/-- the writer of any problem, as `PDDLWriter.__init__` configures it from the problem's features -/
def repoEnv (plus pddl3 temporal contingent hier : Bool) (names : List Name) : PddlEnv :=
  { kw := pddlKeywords UPVerif.Gen.mangleTables plus pddl3 temporal contingent, hier := hier, names := names }

/-- for the tables of /repo, every writer configuration, every problem and every call sequence: each recorded name
    is a lower-case PDDL name (variable), is no keyword of the writer, maps back to its element, and belongs to no
    other element even up to case -/
theorem repo_pddl_names (plus pddl3 temporal contingent hier : Bool) (names : List Name) (calls : List Item)
    (it : Item) (n : Name)
    (h : getPddlName (pddlRun UPVerif.Gen.mangleTables (repoEnv plus pddl3 temporal contingent hier names) calls) it
          = some n) :
    ((if it.isVar then isPddlVariable n else isPddlName n) = true ∧ lowerCase n = true)
    ∧ n ∉ pddlKeywords UPVerif.Gen.mangleTables plus pddl3 temporal contingent
    ∧ getItemNamed (pddlRun UPVerif.Gen.mangleTables (repoEnv plus pddl3 temporal contingent hier names) calls) n
        = some it
    ∧ ∀ j m, getPddlName (pddlRun UPVerif.Gen.mangleTables (repoEnv plus pddl3 temporal contingent hier names) calls) j
          = some m → n.map Char.toLower = m.map Char.toLower → it = j :=
  ⟨pddl_names_valid UPVerif.Gen.mangleTables tables_ok.1 (repoEnv plus pddl3 temporal contingent hier names) calls it n h,
   pddl_names_not_keyword UPVerif.Gen.mangleTables (repoEnv plus pddl3 temporal contingent hier names)
     (writer_keywords_ok UPVerif.Gen.mangleTables tables_ok.1 plus pddl3 temporal contingent) calls it n h,
   pddl_item_of_name UPVerif.Gen.mangleTables (repoEnv plus pddl3 temporal contingent hier names) calls it n h,
   fun j m hj hf => pddl_names_distinct_ci UPVerif.Gen.mangleTables tables_ok.1
     (repoEnv plus pddl3 temporal contingent hier names) calls it j n m h hj hf⟩

/-- for the tables of /repo, every problem (declared elements) and every call sequence of the ANML writer -/
theorem repo_anml_names (declared calls : List Item) (it : Item) (n : Name)
    (h : (anmlRun UPVerif.Gen.mangleTables declared calls).lookup it = some n) :
    (it.isBuiltin = false → isAnmlIdent n = true ∧ n ∉ UPVerif.Gen.mangleTables.anmlKw)
    ∧ ∀ j, (anmlRun UPVerif.Gen.mangleTables declared calls).lookup j = some n → it = j :=
  ⟨fun hb => anml_names_valid UPVerif.Gen.mangleTables tables_ok.2 declared calls it n h hb,
   fun j hj => anml_names_distinct UPVerif.Gen.mangleTables declared calls it j n h hj⟩

/-! ## non-vacuity: concrete adversarial inputs over the real tables -/
section examples
open UPVerif.Gen

def ucls : Name := "_UserType".toList
def fcls : Name := "Fluent".toList
def pcls : Name := "Parameter".toList
def env0 : PddlEnv :=
  { kw := pddlKeywords mangleTables false false true false, hier := true,
    names := ["object".toList, "AT".toList, "at".toList, "at_".toList, "3 d".toList, "f_3_d".toList] }
def items0 : List Item :=
  [ { cls := fcls, name := "AT".toList, uid := 0 }, { cls := fcls, name := "at".toList, uid := 1 },
    { cls := fcls, name := "at_".toList, uid := 2 }, { cls := ucls, name := "object".toList, uid := 3 },
    { cls := fcls, name := "3 d".toList, uid := 4 }, { cls := fcls, name := "f_3_d".toList, uid := 5 },
    { cls := pcls, name := "AT".toList, uid := 6 } ]

/-- keyword `at` (temporal), case variants, a mangled form that is another element's name, `object` -/
example : (pddlRun mangleTables env0 (items0 ++ items0)).otn.map (fun p => String.ofList p.2)
    = ["at__0", "at__1", "at_", "object_", "f_3_d_0", "f_3_d", "?at_"] := by decide +kernel

example : kwOK env0.kw = true := by decide +kernel

example : getItemNamed (pddlRun mangleTables env0 items0) "f_3_d_0".toList
    = some { cls := fcls, name := "3 d".toList, uid := 4 } := by decide +kernel

def acls : Name := "InstantaneousAction".toList
def ocls : Name := "Object".toList
def prob0 : AnmlProblem :=
  { types := [{ cls := ucls, name := "type".toList, uid := 0 }],
    fluents := [({ cls := fcls, name := "a-b".toList, uid := 0 }, boolKey, []),
                ({ cls := fcls, name := "a_b".toList, uid := 1 }, boolKey, [])],
    actions := [({ cls := acls, name := "a_b".toList, uid := 0 }, [])],
    objects := [({ cls := ocls, name := "9".toList, uid := 0 }, { cls := ucls, name := "type".toList, uid := 0 })] }

/-- keyword type name, a symbol in a name, an action and a fluent with one name, a leading digit -/
example : (anmlWrite mangleTables prob0).map (fun p => String.ofList p.2)
    = ["boolean", "integer", "float", "a_b", "type_", "a_b_0", "a_b_1", "o_9"] := by decide +kernel

end examples

end UPVerif.C38
