import UPVerif.Props.C06
import UPVerif.Lemmas.CompileLiftDCRGoal
import UPVerif.Lemmas.CompileLiftWalkers
import UPVerif.Lemmas.CompileLiftNF
/-!
# C06 on ALL action instances — compiler soundness lifted from parameterless actions to `tsLifted`

`Props/C06.lean` proves soundness of the models of ConditionalEffectsRemover, StateInvariantsRemover and
DisjunctiveConditionsRemover for the PARAMETERLESS actions of a problem and only STATES the clause on all instances
(`SoundOnAllInstances`, `cer_sound_full`, `sir_sound_full`, `dcr_sound_full`).  Here the clause is proved on the
transition system `tsLifted W` of all instances `(action index, argument tuple)` — a step is the documented successor
(`Spec.successorOf`) of `instAct P a args`, the action with its parameters substituted by the objects.

What "compile, then instantiate = instantiate, then compile" means here (Lemmas/CompileLift*.lean): the compilers run on
the LIFTED action and the simplifier they call sees OPEN expressions, so the instance of a compiled variant is NOT
syntactically a variant of the instance (the duplicate test of `add_precondition`, the normalisations of the expression
manager inside `substitute`, and static conflicts between two parameters bound to one object all differ).  What is
proved is that it is one up to the TRUTH of its preconditions and up to what its effects fire, which is all a step
reads.  Hypotheses besides those of the parameterless theorems (all decidable on a concrete problem except the ones
about the walkers):

* `SimpExactInst simp P` — on every instance `σ` of every action, the simplified expression, instantiated, evaluates
  like the expression, instantiated (`SimpExactOn simp σ`; `SimpExact` is the instance `σ = ∅`).  `SimpExact` alone
  does NOT suffice: it says nothing useful about expressions with parameters, which the state evaluator rejects
  (`cer_sound_full_refuted`: a simplifier that is exact on every closed expression and unsound on the instances).
  The step lemmas (`cer_variant_sound_instance`) need even less: one implication, in one state, on the one conjunction
  the simplifier is applied to.
* `cerLiftOK P` — instantiation does not turn an effect condition into the constant TRUE (`condStable`; true of every
  condition in the manager's normal form), the conditional effects of the INSTANCES have constant targets and are not
  forall effects (`cerOK` of the instance), instantiation commutes with the expansion of conditional forall effects
  (`expandStable`, trivial without such effects).
* `sirLiftOK P` — instantiation leaves the state invariants (which have no parameters) unchanged.
* `DcrLiftOK` / `DcrWalkExact` — `DcrOK` read on every instance (state-independent part / exactness of the two walkers
  on the instances, with `DnfSplitsOn dnfE σ`).

The corrected statements are the `…_lifted_partial` theorems below (partial w.r.t. the `…_full` definitions of
`Props/C06.lean` because of these hypotheses; the `_full` statements themselves are false as literally written:
`cer_sound_full_refuted`).

Sections: the lifted semantics; the three compilers with walkers EXACT on the instances (`…_lifted_partial`);
sufficient syntactic conditions for the decidable hypotheses (manager normal form); the three compilers with the walker
MODELS of C11 / C12 in place of the parameters and their own theorems in place of exactness
(`…_simplifier_partial`, `dcr_sound_walkers_partial`: exact where the instantiated expression is DEFINED — the bridge
between the reference denotation and the state evaluator is `Lemmas/CompileLiftDen.lean`); the refutation; examples.
Helper lemmas: `Lemmas/CompileLiftSubst.lean` (instantiation seen through the state evaluator), `CompileLiftTS`
(`tsLifted`), `CompileLiftCER`, `CompileLiftCERSim`, `CompileLiftSIR`, `CompileLiftDCR`, `CompileLiftDCRGoal`,
`CompileLiftNF`, `CompileLiftDen`, `CompileLiftWalkers`.
-/
namespace UPVerif.C06
open UPVerif UPVerif.Expr UPVerif.Sim UPVerif.Spec UPVerif.Simulation UPVerif.Compile

/-! ## the semantics -/

/-- a step of the lifted system IS the documented successor of C01 of the instantiated action -/
theorem lifted_step_is_documented_successor (W : World) (s : SimState) (i : Nat) (args : List String) (a : Action)
    (ha : W.P.actions[i]? = some a) (hin : args ∈ instancesOf W.P a) :
    (tsLifted W).step (s.get W.P) (i, args) =
      Spec.successorOf W s ((instAct W.P a args).pre) (expandEffs W.P (instAct W.P a args).effs) := by
  rw [tsLifted_step_intro ha (mem_instancesOf.2 hin)]
  rfl

/-- the parameterless fragment (`tsOf`, the subject of `Props/C06.lean`) is the part of the lifted system with empty
    argument tuples -/
theorem lifted_extends_parameterless (W : World) (g : St) (i : Nat) (a : Action) (ha : W.P.actions[i]? = some a)
    (hp : a.params = []) : (tsLifted W).step g (i, []) = (tsOf W).step g i := tsLifted_step_nil W g i a ha hp

/-! ## ConditionalEffectsRemover (repaired) -/

/-- the step lemma on one instance `σ`: a variant whose instance applies gives exactly the successor of the instance of
    the original action.  The simplifier is asked ONE implication: if the instantiated simplified conjunction of the
    variant's preconditions is TRUE in the state then the instantiated conjunction is. -/
theorem cer_variant_sound_instance (simp : Expr → Expr) (W : World) (σ : Subst) (hσ : IsParamSubst σ) (a a' : Action)
    (p : List Nat) (hst : ∀ e ∈ a.effs, condStable σ e = true) (hok : cerOK (instOf σ a) = true)
    (hv : cerVariant simp a p = some a') (g g' : St)
    (hrefl : Spec.isTrue (eval (ctxOf W g) [] (substE σ (simp (cerPreExpr a p)))) = true →
      Spec.isTrue (eval (ctxOf W g) [] (substE σ (cerPreExpr a p))) = true)
    (h : stepI W g a' σ = some g') : stepI W g a σ = some g' :=
  cer_sound_stepI W hσ hst hok hv hrefl h

/-- SOUNDNESS of ConditionalEffectsRemover on ALL instances, for every plan of every length -/
theorem cer_sound_lifted_partial (simp : Expr → Expr) (W : World) (c : Compiled)
    (hc : cerCompile simp W.P = some c) (hs : SimpExactInst simp W.P) (hok : cerLiftOK W.P = true)
    (π : List (Nat × List String)) (hv : (tsLifted (withProblem W c.prob)).Valid π) :
    (tsLifted W).Valid (mapBack (backLifted c) π) := (cer_fwd_lifted W hc hs hok).sound π hv

/-! ## StateInvariantsRemover -/

/-- SOUNDNESS of StateInvariantsRemover on ALL instances, for every plan of every length -/
theorem sir_sound_lifted_partial (simp : Expr → Expr) (W : World) (c : Compiled) (hc : sirCompile simp W.P = some c)
    (hok : SirOK simp W c) (hs : SimpExactInst simp W.P) (hl : sirLiftOK W.P = true)
    (π : List (Nat × List String)) (hv : (tsLifted (withProblem W c.prob)).Valid π) :
    (tsLifted W).Valid (mapBack (backLifted c) π) :=
  (sir_fwd_lifted W hc (hok.liftOK hl) (fun _ => True) (fun _ _ => trivial) (fun _ _ _ _ _ => trivial)
    (hok.walkAt hs _)).sound π hv

/-- … and the mapped-back plan visits exactly the same states (the remaining trajectory constraints have the same
    PDDL3 verdict on both plans) -/
theorem sir_same_trace_lifted (simp : Expr → Expr) (W : World) (c : Compiled) (hc : sirCompile simp W.P = some c)
    (hok : SirOK simp W c) (hs : SimpExactInst simp W.P) (hl : sirLiftOK W.P = true)
    (π : List (Nat × List String)) (g gf : St) (t : List St)
    (hr : (tsLifted (withProblem W c.prob)).run g π = some gf) (hg : (tsLifted (withProblem W c.prob)).goal gf)
    (ht : (tsLifted (withProblem W c.prob)).trace g π = some t) :
    ∃ tA, (tsLifted W).trace g (mapBack (backLifted c) π) = some tA ∧ TraceRel (fun x y => x = y) t tA := by
  have hfw := sir_fwd_lifted W hc (hok.liftOK hl) (fun _ => True) (fun _ _ => trivial) (fun _ _ _ _ _ => trivial)
    (hok.walkAt hs _)
  suffices hb : ∀ b ∈ π, (backLifted c b).isSome by
    obtain ⟨tA, h1, h2⟩ := hfw.trace π hb g gf g t ⟨rfl, trivial⟩ hr hg ht
    exact ⟨tA, h1, traceRel_mono (fun _ _ h => h.1) h2⟩
  intro b hb
  obtain ⟨_, _, _, hall, _⟩ := sirCompile_some hc
  have : ∀ (π : List (Nat × List String)) (g : St) gf, (tsLifted (withProblem W c.prob)).run g π = some gf →
      ∀ b ∈ π, (backLifted c b).isSome := by
    intro π
    induction π with
    | nil => intro _ _ _ b hb; cases hb
    | cons x xs ih =>
      intro g gf hr b hb
      simp only [TS.run] at hr
      cases hs : (tsLifted (withProblem W c.prob)).step g x with
      | none => rw [hs] at hr; cases hr
      | some g' =>
        rw [hs] at hr
        rcases List.mem_cons.1 hb with rfl | hb'
        · obtain ⟨a', ha', _, _⟩ := tsLifted_step hs
          obtain ⟨j, a, hbj, _⟩ := hall b.1 a' ha'
          rw [show b = (b.1, b.2) from rfl, backLifted_intro b.2 hbj]; rfl
        · exact ih g' gf hr b hb'
  exact this π g gf hr b hb

/-! ## DisjunctiveConditionsRemover -/

/-- SOUNDNESS of the action split of DisjunctiveConditionsRemover on ALL instances (no goal action, no split effect
    condition: finding C06-dcr-overlapping-disjuncts excluded by `DcrInstOK.effs`); `DcrWalkExact`: the two walkers are
    exact on every instance -/
theorem dcr_sound_lifted_partial (simp dnfE : Expr → Expr) (W : World) (c : Compiled)
    (hc : dcrCompile simp dnfE W.P = some c) (hok : DcrLiftOK simp dnfE W) (hw : DcrWalkExact simp dnfE W)
    (π : List (Nat × List String)) (hv : (tsLifted (withProblem W c.prob)).Valid π) :
    (tsLifted W).Valid (mapBack (backLifted c) π) :=
  (dcr_fwd_lifted W hc hok (fun _ => True) (fun _ _ => trivial) (fun _ _ _ _ _ => trivial) (hw.at _)).sound π hv

/-- … and when the goals' DNF IS a disjunction (goal fluent, goal actions mapped back to nothing) -/
theorem dcr_goal_action_sound_lifted_partial (simp dnfE : Expr → Expr) (W : World) (c : Compiled) (args : List Expr)
    (hg : dnfE (mkAnd W.P.goals) = .app .or args) (hc : dcrCompile simp dnfE W.P = some c)
    (hok : DcrGoalLiftOK simp dnfE W) (π : List (Nat × List String))
    (hv : (tsLifted (withProblem W c.prob)).Valid π) : (tsLifted W).Valid (mapBack (backLifted c) π) :=
  (dcrGoal_fwd_lifted W hg hc hok).sound π hv

/-- a pipeline on all instances: state invariants removed, then conditional effects -/
theorem sir_then_cer_sound_lifted_partial (simp : Expr → Expr) (W : World) (c₁ c₂ : Compiled)
    (h₁ : sirCompile simp W.P = some c₁) (hok₁ : SirOK simp W c₁) (hs₁ : SimpExactInst simp W.P)
    (hl₁ : sirLiftOK W.P = true)
    (h₂ : cerCompile simp c₁.prob = some c₂) (hs₂ : SimpExactInst simp c₁.prob) (hok₂ : cerLiftOK c₁.prob = true)
    (π : List (Nat × List String))
    (hv : (tsLifted (withProblem (withProblem W c₁.prob) c₂.prob)).Valid π) :
    (tsLifted W).Valid (mapBack (compBack (backLifted c₁) (backLifted c₂)) π) :=
  sound_comp (sir_sound_lifted_partial simp W c₁ h₁ hok₁ hs₁ hl₁)
    (cer_sound_lifted_partial simp (withProblem W c₁.prob) c₂ h₂ hs₂ hok₂) π hv

/-! ## the decidable hypotheses hold for expressions in the expression manager's normal form

(`mgrNF`: no `And`/`Or`/`Plus`/`Times` node with fewer than two arguments, no double negation — what the manager's
constructors build; on such an expression `substitute` is the plain structural replacement of the parameter leaves) -/

/-- instantiation keeps the (un)conditional status of an effect whose condition is in normal form -/
theorem cond_stable_of_normal_form (σ : Subst) (hσ : IsParamSubst σ) (e : Effect) (h : mgrNF e.cond = true) :
    condStable σ e = true := condStable_of_mgrNF hσ h

/-- instantiation leaves state invariants in normal form and without parameters unchanged -/
theorem sir_lift_ok_of_normal_form (P : Problem)
    (h : ∀ si ∈ stateInvariants P, mgrNF si = true ∧ noParam si = true) : sirLiftOK P = true :=
  sirLiftOK_of_mgrNF h

example : (∀ si ∈ stateInvariants P1, mgrNF si = true ∧ noParam si = true) := by decide +kernel

/-! ## with the walker MODELS in place of the parameters

`Drv.C06.simpTotal cfg` is C11's verified simplifier model as the driver hands it to the compiler models (the one the
correspondence check compares with the real compilers), `Expr.dnf` C12's DNF model.  Instead of exactness in every
evaluation context (false of the real walkers: they are exact where the expression is DEFINED — C11_sound_fuel,
C12.dnf_equiv) the hypotheses are C11's / C12's own, in the states of an invariant `T` of the compiled problem's runs
(`WalkOK`: the state is within the declared types, the instance of the simplified conjunction is defined there, the
simplifier does not raise, plus the decidable side conditions of the bridge between the reference denotation and the
state evaluator, Lemmas/CompileLiftDen.lean).  Definedness is NOT provable from the simulator accepting the state
(an unset fluent, a division by zero under a false conjunct make the evaluator raise) — it stays a hypothesis. -/

/-- SOUNDNESS of ConditionalEffectsRemover on all instances with C11's simplifier model -/
theorem cer_sound_simplifier_partial (cfg : SimpCfg) (W : World) (c : Compiled)
    (hc : cerCompile (Drv.C06.simpTotal cfg) W.P = some c) (hok : cerLiftOK W.P = true) (T : St → Prop)
    (hT0 : ∀ g, (tsLifted (withProblem W c.prob)).init = some g → T g)
    (hTs : ∀ g ia g', T g → (tsLifted (withProblem W c.prob)).step g ia = some g' → T g')
    (hwalk : ∀ g, T g → ∀ a ∈ W.P.actions, ∀ args ∈ instancesOf W.P a, ∀ p, ∃ oty,
      WalkOK cfg (ctxOf W g) (paramSubst W.P a args) oty (cerPreExpr (cerExpand W.P a) p))
    (π : List (Nat × List String)) (hv : (tsLifted (withProblem W c.prob)).Valid π) :
    (tsLifted W).Valid (mapBack (backLifted c) π) :=
  (cer_fwd_lifted_gen W hc hok T hT0 hTs (cerSimpAt_of_walkOK hwalk)).sound π hv

/-- SOUNDNESS of StateInvariantsRemover on all instances with C11's simplifier model -/
theorem sir_sound_simplifier_partial (cfg : SimpCfg) (W : World) (c : Compiled)
    (hc : sirCompile (Drv.C06.simpTotal cfg) W.P = some c) (hok : SirLiftOK W c) (T : St → Prop)
    (hT0 : ∀ g, (tsLifted (withProblem W c.prob)).init = some g → T g)
    (hTs : ∀ g ia g', T g → (tsLifted (withProblem W c.prob)).step g ia = some g' → T g')
    (hwalk : ∀ g, T g → SirWalkOK cfg W g)
    (π : List (Nat × List String)) (hv : (tsLifted (withProblem W c.prob)).Valid π) :
    (tsLifted W).Valid (mapBack (backLifted c) π) :=
  (sir_fwd_lifted W hc hok T hT0 hTs (sirWalkAt_of_walkOK hwalk)).sound π hv

/-- SOUNDNESS of DisjunctiveConditionsRemover (no goal action, no split effect condition) on all instances with C12's
    DNF MODEL `Expr.dnf simp` in place of the parameter: `DnfSplits` is discharged from C12 where the preconditions, the
    goals and the effect conditions denote Booleans (`DcrWalkOKIn`, which keeps C12's own hypothesis on the simplifier
    and asks exactness of `simp` on the instances of the expressions the compiler simplifies — for C11's model:
    `simpExactAt_of_den`) -/
theorem dcr_sound_walkers_partial (simp : Expr → Expr) (W : World) (c : Compiled)
    (hc : dcrCompile simp (Expr.dnf simp) W.P = some c)
    (hok : DcrLiftOK simp (Expr.dnf simp) W) (T : St → Prop)
    (hT0 : ∀ g, (tsLifted (withProblem W c.prob)).init = some g → T g)
    (hTs : ∀ g ia g', T g → (tsLifted (withProblem W c.prob)).step g ia = some g' → T g')
    (hwalk : ∀ g, T g → DcrWalkOKIn simp W g)
    (π : List (Nat × List String)) (hv : (tsLifted (withProblem W c.prob)).Valid π) :
    (tsLifted W).Valid (mapBack (backLifted c) π) :=
  (dcr_fwd_lifted W hc hok T hT0 hTs (dcrWalkAt_of_walkOK hwalk)).sound π hv

/-! ## the literal `_full` statement is false: `SimpExact` does not constrain the simplifier on open expressions

`advSimp` rewrites the atom `p(?w)` (a fluent applied to a parameter) into `q(?w)` and is the identity elsewhere.  Both
atoms are rejected alike by the state evaluator (`walk_param_exp` raises), so `advSimp` IS exact on every expression in
every evaluation context — but the instances `p(o)` and `q(o)` differ.  (No such simplifier is in the library: this is a
defect of the idealised hypothesis, not of the code; the corrected hypothesis is `SimpExactInst`.) -/
section refutation
def rT : Ty := .user "T"
def rp : FluentRef := ⟨"p", .bool, [rT]⟩
def rq : FluentRef := ⟨"q", .bool, [rT]⟩
def rr : FluentRef := ⟨"r", .bool, []⟩

def advSimp (e : Expr) : Expr :=
  match e with
  | .app (.fluent f) [.leaf (.param n t)] => if f = rp then .app (.fluent rq) [.leaf (.param n t)] else e
  | e => e

theorem advSimp_exact : SimpExact advSimp := by
  intro c e
  unfold advSimp
  split
  · split
    · simp [eval, evalList, evalLeaf]
    · rfl
  · rfl

/-- `a(?w : T)`: `r := true if p(?w)` -/
def ra : Action where
  name := "a"
  params := [("w", rT)]
  pre := []
  effs := [{ fluent := .app (.fluent rr) [], value := Expr.tt, cond := .app (.fluent rp) [.leaf (.param "w" rT)],
             kind := .assign, forall_ := [] }]
/-- object `o`; `p(o)` false, `q(o)` true, `r` false; goal `r` -/
def PR : Problem where
  name := "adv"
  types := ⟨[("T", none)]⟩
  objects := [("o", "T")]
  fluents := [⟨rp, some Expr.ff⟩, ⟨rq, some Expr.tt⟩, ⟨rr, some Expr.ff⟩]
  init := []
  actions := [ra]
  goals := [.app (.fluent rr) []]
  traj := []
  metrics := []
def WR : World := { P := PR, simp := id, fn := fun _ _ => none }
def cR : Compiled := (cerCompile advSimp PR).getD ⟨PR, []⟩

/-- the compiled problem (one variant, precondition `q(?w)` instead of `p(?w)`) has the valid plan `a(o)`, whose
    map-back `a(o)` does nothing in the original problem and misses the goal -/
theorem cer_sound_full_refuted : ¬ cer_sound_full advSimp := by
  intro h
  have hc : cerCompile advSimp WR.P = some cR := by unfold cR cerCompile; rfl
  have hv : (tsLifted (withProblem WR cR.prob)).Valid [(0, ["o"])] := validLB_sound (by decide +kernel)
  have := validLB_complete (h advSimp_exact WR cR hc [(0, ["o"])] hv)
  revert this
  decide +kernel

/-- what `SimpExactInst` asks and `advSimp` does not deliver: exactness on the instance `?w ↦ o` -/
example : ¬ SimpExactInst advSimp PR := by
  intro h
  have h1 := h ra (List.mem_cons_self ..) ["o"] (by decide +kernel) (ctxOf WR (fun k => some (.b (k.1 == rq))))
    (.app (.fluent rp) [.leaf (.param "w" rT)])
  revert h1
  decide +kernel
end refutation

section examples
/-! ## non-vacuity: a problem with a lifted action

type `T` with objects `o1 o2`; fluents `p(T)`, `q(T)` (false), `x : int[0,10] = 1`; `p(o1)` true; invariant `x <= 8`;
goal `q(o1)`, `3 <= x`;  `m(?w : T)`: pre `x <= 5`; effects `q(?w) := true`, `x += 2 if p(?w) and 0 <= x` -/
def pw : Expr := .leaf (.param "w" tT)
def am : Action where
  name := "m"
  params := [("w", tT)]
  pre := [Expr.mkLE ex (Expr.int 5)]
  effs := [eff (.app (.fluent fq) [pw]) Expr.tt Expr.tt .assign,
           eff ex (Expr.int 2) (.app .and [.app (.fluent fp) [pw], Expr.mkLE (Expr.int 0) ex]) .increase]
def PL : Problem where
  name := "lifted"
  types := ⟨[("T", none)]⟩
  objects := [("o1", "T"), ("o2", "T")]
  fluents := [⟨fp, some Expr.ff⟩, ⟨fq, some Expr.ff⟩, ⟨fx, some (Expr.int 1)⟩]
  init := [(.app (.fluent fp) [o1], Expr.tt)]
  actions := [am]
  goals := [.app (.fluent fq) [o1], Expr.mkLE (Expr.int 3) ex]
  traj := [.app .always [Expr.mkLE ex (Expr.int 8)]]
  metrics := []
def WL : World := { P := PL, simp := id, fn := fun _ _ => none }
def cCerL : Compiled := (cerCompile id PL).getD ⟨PL, []⟩
def cSirL : Compiled := (sirCompile id PL).getD ⟨PL, []⟩

/-- `m` is split into its two variants (condition false / true), both with the parameter `?w` -/
example : (cerCompile id PL).isSome = true ∧ cCerL.prob.actions.length = 2 ∧ cCerL.back = [some 0, some 0] ∧
    cCerL.prob.actions.all (fun a => a.params == am.params) = true := by decide +kernel
/-- the hypotheses of `cer_sound_lifted_partial` hold; the instance `o1` of the variant "condition true" is a valid
    compiled plan, its map-back `m(o1)` is valid; the other variant, and the instance `o2`, do not reach the goal -/
example : cerLiftOK PL = true ∧ validLB (withProblem WL cCerL.prob) [(1, ["o1"])] = true ∧
    mapBack (backLifted cCerL) [(1, ["o1"])] = [(0, ["o1"])] ∧ validLB WL [(0, ["o1"])] = true ∧
    validLB (withProblem WL cCerL.prob) [(0, ["o1"])] = false ∧
    validLB (withProblem WL cCerL.prob) [(1, ["o2"])] = false := by decide +kernel
example : SimpExactInst id PL := simpExactInst_id PL
/-- StateInvariantsRemover on the same problem: hypotheses of `sir_sound_lifted_partial`, a valid compiled plan and
    its map-back -/
example : (sirCompile id PL).isSome = true ∧ sirLiftOK PL = true ∧
    validLB (withProblem WL cSirL.prob) [(0, ["o1"])] = true ∧
    mapBack (backLifted cSirL) [(0, ["o1"])] = [(0, ["o1"])] ∧ validLB WL [(0, ["o1"])] = true := by decide +kernel
example : SirOK id WL cSirL :=
  ⟨SimpExact_id, SimpExact_id, by decide +kernel, by decide +kernel, by decide +kernel⟩

/-- the pipeline "state invariants removed, then conditional effects" on `PL`: hypotheses of
    `sir_then_cer_sound_lifted_partial` for the second stage, a valid plan of the twice-compiled problem and its map-back -/
def cSirCerL : Compiled := (cerCompile id cSirL.prob).getD ⟨cSirL.prob, []⟩
example : (cerCompile id cSirL.prob).isSome = true ∧ cerLiftOK cSirL.prob = true ∧
    validLB (withProblem (withProblem WL cSirL.prob) cSirCerL.prob) [(1, ["o1"])] = true ∧
    mapBack (compBack (backLifted cSirL) (backLifted cSirCerL)) [(1, ["o1"])] = [(0, ["o1"])] := by decide +kernel
example : SimpExactInst id cSirL.prob := simpExactInst_id _

/-! the PDDL idiom inside a LIFTED action: `fz(?z : T)`: `forall w : T. when p(w) and p(?z): q(w) := true`.  The
    conditional forall effect is expanded into its two instances before the split (three variants are yielded, the one
    without effects is pruned); instantiating `?z` commutes with that expansion (`expandStable`, part of `cerLiftOK`);
    the instance `o1` of the first variant — `p(o1) and p(?z)`, `not (p(o2) and p(?z))` — is a valid plan -/
def pz : Expr := .leaf (.param "z" tT)
def fz : Action where
  name := "fz"
  params := [("z", tT)]
  pre := []
  effs := [{ fluent := .app (.fluent fq) [.leaf (.var vw)], value := Expr.tt,
             cond := .app .and [.app (.fluent fp) [.leaf (.var vw)], .app (.fluent fp) [pz]],
             kind := .assign, forall_ := [vw] }]
def PZ : Problem := { PL with actions := [fz], goals := [.app (.fluent fq) [o1]], traj := [] }
def WZ : World := { P := PZ, simp := id, fn := fun _ _ => none }
def cZ : Compiled := (cerCompile id PZ).getD ⟨PZ, []⟩
example : cerLiftOK PZ = true ∧ noCondForall fz = false ∧ cZ.prob.actions.length = 3 ∧
    validLB (withProblem WZ cZ.prob) [(0, ["o1"])] = true ∧ validLB (withProblem WZ cZ.prob) [(1, ["o1"])] = false ∧
    mapBack (backLifted cZ) [(0, ["o1"])] = [(0, ["o1"])] ∧ validLB WZ [(0, ["o1"])] = true ∧
    validLB WZ [(0, ["o2"])] = false := by decide +kernel

/-! DisjunctiveConditionsRemover: `d(?w : T)`: pre `p(?w) or x <= 0`; effect `q(?w) := true`; goal `q(o1)`; with C12's
    DNF model: two variants, the instance `o1` of the first one (disjunct `p(?w)`) is a valid plan -/
def dm : Action where
  name := "d"
  params := [("w", tT)]
  pre := [Expr.mkOr [.app (.fluent fp) [pw], Expr.mkLE ex (Expr.int 0)]]
  effs := [eff (.app (.fluent fq) [pw]) Expr.tt Expr.tt .assign]
def PD : Problem := { PL with actions := [dm], goals := [.app (.fluent fq) [o1]], traj := [] }
def WD : World := { P := PD, simp := id, fn := fun _ _ => none }
def cDcrL : Compiled := (dcrCompile id (Expr.dnf id) PD).getD ⟨PD, []⟩
example : (dcrCompile id (Expr.dnf id) PD).isSome = true ∧ cDcrL.prob.actions.length = 2 ∧
    cDcrL.back = [some 0, some 0] ∧ validLB (withProblem WD cDcrL.prob) [(0, ["o1"])] = true ∧
    validLB (withProblem WD cDcrL.prob) [(1, ["o1"])] = false ∧
    mapBack (backLifted cDcrL) [(0, ["o1"])] = [(0, ["o1"])] ∧ validLB WD [(0, ["o1"])] = true := by decide +kernel

/-- the never-splitting DNF walker `e ↦ And(e)` splits truth on every instance -/
theorem dnfSplitsOn_wrap {σ : Subst} (hσ : IsParamSubst σ) : DnfSplitsOn (fun e => .app .and [e]) σ := by
  intro c e
  simp only [disjuncts, List.any_cons, List.any_nil, Bool.or_false]
  rw [isTrue_substE_and hσ]
  simp [preOK]

/-- the hypotheses of `dcr_sound_lifted_partial` are consistent: identity simplifier, never-splitting DNF walker -/
theorem dcrLift_example : DcrLiftOK id (fun e => .app .and [e]) WD ∧ DcrWalkExact id (fun e => .app .and [e]) WD := by
  have hdm : ∀ a ∈ WD.P.actions, a = dm := by intro a ha; simpa [WD, PD] using ha
  have heff : ∀ e ∈ dm.effs, e = eff (.app (.fluent fq) [pw]) Expr.tt Expr.tt .assign := by
    intro e he; simpa [dm] using he
  refine ⟨⟨?_, ?_⟩, ⟨simpExactInst_id _, fun c e => by simp [disjuncts, eval_and_true], ?_, ?_⟩⟩
  · intro args h
    injection h with h1 _
    cases h1
  · intro a ha args _
    rw [hdm a ha]
    refine ⟨?_, ?_⟩
    · intro e he
      rw [heff e he]
      unfold condStable
      rw [show (eff (.app (.fluent fq) [pw]) Expr.tt Expr.tt .assign).cond = Expr.tt from rfl,
        substE_tt (isParamSubst_paramSubst _ _ _)]
      rfl
    · intro e he hc
      rw [heff e he] at hc
      cases hc
  · intro a _ args _
    exact dnfSplitsOn_wrap (isParamSubst_paramSubst _ _ _)
  · intro a ha args _ e he hc
    rw [hdm a ha] at he
    rw [heff e he] at hc
    cases hc

/-! the goal-action case on all instances: `g(?w : T)`: `q(?w) := true`; goal `q(o1)`, and a DNF walker that answers the
    one-element disjunction `Or(And(q(o1)))` for it (and `And(e)` for every other `e`): the compiled problem has the
    lifted action (resetting the goal fluent) and one parameterless goal action; the compiled plan
    `[g(o1), goal action]` is valid and maps back to `[g(o1)]` -/
def gm : Action where
  name := "g"
  params := [("w", tT)]
  pre := []
  effs := [eff (.app (.fluent fq) [pw]) Expr.tt Expr.tt .assign]
def GL : Expr := .app (.fluent fq) [o1]
def PG : Problem := { PL with actions := [gm], goals := [GL], traj := [] }
def WG : World := { P := PG, simp := id, fn := fun _ _ => none }
def dnfGL (e : Expr) : Expr := if e = GL then .app .or [.app .and [e]] else .app .and [e]
def cGoalL : Compiled := (dcrCompile id dnfGL PG).getD ⟨PG, []⟩
example : dnfGL (mkAnd PG.goals) = .app .or [.app .and [GL]] ∧ (dcrCompile id dnfGL PG).isSome = true ∧
    cGoalL.back = [some 0, none] ∧ cGoalL.prob.goals = [mkFluent fakeFluent []] ∧
    validLB (withProblem WG cGoalL.prob) [(0, ["o1"]), (1, [])] = true ∧
    validLB (withProblem WG cGoalL.prob) [(0, ["o1"])] = false ∧
    validLB (withProblem WG cGoalL.prob) [(0, ["o2"]), (1, [])] = false ∧
    mapBack (backLifted cGoalL) [(0, ["o1"]), (1, [])] = [(0, ["o1"])] ∧ validLB WG [(0, ["o1"])] = true := by
  decide +kernel

theorem dnfSplitsAt_dnfGL {σ : Subst} (hσ : IsParamSubst σ) (c : EvalCtx) (e : Expr) : DnfSplitsAt dnfGL c σ e := by
  unfold DnfSplitsAt dnfGL
  split <;> simp only [disjuncts, List.any_cons, List.any_nil, Bool.or_false] <;>
    rw [isTrue_substE_and hσ] <;> simp [preOK]

theorem dcrGoalLift_example : DcrGoalLiftOK id dnfGL WG := by
  have hgm : ∀ a ∈ WG.P.actions, a = gm := by intro a ha; simpa [WG, PG] using ha
  have heff : ∀ e ∈ gm.effs, e = eff (.app (.fluent fq) [pw]) Expr.tt Expr.tt .assign := by
    intro e he; simpa [gm] using he
  refine ⟨SimpExact_id, ?_, ?_, ?_, by decide +kernel, by decide +kernel, by decide +kernel, by decide +kernel,
    by decide +kernel, by decide +kernel, by decide +kernel⟩
  · intro c e
    unfold dnfGL
    split <;> simp [disjuncts, eval_and_true]
  · intro a ha args _
    rw [hgm a ha]
    refine ⟨?_, ?_⟩
    · intro e he
      rw [heff e he]
      unfold condStable
      rw [show (eff (.app (.fluent fq) [pw]) Expr.tt Expr.tt .assign).cond = Expr.tt from rfl,
        substE_tt (isParamSubst_paramSubst _ _ _)]
      rfl
    · intro e he hc
      rw [heff e he] at hc
      cases hc
  · intro a ha args _ c
    rw [hgm a ha]
    refine ⟨fun d _ => rfl, dnfSplitsAt_dnfGL (isParamSubst_paramSubst _ _ _) c _, ?_⟩
    intro e he hc
    rw [heff e he] at hc
    cases hc

/-! the hypotheses of `cer_sound_simplifier_partial` (`WalkOK`) on the instance `o1` of the variant "condition true" of `m`,
    in the state `p(o1)`, `x = 1`: C11's simplifier FLATTENS the conjunction `x <= 5 and (p(?w) and 0 <= x)` of the
    variant's preconditions; the state is within the declared types (`Respects`), the instance is defined (true) -/
section walkOK
open UPVerif.Simp
def gL : St := fun k =>
  if k.1 = fp then some (.b (k.2 == [.o "o1"])) else if k.1 = fq then some (.b false)
  else if k.1 = fx then some (.n 1) else none
def cfgL : SimpCfg := SimpCfg.empty PL.types
def otyL (n : String) : Option String := PL.objects.lookup n
def σ1 : Subst := paramSubst PL am ["o1"]
def eL : Expr := cerPreExpr (cerExpand PL am) [0]

theorem isSubtype_flat (a b : String) : TypeEnv.isSubtype ⟨[("T", none)]⟩ a b = (a == b) := by
  unfold TypeEnv.isSubtype
  simp only [List.length_cons, List.length_nil, TypeEnv.isSubtypeFuel, TypeEnv.father, List.lookup]
  by_cases h : a = "T"
  · subst h; simp
  · have : (a == "T") = false := by simpa using h
    simp [this]

theorem objectsOf_PL (t : String) : PL.objectsOf t = if t = "T" then ["o1", "o2"] else [] := by
  unfold Problem.objectsOf
  simp only [PL, isSubtype_flat]
  by_cases h : t = "T"
  · subst h; rfl
  · have : ("T" == t) = false := by simpa using fun e => h e.symm
    simp [this, h]

theorem dom_L (par : String → Option Val) (t : String) :
    (interpOf (ctxOf WL gL) par).dom (.user t) = if t = "T" then [.o "o1", .o "o2"] else [] := by
  show ((PL.objectsOf t).map Val.o) = _
  rw [objectsOf_PL]
  split <;> rfl

theorem respectsL (par : String → Option Val) : Respects cfgL (interpOf (ctxOf WL gL) par) otyL where
  objTy := by
    intro n t h
    unfold otyL at h
    simp only [PL, List.lookup] at h
    rw [dom_L]
    by_cases h1 : n = "o1"
    · subst h1; simp at h; subst h; simp
    · have e1 : (n == "o1") = false := by simpa using h1
      rw [e1] at h
      by_cases h2 : n = "o2"
      · subst h2; simp at h; subst h; simp
      · have e2 : (n == "o2") = false := by simpa using h2
        rw [e2] at h
        cases h
  domUp := by
    intro a b h v hv
    have : cfgL.tenv = ⟨[("T", none)]⟩ := rfl
    rw [this, isSubtype_flat] at h
    have hab : a = b := by simpa using h
    subst hab; exact hv
  domTree := by
    intro a b v ha hb
    rw [dom_L] at ha hb
    have : cfgL.tenv = ⟨[("T", none)]⟩ := rfl
    rw [this, isSubtype_flat]
    by_cases h1 : a = "T"
    · by_cases h2 : b = "T"
      · left; subst h1; subst h2; rfl
      · simp [h2] at hb
    · simp [h1] at ha
  flTy := by
    intro f args v t hf h
    have h' : gL (f, args) = some v := h
    unfold gL at h'
    simp only at h'
    split at h'
    · rename_i e; subst e; cases hf
    · split at h'
      · rename_i e; subst e; cases hf
      · split at h'
        · rename_i e; subst e; cases hf
        · cases h'
  fnTy := by intro g args v t _ h; cases h
  static := by intro f args v hf; cases hf
  funs := by intro g vs r e' h; simp [cfgL, SimpCfg.empty, SimpCfg.funLookup] at h
  tables := by rfl

theorem walkOK_L : WalkOK cfgL (ctxOf WL gL) σ1 otyL eL := walkOK_of_chk (respectsL _) (by decide +kernel)

/-- hence C11's simplifier is exact on that instance in that state -/
example : SimpExactAt (Drv.C06.simpTotal cfgL) (ctxOf WL gL) σ1 eL :=
  simpExactAt_of_den (isParamSubst_paramSubst _ _ _) walkOK_L

/-- the hypotheses of `sir_sound_simplifier_partial` (`SirWalkOK`) in that state: C11's hypotheses and definedness for the
    invariant conjunction, the goal conjunction and, on both instances of `m`, the precondition conjunction -/
example : SirWalkOK cfgL WL gL where
  inv := ⟨otyL, walkOK_of_chk (respectsL _) (by decide +kernel)⟩
  goal := ⟨otyL, walkOK_of_chk (respectsL _) (by decide +kernel)⟩
  acts := by
    intro a ha args hin
    have ha' : a = am := by simpa [WL, PL] using ha
    subst ha'
    have hargs : args = ["o1"] ∨ args = ["o2"] := by
      have : instancesOf WL.P am = [["o1"], ["o2"]] := by decide +kernel
      rw [this] at hin; simpa using hin
    rcases hargs with rfl | rfl
    · exact ⟨⟨otyL, walkOK_of_chk (respectsL _) (by decide +kernel)⟩,
        ⟨otyL, walkOK_of_chk (respectsL _) (by decide +kernel)⟩⟩
    · exact ⟨⟨otyL, walkOK_of_chk (respectsL _) (by decide +kernel)⟩,
        ⟨otyL, walkOK_of_chk (respectsL _) (by decide +kernel)⟩⟩
  wsimp := fun _ _ => rfl

/-- the hypotheses of `dcr_sound_walkers_partial` (`DcrWalkOKIn`) on `PD` in that state, with the identity simplifier
    inside C12's DNF model -/
example : DcrWalkOKIn id WD gL where
  sound := fun _ _ h => h
  goalDef := Option.isSome_iff_exists.1 (by decide +kernel)
  goalOk := by decide +kernel
  goalD := by decide +kernel
  acts := by
    intro a ha args hin
    have ha' : a = dm := by simpa [WD, PD] using ha
    subst ha'
    have hno : ∀ e ∈ dm.effs, e.isConditional = true → False := by
      intro e he hc
      have : e = eff (.app (.fluent fq) [pw]) Expr.tt Expr.tt .assign := by simpa [dm] using he
      rw [this] at hc; cases hc
    have hargs : args = ["o1"] ∨ args = ["o2"] := by
      have : instancesOf WD.P dm = [["o1"], ["o2"]] := by decide +kernel
      rw [this] at hin; simpa using hin
    rcases hargs with rfl | rfl
    · exact ⟨fun _ _ h => h, Option.isSome_iff_exists.1 (by decide +kernel), by decide +kernel, by decide +kernel,
        fun _ _ => rfl, fun e he hc => (hno e he hc).elim, fun e he hc => (hno e he hc).elim,
        fun e he hc => (hno e he hc).elim, fun e he hc => (hno e he hc).elim⟩
    · exact ⟨fun _ _ h => h, Option.isSome_iff_exists.1 (by decide +kernel), by decide +kernel, by decide +kernel,
        fun _ _ => rfl, fun e he hc => (hno e he hc).elim, fun e he hc => (hno e he hc).elim,
        fun e he hc => (hno e he hc).elim, fun e he hc => (hno e he hc).elim⟩
end walkOK
end examples

end UPVerif.C06
