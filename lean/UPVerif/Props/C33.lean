import UPVerif.Lemmas.KindLemmas
import UPVerif.Gen.Features
/-!
# C33 — ProblemKind ordering is a lattice consistent with equality and hashing

Statements only (helper lemmas live in `Lemmas/KindLemmas.lean`).  All theorems except
`tables_ok` hold for EVERY feature/version/upgrade table of the accepted shape, so an edit of the
tables in /repo is re-proved by the single `decide` in `tables_ok` over the regenerated
`Gen.tables`; the hand-written functions (`Kind.eq`, `Kind.le`, …) are tied to the code by the
correspondence check.
-/
namespace UPVerif.C33
open UPVerif.Kind

variable (T : Tables)

/-- kinds "of the same version" -/
def SameVer (a b : Kind) : Prop := a.ver T = b.ver T

theorem le_refl (a : Kind) : a.le T a = true := by
  rw [le_same rfl, subset_iff]; intro f hf; exact hf

theorem le_trans (a b c : Kind) (hab : SameVer T a b) (hbc : SameVer T b c)
    (h1 : a.le T b = true) (h2 : b.le T c = true) : a.le T c = true := by
  unfold SameVer at *
  rw [le_same hab, hbc, subset_iff] at h1
  rw [le_same hbc, subset_iff] at h2
  rw [le_same (hab.trans hbc), subset_iff]
  intro f hf; exact h2 f (h1 f hf)

theorem le_antisymm (a b : Kind) (hab : SameVer T a b)
    (h1 : a.le T b = true) (h2 : b.le T a = true) : a.eq T b = true := by
  unfold SameVer at *
  rw [le_same hab, subset_iff] at h1
  rw [le_same hab.symm, hab, subset_iff] at h2
  rw [eq_same hab, seteq_iff]
  intro f; exact ⟨h1 f, h2 f⟩

/-- `==` is exactly mutual `<=` on kinds of one version (so `<=` is a partial order modulo `==`) -/
theorem eq_iff_le_le (a b : Kind) (hab : SameVer T a b) :
    a.eq T b = true ↔ (a.le T b = true ∧ b.le T a = true) := by
  constructor
  · intro h
    unfold SameVer at hab
    rw [eq_same hab, seteq_iff] at h
    rw [le_same hab, le_same hab.symm, hab, subset_iff, subset_iff]
    exact ⟨fun f => (h f).1, fun f => (h f).2⟩
  · rintro ⟨h1, h2⟩; exact le_antisymm T a b hab h1 h2

/-- `==` only ever relates kinds of one version -/
theorem eq_same_ver (a b : Kind) (h : a.eq T b = true) : SameVer T a b := by
  unfold SameVer
  simp only [Kind.eq] at h
  split at h
  · cases h
  · rename_i hne; simpa using hne

theorem union_ver (a b : Kind) (hab : SameVer T a b) : SameVer T (a.union T b) a := by
  unfold SameVer at *
  rw [union_same hab, ver_some, hab]

theorem inter_ver (a b : Kind) (hab : SameVer T a b) : SameVer T (a.inter T b) a := by
  unfold SameVer at *
  rw [inter_same hab, ver_some, hab]

/-- union is an upper bound … -/
theorem union_upper (a b : Kind) (hab : SameVer T a b) :
    a.le T (a.union T b) = true ∧ b.le T (a.union T b) = true := by
  have hu := union_ver T a b hab
  unfold SameVer at *
  have hub : b.ver T = (a.union T b).ver T := by rw [hu, hab]
  rw [le_same hu.symm, le_same hub, subset_iff, subset_iff, union_same hab]
  constructor <;> intro f hf <;> rw [mem_validPart] at * <;> refine ⟨?_, hf.2⟩ <;> rw [mem_union]
  · exact Or.inl hf.1
  · exact Or.inr hf.1

/-- … and the least one -/
theorem union_least (a b c : Kind) (hab : SameVer T a b) (hac : SameVer T a c)
    (h1 : a.le T c = true) (h2 : b.le T c = true) : (a.union T b).le T c = true := by
  have hu := union_ver T a b hab
  unfold SameVer at *
  have hbc : b.ver T = c.ver T := by rw [← hab, hac]
  rw [le_same hac, subset_iff] at h1
  rw [le_same hbc, subset_iff] at h2
  rw [le_same (hu.trans hac), subset_iff, union_same hab]
  intro f hf
  rw [mem_validPart, mem_union] at hf
  rcases hf.1 with h | h
  · exact h1 f (mem_validPart.2 ⟨h, hf.2⟩)
  · exact h2 f (mem_validPart.2 ⟨h, hf.2⟩)

theorem inter_lower (a b : Kind) (hab : SameVer T a b) :
    (a.inter T b).le T a = true ∧ (a.inter T b).le T b = true := by
  have hu := inter_ver T a b hab
  unfold SameVer at *
  rw [le_same hu, le_same (hu.trans hab), subset_iff, subset_iff, inter_same hab]
  constructor <;> intro f hf <;> rw [mem_validPart] at * <;> refine ⟨?_, hf.2⟩ <;>
    have := (mem_inter.1 hf.1)
  · exact this.1
  · exact this.2

theorem inter_greatest (a b c : Kind) (hab : SameVer T a b) (hac : SameVer T a c)
    (h1 : c.le T a = true) (h2 : c.le T b = true) : c.le T (a.inter T b) = true := by
  have hu := inter_ver T a b hab
  unfold SameVer at *
  have hcb : c.ver T = b.ver T := by rw [← hac, hab]
  rw [le_same hac.symm, subset_iff] at h1
  rw [le_same hcb, subset_iff] at h2
  rw [le_same (hac.symm.trans hu.symm), hu, subset_iff, inter_same hab]
  intro f hf
  have ha := h1 f hf
  have hb := h2 f (by rw [← hab]; exact hf)
  rw [mem_validPart] at *
  exact ⟨mem_inter.2 ⟨ha.1, hb.1⟩, hf.2⟩

/-- equal kinds hash over the same set of features -/
theorem eq_hash (a b : Kind) (h : a.eq T b = true) : ∀ f, f ∈ a.hashKey T ↔ f ∈ b.hashKey T := by
  have hv := eq_same_ver T a b h
  unfold SameVer at hv
  rw [eq_same hv, seteq_iff] at h
  simpa [Kind.hashKey, hv] using h

/-- every constructible kind only holds features that exist at its version -/
theorem wf_added (a : Kind) (h : a.wf T = true) : ∀ f ∈ a.feats, added T f ≤ a.ver T := by
  intro f hf
  unfold Kind.wf at h
  unfold Kind.ver
  cases hv : a.version with
  | some v =>
    simp only [hv, Bool.and_eq_true, List.all_eq_true, decide_eq_true_eq] at h
    exact h.2.2 f hf
  | none => exact (le_foldl_max a.feats 1).2 f hf

/-- side conditions on the upgrade tables of /repo (re-decided on every regeneration):
    every rule is triggered only by features valid at its source version and adds only
    features that exist at its target version -/
theorem tables_ok : tablesOK UPVerif.Gen.tables = true := by decide +kernel

/-- upgrading preserves `<=`: for well-formed kinds of one version `v`, and any number of upgrade
    steps `n` staying within the known versions -/
theorem upgrade_preserves_le (hT : tablesOK T = true) (a b : Kind)
    (hab : SameVer T a b) (ha : a.wf T = true) (hb : b.wf T = true)
    (hle : a.le T b = true) (n : Nat) (hn : a.ver T + n ≤ T.upgrades.length + 1) :
    subset (validPart T (a.ver T + n) (upgradeTo T a.feats (a.ver T) n))
           (validPart T (a.ver T + n) (upgradeTo T b.feats (a.ver T) n)) = true := by
  have hpos : 0 < a.ver T := by
    unfold Kind.ver
    cases hv : a.version with
    | some v =>
      unfold Kind.wf at ha
      simp only [hv, Bool.and_eq_true, decide_eq_true_eq] at ha
      exact ha.2.1
    | none => exact (le_foldl_max (T := T) a.feats 1).1
  unfold SameVer at hab
  have hb' := wf_added T b hb
  rw [← hab] at hb'
  rw [le_same hab, ← hab] at hle
  exact upgradeTo_mono hT n (a.ver T) a.feats b.feats hpos (wf_added T a ha) hb' hle (by omega)

/-- comparing with a kind of a newer version upgrades the older operand (this is the definition
    of `le`, stated so that a change of the model is visible) -/
theorem le_upgrades_older (a c : Kind) (h : a.ver T ≤ c.ver T) :
    a.le T c = subset (validPart T (c.ver T) (upgradeTo T a.feats (a.ver T) (c.ver T - a.ver T)))
                      (validPart T (c.ver T) c.feats) := by
  simp [Kind.le, equalize, h]

/-- consequence: `a <= b` (one version) and `b <= c` (`c` newer) give `a <= c` -/
theorem le_trans_newer (hT : tablesOK T = true) (a b c : Kind)
    (hab : SameVer T a b) (ha : a.wf T = true) (hb : b.wf T = true)
    (hvc : a.ver T ≤ c.ver T) (hc : c.ver T ≤ T.upgrades.length + 1)
    (h1 : a.le T b = true) (h2 : b.le T c = true) : a.le T c = true := by
  have hm := upgrade_preserves_le T hT a b hab ha hb h1 (c.ver T - a.ver T) (by omega)
  have e : a.ver T + (c.ver T - a.ver T) = c.ver T := by omega
  rw [e] at hm
  unfold SameVer at hab
  rw [le_upgrades_older T a c hvc]
  rw [le_upgrades_older T b c (by omega), ← hab] at h2
  rw [subset_iff] at *
  intro f hf; exact h2 f (hm f hf)

/-! non-vacuity: concrete kinds over the real tables meet the hypotheses -/
section examples
open UPVerif.Gen
def k1 : Kind := { feats := ["ACTION_BASED", "NUMERIC_FLUENTS", "CONTINUOUS_NUMBERS"], version := some 1 }
def k2 : Kind := { feats := ["ACTION_BASED", "NUMERIC_FLUENTS", "CONTINUOUS_NUMBERS", "ACTIONS_COST"], version := some 1 }
def k3 : Kind := { feats := ["ACTION_BASED", "REAL_FLUENTS", "ACTIONS_COST", "REAL_NUMBERS_IN_ACTIONS_COST", "INT_NUMBERS_IN_ACTIONS_COST", "PROCESSES"], version := none }
example : k1.wf tables = true ∧ k2.wf tables = true ∧ k1.ver tables = k2.ver tables ∧ k1.le tables k2 = true := by decide +kernel
example : k3.ver tables = 3 ∧ k2.le tables k3 = true ∧ k1.le tables k3 = true := by decide +kernel
example : ({ feats := ["NUMERIC_FLUENTS"], version := some 2 } : Kind).eq tables { feats := [], version := some 2 } = true := by decide +kernel
end examples

end UPVerif.C33
