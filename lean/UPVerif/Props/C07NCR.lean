import UPVerif.Lemmas.CompileNCRSim
/-!
# C07 — compiler completeness: NegativeConditionsRemover

Statements only; model, relation `StRel`, hypotheses `ncrOK` and helper lemmas as in `Props/C06NCR.lean` (read its
header first).  The step lemma of NegativeConditionsRemover is symmetric — from related states both actions have no
successor or related successors — so the same relation is a BACKWARD simulation: every valid plan of the original
problem is, position by position, a valid plan of the compiled problem (same length, no goal action).

The hypothesis that excludes add-after-delete is needed here too (`NCR.ncr_complete_unrestricted_false`): with `f` and its
complementary fluent both true, a conditional effect `when not f` fires in the compiled problem only and destroys the
goal of a valid original plan — finding C07-ncr-add-after-delete (the completeness face of C06-ncr-add-after-delete),
replayed on the real code by `./check C07`.
-/
namespace UPVerif.C07
open UPVerif UPVerif.Expr UPVerif.Sim UPVerif.Spec UPVerif.Simulation UPVerif.Compile

/-- NegativeConditionsRemover is a backward simulation with the relation `StRel (ncrMap simp P)`, no extra step -/
theorem ncr_backward_simulation_partial (simp : Expr → Expr) (hs : SimpExact simp) (W : World) (c : Compiled)
    (hc : ncrCompile simp W.P = some c) (hok : ncrOK simp W.P = true) :
    Bwd (tsOf W) (tsOf (withProblem W c.prob)) (backOf c) (StRel (ncrMap simp W.P)) 0 := ncr_bwd hs W hc hok

/-- COMPLETENESS of NegativeConditionsRemover with the SAME plan length -/
theorem ncr_complete_partial (simp : Expr → Expr) (hs : SimpExact simp) (W : World) (c : Compiled)
    (hc : ncrCompile simp W.P = some c) (hok : ncrOK simp W.P = true) (π : List Nat) (hv : (tsOf W).Valid π) :
    ∃ π', (tsOf (withProblem W c.prob)).Valid π' ∧ mapBack (backOf c) π' = π ∧ π'.length ≤ π.length := by
  have := (ncr_bwd hs W hc hok).complete π hv
  simpa using this

/-- … the counterpart is the original plan itself (actions are identified by position): a sequence is a valid plan of
    the compiled problem IFF it is one of the original problem — no grounding, variant or reachable state is lost -/
theorem ncr_same_plans_partial (simp : Expr → Expr) (hs : SimpExact simp) (W : World) (c : Compiled)
    (hc : ncrCompile simp W.P = some c) (hok : ncrOK simp W.P = true) (π : List Nat) :
    (tsOf (withProblem W c.prob)).Valid π ↔ (tsOf W).Valid π := ncr_valid_iff hs W hc hok π

/-- an unsolvable compiled problem implies an unsolvable original problem -/
theorem ncr_unsolvable_partial (simp : Expr → Expr) (hs : SimpExact simp) (W : World) (c : Compiled)
    (hc : ncrCompile simp W.P = some c) (hok : ncrOK simp W.P = true) (hB : ¬ (tsOf (withProblem W c.prob)).Solvable) :
    ¬ (tsOf W).Solvable := (ncr_bwd hs W hc hok).unsolvable hB

/-- the hypothesis in general (as in `C06.NoDoubleAll`) -/
def NoDoubleAll (simp : Expr → Expr) (P : Problem) : Prop :=
  ∀ a ∈ P.actions, ∀ args ∈ instancesOf P a, noDoubleB (ncrMap simp P) (expandEffs P (instAct P a args).effs) = true

/-- full clause for NegativeConditionsRemover: completeness with the same length on ALL instances of lifted actions,
    under the one hypothesis that excludes add-after-delete.  Proved part: `ncr_complete_partial` (parameterless actions
    and the restrictions of `ncrOK`).  Without the hypothesis it is false: `NCR.ncr_complete_unrestricted_false`. -/
def ncr_complete_full (simp : Expr → Expr) : Prop :=
  SimpExact simp → ∀ (W : World) (c : Compiled), ncrCompile simp W.P = some c → NoDoubleAll simp W.P →
    ∀ π : List (Nat × List String), (tsLifted W).Valid π →
      ∃ π', (tsLifted (withProblem W c.prob)).Valid π' ∧ mapBack (backLifted c) π' = π ∧ π'.length ≤ π.length

namespace NCR
section witness
/-! ### finding C07-ncr-add-after-delete, kernel-checked on the model

`b : bool = false`, `h : bool = true`; `a0`: `b := false`, `b := true`; `a1`: `h := false if not b`; goal `h`, `b`.
`[a0, a1]` is a valid original plan (after `a0`, `b` is true and `a1` changes nothing).  In the compiled problem `a0`
leaves `b` and `not_b` both true, the compiled `a1` (`h := false if not_b`) fires and the goal `h` is lost; the only
compiled sequence mapping back to `[a0, a1]` is `[a0, a1]` itself. -/
def fb : FluentRef := ⟨"b", .bool, []⟩
def fh : FluentRef := ⟨"h", .bool, []⟩
def eb : Expr := .app (.fluent fb) []
def eh : Expr := .app (.fluent fh) []
def eff (f v c : Expr) : Effect := { fluent := f, value := v, cond := c, kind := .assign, forall_ := [] }
def w0 : Action where
  name := "a0"
  params := []
  pre := []
  effs := [eff eb Expr.ff Expr.tt, eff eb Expr.tt Expr.tt]
def w1 : Action where
  name := "a1"
  params := []
  pre := []
  effs := [eff eh Expr.ff (Expr.mkNot eb)]
def Pw : Problem where
  name := "w"
  types := ⟨[]⟩
  objects := []
  fluents := [⟨fb, none⟩, ⟨fh, none⟩]
  init := [(eb, Expr.ff), (eh, Expr.tt)]
  actions := [w0, w1]
  goals := [eh, eb]
  traj := []
  metrics := []
def Ww : World := { P := Pw, simp := id, fn := fun _ _ => none }
def cw : Compiled := (ncrCompile id Pw).getD ⟨Pw, []⟩

theorem ncr_add_after_delete_witness :
    (ncrCompile id Pw).isSome = true ∧ (tsOf Ww).Valid [0, 1] ∧ ¬ (tsOf (withProblem Ww cw.prob)).Valid [0, 1] ∧
    cw.back = [some 0, some 1] := by
  refine ⟨by decide +kernel, validB_sound (by decide +kernel), ?_, by decide +kernel⟩
  intro h
  have := validB_complete h
  revert this
  decide +kernel

/-- COMPLETENESS WITHOUT THE HYPOTHESIS IS FALSE (for the identity simplifier, which is exact) -/
theorem ncr_complete_unrestricted_false :
    ¬ (∀ (W : World) (c : Compiled) (π : List Nat), ncrCompile id W.P = some c → (tsOf W).Valid π →
        ∃ π', (tsOf (withProblem W c.prob)).Valid π' ∧ mapBack (backOf c) π' = π ∧ π'.length ≤ π.length) := by
  intro h
  obtain ⟨h1, h2, h3, h4⟩ := ncr_add_after_delete_witness
  have hc : ncrCompile id Ww.P = some cw := by
    unfold cw
    show ncrCompile id Pw = _
    cases hx : ncrCompile id Pw with
    | none => rw [hx] at h1; cases h1
    | some c => rfl
  obtain ⟨π', hv, hm, hl⟩ := h Ww cw [0, 1] hc h2
  have hb : ∀ i, backOf cw i = if i < 2 then some i else none := fun i => backOf_ncr (n := 2) h4 i
  -- a compiled plan of length ≤ 2 that maps back to `[a0, a1]` is `[a0, a1]`
  have : π' = [0, 1] := by
    match π', hm, hl with
    | [], hm, _ => simp [mapBack] at hm
    | [i], hm, _ =>
      simp only [mapBack, List.filterMap_cons, List.filterMap_nil, hb] at hm
      split at hm <;> simp at hm
    | [i, j], hm, _ =>
      simp only [mapBack, List.filterMap_cons, List.filterMap_nil, hb] at hm
      by_cases hi : i < 2 <;> by_cases hj : j < 2 <;> simp [hi, hj] at hm
      rw [hm.1, hm.2]
    | _ :: _ :: _ :: _, _, hl => simp at hl
  subst this
  exact h3 hv

end witness

section examples
/-! ## non-vacuity: the hypotheses hold on a concrete problem and the valid original plan `[a0, a1]` is a valid compiled plan

`b q : bool = false`, `x : int[0,10] = 1`; `a0`: pre `not b`, `not (x <= 0)`; effects `b := true`, `q := not b if (not q and not b)`;
`a1`: pre `b`; effects `b := not q`, `x += 1 if not q`; goal `not b`, `q`. -/
def fq : FluentRef := ⟨"q", .bool, []⟩
def fx : FluentRef := ⟨"x", .int (some 0) (some 10), []⟩
def eq_ : Expr := .app (.fluent fq) []
def ex : Expr := .app (.fluent fx) []
def e0 : Action where
  name := "a0"
  params := []
  pre := [Expr.mkNot eb, Expr.mkNot (Expr.mkLE ex (Expr.int 0))]
  effs := [eff eb Expr.tt Expr.tt, eff eq_ (Expr.mkNot eb) (.app .and [Expr.mkNot eq_, Expr.mkNot eb])]
def e1 : Action where
  name := "a1"
  params := []
  pre := [eb]
  effs := [eff eb (Expr.mkNot eq_) Expr.tt, { fluent := ex, value := Expr.int 1, cond := Expr.mkNot eq_, kind := .increase, forall_ := [] }]
def Pe : Problem where
  name := "e"
  types := ⟨[]⟩
  objects := []
  fluents := [⟨fb, none⟩, ⟨fq, none⟩, ⟨fx, none⟩]
  init := [(eb, Expr.ff), (eq_, Expr.ff), (ex, Expr.int 1)]
  actions := [e0, e1]
  goals := [Expr.mkNot eb, eq_]
  traj := []
  metrics := []
def We : World := { P := Pe, simp := id, fn := fun _ _ => none }
def ce : Compiled := (ncrCompile id Pe).getD ⟨Pe, []⟩

example : (ncrCompile id Pe).isSome = true ∧ ncrOK id Pe = true ∧ validB We [0, 1] = true ∧
    validB (withProblem We ce.prob) [0, 1] = true ∧ mapBack (backOf ce) [0, 1] = [0, 1] := by decide +kernel
/-- the hypothesis `noDoubleB` is what excludes the witness above (everything else `ncrOK` asks holds for it) -/
example : ncrOK id Pw = false ∧ noDoubleB (ncrMap id Pw) (expandEffs Pw w0.effs) = false ∧
    ncrOK id { Pw with actions := [{ w0 with effs := [eff eb Expr.tt Expr.tt] }, w1] } = true := by decide +kernel
example : SimpExact id := SimpExact_id
end examples
end NCR

end UPVerif.C07
