import UPVerif.Lemmas.HashConsPathsLemmas
import UPVerif.Props.C16
/-!
# C16 — … on EVERY construction path

`Props/C16.lean` proves hash-consing and the documented normalisations for histories of
`ExpressionManager` method calls.  The property quantifies over every way of building an
expression; this module lifts the theorems to the paths of `Core/HashConsPaths.lean`: the infix /
prefix operators and named methods of `FNode`, `Fluent`, `Parameter`, `Variable`, `Object`
(forward and reflected), `Fluent.__call__` and the helpers of `unified_planning.shortcuts`, in any
mixture within one history.  Statements only; helper lemmas live in `Lemmas/HashConsPathsLemmas.lean`.
-/
namespace UPVerif.C16
open UPVerif.HashCons

/-! ## each path IS a call of the documented constructor -/

/-- the documented constructor call that a method of the infix tables stands for: `x + y` is
    `Plus(x, y)`, `x >= y` is `GE(x, y)`, `~x` is `Not(x)`, `-x` is `Minus(0, x)` …  (the xor family
    is not one call: see `xor_is_and_or_not`) -/
def methSpec (self : Arg) : Meth → List (PArg Arg) → Option (Ctor × List (PArg Arg))
  | .add, [r] => some (.plus, [.one self, r])
  | .radd, [l] => some (.plus, [l, .one self])
  | .sub, [r] => some (.minus, [.one self, r])
  | .rsub, [l] => some (.minus, [l, .one self])
  | .mul, [r] => some (.times, [.one self, r])
  | .rmul, [l] => some (.times, [l, .one self])
  | .truediv, [r] => some (.div, [.one self, r])
  | .rtruediv, [l] => some (.div, [l, .one self])
  | .floordiv, [r] => some (.div, [.one self, r])
  | .rfloordiv, [l] => some (.div, [l, .one self])
  | .gt, [r] => some (.gt, [.one self, r])
  | .ge, [r] => some (.ge, [.one self, r])
  | .lt, [r] => some (.lt, [.one self, r])
  | .le, [r] => some (.le, [.one self, r])
  | .pos, [] => some (.plus, [.one (.num (.int 0)), .one self])
  | .neg, [] => some (.minus, [.one (.num (.int 0)), .one self])
  | .equals, [r] => some (.equals, [.one self, r])
  | .and_, os => some (.and, .one self :: os)
  | .dand, os => some (.and, .one self :: os)
  | .rand, os => some (.and, os ++ [.one self])
  | .or_, os => some (.or, .one self :: os)
  | .dor, os => some (.or, .one self :: os)
  | .ror, os => some (.or, os ++ [.one self])
  | .not_, [] => some (.not, [.one self])
  | .invert, [] => some (.not, [.one self])
  | .implies, [r] => some (.implies, [.one self, r])
  | .iff, [r] => some (.iff, [.one self, r])
  | _, _ => none

/-- a method call returns exactly what the documented constructor call returns: the same node (or
    error) and the same manager state -/
theorem method_is_constructor (m : Mgr) {self : Arg} {f : Meth} {os : List (PArg Arg)} {c : Ctor}
    {as : List (PArg Arg)} (h : methSpec self f os = some (c, as)) :
    applyMeth m self f os = apply m c as := by
  unfold methSpec at h
  split at h
  all_goals first
    | (cases h; rfl)
    | cases h

/-- every method except the xor family has such a constructor form when called with the number of
    arguments its signature asks for -/
theorem method_spec_total (self : Arg) (r : PArg Arg) (os : List (PArg Arg)) :
    (∀ f ∈ [Meth.add, .radd, .sub, .rsub, .mul, .rmul, .truediv, .rtruediv, .floordiv, .rfloordiv,
            .gt, .ge, .lt, .le, .equals, .implies, .iff], (methSpec self f [r]).isSome) ∧
    (∀ f ∈ [Meth.pos, .neg, .not_, .invert], (methSpec self f []).isSome) ∧
    (∀ f ∈ [Meth.and_, .dand, .rand, .or_, .dor, .ror], (methSpec self f os).isSome) := by
  refine ⟨?_, ?_, ?_⟩ <;> intro f hf <;> simp only [List.mem_cons, List.mem_nil_iff, or_false] at hf <;>
    repeat (first | (subst hf; rfl) | (rcases hf with h | hf; · (subst h; rfl)))

/-- `x.Xor(*ys)`, `x ^ y` and `y ^ x` (reflected) are, in this order, `Or(xs)`, `And(xs)`,
    `Not(<the and>)`, `And(<the or>, <the not>)` — four documented constructor calls, so every
    normalisation of `And`/`Or`/`Not` applies to them -/
theorem xor_is_and_or_not {m m' : Mgr} {self : Arg} {os : List (PArg Arg)} {r : Ref} :
    (applyMeth m self .xor os = xorVia m (.one self :: os)) ∧
    (applyMeth m self .dxor os = xorVia m (.one self :: os)) ∧
    (applyMeth m self .rxor os = xorVia m (os ++ [.one self])) ∧
    ∀ xs, xorVia m xs = some (m', .ok r) →
      ∃ m1 o m2 a m3 n, apply m .or xs = some (m1, .ok o) ∧ apply m1 .and xs = some (m2, .ok a) ∧
        apply m2 .not [.one (.node a)] = some (m3, .ok n) ∧
        apply m3 .and [.one (.node o), .one (.node n)] = some (m', .ok r) :=
  ⟨rfl, rfl, rfl, fun _ h => xorVia_ok h⟩

/-- a Python operator is the forward method of its left operand when that is an FNode / Fluent /
    Parameter / Variable, else the reflected method of the right operand (for comparisons: the
    mirrored comparison) -/
theorem infix_dispatch (m : Mgr) (op : Infix) (a b : Arg) (r : PArg Arg) :
    (a.hasInfix = true → applyInfix m op (.one a) r = applyMeth m a op.forward [r]) ∧
    (a.hasInfix = false → b.hasInfix = true →
      applyInfix m op (.one a) (.one b) = applyMeth m b op.reflected [.one a]) := by
  constructor
  · intro h; simp [applyInfix, h]
  · intro h1 h2; simp [applyInfix, h1, h2]

/-- hence every operator with an up object on the left is the documented constructor on
    `(left, right)` … -/
theorem infix_forward_is_constructor (m : Mgr) {a : Arg} (ha : a.hasInfix = true) (r : PArg Arg) :
    applyInfix m .add (.one a) r = apply m .plus [.one a, r] ∧
    applyInfix m .sub (.one a) r = apply m .minus [.one a, r] ∧
    applyInfix m .mul (.one a) r = apply m .times [.one a, r] ∧
    applyInfix m .truediv (.one a) r = apply m .div [.one a, r] ∧
    applyInfix m .floordiv (.one a) r = apply m .div [.one a, r] ∧
    applyInfix m .lt (.one a) r = apply m .lt [.one a, r] ∧
    applyInfix m .le (.one a) r = apply m .le [.one a, r] ∧
    applyInfix m .gt (.one a) r = apply m .gt [.one a, r] ∧
    applyInfix m .ge (.one a) r = apply m .ge [.one a, r] ∧
    applyInfix m .and_ (.one a) r = apply m .and [.one a, r] ∧
    applyInfix m .or_ (.one a) r = apply m .or [.one a, r] ∧
    applyInfix m .xor (.one a) r = xorVia m [.one a, r] := by
  simp [applyInfix, ha, Infix.forward, applyMeth]

/-- … and with a Python constant on the left it is the documented constructor on `(left, right)` too
    for `+ - * / // & | ^`, and the MIRRORED comparison constructor on `(right, left)` for
    `< <= > >=` (which `ge_gt_mirrored` turns into the same LE / LT node) -/
theorem infix_reflected_is_constructor (m : Mgr) {a b : Arg} (ha : a.hasInfix = false)
    (hb : b.hasInfix = true) :
    applyInfix m .add (.one a) (.one b) = apply m .plus [.one a, .one b] ∧
    applyInfix m .sub (.one a) (.one b) = apply m .minus [.one a, .one b] ∧
    applyInfix m .mul (.one a) (.one b) = apply m .times [.one a, .one b] ∧
    applyInfix m .truediv (.one a) (.one b) = apply m .div [.one a, .one b] ∧
    applyInfix m .floordiv (.one a) (.one b) = apply m .div [.one a, .one b] ∧
    applyInfix m .lt (.one a) (.one b) = apply m .gt [.one b, .one a] ∧
    applyInfix m .le (.one a) (.one b) = apply m .ge [.one b, .one a] ∧
    applyInfix m .gt (.one a) (.one b) = apply m .lt [.one b, .one a] ∧
    applyInfix m .ge (.one a) (.one b) = apply m .le [.one b, .one a] ∧
    applyInfix m .and_ (.one a) (.one b) = apply m .and [.one a, .one b] ∧
    applyInfix m .or_ (.one a) (.one b) = apply m .or [.one a, .one b] ∧
    applyInfix m .xor (.one a) (.one b) = xorVia m [.one a, .one b] := by
  simp [applyInfix, ha, hb, Infix.reflected, applyMeth]

/-- the shortcuts, the prefix operators and `fluent(*args)` -/
theorem other_paths_are_constructors (m : Mgr) (rs : List Res) (c : Ctor) (as : List (PArg Arg))
    {x : Arg} (hx : x.hasInfix = true) (k : String) (ar : Nat) (t : List Arg) :
    applyPath m rs (.shortcut c) as = apply m c as ∧
    applyPath m rs (.unary .invert) [.one x] = apply m .not [.one x] ∧
    applyPath m rs (.unary .neg) [.one x] = apply m .minus [.one (.num (.int 0)), .one x] ∧
    applyPath m rs (.unary .pos) [.one x] = apply m .plus [.one (.num (.int 0)), .one x] ∧
    applyPath m rs (.call k ar) (t.map .one) = apply m (.fluentExp k ar) [.many t] := by
  refine ⟨rfl, ?_, ?_, ?_, ?_⟩
  · simp [applyPath, hx, Unary.meth, applyMeth]
  · simp [applyPath, hx, Unary.meth, applyMeth]
  · simp [applyPath, hx, Unary.meth, applyMeth]
  · have : tupleOf (t.map PArg.one) = some t := by
      induction t with
      | nil => rfl
      | cons a t ih => simp [tupleOf, ih]
    simp [applyPath, this]

/-! ## the table invariant over path histories -/

/-- every construction, by whatever path, keeps the table invariant, only adds nodes, and returns
    an existing node -/
theorem invariant_pstep {m : Mgr} (hI : Inv m) {rs : List Res} (hrs : ∀ r ∈ rs, r.valid m) (c : PCmd)
    {m' : Mgr} {res : Res} (h : pstep m rs c = some (m', res)) : Inv m' ∧ Ext m m' ∧ res.valid m' :=
  let g := pstep_good hI hrs c h
  ⟨g.1.inv, g.1.ext, g.2⟩

/-- … hence so does every history that mixes the paths freely, of any length, from the initial
    manager: all theorems of `Props/C16.lean` stated for a state with `Inv` (ids distinct, same
    expression ⇒ same node, different expression ⇒ different id, immutability) hold after it -/
theorem invariant_path_history (cmds : List PCmd) {m : Mgr} {rs : List Res}
    (h : prun Mgr.new [] cmds = some (m, rs)) : Inv m ∧ Ext Mgr.new m ∧ ∀ r ∈ rs, r.valid m :=
  let g := prun_good Mgr.new_inv (by simp) cmds h
  ⟨g.1.inv, g.1.ext, g.2.1⟩

/-- so two results of a path history that denote the same expression are the same node, and
    different expressions have different nodes and ids -/
theorem path_history_hash_consed (cmds : List PCmd) {m : Mgr} {rs : List Res}
    (h : prun Mgr.new [] cmds = some (m, rs)) {i j : Ref} (hi : Res.ok i ∈ rs) (hj : Res.ok j ∈ rs) :
    (m.tree i = m.tree j ↔ i = j) ∧
    ∀ a b, m.heap[i]? = some a → m.heap[j]? = some b → (a.nodeId = b.nodeId ↔ i = j) := by
  obtain ⟨hI, _, hv⟩ := invariant_path_history cmds h
  have vi : i < m.heap.length := hv _ hi
  have vj : j < m.heap.length := hv _ hj
  exact ⟨⟨same_expression_same_node hI vi vj, fun e => by rw [e]⟩,
         fun a b ha hb => (ids_distinct hI ha hb).1⟩

/-- an `ExpressionManager`-only history is a path history -/
def Cmd.toPath (c : Cmd) : PCmd := ⟨.em c.ctor, c.args⟩

theorem pstep_em (m : Mgr) (rs : List Res) (c : Cmd) : pstep m rs (Cmd.toPath c) = step m rs c := by
  unfold pstep step Cmd.toPath
  cases c.args.mapM (resolveP rs) <;> rfl

theorem prun_em (m : Mgr) (rs : List Res) (cs : List Cmd) : prun m rs (cs.map Cmd.toPath) = run m rs cs := by
  induction cs generalizing m rs with
  | nil => rfl
  | cons c cs ih =>
    simp only [List.map_cons, prun, run, pstep_em]
    cases step m rs c with
    | none => rfl
    | some p => exact ih p.1 (rs ++ [p.2])

/-! ## same construction again — by ANY path — same node -/

/-- re-issuing any construction (same path, same arguments) in any later state returns the
    identical node, or raises the same error, and creates nothing -/
theorem rebuild_same_node_path {m : Mgr} (hI : Inv m) {rs : List Res} (hrs : ∀ r ∈ rs, r.valid m) (c : PCmd)
    {m1 : Mgr} {res : Res} (h : pstep m rs c = some (m1, res))
    {M : Mgr} (hM : Inv M) (hext : Ext m1 M) : pstep M rs c = some (M, res) :=
  pstep_stable hI hrs c h hM hext

/-- after any path history, building its k-th expression again yields the k-th result again and
    leaves the manager as it is -/
theorem rebuild_path_history (cmds : List PCmd) {m : Mgr} {rs : List Res}
    (h : prun Mgr.new [] cmds = some (m, rs)) (k : Nat) (c : PCmd) (hk : cmds[k]? = some c) :
    pstep m (rs.take k) c = (rs[k]?).map (fun r => (m, r)) := by
  have hI := (invariant_path_history cmds h).1
  have := prun_replay Mgr.new_inv (by simp) cmds h k c hk m hI (Ext.refl m)
  simpa using this

/-- MIXED paths: an expression built through a method (operator) of the infix tables and the same
    expression built later through the documented constructor — or the other way round — are the
    identical node, and the second construction creates nothing -/
theorem method_then_constructor {m : Mgr} (hI : Inv m) {self : Arg} (hs : self.valid m) {f : Meth}
    {os : List (PArg Arg)} (ho : ∀ p ∈ os, p.valid m) {c : Ctor} {as : List (PArg Arg)}
    (hspec : methSpec self f os = some (c, as))
    {m1 : Mgr} {res : Res} {M : Mgr} (hM : Inv M) (hext : Ext m1 M) :
    (applyMeth m self f os = some (m1, res) → apply M c as = some (M, res)) ∧
    (apply m c as = some (m1, res) → applyMeth M self f os = some (M, res)) := by
  constructor
  · intro h
    rw [← method_is_constructor M hspec]
    exact applyMeth_stable hI self hs f os ho h hM hext
  · intro h
    rw [← method_is_constructor m hspec] at h
    exact applyMeth_stable hI self hs f os ho h hM hext

/-- mirrored comparisons across paths: once `LT(a, b)` / `LE(a, b)` exists, `b > a` / `b >= a`
    written with the operator (i.e. `b.__gt__(a)` → `GT(b, a)`) is that very node, in any later state -/
theorem mirrored_operator_same_node {m : Mgr} (hI : Inv m) {a b : Ref} (ha : a < m.heap.length)
    (hb : b < m.heap.length) {m1 : Mgr} {res : Res} {M : Mgr} (hM : Inv M) (hext : Ext m1 M) :
    (apply m .lt [.one (.node a), .one (.node b)] = some (m1, res) →
      applyInfix M .gt (.one (.node b)) (.one (.node a)) = some (M, res)) ∧
    (apply m .le [.one (.node a), .one (.node b)] = some (m1, res) →
      applyInfix M .ge (.one (.node b)) (.one (.node a)) = some (M, res)) := by
  have hv : ∀ p ∈ [PArg.one (Arg.node a), PArg.one (Arg.node b)], p.valid m :=
    valid_cons (show (PArg.one (Arg.node a)).valid m from ha)
      (valid_cons (show (PArg.one (Arg.node b)).valid m from hb) valid_nil)
  constructor
  · intro h
    have := apply_stable hI _ _ hv h hM hext
    rw [← (ge_is_le M b a).2] at this
    simpa [applyInfix, Arg.hasInfix, Infix.forward, applyMeth] using this
  · intro h
    have := apply_stable hI _ _ hv h hM hext
    rw [← (ge_is_le M b a).1] at this
    simpa [applyInfix, Arg.hasInfix, Infix.forward, applyMeth] using this

/-! ## double negation on every path -/

/-- the five spellings of a negation of an up object are one and the same call -/
theorem negation_paths_agree (m : Mgr) (rs : List Res) {x : Arg} (hx : x.hasInfix = true) :
    applyMeth m x .not_ [] = apply m .not [.one x] ∧
    applyMeth m x .invert [] = apply m .not [.one x] ∧
    applyPath m rs (.unary .invert) [.one x] = apply m .not [.one x] ∧
    applyPath m rs (.shortcut .not) [.one x] = apply m .not [.one x] ∧
    applyPath m rs (.em .not) [.one x] = apply m .not [.one x] := by
  refine ⟨rfl, rfl, ?_, rfl, rfl⟩
  simp [applyPath, hx, Unary.meth, applyMeth]

/-- `~` of a NOT node returns its child and creates nothing; `~` of anything else builds the NOT
    node; so `~~x` is `x` (and likewise through `.Not()`, `shortcuts.Not`, or any mixture, by
    `negation_paths_agree`) -/
theorem invert_invert {m : Mgr} (hI : Inv m) (rs rs' : List Res) {r : Ref} {n : FNode}
    (hn : m.heap[r]? = some n) (hop : n.content.op ≠ .not) :
    ∃ m1 r1, applyPath m rs (.unary .invert) [.one (.node r)] = some (m1, .ok r1) ∧
      applyPath m1 rs' (.unary .invert) [.one (.node r1)] = some (m1, .ok r) ∧
      applyMeth m1 (.node r1) .not_ [] = some (m1, .ok r) := by
  obtain ⟨m1, r1, h1, h2⟩ := not_not_roundtrip hI hn hop
  refine ⟨m1, r1, ?_, ?_, h2⟩
  · rw [(negation_paths_agree m rs (x := .node r) rfl).2.2.1]; exact h1
  · rw [(negation_paths_agree m1 rs' (x := .node r1) rfl).2.2.1]; exact h2

/-- the normal form of the whole table: after ANY history of constructions by any mixture of
    paths, no node `Not(Not(x))` exists in the environment -/
theorem no_double_negation_node (cmds : List PCmd) {m : Mgr} {rs : List Res}
    (h : prun Mgr.new [] cmds = some (m, rs)) : NoNotNot m :=
  prun_nnn Mgr.new_inv Mgr.new_nnn (by simp) cmds h

/-- in particular after any history of `ExpressionManager` calls -/
theorem no_double_negation_node_em (cmds : List Cmd) {m : Mgr} {rs : List Res}
    (h : run Mgr.new [] cmds = some (m, rs)) : NoNotNot m :=
  no_double_negation_node (cmds.map Cmd.toPath) (by rw [prun_em]; exact h)

/-- one step keeps it -/
theorem no_double_negation_step {m : Mgr} (hI : Inv m) (hN : NoNotNot m) {rs : List Res}
    (hrs : ∀ r ∈ rs, r.valid m) (c : PCmd) {m' : Mgr} {res : Res} (h : pstep m rs c = some (m', res)) :
    NoNotNot m' := pstep_nnn hI hN hrs c h

/-- the hypothesis "built by constructors" cannot be dropped: a raw `create_node(NOT, (n,))` on a
    NOT node — what the infix `~` would do if it by-passed `ExpressionManager.Not` — breaks the
    normal form while keeping the table invariant -/
theorem raw_create_node_breaks_normal_form :
    ∃ m : Mgr, Inv m ∧ NoNotNot m ∧ ¬ NoNotNot (createNode m .not [2] .none).1 := by
  refine ⟨(createNode Mgr.new .not [0] .none).1, ?_, ?_, ?_⟩
  · exact (invariant_createNode Mgr.new_inv _ _ _ (by decide)).1
  · exact createNode_nnn Mgr.new_inv Mgr.new_nnn _ _ _ (by decide) (by
      intro _ x hx c hc
      simp only [List.mem_singleton] at hx; subst hx
      rw [Mgr.new_eq] at hc; simp at hc; subst hc; decide)
  · intro hN
    have h := hN 3 ⟨⟨.not, [2], .none⟩, 4⟩ (by decide) rfl 2 (by simp) ⟨⟨.not, [0], .none⟩, 3⟩ (by decide)
    exact h rfl

/-! ## non-vacuity: one history that mixes every path -/
section examples

def b0 : SArg := .fluent "b0" 0
def n0 : SArg := .fluent "n0" 0

def demoPaths : List PCmd := [
  ⟨.em (.fluentExp "b0" 0), [.many []]⟩,                          -- 0: b0                      node 2
  ⟨.unary .invert, [.one (.res 0)]⟩,                               -- 1: ~b0                     node 3
  ⟨.unary .invert, [.one (.res 1)]⟩,                               -- 2: ~~b0 = step 0
  ⟨.meth (.res 1) .not_, []⟩,                                      -- 3: (~b0).Not() = step 0
  ⟨.shortcut .not, [.one b0]⟩,                                     -- 4: shortcuts.Not(Fluent b0) = step 1
  ⟨.infix .ge, [.one n0, .one (.num (.int 3))]⟩,                   -- 5: n0 >= 3  -> LE(3, n0)   node 6
  ⟨.infix .le, [.one (.num (.str "3")), .one n0]⟩,                 -- 6: "3" <= n0 -> n0.__ge__("3") = step 5
  ⟨.call "b1" 1, [.one (.obj "o1")]⟩,                              -- 7: b1(o1) = FluentExp(b1, (o1,))
  ⟨.meth b0 .xor, [.one (.bool true)]⟩,                            -- 8: b0.Xor(True)
  ⟨.infix .xor, [.one (.bool true), .one (.res 0)]⟩,               -- 9: True ^ b0 (reflected)
  ⟨.meth (.res 0) .and_, []⟩,                                      -- 10: b0.And() = b0
  ⟨.unary .neg, [.one n0]⟩,                                        -- 11: -n0 = Minus(0, n0)
  ⟨.em .minus, [.one (.num (.float 0 1)), .one n0]⟩ ]              -- 12: Minus(0.0, n0) = step 11

example : ((prun Mgr.new [] demoPaths).map (·.2)).map (fun rs => [rs[0]?, rs[1]?, rs[2]?, rs[3]?, rs[4]?]) =
    some [some (.ok 2), some (.ok 3), some (.ok 2), some (.ok 2), some (.ok 3)] := by decide +kernel
example : ((prun Mgr.new [] demoPaths).map (·.2)).map (fun rs => (rs[5]?, rs[6]?, rs[10]?, rs[11]? == rs[12]?)) =
    some (some (.ok 6), some (.ok 6), some (.ok 2), true) := by decide +kernel
example : (prun Mgr.new [] demoPaths).map (fun p => p.1.heap[6]?.map (·.content)) =
    some (some ⟨.le, [5, 4], .none⟩) := by decide +kernel
example : methSpec (.node 2) .radd [.one (.num (.int 3))] = some (.plus, [.one (.num (.int 3)), .one (.node 2)]) := rfl
example : (prun Mgr.new [] demoPaths).map (fun p => (p.1.heap[3]?.map (·.content), p.1.heap[8]?.map (·.content))) =
    some (some ⟨.not, [2], .none⟩, some ⟨.fluent, [7], .sym "b1"⟩) := by decide +kernel

/-- the demo history runs, and the theorems about path histories apply to it -/
theorem demoPaths_runs : (prun Mgr.new [] demoPaths).isSome = true := by decide +kernel

example : ∃ m rs, prun Mgr.new [] demoPaths = some (m, rs) ∧ Inv m ∧ NoNotNot m ∧
    pstep m (rs.take 2) ⟨.unary .invert, [.one (.res 1)]⟩ = (rs[2]?).map (fun r => (m, r)) := by
  rcases h : prun Mgr.new [] demoPaths with _ | ⟨m, rs⟩
  · have := demoPaths_runs; rw [h] at this; cases this
  · exact ⟨m, rs, rfl, (invariant_path_history _ h).1, no_double_negation_node _ h,
      rebuild_path_history _ h 2 _ rfl⟩

/-- hypotheses of `invert_invert`, `method_then_constructor`, `mirrored_operator_same_node` on concrete inputs -/
example := invert_invert Mgr.new_inv [] [] (r := 0) (n := ⟨⟨.boolC, [], .bool true⟩, 1⟩)
  (by rw [Mgr.new_eq]; rfl) (by decide)

example := (method_then_constructor Mgr.new_inv (self := .fluent "b0" 0) trivial (f := .dand)
  (os := [.one (.bool true)]) (valid_cons trivial valid_nil) rfl
  (m1 := (createNode (createNode Mgr.new .fluent [] (.sym "b0")).1 .and [2, 0] .none).1)
  (res := .ok 3)
  (invariant_createNode (invariant_createNode Mgr.new_inv _ _ _ (by decide)).1 _ _ _ (by decide)).1
  (Ext.refl _)).1 (by rfl)

def twoInts : Mgr := (createNode (createNode Mgr.new .intC [] (.int 1)).1 .intC [] (.int 2)).1
theorem twoInts_inv : Inv twoInts :=
  (invariant_createNode (invariant_createNode Mgr.new_inv _ _ _ (by decide)).1 _ _ _ (by decide)).1

example := (mirrored_operator_same_node twoInts_inv (a := 2) (b := 3) (by decide) (by decide)
  (m1 := (createNode twoInts .lt [2, 3] .none).1) (res := .ok 4)
  (invariant_createNode twoInts_inv _ _ _ (by decide)).1 (Ext.refl _)).1 (by rfl)

end examples

end UPVerif.C16
