import UPVerif.Lemmas.MASem
import UPVerif.Lemmas.MACondLemmas
import UPVerif.Lemmas.MAConflict
import UPVerif.Lemmas.MADisjLemmas
import UPVerif.Lemmas.MAGoalLemmas
import UPVerif.Lemmas.MACompile
/-!
# C37 — Multi-agent compilers preserve each agent's action semantics

The theorems of the property and nothing else (helper lemmas: `Lemmas/MASem.lean`, `MACondLemmas.lean`,
`MADisjLemmas.lean`, `MAGoalLemmas.lean`, `MACompile.lean`).

* `MA.compileCond` / `MA.compileDisj` (`Core/Compile/MACond.lean`, `MADisj.lean`) are the executable
  models of `MAConditionalEffectsRemover._compile` / `MADisjunctiveConditionsRemover._compile`, with
  the per-action helpers they inherit; the correspondence check ties them to /repo.
* `MASpec.successor` (`Spec/MASuccessor.lean`) is the reference semantics of one ground action of one
  agent over the agent-indexed name space (`View`: who is looking; `GState`: global state).

Everything is proved for EVERY view, EVERY global state and EVERY action / problem (no size bound).
Standing hypotheses, all about the STATE being total and well-sorted for the action at hand
(`AllDefined`: every precondition is Boolean-defined; `EffDefined`: every effect evaluates, its
condition is Boolean-defined), plus the components other properties own, as hypotheses in the shape
those properties prove: `SimpSound` (C11: the simplifier keeps defined Boolean values) and `DnfSound`
(C12; `MASpec.dnfSound_dnf` derives it for `Expr.dnf` from C12's lemmas).

Three behaviours of the shared single-agent helpers are KNOWN FINDINGS (inherited from C06/C07): for each
the full clause is stated as a `def … : Prop`, refuted on a concrete witness by the kernel, and proved
under a decidable hypothesis that excludes exactly the cause:
  D-C37-coinciding-values     `coincide V g a = false` (after d88a7f6 a variant whose selected effects
                              statically conflict is dropped; the original is inapplicable too unless two
                              firing assignments of different value EXPRESSIONS have the same VALUE in `g`),
  D-C37-overlapping-disjuncts `NoIncDecSplit` (a conditional increase/decrease is split over overlapping disjuncts),
  D-C37-effectless-variant    the "no-op" alternative in the completeness clauses (variants without effects are dropped).
The former finding D-C37-conflicting-variant (a variant kept WITHOUT a statically conflicting selected
effect: unsound) is repaired in /repo (d88a7f6); the soundness clause of `C37_cond` no longer has the
hypothesis `NoStaticConflict`, and the old witness is now the regression example `C37_cond_conflict_dropped`.
-/
namespace UPVerif.C37
open UPVerif UPVerif.Expr UPVerif.Sim UPVerif.MA UPVerif.MASpec

/-! ## conditional-effects removal -/

/-- EXACTLY ONE VARIANT: among the subsets the compiler enumerates, the added preconditions
    (the condition of every selected conditional effect, the negation of every other one) hold for
    exactly one — the set of conditional effects whose condition is true in the state. -/
theorem C37_cond_exactly_one (V : View) (g : GState) (a : Action)
    (hD : ∀ e ∈ a.effs, EffDefined V g e) :
    selIdx V g (enumFrom 0 (condEffects a)) ∈ powerset (List.range (condEffects a).length) ∧
    ∀ p ∈ powerset (List.range (condEffects a).length),
      ((marks p (enumFrom 0 (condEffects a))).all (holds V g) = true ↔
        p = selIdx V g (enumFrom 0 (condEffects a))) := by
  have hd : ∀ e ∈ condEffects a, ∃ b, bval V g e.cond = some b := fun e he => (hD e (mem_condEffects he)).2
  refine ⟨selIdx_mem_powerset V g _, fun p hp => ⟨fun hm => marks_unique hd hp hm, fun he => ?_⟩⟩
  subst he
  apply selIdx_marks
  · rw [enumFrom_map_fst]; exact List.nodup_range'
  · intro ie hie
    apply hd
    rw [← enumFrom_map_snd 0 (condEffects a)]
    exact List.mem_map.2 ⟨ie, hie, rfl⟩

/-- … and the compiler enumerates every subset exactly once, so "exactly one subset" is "exactly one
    variant" -/
theorem C37_cond_subsets_listed_once (n : Nat) : (powerset (List.range n)).Nodup :=
  powerset_nodup _ List.nodup_range

/-- MAIN THEOREM, conditional effects.  For every state in which the action is defined:
    (1) every variant of a subset other than the selected one is inapplicable;
    (2) SOUNDNESS, unconditionally: the selected variant — if the compiler yields it — has exactly the
        original's successor (so it is applicable iff the original is);
    (3) the compiler raises nothing on an action the library accepted;
    (4) COMPLETENESS: the compiler drops the selected variant only when the original is inapplicable, or
        the variant has no effect at all, in which case the original changes nothing (D-C37-effectless-
        variant) — provided no two firing assignments of different value expressions coincide in this
        state (D-C37-coinciding-values; without static conflict among the selected effects the
        proviso is not needed: `C37_cond_complete_of_noStaticConflict`). -/
theorem C37_cond (simp : Expr → Expr) (V : View) (g : GState) (a : Action)
    (hs : SimpSound V g simp) (hP : AllDefined V g a.pre) (hD : ∀ e ∈ a.effs, EffDefined V g e) :
    (∀ p ∈ powerset (List.range (condEffects a).length), p ≠ selIdx V g (enumFrom 0 (condEffects a)) →
      ∀ b, condVariant simp a p = some (some b) → successor V g b.pre b.effs = none) ∧
    (∀ b, condVariant simp a (selIdx V g (enumFrom 0 (condEffects a))) = some (some b) →
      successor V g b.pre b.effs = successor V g a.pre a.effs) ∧
    (Accepted a → condVariant simp a (selIdx V g (enumFrom 0 (condEffects a))) ≠ none) ∧
    (coincide V g a = false →
      condVariant simp a (selIdx V g (enumFrom 0 (condEffects a))) = some none →
        successor V g a.pre a.effs = none ∨
        (uncondEffects a = [] ∧ successor V g a.pre a.effs = some g)) := by
  have hd : ∀ e ∈ condEffects a, ∃ b, bval V g e.cond = some b := fun e he => (hD e (mem_condEffects he)).2
  have hd' : ∀ ie ∈ enumFrom 0 (condEffects a), ∃ b, bval V g ie.2.cond = some b := by
    intro ie hie
    apply hd
    rw [← enumFrom_map_snd 0 (condEffects a)]
    exact List.mem_map.2 ⟨ie, hie, rfl⟩
  have hdef : ∀ p, AllDefined V g ((marks p (enumFrom 0 (condEffects a))).foldl addPre a.pre) :=
    fun p => allDefined_foldl_addPre hP (allDefined_marks p hd')
  have hcs := cond_successor (V := V) (g := g) (a := a) hD
  refine ⟨?_, ?_, fun hacc hn => (condVariant_none_iff simp a _).1 hn hacc, ?_⟩
  · intro p hp hne b hb
    cases h0 : staticAdd (uncondEffects a) ⟨[], []⟩ with
    | none => simp [condVariant, h0] at hb
    | some acc0 =>
      rw [condVariant_eq simp a p h0] at hb
      split at hb
      · split at hb
        · cases hb
        · cases hsp : MA.simplifyPre simp ((marks p (enumFrom 0 (condEffects a))).foldl addPre a.pre) with
          | none => rw [hsp] at hb; cases hb
          | some pre'' =>
            rw [hsp] at hb
            simp only [Option.some.injEq] at hb
            subst hb
            apply successor_none_of_pre
            simp only
            rw [simplifyPre_some hs (hdef p) hsp, all_foldl_addPre]
            cases hm : (marks p (enumFrom 0 (condEffects a))).all (holds V g) with
            | false => simp
            | true => exact absurd (marks_unique hd hp hm) hne
      · cases hb
  · intro b hb
    cases h0 : staticAdd (uncondEffects a) ⟨[], []⟩ with
    | none => simp [condVariant, h0] at hb
    | some acc0 =>
      rw [condVariant_eq simp a _ h0] at hb
      split at hb
      · split at hb
        · cases hb
        · cases hsp : MA.simplifyPre simp ((marks (selIdx V g (enumFrom 0 (condEffects a))) (enumFrom 0 (condEffects a))).foldl addPre a.pre) with
          | none => rw [hsp] at hb; cases hb
          | some pre'' =>
            rw [hsp] at hb
            simp only [Option.some.injEq] at hb
            subst hb
            simp only
            rw [successor_congr_pre _ (simplifyPre_some hs (hdef _) hsp)]
            exact hcs
      · cases hb
  · intro hco hnone
    cases h0 : staticAdd (uncondEffects a) ⟨[], []⟩ with
    | none => simp [condVariant, h0] at hnone
    | some acc0 =>
      rw [condVariant_eq simp a _ h0] at hnone
      split at hnone
      · split at hnone
        · rename_i hempty
          have hnil : uncondEffects a ++ selected (selIdx V g (enumFrom 0 (condEffects a))) (enumFrom 0 (condEffects a)) = [] := by
            simpa using hempty
          rw [hnil, successor_nil_effects] at hcs
          have hu : uncondEffects a = [] := (List.append_eq_nil_iff.1 hnil).1
          split at hcs
          · right; exact ⟨hu, hcs.symm⟩
          · left; exact hcs.symm
        · cases hsp : MA.simplifyPre simp ((marks (selIdx V g (enumFrom 0 (condEffects a))) (enumFrom 0 (condEffects a))).foldl addPre a.pre) with
          | some pre'' => rw [hsp] at hnone; cases hnone
          | none =>
            left
            rw [← hcs]
            exact successor_none_of_pre _ (simplifyPre_none hs (hdef _) hsp)
      · rename_i hconf
        left
        apply conflict_inapplicable hD hco
        rw [staticAdd_append, h0]
        simp only [Option.bind_some]
        cases hx : staticAdd (selected (selIdx V g (enumFrom 0 (condEffects a))) (enumFrom 0 (condEffects a))) acc0 with
        | none => rfl
        | some _ => rw [hx] at hconf; simp at hconf

/-- COMPLETENESS without the proviso, where it is not needed: when the effects the state selects pass the
    static conflict check (the decidable hypothesis of the theorem as it stood before the repair) the
    selected variant is dropped only for an inapplicable or no-op original -/
theorem C37_cond_complete_of_noStaticConflict (simp : Expr → Expr) (V : View) (g : GState) (a : Action)
    (hs : SimpSound V g simp) (hP : AllDefined V g a.pre) (hD : ∀ e ∈ a.effs, EffDefined V g e)
    (hnc : NoStaticConflict a (selIdx V g (enumFrom 0 (condEffects a)))) :
    condVariant simp a (selIdx V g (enumFrom 0 (condEffects a))) ≠ none ∧
    (condVariant simp a (selIdx V g (enumFrom 0 (condEffects a))) = some none →
      successor V g a.pre a.effs = none ∨
      (uncondEffects a = [] ∧ successor V g a.pre a.effs = some g)) := by
  have hd' : ∀ ie ∈ enumFrom 0 (condEffects a), ∃ b, bval V g ie.2.cond = some b := by
    intro ie hie
    refine (hD ie.2 (mem_condEffects ?_)).2
    rw [← enumFrom_map_snd 0 (condEffects a)]
    exact List.mem_map.2 ⟨ie, hie, rfl⟩
  have hdef : ∀ p, AllDefined V g ((marks p (enumFrom 0 (condEffects a))).foldl addPre a.pre) :=
    fun p => allDefined_foldl_addPre hP (allDefined_marks p hd')
  have hcs := cond_successor (V := V) (g := g) (a := a) hD
  cases h0 : staticAdd (uncondEffects a) ⟨[], []⟩ with
  | none =>
    unfold NoStaticConflict at hnc
    rw [staticAdd_append, h0] at hnc
    cases hnc
  | some acc0 =>
    have hsel := (noStaticConflict_iff a _ h0).1 hnc
    rw [condVariant_eq simp a _ h0]
    simp only [hsel, if_true]
    constructor
    · split
      · simp
      · split <;> simp
    · intro hnone
      split at hnone
      · rename_i hempty
        have hnil : uncondEffects a ++ selected (selIdx V g (enumFrom 0 (condEffects a))) (enumFrom 0 (condEffects a)) = [] := by
          simpa using hempty
        rw [hnil, successor_nil_effects] at hcs
        have hu : uncondEffects a = [] := (List.append_eq_nil_iff.1 hnil).1
        split at hcs
        · right; exact ⟨hu, hcs.symm⟩
        · left; exact hcs.symm
      · cases hsp : MA.simplifyPre simp ((marks (selIdx V g (enumFrom 0 (condEffects a))) (enumFrom 0 (condEffects a))).foldl addPre a.pre) with
        | some pre'' => rw [hsp] at hnone; cases hnone
        | none =>
          left
          rw [← hcs]
          exact successor_none_of_pre _ (simplifyPre_none hs (hdef _) hsp)

/-- THE REPAIR d88a7f6 as a theorem: a yielded variant carries the unconditional copy of EVERY selected effect
    (none is silently left out), and a subset whose selected effects do not pass the static conflict check
    yields nothing -/
theorem C37_cond_variant_effects (simp : Expr → Expr) (a : Action) (p : List Nat) :
    (∀ b, condVariant simp a p = some (some b) →
      NoStaticConflict a p ∧ b.effs = uncondEffects a ++ selected p (enumFrom 0 (condEffects a))) ∧
    (Accepted a → ¬ NoStaticConflict a p → condVariant simp a p = some none) := by
  constructor
  · intro b hb
    cases h0 : staticAdd (uncondEffects a) ⟨[], []⟩ with
    | none => simp [condVariant, h0] at hb
    | some acc0 =>
      rw [condVariant_eq simp a p h0] at hb
      split at hb
      · rename_i hsel
        refine ⟨(noStaticConflict_iff a p h0).2 hsel, ?_⟩
        split at hb
        · cases hb
        · split at hb
          · cases hb
          · simp only [Option.some.injEq] at hb
            subst hb
            rfl
      · cases hb
  · intro hacc hn
    unfold Accepted at hacc
    cases h0 : staticAdd (uncondEffects a) ⟨[], []⟩ with
    | none => rw [h0] at hacc; cases hacc
    | some acc0 =>
      rw [condVariant_eq simp a p h0]
      have : ¬ (staticAdd (selected p (enumFrom 0 (condEffects a))) acc0).isSome = true :=
        fun h => hn ((noStaticConflict_iff a p h0).2 h)
      simp [this]

/-! ## disjunctive-conditions removal -/

/-- MAIN THEOREM, disjunctive conditions.  `bodies` are the split actions
    `_create_non_disjunctive_actions` yields for an action with preconditions `pre` and effects `effs`
    (before the resets of fake fluents are appended).  For every state in which the action is defined
    and provided no conditional increase/decrease is split over several disjuncts:
    (sound) a split action that is applicable yields a successor the original yields too;
    (complete) if the original is applicable with successor `s'`, some split action is applicable with
    the same successor — or all split actions were dropped because no effect survives, in which case
    the original changes nothing (`s' = g`). -/
theorem C37_disj (simp dnfOf : Expr → Expr) (V : View) (g : GState) (pre : List Expr) (effs : List Effect)
    (bodies : List Body) (hs : SimpSound V g simp) (hdn : DnfSound V g dnfOf)
    (hP : AllDefined V g pre) (hD : ∀ e ∈ effs, EffDefined V g e) (hno : NoIncDecSplit simp dnfOf effs)
    (hb : disjBodies simp dnfOf pre effs = some bodies) :
    (∀ b ∈ bodies, ∀ s', successor V g b.pre b.effs = some s' → successor V g pre effs = some s') ∧
    (∀ s', successor V g pre effs = some s' →
      (∃ b ∈ bodies, successor V g b.pre b.effs = some s') ∨
      (splitEffects simp dnfOf effs ⟨[], []⟩ [] = some [] ∧ s' = g)) := by
  have hD' : bval V g (dnfOf (mkAnd pre)) = some (pre.all (holds V g)) := hdn _ _ (bval_mkAnd hP)
  obtain ⟨hdd, hany⟩ := disjuncts_sem hD'
  obtain ⟨F, F', hF, hF', hdup⟩ := fired_splitEffects hs hdn effs hD hno
  unfold disjBodies at hb
  obtain ⟨hmem, hnn⟩ := collect_some _ bodies hb
  constructor
  · intro b hbm s' hs'
    obtain ⟨d, hd, hde⟩ := List.mem_map.1 ((hmem b).1 hbm)
    unfold newActionWithPrecond at hde
    obtain ⟨v, hv⟩ := hdd d hd
    rcases splitPre_cases hs hv with ⟨h1, _⟩ | ⟨pd, h1, h2⟩
    · rw [h1] at hde; cases hde
    · rw [h1] at hde
      simp only at hde
      cases hE : splitEffects simp dnfOf effs ⟨[], []⟩ [] with
      | none => rw [hE] at hde; cases hde
      | some E =>
        rw [hE] at hde
        simp only at hde
        by_cases hem : E.isEmpty = true
        · simp [hem] at hde
        · simp only [hem, Bool.false_eq_true, if_false, Option.some.injEq] at hde
          subst hde
          simp only at hs' ⊢
          have hEe : E = effs.flatMap (splitEffect simp dnfOf) := by
            have := splitEffects_eq simp dnfOf effs _ _ E hE
            simpa using this
          have hpd := pre_of_successor hs'
          have hvt : v = true := by rw [← h2]; exact hpd
          have hpre : pre.all (holds V g) = true := by
            rw [← hany, List.any_eq_true]
            exact ⟨d, hd, by rw [holds_of_bval hv, hvt]⟩
          rw [← hs']
          exact successor_eq_of_dup (by rw [hpre, hpd]) hF (hEe ▸ hF') hdup
  · intro s' hs'
    have hpre := pre_of_successor hs'
    rw [hpre, List.any_eq_true] at hany
    obtain ⟨d, hd, hhd⟩ := hany
    obtain ⟨v, hv⟩ := hdd d hd
    have hvt : v = true := by rw [← holds_of_bval hv]; exact hhd
    subst hvt
    have hne := hnn _ (List.mem_map.2 ⟨d, hd, rfl⟩)
    rcases splitPre_cases hs hv with ⟨_, h2⟩ | ⟨pd, h1, h2⟩
    · cases h2
    · cases hE : splitEffects simp dnfOf effs ⟨[], []⟩ [] with
      | none => simp [newActionWithPrecond, h1, hE] at hne
      | some E =>
        have hEe : E = effs.flatMap (splitEffect simp dnfOf) := by
          have := splitEffects_eq simp dnfOf effs _ _ E hE
          simpa using this
        have heq : successor V g pre effs = successor V g pd E :=
          successor_eq_of_dup (by rw [hpre, h2]) hF (hEe ▸ hF') hdup
        by_cases hem : E.isEmpty = true
        · right
          have : E = [] := by simpa using hem
          subst this
          refine ⟨rfl, ?_⟩
          rw [heq, successor_nil_effects, h2] at hs'
          simpa using hs'.symm
        · left
          refine ⟨⟨pd, E⟩, (hmem _).2 (List.mem_map.2 ⟨d, hd, ?_⟩), by rw [← heq]; exact hs'⟩
          simp [newActionWithPrecond, h1, hE, hem]

/-- THE RESETS.  Every split action gets `fake := false` appended for every fake fluent; when the fired
    effects of the split action do not touch the fake fluents (their names are fresh), the successor is
    the one of the split action except that every fake fluent ends false. -/
theorem C37_disj_resets (V : View) (g : GState) (pre : List Expr) (E : List Effect) (F : List Fired)
    (fakes : List FluentRef) (hb : ∀ f ∈ fakes, f.ty = .bool) (hF : fired V g E = some F)
    (hfresh : ∀ f ∈ F, f.key ∉ fakes.map (fun f => V.key (f, []))) :
    successor V g pre (E ++ fakes.map resetEffect) =
      (successor V g pre E).map (fun s k =>
        if k ∈ fakes.map (fun f => V.key (f, [])) then some (.b false) else s k) :=
  successor_resets hb hF hfresh

/-! ## goals -/

/-- THE GOALS ARE EQUIVALENT up to the DNF split.  For a shared goal `γ` defined in the state:
    when its DNF is not a disjunction the compiled goal is that DNF and has the same truth value;
    when it is, `γ` holds iff some fake action built from a disjunct (for the fake fluent `n`) has all
    its preconditions true — and every such action has the single effect `fake_n := true`. -/
theorem C37_goals_equiv (simp dnfOf : Expr → Expr) (V : View) (g : GState) (γ : Expr) (v : Bool)
    (hs : SimpSound V g simp) (hdn : DnfSound V g dnfOf) (hγ : bval V g γ = some v) :
    (isOr (dnfOf (mkAnd [γ])) = false → holds V g (dnfOf (mkAnd [γ])) = holds V g γ) ∧
    (isOr (dnfOf (mkAnd [γ])) = true → ∀ n bodies,
      collect ((disjuncts (dnfOf (mkAnd [γ]))).map (newActionWithPrecond simp dnfOf [fakeEffect n])) = some bodies →
      (holds V g γ = true ↔ ∃ b ∈ bodies, b.pre.all (holds V g) = true) ∧
      ∀ b ∈ bodies, b.effs = [fakeEffect n]) := by
  have hd : bval V g (dnfOf (mkAnd [γ])) = some v := hdn _ _ hγ
  refine ⟨fun _ => by rw [holds_of_bval hd, holds_of_bval hγ], fun _ n bodies hc => ?_⟩
  obtain ⟨hdd, hany⟩ := disjuncts_sem hd
  obtain ⟨hmem, _⟩ := collect_some _ bodies hc
  have hshape : ∀ b ∈ bodies, ∃ d ∈ disjuncts (dnfOf (mkAnd [γ])), splitPre simp d = some b.pre ∧ b.effs = [fakeEffect n] := by
    intro b hb
    obtain ⟨d, hd', hde⟩ := List.mem_map.1 ((hmem b).1 hb)
    unfold newActionWithPrecond at hde
    rw [splitEffects_fake] at hde
    cases hsp : splitPre simp d with
    | none => rw [hsp] at hde; cases hde
    | some pd =>
      rw [hsp] at hde
      simp only [List.isEmpty_cons, Bool.false_eq_true, if_false, Option.some.injEq] at hde
      subst hde
      exact ⟨d, hd', hsp, rfl⟩
  refine ⟨?_, fun b hb => (hshape b hb).choose_spec.2.2⟩
  rw [holds_of_bval hγ, ← hany, List.any_eq_true]
  constructor
  · rintro ⟨d, hd', hh⟩
    obtain ⟨w, hw⟩ := hdd d hd'
    have hwt : w = true := by rw [← holds_of_bval hw]; exact hh
    subst hwt
    rcases splitPre_cases hs hw with ⟨_, h2⟩ | ⟨pd, h1, h2⟩
    · cases h2
    · refine ⟨⟨pd, [fakeEffect n]⟩, (hmem _).2 (List.mem_map.2 ⟨d, hd', ?_⟩), h2⟩
      simp [newActionWithPrecond, h1, splitEffects_fake]
  · rintro ⟨b, hb, hall⟩
    obtain ⟨d, hd', hsp, _⟩ := hshape b hb
    obtain ⟨w, hw⟩ := hdd d hd'
    refine ⟨d, hd', ?_⟩
    rcases splitPre_cases hs hw with ⟨h1, _⟩ | ⟨pd, h1, h2⟩
    · rw [h1] at hsp; cases hsp
    · rw [h1] at hsp
      cases hsp
      rw [holds_of_bval hw, ← h2]; exact hall

/-- a fake action writes its fake fluent and nothing else -/
theorem C37_fake_action (V : View) (g : GState) (pre : List Expr) (n : String) :
    successor V g pre [fakeEffect n] =
      if pre.all (holds V g) then
        some (fun k => if k = V.key (fakeRef n, []) then some (.b true) else g k)
      else none :=
  successor_fake V g pre n

/-- the agent that owns the fake actions reads a shared goal that applies none of its own fluents bare
    exactly as the global name space does -/
theorem C37_goal_reading (V : View) (g : GState) (γ : Expr) (h : ∀ f ∈ fluentRefs γ, f ∉ V.own) :
    holds V g γ = goalHolds g γ := holds_goalView h

/-! ## map back, and what the compiled problems consist of -/

/-- what `MAConditionalEffectsRemover` makes of one agent; `O` carries the objects of the problem, `Compile.cerExpand O a`
    is `a` with every conditional forall effect whose condition mentions a variable replaced by its instances
    (`_instances_of_conditional_effect`) -/
def CondAgentSpec (O : Problem) (simp : Expr → Expr) (ag : Agent) (cag : CAgent) : Prop :=
  cag.name = ag.name ∧ cag.fluents = ag.fluents ∧
  (∀ ca ∈ cag.actions, ∃ a ∈ ag.actions, ca.origin = some a.name ∧ ca.act.params = a.params ∧
    ((Action.isConditional a = false ∧ ca.act.pre = a.pre ∧ ca.act.effs = a.effs) ∨
     (Action.isConditional a = true ∧ ∃ p ∈ powerset (List.range (condEffects (Compile.cerExpand O a)).length),
        condVariant simp (Compile.cerExpand O a) p = some (some ⟨ca.act.pre, ca.act.effs⟩)))) ∧
  (∀ a ∈ ag.actions,
    (Action.isConditional a = false →
      ∃ ca ∈ cag.actions, ca.origin = some a.name ∧ ca.act.pre = a.pre ∧ ca.act.effs = a.effs) ∧
    (Action.isConditional a = true → ∀ p ∈ powerset (List.range (condEffects (Compile.cerExpand O a)).length), ∀ b,
      condVariant simp (Compile.cerExpand O a) p = some (some b) →
      ∃ ca ∈ cag.actions, ca.origin = some a.name ∧ ca.act.pre = b.pre ∧ ca.act.effs = b.effs))

/-- MAP BACK, conditional effects: the compiled problem has the same agents (same fluents), environment
    and goals; every compiled action maps back to an action OF THE SAME AGENT and is either that action
    unchanged (it had no conditional effect) or one of the powerset variants of that action with its
    conditional forall effects expanded over the objects of the problem; conversely every
    unconditional action and every yielded variant is there. -/
theorem C37_map_back_cond (simp : Expr → Expr) (P : MAProblem) (C : Compiled)
    (h : compileCond simp P = some C) :
    C.env = P.env ∧ C.goals = P.goals ∧ ListRel (CondAgentSpec P.objProblem simp) P.agents C.agents := by
  unfold compileCond at h
  simp only [Option.map_eq_some_iff] at h
  obtain ⟨ags, hags, rfl⟩ := h
  obtain ⟨news, hn, hrel⟩ := condAgents_spec _ simp _ _ _ _ _ hags
  simp only [List.nil_append] at hn
  subst hn
  refine ⟨rfl, rfl, listRel_mono ?_ hrel⟩
  rintro ag cag ⟨h1, h2, ps, hps, hstrip⟩
  refine ⟨h1, h2, ?_, ?_⟩
  · intro ca hca
    have hm : ca.strip ∈ ps.map Proto.strip := by rw [← hstrip]; exact List.mem_map.2 ⟨ca, hca, rfl⟩
    obtain ⟨p, hp, hpe⟩ := List.mem_map.1 hm
    simp only [Proto.strip, CAction.strip, Prod.mk.injEq] at hpe
    rcases (condProtos_mem hps p).1 hp with ⟨a, ha, hc, rfl⟩ | ⟨a, ha, hc, bs, hbs, b, hb, rfl⟩
    · exact ⟨a, ha, hpe.1.symm, hpe.2.1.symm, Or.inl ⟨hc, hpe.2.2.1.symm, hpe.2.2.2.symm⟩⟩
    · refine ⟨a, ha, hpe.1.symm, hpe.2.1.symm, Or.inr ⟨hc, ?_⟩⟩
      obtain ⟨q, hq, hqe⟩ := (condBodies_mem hbs b).1 hb
      refine ⟨q, hq, ?_⟩
      rw [hqe]
      simp only at hpe
      rw [← hpe.2.2.1, ← hpe.2.2.2]
  · intro a ha
    constructor
    · intro hc
      have hp : ({ base := a.name, keepName := true, origin := some a.name, params := a.params, body := ⟨a.pre, a.effs⟩ } : Proto) ∈ ps :=
        (condProtos_mem hps _).2 (Or.inl ⟨a, ha, hc, rfl⟩)
      have hm : Proto.strip { base := a.name, keepName := true, origin := some a.name, params := a.params, body := ⟨a.pre, a.effs⟩ } ∈ cag.actions.map CAction.strip := by
        rw [hstrip]; exact List.mem_map.2 ⟨_, hp, rfl⟩
      obtain ⟨ca, hca, hce⟩ := List.mem_map.1 hm
      simp only [Proto.strip, CAction.strip, Prod.mk.injEq] at hce
      exact ⟨ca, hca, hce.1, hce.2.2.1, hce.2.2.2⟩
    · intro hc q hq b hqb
      cases hbs : condBodies simp (Compile.cerExpand P.objProblem a) with
      | none =>
        -- impossible: the agent's prototypes exist, so every conditional action has its bodies
        exfalso
        unfold condProtos at hps
        simp only [Option.map_eq_some_iff] at hps
        obtain ⟨rest, hgo, _⟩ := hps
        have : ∀ (as : List Action) (r : List Proto), condProtos.go P.objProblem simp as = some r → a ∈ as →
            condBodies simp (Compile.cerExpand P.objProblem a) ≠ none := by
          intro as
          induction as with
          | nil => intro r _ hin; cases hin
          | cons x xs ih =>
            intro r hr hin
            unfold condProtos.go at hr
            cases hx : condBodies simp (Compile.cerExpand P.objProblem x) with
            | none => rw [hx] at hr; cases hr
            | some bx =>
              cases hg : condProtos.go P.objProblem simp xs with
              | none => rw [hx, hg] at hr; cases hr
              | some rx =>
                rcases List.mem_cons.1 hin with rfl | hin'
                · rw [hx]; simp
                · exact ih rx hg hin'
        exact this _ rest hgo (List.mem_filter.2 ⟨ha, hc⟩) hbs
      | some bs =>
        have hb : b ∈ bs := (condBodies_mem hbs b).2 ⟨q, hq, hqb⟩
        have hp : ({ base := a.name, keepName := false, origin := some a.name, params := a.params, body := b } : Proto) ∈ ps :=
          (condProtos_mem hps _).2 (Or.inr ⟨a, ha, hc, bs, hbs, b, hb, rfl⟩)
        have hm : Proto.strip { base := a.name, keepName := false, origin := some a.name, params := a.params, body := b } ∈ cag.actions.map CAction.strip := by
          rw [hstrip]; exact List.mem_map.2 ⟨_, hp, rfl⟩
        obtain ⟨ca, hca, hce⟩ := List.mem_map.1 hm
        simp only [Proto.strip, CAction.strip, Prod.mk.injEq] at hce
        exact ⟨ca, hca, hce.1, hce.2.2.1, hce.2.2.2⟩

/-- what `MADisjunctiveConditionsRemover` makes of one agent; `fakes` are the fake fluents of the whole
    compilation, `cgoals` the compiled goals -/
def DisjAgentSpec (simp dnfOf : Expr → Expr) (goals cgoals : List Expr) (fakes : List FluentRef)
    (ag : Agent) (cag : CAgent) : Prop :=
  cag.name = ag.name ∧ cag.fluents = ag.fluents ∧
  (∀ ca ∈ cag.actions,
    (∀ o, ca.origin = some o → ∃ a ∈ ag.actions, a.name = o ∧ ca.act.params = a.params ∧
      ∃ bs, disjBodies simp dnfOf a.pre a.effs = some bs ∧ ∃ b ∈ bs,
        ca.act.pre = b.pre ∧ ca.act.effs = b.effs ++ fakes.map resetEffect) ∧
    (ca.origin = none → IsFake simp dnfOf goals fakes ca.strip)) ∧
  (∀ a ∈ ag.actions, ∃ bs, disjBodies simp dnfOf a.pre a.effs = some bs ∧ ∀ b ∈ bs,
    ∃ ca ∈ cag.actions, ca.origin = some a.name ∧ ca.act.pre = b.pre ∧
      ca.act.effs = b.effs ++ fakes.map resetEffect) ∧
  (∀ γ ∈ goals, GoalDone simp dnfOf γ { acts := cag.actions, env := [], goals := cgoals, fakes := fakes })

/-- MAP BACK, disjunctive conditions: same agents (same fluents); every compiled action either maps back
    to an action OF THE SAME AGENT and is one of its DNF-split bodies followed by the resets of all fake
    fluents, or maps back to nothing and is a fake action of a disjunctive shared goal; conversely every
    split body is there; and IN EVERY AGENT every shared goal is accounted for: a goal whose DNF is not
    a disjunction is a compiled goal (or TRUE), a disjunctive one has a fake fluent that is a compiled
    goal, is reset by every split action, and has one fake action per surviving disjunct. -/
theorem C37_map_back_disj (simp dnfOf : Expr → Expr) (P : MAProblem) (C : Compiled)
    (h : compileDisj simp dnfOf P = some C) :
    ∃ fakes, ListRel (DisjAgentSpec simp dnfOf P.goals C.goals fakes) P.agents C.agents := by
  unfold compileDisj at h
  simp only [Option.map_eq_some_iff] at h
  obtain ⟨r, hr, rfl⟩ := h
  obtain ⟨_, _, news, hn, hrel⟩ := disjAgents_spec simp dnfOf _ _ _ _ _ hr
  simp only [List.nil_append] at hn
  refine ⟨r.fakes, ?_⟩
  simp only
  rw [hn]
  clear hn hr
  generalize P.agents = ags0 at hrel
  induction hrel with
  | nil => exact .nil
  | @cons ag cag ags cags hab _ ih =>
    refine .cons ?_ ih
    obtain ⟨h1, h2, ⟨ps, fs, hps, hstrip, hfs⟩, hgoals⟩ := hab
    have hmapped : ∀ ca ∈ cag.actions, addResets r.fakes ca ∈ cag.actions.map (addResets r.fakes) :=
      fun ca hca => List.mem_map.2 ⟨ca, hca, rfl⟩
    refine ⟨h1, h2, ?_, ?_, ?_⟩
    · intro ca' hca'
      obtain ⟨ca, hca, rfl⟩ := List.mem_map.1 hca'
      have hm : ca.strip ∈ ps.map Proto.strip ++ fs := by rw [← hstrip]; exact List.mem_map.2 ⟨ca, hca, rfl⟩
      constructor
      · intro o ho
        have hoo : ca.origin = some o := by
          unfold addResets at ho
          cases hc : ca.origin with
          | none => rw [hc] at ho; simp [hc] at ho
          | some o' => rw [hc] at ho; simpa using ho
        rcases List.mem_append.1 hm with hm | hm
        · obtain ⟨p, hp, hpe⟩ := List.mem_map.1 hm
          simp only [Proto.strip, CAction.strip, Prod.mk.injEq] at hpe
          obtain ⟨a, ha, hpo, hpp, bs, hbs, hb⟩ := disjProtos_origin simp dnfOf _ _ hps p hp
          refine ⟨a, ha, ?_, ?_, bs, hbs, p.body, hb, ?_, ?_⟩
          · rw [hpo, hoo] at hpe; exact (Option.some.inj hpe.1)
          · unfold addResets; rw [hoo]; simp only; rw [← hpe.2.1, hpp]
          · unfold addResets; rw [hoo]; exact hpe.2.2.1.symm
          · unfold addResets; rw [hoo]; simp only; rw [hpe.2.2.2]
        · have := (hfs _ hm).1
          simp only [CAction.strip] at this
          rw [hoo] at this; cases this
      · intro hnone
        have hno : ca.origin = none := by
          unfold addResets at hnone
          cases hc : ca.origin with
          | none => rfl
          | some o' => rw [hc] at hnone; simp at hnone
        have he : addResets r.fakes ca = ca := by unfold addResets; rw [hno]
        rw [he]
        rcases List.mem_append.1 hm with hm | hm
        · obtain ⟨p, hp, hpe⟩ := List.mem_map.1 hm
          simp only [Proto.strip, CAction.strip, Prod.mk.injEq] at hpe
          obtain ⟨a, _, hpo, _⟩ := disjProtos_origin simp dnfOf _ _ hps p hp
          rw [hpo, hno] at hpe; cases hpe.1
        · exact hfs _ hm
    · intro a ha
      obtain ⟨bs, hbs, hall⟩ := disjProtos_complete simp dnfOf _ _ hps a ha
      refine ⟨bs, hbs, fun b hb => ?_⟩
      obtain ⟨p, hp, hpo, _, hpb⟩ := hall b hb
      have hm : p.strip ∈ cag.actions.map CAction.strip := by
        rw [hstrip]; exact List.mem_append_left _ (List.mem_map.2 ⟨p, hp, rfl⟩)
      obtain ⟨ca, hca, hce⟩ := List.mem_map.1 hm
      simp only [Proto.strip, CAction.strip, Prod.mk.injEq] at hce
      refine ⟨addResets r.fakes ca, hmapped ca hca, ?_, ?_, ?_⟩
      · unfold addResets; rw [hce.1, hpo]
      · unfold addResets; rw [hce.1, hpo]; simp only; rw [hce.2.2.1, hpb]
      · unfold addResets; rw [hce.1, hpo]; simp only; rw [hce.2.2.2, hpb]
    · intro γ hγ
      obtain ⟨g1, g2⟩ := hgoals γ hγ
      refine ⟨g1, fun ho => ?_⟩
      obtain ⟨n, hn1, hn2, bodies, hc, hall⟩ := g2 ho
      refine ⟨n, hn1, hn2, bodies, hc, fun b hb => ?_⟩
      obtain ⟨ca, hca, hco, hx⟩ := hall b hb
      have he : addResets r.fakes ca = ca := by unfold addResets; rw [hco]
      exact ⟨ca, by simp only; rw [← he]; exact hmapped ca hca, hco, hx⟩

/-! ## known findings: the unrestricted clauses, refuted on concrete witnesses -/

section witnesses
/-! agent `a1` declares `p q : bool`, `x : int[0,2]`; the global state gives values to `a1.p`, `a1.q`, `a1.x` -/
def fp : FluentRef := ⟨"p", .bool, []⟩
def fq : FluentRef := ⟨"q", .bool, []⟩
def fx : FluentRef := ⟨"x", .int (some 0) (some 2), []⟩
def ep : Expr := mkFluent fp []
def eQ : Expr := mkFluent fq []
def ex : Expr := mkFluent fx []
def V1 : View := { agent := "a1", own := [fp, fq, fx] }
def kx : GKey := (qual "a1" fx, [])
def gOf (p q : Bool) (x : Int) : GState := fun k =>
  if k = (qual "a1" fp, []) then some (.b p)
  else if k = (qual "a1" fq, []) then some (.b q)
  else if k = kx then some (.n x) else none
def eff (f v c : Expr) (k : EffKind) : Effect := { fluent := f, value := v, cond := c, kind := k, forall_ := [] }

/-- `act`: `q := true if p` — no unconditional effect (D-C37-effectless-variant) -/
def aNoop : Action := { name := "act", params := [], pre := [], effs := [eff eQ tt ep .assign] }
/-- `act`: `x := 1`, `x := 2 if p` — statically conflicting, the values never coincide (the witness of the
    former finding D-C37-conflicting-variant) -/
def aConf : Action := { name := "act", params := [], pre := [], effs := [eff ex (int 1) tt .assign, eff ex (int 2) ep .assign] }
/-- `act`: `x := 1`, `x := x if p` — statically conflicting, the values coincide where `x = 1`
    (D-C37-coinciding-values) -/
def aCoin : Action := { name := "act", params := [], pre := [], effs := [eff ex (int 1) tt .assign, eff ex ex ep .assign] }
/-- `x += 1 if (p or q)` — a conditional increase under a disjunction (D-C37-overlapping-disjuncts) -/
def eOverlap : Effect := eff ex (int 1) (.app .or [ep, eQ]) .increase
/-- `q := true if FALSE` — an effect that vanishes (D-C37-effectless-variant) -/
def eVanish : Effect := eff eQ tt ff .assign

/-- the completeness clause of `C37_cond` WITHOUT the "or the original changes nothing" alternative and
    WITHOUT the proviso `coincide V g a = false` -/
def C37_cond_full : Prop :=
  ∀ (simp : Expr → Expr) (V : View) (g : GState) (a : Action),
    SimpSound V g simp → AllDefined V g a.pre → (∀ e ∈ a.effs, EffDefined V g e) →
    (condVariant simp a (selIdx V g (enumFrom 0 (condEffects a))) = some none →
      successor V g a.pre a.effs = none)

/-- … and WITH the alternative but still without the proviso -/
def C37_cond_full_up_to_noop : Prop :=
  ∀ (simp : Expr → Expr) (V : View) (g : GState) (a : Action),
    SimpSound V g simp → AllDefined V g a.pre → (∀ e ∈ a.effs, EffDefined V g e) →
    (condVariant simp a (selIdx V g (enumFrom 0 (condEffects a))) = some none →
      successor V g a.pre a.effs = none ∨ (uncondEffects a = [] ∧ successor V g a.pre a.effs = some g))

/-- D-C37-effectless-variant: in a state where `p` is false the only variant of `q := true if p` has no
    effect and is dropped, but the original is applicable (and changes nothing) -/
theorem C37_cond_noop_witness :
    condVariant id aNoop (selIdx V1 (gOf false false 0) (enumFrom 0 (condEffects aNoop))) = some none ∧
    (successor V1 (gOf false false 0) aNoop.pre aNoop.effs).isSome = true := by
  constructor <;> decide +kernel

/-- REGRESSION EXAMPLE of the repair d88a7f6 (the witness of the former finding D-C37-conflicting-variant):
    in a state where `p` is true the variant selected for `x := 1; x := 2 if p` is DROPPED — before the
    repair it was kept with the effect `x := 1` only and was applicable — and the original is not
    applicable either; the compiler yields the single variant `not p → x := 1` -/
theorem C37_cond_conflict_dropped :
    condVariant id aConf (selIdx V1 (gOf true false 0) (enumFrom 0 (condEffects aConf))) = some none ∧
    successor V1 (gOf true false 0) aConf.pre aConf.effs = none ∧
    condBodies id aConf = some [⟨[mkNot ep], [eff ex (int 1) tt .assign]⟩] := by
  refine ⟨?_, ?_, ?_⟩ <;> decide +kernel

/-- D-C37-coinciding-values: in the state `p, x = 1` the variant selected for `x := 1; x := x if p` is dropped
    (the value expressions `1` and `x` differ) although the original is applicable there (both assign 1)
    and has an unconditional effect -/
theorem C37_cond_coincide_witness :
    condVariant id aCoin (selIdx V1 (gOf true false 1) (enumFrom 0 (condEffects aCoin))) = some none ∧
    (successor V1 (gOf true false 1) aCoin.pre aCoin.effs).isSome = true ∧
    uncondEffects aCoin ≠ [] ∧ coincide V1 (gOf true false 1) aCoin = true := by
  refine ⟨?_, ?_, ?_, ?_⟩ <;> decide +kernel

theorem C37_cond_full_refuted : ¬ C37_cond_full := by
  intro h
  have hE : ∀ e ∈ aNoop.effs, EffDefined V1 (gOf false false 0) e := by
    intro e he
    have : e = eff eQ tt ep .assign := by simpa [aNoop] using he
    subst this
    exact ⟨⟨.setB (qual "a1" fq, []) true, by decide +kernel⟩, ⟨false, by decide +kernel⟩⟩
  have := h id V1 (gOf false false 0) aNoop (simpSound_id _ _) (by intro e he; cases he) hE
    C37_cond_noop_witness.1
  have h2 := C37_cond_noop_witness.2
  rw [this] at h2
  cases h2

theorem C37_cond_full_up_to_noop_refuted : ¬ C37_cond_full_up_to_noop := by
  intro h
  have hE : ∀ e ∈ aCoin.effs, EffDefined V1 (gOf true false 1) e := by
    intro e he
    simp only [aCoin, List.mem_cons, List.not_mem_nil, or_false] at he
    rcases he with rfl | rfl
    · exact ⟨⟨.setV kx (.n 1), by decide +kernel⟩, ⟨true, by decide +kernel⟩⟩
    · exact ⟨⟨.setV kx (.n 1), by decide +kernel⟩, ⟨true, by decide +kernel⟩⟩
  have h2 := C37_cond_coincide_witness.2.1
  rcases h id V1 (gOf true false 1) aCoin (simpSound_id _ _) (by intro e he; cases he) hE
    C37_cond_coincide_witness.1 with h1 | ⟨h1, _⟩
  · rw [h1] at h2; cases h2
  · exact C37_cond_coincide_witness.2.2.1 h1

/-- `C37_disj` WITHOUT `NoIncDecSplit` and WITHOUT the "or nothing changes" alternative -/
def C37_disj_full : Prop :=
  ∀ (simp dnfOf : Expr → Expr) (V : View) (g : GState) (pre : List Expr) (effs : List Effect) (bodies : List Body),
    SimpSound V g simp → DnfSound V g dnfOf → AllDefined V g pre → (∀ e ∈ effs, EffDefined V g e) →
    disjBodies simp dnfOf pre effs = some bodies →
    (∀ b ∈ bodies, ∀ s', successor V g b.pre b.effs = some s' → successor V g pre effs = some s') ∧
    (∀ s', successor V g pre effs = some s' → ∃ b ∈ bodies, successor V g b.pre b.effs = some s')

/-- D-C37-overlapping-disjuncts: `x += 1 if (p or q)` is split into two effects; where both `p` and `q` hold the
    split action reaches `x = 2`, the original `x = 1` -/
theorem C37_disj_overlap_witness :
    disjBodies id (dnf id) [] [eOverlap] =
      some [⟨[], [eff ex (int 1) ep .increase, eff ex (int 1) eQ .increase]⟩] ∧
    (successor V1 (gOf true true 0) [] [eff ex (int 1) ep .increase, eff ex (int 1) eQ .increase]).map (· kx)
      = some (some (.n 2)) ∧
    (successor V1 (gOf true true 0) [] [eOverlap]).map (· kx) = some (some (.n 1)) := by
  refine ⟨?_, ?_, ?_⟩ <;> decide +kernel

/-- D-C37-effectless-variant: an action all of whose effects vanish is dropped although it is applicable -/
theorem C37_disj_noop_witness :
    disjBodies id (dnf id) [] [eVanish] = some [] ∧
    (successor V1 (gOf false false 0) [] [eVanish]).isSome = true := by
  constructor <;> decide +kernel

theorem C37_disj_full_refuted : ¬ C37_disj_full := by
  intro h
  have hE : ∀ e ∈ [eVanish], EffDefined V1 (gOf false false 0) e := by
    intro e he
    have : e = eVanish := by simpa using he
    subst this
    exact ⟨⟨.setB (qual "a1" fq, []) true, by decide +kernel⟩, ⟨false, by decide +kernel⟩⟩
  have := (h id (dnf id) V1 (gOf false false 0) [] [eVanish] [] (simpSound_id _ _)
    (dnfSound_dnf (simpSound_id _ _)) (by intro e he; cases he) hE C37_disj_noop_witness.1).2
  have h2 := C37_disj_noop_witness.2
  cases hs : successor V1 (gOf false false 0) [] [eVanish] with
  | none => rw [hs] at h2; cases h2
  | some s' =>
    obtain ⟨b, hb, _⟩ := this s' hs
    cases hb

end witnesses

/-! ## non-vacuity: the hypotheses of the theorems on concrete, non-trivial inputs -/

section examples
/-- `act`: pre `q or p`; effects `x := 1`, `q := true if p`, `p := false if (q or p)` -/
def aGood : Action :=
  { name := "act", params := [], pre := [Expr.app Op.or [eQ, ep]],
    effs := [eff ex (int 1) tt .assign, eff eQ tt ep .assign, eff ep ff (.app .or [eQ, ep]) .assign] }

/-- the hypotheses of `C37_cond` / `C37_disj` hold for `aGood` in the state `p, not q, x = 0` -/
example : AllDefined V1 (gOf true false 0) aGood.pre := by
  intro e he
  have : e = .app .or [eQ, ep] := by simpa [aGood] using he
  subst this
  exact ⟨true, by decide +kernel⟩

example : ∀ e ∈ aGood.effs, EffDefined V1 (gOf true false 0) e := by
  intro e he
  simp only [aGood, List.mem_cons, List.not_mem_nil, or_false] at he
  rcases he with rfl | rfl | rfl
  · exact ⟨⟨.setV kx (.n 1), by decide +kernel⟩, ⟨true, by decide +kernel⟩⟩
  · exact ⟨⟨.setB (qual "a1" fq, []) true, by decide +kernel⟩, ⟨true, by decide +kernel⟩⟩
  · exact ⟨⟨.setB (qual "a1" fp, []) false, by decide +kernel⟩, ⟨true, by decide +kernel⟩⟩

/-- both conditional effects are selected in that state, they pass the static check, and the compiler
    yields four variants -/
example : selIdx V1 (gOf true false 0) (enumFrom 0 (condEffects aGood)) = [0, 1] := by decide +kernel
example : NoStaticConflict aGood [0, 1] := by decide +kernel
example : Accepted aGood := by decide +kernel
example : coincide V1 (gOf true false 0) aGood = false := by decide +kernel
example : (condBodies id aGood).map List.length = some 4 := by decide +kernel
/-- the proviso of clause (4) also holds where a variant IS dropped for a static conflict: `aConf` in a state with `p` -/
example : coincide V1 (gOf true false 0) aConf = false ∧ ¬ NoStaticConflict aConf [0] := by
  constructor <;> decide +kernel
/-- … the selected variant has the original's successor, which exists -/
example : (successor V1 (gOf true false 0) aGood.pre aGood.effs).isSome = true := by decide +kernel

/-- `aGood` has no conditional increase: `NoIncDecSplit` holds whatever the walkers do -/
example (simp dnfOf : Expr → Expr) : NoIncDecSplit simp dnfOf aGood.effs := by
  intro e he _ hk
  simp only [aGood, List.mem_cons, List.not_mem_nil, or_false] at he
  rcases he with rfl | rfl | rfl <;> exact absurd rfl hk
/-- the DNF split of `aGood` yields two actions (`q`; `p`), each with the effect under `q or p` split in two -/
example : (disjBodies id (dnf id) aGood.pre aGood.effs).map (fun bs => bs.map (fun b => (b.pre, b.effs.length)))
    = some [([eQ], 4), ([ep], 4)] := by decide +kernel

/-- a whole problem: two agents, a disjunctive shared goal `a1.p or e`: the compiled problem has two fake
    fluents IN THE ENVIRONMENT, both are goals, every split action resets both -/
def pbA1 : Agent :=
  { name := "a1", fluents := [⟨fp, some ff, true⟩],
    actions := [{ name := "act", params := [], pre := [], effs := [eff ep tt tt .assign] }] }
def pbA2 : Agent := { name := "a2", fluents := [⟨fp, some ff, true⟩], actions := [] }
def pb : MAProblem :=
  { name := "pb", env := [{ ref := ⟨"e", .bool, []⟩, default := some ff }], agents := [pbA1, pbA2],
    goals := [.app .or [mkFluent (qual "a1" fp) [], mkFluent ⟨"e", .bool, []⟩ []]] }

example : (compileDisj id (dnf id) pb).map (fun C => C.env.map (·.ref.name)) =
    some ["e", "ma_dcrm_fake_goal", "ma_dcrm_fake_goal_0"] := by decide +kernel
example : (compileDisj id (dnf id) pb).map (·.goals) =
    some [fakeExp "ma_dcrm_fake_goal", fakeExp "ma_dcrm_fake_goal_0"] := by decide +kernel
example : (compileDisj id (dnf id) pb).map (fun C =>
      C.agents.map (fun a => a.actions.map (fun c => (c.act.name, c.origin, c.act.effs.length)))) =
    some [[("act", some "act", 3), ("ma_dcrm_fake_action", none, 1), ("ma_dcrm_fake_action_0", none, 1)],
          [("ma_dcrm_fake_action_1", none, 1), ("ma_dcrm_fake_action_2", none, 1)]] := by decide +kernel
end examples

end UPVerif.C37
