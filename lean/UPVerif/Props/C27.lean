import UPVerif.Lemmas.DeorderLin
import UPVerif.Lemmas.DeorderFoot
/-!
# C27 — Deordering a valid sequential plan keeps every linearisation valid

Statements only (helper lemmas: `Lemmas/DeorderGraph.lean` — the graph the bookkeeping builds, paths,
transitive reduction, topological orderings —, `Lemmas/DeorderEval.lean` — what an evaluation can
read —, `Lemmas/DeorderSem.lean` — the commutation lemma —, `Lemmas/DeorderLin.lean` — reorderings by
adjacent swaps and the assembly —, `Lemmas/DeorderFoot.lean` — targets are among the reads).

* `Deorder.*` (`Core/Deorder.lean`) is the executable model of `SequentialPlan._to_partial_order_plan`
  (repaired, see D-C27 below), `nx.transitive_reduction` and "all topological orderings"; the
  correspondence check ties it to /repo.  Plans are executed with C01's model of the simulator
  (`Sim.apply`, `Sim.isGoal`); graph nodes are the positions `0 … n-1` of the steps.
* Everything is proved for EVERY world (problem, simplifier, interpreted-function tables), every plan
  length and every plan: no size bound.

D-C27 (found on the unchanged tree, repaired by notes/patches/C27-deorder-state-invariants.patch): the
read set of a step ignored state invariants, so two steps writing different fluents of one invariant
were left unordered although swapping them can violate the invariant in between (`d_c27_witness`).
The model mirrors the repaired code.
-/
namespace UPVerif.C27
open UPVerif UPVerif.Sim UPVerif.Deorder

/-- the plan is executable step by step from `s0`, ends in `sf`, and `sf` satisfies the goals -/
def Valid (W : World) (s0 : SimState) (π : List (Action × List String)) (sf : SimState) : Prop :=
  run W s0 π = .ok (some sf) ∧ Sim.isGoal W sf = .ok true

/-! ## clause: independent steps commute -/

/-- Two grounded steps whose (covering) footprints do not overlap — neither writes a ground fluent the
    other reads or writes — commute in every state that satisfies the invariants: if `a` then `b` is
    executable so is `b` then `a` (and conversely), and both orders end in states that read the same
    on every ground fluent. -/
theorem independent_steps_commute (W : World) (a b : Action × List String) (ga gb : GAction)
    (ka kb : Footprint GKey)
    (hga : ground W a.1 a.2 = .ok (some ga)) (hgb : ground W b.1 b.2 = .ok (some gb))
    (ca : coversG W ga ka = true) (cb : coversG W gb kb = true)
    (hnn : ∀ inv ∈ invariants W, noNested inv = true)
    (dab : ∀ k ∈ ka.writes, k ∉ kb.reads) (dba : ∀ k ∈ kb.writes, k ∉ ka.reads)
    (s : SimState) (hs : Spec.invOK W (ctx W s) = true) :
    (∀ t, run W s [a, b] = .ok (some t) → ∃ t', run W s [b, a] = .ok (some t') ∧ t'.get W.P = t.get W.P) ∧
    (∀ t, run W s [b, a] = .ok (some t) → ∃ t', run W s [a, b] = .ok (some t') ∧ t'.get W.P = t.get W.P) := by
  obtain ⟨Sa, Ia⟩ := sound_of_coversG ca
  obtain ⟨Sb, Ib⟩ := sound_of_coversG cb
  have key : ∀ (x y : Action × List String) (gx gy : GAction) (kx ky : Footprint GKey),
      ground W x.1 x.2 = .ok (some gx) → ground W y.1 y.2 = .ok (some gy) →
      Sound W gx kx → Sound W gy ky → InvCov W ky →
      (∀ k ∈ kx.writes, k ∉ ky.reads) → (∀ k ∈ ky.writes, k ∉ kx.reads) →
      ∀ t, run W s [x, y] = .ok (some t) → ∃ t', run W s [y, x] = .ok (some t') ∧ t'.get W.P = t.get W.P := by
    intro x y gx gy kx ky hgx hgy Sx Sy Iy dxy dyx t ht
    have h1 := run_exec [x, y] s t ht
    simp only [execP, stepOf, hgx, hgy] at h1
    cases h2 : succF W gx (s.get W.P) with
    | none => rw [h2] at h1; cases h1
    | some s1 =>
      rw [h2] at h1
      simp only [Option.bind_some] at h1
      cases h3 : succF W gy s1 with
      | none => rw [h3] at h1; cases h1
      | some s2 =>
        rw [h3] at h1
        simp only [Option.bind_some, Option.some.injEq] at h1
        obtain ⟨s1', h4, h5⟩ := commute_one Sx Sy Iy hnn dxy dyx hs h2 h3
        apply exec_run [y, x] s
        simp only [execP, stepOf, hgx, hgy, h4, Option.bind_some, h5, h1]
  exact ⟨key a b ga gb ka kb hga hgb Sa Sb Ib dab dba, key b a gb ga kb ka hgb hga Sb Sa Ia dba dab⟩

/-! ## clause: the partial order keeps the order of conflicting steps -/

/-- Whenever step `i` comes before step `j` in the plan and one of them writes a ground fluent that
    the other reads or writes, every topological ordering of the graph handed to `PartialOrderPlan`
    (after `nx.transitive_reduction`) — i.e. every plan of `all_sequential_plans()` — keeps `i`
    before `j`.  (`hsub`: every written fluent is among the step's reads, as in the code, where the
    target of each effect is added to `required_fluents`.) -/
theorem C27_keeps_conflicting_order (fps : List (Footprint Expr))
    (hsub : ∀ fp ∈ fps, ∀ k ∈ fp.writes, k ∈ fp.reads)
    (i j : Nat) (A B : Footprint Expr) (hij : i < j) (hi : fps[i]? = some A) (hj : fps[j]? = some B)
    (hc : Conflict A B) (l : List Nat) (hl : IsLin fps.length (reduce (rawEdges fps)) l) :
    l.idxOf i < l.idxOf j := by
  have r := conflict_reach fps hsub hij hi hj hc
  have hlt : ∀ e ∈ rawEdges fps, e.1 < e.2 := fun e he => ((rawEdges_facts fps).lt e he).1
  exact hl.before_of_reach (r.mono (reduce_reach _ hlt))

/-- The same clause for the footprints the model COMPUTES from the problem syntax (`footprints W π`,
    the function the correspondence check compares with `_to_partial_order_plan`): no side condition
    besides the shape of effect targets — their arguments are objects, parameters or variables
    (`simpleTargets`, decidable; the conversion raises `UPUsageError` on fluents inside them anyway). -/
theorem C27_keeps_conflicting_order_computed (W : World) (π : List (Action × List String))
    (fps : List (Footprint Expr)) (hfp : footprints W π = .ok fps)
    (hst : ∀ st ∈ π, simpleTargets W.P st.1 = true)
    (i j : Nat) (A B : Footprint Expr) (hij : i < j) (hi : fps[i]? = some A) (hj : fps[j]? = some B)
    (hc : Conflict A B) (l : List Nat) (hl : IsLin fps.length (reduce (rawEdges fps)) l) :
    l.idxOf i < l.idxOf j :=
  C27_keeps_conflicting_order fps (footprints_wsub hfp hst) i j A B hij hi hj hc l hl

/-- … and the graph orders nothing else: every edge (before or after the reduction) joins two steps
    `i < j` of the plan one of which writes a ground fluent that the other reads -/
theorem C27_edges_are_conflicts (fps : List (Footprint Expr)) (e : Nat × Nat)
    (he : e ∈ rawEdges fps ∨ e ∈ reduce (rawEdges fps)) :
    e.1 < e.2 ∧ ∃ A B, fps[e.1]? = some A ∧ fps[e.2]? = some B ∧ Conflict A B := by
  have he' : e ∈ rawEdges fps := he.elim id (reduce_sub _ e)
  have F := rawEdges_facts fps
  refine ⟨(F.lt e he').1, ?_⟩
  obtain ⟨k, ⟨⟨A, hA, hAk⟩, ⟨B, hB, hBk⟩⟩ | ⟨⟨A, hA, hAk⟩, ⟨B, hB, hBk⟩⟩⟩ := F.only e he'
  · exact ⟨A, B, hA, hB, k, .inl ⟨hAk, .inl hBk⟩⟩
  · exact ⟨A, B, hA, hB, k, .inr ⟨hBk, .inl hAk⟩⟩

/-! ## clause: every linearisation is valid and reaches the same final state -/

/-- THE FULL STATEMENT (refuted below by a kernel-checked witness): for every world, every plan valid from the initial state and every topological
    ordering `l` of the graph `_to_partial_order_plan` returns, the plan taken in the order `l` is
    valid and its final state reads like the original one on every ground fluent. -/
def C27_all_linearisations_full : Prop :=
  ∀ (W : World) (π : List (Action × List String)) (fps : List (Footprint Expr)) (s0 sf : SimState) (l : List Nat),
    getInitialState W = .ok (some s0) → footprints W π = .ok fps → Valid W s0 π sf →
    IsLin π.length (reduce (rawEdges fps)) l →
    ∃ sf', Valid W s0 (reorder π l) sf' ∧ sf'.get W.P = sf.get W.P

/-! The full statement is FALSE as it stands (known finding D-C27-objectless-quantifier, which is
C11's open finding D-C11e seen through the grounder): the grounder's simplifier unwraps a quantifier
whose variable does not occur in its body, whereas the quantifier remover used by the deordering
expands it over the object set — over a user type WITHOUT objects `Exists v. q` is false for the
remover and `q` for the grounded action, so the grounded action reads a fluent the deordering never
sees.  Kernel-checked witness: type `E` without objects, fluents `q r : bool = false`, actions
`a: r := true if Exists v:E. q`, `b: q := true`, goal `!r`, plan `[a, b]`; the simplifier of the
witness world performs exactly that unwrapping step. -/
section refutation
/-- one step of `Simplifier.walk_exists / walk_forall`: a quantifier none of whose variables occurs
    free in its body is replaced by the body -/
def unwrapVacuous : Expr → Expr
  | .quant q vs b => if (Expr.freeVars b).all (fun v => !vs.contains v) then b else .quant q vs b
  | e => e
def fq : FluentRef := ⟨"q", .bool, []⟩
def fr : FluentRef := ⟨"r", .bool, []⟩
def eq' : Expr := .app (.fluent fq) []
def er : Expr := .app (.fluent fr) []
def actA : Action := { name := "a", params := [], pre := [], effs := [
  { fluent := er, value := Expr.tt, cond := .quant .ex [⟨"v", .user "E"⟩] eq', kind := .assign, forall_ := [] }] }
def actB : Action := { name := "b", params := [], pre := [], effs := [
  { fluent := eq', value := Expr.tt, cond := Expr.tt, kind := .assign, forall_ := [] }] }
def PE : Problem where
  name := "objectless"
  types := ⟨[("E", none)]⟩
  objects := []
  fluents := [⟨fq, some Expr.ff⟩, ⟨fr, some Expr.ff⟩]
  init := []
  actions := [actA, actB]
  goals := [Expr.mkNot er]
  traj := []
  metrics := []
def WE : World := { P := PE, simp := unwrapVacuous, fn := fun _ _ => none }
def sE : SimState := ⟨[]⟩
def planE : List (Action × List String) := [(actA, []), (actB, [])]
def fpsE : List (Footprint Expr) := match footprints WE planE with | .ok f => f | .error _ => []
def sfE : SimState := match run WE sE planE with | .ok (some s) => s | _ => default
def sfE' : SimState := match run WE sE (reorder planE [1, 0]) with | .ok (some s) => s | _ => default

theorem C27_all_linearisations_full_refuted : ¬ C27_all_linearisations_full := by
  intro h
  obtain ⟨sf', ⟨hrun, _⟩, hget⟩ := h WE planE fpsE sE sfE [1, 0] (by decide +kernel) (by decide +kernel)
    (by unfold Valid; decide +kernel) ((isLin_iff _ _ _).1 (by decide +kernel))
  have hr : run WE sE (reorder planE [1, 0]) = .ok (some sfE') := by decide +kernel
  rw [hr] at hrun
  cases hrun
  have h1 := congrFun hget (fr, [])
  have h2 : sfE'.get WE.P (fr, []) ≠ sfE.get WE.P (fr, []) := by decide +kernel
  exact h2 h1

/-- on the witness the decidable hypothesis of the partial theorem is false, as it must be -/
example : covers WE planE fpsE = false := by decide +kernel
end refutation

/-- PROVED PART: the full statement under the DECIDABLE hypothesis `covers W π fps` — the footprints
    computed on the lifted actions (`fps`) cover everything the grounded, simplified actions and the
    simulator's invariants can read or write (`Core/Deorder.lean`; the model driver evaluates it on
    every case of the correspondence check, where it must be true).
    `covers` excludes exactly the cause of the refutation above (a read of the grounded action that the
    footprint misses).  NOT PROVED: that `covers` follows from `footprints W π = .ok fps` whenever every
    quantified type has an object and the simplifier only removes fluent occurrences — a syntactic lemma
    about quantifier removal + parameter substitution + simplification; the simplifier is a parameter
    here (property C11 owns its model). -/
theorem C27_all_linearisations_partial
    (W : World) (π : List (Action × List String)) (fps : List (Footprint Expr)) (s0 sf : SimState) (l : List Nat)
    (hinit : getInitialState W = .ok (some s0)) (_hfp : footprints W π = .ok fps)
    (hcov : covers W π fps = true) (hvalid : Valid W s0 π sf)
    (hl : IsLin π.length (reduce (rawEdges fps)) l) :
    ∃ sf', Valid W s0 (reorder π l) sf' ∧ sf'.get W.P = sf.get W.P := by
  have hlt : ∀ e ∈ rawEdges fps, e.1 < e.2 := fun e he => ((rawEdges_facts fps).lt e he).1
  obtain ⟨sf', h1, h2⟩ := all_linearisations hcov (reduce_reach _ hlt) hl (getInitialState_invOK hinit) hvalid.1
  refine ⟨sf', ⟨h1, ?_⟩, h2⟩
  have : ctx W sf' = ctx W sf := by unfold ctx; rw [h2]
  have hg : Sim.isGoal W sf' = Sim.isGoal W sf := by
    unfold Sim.isGoal unsatisfiedGoals; rw [this]
  rw [hg]; exact hvalid.2

/-- the same for the graph BEFORE the transitive reduction, and in fact for every graph that contains
    each of its edges as a path (the statement does not depend on how networkx reduces the graph) -/
theorem C27_all_linearisations_any_graph
    (W : World) (π : List (Action × List String)) (fps : List (Footprint Expr)) (s0 sf : SimState) (l : List Nat)
    (E' : List (Nat × Nat)) (hE : ∀ e ∈ rawEdges fps, Reach E' e.1 e.2)
    (hinit : Spec.invOK W (ctx W s0) = true) (hcov : covers W π fps = true)
    (hrun : run W s0 π = .ok (some sf)) (hl : IsLin π.length E' l) :
    ∃ sf', run W s0 (reorder π l) = .ok (some sf') ∧ sf'.get W.P = sf.get W.P :=
  all_linearisations hcov hE hl hinit hrun

/-- `nx.transitive_reduction` as modelled keeps every edge as a path and adds none -/
theorem reduction_preserves_reachability (E : List (Nat × Nat)) (hE : ∀ e ∈ E, e.1 < e.2) :
    (∀ e ∈ E, Reach (reduce E) e.1 e.2) ∧ (∀ e ∈ reduce E, e ∈ E) :=
  ⟨reduce_reach E hE, reduce_sub E⟩

section examples
/-! ## non-vacuity: the D-C27 situation plus an unrelated step

fluents `x : int[0,10] = 0`, `y : int[0,10] = 3`, `b : bool = false`; state invariant `x + y <= 5`;
goal `x = 3`; actions `a1: y -= 3`, `a2: x += 3`, `a3: b := true`; plan `[a1, a2, a3]`. -/
def fx : FluentRef := ⟨"x", .int (some 0) (some 10), []⟩
def fy : FluentRef := ⟨"y", .int (some 0) (some 10), []⟩
def fb : FluentRef := ⟨"b", .bool, []⟩
def ex : Expr := .app (.fluent fx) []
def ey : Expr := .app (.fluent fy) []
def eb : Expr := .app (.fluent fb) []
def eff (f v : Expr) (k : EffKind) : Effect := { fluent := f, value := v, cond := Expr.tt, kind := k, forall_ := [] }
def a1 : Action := { name := "a1", params := [], pre := [], effs := [eff ey (Expr.int 3) .decrease] }
def a2 : Action := { name := "a2", params := [], pre := [], effs := [eff ex (Expr.int 3) .increase] }
def a3 : Action := { name := "a3", params := [], pre := [Expr.mkLE ex (Expr.int 9)], effs := [eff eb Expr.tt .assign] }
def P0 : Problem where
  name := "d-c27"
  types := ⟨[]⟩
  objects := []
  fluents := [⟨fx, some (Expr.int 0)⟩, ⟨fy, some (Expr.int 3)⟩, ⟨fb, some Expr.ff⟩]
  init := []
  actions := [a1, a2, a3]
  goals := [Expr.mkEq ex (Expr.int 3)]
  traj := [.app .always [Expr.mkLE (Expr.mkPlus [ex, ey]) (Expr.int 5)]]
  metrics := []
def W0 : World := { P := P0, simp := id, fn := fun _ _ => none }
def s0 : SimState := ⟨[]⟩
def plan0 : List (Action × List String) := [(a1, []), (a2, []), (a3, [])]
def fps0 : List (Footprint Expr) := match footprints W0 plan0 with | .ok f => f | .error _ => []
def okFinal (r : Except EvalErr (Option SimState)) : Option (List (Option Val)) :=
  match r with
  | .ok (some s) => some ([(fx, []), (fy, []), (fb, [])].map (s.get P0))
  | _ => none

/-- the graph: `a1 → a2` (coupled by the invariant), `a2 → a3` (`a3` reads `x`); `a1 → a3` is not an edge -/
example : footprints W0 plan0 = .ok fps0 ∧ (rawEdges fps0).eraseDups = [(1, 2), (0, 1)] := by decide +kernel

/-- the hypotheses of `C27_all_linearisations_partial` are met: initial state accepted, footprints
    computed, `covers` true, plan valid — -/
example : getInitialState W0 = .ok (some s0) ∧ covers W0 plan0 fps0 = true ∧
    okFinal (run W0 s0 plan0) = some [some (.n 3), some (.n 0), some (.b true)] := by decide +kernel

/-- — and a second plan with a genuinely different linearisation: `[a1, a3, a2]` over the plan
    `[a1, a3', a2]` where `a3'` has no precondition -/
def a3' : Action := { name := "a3", params := [], pre := [], effs := [eff eb Expr.tt .assign] }
def W1 : World := { P := { P0 with actions := [a1, a2, a3'] }, simp := id, fn := fun _ _ => none }
def plan1 : List (Action × List String) := [(a1, []), (a2, []), (a3', [])]
def fps1 : List (Footprint Expr) := match footprints W1 plan1 with | .ok f => f | .error _ => []
example : getInitialState W1 = .ok (some s0) ∧ footprints W1 plan1 = .ok fps1 ∧ covers W1 plan1 fps1 = true ∧
    (rawEdges fps1).eraseDups = [(0, 1)] ∧
    isLin 3 (reduce (rawEdges fps1)) [2, 0, 1] = true ∧ isLin 3 (reduce (rawEdges fps1)) [0, 2, 1] = true ∧
    isLin 3 (reduce (rawEdges fps1)) [1, 0, 2] = false ∧
    okFinal (run W1 s0 plan1) = some [some (.n 3), some (.n 0), some (.b true)] ∧
    okFinal (run W1 s0 (reorder plan1 [2, 0, 1])) = some [some (.n 3), some (.n 0), some (.b true)] := by
  decide +kernel

/-- D-C27 witness: the order the unrepaired code admitted (`a2` before `a1`) is NOT executable — the
    invariant `x + y <= 5` fails after `a2` —, and the repaired model orders `a1` before `a2` although
    they write different fluents -/
theorem d_c27_witness : run W1 s0 [(a2, []), (a1, [])] = .ok none ∧
    okFinal (run W1 s0 [(a1, []), (a2, [])]) = some [some (.n 3), some (.n 0), some (.b false)] ∧
    (0, 1) ∈ rawEdges fps1 := by decide +kernel

/-- the hypotheses of `independent_steps_commute` are met by `a1` and `a3'` in the initial state -/
def g1 : GAction := match ground W1 a1 [] with | .ok (some g) => g | _ => default
def g3 : GAction := match ground W1 a3' [] with | .ok (some g) => g | _ => default
def k1 : Footprint GKey := { reads := [(fy, []), (fx, [])], writes := [(fy, [])] }
def k3 : Footprint GKey := { reads := [(fb, [])], writes := [(fb, [])] }
example : ground W1 a1 [] = .ok (some g1) ∧ ground W1 a3' [] = .ok (some g3) ∧
    coversG W1 g1 k1 = true ∧ coversG W1 g3 k3 = true ∧ (invariants W1).all noNested = true ∧
    Spec.invOK W1 (ctx W1 s0) = true ∧
    okFinal (run W1 s0 [(a1, []), (a3', [])]) = some [some (.n 0), some (.n 0), some (.b true)] ∧
    okFinal (run W1 s0 [(a3', []), (a1, [])]) = some [some (.n 0), some (.n 0), some (.b true)] := by
  decide +kernel

/-- the hypotheses of `C27_keeps_conflicting_order(_computed)` are met by steps 0 and 1 of `plan1` -/
example : ∀ st ∈ plan1, simpleTargets W1.P st.1 = true := by decide +kernel

example : (∀ fp ∈ fps1, ∀ k ∈ fp.writes, k ∈ fp.reads) ∧ (∃ A B, fps1[0]? = some A ∧ fps1[1]? = some B ∧
    ey ∈ A.writes ∧ ey ∈ B.reads) := by
  refine ⟨by decide +kernel, (fps1[0]?).getD ⟨[], []⟩, (fps1[1]?).getD ⟨[], []⟩, by decide +kernel⟩
end examples

end UPVerif.C27
