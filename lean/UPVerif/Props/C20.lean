import UPVerif.Lemmas.ProtoLemmas
/-!
# C20 — Protobuf round trip is lossless

Statements only (helper lemmas live in `Lemmas/ProtoLemmas.lean`).  `enc…` is the executable
mirror of `proto_writer.py`, `dec…` of the (repaired) `proto_reader.py`
(`Core/Proto.lean`); `enc… x = some m` reads "the writer accepts `x` and produces `m`", so every
theorem below has the shape of the property: *for every object the writer accepts, reading the
written message back yields the original*.  The model is tied to the code by the correspondence
check (real writer's message and real reader's result vs the model's, field by field).

The side conditions are decidable predicates defined in `Core/Proto.lean` §7.  They say that the
object belongs to the problem the reader is given (symbols and types declared there) and — the
only genuine restriction — that no name is the empty string, which the wire format uses for
"absent" (`*_full_fails` below are kernel-checked refutations of the unrestricted statements:
finding D-C20d).

Outside the model (covered by the property oracle on the real code only): quality metrics,
trajectory constraints, plans, hierarchical and scheduling problems, engine results.
-/
namespace UPVerif.C20
open UPVerif UPVerif.Proto

/-! ### numerals: integers and rationals of any size -/

/-- `int(str(z)) = z` for every integer -/
theorem int_numeral_roundtrip (z : Int) : parseInt (intStr z) = some z := parseInt_intStr z

/-- `Fraction(str(q)) = q` for every rational -/
theorem rat_numeral_roundtrip (r : Rat) : parseRat (ratStr r) = some r := parseRat_ratStr r

/-! ### type strings -/

/-- every type the writer accepts is read back as itself by a problem that declares it -/
theorem type_roundtrip (types : TypeNames) (t : Ty) (s : String)
    (hd : tyDeclared types t = true) (he : encTy t = some s) : decTy types s = some t :=
  decTy_enc types t s hd he

/-- integer types with ANY combination of finite / infinite bounds are accepted and survive -/
theorem int_type_roundtrip (types : TypeNames) (lb ub : Option Int) :
    ∃ s, encTy (.int lb ub) = some s ∧ decTy types s = some (.int lb ub) := by
  cases h : encTy (.int lb ub) with
  | none => cases lb <;> cases ub <;> simp [encTy, encTyChars] at h
  | some s => exact ⟨s, rfl, decTy_enc types _ s rfl h⟩

/-- real types with ANY combination of finite / infinite rational bounds are accepted and survive
    (the unrepaired reader failed on every half-bounded real type: D-C20a) -/
theorem real_type_roundtrip (types : TypeNames) (lb ub : Option Rat) :
    ∃ s, encTy (.real lb ub) = some s ∧ decTy types s = some (.real lb ub) := by
  cases h : encTy (.real lb ub) with
  | none => cases lb <;> cases ub <;> simp [encTy, encTyChars] at h
  | some s => exact ⟨s, rfl, decTy_enc types _ s rfl h⟩

/-- the writer accepts a user type exactly when its name is outside the `up:` namespace of the
    builtin encodings (the repaired writer refuses the others instead of writing a string the
    reader takes for a builtin type: D-C20b) -/
theorem user_type_accepted_iff (n : String) : (encTy (.user n)).isSome = !reserved n := by
  cases h : reserved n <;> simp [encTy, encTyChars, h]

/-- a declared user type whose name merely CONTAINS a builtin encoding is read back as itself -/
theorem user_type_roundtrip (types : TypeNames) (n : String) (hr : reserved n = false)
    (hn : types.contains n = true) : ∃ s, encTy (.user n) = some s ∧ decTy types s = some (.user n) := by
  cases h : encTy (.user n) with
  | none => simp [encTy, encTyChars, hr] at h
  | some s => exact ⟨s, rfl, decTy_enc types _ s (by simpa [tyDeclared] using hn) h⟩

example : reserved "a up:real[1, 2] b" = false ∧ reserved "xup:integer[3" = false ∧ reserved "up:bool" = true := by
  decide
example : encTy (.real (some (-1/3)) none) = some "up:real[-1/3, inf]" ∧
    decTy [] "up:real[-1/3, inf]" = some (.real (some (-1/3)) none) := by decide +kernel
example : encTy (.int none (some (-100000000000000000000000000000))) = some "up:integer[-inf, -100000000000000000000000000000]" := by
  decide +kernel
example : tyDeclared ["T"] (.user "T") = true ∧ encTy (.user "T") = some "T" := by decide

/-! ### Real, timepoints, timings, intervals (message level) -/

/-- every rational the writer accepts (numerator and denominator in int64) reads back exactly,
    negative and non-canonical-looking ones included -/
theorem real_roundtrip (r : Rat) (m : RealMsg) (h : encReal r = some m) : decReal m = some r :=
  decReal_enc r m h

theorem real_accepted (r : Rat) (hn : inI64 r.num = true) (hd : inI64 r.den = true) :
    (encReal r).isSome = true := by simp [encReal, hn, hd]

/-- every timepoint kind, with or without a (non-empty) container -/
theorem timepoint_roundtrip (tp : Timepoint) (h : tp.container ≠ some "") :
    decTimepoint (encTimepoint tp) = tp := decTimepoint_enc tp h

theorem timing_roundtrip (t : Timing) (m : TimingMsg) (hc : t.ok = true) (h : encTiming t = some m) :
    decTiming m = some t :=
  decTiming_enc t m (by simpa [Timing.ok] using hc) h

/-- the unrestricted statement … -/
def timing_roundtrip_full : Prop := ∀ (t : Timing) (m : TimingMsg), encTiming t = some m → decTiming m = some t

/-- … fails on a container named `""` (finding D-C20d) -/
theorem timing_roundtrip_full_fails : ¬ timing_roundtrip_full := by
  intro h
  have := h { delay := 0, tp := { kind := .start, container := some "" } } _ rfl
  revert this
  decide +kernel

/-- every interval form: open / closed on either side, any two timings -/
theorem interval_roundtrip (i : TimeInterval) (m : TimeIntervalMsg) (hc : i.ok = true)
    (h : encTimeInterval i = some m) : decTimeInterval m = some i := by
  simp only [TimeInterval.ok, Timing.ok, Bool.and_eq_true, bne_iff_ne, ne_eq] at hc
  exact decTimeInterval_enc i m hc.1 hc.2 h

example : (⟨⟨-7/3, ⟨.end_, some "move"⟩⟩, ⟨0, ⟨.globalEnd, none⟩⟩, true, false⟩ : TimeInterval).ok = true ∧
    (encTimeInterval ⟨⟨-7/3, ⟨.end_, some "move"⟩⟩, ⟨0, ⟨.globalEnd, none⟩⟩, true, false⟩).isSome = true := by
  decide +kernel

/-! ### expressions, effects, durations, actions -/

/-- every expression the writer accepts reads back as itself in a problem that declares its
    objects, fluents and user types (structural induction; constants of any accepted size, timing
    expressions with every timepoint kind / container / delay, quantifiers, all operators) -/
theorem expr_roundtrip (c : Ctx) (e : UExpr) (m : PE) (hw : e.wf c = true) (he : encExpr e = some m) :
    decExpr c m = some e := decExpr_enc c e m hw he

/-- timing expressions need no side condition at all -/
theorem timing_expr_roundtrip (c : Ctx) (t : Timing) (m : PE) (he : encExpr (.timing t) = some m) :
    decExpr c m = some (.timing t) := decExpr_enc c _ m rfl he

theorem effect_roundtrip (c : Ctx) (e : Effect) (m : EffectMsg) (hw : e.wf c = true)
    (he : encEffect e = some m) : decEffect c m = some e := decEffect_enc c e m hw he

/-- duration intervals, all four openness forms -/
theorem duration_roundtrip (c : Ctx) (d : DurInterval) (m : DurationMsg)
    (hl : d.lower.wf c = true) (hu : d.upper.wf c = true) (he : encDuration d = some m) :
    decDuration c m = some d := decDuration_enc c d m hl hu he

/-- instantaneous and durative actions: parameters, duration, conditions grouped by interval and
    effects grouped by timing come back in the same order -/
theorem action_roundtrip (c : Ctx) (a : Action) (m : ActionMsg) (hw : a.WF c) (he : encAction a = some m) :
    decAction c m = some a := decAction_enc c a m hw he

section examples
def cx : Ctx :=
  { types := ["T"], objects := [("o1", "T")],
    fluents := [{ name := "x", ty := .real (some 0) none, sig := [] }, { name := "at", ty := .bool, sig := [.user "T"] }] }
def xF : FluentRef := { name := "x", ty := .real (some 0) none, sig := [] }
def atF : FluentRef := { name := "at", ty := .bool, sig := [.user "T"] }
/-- `exists v:T. at(v) and x <= 9223372036854775807/3 and start(a) + 1/2 < end` -/
def e1 : UExpr :=
  .quant .ex [⟨"v", .user "T"⟩]
    (.op .and [.fluent atF [.var ⟨"v", .user "T"⟩],
               .op .le [.fluent xF [], .realC (9223372036854775807 / 3)],
               .op .lt [.timing ⟨1/2, ⟨.start, some "a"⟩⟩, .timing ⟨0, ⟨.end_, none⟩⟩]])
example : e1.wf cx = true ∧ (encExpr e1).isSome = true := by decide +kernel
def eff1 : Effect := ⟨.increase, .fluent xF [], .realC (-5/2), .fluent atF [.obj "o1" "T"], []⟩
def act1 : Action :=
  .dur "d" [⟨"k", .user "T"⟩, ⟨"n", .int none (some 7)⟩]
    ⟨.intC 5, .op .plus [.fluent xF [], .realC (1/3)], true, false⟩
    [(⟨⟨0, ⟨.start, none⟩⟩, ⟨-1/2, ⟨.end_, none⟩⟩, true, true⟩, [.fluent atF [.param "k" (.user "T")], e1])]
    [(⟨7/3, ⟨.start, none⟩⟩, [eff1]), (⟨0, ⟨.end_, none⟩⟩, [⟨.assign, .fluent atF [.param "k" (.user "T")], .boolC true, .boolC true, []⟩])]
example : eff1.wf cx = true ∧ (encEffect eff1).isSome = true := by decide +kernel
example : act1.WF cx ∧ (encAction act1).isSome = true := by decide +kernel
end examples

/-! ### problems -/

/-- the unrestricted statement on the modelled problem record … -/
def problem_roundtrip_full : Prop := ∀ (p : Problem) (m : ProblemMsg), encProblem p = some m → decProblem m = some p

/-- … fails: a problem named `""` reads back as an unnamed problem (finding D-C20d) -/
theorem problem_roundtrip_full_fails : ¬ problem_roundtrip_full := by
  intro h
  have := h { name := some "", types := [], objects := [], fluents := [], actions := [], init := [],
              timedEffects := [], goals := [], timedGoals := [], epsilon := none,
              discreteTime := false, selfOverlapping := false } _ rfl
  have h2 := congrArg (fun o => o.map Problem.name) this
  revert h2
  decide +kernel

/-- every well-formed problem of the modelled record (name, user types with fathers, objects,
    fluents with defaults, instantaneous and durative actions, explicit initial values, timed
    effects, goals, timed goals, epsilon, the two flags) that the writer accepts reads back as
    itself.  Partial with respect to the property: metrics, trajectory constraints, hierarchical
    and scheduling problems are not in the record (end-to-end oracle on the real code only). -/
theorem problem_roundtrip_partial (p : Problem) (m : ProblemMsg) (hw : p.WF) (he : encProblem p = some m) :
    decProblem m = some p := decProblem_enc p m hw he

section examples
def pb1 : Problem :=
  { name := some "p", types := [("T", none), ("S", some "T")], objects := [("o1", "T")],
    fluents := [(xF, some (.realC (1/3))), (atF, none)],
    actions := [act1, .inst "i" [] [.fluent atF [.obj "o1" "T"]] [eff1]],
    init := [(.fluent atF [.obj "o1" "T"], .boolC true)],
    timedEffects := [(⟨5, ⟨.globalStart, none⟩⟩, [eff1])],
    goals := [.fluent atF [.obj "o1" "T"]],
    timedGoals := [(⟨⟨1, ⟨.globalStart, none⟩⟩, ⟨0, ⟨.globalEnd, none⟩⟩, false, true⟩, [.op .le [.fluent xF [], .intC 3]])],
    epsilon := some (1/1000), discreteTime := false, selfOverlapping := true }
example : pb1.WF ∧ (encProblem pb1).isSome = true := by decide +kernel
end examples

end UPVerif.C20
