import UPVerif.Props.C15
import UPVerif.Lemmas.TypeOfRepeat
/-!
# C15 — repeated operands (`Times(x, x, x)`, `x - x`, …)

`TypeChecker.walk_plus/minus/times/div` compute the bounds of a node from the TYPES of its arguments
alone; the model `typeOf` mirrors that.  A developer may be tempted to add value-level special cases
keyed on the IDENTITY of the arguments ("all factors are the same expression, so the product is a
power and cannot be negative").  This module states what the proved model says about such shapes:

* `C15_type_depends_on_operand_types_only` — the inferred type of a node does not look at its
  operands beyond their types, so `Times(x, x, x)` is typed exactly like `Times(x, y, w)` with
  `y, w` of the type of `x` (`C15_power_typed_like_product`);
* `C15_power_value` — the value of the flat n-ary product of `n` copies of `e` is the n-th power of the
  value of `e` (in the reference denotation every occurrence of `e` takes the SAME value);
* `C15_odd_power_lower_bound_negative` — hence, by `C15_sound`, whenever `e` can take a negative value
  every lower bound inferred for an ODD power of `e` is negative: a checker that answers `0` there
  (the seeded change C15-2) cannot agree with the model, whatever `e` is.

The correspondence check generates these shapes on purpose (harness/props/C15.py, stream 5).
-/
namespace UPVerif.C15
open UPVerif UPVerif.TypeOf

variable {E : TypeEnv} {O : String → Option String} {ι : Interp} {ρ : VEnv}

/-- **Type inference is blind to the identity of operands.**  For every operator but `Dot` (whose
    rule inspects the shape of its operand) two nodes whose operand lists have the same types get
    the same verdict. -/
theorem C15_type_depends_on_operand_types_only (E : TypeEnv) (op : Op) (hop : ∀ a, op ≠ .dot a)
    (as bs : List Expr) (h : typeOfList E as = typeOfList E bs) :
    typeOf E (.app op as) = typeOf E (.app op bs) := by
  simp only [typeOf, h]
  cases typeOfList E bs with
  | none => rfl
  | some ts =>
    cases op <;> first
      | rfl
      | exact absurd rfl (hop _)

/-- **A power is typed like any product of as many factors of the same type**: the `n`-fold flat
    sum / product of one expression `e` gets the type of `op(b₁, …, bₙ)` for ANY operands `bᵢ`
    that have the type of `e` (for instance `n` different fluents declared like `e`). -/
theorem C15_power_typed_like_product (E : TypeEnv) (op : Op) (hop : ∀ a, op ≠ .dot a) (e : Expr) (t : Ty)
    (bs : List Expr) (he : typeOf E e = some t) (hb : ∀ b, b ∈ bs → typeOf E b = some t) :
    typeOf E (.app op (List.replicate bs.length e)) = typeOf E (.app op bs) :=
  C15_type_depends_on_operand_types_only E op hop _ _
    ((typeOfList_replicate he _).trans (typeOfList_const bs hb).symm)

/-! ### the value of a power -/

/-- **The value of a flat n-ary product of `n` copies of `e`** is the n-th power of the value of
    `e`: all the copies are evaluated under the same interpretation. -/
theorem C15_power_value (e : Expr) (q : Rat) (n : Nat) (hd : den ι ρ e = some (.n q)) :
    den ι ρ (.app .times (List.replicate n e)) = some (.n (powR q n)) := by
  simp only [den, denList_replicate hd, Option.bind_some, denOp, allNums_replicate, Option.map_some,
    powR]

/-- **The inferred type of a power contains the power of every value of its base** (`C15_sound` on
    the shape `Times(e, …, e)`). -/
theorem C15_power_sound (hI : InterpOK E O ι) (hρ : VEnvOK E O ρ) (e : Expr) (n : Nat) (t : Ty) (q : Rat)
    (hl : ∀ l, l ∈ e.leaves → LeafOK E O ι l)
    (ht : typeOf E (.app .times (List.replicate n e)) = some t) (hd : den ι ρ e = some (.n q)) :
    (∀ x, t.lb = some x → x ≤ powR q n) ∧ (∀ x, t.ub = some x → powR q n ≤ x) := by
  have h := C15_sound_interval hI hρ (.app .times (List.replicate n e)) t (powR q n)
    (by intro l hm; exact hl l (leaves_replicate n (by simpa [Expr.leaves] using hm)))
    ht (C15_power_value e q n hd)
  exact ⟨h.2.1, h.2.2.1⟩

/-- **An odd power of an expression that can be negative never gets a non-negative lower bound.**
    If `e` takes a negative value under some interpretation that respects the declared types, every
    lower bound the model infers for `Times(e, …, e)` with an odd number of factors is negative.
    (The seeded change C15-2 answered lower bound `0` for all-identical factors regardless of their
    number.) -/
theorem C15_odd_power_lower_bound_negative (hI : InterpOK E O ι) (hρ : VEnvOK E O ρ) (e : Expr) (k : Nat)
    (t : Ty) (q : Rat) (hl : ∀ l, l ∈ e.leaves → LeafOK E O ι l)
    (ht : typeOf E (.app .times (List.replicate (2 * k + 1) e)) = some t)
    (hd : den ι ρ e = some (.n q)) (hq : q < 0) :
    ∀ x, t.lb = some x → x < 0 := by
  intro x hx
  exact lt_of_le_of_lt ((C15_power_sound hI hρ e _ t q hl ht hd).1 x hx) (powR_odd_neg hq k)

/-- **An even power never takes a negative value** — the parity of the number of factors is exactly
    what separates the sound reading of "a power cannot be negative" from the unsound one. -/
theorem C15_even_power_value_nonneg (e : Expr) (q : Rat) (k : Nat) (hd : den ι ρ e = some (.n q)) :
    ∃ p, den ι ρ (.app .times (List.replicate (2 * k) e)) = some (.n p) ∧ 0 ≤ p :=
  ⟨_, C15_power_value e q _ hd, powR_even_nonneg q k⟩

/-! ## non-vacuity and witnesses -/
section examples

def xn : FluentRef := { name := "xn", ty := .int (some (-5)) (some 5), sig := [] }
def xm : FluentRef := { name := "xm", ty := .int (some (-7)) (some 2), sig := [] }
def xn' : FluentRef := { name := "xn_2", ty := .int (some (-5)) (some 5), sig := [] }
/-- `xn = -5`, `xm = -7` (lower corners), `xn_2 = 5` -/
def ι1 : Interp :=
  { fl := fun f _ => if f = xn then some (.n (-5)) else if f = xm then some (.n (-7))
                     else if f = xn' then some (.n 5) else none
    fn := fun _ _ => none, par := fun _ => none, dom := fun _ => [] }

theorem nonvacuous_interp1_ok : InterpOK E0 O0 ι1 := by
  constructor
  · intro f vs v h
    simp only [ι1] at h
    split at h
    · rename_i hf; subst hf; cases h; decide +kernel
    · split at h
      · rename_i hf; subst hf; cases h; decide +kernel
      · split at h
        · rename_i hf; subst hf; cases h; decide +kernel
        · cases h
  · intro g vs v h; cases h

def fx (f : FluentRef) : Expr := .app (.fluent f) []

/-- the cube of `xn : int[-5,5]` is typed `int[-125,125]` … -/
example : typeOf E0 (.app .times [fx xn, fx xn, fx xn]) = some (.int (some (-125)) (some 125)) := by
  decide +kernel
/-- … like the product of three different fluents of that type (`C15_power_typed_like_product`) … -/
example : typeOf E0 (.app .times (List.replicate 3 (fx xn))) = typeOf E0 (.app .times [fx xn', fx xn, fx xn']) :=
  C15_power_typed_like_product E0 .times (by intro a h; cases h) (fx xn) (.int (some (-5)) (some 5))
    [fx xn', fx xn, fx xn'] (by decide +kernel) (by
      intro b hb
      simp only [List.mem_cons, List.not_mem_nil, or_false] at hb
      rcases hb with rfl | rfl | rfl <;> decide +kernel)
/-- … its value at the lower corner is `-125`: the lower bound is attained, so the answer
    `int[0,125]` of the seeded change excludes a value the expression takes -/
example : den ι1 [] (.app .times [fx xn, fx xn, fx xn]) = some (.n (-125)) := by decide +kernel
example : inTy E0 O0 (.n (-125)) (.int (some 0) (some 125)) = false := by decide +kernel
/-- the hypotheses of `C15_odd_power_lower_bound_negative` are met by `xn = -5`, `k = 1` -/
example : ∀ x, (Ty.int (some (-125)) (some 125)).lb = some x → x < 0 :=
  C15_odd_power_lower_bound_negative nonvacuous_interp1_ok nonvacuous_venv_ok (fx xn) 1 _ (-5)
    (by intro l hl; simp [fx, Expr.leaves, Expr.leavesList] at hl)
    (by decide +kernel) (by decide +kernel) (by decide)
/-- an even power: the largest value sits at the LOWER corner of `xm : int[-7,2]` (`49`, not `2² = 4`) -/
example : typeOf E0 (.app .times [fx xm, fx xm]) = some (.int (some (-14)) (some 49)) := by
  decide +kernel
example : den ι1 [] (.app .times [fx xm, fx xm]) = some (.n 49) := by decide +kernel
/-- neighbouring shapes: nested as the infix operator builds it, `x - x`, `x / x`, a zero factor -/
example : typeOf E0 (.app .times [.app .times [fx xn, fx xn], fx xn]) = some (.int (some (-125)) (some 125)) := by
  decide +kernel
example : typeOf E0 (.app .minus [fx xn, fx xn]) = some (.int (some (-10)) (some 10)) := by decide +kernel
example : typeOf E0 (.app .div [fx xn, fx xn]) = some (.real none none) := by decide +kernel
example : typeOf E0 (.app .times [fx xu, .int 0, fx xu]) = some (.int (some 0) (some 0)) := by
  decide +kernel
example : typeOf E0 (.app .plus [fx xn, .app .minus [.int 0, fx xn]]) = some (.int (some (-10)) (some 10)) := by
  decide +kernel

end examples

end UPVerif.C15
