import UPVerif.Lemmas.KindOfLemmas
/-! Helper lemmas for `Props/C10.lean`: the static / unused-fluent analysis against the positional
    specification (`Written`, `ReadOutside`, `InDurationOrCost`). -/
namespace UPVerif.KindOf
open UPVerif UPVerif.Spec

theorem targetRef_eq_some {x : Expr} {f : FluentRef} : targetRef x = some f ↔ ∃ args, x = .app (.fluent f) args := by
  constructor
  · intro h
    match x, h with
    | .app (.fluent g) as, h => simp only [targetRef, Option.some.injEq] at h; subst h; exact ⟨as, rfl⟩
  · rintro ⟨args, rfl⟩; rfl

theorem mem_simTargets {fs : List Expr} {f : FluentRef} :
    f ∈ simTargets fs ↔ ∃ args, Expr.app (.fluent f) args ∈ fs := by
  simp only [simTargets, List.mem_filterMap, targetRef_eq_some]
  constructor
  · rintro ⟨x, hx, args, rfl⟩; exact ⟨args, hx⟩
  · rintro ⟨args, h⟩; exact ⟨_, h, args, rfl⟩

variable {P : KProblem}

/-! #### `written` -/

theorem written_iact {a : IAct} {f : FluentRef} (ha : a ∈ P.iactions)
    (h : f ∈ a.effs.filterMap (fun e => targetRef e.fluent) ++ simTargets (a.sim.getD [])) : f ∈ written P := by
  unfold written
  exact List.mem_append_left _ (List.mem_append_left _ (List.mem_append_left _ (List.mem_append_left _
    (List.mem_flatMap.2 ⟨a, ha, h⟩))))

theorem written_dact {a : DAct} {f : FluentRef} (ha : a ∈ P.dactions)
    (h : f ∈ a.effs.filterMap (fun te => targetRef te.2.fluent) ++
      a.ceffs.filterMap (fun ce => targetRef ce.2.fluent) ++ a.sims.flatMap (fun s => simTargets s.2)) :
    f ∈ written P := by
  unfold written
  exact List.mem_append_left _ (List.mem_append_left _ (List.mem_append_left _ (List.mem_append_right _
    (List.mem_flatMap.2 ⟨a, ha, h⟩))))

theorem written_evt {ev : Evt} {f : FluentRef} (ha : ev ∈ P.events)
    (h : f ∈ ev.effs.filterMap (fun e => targetRef e.fluent)) : f ∈ written P := by
  unfold written
  exact List.mem_append_left _ (List.mem_append_left _ (List.mem_append_right _ (List.mem_flatMap.2 ⟨ev, ha, h⟩)))

theorem written_proc {p : Proc} {f : FluentRef} (ha : p ∈ P.processes)
    (h : f ∈ p.effs.filterMap (fun e => targetRef e.fluent)) : f ∈ written P := by
  unfold written
  exact List.mem_append_left _ (List.mem_append_right _ (List.mem_flatMap.2 ⟨p, ha, h⟩))

theorem written_timed {f : FluentRef} (h : f ∈ P.timedEffects.filterMap (fun te => targetRef te.2.fluent)) :
    f ∈ written P := by
  unfold written
  exact List.mem_append_right _ h

theorem mem_written_of_Written {f : FluentRef} (h : Written P f) : f ∈ written P := by
  cases h with
  | effect he hf =>
    have ht := targetRef_eq_some.2 ⟨_, hf⟩
    cases he with
    | iaction ha hm => exact written_iact ha (List.mem_append_left _ (List.mem_filterMap.2 ⟨_, hm, ht⟩))
    | daction ha hm =>
      exact written_dact ha (List.mem_append_left _ (List.mem_append_left _ (List.mem_filterMap.2 ⟨_, hm, ht⟩)))
    | event ha hm => exact written_evt ha (List.mem_filterMap.2 ⟨_, hm, ht⟩)
    | timed hm => exact written_timed (List.mem_filterMap.2 ⟨_, hm, ht⟩)
  | continuousEffect he hf =>
    have ht := targetRef_eq_some.2 ⟨_, hf⟩
    cases he with
    | daction ha hm =>
      exact written_dact ha (List.mem_append_left _ (List.mem_append_right _ (List.mem_filterMap.2 ⟨_, hm, ht⟩)))
    | process ha hm => exact written_proc ha (List.mem_filterMap.2 ⟨_, hm, ht⟩)
  | simulated ha hs hm =>
    exact written_iact ha (List.mem_append_right _ (mem_simTargets.2 ⟨_, by simpa [hs] using hm⟩))
  | durativeSimulated ha hs hm =>
    exact written_dact ha (List.mem_append_right _ (List.mem_flatMap.2 ⟨_, hs, mem_simTargets.2 ⟨_, hm⟩⟩))

theorem Written_of_mem_written {f : FluentRef} (h : f ∈ written P) : Written P f := by
  simp only [written, List.mem_append, List.mem_flatMap, List.mem_filterMap, targetRef_eq_some,
    mem_simTargets] at h
  rcases h with (((⟨a, ha, h⟩ | ⟨a, ha, h⟩) | ⟨ev, ha, h⟩) | ⟨p, ha, h⟩) | h
  · rcases h with ⟨e, he, args, hf⟩ | ⟨args, hm⟩
    · exact .effect (.iaction ha he) hf
    · cases hs : a.sim with
      | none => simp [hs] at hm
      | some fs => exact .simulated ha hs (by simpa [hs] using hm)
  · rcases h with (⟨te, he, args, hf⟩ | ⟨ce, he, args, hf⟩) | ⟨s, hs, args, hm⟩
    · exact .effect (.daction (t := te.1) ha he) hf
    · exact .continuousEffect (.daction (i := ce.1) ha he) hf
    · exact .durativeSimulated (t := s.1) ha hs hm
  · obtain ⟨e, he, args, hf⟩ := h
    exact .effect (.event ha he) hf
  · obtain ⟨e, he, args, hf⟩ := h
    exact .continuousEffect (.process ha he) hf
  · obtain ⟨te, he, args, hf⟩ := h
    exact .effect (.timed (t := te.1) he) hf

theorem static_of_Static {f : FluentRef} (h : Static P f) : (staticUnused P).static.contains f = true := by
  obtain ⟨⟨d, hd, rfl⟩, hw⟩ := h
  simp only [staticUnused, List.contains_eq_mem, List.mem_filter, List.mem_map, decide_eq_true_eq]
  refine ⟨⟨d, hd, rfl⟩, ?_⟩
  simp only [Bool.not_eq_eq_eq_not, Bool.not_true, decide_eq_false_iff_not]
  exact fun hm => hw (Written_of_mem_written hm)

theorem not_static_of_Written {f : FluentRef} (h : Written P f) : (staticUnused P).static.contains f = false := by
  have hm := mem_written_of_Written h
  simp only [staticUnused, List.contains_eq_mem, List.mem_filter, decide_eq_false_iff_not, not_and]
  intro _
  simp [hm]

/-! #### `readFluents` -/

theorem mem_exprsReads {es : List Expr} {c : Expr} {f : FluentRef} (hc : c ∈ es) (hf : f ∈ fluentRefs c) :
    f ∈ exprsReads es := List.mem_flatMap.2 ⟨c, hc, hf⟩

theorem read_iact {a : IAct} {f : FluentRef} (ha : a ∈ P.iactions)
    (h : f ∈ exprsReads a.pre ++ a.effs.flatMap effReads) : f ∈ readFluents P := by
  unfold readFluents
  iterate 8 apply List.mem_append_left
  exact List.mem_flatMap.2 ⟨a, ha, h⟩

theorem read_dact {a : DAct} {f : FluentRef} (ha : a ∈ P.dactions)
    (h : f ∈ exprsReads (a.conds.map (·.2)) ++ a.effs.flatMap (fun te => effReads te.2)
      ++ a.ceffs.flatMap (fun ce => ceffReads ce.2)) : f ∈ readFluents P := by
  unfold readFluents
  iterate 7 apply List.mem_append_left
  exact List.mem_append_right _ (List.mem_flatMap.2 ⟨a, ha, h⟩)

theorem read_evt {ev : Evt} {f : FluentRef} (ha : ev ∈ P.events)
    (h : f ∈ exprsReads ev.pre ++ ev.effs.flatMap effReads) : f ∈ readFluents P := by
  unfold readFluents
  iterate 6 apply List.mem_append_left
  exact List.mem_append_right _ (List.mem_flatMap.2 ⟨ev, ha, h⟩)

theorem read_proc {p : Proc} {f : FluentRef} (ha : p ∈ P.processes)
    (h : f ∈ exprsReads p.pre ++ p.effs.flatMap ceffReads) : f ∈ readFluents P := by
  unfold readFluents
  iterate 5 apply List.mem_append_left
  exact List.mem_append_right _ (List.mem_flatMap.2 ⟨p, ha, h⟩)

theorem read_timed {te : Timing × Effect} {f : FluentRef} (ha : te ∈ P.timedEffects)
    (h : f ∈ effReads te.2) : f ∈ readFluents P := by
  unfold readFluents
  iterate 4 apply List.mem_append_left
  exact List.mem_append_right _ (List.mem_flatMap.2 ⟨te, ha, h⟩)

theorem read_tgoal {f : FluentRef} (h : f ∈ exprsReads (P.timedGoals.map (·.2))) : f ∈ readFluents P := by
  unfold readFluents
  iterate 3 apply List.mem_append_left
  exact List.mem_append_right _ h

theorem read_traj {f : FluentRef} (h : f ∈ exprsReads P.traj) : f ∈ readFluents P := by
  unfold readFluents
  iterate 2 apply List.mem_append_left
  exact List.mem_append_right _ h

theorem read_goal {f : FluentRef} (h : f ∈ exprsReads P.goals) : f ∈ readFluents P := by
  unfold readFluents
  apply List.mem_append_left
  exact List.mem_append_right _ h

theorem read_metric {m : KMetric} {f : FluentRef} (hm : m ∈ P.metrics) (h : f ∈ metricReads m) :
    f ∈ readFluents P := by
  unfold readFluents
  exact List.mem_append_right _ (List.mem_flatMap.2 ⟨m, hm, h⟩)

/-- a fluent expression read by an effect, whichever of its three parts -/
theorem read_of_effect {e : Effect} {f : FluentRef} (he : EffectOf P e) (h : f ∈ effReads e) : f ∈ readFluents P := by
  cases he with
  | iaction ha hm => exact read_iact ha (List.mem_append_right _ (List.mem_flatMap.2 ⟨_, hm, h⟩))
  | daction ha hm =>
    exact read_dact ha (List.mem_append_left _ (List.mem_append_right _ (List.mem_flatMap.2 ⟨_, hm, h⟩)))
  | event ha hm => exact read_evt ha (List.mem_append_right _ (List.mem_flatMap.2 ⟨_, hm, h⟩))
  | timed hm => exact read_timed hm h

theorem read_of_ceffect {e : CEff} {f : FluentRef} (he : CEffectOf P e) (h : f ∈ ceffReads e) : f ∈ readFluents P := by
  cases he with
  | daction ha hm => exact read_dact ha (List.mem_append_right _ (List.mem_flatMap.2 ⟨_, hm, h⟩))
  | process ha hm => exact read_proc ha (List.mem_append_right _ (List.mem_flatMap.2 ⟨_, hm, h⟩))

theorem read_of_cond {c : Expr} {f : FluentRef} (hc : CondOf P c) (h : f ∈ fluentRefs c) : f ∈ readFluents P := by
  cases hc with
  | precondition ha hm => exact read_iact ha (List.mem_append_left _ (mem_exprsReads hm h))
  | durativeCondition ha hm =>
    exact read_dact ha (List.mem_append_left _ (List.mem_append_left _
      (mem_exprsReads (List.mem_map.2 ⟨_, hm, rfl⟩) h)))
  | processPrecondition ha hm => exact read_proc ha (List.mem_append_left _ (mem_exprsReads hm h))
  | eventPrecondition ha hm => exact read_evt ha (List.mem_append_left _ (mem_exprsReads hm h))
  | effectCondition he _ => exact read_of_effect he (List.mem_append_right _ h)
  | goal hm => exact read_goal (mem_exprsReads hm h)
  | timedGoal hm => exact read_tgoal (mem_exprsReads (List.mem_map.2 ⟨_, hm, rfl⟩) h)
  | trajectoryConstraint hm => exact read_traj (mem_exprsReads hm h)
  | oversubscriptionGoal hm hg => exact read_metric hm (List.mem_flatMap.2 ⟨_, hg, h⟩)
  | temporalOversubscriptionGoal hm hg => exact read_metric hm (List.mem_flatMap.2 ⟨_, hg, h⟩)

theorem read_of_ReadOutside {f : FluentRef} (h : ReadOutside P f) : f ∈ readFluents P := by
  cases h with
  | condition hc hm => exact read_of_cond hc (mentions_fluentRefs hm)
  | effectFluent he hm =>
    exact read_of_effect he (List.mem_append_left _ (List.mem_append_left _ (mentions_fluentRefs hm)))
  | effectValue he hm =>
    exact read_of_effect he (List.mem_append_left _ (List.mem_append_right _ (mentions_fluentRefs hm)))
  | continuousEffectFluent he hm => exact read_of_ceffect he (List.mem_append_left _ (mentions_fluentRefs hm))
  | continuousEffectValue he hm => exact read_of_ceffect he (List.mem_append_right _ (mentions_fluentRefs hm))
  | minimizeFinal hm hf => exact read_metric hm (mentions_fluentRefs hf)
  | maximizeFinal hm hf => exact read_metric hm (mentions_fluentRefs hf)

theorem not_unused_of_ReadOutside {f : FluentRef} (h : ReadOutside P f) :
    (staticUnused P).unused.contains f = false := by
  have hm := read_of_ReadOutside h
  simp only [staticUnused]
  split
  · simp
  · simp only [List.contains_eq_mem, List.mem_filter, decide_eq_false_iff_not, not_and]
    intro _
    simp [hm]

/-! #### durations and costs -/

theorem InDurationOrCost_of_mem {f : FluentRef}
    (h : f ∈ (staticUnused P).inDurations ∨ f ∈ (staticUnused P).inCosts) : InDurationOrCost P f := by
  rcases h with h | h
  · simp only [staticUnused, List.mem_flatMap, List.mem_append] at h
    obtain ⟨a, ha, h | h⟩ := h
    · exact .durationLower ha (fluentRefs_mentions _ h)
    · exact .durationUpper ha (fluentRefs_mentions _ h)
  · simp only [staticUnused, List.mem_flatMap, exprsReads] at h
    obtain ⟨m, hm, c, hc, hf⟩ := h
    cases m with
    | minActionCosts cs d =>
      simp only [costExprs, List.mem_append, List.mem_map] at hc
      rcases hc with ⟨nc, hnc, rfl⟩ | hc
      · exact .cost (n := nc.1) hm hnc (fluentRefs_mentions _ hf)
      · cases d with
        | none => simp at hc
        | some dc =>
          simp only [List.mem_singleton] at hc
          subst hc
          exact .defaultCost hm (fluentRefs_mentions _ hf)
    | _ => simp [costExprs] at hc

/-- the guard of INT_FLUENTS / REAL_FLUENTS in `update_problem_kind_fluent` -/
theorem fluentType_guard {f : FluentRef} (h : NeedsFluentType P f) :
    (!(staticUnused P).unused.contains f ||
      (!(staticUnused P).inDurations.contains f && !(staticUnused P).inCosts.contains f)) = true := by
  rcases h with h | h
  · rw [not_unused_of_ReadOutside h]; rfl
  · have h1 : (staticUnused P).inDurations.contains f = false := by
      simp only [List.contains_eq_mem, decide_eq_false_iff_not]
      exact fun hm => h (InDurationOrCost_of_mem (Or.inl hm))
    have h2 : (staticUnused P).inCosts.contains f = false := by
      simp only [List.contains_eq_mem, decide_eq_false_iff_not]
      exact fun hm => h (InDurationOrCost_of_mem (Or.inr hm))
    rw [h1, h2]; simp

end UPVerif.KindOf
