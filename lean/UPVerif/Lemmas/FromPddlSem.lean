import UPVerif.Core.Eval
import UPVerif.Core.Walkers.Substitute
/-!
Semantic notions the C21 theorems are stated with, and their basic laws.

* `inst σ e` — instantiation of parameters / variables (the keys of `σ` are leaves): the structural core of
  `Sim.substE` (the manager's re-normalisation of rebuilt nodes left out; on expressions built by the manager the
  two coincide).  `instAll` instantiates several times (grounding, then expansion of universal effects).
* `EqW e e'` — `e` and `e'` have the same value (or both fail) under every instantiation, in every well-typed
  evaluation context and every variable assignment.  WHICH error escapes is not observed: the successor semantics
  of C01 (`Spec.successorOf`) does not observe it either.
* `BoolWF e` — `e` is built like a condition: Boolean connectives over comparisons and Boolean fluents.
* `SameFV e e'` — the same free variables (as sets).
-/
namespace UPVerif.FromPddl
open UPVerif UPVerif.Expr

/-! ### observation -/

def obs : Except EvalErr Val → Option Val
  | .ok v => some v
  | .error _ => none

def obsL : Except EvalErr (List Val) → Option (List Val)
  | .ok v => some v
  | .error _ => none

/-- the values of a list of expressions, defined iff all of them are -/
def obsList (c : EvalCtx) (ρ : VEnv) : List Expr → Option (List Val)
  | [] => some []
  | e :: es =>
    match obs (eval c ρ e), obsList c ρ es with
    | some v, some vs => some (v :: vs)
    | _, _ => none

theorem obsL_evalList (c : EvalCtx) (ρ : VEnv) : ∀ es : List Expr, obsL (evalList c ρ es) = obsList c ρ es
  | [] => by simp [evalList, obsL, obsList]
  | e :: es => by
    have ih := obsL_evalList c ρ es
    simp only [evalList, obsList]
    cases h1 : evalList c ρ es with
    | error x =>
      rw [h1] at ih
      simp only [obsL] at ih
      rw [← ih]
      cases obs (eval c ρ e) <;> rfl
    | ok vs =>
      rw [h1] at ih
      simp only [obsL] at ih
      rw [← ih]
      cases h2 : eval c ρ e with
      | error y => simp [obs, obsL]
      | ok v => simp [obs, obsL]

theorem obs_eval_app (c : EvalCtx) (ρ : VEnv) (op : Op) (as : List Expr) :
    obs (eval c ρ (.app op as)) = (obsList c ρ as).bind (fun vs => obs (evalOp c op vs)) := by
  rw [← obsL_evalList]
  simp only [eval]
  cases evalList c ρ as with
  | error x => simp [obs, obsL]
  | ok vs => simp [obsL]

theorem obsList_congr (c : EvalCtx) (ρ : VEnv) : ∀ (as bs : List Expr), as.length = bs.length →
    (∀ i (h1 : i < as.length) (h2 : i < bs.length), obs (eval c ρ as[i]) = obs (eval c ρ bs[i])) →
    obsList c ρ as = obsList c ρ bs
  | [], [], _, _ => rfl
  | a :: as, b :: bs, hl, h => by
    have h0 := h 0 (by simp) (by simp)
    simp only [List.getElem_cons_zero] at h0
    have ih := obsList_congr c ρ as bs (by simpa using hl) (fun i h1 h2 => by
      have := h (i + 1) (by simp; omega) (by simp; omega)
      simpa using this)
    simp only [obsList, h0, ih]
  | [], _ :: _, hl, _ => by simp at hl
  | _ :: _, [], hl, _ => by simp at hl

/-! ### instantiation -/

/-- only parameters and variables are instantiated -/
def instLeaf (σ : Subst) : Leaf → Expr
  | .param n t => (σ.lookup (.leaf (.param n t))).getD (.leaf (.param n t))
  | .var v => (σ.lookup (.leaf (.var v))).getD (.leaf (.var v))
  | l => .leaf l

mutual
def inst (σ : Subst) : Expr → Expr
  | .leaf l => instLeaf σ l
  | .app op args => .app op (instList σ args)
  | .quant q vs b => .quant q vs (inst (keptUnder vs σ) b)
def instList (σ : Subst) : List Expr → List Expr
  | [] => []
  | e :: es => inst σ e :: instList σ es
end

theorem instList_eq_map (σ : Subst) : ∀ es : List Expr, instList σ es = es.map (inst σ)
  | [] => by simp [instList]
  | e :: es => by simp [instList, instList_eq_map σ es]

def instAll (σs : List Subst) (e : Expr) : Expr := σs.foldl (fun x σ => inst σ x) e

@[simp] theorem instAll_nil (e : Expr) : instAll [] e = e := rfl
@[simp] theorem instAll_cons (σ : Subst) (σs : List Subst) (e : Expr) : instAll (σ :: σs) e = instAll σs (inst σ e) := rfl

theorem instAll_app (op : Op) (as : List Expr) : ∀ σs : List Subst,
    instAll σs (.app op as) = .app op (as.map (instAll σs))
  | [] => by
    have : (fun e : Expr => instAll [] e) = id := by funext e; rfl
    simp [this]
  | σ :: σs => by
    rw [instAll_cons, inst, instList_eq_map, instAll_app op _ σs]
    simp [List.map_map, Function.comp_def]

theorem instAll_quant (q : Quant) (vs : List Var) (b : Expr) : ∀ σs : List Subst,
    instAll σs (.quant q vs b) = .quant q vs (instAll (σs.map (keptUnder vs)) b)
  | [] => by simp
  | σ :: σs => by
    rw [instAll_cons, inst, instAll_quant q vs _ σs]
    simp

/-- the substitutions of grounding and of effect expansion: the keys are parameters / variables -/
def LeafKeys (σ : Subst) : Prop := ∀ kv ∈ σ, ∃ l, kv.1 = .leaf l ∧ ((∃ n t, l = .param n t) ∨ ∃ v, l = .var v)

theorem instAll_leaf_const (l : Leaf) (h1 : ∀ n t, l ≠ .param n t) (h2 : ∀ v, l ≠ .var v) : ∀ σs : List Subst,
    instAll σs (.leaf l) = .leaf l
  | [] => rfl
  | σ :: σs => by
    rw [instAll_cons, inst]
    have : instLeaf σ l = .leaf l := by
      cases l with
      | param n t => exact absurd rfl (h1 n t)
      | var v => exact absurd rfl (h2 v)
      | boolC _ => rfl
      | intC _ => rfl
      | realC _ => rfl
      | obj _ _ => rfl
      | timing _ => rfl
      | present _ => rfl
    rw [this]
    exact instAll_leaf_const l h1 h2 σs

/-! ### the relations -/

/-- Boolean fluents hold Booleans -/
def WTCtx (c : EvalCtx) : Prop := ∀ (f : FluentRef) (vs : List Val) (v : Val), c.get (f, vs) = some v → f.ty = .bool → ∃ b, v = .b b

def EqW (e e' : Expr) : Prop :=
  ∀ (σs : List Subst) (c : EvalCtx) (ρ : VEnv), WTCtx c → obs (eval c ρ (instAll σs e)) = obs (eval c ρ (instAll σs e'))

theorem EqW.refl (e : Expr) : EqW e e := fun _ _ _ _ => rfl
theorem EqW.symm {e e' : Expr} (h : EqW e e') : EqW e' e := fun σs c ρ w => (h σs c ρ w).symm
theorem EqW.trans {a b d : Expr} (h1 : EqW a b) (h2 : EqW b d) : EqW a d :=
  fun σs c ρ w => (h1 σs c ρ w).trans (h2 σs c ρ w)

def SameFV (e e' : Expr) : Prop := ∀ v, v ∈ freeVars e ↔ v ∈ freeVars e'

theorem SameFV.refl (e : Expr) : SameFV e e := fun _ => Iff.rfl
theorem SameFV.symm {e e' : Expr} (h : SameFV e e') : SameFV e' e := fun v => (h v).symm
theorem SameFV.trans {a b d : Expr} (h1 : SameFV a b) (h2 : SameFV b d) : SameFV a d := fun v => (h1 v).trans (h2 v)

mutual
/-- built like a condition -/
def boolWF : Expr → Bool
  | .leaf (.boolC _) => true
  | .leaf _ => false
  | .app .and as => boolWFList as
  | .app .or as => boolWFList as
  | .app .not [a] => boolWF a
  | .app .implies [a, b] => boolWF a && boolWF b
  | .app .le [_, _] => true
  | .app .lt [_, _] => true
  | .app .eq [_, _] => true
  | .app (.fluent f) _ => f.ty == .bool
  | .app _ _ => false
  | .quant _ _ b => boolWF b
def boolWFList : List Expr → Bool
  | [] => true
  | e :: es => boolWF e && boolWFList es
end

theorem boolWFList_iff : ∀ es : List Expr, boolWFList es = true ↔ ∀ e ∈ es, boolWF e = true
  | [] => by simp [boolWFList]
  | e :: es => by simp [boolWFList, boolWFList_iff es]

/-- pairwise relation of two lists (core Lean has no `List.Forall₂`) -/
def All2 {α β : Type} (R : α → β → Prop) : List α → List β → Prop
  | [], [] => True
  | a :: as, b :: bs => R a b ∧ All2 R as bs
  | _, _ => False

theorem All2.length_eq {α β : Type} {R : α → β → Prop} : ∀ {as : List α} {bs : List β}, All2 R as bs → as.length = bs.length
  | [], [], _ => rfl
  | _ :: _, _ :: _, h => by simp [All2.length_eq h.2]
  | [], _ :: _, h => h.elim
  | _ :: _, [], h => h.elim

theorem All2.get {α β : Type} {R : α → β → Prop} : ∀ {as : List α} {bs : List β}, All2 R as bs →
    ∀ i (h1 : i < as.length) (h2 : i < bs.length), R as[i] bs[i]
  | _ :: _, _ :: _, h, 0, _, _ => h.1
  | _ :: _, _ :: _, h, i + 1, h1, h2 => by
    simpa using All2.get h.2 i (by simpa using h1) (by simpa using h2)
  | [], _, _, _, h1, _ => by simp at h1

theorem All2.map {α β γ δ : Type} {R : α → β → Prop} {S : γ → δ → Prop} (f : α → γ) (g : β → δ)
    (hfg : ∀ a b, R a b → S (f a) (g b)) : ∀ {as : List α} {bs : List β}, All2 R as bs → All2 S (as.map f) (bs.map g)
  | [], [], _ => trivial
  | a :: as, b :: bs, h => ⟨hfg a b h.1, All2.map f g hfg h.2⟩
  | [], _ :: _, h => h.elim
  | _ :: _, [], h => h.elim

theorem All2.refl {α : Type} {R : α → α → Prop} (hr : ∀ a, R a a) : ∀ as : List α, All2 R as as
  | [] => trivial
  | a :: as => ⟨hr a, All2.refl hr as⟩

/-! ### congruence of `app` -/

theorem obsList_of_all2 (c : EvalCtx) (ρ : VEnv) (σs : List Subst) (w : WTCtx c) {as bs : List Expr}
    (h : All2 EqW as bs) : obsList c ρ (as.map (instAll σs)) = obsList c ρ (bs.map (instAll σs)) := by
  apply obsList_congr
  · simp [h.length_eq]
  · intro i h1 h2
    simp only [List.getElem_map]
    exact (h.get i (by simpa using h1) (by simpa using h2)) σs c ρ w

/-- the same operator applied to pairwise equivalent arguments -/
theorem EqW.app (op : Op) {as bs : List Expr} (h : All2 EqW as bs) : EqW (.app op as) (.app op bs) := by
  intro σs c ρ w
  rw [instAll_app, instAll_app, obs_eval_app, obs_eval_app, obsList_of_all2 c ρ σs w h]

/-! ### free variables of lists -/

theorem mem_freeVarsList {v : Var} : ∀ {es : List Expr}, v ∈ freeVarsList es ↔ ∃ e ∈ es, v ∈ freeVars e
  | [] => by simp [freeVarsList]
  | e :: es => by simp [freeVarsList, mem_freeVarsList (es := es)]

theorem SameFV.app (op op' : Op) {as bs : List Expr} (h : All2 SameFV as bs) : SameFV (.app op as) (.app op' bs) := by
  intro v
  simp only [freeVars]
  induction as generalizing bs with
  | nil =>
    cases bs with
    | nil => exact Iff.rfl
    | cons b bs => exact h.elim
  | cons a as ih =>
    cases bs with
    | nil => exact h.elim
    | cons b bs =>
      simp only [freeVarsList, List.mem_append]
      rw [h.1 v, ih h.2]

end UPVerif.FromPddl
