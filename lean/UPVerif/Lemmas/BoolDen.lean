import UPVerif.Core.Den
/-!
Boolean view of the reference denotation, used by the NNF/DNF proofs (C12).

`bden e = some v` iff `den e = some (.b v)`; undefined AND non-Boolean both map to `none`.
-/
namespace UPVerif

def toB : Option Val → Option Bool
  | some (.b v) => some v
  | _ => none

def bden (ι : Interp) (ρ : VEnv) (e : Expr) : Option Bool := toB (den ι ρ e)

def bdenList (ι : Interp) (ρ : VEnv) : List Expr → Option (List Bool)
  | [] => some []
  | e :: es =>
    match bden ι ρ e, bdenList ι ρ es with
    | some v, some vs => some (v :: vs)
    | _, _ => none

theorem bden_eq_some {ι : Interp} {ρ : VEnv} {e : Expr} {v : Bool} :
    bden ι ρ e = some v ↔ den ι ρ e = some (.b v) := by
  unfold bden toB
  split
  · rename_i w h; rw [h]; simp
  · rename_i h
    constructor
    · intro h'; cases h'
    · intro h'; exact absurd h' (by intro h''; exact h _ h'')

/-- `allBools` of the children values of a Boolean connective, in terms of `bdenList` -/
theorem allBools_denList {ι : Interp} {ρ : VEnv} (es : List Expr) :
    (denList ι ρ es).bind allBools = bdenList ι ρ es := by
  induction es with
  | nil => simp [denList, allBools, bdenList]
  | cons e es ih =>
    simp only [denList, bdenList, bden]
    cases hd : den ι ρ e with
    | none => simp [toB]
    | some v =>
      cases hl : denList ι ρ es with
      | none =>
        simp only [hl, Option.bind_none] at ih
        cases v <;> simp [toB, ← ih]
      | some vs =>
        simp only [hl, Option.bind_some] at ih
        cases v with
        | b x =>
          simp only [Option.bind_some, allBools, toB, ← ih]
          cases allBools vs <;> simp
        | n q => simp [allBools, toB]
        | o s => simp [allBools, toB]

theorem denOp_and (ι : Interp) (vs : List Val) :
    denOp ι .and vs = (allBools vs).map (fun bs => .b (bs.all id)) := by
  unfold denOp; rfl
theorem denOp_or (ι : Interp) (vs : List Val) :
    denOp ι .or vs = (allBools vs).map (fun bs => .b (bs.any id)) := by
  unfold denOp; rfl

theorem bden_and {ι : Interp} {ρ : VEnv} (es : List Expr) :
    bden ι ρ (.app .and es) = (bdenList ι ρ es).map (fun bs => bs.all id) := by
  unfold bden
  simp only [den]
  rw [← allBools_denList]
  cases denList ι ρ es with
  | none => simp [toB]
  | some vs => rw [Option.bind_some, Option.bind_some, denOp_and]; cases h : allBools vs <;> simp [toB]

theorem bden_or {ι : Interp} {ρ : VEnv} (es : List Expr) :
    bden ι ρ (.app .or es) = (bdenList ι ρ es).map (fun bs => bs.any id) := by
  unfold bden
  simp only [den]
  rw [← allBools_denList]
  cases denList ι ρ es with
  | none => simp [toB]
  | some vs => rw [Option.bind_some, Option.bind_some, denOp_or]; cases h : allBools vs <;> simp [toB]

theorem bden_not {ι : Interp} {ρ : VEnv} (e : Expr) :
    bden ι ρ (.app .not [e]) = (bden ι ρ e).map (!·) := by
  unfold bden
  simp only [den, denList]
  cases h : den ι ρ e with
  | none => simp [toB]
  | some v => cases v <;> simp [toB, denOp]

theorem bden_implies {ι : Interp} {ρ : VEnv} (a b : Expr) :
    bden ι ρ (.app .implies [a, b]) =
      (match bden ι ρ a, bden ι ρ b with
       | some x, some y => some (!x || y)
       | _, _ => none) := by
  unfold bden
  simp only [den, denList]
  cases ha : den ι ρ a with
  | none => simp [toB]
  | some va =>
    cases hb : den ι ρ b with
    | none => cases va <;> simp [toB]
    | some vb => cases va <;> cases vb <;> simp [toB, denOp]

theorem bden_iff {ι : Interp} {ρ : VEnv} (a b : Expr) :
    bden ι ρ (.app .iff [a, b]) =
      (match bden ι ρ a, bden ι ρ b with
       | some x, some y => some (x == y)
       | _, _ => none) := by
  unfold bden
  simp only [den, denList]
  cases ha : den ι ρ a with
  | none => simp [toB]
  | some va =>
    cases hb : den ι ρ b with
    | none => cases va <;> simp [toB]
    | some vb => cases va <;> cases vb <;> simp [toB, denOp]

theorem bden_tt {ι : Interp} {ρ : VEnv} : bden ι ρ Expr.tt = some true := by
  simp [bden, Expr.tt, den, denLeaf, toB]
theorem bden_ff {ι : Interp} {ρ : VEnv} : bden ι ρ Expr.ff = some false := by
  simp [bden, Expr.ff, den, denLeaf, toB]

/-- the manager's `And` (0/1-argument collapse) has the meaning of the n-ary conjunction -/
theorem bden_mkAnd {ι : Interp} {ρ : VEnv} (es : List Expr) :
    bden ι ρ (Expr.mkAnd es) = (bdenList ι ρ es).map (fun bs => bs.all id) := by
  match es with
  | [] => simp [Expr.mkAnd, bden_tt, bdenList]
  | [x] =>
    simp only [Expr.mkAnd, bdenList]
    cases bden ι ρ x <;> simp
  | x :: y :: r => simp only [Expr.mkAnd]; exact bden_and _

theorem bden_mkOr {ι : Interp} {ρ : VEnv} (es : List Expr) :
    bden ι ρ (Expr.mkOr es) = (bdenList ι ρ es).map (fun bs => bs.any id) := by
  match es with
  | [] => simp [Expr.mkOr, bden_ff, bdenList]
  | [x] =>
    simp only [Expr.mkOr, bdenList]
    cases bden ι ρ x <;> simp
  | x :: y :: r => simp only [Expr.mkOr]; exact bden_or _

/-- the manager's `Not` (double negation collapsed) has the meaning of negation — on Boolean
    operands; `Not(Not x)` ↦ `x` changes definedness only when `x` is not Boolean, which `bden`
    already maps to `none` -/
theorem bden_mkNot {ι : Interp} {ρ : VEnv} (e : Expr) :
    bden ι ρ (Expr.mkNot e) = (bden ι ρ e).map (!·) := by
  unfold Expr.mkNot
  split
  · rename_i x
    rw [bden_not]
    cases bden ι ρ x <;> simp
  · exact bden_not e

end UPVerif
