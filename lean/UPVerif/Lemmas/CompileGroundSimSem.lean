import UPVerif.Lemmas.CompileGroundSim
/-!
Grounder (C06), part 8: the original problem as the REAL SIMULATOR reads it.

`UPSequentialSimulator` (and through it `SequentialPlanValidator`) does not apply the instance `(a, args)` as written: it
first grounds it with its own `GrounderHelper(prune_actions = False)` (C01: `Spec.apply`, `Sim.ground W` with the
simulator's simplifier `W.simp`) and REJECTS the instance when that grounding answers `None` — in particular when two
unconditional assignments to one fluent have syntactically different values (`_add_effect_instance`).  `stepSim` /
`tsSim` is that reading.

* `stepSim_eq_stepInst`: where the simulator's grounding accepts the instance, the two readings agree;
* `lifted_run_sim`: a run of instances as written is a run for the simulator provided no visited instance is rejected
  (`simAccepts`, decidable).  Without that hypothesis the Grounder compiler is UNSOUND for the simulator's reading:
  `Simplifier(env, problem)` can turn two different value expressions into the same constant (a static fluent replaced
  by its initial value), the ground action then passes the conflict check that the simulator's own grounding of the
  same instance fails (finding C06-static-conflict-coinciding-values; kernel-checked witness in Props/C06Ground.lean).
-/
namespace UPVerif.Compile.Ground
open UPVerif UPVerif.Compile UPVerif.Expr UPVerif.Sim UPVerif.Spec UPVerif.Simulation

/-- one step of the instance `(a, args)` as `UPSequentialSimulator.apply` makes it (C01, `Spec.apply`): ground with the
    simulator's helper, then the documented successor of the ground instance -/
def stepSim (W : World) (g : St) (a : Action) (args : List String) : Option St :=
  if (instancesOf W.P a).contains args then
    match Sim.ground W a args with
    | .ok (some ga) => succOf W g ga.pre (expandEffs W.P ga.effs)
    | _ => none
  else none

/-- the transition system of all instances for the real simulator -/
def tsSim (W : World) : TS St (Nat × List String) where
  init := initOf W
  step g ia := match W.P.actions[ia.1]? with
    | some a => stepSim W g a ia.2
    | none => none
  goal g := goalOK W g = true

/-- `stepSim` IS the documented result of `apply` (Spec/Successor.lean, which C01 proves the simulator computes) -/
theorem stepSim_is_spec_apply (W : World) (s : SimState) (a : Action) (args : List String)
    (h : args ∈ instancesOf W.P a) : stepSim W (s.get W.P) a args = Spec.apply W s a args := by
  unfold stepSim Spec.apply
  have : (instancesOf W.P a).contains args = true := by simpa using h
  rw [this]
  simp only [if_true]
  cases Sim.ground W a args with
  | error x => rfl
  | ok o =>
    cases o with
    | none => rfl
    | some ga => rfl

theorem createEffect_world (W W' : World) (h : W'.simp = W.simp) (σ : Subst) (e : Effect) :
    createEffect W' σ e = createEffect W σ e := by
  unfold createEffect
  rw [h]

theorem groundEffects_world (W W' : World) (h : W'.simp = W.simp) (σ : Subst) :
    ∀ (es : List Effect) (acc : StaticAcc) (out : List Effect),
      groundEffects W' σ es acc out = groundEffects W σ es acc out
  | [], _, _ => rfl
  | e :: es, acc, out => by
    unfold groundEffects
    rw [createEffect_world W W' h]
    cases createEffect W σ e with
    | error x => rfl
    | ok o =>
      cases o with
      | none => exact groundEffects_world W W' h σ es acc out
      | some e' =>
        dsimp only
        cases staticStep acc e' with
        | none => rfl
        | some acc' => exact groundEffects_world W W' h σ es acc' (out ++ [e'])

/-- `create_action_with_given_subs` only uses the problem and the simplifier of the world -/
theorem ground_world_eq (W : World) (a : Action) (args : List String) :
    Sim.ground (groundWorld W.simp W.P) a args = Sim.ground W a args := by
  unfold Sim.ground
  dsimp only
  have hP : (groundWorld W.simp W.P).P = W.P := rfl
  rw [hP, groundEffects_world W (groundWorld W.simp W.P) rfl]
  cases groundEffects W (paramSubst W.P a args) a.effs ⟨[], []⟩ [] with
  | error x => rfl
  | ok o =>
    cases o with
    | none => rfl
    | some effs =>
      dsimp only
      rw [simplifyPre_eq, simplifyPre_eq]
      rfl

/-- the simulator's grounding neither raises nor finds a static conflict on any instance of any action
    (decidable; excludes the cause of finding C06-static-conflict-coinciding-values) -/
def simAccepts (W : World) : Bool :=
  W.P.actions.all (fun a => (instancesOf W.P a).all (fun args =>
    match groundEffects W (paramSubst W.P a args) a.effs ⟨[], []⟩ [] with
    | .ok (some _) => true
    | _ => false))

/-- every instance satisfies the decidable side conditions of the step lemma for the simulator's simplifier -/
def simInstOK (W : World) : Bool :=
  W.P.actions.all (fun a => (instancesOf W.P a).all (fun args => groundInstOK W.simp W.P a args))

/-- what is assumed of the simulator's own grounding -/
structure SimHyp (W : World) : Prop where
  /-- the simulator's simplifier (`env.simplifier`) is exact on closed instances in the static-respecting states -/
  exact : ∀ g, StaticInv W g → SimpInstExact (ctxOf W g) W.P W.simp
  /-- decidable, as `groundOK` -/
  inst : simInstOK W = true
  /-- decidable: the open finding -/
  accepts : simAccepts W = true

/-- where the simulator's grounding accepts the instance the two readings agree -/
theorem stepSim_eq_stepInst {W : World} {g : St} {a : Action} {args : List String} {ga : GAction}
    (hex : SimpInstExact (ctxOf W g) W.P W.simp) (hok : groundInstOK W.simp W.P a args = true)
    (hg : Sim.ground W a args = .ok (some ga)) : stepSim W g a args = stepInst W g a args := by
  unfold stepSim stepInst
  split
  · rw [hg]
    exact ground_step hex ((ground_world_eq W a args).trans hg) hok
  · rfl

/-- an instance that steps as written steps for the simulator, if the simulator's grounding accepts it -/
theorem stepSim_of_stepInst {W : World} (hs : SimHyp W) {g g' : St} (hinv : StaticInv W g) {a : Action}
    {args : List String} (ha : a ∈ W.P.actions) (h : stepInst W g a args = some g') : stepSim W g a args = some g' := by
  obtain ⟨hmem, hstep⟩ := stepInst_some h
  have hok : groundInstOK W.simp W.P a args = true := by
    have := hs.inst
    unfold simInstOK at this
    rw [List.all_eq_true] at this
    have h1 := this a ha
    rw [List.all_eq_true] at h1
    exact h1 args hmem
  have hacc : ∃ effs, groundEffects W (paramSubst W.P a args) a.effs ⟨[], []⟩ [] = .ok (some effs) := by
    have := hs.accepts
    unfold simAccepts at this
    rw [List.all_eq_true] at this
    have h1 := this a ha
    rw [List.all_eq_true] at h1
    have h2 := h1 args hmem
    split at h2
    · rename_i effs he; exact ⟨effs, he⟩
    · cases h2
  obtain ⟨effs, he⟩ := hacc
  have hex := hs.exact g hinv
  have hpc : freeVars (mkAnd (a.pre.map (substE (paramSubst W.P a args)))) = [] := by
    unfold groundInstOK at hok
    rw [Bool.and_eq_true] at hok
    simpa using hok.1
  have hstep' := hstep
  rw [stepAct_instAct] at hstep'
  have hpre := succOf_some_pre hstep'
  rw [instAct_pre] at hpre
  -- the simplified preconditions are not FALSE: they hold
  have hsp := preOK_simplifyPre' (simp := W.simp) (ctxOf W g) (a.pre.map (substE (paramSubst W.P a args)))
    (hex.closed hpc)
  rw [hpre] at hsp
  cases hpp : simplifyPreWith W.simp (a.pre.map (substE (paramSubst W.P a args))) with
  | none => rw [hpp] at hsp; cases hsp
  | some pre' =>
    have hg : Sim.ground W a args = .ok (some { pre := pre', effs := effs }) := by
      unfold Sim.ground
      dsimp only
      rw [he]
      dsimp only
      rw [simplifyPre_eq, hpp]
    rw [stepSim_eq_stepInst hex hok hg]
    exact h

/-- a run of instances as written, from a static-respecting state, is a run for the simulator -/
theorem lifted_run_sim {W : World} (hs : SimHyp W) (hwf : effTargetsWF W.P = true) :
    ∀ (π : List (Nat × List String)) (g gf : St), StaticInv W g → (tsLifted W).run g π = some gf →
      (tsSim W).run g π = some gf
  | [], g, gf, _, hr => hr
  | (i, args) :: π, g, gf, hinv, hr => by
    simp only [TS.run] at hr ⊢
    cases hst : (tsLifted W).step g (i, args) with
    | none => rw [hst] at hr; cases hr
    | some g' =>
      rw [hst] at hr
      have hst' : (match W.P.actions[i]? with
        | some a => stepInst W g a args
        | none => none) = some g' := hst
      cases ha : W.P.actions[i]? with
      | none => rw [ha] at hst'; cases hst'
      | some a =>
        rw [ha] at hst'
        have ham : a ∈ W.P.actions := List.mem_of_getElem? ha
        have h1 : (tsSim W).step g (i, args) = some g' := by
          show (match W.P.actions[i]? with
            | some a => stepSim W g a args
            | none => none) = some g'
          rw [ha]
          exact stepSim_of_stepInst hs hinv ham hst'
        rw [h1]
        exact lifted_run_sim hs hwf π g' gf (staticInv_step hwf ham hinv hst') hr

theorem lifted_valid_sim {W : World} (hs : SimHyp W) (hwf : effTargetsWF W.P = true) {π : List (Nat × List String)}
    (h : (tsLifted W).Valid π) : (tsSim W).Valid π := by
  obtain ⟨g0, gf, hi, hr, hg⟩ := h
  exact ⟨g0, gf, hi, lifted_run_sim hs hwf π g0 gf (StaticInv_init hi) hr, hg⟩

/-! ### executable validity for the simulator's reading -/

def validSB (W : World) (π : List (Nat × List String)) : Bool :=
  match initOf W with
  | none => false
  | some g =>
    match (tsSim W).run g π with
    | none => false
    | some gf => goalOK W gf

theorem validSB_complete {W : World} {π : List (Nat × List String)} (h : (tsSim W).Valid π) : validSB W π = true := by
  obtain ⟨g, gf, hi, hr, hg⟩ := h
  unfold validSB
  have : initOf W = some g := hi
  rw [this]
  dsimp only
  rw [hr]
  exact hg

end UPVerif.Compile.Ground
