import UPVerif.Lemmas.IFChangingLemmas
import UPVerif.Lemmas.DenLemmas
import UPVerif.Spec.IFIndependence
/-! Helper lemmas for `Props/C31Closure.lean`, semantic side: `den` depends on the interpreted functions only through the
interpreted-function applications of the expression and on the state only through the fluents it reads; hence the writes
of effects whose target is outside a closed set are the same in two worlds that differ in the interpreted functions. -/
namespace UPVerif.IFChanging
open UPVerif UPVerif.Expr

theorem hasIfun_false_iff (e : Expr) : hasIfun e = false ↔ ifunExps e = [] := by
  unfold hasIfun
  cases ifunExps e <;> simp

theorem ifunExps_app_nil {op : Op} {args : List Expr} (h : ifunExps (.app op args) = []) :
    ifunExpsList args = [] ∧ ∀ g, op ≠ .ifun g := by
  cases op <;> simp [ifunExps] at h ⊢ <;> exact h

theorem denOp_congr_noifun (ι ι' : Interp) (op : Op) (vs : List Val) (hno : ∀ g, op ≠ .ifun g)
    (h : ∀ f, op = .fluent f → ι'.fl f vs = ι.fl f vs) : denOp ι' op vs = denOp ι op vs := by
  cases op with
  | fluent f => simp only [denOp]; exact h f rfl
  | ifun g => exact absurd rfl (hno g)
  | _ => first | rfl | (unfold denOp; split <;> first | rfl | simp_all)

mutual
/-- `den` of an expression WITHOUT interpreted-function application is the same under two interpretations that agree on
    parameters, domains and on every fluent the expression reads - whatever the interpreted functions are -/
theorem den_congr_reads (ι ι' : Interp) (hpar : ι'.par = ι.par) (hdom : ι'.dom = ι.dom) :
    ∀ (e : Expr) (ρ : VEnv), ifunExps e = [] → (∀ f ∈ fluentsRead e, ∀ vs, ι'.fl f vs = ι.fl f vs) →
      den ι' ρ e = den ι ρ e
  | .leaf l, ρ, _, _ => by
    rw [den_leaf, den_leaf]
    cases l <;> simp [denLeaf, hpar]
  | .app op as, ρ, hi, h => by
    obtain ⟨hia, hno⟩ := ifunExps_app_nil hi
    rw [den_app, den_app, denList_congr_reads ι ι' hpar hdom as ρ hia
      (fun f hf vs => h f (by rw [fluentsRead]; exact List.mem_append_left _ hf) vs)]
    cases denList ι ρ as with
    | none => rfl
    | some vs =>
      simp only [Option.bind_some]
      apply denOp_congr_noifun ι ι' op vs hno
      intro f hf
      subst hf
      exact h f (by rw [fluentsRead]; simp [opFluent]) vs
  | .quant q vs b, ρ, hi, h => by
    rw [den_quant, den_quant, assignments_congr ι ι' hdom]
    congr 2
    apply List.map_congr_left
    intro a _
    exact den_congr_reads ι ι' hpar hdom b _ (by rw [ifunExps] at hi; exact hi)
      (fun f hf => h f (by rw [fluentsRead]; exact hf))
theorem denList_congr_reads (ι ι' : Interp) (hpar : ι'.par = ι.par) (hdom : ι'.dom = ι.dom) :
    ∀ (es : List Expr) (ρ : VEnv), ifunExpsList es = [] →
      (∀ f ∈ fluentsReadList es, ∀ vs, ι'.fl f vs = ι.fl f vs) → denList ι' ρ es = denList ι ρ es
  | [], _, _, _ => by rw [denList_nil, denList_nil]
  | e :: es, ρ, hi, h => by
    rw [ifunExpsList, List.append_eq_nil_iff] at hi
    rw [denList_cons, denList_cons,
      den_congr_reads ι ι' hpar hdom e ρ hi.1
        (fun f hf => h f (by rw [fluentsReadList]; exact List.mem_append_left _ hf)),
      denList_congr_reads ι ι' hpar hdom es ρ hi.2
        (fun f hf => h f (by rw [fluentsReadList]; exact List.mem_append_right _ hf))]
end

/-! ### writes -/

theorem write_target {ι : Interp} {ρ : VEnv} {ef : Effect} {acc : St} {f : FluentRef} {ws : List Val} {v : Val}
    (h : write ι ρ ef acc = some (f, ws, v)) : target? ef = some f := by
  unfold write at h
  unfold target?
  split at h
  · rename_i f' args hfl
    rw [hfl]
    simp only [Option.map_eq_some_iff] at h
    obtain ⟨p, _, hp⟩ := h
    cases hp
    rfl
  · cases h

theorem agreeOff_upd_in {S : List FluentRef} {σ₁ σ₂ : St} (h : AgreeOff S σ₁ σ₂) {f : FluentRef} (hf : f ∈ S)
    (ws₁ ws₂ : List Val) (v₁ v₂ : Val) : AgreeOff S (upd σ₁ f ws₁ v₁) (upd σ₂ f ws₂ v₂) := by
  intro g hg us
  have hne : g ≠ f := fun e => hg (e ▸ hf)
  simp [upd, hne, h g hg us]

theorem agreeOff_upd_left {S : List FluentRef} {σ₁ σ₂ : St} (h : AgreeOff S σ₁ σ₂) {f : FluentRef} (hf : f ∈ S)
    (ws : List Val) (v : Val) : AgreeOff S (upd σ₁ f ws v) σ₂ := by
  intro g hg us
  have hne : g ≠ f := fun e => hg (e ▸ hf)
  simp [upd, hne, h g hg us]

theorem agreeOff_upd_right {S : List FluentRef} {σ₁ σ₂ : St} (h : AgreeOff S σ₁ σ₂) {f : FluentRef} (hf : f ∈ S)
    (ws : List Val) (v : Val) : AgreeOff S σ₁ (upd σ₂ f ws v) := by
  intro g hg us
  have hne : g ≠ f := fun e => hg (e ▸ hf)
  simp [upd, hne, h g hg us]

theorem agreeOff_upd_same {S : List FluentRef} {σ₁ σ₂ : St} (h : AgreeOff S σ₁ σ₂) (f : FluentRef)
    (ws : List Val) (v : Val) : AgreeOff S (upd σ₁ f ws v) (upd σ₂ f ws v) := by
  intro g hg us
  simp only [upd]
  split
  · rfl
  · exact h g hg us

/-- what `_find_changing_fluents` does not look at:
    * an interpreted function in an effect CONDITION (documented restriction of the statement: open finding
      D-C31-unremoved-ifun);
    * the ARGUMENTS of an effect target: they contain neither a fluent application nor an interpreted function in any
      real `Effect` (`Effect.__init__`, unified_planning/model/effect.py:79-91, raises `UPProblemDefinitionError`
      otherwise), so this half is a well-formedness condition of the input, not a restriction. -/
def TargetsPlain (effs : List Effect) : Prop :=
  ∀ ef ∈ effs, ifunExps ef.cond = [] ∧
    ∀ f args, ef.fluent = .app (.fluent f) args → ifunExpsList args = [] ∧ fluentsReadList args = []

/-- the write of an effect whose target is OUTSIDE a closed set is the same in the two worlds -/
theorem write_eq_off {effs : List Effect} {S : List FluentRef} (hc : Closed effs S) (hp : TargetsPlain effs)
    {ι₁ ι₂ : Interp} (hpar : ι₂.par = ι₁.par) (hdom : ι₂.dom = ι₁.dom)
    (hfl : ∀ f, f ∉ S → ∀ ws, ι₂.fl f ws = ι₁.fl f ws) {acc₁ acc₂ : St} (hacc : AgreeOff S acc₁ acc₂)
    {ef : Effect} (hef : ef ∈ effs) (ρ : VEnv) {f : FluentRef} (ht : target? ef = some f) (hf : f ∉ S) :
    write ι₂ ρ ef acc₂ = write ι₁ ρ ef acc₁ := by
  obtain ⟨hrule1, hrule2⟩ := closed_rule hc hef ht
  have hni : hasIfun ef.value = false := by
    cases h : hasIfun ef.value with
    | false => rfl
    | true => exact absurd (hrule1 h) hf
  have hreads : ∀ g ∈ reads ef, g ∉ S := fun g hg hgS => hf (hrule2 hni g hg hgS)
  obtain ⟨hci, hargs⟩ := hp ef hef
  unfold target? at ht
  unfold write
  split at ht
  · rename_i f' args hfl'
    cases ht
    rw [hfl']
    simp only
    obtain ⟨hai, har⟩ := hargs f args hfl'
    rw [den_congr_reads ι₁ ι₂ hpar hdom ef.cond ρ hci
        (fun g hg vs => hfl g (hreads g (by unfold reads; exact List.mem_append_right _ hg)) vs),
      denList_congr_reads ι₁ ι₂ hpar hdom args ρ hai (fun g hg _ => by rw [har] at hg; cases hg),
      den_congr_reads ι₁ ι₂ hpar hdom ef.value ρ ((hasIfun_false_iff _).mp hni)
        (fun g hg vs => hfl g (hreads g (by unfold reads; exact List.mem_append_left _ hg)) vs)]
    have : acc₂ f = acc₁ f := funext (fun ws => (hacc f hf ws).symm)
    rw [this]
  · cases ht

theorem applyInsts_agree {effs : List Effect} {S : List FluentRef} (hc : Closed effs S) (hp : TargetsPlain effs)
    {ι₁ ι₂ : Interp} (hpar : ι₂.par = ι₁.par) (hdom : ι₂.dom = ι₁.dom)
    (hfl : ∀ f, f ∉ S → ∀ ws, ι₂.fl f ws = ι₁.fl f ws) :
    ∀ (insts : List (VEnv × Effect)), (∀ i ∈ insts, i.2 ∈ effs) → ∀ (acc₁ acc₂ : St), AgreeOff S acc₁ acc₂ →
      AgreeOff S (applyInsts ι₁ insts acc₁) (applyInsts ι₂ insts acc₂)
  | [], _, _, _, h => by simpa [applyInsts] using h
  | (ρ, ef) :: r, hin, acc₁, acc₂, h => by
    rw [applyInsts, applyInsts]
    apply applyInsts_agree hc hp hpar hdom hfl r (fun i hi => hin i (List.mem_cons_of_mem _ hi))
    have hef : ef ∈ effs := hin (ρ, ef) (List.mem_cons_self ..)
    cases ht : target? ef with
    | none =>
      have h1 : write ι₁ ρ ef acc₁ = none := by
        cases hw : write ι₁ ρ ef acc₁ with
        | none => rfl
        | some t => obtain ⟨f, ws, v⟩ := t; rw [write_target hw] at ht; cases ht
      have h2 : write ι₂ ρ ef acc₂ = none := by
        cases hw : write ι₂ ρ ef acc₂ with
        | none => rfl
        | some t => obtain ⟨f, ws, v⟩ := t; rw [write_target hw] at ht; cases ht
      rw [h1, h2]; exact h
    | some f =>
      by_cases hf : f ∈ S
      · -- whatever is written goes to a fluent of `S`
        cases hw1 : write ι₁ ρ ef acc₁ with
        | none =>
          cases hw2 : write ι₂ ρ ef acc₂ with
          | none => exact h
          | some t =>
            obtain ⟨f₂, ws₂, v₂⟩ := t
            have : f₂ = f := by have := write_target hw2; rw [ht] at this; cases this; rfl
            subst this
            exact agreeOff_upd_right h hf ws₂ v₂
        | some t =>
          obtain ⟨f₁, ws₁, v₁⟩ := t
          have e1 : f₁ = f := by have := write_target hw1; rw [ht] at this; cases this; rfl
          subst e1
          cases hw2 : write ι₂ ρ ef acc₂ with
          | none => exact agreeOff_upd_left h hf ws₁ v₁
          | some t =>
            obtain ⟨f₂, ws₂, v₂⟩ := t
            have : f₂ = f₁ := by have := write_target hw2; rw [ht] at this; cases this; rfl
            subst this
            exact agreeOff_upd_in h hf ws₁ ws₂ v₁ v₂
      · rw [write_eq_off hc hp hpar hdom hfl h hef ρ ht hf]
        cases write ι₁ ρ ef acc₁ with
        | none => exact h
        | some t => obtain ⟨f', ws, v⟩ := t; exact agreeOff_upd_same h f' ws v

theorem run_agree {effs : List Effect} {S : List FluentRef} (hc : Closed effs S) (hp : TargetsPlain effs)
    (fn₁ fn₂ : FunRef → List Val → Option Val) (dom : Ty → List Val) :
    ∀ (steps : List Step), (∀ s ∈ steps, ∀ i ∈ s.insts, i.2 ∈ effs) → ∀ (σ₁ σ₂ : St), AgreeOff S σ₁ σ₂ →
      AgreeOff S (run fn₁ dom steps σ₁) (run fn₂ dom steps σ₂)
  | [], _, _, _, h => by simpa [run] using h
  | s :: r, hin, σ₁, σ₂, h => by
    rw [run, run]
    apply run_agree hc hp fn₁ fn₂ dom r (fun s' hs' => hin s' (List.mem_cons_of_mem _ hs'))
    unfold stepState
    exact applyInsts_agree hc hp (ι₁ := interp fn₁ dom s.par σ₁) (ι₂ := interp fn₂ dom s.par σ₂) rfl rfl
      (fun f hf ws => (h f hf ws).symm) s.insts (hin s (List.mem_cons_self ..)) σ₁ σ₂ h

end UPVerif.IFChanging
