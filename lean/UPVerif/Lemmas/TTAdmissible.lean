import UPVerif.Lemmas.TTPerm
/-!
Helper lemmas for `Props/C05.lean`: the decidable domain check `Admissible` gives the hypotheses of the
main connection; the main connection for the plan in listing order; fuel; the duration constraint.
-/
namespace UPVerif.TT
open UPVerif UPVerif.Expr UPVerif.Sim UPVerif.Spec UPVerif.Spec.Temporal

theorem wellTimed_of_B {W : World} {acts : List (Step × Nat)} (h : wellTimedB W acts = true) : WellTimed W acts := by
  intro a ha ev cs hi x hx
  unfold wellTimedB at h
  rw [List.all_eq_true] at h
  have := h a ha
  rw [hi] at this
  simp only [List.all_eq_true, decide_eq_true_eq] at this
  exact this x hx

theorem proper_of_B {dc : DCond} (h : properB dc = true) : Proper dc.start dc.end dc.lopen dc.ropen := by
  unfold properB at h
  unfold Proper
  cases he : dc.end with
  | none => trivial
  | some e =>
    rw [he] at h
    simp only [Bool.or_eq_true, Bool.and_eq_true, decide_eq_true_eq, Bool.not_eq_eq_eq_not, Bool.not_true] at h
    rcases h with h | h
    · exact Or.inl h
    · exact Or.inr ⟨h.1.1, h.1.2, h.2⟩

theorem sane_of_B {E : List Sched} {C : List DCond} (h : saneB (some (E, C)) = true) : SaneItems E C := by
  unfold saneB at h
  simp only [Bool.and_eq_true, List.all_eq_true, decide_eq_true_eq] at h
  exact ⟨h.1, fun dc hdc => ⟨(h.2 dc hdc).1, proper_of_B (h.2 dc hdc).2⟩⟩

theorem saneItems_perm {E E' : List Sched} {C C' : List DCond} (hE : E.Perm E') (hC : C.Perm C')
    (h : SaneItems E C) : SaneItems E' C' :=
  ⟨fun ev hev => h.1 ev (hE.mem_iff.2 hev), fun dc hdc => h.2 dc (hC.mem_iff.2 hdc)⟩

/-- MAIN CONNECTION, for the plan as listed -/
theorem validate_valid_iff_listing (W : World) (T : TProblem) (π : List Step) (hadm : Admissible W T π = true) :
    validate W T π = .ok .valid ↔ Valid W T π := by
  unfold Admissible at hadm
  rw [Bool.and_eq_true] at hadm
  have hperm := procOrder_perm (indexed π)
  have hwt : WellTimed W (procOrder (indexed π)) := by
    intro a ha
    exact wellTimed_of_B hadm.1 a (hperm.mem_iff.1 ha)
  have hsane : ∀ E C, itemsOf W T (procOrder (indexed π)) = some (E, C) → SaneItems E C := by
    intro E C hE
    have hp := itemsOf_perm (W := W) (T := T) hperm
    rw [hE] at hp
    cases hl : itemsOf W T (indexed π) with
    | none => rw [hl] at hp; exact absurd hp id
    | some q =>
      rw [hl] at hp
      obtain ⟨E', C'⟩ := q
      have hs : saneB (some (E', C')) = true := by
        have := hadm.2
        unfold items at this
        rwa [hl] at this
      exact saneItems_perm hp.1.symm hp.2.symm (sane_of_B hs)
  rw [validate_valid_iff W T π hwt hsane]
  exact validOf_perm hperm

/-! ### fuel -/

theorem run_no_fuel (W : World) : ∀ (fuel : Nat) (L : Loop), measure L < fuel → run W fuel L ≠ .error .fuel
  | 0, L, h => by omega
  | fuel + 1, L, hm => by
    have hstart : ∀ st idx rest, L.acts = (st, idx) :: rest →
        (match startStep W L st idx rest with
          | .ok (.inr L') => run W fuel L'
          | r => r) ≠ .error .fuel := by
      intro st idx rest hacts
      cases hs : startStep W L st idx rest with
      | error e =>
        unfold startStep at hs
        split at hs
        · cases hs; simp
        · cases hs
        · cases hs
      | ok x =>
        cases x with
        | inl v => simp
        | inr L' =>
          obtain ⟨ev, cs, hi, rfl⟩ := startStep_inr.1 hs
          have hlen := stepItems_length hi
          apply run_no_fuel W fuel
          unfold measure at hm ⊢
          rw [hacts] at hm
          simp only [List.length_cons, List.map_cons, List.sum_cons, List.length_append] at hm ⊢
          omega
    have heff : ∀ m, minTime L.sched = some m →
        (match effectsStep W L m with
          | .ok (.inr L') => run W fuel L'
          | r => r) ≠ .error .fuel := by
      intro m hmin
      cases hs : effectsStep W L m with
      | error e =>
        unfold effectsStep at hs
        simp only at hs
        split at hs
        · cases hs
        · cases hs
        · cases hs; simp
        · cases hs; simp
        · cases hs
      | ok x =>
        cases x with
        | inl v => simp
        | inr L' =>
          obtain ⟨s', _, rfl⟩ := effectsStep_inr.1 hs
          obtain ⟨⟨x, hx, hxm⟩, _⟩ := minTime_some hmin
          apply run_no_fuel W fuel
          unfold measure at hm ⊢
          have := length_filter_lt (p := fun x : Sched => decide (x.time ≠ m)) (l := L.sched) ⟨x, hx, by simp [hxm]⟩
          simp only
          omega
    unfold run
    split
    · simp
    · rename_i hacts _; exact hstart _ _ _ hacts
    · rename_i hmin; exact heff _ hmin
    · rename_i hacts hmin
      split
      · exact hstart _ _ _ hacts
      · exact heff _ hmin

/-- the model's loop never runs out of fuel -/
theorem validate_no_fuel (W : World) (T : TProblem) (π : List Step) : validate W T π ≠ .error .fuel := by
  unfold validate
  cases hL : initLoop W T π with
  | error e =>
    unfold initLoop at hL
    split at hL
    · cases hL; simp
    · split at hL
      · cases hL; simp
      · split at hL
        · cases hL; simp
        · cases hL
  | ok L0 =>
    obtain ⟨sch, gc, s0, hte, _, _, rfl⟩ := initLoop_ok.1 hL
    have := run_no_fuel W (fuelFor T π) (loop0 W π sch gc s0) (measure_init rfl (timedSched_length hte))
    simp only
    cases hr : run W (fuelFor T π) (loop0 W π sch gc s0) with
    | error e =>
      simp only
      intro h
      cases h
      exact this hr
    | ok x =>
      cases x with
      | inl v => simp
      | inr Lf =>
        simp only
        unfold finish
        split
        · simp
        · simp
        · split <;> simp

end UPVerif.TT
