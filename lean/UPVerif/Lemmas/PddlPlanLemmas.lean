import UPVerif.Core.PddlNorm
/-! Helper lemmas for the plan clause of `Props/C18.lean`. -/
namespace UPVerif.Pddl
open UPVerif

theorem mapM_objs_inv (ρ : Ren) (inv : Inv) (hinv : ∀ k s, (∃ n, k = .action n ∨ k = .obj n) → ρ k = some s → inv (lowerStr s) = some k) :
    ∀ (os : List String) (ts : List Sexp), os.mapM (fun o => (ρ (.obj o)).map A) = some ts →
      ts.mapM (readPlanObj inv) = some os
  | [], ts, h => by
    simp at h
    subst h
    simp
  | o :: os, ts, h => by
    simp only [List.mapM_cons, Option.bind_eq_bind, Option.bind_eq_some_iff, Option.map_eq_some_iff, Option.pure_def,
      Option.some.injEq] at h
    obtain ⟨t, ⟨s, hs, rfl⟩, rest, hrest, rfl⟩ := h
    have ih := mapM_objs_inv ρ inv hinv os rest hrest
    simp only [List.mapM_cons, A, readPlanObj, hinv _ _ ⟨_, Or.inr rfl⟩ hs, Option.bind_eq_bind, Option.bind_some, ih, Option.pure_def]

theorem readPlanStep_printPlanStep (ρ : Ren) (inv : Inv) (hinv : ∀ k s, (∃ n, k = .action n ∨ k = .obj n) → ρ k = some s → inv (lowerStr s) = some k)
    (step : String × List String) (t : Sexp) (h : printPlanStep ρ step = some t) : readPlanStep inv t = some step := by
  unfold printPlanStep at h
  simp only [Option.bind_eq_bind, Option.bind_eq_some_iff, Option.some.injEq] at h
  obtain ⟨a, ha, os, hos, rfl⟩ := h
  unfold readPlanStep
  simp only [L, A, readPlanAction, hinv _ _ ⟨_, Or.inl rfl⟩ ha, Option.bind_eq_bind, Option.bind_some, mapM_objs_inv ρ inv hinv _ _ hos]

theorem readPlan_printPlan (ρ : Ren) (inv : Inv) (hinv : ∀ k s, (∃ n, k = .action n ∨ k = .obj n) → ρ k = some s → inv (lowerStr s) = some k) :
    ∀ (plan : List (String × List String)) (trees : List Sexp), printPlan ρ plan = some trees →
      readPlan inv trees = some plan
  | [], trees, h => by
    simp [printPlan] at h
    subst h
    simp [readPlan]
  | st :: plan, trees, h => by
    simp only [printPlan, List.mapM_cons, Option.bind_eq_bind, Option.bind_eq_some_iff, Option.pure_def,
      Option.some.injEq] at h
    obtain ⟨t, ht, rest, hrest, rfl⟩ := h
    have ih := readPlan_printPlan ρ inv hinv plan rest (by simpa [printPlan] using hrest)
    simp only [readPlan] at ih ⊢
    simp only [List.mapM_cons, readPlanStep_printPlanStep ρ inv hinv st t ht, Option.bind_eq_bind, Option.bind_some,
      ih, Option.pure_def]

end UPVerif.Pddl
