import UPVerif.Core.Compile.Grounder
import UPVerif.Lemmas.CompileTS
import UPVerif.Lemmas.SubstBasic
/-!
Grounder (C06 / C07), part 1: bookkeeping.

* `itertools.product` (`cartesian`) by position; `_purge_items_list` only filters;
* substitution maps whose keys are leaves (parameters, variables) leave the head of an application alone;
* `split_all_ands`: its fuel suffices, every element is a conjunct of the list;
* unpacking of `grounderCompile`: every ground action comes from an instance of `get_possible_parameters` that
  `create_action_with_given_subs` accepted, and every such instance has its ground action.
-/
namespace UPVerif.Compile.Ground
open UPVerif UPVerif.Compile UPVerif.Expr UPVerif.Sim UPVerif.Spec

/-! ### `itertools.product` -/

theorem mem_cartesian {α : Type} : ∀ (ds : List (List α)) (l : List α),
    l ∈ cartesian ds ↔ (l.length = ds.length ∧ ∀ (k : Nat) x d, l[k]? = some x → ds[k]? = some d → x ∈ d)
  | [], l => by
    simp only [cartesian, List.mem_singleton, List.length_nil]
    constructor
    · rintro rfl; exact ⟨rfl, fun k x d h => by simp at h⟩
    · rintro ⟨h, _⟩; exact List.length_eq_zero_iff.1 h
  | d :: ds, l => by
    simp only [cartesian, List.mem_flatMap, List.mem_map]
    constructor
    · rintro ⟨x, hx, r, hr, rfl⟩
      obtain ⟨hl, hall⟩ := (mem_cartesian ds r).1 hr
      refine ⟨by simp [hl], ?_⟩
      intro k y e hk he
      cases k with
      | zero => simp at hk he; subst hk; subst he; exact hx
      | succ k => simp only [List.getElem?_cons_succ] at hk he; exact hall k y e hk he
    · rintro ⟨hl, hall⟩
      cases l with
      | nil => simp at hl
      | cons x r =>
        refine ⟨x, hall 0 x d (by simp) (by simp), r, ?_, rfl⟩
        refine (mem_cartesian ds r).2 ⟨by simpa using hl, ?_⟩
        intro k y e hk he
        exact hall (k + 1) y e (by simpa using hk) (by simpa using he)

theorem length_of_mem_cartesian {α : Type} {ds : List (List α)} {l : List α} (h : l ∈ cartesian ds) :
    l.length = ds.length := ((mem_cartesian ds l).1 h).1

/-- a pointwise smaller list of domains has a smaller product -/
theorem cartesian_mono {α : Type} {ds es : List (List α)} (hl : ds.length = es.length)
    (h : ∀ (k : Nat) d e, ds[k]? = some d → es[k]? = some e → ∀ x ∈ d, x ∈ e) {l : List α} (hm : l ∈ cartesian ds) :
    l ∈ cartesian es := by
  obtain ⟨h1, h2⟩ := (mem_cartesian ds l).1 hm
  refine (mem_cartesian es l).2 ⟨by omega, ?_⟩
  intro k x e hk he
  have hlt : k < ds.length := by
    have := (List.getElem?_eq_some_iff.1 hk).1
    omega
  have hd : ds[k]? = some ds[k] := List.getElem?_eq_getElem hlt
  exact h k _ e hd he x (h2 k x _ hk hd)

/-! ### `_purge_items_list` -/

theorem purgeStep_subset (P : Problem) (p : String × Ty) (tmp : List String) (c : Expr) :
    ∀ o ∈ purgeStep P p tmp c, o ∈ tmp := by
  intro o ho
  unfold purgeStep at ho
  split at ho
  · exact (List.mem_filter.1 ho).1
  · exact ho

theorem mem_foldl_purgeStep (P : Problem) (p : String × Ty) : ∀ (conds : List Expr) (tmp : List String) (o : String),
    o ∈ conds.foldl (purgeStep P p) tmp ↔
      (o ∈ tmp ∧ ∀ c ∈ conds, ∀ f as sp, c = .app (.fluent f) as → sigPos p c = some sp →
        (validParams P f sp).contains (objExpr P o) = true)
  | [], tmp, o => by simp
  | c :: cs, tmp, o => by
    rw [List.foldl_cons, mem_foldl_purgeStep P p cs]
    constructor
    · rintro ⟨h1, h2⟩
      refine ⟨purgeStep_subset P p tmp c o h1, ?_⟩
      intro c' hc' f as sp hf hsp
      rcases List.mem_cons.1 hc' with rfl | hc'
      · subst hf
        unfold purgeStep at h1
        rw [hsp] at h1
        exact (List.mem_filter.1 h1).2
      · exact h2 c' hc' f as sp hf hsp
    · rintro ⟨h1, h2⟩
      refine ⟨?_, fun c' hc' => h2 c' (List.mem_cons_of_mem _ hc')⟩
      unfold purgeStep
      split
      · rename_i f as sp hsp
        exact List.mem_filter.2 ⟨h1, h2 _ (List.mem_cons_self ..) f as sp rfl hsp⟩
      · exact h1

theorem length_purgeItems (P : Problem) (params : List (String × Ty)) (items : List (List String)) (conds : List Expr)
    (h : items.length = params.length) : (purgeItems P params items conds).length = items.length := by
  unfold purgeItems
  simp [h]

theorem getElem?_purgeItems {P : Problem} {params : List (String × Ty)} {items : List (List String)} {conds : List Expr}
    {k : Nat} {d : List String} (h : (purgeItems P params items conds)[k]? = some d) :
    ∃ p it, params[k]? = some p ∧ items[k]? = some it ∧ d = conds.foldl (purgeStep P p) it := by
  unfold purgeItems at h
  rw [List.getElem?_map] at h
  cases hz : (params.zip items)[k]? with
  | none => rw [hz] at h; cases h
  | some pi =>
    rw [hz] at h
    simp only [Option.map_some, Option.some.injEq] at h
    obtain ⟨h1, h2⟩ := List.getElem?_zip_eq_some.1 hz
    exact ⟨pi.1, pi.2, h1, h2, h.symm⟩

/-- pruning only removes parameter tuples: `get_possible_parameters ⊆ product of the parameter domains` -/
theorem possibleParameters_subset (P : Problem) (prune : Bool) (a : Action) {args : List String}
    (h : args ∈ possibleParameters P prune a) : args ∈ instancesOf P a := by
  unfold possibleParameters at h
  unfold instancesOf
  split at h
  · rename_i he
    have : a.params = [] := by simpa using he
    rw [this]
    simpa [cartesian] using h
  · cases prune with
    | false => exact h
    | true =>
      simp only [if_true] at h
      refine cartesian_mono ?_ ?_ h
      · rw [length_purgeItems]
        · rfl
        · simp [paramDomains]
      · intro k d e hd he x hx
        obtain ⟨p, it, _, hit, rfl⟩ := getElem?_purgeItems hd
        have : it = e := by
          unfold paramDomains at hit
          rw [hit] at he; exact Option.some.inj he
        subst this
        exact ((mem_foldl_purgeStep P p _ it x).1 hx).1

/-! ### substitution maps whose keys are leaves -/

def LeafKeys (σ : Subst) : Prop := ∀ kv ∈ σ, ∃ l, kv.1 = .leaf l

theorem LeafKeys.lookup_app {σ : Subst} (h : LeafKeys σ) (op : Op) (as : List Expr) : σ.lookup (.app op as) = none := by
  rw [lookup_eq_none_iff_forall]
  intro kv hkv he
  obtain ⟨l, hl⟩ := h kv hkv
  rw [hl] at he
  cases he

theorem substList_eq_map (σ : Subst) : ∀ (es : List Expr), substList σ es = es.map (subst σ)
  | [] => by rw [substList_nil]; rfl
  | e :: es => by rw [substList_cons, substList_eq_map σ es]; rfl

theorem subst_app_leafKeys {σ : Subst} (h : LeafKeys σ) (op : Op) (as : List Expr) :
    subst σ (.app op as) = rebuild op (as.map (subst σ)) := by
  rw [subst_app_none σ op as (h.lookup_app op as), substList_eq_map]

theorem substE_map_id {σ : Subst} (h : σ.isEmpty = true) (as : List Expr) : as.map (substE σ) = as := by
  have : substE σ = id := by funext e; unfold substE; rw [h]; rfl
  rw [this]; simp

/-- the head fluent of an application survives -/
theorem substE_fluent {σ : Subst} (h : LeafKeys σ) (f : FluentRef) (as : List Expr) :
    substE σ (.app (.fluent f) as) = .app (.fluent f) (as.map (substE σ)) := by
  by_cases he : σ.isEmpty = true
  · rw [substE_map_id he]
    unfold substE; rw [he]; rfl
  · have he' : σ.isEmpty = false := by simpa using he
    have : substE σ = subst σ := by funext e; unfold substE; rw [he']; rfl
    rw [this, subst_app_leafKeys h]
    rfl

theorem substE_and {σ : Subst} (h : LeafKeys σ) (as : List Expr) :
    substE σ (.app .and as) = .app .and as ∨ substE σ (.app .and as) = mkAnd (as.map (substE σ)) := by
  by_cases he : σ.isEmpty = true
  · left; unfold substE; rw [he]; rfl
  · right
    have he' : σ.isEmpty = false := by simpa using he
    have : substE σ = subst σ := by funext e; unfold substE; rw [he']; rfl
    rw [this, subst_app_leafKeys h]
    rfl

/-- a leaf that is not a key is left alone -/
theorem substE_leaf_none {σ : Subst} {l : Leaf} (h : σ.lookup (.leaf l) = none) : substE σ (.leaf l) = .leaf l := by
  unfold substE
  split
  · rfl
  · rw [subst_leaf_none σ l h]

theorem substE_leaf_some {σ : Subst} {l : Leaf} {v : Expr} (h : σ.lookup (.leaf l) = some v) :
    substE σ (.leaf l) = v := by
  unfold substE
  split
  · rename_i he
    have : σ = [] := by simpa using he
    subst this; cases h
  · exact subst_of_lookup_some σ _ v h

theorem paramSubst_leafKeys (P : Problem) (a : Action) (args : List String) : LeafKeys (paramSubst P a args) := by
  intro kv hkv
  unfold paramSubst at hkv
  obtain ⟨pa, _, rfl⟩ := List.mem_map.1 hkv
  exact ⟨_, rfl⟩

/-- the map of `Effect.expand_effect`: bound variables ↦ objects -/
def varSubst (P : Problem) (vs : List Var) (objs : List String) : Subst :=
  (vs.zip objs).map (fun vo => (Expr.leaf (.var vo.1), objExpr P vo.2))

theorem varSubst_leafKeys (P : Problem) (vs : List Var) (objs : List String) : LeafKeys (varSubst P vs objs) := by
  intro kv hkv
  unfold varSubst at hkv
  obtain ⟨pa, _, rfl⟩ := List.mem_map.1 hkv
  exact ⟨_, rfl⟩

/-- keys that are parameters / variables leave constants alone -/
theorem lookup_const_none {σ : Subst} (h : ∀ kv ∈ σ, kv.1.isConstant = false) {e : Expr} (he : e.isConstant = true) :
    σ.lookup e = none := by
  rw [lookup_eq_none_iff_forall]
  intro kv hkv hk
  have := h kv hkv
  rw [hk, he] at this
  cases this

theorem varSubst_keys_nonconst (P : Problem) (vs : List Var) (objs : List String) :
    ∀ kv ∈ varSubst P vs objs, kv.1.isConstant = false := by
  intro kv hkv
  unfold varSubst at hkv
  obtain ⟨pa, _, rfl⟩ := List.mem_map.1 hkv
  rfl

theorem paramSubst_keys_nonconst (P : Problem) (a : Action) (args : List String) :
    ∀ kv ∈ paramSubst P a args, kv.1.isConstant = false := by
  intro kv hkv
  unfold paramSubst at hkv
  obtain ⟨pa, _, rfl⟩ := List.mem_map.1 hkv
  rfl

theorem substE_const {σ : Subst} (h : ∀ kv ∈ σ, kv.1.isConstant = false) {e : Expr} (he : e.isConstant = true) :
    substE σ e = e := by
  cases e with
  | leaf l => exact substE_leaf_none (lookup_const_none h he)
  | app op as => cases he
  | quant q vs b => cases he

theorem lookup_varSubst (P : Problem) : ∀ (vs : List Var) (objs : List String) (x : Var), x ∈ vs →
    vs.length = objs.length → ∃ o, (varSubst P vs objs).lookup (.leaf (.var x)) = some (objExpr P o)
  | [], _, x, hx, _ => by cases hx
  | v :: vs, [], x, _, hl => by simp at hl
  | v :: vs, o :: objs, x, hx, hl => by
    unfold varSubst
    simp only [List.zip_cons_cons, List.map_cons, List.lookup_cons]
    by_cases hv : x = v
    · subst hv
      refine ⟨o, ?_⟩
      have : (Expr.leaf (.var x) == Expr.leaf (.var x)) = true := by simp
      rw [this]
    · have : (Expr.leaf (.var x) == Expr.leaf (.var v)) = false := by
        simp only [beq_eq_false_iff_ne, ne_eq]
        intro h; injection h with h; injection h with h; exact hv h
      rw [this]
      have hx' : x ∈ vs := by
        rcases List.mem_cons.1 hx with h | h
        · exact absurd h hv
        · exact h
      exact lookup_varSubst P vs objs x hx' (by simpa using hl)

/-- `paramSubst` by position: the value of the k-th parameter is the k-th argument (parameter names distinct) -/
theorem lookup_paramList (P : Problem) : ∀ (params : List (String × Ty)) (args : List String) (k : Nat)
    (p : String × Ty) (o : String), (params.map (·.1)).Nodup → params[k]? = some p → args[k]? = some o →
    ((params.zip args).map (fun pa => (Expr.leaf (.param pa.1.1 pa.1.2), objExpr P pa.2))).lookup
      (.leaf (.param p.1 p.2)) = some (objExpr P o)
  | [], _, k, p, o, _, hp, _ => by simp at hp
  | q :: params, [], k, p, o, _, _, ha => by simp at ha
  | q :: params, b :: args, k, p, o, hnd, hp, ha => by
    simp only [List.zip_cons_cons, List.map_cons, List.lookup_cons]
    cases k with
    | zero =>
      simp only [List.getElem?_cons_zero, Option.some.injEq] at hp ha
      subst hp; subst ha
      have : (Expr.leaf (.param q.1 q.2) == Expr.leaf (.param q.1 q.2)) = true := by simp
      rw [this]
    | succ k =>
      simp only [List.getElem?_cons_succ] at hp ha
      simp only [List.map_cons, List.nodup_cons] at hnd
      have hne : p.1 ≠ q.1 := by
        intro h
        apply hnd.1
        rw [← h]
        exact List.mem_map.2 ⟨p, List.mem_of_getElem? hp, rfl⟩
      have : (Expr.leaf (.param p.1 p.2) == Expr.leaf (.param q.1 q.2)) = false := by
        simp only [beq_eq_false_iff_ne, ne_eq]
        intro h; injection h with h; injection h with h1 _; exact hne h1
      rw [this]
      exact lookup_paramList P params args k p o hnd.2 hp ha

/-- … and in general the value of a declared parameter is SOME argument at a position that declares it -/
theorem lookup_paramList_mem (P : Problem) : ∀ (params : List (String × Ty)) (args : List String) (p : String × Ty),
    p ∈ params → params.length = args.length →
    ∃ (k : Nat) (o : String), params[k]? = some p ∧ args[k]? = some o ∧
      ((params.zip args).map (fun pa => (Expr.leaf (.param pa.1.1 pa.1.2), objExpr P pa.2))).lookup
        (.leaf (.param p.1 p.2)) = some (objExpr P o)
  | [], _, p, hp, _ => by cases hp
  | q :: params, [], p, _, hl => by simp at hl
  | q :: params, b :: args, p, hp, hl => by
    simp only [List.zip_cons_cons, List.map_cons, List.lookup_cons]
    by_cases hq : p = q
    · subst hq
      refine ⟨0, b, by simp, by simp, ?_⟩
      have : (Expr.leaf (.param p.1 p.2) == Expr.leaf (.param p.1 p.2)) = true := by simp
      rw [this]
    · have : (Expr.leaf (.param p.1 p.2) == Expr.leaf (.param q.1 q.2)) = false := by
        simp only [beq_eq_false_iff_ne, ne_eq]
        intro h; injection h with h; injection h with h1 h2
        exact hq (Prod.ext h1 h2)
      rw [this]
      have hp' : p ∈ params := by
        rcases List.mem_cons.1 hp with h | h
        · exact absurd h hq
        · exact h
      obtain ⟨k, o, h1, h2, h3⟩ := lookup_paramList_mem P params args p hp' (by simpa using hl)
      exact ⟨k + 1, o, by simpa using h1, by simpa using h2, h3⟩

/-! ### `split_all_ands` -/

/-- `e` is `x` or a conjunct of `x`, at any depth of top-level ANDs -/
inductive Conjunct : Expr → Expr → Prop
  | refl (x : Expr) : Conjunct x x
  | step {as : List Expr} {y e : Expr} : y ∈ as → Conjunct y e → Conjunct (.app .and as) e

theorem mem_andArgs {x y : Expr} (h : y ∈ andArgs x) : ∃ as, x = .app .and as ∧ y ∈ as := by
  unfold andArgs at h
  split at h
  · exact ⟨_, rfl, h⟩
  · cases h

theorem mem_splitAllAndsFuel : ∀ (n : Nat) (l : List Expr) (e : Expr), e ∈ splitAllAndsFuel n l →
    ∃ x ∈ l, Conjunct x e
  | 0, _, e, h => by cases h
  | n + 1, l, e, h => by
    unfold splitAllAndsFuel at h
    split at h
    · cases h
    · rcases List.mem_append.1 h with h | h
      · exact ⟨e, (List.mem_filter.1 h).1, Conjunct.refl e⟩
      · obtain ⟨y, hy, hc⟩ := mem_splitAllAndsFuel n _ e h
        obtain ⟨x, hx, hyx⟩ := List.mem_flatMap.1 hy
        obtain ⟨as, rfl, hmem⟩ := mem_andArgs hyx
        exact ⟨_, hx, Conjunct.step hmem hc⟩

/-- every element of `split_all_ands(l)` is a conjunct of an element of `l` -/
theorem mem_splitAllAnds {l : List Expr} {e : Expr} (h : e ∈ splitAllAnds l) : ∃ x ∈ l, Conjunct x e :=
  mem_splitAllAndsFuel _ l e h

theorem sizeList_append (l m : List Expr) : Expr.sizeList (l ++ m) = Expr.sizeList l + Expr.sizeList m := by
  induction l with
  | nil => simp [Expr.sizeList]
  | cons x xs ih => simp [Expr.sizeList, ih]; omega

theorem size_pos (e : Expr) : 1 ≤ e.size := by cases e <;> simp [Expr.size] <;> omega

theorem sizeList_andArgs_le (x : Expr) : Expr.sizeList (andArgs x) + 1 ≤ x.size := by
  unfold andArgs
  split
  · simp [Expr.size]; omega
  · have := size_pos x
    simp [Expr.sizeList]; omega

theorem sizeList_flatMap_andArgs : ∀ (l : List Expr), l ≠ [] → Expr.sizeList (l.flatMap andArgs) < Expr.sizeList l
  | [], h => absurd rfl h
  | [x], _ => by
    have := sizeList_andArgs_le x
    simp [Expr.sizeList]; omega
  | x :: y :: r, _ => by
    have ih := sizeList_flatMap_andArgs (y :: r) (by simp)
    have := sizeList_andArgs_le x
    rw [List.flatMap_cons, sizeList_append]
    simp only [Expr.sizeList] at ih ⊢
    omega

/-- THE FUEL SUFFICES: with more fuel than the total size of the list the loop of `split_all_ands` has terminated
    (`start_list` is empty), so more fuel gives the same result -/
theorem splitAllAnds_fuel : ∀ (n m : Nat) (l : List Expr), Expr.sizeList l < n → Expr.sizeList l < m →
    splitAllAndsFuel n l = splitAllAndsFuel m l
  | 0, _, _, h, _ => by omega
  | _, 0, _, _, h => by omega
  | n + 1, m + 1, l, hn, hm => by
    unfold splitAllAndsFuel
    split
    · rfl
    · rename_i he
      have hne : l ≠ [] := by intro h; apply he; simp [h]
      have := sizeList_flatMap_andArgs l hne
      rw [splitAllAnds_fuel n m (l.flatMap andArgs) (by omega) (by omega)]

end UPVerif.Compile.Ground
