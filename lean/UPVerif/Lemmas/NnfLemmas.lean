import UPVerif.Core.Walkers.Nnf
import UPVerif.Lemmas.BoolDen
/-! proofs about `nnf` (C12): meaning and shape -/
namespace UPVerif.Expr
open UPVerif

/-- value of a subformula seen under polarity `p` -/
def pol (p : Bool) (v : Bool) : Bool := if p then v else !v

theorem nnf_atom (p : Bool) (e : Expr)
    (h1 : ∀ x, e = .app .not [x] → False) (h2 : ∀ args, e = .app .and args → False)
    (h3 : ∀ args, e = .app .or args → False) (h4 : ∀ a b, e = .app .implies [a, b] → False)
    (h5 : ∀ a b, e = .app .iff [a, b] → False) :
    nnf p e = if p then e else mkNot e := by
  unfold nnf
  split
  · exact absurd rfl (fun h => h1 _ h)
  · exact absurd rfl (fun h => h2 _ h)
  · exact absurd rfl (fun h => h3 _ h)
  · exact absurd rfl (fun h => h4 _ _ h)
  · exact absurd rfl (fun h => h5 _ _ h)
  · rfl

theorem bden_nnfJoin {ι : Interp} {ρ : VEnv} (p isAnd : Bool) (es : List Expr) :
    bden ι ρ (nnfJoin p isAnd es) =
      (bdenList ι ρ es).map (fun bs => if p == isAnd then bs.all id else bs.any id) := by
  unfold nnfJoin
  split
  · rw [bden_mkAnd]
  · rw [bden_mkOr]

theorem all_map_not (bs : List Bool) : (bs.map (!·)).all id = !(bs.any id) := by
  induction bs with
  | nil => rfl
  | cons b bs ih => simp only [List.map, List.all_cons, List.any_cons, id, ih]; cases b <;> simp
theorem any_map_not (bs : List Bool) : (bs.map (!·)).any id = !(bs.all id) := by
  induction bs with
  | nil => rfl
  | cons b bs ih => simp only [List.map, List.all_cons, List.any_cons, id, ih]; cases b <;> simp

theorem any_not (bs : List Bool) : (bs.any fun x => !x) = !bs.all id := by
  induction bs with
  | nil => rfl
  | cons b bs ih => simp only [List.all_cons, List.any_cons, id, ih]; cases b <;> simp
theorem all_not (bs : List Bool) : (bs.all fun x => !x) = !bs.any id := by
  induction bs with
  | nil => rfl
  | cons b bs ih => simp only [List.all_cons, List.any_cons, id, ih]; cases b <;> simp

theorem map_pol_true (bs : List Bool) : bs.map (pol true) = bs := by
  induction bs with
  | nil => rfl
  | cons b bs ih => simp [pol, ih]
theorem map_pol_false (bs : List Bool) : bs.map (pol false) = bs.map (!·) := by
  induction bs with
  | nil => rfl
  | cons b bs ih => simp [pol]

/-- the main semantic fact, for both polarities and for lists, by the recursion's own induction
    principle: on the Boolean view of `den`, `nnf p` is exactly "the value under polarity `p`" -/
theorem bden_nnf_both (ι : Interp) (ρ : VEnv) :
    (∀ (p : Bool) (e : Expr), bden ι ρ (nnf p e) = (bden ι ρ e).map (pol p)) ∧
    (∀ (p : Bool) (es : List Expr), bdenList ι ρ (nnfList p es) = (bdenList ι ρ es).map (List.map (pol p))) := by
  apply nnf.mutual_induct
  · -- not
    intro p x ih
    rw [nnf, ih, bden_not]
    cases bden ι ρ x <;> cases p <;> simp [pol]
  · -- and
    intro p args ih
    rw [nnf, bden_nnfJoin, ih, bden_and]
    cases bdenList ι ρ args with
    | none => rfl
    | some bs =>
      cases p
      · simp [pol, map_pol_false, any_not]
      · simp [pol, map_pol_true]
  · -- or
    intro p args ih
    rw [nnf, bden_nnfJoin, ih, bden_or]
    cases bdenList ι ρ args with
    | none => rfl
    | some bs =>
      cases p
      · simp [pol, map_pol_false, all_not]
      · simp [pol, map_pol_true]
  · -- implies
    intro p a b iha ihb
    rw [nnf, bden_nnfJoin, bden_implies]
    simp only [bdenList, iha, ihb]
    cases bden ι ρ a <;> cases bden ι ρ b <;> cases p <;> simp [pol]
  · -- iff
    intro p a b iha ihb ihna ihnb
    rw [nnf, bden_nnfJoin, bden_iff]
    simp only [bdenList, bden_nnfJoin, iha, ihb, ihna, ihnb]
    cases ha : bden ι ρ a <;> cases hb : bden ι ρ b <;> cases p <;> simp [pol] <;>
      (rename_i x y; cases x <;> cases y <;> rfl)
  · -- atom, positive
    intro e h1 h2 h3 h4 h5
    rw [nnf_atom true e h1 h2 h3 h4 h5]
    simp only [if_true]
    cases bden ι ρ e <;> simp [pol]
  · -- atom, negative
    intro p e h1 h2 h3 h4 h5 hp
    rw [nnf_atom p e h1 h2 h3 h4 h5]
    have : p = false := by cases p <;> simp_all
    subst this
    simp only [Bool.false_eq_true, if_false, bden_mkNot]
    cases bden ι ρ e <;> simp [pol]
  · intro p; simp [nnfList, bdenList]
  · intro p e es ihe ihes
    simp only [nnfList, bdenList, ihe, ihes]
    cases bden ι ρ e <;> cases bdenList ι ρ es <;> simp

/-! ### shape: negation only in front of atoms -/

/-- atoms of NNF: anything that is not one of the five connectives (at their proper arity) -/
def isAtom : Expr → Bool
  | .app .not [_] => false
  | .app .and _ => false
  | .app .or _ => false
  | .app .implies [_, _] => false
  | .app .iff [_, _] => false
  | _ => true

mutual
/-- negation normal form: built from atoms and negated atoms by AND / OR only -/
def isNnf : Expr → Bool
  | .app .and args => isNnfList args
  | .app .or args => isNnfList args
  | .app .not [x] => isAtom x
  | e => isAtom e
def isNnfList : List Expr → Bool
  | [] => true
  | e :: es => isNnf e && isNnfList es
end

theorem isNnf_mkAnd (es : List Expr) (h : isNnfList es = true) : isNnf (mkAnd es) = true := by
  match es with
  | [] => simp [mkAnd, tt, isNnf, isAtom]
  | [x] => simpa [mkAnd, isNnfList] using h
  | x :: y :: r => simpa [mkAnd, isNnf] using h

theorem isNnf_mkOr (es : List Expr) (h : isNnfList es = true) : isNnf (mkOr es) = true := by
  match es with
  | [] => simp [mkOr, ff, isNnf, isAtom]
  | [x] => simpa [mkOr, isNnfList] using h
  | x :: y :: r => simpa [mkOr, isNnf] using h

theorem isNnf_nnfJoin (p a : Bool) (es : List Expr) (h : isNnfList es = true) :
    isNnf (nnfJoin p a es) = true := by
  unfold nnfJoin; split
  · exact isNnf_mkAnd es h
  · exact isNnf_mkOr es h

theorem isAtom_of_not_conn (e : Expr)
    (h1 : ∀ x, e = .app .not [x] → False) (h2 : ∀ args, e = .app .and args → False)
    (h3 : ∀ args, e = .app .or args → False) (h4 : ∀ a b, e = .app .implies [a, b] → False)
    (h5 : ∀ a b, e = .app .iff [a, b] → False) : isAtom e = true := by
  unfold isAtom
  split
  · exact absurd rfl (fun h => h1 _ h)
  · exact absurd rfl (fun h => h2 _ h)
  · exact absurd rfl (fun h => h3 _ h)
  · exact absurd rfl (fun h => h4 _ _ h)
  · exact absurd rfl (fun h => h5 _ _ h)
  · rfl

theorem isNnf_of_isAtom (e : Expr) (h : isAtom e = true) : isNnf e = true := by
  unfold isNnf
  split
  · simp [isAtom] at h
  · simp [isAtom] at h
  · simp [isAtom] at h
  · exact h

theorem isNnf_nnf_both :
    (∀ (p : Bool) (e : Expr), isNnf (nnf p e) = true) ∧
    (∀ (p : Bool) (es : List Expr), isNnfList (nnfList p es) = true) := by
  apply nnf.mutual_induct
  · intro p x ih; rw [nnf]; exact ih
  · intro p args ih; rw [nnf]; exact isNnf_nnfJoin _ _ _ ih
  · intro p args ih; rw [nnf]; exact isNnf_nnfJoin _ _ _ ih
  · intro p a b iha ihb; rw [nnf]; exact isNnf_nnfJoin _ _ _ (by simp [isNnfList, iha, ihb])
  · intro p a b iha ihb ihna ihnb
    rw [nnf]
    refine isNnf_nnfJoin _ _ _ ?_
    simp only [isNnfList, Bool.and_true, Bool.and_eq_true]
    exact ⟨isNnf_nnfJoin _ _ _ (by simp [isNnfList, iha, ihb]),
           isNnf_nnfJoin _ _ _ (by simp [isNnfList, ihna, ihnb])⟩
  · intro e h1 h2 h3 h4 h5
    rw [nnf_atom true e h1 h2 h3 h4 h5]
    exact isNnf_of_isAtom e (isAtom_of_not_conn e h1 h2 h3 h4 h5)
  · intro p e h1 h2 h3 h4 h5 hp
    rw [nnf_atom p e h1 h2 h3 h4 h5]
    have : p = false := by cases p <;> simp_all
    subst this
    simp only [Bool.false_eq_true, if_false]
    have ha := isAtom_of_not_conn e h1 h2 h3 h4 h5
    unfold mkNot
    split
    · exact absurd rfl (fun h => h1 _ h)
    · simpa [isNnf] using ha
  · intro p; rfl
  · intro p e es ihe ihes; simp [nnfList, isNnfList, ihe, ihes]

end UPVerif.Expr
