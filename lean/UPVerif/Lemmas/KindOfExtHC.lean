import UPVerif.Lemmas.KindOfExtBase
/-! Helper lemmas for `Props/C10Ext.lean`: hierarchical and contingent problems. -/
namespace UPVerif.KindOf
open UPVerif UPVerif.Spec

variable {F : Facts} {f : Feature}

/-! ### timing expressions -/

mutual
theorem timeAny_sub : ∀ (e : Expr), timeAny e = true → ∃ r, Sub (.leaf (.timing r)) e
  | .leaf l, h => by
    cases l <;> simp [timeAny] at h
    exact ⟨_, .refl _⟩
  | .app op as, h => by
    simp only [timeAny] at h
    obtain ⟨a, ha, r, hs⟩ := timeAnyList_sub as h
    exact ⟨r, .arg ha hs⟩
  | .quant q vs b, h => by
    simp only [timeAny] at h
    obtain ⟨r, hs⟩ := timeAny_sub b h
    exact ⟨r, .body hs⟩
theorem timeAnyList_sub : ∀ (as : List Expr), timeAnyList as = true → ∃ a, a ∈ as ∧ ∃ r, Sub (.leaf (.timing r)) a
  | [], h => by simp [timeAnyList] at h
  | a :: as, h => by
    simp only [timeAnyList, Bool.or_eq_true] at h
    rcases h with h | h
    · exact ⟨a, List.mem_cons_self, timeAny_sub a h⟩
    · obtain ⟨b, hb, hr⟩ := timeAnyList_sub as h
      exact ⟨b, List.mem_cons_of_mem _ hb, hr⟩
end

theorem timeAny_false_of_TimeFree {c : Expr} (h : TimeFree c) : timeAny c = false := by
  cases ht : timeAny c with
  | false => rfl
  | true =>
    obtain ⟨r, hs⟩ := timeAny_sub c ht
    exact absurd hs (h r)

/-! ### hierarchical problems -/
section hier
variable {H : HProblem}

theorem soundSU_H (H : HProblem) : SoundSU H.base (staticUnusedH H) :=
  (soundSU_staticUnused H.base).shrink_unused _

theorem mem_hClass {k : KS} (h1 : f ≠ "ACTION_BASED") (h : f ∈ k) : f ∈ hClass k := by
  unfold hClass
  exact List.mem_filter.2 ⟨List.mem_cons_of_mem _ h, by simpa using h1⟩

theorem hierarchical_mem_hClass (k : KS) : "HIERARCHICAL" ∈ hClass k := by
  unfold hClass
  exact List.mem_filter.2 ⟨List.mem_cons_self, by decide⟩

/-- every constraint is scanned by `updConstraints`, temporal or not -/
theorem updConstraints_expr {cs : List Expr} {c : Expr} (hc : c ∈ cs) (h : Sets f (updExpr F c)) :
    Sets f (updConstraints F cs) := by
  unfold updConstraints
  cases ht : timeAny c with
  | true =>
    have hm : c ∈ temporalCs cs := List.mem_filter.2 ⟨hc, ht⟩
    exact Sets.tail (Sets.head (Sets.map_of hm h))
  | false =>
    have hm : c ∈ nonTemporalCs cs := List.mem_filter.2 ⟨hc, by simp [ht]⟩
    refine Sets.head (.when' ?_ (Sets.tail (Sets.map_of hm h)))
    cases hl : nonTemporalCs cs with
    | nil => rw [hl] at hm; cases hm
    | cons _ _ => rfl

theorem updConstraints_tnc {cs : List Expr} {c : Expr} (hc : c ∈ cs) (ht : timeAny c = false) :
    Sets "TASK_NETWORK_CONSTRAINTS" (updConstraints F cs) := by
  unfold updConstraints
  have hm : c ∈ nonTemporalCs cs := List.mem_filter.2 ⟨hc, by simp [ht]⟩
  refine Sets.head (.when' ?_ (Sets.head .set))
  cases hl : nonTemporalCs cs with
  | nil => rw [hl] at hm; cases hm
  | cons _ _ => rfl

theorem hProg_method {m : Method} (hm : m ∈ H.methods) (h : Sets f (updMethod F H m)) : Sets f (hProg F H) := by
  unfold hProg
  exact Sets.tail (Sets.tail (Sets.tail (Sets.head (Sets.map_of hm h))))

theorem hProg_tnConstraints (h : Sets f (updConstraints F H.tn.constraints)) : Sets f (hProg F H) := by
  unfold hProg
  exact Sets.tail (Sets.tail (Sets.head h))

theorem updMethod_constraints {m : Method} (h : Sets f (updConstraints F m.constraints)) : Sets f (updMethod F H m) := by
  unfold updMethod
  exact Sets.tail (Sets.tail (Sets.head h))

theorem updMethod_pre {m : Method} {c : Expr} (hc : c ∈ m.pre) (h : Sets f (updExpr F c)) : Sets f (updMethod F H m) := by
  unfold updMethod
  exact Sets.tail (Sets.head (Sets.map_of hc (Sets.tail (Sets.head h))))

/-- a condition position of the hierarchical part is scanned -/
theorem sets_of_hcond {c : Expr} (hc : HCond H c) (h : Sets f (updExpr F c)) : Sets f (hProg F H) := by
  cases hc with
  | methodPrecondition hm hp => exact hProg_method hm (updMethod_pre hp h)
  | constraint hk =>
    cases hk with
    | method hm hcm => exact hProg_method hm (updMethod_constraints (updConstraints_expr hcm h))
    | initial hcm => exact hProg_tnConstraints (updConstraints_expr hcm h)

/-- a type of the hierarchical part is scanned -/
theorem sets_of_htype {t : Ty} (ht : HTypeUse H t) (h : Sets f (updType H.base t)) : Sets f (hProg F H) := by
  cases ht with
  | taskParameter htk hp =>
    unfold hProg
    exact Sets.head (Sets.map_of htk (Sets.map_of hp h))
  | methodParameter hm hp =>
    refine hProg_method hm ?_
    unfold updMethod
    exact Sets.head (Sets.map_of hp h)
  | networkVariable hv =>
    unfold hProg
    refine Sets.tail (Sets.head (.when' ?_ (Sets.tail (Sets.map_of hv h))))
    cases hl : H.tn.vars with
    | nil => rw [hl] at hv; cases hv
    | cons _ _ => rfl

theorem mem_hReads_of_HRead {g : FluentRef} (h : HRead H g) : g ∈ hReads H := by
  unfold hReads
  cases h with
  | condition hc hm =>
    have hr := mentions_fluentRefs hm
    cases hc with
    | methodPrecondition hmm hp =>
      exact List.mem_append_left _ (List.mem_append_left _ (List.mem_flatMap.2 ⟨_, hmm,
        List.mem_append_left _ (List.mem_append_left _ (mem_exprsReads hp hr))⟩))
    | constraint hk =>
      cases hk with
      | method hmm hcm =>
        exact List.mem_append_left _ (List.mem_append_left _ (List.mem_flatMap.2 ⟨_, hmm,
          List.mem_append_left _ (List.mem_append_right _ (mem_exprsReads hcm hr))⟩))
      | initial hcm => exact List.mem_append_left _ (List.mem_append_right _ (mem_exprsReads hcm hr))
  | subtaskArgument ha hm =>
    have hr := mentions_fluentRefs hm
    cases ha with
    | method hmm hst harg =>
      exact List.mem_append_left _ (List.mem_append_left _ (List.mem_flatMap.2 ⟨_, hmm,
        List.mem_append_right _ (List.mem_flatMap.2 ⟨_, hst, mem_exprsReads harg hr⟩)⟩))
    | initial hst harg =>
      exact List.mem_append_right _ (List.mem_flatMap.2 ⟨_, hst, mem_exprsReads harg hr⟩)

/-- the INT/REAL_FLUENTS guard of a fluent the hierarchical part reads -/
theorem guard_of_HRead {g : FluentRef} (h : HRead H g) :
    (!(staticUnusedH H).unused.contains g ||
      (!(staticUnusedH H).inDurations.contains g && !(staticUnusedH H).inCosts.contains g)) = true := by
  have hm := mem_hReads_of_HRead h
  exact guard_of_removed (S := staticUnused H.base) (p := fun f => !(hReads H).contains f) (by simpa using hm)

/-- the rules of `UsesH` that are not inherited: which program certainly sets the feature -/
theorem usesH_sets {u : List FluentDecl} (h : UsesH H f) :
    (Uses H.base f) ∨ Sets f (kindProg F H.base (staticUnusedH H) u) ∨ Sets f (hProg F H) ∨ f = "HIERARCHICAL" := by
  cases h with
  | base hb => exact Or.inl hb
  | flatTyping ht => exact Or.inr (Or.inr (Or.inl (sets_of_htype ht updType_flat)))
  | hierarchicalTyping ht hf => exact Or.inr (Or.inr (Or.inl (sets_of_htype ht (updType_hier hf))))
  | intFluents hd ht hr => exact Or.inr (Or.inl (kind_fluent hd (updFluent_int ht (guard_of_HRead hr))))
  | realFluents hd ht hr => exact Or.inr (Or.inl (kind_fluent hd (updFluent_real ht (guard_of_HRead hr))))
  | negativeConditions hc hs => exact Or.inr (Or.inr (Or.inl (sets_of_hcond hc (updExpr_not (sub_ops hs)))))
  | disjunctiveConditionsOr hc hs =>
    exact Or.inr (Or.inr (Or.inl (sets_of_hcond hc (updExpr_disj (Or.inl (sub_ops hs))))))
  | disjunctiveConditionsImplies hc hs =>
    exact Or.inr (Or.inr (Or.inl (sets_of_hcond hc (updExpr_disj (Or.inr (sub_ops hs))))))
  | equalities hc hs => exact Or.inr (Or.inr (Or.inl (sets_of_hcond hc (updExpr_eq (sub_ops hs)))))
  | existentialConditions hc hs => exact Or.inr (Or.inr (Or.inl (sets_of_hcond hc (updExpr_ex (sub_ops hs)))))
  | universalConditions hc hs => exact Or.inr (Or.inr (Or.inl (sets_of_hcond hc (updExpr_all (sub_ops hs)))))
  | hierarchical => exact Or.inr (Or.inr (Or.inr rfl))
  | methodPreconditions hm hp =>
    refine Or.inr (Or.inr (Or.inl (hProg_method hm ?_)))
    unfold updMethod
    exact Sets.tail (Sets.head (Sets.map_of hp (Sets.head .set)))
  | taskNetworkConstraints hk htf =>
    have ht := timeAny_false_of_TimeFree htf
    cases hk with
    | method hm hcm =>
      exact Or.inr (Or.inr (Or.inl (hProg_method hm (updMethod_constraints (updConstraints_tnc hcm ht)))))
    | initial hcm => exact Or.inr (Or.inr (Or.inl (hProg_tnConstraints (updConstraints_tnc hcm ht))))
  | initialTaskNetworkVariables hv =>
    refine Or.inr (Or.inr (Or.inl ?_))
    unfold hProg
    exact Sets.tail (Sets.head (.when' (by simpa using hv) (Sets.head .set)))

theorem usesH_feature (h : UsesH H f) : f ∈ statementFeatures ∨ f ∈ classFeatures := by
  cases h with
  | base hb => exact Or.inl (uses_statementFeature hb)
  | hierarchical => exact Or.inr (by simp [classFeatures])
  | methodPreconditions _ _ => exact Or.inr (by simp [classFeatures])
  | taskNetworkConstraints _ _ => exact Or.inr (by simp [classFeatures])
  | initialTaskNetworkVariables _ => exact Or.inr (by simp [classFeatures])
  | _ => exact Or.inl (by simp [statementFeatures])

end hier

/-! ### contingent problems -/
section cont
variable {C : CProblem}

theorem soundSU_C (C : CProblem) : SoundSU C.toK (staticUnusedC C) :=
  (soundSU_staticUnused C.toK).shrink_unused _

theorem mem_cReads_of_CRead {g : FluentRef} (h : CRead C g) : g ∈ cReads C := by
  unfold cReads
  cases h with
  | observed ha ho hm =>
    exact List.mem_append_left _ (List.mem_flatMap.2 ⟨_, ha, mem_exprsReads ho (mentions_fluentRefs hm)⟩)
  | orConstraint hcl hc hm =>
    exact List.mem_append_right _ (List.mem_flatMap.2 ⟨_, List.mem_append_left _ hcl,
      mem_exprsReads hc (mentions_fluentRefs hm)⟩)
  | oneofConstraint hcl hc hm =>
    exact List.mem_append_right _ (List.mem_flatMap.2 ⟨_, List.mem_append_right _ hcl,
      mem_exprsReads hc (mentions_fluentRefs hm)⟩)

theorem guard_of_CRead {g : FluentRef} (h : CRead C g) :
    (!(staticUnusedC C).unused.contains g ||
      (!(staticUnusedC C).inDurations.contains g && !(staticUnusedC C).inCosts.contains g)) = true := by
  have hm := mem_cReads_of_CRead h
  exact guard_of_removed (S := staticUnused C.toK) (p := fun f => !(cReads C).contains f) (by simpa using hm)

theorem usesC_feature (h : UsesC C f) : f ∈ statementFeatures ∨ f ∈ classFeatures := by
  cases h with
  | base hb => exact Or.inl (uses_statementFeature hb)
  | contingent => exact Or.inr (by simp [classFeatures])
  | _ => exact Or.inl (by simp [statementFeatures])

end cont

end UPVerif.KindOf
