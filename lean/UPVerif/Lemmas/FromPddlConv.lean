import UPVerif.Lemmas.FromPddlRel
/-!
Helper lemmas for C21, converter side: what `convExpr` (the model of `_ExpressionConverter.convert_expression`) yields
on the operator nodes the external parser builds through `mkOp` (splicing + dropping repeated operands), compared with
the manager's constructor applied to the converted UNSIMPLIFIED operands.
-/
namespace UPVerif.FromPddl
open UPVerif UPVerif.Expr UPVerif.Pddl

section
variable (E : CEnv) (ps : List (String × Ty)) (qv : List Var)

/-- total version of the converter (only used where the conversion is defined) -/
def cv (φ : Form) : Expr := (convExpr E ps qv φ).getD Expr.tt

/-- the conversion is defined -/
def Dv (φ : Form) : Prop := (convExpr E ps qv φ).isSome = true

theorem cv_eq {φ : Form} {e : Expr} (h : convExpr E ps qv φ = some e) : cv E ps qv φ = e := by
  unfold cv; rw [h]; rfl

theorem conv_of_Dv {φ : Form} (h : Dv E ps qv φ) : convExpr E ps qv φ = some (cv E ps qv φ) := by
  unfold Dv at h
  unfold cv
  cases hc : convExpr E ps qv φ with
  | none => rw [hc] at h; cases h
  | some e => rfl

theorem convExprs_some_iff : ∀ (l : List Form) (r : List Expr),
    convExprs E ps qv l = some r ↔ (∀ φ ∈ l, Dv E ps qv φ) ∧ r = l.map (cv E ps qv)
  | [], r => by
    rw [convExprs]
    constructor
    · intro h; cases h; exact ⟨fun _ h => (by cases h), rfl⟩
    · rintro ⟨_, rfl⟩; rfl
  | φ :: l, r => by
    rw [convExprs]
    cases h1 : convExpr E ps qv φ with
    | none =>
      constructor
      · intro h; cases h
      · rintro ⟨h, _⟩
        have := h φ (List.mem_cons_self ..)
        unfold Dv at this
        rw [h1] at this; cases this
    | some x =>
      cases h2 : convExprs E ps qv l with
      | none =>
        constructor
        · intro h; cases h
        · rintro ⟨h, _⟩
          have := (convExprs_some_iff l (l.map (cv E ps qv))).2 ⟨fun ψ hψ => h ψ (List.mem_cons_of_mem _ hψ), rfl⟩
          rw [h2] at this; cases this
      | some xs =>
        have ih := (convExprs_some_iff l xs).1 h2
        constructor
        · intro h
          cases h
          refine ⟨fun ψ hψ => ?_, ?_⟩
          · rcases List.mem_cons.1 hψ with rfl | hψ
            · unfold Dv; rw [h1]; rfl
            · exact ih.1 ψ hψ
          · simp only [List.map_cons, cv_eq E ps qv h1, ih.2]
        · rintro ⟨_, rfl⟩
          simp only [List.map_cons, cv_eq E ps qv h1, ih.2]

theorem convExprs_of_Dv (l : List Form) (h : ∀ φ ∈ l, Dv E ps qv φ) : convExprs E ps qv l = some (l.map (cv E ps qv)) :=
  (convExprs_some_iff E ps qv l _).2 ⟨h, rfl⟩

/-! ### operator nodes -/

theorem conv_op_of (k : OpK) (hk : k ≠ .minus) (args : List Form) :
    convExpr E ps qv (.op k args) = (convExprs E ps qv args).bind (convOp k) := by
  rw [convExpr]
  cases convExprs E ps qv args with
  | none => rfl
  | some as =>
    simp only [Option.bind_some]
    split
    · exact absurd rfl hk
    · rfl

/-- the operands of a defined operator node are defined -/
theorem Dv_op_args (k : OpK) (args : List Form) (h : Dv E ps qv (.op k args)) : ∀ φ ∈ args, Dv E ps qv φ := by
  unfold Dv at h
  rw [convExpr] at h
  cases hc : convExprs E ps qv args with
  | none => rw [hc] at h; cases h
  | some as => exact ((convExprs_some_iff E ps qv args as).1 hc).1

theorem Dv_and_iff (args : List Form) : Dv E ps qv (.op .and args) ↔ ∀ φ ∈ args, Dv E ps qv φ := by
  constructor
  · exact Dv_op_args E ps qv .and args
  · intro h
    unfold Dv
    rw [conv_op_of E ps qv .and (by decide), convExprs_of_Dv E ps qv args h]
    rfl

theorem Dv_or_iff (args : List Form) : Dv E ps qv (.op .or args) ↔ ∀ φ ∈ args, Dv E ps qv φ := by
  constructor
  · exact Dv_op_args E ps qv .or args
  · intro h
    unfold Dv
    rw [conv_op_of E ps qv .or (by decide), convExprs_of_Dv E ps qv args h]
    rfl

theorem cv_and (args : List Form) (h : ∀ φ ∈ args, Dv E ps qv φ) :
    cv E ps qv (.op .and args) = mkAnd (args.map (cv E ps qv)) := by
  apply cv_eq
  rw [conv_op_of E ps qv .and (by decide), convExprs_of_Dv E ps qv args h]
  rfl

theorem cv_or (args : List Form) (h : ∀ φ ∈ args, Dv E ps qv φ) :
    cv E ps qv (.op .or args) = mkOr (args.map (cv E ps qv)) := by
  apply cv_eq
  rw [conv_op_of E ps qv .or (by decide), convExprs_of_Dv E ps qv args h]
  rfl

/-! ### `mkOp` for the idempotent classes `And`, `Or` -/

/-- what is needed of a quantity `f` to follow it through the simplification of `And` / `Or` operands -/
structure FoldSpec {M : Type} (k : OpK) (op : M → M → M) (u : M) (f : Form → M) : Prop where
  mon : CMon op u
  idem : ∀ a, op a a = a
  node : ∀ χs, (∀ χ ∈ χs, Dv E ps qv χ) → f (.op k χs) = foldO op u (χs.map f)

theorem simplify_idem_mem (k : OpK) (hk : k.idem = true) (φs : List Form) (φ : Form) (hφ : φ ∈ φs) :
    ∀ ψ ∈ flat k φ, ψ ∈ simplifyOperands k φs ∨ (simplifyOperands k φs = dedup φs ∧ φ ∈ dedup φs) := by
  intro ψ hψ
  unfold simplifyOperands
  rw [if_pos hk]
  by_cases hl : (dedup φs).length ≤ 1
  · right
    rw [if_pos hl]
    exact ⟨rfl, (mem_dedup φ φs).2 hφ⟩
  · left
    rw [if_neg hl, mem_dedup]
    have hm : φ ∈ dedup φs := (mem_dedup φ φs).2 hφ
    clear hl hφ
    generalize dedup φs = l at hm ⊢
    induction l with
    | nil => cases hm
    | cons x xs ih =>
      rw [flatList, List.mem_append]
      rcases List.mem_cons.1 hm with rfl | hm
      · exact Or.inl hψ
      · exact Or.inr (ih hm)

variable {M : Type} {op : M → M → M} {u : M} {f : Form → M}

/-- the fold over the simplified operands is the fold over the operands -/
theorem fold_simplify_idem (k : OpK) (hk : k.idem = true) (S : FoldSpec E ps qv k op u f)
    (φs : List Form) (hD : ∀ φ ∈ φs, Dv E ps qv φ) :
    foldO op u ((simplifyOperands k φs).map f) = foldO op u (φs.map f) ∧ ∀ ψ ∈ simplifyOperands k φs, Dv E ps qv ψ := by
  have hdown : ∀ χs, Dv E ps qv (.op k χs) → ∀ χ ∈ χs, Dv E ps qv χ := fun χs h => Dv_op_args E ps qv k χs h
  have hDd : ∀ φ ∈ dedup φs, Dv E ps qv φ := fun φ h => hD φ ((mem_dedup φ φs).1 h)
  unfold simplifyOperands
  rw [if_pos hk]
  by_cases hl : (dedup φs).length ≤ 1
  · rw [if_pos hl]
    exact ⟨foldO_dedup S.mon S.idem f φs, hDd⟩
  · rw [if_neg hl]
    constructor
    · rw [foldO_dedup S.mon S.idem f, foldO_flatList k f (Dv E ps qv) S.mon
        (fun χs hg => ⟨S.node χs (hdown χs hg), hdown χs hg⟩) (dedup φs) hDd, foldO_dedup S.mon S.idem f]
    · intro ψ hψ
      exact good_flatList k (Dv E ps qv) hdown (dedup φs) hDd ψ ((mem_dedup ψ _).1 hψ)

theorem mkOp_idem_cases (k : OpK) (hk : k = .and ∨ k = .or) (φs : List Form) :
    (∃ x, simplifyOperands k φs = [x] ∧ mkOp k φs = x) ∨ mkOp k φs = .op k (simplifyOperands k φs) := by
  unfold mkOp
  have h1 : k.isMeta = true := by rcases hk with rfl | rfl <;> rfl
  have h2 : k.idem = true := by rcases hk with rfl | rfl <;> rfl
  rw [if_pos h1, h2]
  generalize simplifyOperands k φs = o
  match o with
  | [] => exact Or.inr rfl
  | [x] => exact Or.inl ⟨x, rfl, rfl⟩
  | _ :: _ :: _ => exact Or.inr rfl

/-- `And(*operands)` / `Or(*operands)` of the package, converted: defined iff the operands are, and any fold-like
    quantity of the result is the fold over the operands -/
theorem fold_mkOp_idem (k : OpK) (hk : k = .and ∨ k = .or) (S : FoldSpec E ps qv k op u f)
    (φs : List Form) (hD : ∀ φ ∈ φs, Dv E ps qv φ) :
    f (mkOp k φs) = foldO op u (φs.map f) ∧ Dv E ps qv (mkOp k φs) := by
  have hki : k.idem = true := by rcases hk with rfl | rfl <;> rfl
  obtain ⟨h1, h2⟩ := fold_simplify_idem E ps qv k hki S φs hD
  rcases mkOp_idem_cases k hk φs with ⟨x, hx, hm⟩ | hm
  · rw [hm]
    rw [hx] at h1 h2
    refine ⟨?_, h2 x (List.mem_singleton.2 rfl)⟩
    rw [← h1]
    simp [S.mon.unit']
  · rw [hm]
    refine ⟨?_, ?_⟩
    · rw [S.node _ h2, h1]
    · rcases hk with rfl | rfl
      · exact (Dv_and_iff E ps qv _).2 h2
      · exact (Dv_or_iff E ps qv _).2 h2

/-- the converse: the operands of a defined `And` / `Or` are defined -/
theorem Dv_of_mkOp_idem (k : OpK) (hk : k = .and ∨ k = .or) (φs : List Form) (h : Dv E ps qv (mkOp k φs)) :
    ∀ φ ∈ φs, Dv E ps qv φ := by
  have hki : k.idem = true := by rcases hk with rfl | rfl <;> rfl
  have hup : ∀ χs, True → (∀ χ ∈ χs, Dv E ps qv χ) → Dv E ps qv (.op k χs) := by
    intro χs _ hχ
    rcases hk with rfl | rfl
    · exact (Dv_and_iff E ps qv _).2 hχ
    · exact (Dv_or_iff E ps qv _).2 hχ
  -- every simplified operand is defined
  have hs : ∀ ψ ∈ simplifyOperands k φs, Dv E ps qv ψ := by
    rcases mkOp_idem_cases k hk φs with ⟨x, hx, hm⟩ | hm
    · rw [hx, ← hm]
      intro ψ hψ
      rw [List.mem_singleton.1 hψ]; exact h
    · rw [hm] at h
      exact Dv_op_args E ps qv k _ h
  intro φ hφ
  apply good_of_flat k (Dv E ps qv) (fun _ => True) (fun _ _ _ _ => trivial) hup φ trivial
  intro ψ hψ
  rcases simplify_idem_mem k hki φs φ hφ ψ hψ with h1 | ⟨h1, h2⟩
  · exact hs ψ h1
  · -- no flattening took place: the operands are the (deduplicated) operands themselves
    have hφD : Dv E ps qv φ := hs φ (by rw [h1]; exact h2)
    exact good_flat k (Dv E ps qv) (fun χs hg => Dv_op_args E ps qv k χs hg) φ hφD ψ hψ

end

end UPVerif.FromPddl
