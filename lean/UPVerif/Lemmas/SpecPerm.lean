import UPVerif.Lemmas.SimApply
/-!
Helper lemmas for `Props/C01.lean`: the declarative successor does not depend on the order of the
effects (it is a function of the MULTISET of fired effects).
-/
namespace UPVerif.Spec
open UPVerif UPVerif.Sim

def effOk (c : EvalCtx) (e : Effect) : Bool :=
  match evalEff c e with
  | .ok _ => true
  | .error _ => false

def effSel (c : EvalCtx) (e : Effect) : Option Fired :=
  match evalEff c e with
  | .ok (some f) => some f
  | _ => none

/-- `fired` without recursion: defined iff every instance evaluates, and then the selected ones -/
theorem fired_eq (c : EvalCtx) : ∀ (E : List Effect),
    fired c E = if E.all (effOk c) then some (E.filterMap (effSel c)) else none
  | [] => rfl
  | e :: E => by
    have ih := fired_eq c E
    have e1 : fired c (e :: E) = (match evalEff c e, fired c E with
      | .ok none, some F => some F
      | .ok (some f), some F => some (f :: F)
      | _, _ => none) := rfl
    rw [e1, ih]
    have e2 : effOk c e = (match evalEff c e with | .ok _ => true | .error _ => false) := rfl
    have e3 : effSel c e = (match evalEff c e with | .ok (some f) => some f | _ => none) := rfl
    simp only [List.all_cons, List.filterMap_cons, e2, e3]
    generalize evalEff c e = x
    cases x with
    | error y => simp
    | ok o =>
      cases o with
      | none => cases E.all (effOk c) <;> simp
      | some f => cases E.all (effOk c) <;> simp

theorem fired_perm (c : EvalCtx) {E E' : List Effect} (h : E.Perm E') :
    (fired c E = none ∧ fired c E' = none) ∨ ∃ F F', fired c E = some F ∧ fired c E' = some F' ∧ F.Perm F' := by
  rw [fired_eq, fired_eq, h.all_eq]
  cases E'.all (effOk c) with
  | false => left; simp
  | true => right; exact ⟨E.filterMap (effSel c), E'.filterMap (effSel c), by simp, by simp, h.filterMap _⟩

theorem sumR_perm {l m : List Rat} (h : l.Perm m) : sumR l = sumR m := by
  induction h with
  | nil => rfl
  | cons x _ ih => simp [sumR, ih]
  | swap x y l => simp only [sumR, ← Rat.add_assoc, Rat.add_comm x y]
  | trans _ _ ih1 ih2 => rw [ih1, ih2]

theorem ne_nil_perm {α : Type} {l m : List α} (h : l.Perm m) : l ≠ [] ↔ m ≠ [] := by
  constructor
  · intro hl hm; subst hm; exact hl h.eq_nil
  · intro hm hl; subst hl; exact hm h.nil_eq.symm

theorem eq_nil_perm {α : Type} {l m : List α} (h : l.Perm m) : l = [] ↔ m = [] := by
  constructor
  · intro hl; subst hl; exact h.nil_eq.symm
  · intro hm; subst hm; exact h.eq_nil

theorem consK_perm {cur : GKey → Option Val} {F F' : List Fired} (h : F.Perm F') (k : GKey) :
    ConsK cur F k ↔ ConsK cur F' k := by
  have hB : (asgB F k).Perm (asgB F' k) := h.filterMap _
  have hV : (asgV F k).Perm (asgV F' k) := h.filterMap _
  have hD : (deltas F k).Perm (deltas F' k) := h.filterMap _
  unfold ConsK
  rw [ne_nil_perm hB, ne_nil_perm hV, ne_nil_perm hD, eq_nil_perm hD]
  constructor
  · rintro ⟨h1, h2, h3⟩
    exact ⟨fun v hv w hw => h1 v (hV.mem_iff.2 hv) w (hV.mem_iff.2 hw), h2, h3⟩
  · rintro ⟨h1, h2, h3⟩
    exact ⟨fun v hv w hw => h1 v (hV.mem_iff.1 hv) w (hV.mem_iff.1 hw), h2, h3⟩

theorem cons_perm {cur : GKey → Option Val} {F F' : List Fired} (h : F.Perm F') : Cons cur F ↔ Cons cur F' := by
  rw [cons_iff, cons_iff]
  exact forall_congr' (fun k => consK_perm h k)

theorem newVal_perm {cur : GKey → Option Val} {F F' : List Fired} (h : F.Perm F') (k : GKey)
    (hc : ConsK cur F k) : newVal cur F k = newVal cur F' k := by
  have hB : (asgB F k).Perm (asgB F' k) := h.filterMap _
  have hV : (asgV F k).Perm (asgV F' k) := h.filterMap _
  have hD : (deltas F k).Perm (deltas F' k) := h.filterMap _
  unfold newVal
  by_cases hb : asgB F k = []
  · have hb' : asgB F' k = [] := (eq_nil_perm hB).1 hb
    simp only [hb, hb', ne_eq, not_true_eq_false, if_false]
    cases hv : asgV F k with
    | nil =>
      have hv' : asgV F' k = [] := (eq_nil_perm hV).1 hv
      rw [hv']
      dsimp only
      by_cases hd : deltas F k = []
      · have hd' : deltas F' k = [] := (eq_nil_perm hD).1 hd
        simp [hd, hd']
      · have hd' : deltas F' k ≠ [] := (ne_nil_perm hD).1 hd
        simp only [hd, hd', not_false_eq_true, if_true, sumR_perm hD]
    | cons v vs =>
      cases hv' : asgV F' k with
      | nil => rw [hv, hv'] at hV; exact absurd hV.eq_nil (by simp)
      | cons w ws =>
        dsimp only
        have hw : w ∈ asgV F k := hV.mem_iff.2 (by rw [hv']; simp)
        rw [hc.1 v (by rw [hv]; simp) w hw]
  · have hb' : asgB F' k ≠ [] := (ne_nil_perm hB).1 hb
    simp only [ne_eq, hb, hb', not_false_eq_true, if_true, hB.any_eq]

theorem succGet_perm {cur : GKey → Option Val} {F F' : List Fired} (h : F.Perm F') (hc : Cons cur F) :
    succGet cur F = succGet cur F' := by
  funext k
  unfold succGet
  rw [newVal_perm h k ((cons_iff cur F).1 hc k)]

/-- ORDER-FREENESS of the documented semantics: permuting the (expanded) effects changes nothing -/
theorem successorOf_perm (W : World) (s : SimState) (pre : List Expr) {E E' : List Effect} (h : E.Perm E') :
    successorOf W s pre E = successorOf W s pre E' := by
  unfold successorOf
  dsimp only
  split
  · rcases fired_perm (ctx W s) h with ⟨h1, h2⟩ | ⟨F, F', h1, h2, hp⟩
    · rw [h1, h2]
    · rw [h1, h2]
      dsimp only
      by_cases hc : Cons (ctx W s).get F
      · have hc' : Cons (ctx W s).get F' := (cons_perm hp).1 hc
        rw [← succGet_perm hp hc]
        simp only [hc, hc', true_and]
      · have hc' : ¬ Cons (ctx W s).get F' := fun x => hc ((cons_perm hp).2 x)
        simp only [hc, hc', false_and, if_false]
  · rfl

/-- the same for the effects of a grounded action (forall effects expand instance by instance) -/
theorem successor_perm (W : World) (s : SimState) (g g' : GAction) (hpre : g.pre = g'.pre)
    (h : g.effs.Perm g'.effs) : successor W s g = successor W s g' := by
  unfold successor expandAll
  rw [hpre]
  exact successorOf_perm W s g'.pre (h.flatMap_right _)

end UPVerif.Spec
