import UPVerif.Lemmas.DeorderGraph
import UPVerif.Lemmas.DeorderSem
/-!
C27, assembly: (1) an abstract theory of executing a list of steps in another order — if steps that
are swapped with respect to the original order commute, every reordering of an executable sequence
is executable and ends in the same state (repeated adjacent swaps, organised as "move the first step
of the new order to the front"); (2) `Sim.apply` chains (`Deorder.run`) against the map-level
successor `succF`; (3) the main theorem for plans whose footprints `covers` accepts.
-/
namespace UPVerif.Deorder
open UPVerif UPVerif.Expr UPVerif.Sim UPVerif.Spec

/-! ### (1) reorderings of an executable sequence -/

section abstract
variable {S : Type}

/-- the steps `l` (by index) executed from `s` -/
def exec (step : Nat → S → Option S) : List Nat → S → Option S
  | [], s => some s
  | i :: l, s => (step i s).bind (exec step l)

variable (step : Nat → S → Option S) (Good : S → Prop) (indep : Nat → Nat → Prop)

/-- moving `a` in front of steps it is independent of -/
theorem exec_move
    (good_step : ∀ i s t, Good s → step i s = some t → Good t)
    (comm : ∀ x a s s1 s2, indep x a → Good s → step x s = some s1 → step a s1 = some s2 →
      ∃ s1', step a s = some s1' ∧ step x s1' = some s2) (a : Nat) (m2 : List Nat) :
    ∀ (m1 : List Nat) (s t : S), Good s → (∀ x ∈ m1, indep x a) →
      exec step (m1 ++ a :: m2) s = some t → exec step (a :: (m1 ++ m2)) s = some t
  | [], _, _, _, _, h => h
  | x :: m1, s, t, hg, hind, h => by
    simp only [List.cons_append, exec] at h
    cases hx : step x s with
    | none => rw [hx] at h; cases h
    | some s1 =>
      rw [hx] at h
      simp only [Option.bind_some] at h
      have ih := exec_move good_step comm a m2 m1 s1 t (good_step x s s1 hg hx)
        (fun y hy => hind y (by simp [hy])) h
      simp only [exec] at ih
      cases ha : step a s1 with
      | none => rw [ha] at ih; cases ih
      | some s2 =>
        rw [ha] at ih
        simp only [Option.bind_some] at ih
        obtain ⟨s1', h1, h2⟩ := comm x a s s1 s2 (hind x (by simp)) hg hx ha
        simp only [exec, List.cons_append, h1, Option.bind_some, h2]
        exact ih

/-- every reordering `l` of an executable increasing sequence `m` in which swapped steps are
    independent is executable and ends in the same state -/
theorem exec_perm
    (good_step : ∀ i s t, Good s → step i s = some t → Good t)
    (comm : ∀ x a s s1 s2, indep x a → Good s → step x s = some s1 → step a s1 = some s2 →
      ∃ s1', step a s = some s1' ∧ step x s1' = some s2) :
    ∀ (l m : List Nat) (s t : S), l.Perm m → m.Pairwise (· < ·) →
      l.Pairwise (fun x y => y < x → indep y x) → Good s → exec step m s = some t → exec step l s = some t
  | [], m, s, t, hp, _, _, _, h => by
    have : m = [] := List.Perm.eq_nil hp.symm
    subst this; exact h
  | a :: l, m, s, t, hp, hm, hl, hg, h => by
    have ham : a ∈ m := hp.subset (by simp)
    obtain ⟨m1, m2, rfl⟩ := List.append_of_mem ham
    rw [List.pairwise_append] at hm
    obtain ⟨hm1, hm2, hm12⟩ := hm
    rw [List.pairwise_cons] at hl hm2
    have hp' : l.Perm (m1 ++ m2) := by
      have : (a :: l).Perm (a :: (m1 ++ m2)) := hp.trans List.perm_middle
      exact this.cons_inv
    have hind : ∀ x ∈ m1, indep x a := by
      intro x hx
      have hxl : x ∈ l := hp'.symm.subset (by simp [hx])
      exact hl.1 x hxl (hm12 x hx a (by simp))
    have h' := exec_move step Good indep good_step comm a m2 m1 s t hg hind h
    simp only [exec] at h'
    cases ha : step a s with
    | none => rw [ha] at h'; cases h'
    | some s' =>
      rw [ha] at h'
      simp only [Option.bind_some] at h'
      have hsorted : (m1 ++ m2).Pairwise (· < ·) := by
        rw [List.pairwise_append]
        exact ⟨hm1, hm2.2, fun x hx y hy => hm12 x hx y (by simp [hy])⟩
      have := exec_perm good_step comm l (m1 ++ m2) s' t hp' hsorted hl.2 (good_step a s s' hg ha) h'
      simp only [exec, ha, Option.bind_some]
      exact this

end abstract

/-! ### (2) plans on states-as-maps, and the simulator -/

/-- `Spec.apply` on a state-as-map -/
def stepOf (W : World) (st : Action × List String) (cur : FState) : Option FState :=
  match ground W st.1 st.2 with
  | .ok (some g) => succF W g cur
  | _ => none

theorem specApply_eq (W : World) (s : SimState) (a : Action) (args : List String) :
    Spec.apply W s a args = stepOf W (a, args) (s.get W.P) := by
  unfold Spec.apply stepOf
  cases ground W a args with
  | error x => rfl
  | ok og => cases og <;> rfl

/-- the plan executed on states-as-maps -/
def execP (W : World) : List (Action × List String) → FState → Option FState
  | [], cur => some cur
  | st :: rest, cur => (stepOf W st cur).bind (execP W rest)

/-- converse of C01's `apply_eq_spec`: when the documented semantics gives a successor, the
    simulator returns (no exception escapes) a state that reads like it -/
theorem apply_of_spec {W : World} {s : SimState} {a : Action} {args : List String} {t : FState}
    (h : Spec.apply W s a args = some t) :
    ∃ s', Sim.apply W s a args = .ok (some s') ∧ s'.get W.P = t := by
  unfold Spec.apply at h
  cases hg : ground W a args with
  | error x => rw [hg] at h; cases h
  | ok og =>
    rw [hg] at h
    cases og with
    | none => cases h
    | some g =>
      dsimp only at h
      obtain ⟨hp, F, hF, hC, hI, rfl⟩ := successorOf_inv h
      have h1 := foldEffects_of_fired (c := ctx W s) Acc.empty hF
      have h2 := foldFired_spec (cur := (ctx W s).get) (fired_sorted hF)
      cases hf : foldFired (ctx W s).get F Acc.empty with
      | error e => rw [hf] at h2; exact absurd hC h2
      | ok acc =>
        rw [hf] at h2 h1
        obtain ⟨_, hv⟩ := h2
        have hget : (s.child acc.upd).get W.P = succGet (ctx W s).get F := child_get hv
        have hctx : ctx W (s.child acc.upd) = withGet (ctx W s) (succGet (ctx W s).get F) := by
          simp only [withGet, ← hget]; rfl
        have hci : checkInvariants (ctx W (s.child acc.upd)) (invariants W) = .ok true := by
          rw [checkInvariants_invOK, hctx]; exact hI
        refine ⟨s.child acc.upd, ?_, hget⟩
        unfold Sim.apply applyRaw
        rw [hg]
        dsimp only
        unfold applyGround
        rw [checkPre_true.2 hp]
        dsimp only
        unfold applyUnsafe
        rw [h1]
        dsimp only
        rw [hci]
        rfl

theorem run_exec {W : World} : ∀ (π : List (Action × List String)) (s s' : SimState),
    run W s π = .ok (some s') → execP W π (s.get W.P) = some (s'.get W.P)
  | [], s, s', h => by
    simp only [run] at h
    cases h
    rfl
  | st :: rest, s, s', h => by
    simp only [run] at h
    cases ha : Sim.apply W s st.1 st.2 with
    | error x => rw [ha] at h; cases h
    | ok o =>
      rw [ha] at h
      cases o with
      | none => cases h
      | some s1 =>
        dsimp only at h
        have h1 := apply_eq_spec' W s st.1 st.2 (some s1) ha
        rw [specApply_eq] at h1
        simp only [Option.map_some] at h1
        simp only [execP, ← h1, Option.bind_some]
        exact run_exec rest s1 s' h

theorem exec_run {W : World} : ∀ (π : List (Action × List String)) (s : SimState) (t : FState),
    execP W π (s.get W.P) = some t → ∃ s', run W s π = .ok (some s') ∧ s'.get W.P = t
  | [], s, t, h => by
    simp only [execP] at h
    cases h
    exact ⟨s, rfl, rfl⟩
  | st :: rest, s, t, h => by
    simp only [execP] at h
    cases h1 : stepOf W st (s.get W.P) with
    | none => rw [h1] at h; cases h
    | some t1 =>
      rw [h1] at h
      simp only [Option.bind_some] at h
      have h2 : Spec.apply W s st.1 st.2 = some t1 := by rw [specApply_eq]; exact h1
      obtain ⟨s1, ha, hg⟩ := apply_of_spec h2
      rw [← hg] at h
      obtain ⟨s', hr, hs'⟩ := exec_run rest s1 t h
      exact ⟨s', by simp only [run, ha]; exact hr, hs'⟩

/-- step `i` of the plan `π` -/
def stepAt (W : World) (π : List (Action × List String)) (i : Nat) (cur : FState) : Option FState :=
  match π[i]? with
  | some st => stepOf W st cur
  | none => none

theorem exec_reorder (W : World) (π : List (Action × List String)) : ∀ (l : List Nat) (cur : FState),
    (∀ i ∈ l, i < π.length) → exec (stepAt W π) l cur = execP W (reorder π l) cur
  | [], _, _ => rfl
  | i :: l, cur, h => by
    have hi : i < π.length := h i (by simp)
    have hg : π[i]? = some π[i] := List.getElem?_eq_getElem hi
    have hr : reorder π (i :: l) = π[i] :: reorder π l := by
      simp [reorder, hg]
    rw [hr]
    simp only [exec, execP, stepAt, hg]
    cases stepOf W π[i] cur with
    | none => rfl
    | some t => exact exec_reorder W π l t (fun j hj => h j (by simp [hj]))

theorem exec_range' (W : World) : ∀ (rest pre : List (Action × List String)) (cur : FState),
    exec (stepAt W (pre ++ rest)) (List.range' pre.length rest.length) cur = execP W rest cur
  | [], _, _ => rfl
  | st :: rest, pre, cur => by
    have hg : (pre ++ st :: rest)[pre.length]? = some st := by
      rw [List.getElem?_append_right (Nat.le_refl _)]; simp
    simp only [List.length_cons, List.range'_succ, exec, execP, stepAt, hg]
    cases stepOf W st cur with
    | none => rfl
    | some t =>
      have := exec_range' W rest (pre ++ [st]) t
      simp only [List.append_assoc, List.cons_append, List.nil_append, List.length_append,
        List.length_cons, List.length_nil, Nat.zero_add] at this
      exact this

theorem exec_range (W : World) (π : List (Action × List String)) (cur : FState) :
    exec (stepAt W π) (List.range π.length) cur = execP W π cur := by
  have := exec_range' W π [] cur
  simpa [List.range_eq_range'] using this

/-! ### (3) footprints that cover the plan -/

theorem coversSteps_get {W : World} : ∀ {π : List (Action × List String)} {fps : List (Footprint Expr)},
    coversSteps W π fps = true →
    π.length = fps.length ∧ ∀ (i : Nat) (st : Action × List String) (fp : Footprint Expr),
      π[i]? = some st → fps[i]? = some fp → stepCovers W st fp = true
  | [], [], _ => ⟨rfl, by intro i st fp h; simp at h⟩
  | [], _ :: _, h => by simp [coversSteps] at h
  | _ :: _, [], h => by simp [coversSteps] at h
  | st :: π, fp :: fps, h => by
    simp only [coversSteps, Bool.and_eq_true] at h
    obtain ⟨hl, hall⟩ := coversSteps_get h.2
    refine ⟨by simp [hl], ?_⟩
    intro i st' fp' h1 h2
    cases i with
    | zero =>
      simp only [List.getElem?_cons_zero, Option.some.injEq] at h1 h2
      subst h1; subst h2
      exact h.1
    | succ i =>
      simp only [List.getElem?_cons_succ] at h1 h2
      exact hall i st' fp' h1 h2

theorem stepCovers_inv {W : World} {st : Action × List String} {fp : Footprint Expr}
    (h : stepCovers W st fp = true) :
    ∃ g kf, ground W st.1 st.2 = .ok (some g) ∧ keyFoot fp = some kf ∧ coversG W g kf = true := by
  unfold stepCovers at h
  split at h
  · rename_i g kf hg hk
    exact ⟨g, kf, hg, hk, h⟩
  · cases h

theorem keyFoot_inv {fp : Footprint Expr} {kf : Footprint GKey} (h : keyFoot fp = some kf) :
    (∀ k, k ∈ kf.reads ↔ ∃ e ∈ fp.reads, keyOf? e = some k) ∧
    (∀ k, k ∈ kf.writes ↔ ∃ e ∈ fp.writes, keyOf? e = some k) := by
  unfold keyFoot at h
  split at h
  · cases h
    exact ⟨fun k => List.mem_filterMap, fun k => List.mem_filterMap⟩
  · cases h

theorem keysInj_inv {fps : List (Footprint Expr)} (h : keysInj fps = true) {fp1 fp2 : Footprint Expr}
    (h1 : fp1 ∈ fps) (h2 : fp2 ∈ fps) {e1 e2 : Expr} (m1 : e1 ∈ fp1.reads ++ fp1.writes)
    (m2 : e2 ∈ fp2.reads ++ fp2.writes) (heq : keyOf? e1 = keyOf? e2) : e1 = e2 := by
  unfold keysInj at h
  simp only [List.all_eq_true, Bool.or_eq_true, bne_iff_ne, ne_eq, beq_iff_eq, List.mem_flatMap] at h
  rcases h e1 ⟨fp1, h1, m1⟩ e2 ⟨fp2, h2, m2⟩ with h | h
  · exact absurd heq h
  · exact h

/-- everything the main theorem needs, extracted from `covers` -/
structure Covered (W : World) (π : List (Action × List String)) (fps : List (Footprint Expr)) : Prop where
  len : π.length = fps.length
  invNN : ∀ inv ∈ invariants W, noNested inv = true
  wsub : ∀ fp ∈ fps, ∀ k ∈ fp.writes, k ∈ fp.reads
  inj : keysInj fps = true
  steps : ∀ (i : Nat) (st : Action × List String) (fp : Footprint Expr), π[i]? = some st → fps[i]? = some fp →
    ∃ g kf, ground W st.1 st.2 = .ok (some g) ∧ keyFoot fp = some kf ∧ Sound W g kf ∧ InvCov W kf

theorem covered_of_covers {W : World} {π : List (Action × List String)} {fps : List (Footprint Expr)}
    (h : covers W π fps = true) : Covered W π fps := by
  unfold covers at h
  simp only [Bool.and_eq_true, List.all_eq_true, List.contains_iff_mem] at h
  obtain ⟨⟨⟨h1, h2⟩, h3⟩, h4⟩ := h
  obtain ⟨hl, hs⟩ := coversSteps_get h4
  refine ⟨hl, h1, h3, h2, ?_⟩
  intro i st fp hi hj
  obtain ⟨g, kf, hg, hk, hc⟩ := stepCovers_inv (hs i st fp hi hj)
  obtain ⟨hS, hI⟩ := sound_of_coversG hc
  exact ⟨g, kf, hg, hk, hS, hI⟩

/-- two steps whose key footprints do not overlap -/
def IndepAt (fps : List (Footprint Expr)) (x a : Nat) : Prop :=
  ∃ fx fa kx ka, fps[x]? = some fx ∧ fps[a]? = some fa ∧ keyFoot fx = some kx ∧ keyFoot fa = some ka ∧
    (∀ k ∈ kx.writes, k ∉ ka.reads) ∧ (∀ k ∈ ka.writes, k ∉ kx.reads)

/-- steps that a topological ordering of (a graph containing) the deordering swaps are independent -/
theorem indep_of_lin {W : World} {π : List (Action × List String)} {fps : List (Footprint Expr)}
    (C : Covered W π fps) {E' : List (Nat × Nat)} (hE : ∀ e ∈ rawEdges fps, Reach E' e.1 e.2)
    {l : List Nat} (hl : IsLin π.length E' l) :
    l.Pairwise (fun x y => y < x → IndepAt fps y x) := by
  have hnd : l.Nodup := hl.1.nodup_iff.2 List.nodup_range
  refine (pairwise_idxOf l hnd).imp_of_mem ?_
  intro x y hx hy hxy hlt
  have hxn : x < fps.length := by
    have := hl.1.subset hx; rw [List.mem_range] at this; rw [← C.len]; exact this
  have hyn : y < fps.length := Nat.lt_trans hlt hxn
  have hfx : fps[x]? = some fps[x] := List.getElem?_eq_getElem hxn
  have hfy : fps[y]? = some fps[y] := List.getElem?_eq_getElem hyn
  have hxn' : x < π.length := by rw [C.len]; exact hxn
  have hyn' : y < π.length := by rw [C.len]; exact hyn
  have hpx : π[x]? = some (π[x]'hxn') := List.getElem?_eq_getElem hxn'
  have hpy : π[y]? = some (π[y]'hyn') := List.getElem?_eq_getElem hyn'
  obtain ⟨gx, kx, _, hkx, _, _⟩ := C.steps x _ _ hpx hfx
  obtain ⟨gy, ky, _, hky, _, _⟩ := C.steps y _ _ hpy hfy
  have mx : fps[x] ∈ fps := List.getElem_mem hxn
  have my : fps[y] ∈ fps := List.getElem_mem hyn
  -- a conflict on state keys is a conflict on the dictionary keys, hence a path, hence y before x
  have noconf : ¬ Conflict fps[y] fps[x] := by
    intro hc
    have r := conflict_reach fps C.wsub hlt hfy hfx hc
    have := hl.before_of_reach (r.mono hE)
    omega
  obtain ⟨ikxr, ikxw⟩ := keyFoot_inv hkx
  obtain ⟨ikyr, ikyw⟩ := keyFoot_inv hky
  refine ⟨fps[y], fps[x], ky, kx, hfy, hfx, hky, hkx, ?_, ?_⟩
  · intro k hw hr
    obtain ⟨e1, he1, hk1⟩ := (ikyw k).1 hw
    obtain ⟨e2, he2, hk2⟩ := (ikxr k).1 hr
    have : e1 = e2 := keysInj_inv C.inj my mx (by simp [he1]) (by simp [he2]) (by rw [hk1, hk2])
    subst this
    exact noconf ⟨e1, .inl ⟨he1, .inl he2⟩⟩
  · intro k hw hr
    obtain ⟨e1, he1, hk1⟩ := (ikxw k).1 hw
    obtain ⟨e2, he2, hk2⟩ := (ikyr k).1 hr
    have : e1 = e2 := keysInj_inv C.inj mx my (by simp [he1]) (by simp [he2]) (by rw [hk1, hk2])
    subst this
    exact noconf ⟨e1, .inr ⟨he1, .inl he2⟩⟩

/-- the swap of two independent steps of a covered plan, on states-as-maps -/
theorem stepAt_comm {W : World} {π : List (Action × List String)} {fps : List (Footprint Expr)}
    (C : Covered W π fps) (x a : Nat) (s s1 s2 : FState) (hi : IndepAt fps x a)
    (hs : invOK W (fctx W s) = true) (h1 : stepAt W π x s = some s1) (h2 : stepAt W π a s1 = some s2) :
    ∃ s1', stepAt W π a s = some s1' ∧ stepAt W π x s1' = some s2 := by
  obtain ⟨fx, fa, kx, ka, hfx, hfa, hkx, hka, dxa, dax⟩ := hi
  unfold stepAt at h1 h2 ⊢
  cases hpx : π[x]? with
  | none => rw [hpx] at h1; cases h1
  | some stx =>
    cases hpa : π[a]? with
    | none => rw [hpa] at h2; cases h2
    | some sta =>
      rw [hpx] at h1; rw [hpa] at h2
      dsimp only at h1 h2 ⊢
      obtain ⟨gx, kx', hgx, hkx', Sx, _⟩ := C.steps x stx fx hpx hfx
      obtain ⟨ga, ka', hga, hka', Sa, Ia⟩ := C.steps a sta fa hpa hfa
      rw [hkx] at hkx'; cases hkx'
      rw [hka] at hka'; cases hka'
      unfold stepOf at h1 h2 ⊢
      rw [hgx] at h1 ⊢
      rw [hga] at h2 ⊢
      dsimp only at h1 h2 ⊢
      exact commute_one Sx Sa Ia C.invNN dxa dax hs h1 h2

theorem stepAt_good {W : World} {π : List (Action × List String)} (i : Nat) (s t : FState)
    (h : stepAt W π i s = some t) : invOK W (fctx W t) = true := by
  unfold stepAt at h
  split at h
  · unfold stepOf at h
    split at h
    · obtain ⟨_, F, _, _, hI, rfl⟩ := succF_some.1 h
      exact hI
    · cases h
  · cases h

/-- THE MAIN LEMMA: for a plan whose footprints `covers` accepts, every topological ordering of any
    graph that contains the deordering's edges as paths is executable from every state satisfying the
    invariants from which the plan is executable, and ends in a state that reads the same -/
theorem all_linearisations {W : World} {π : List (Action × List String)} {fps : List (Footprint Expr)}
    (hc : covers W π fps = true) {E' : List (Nat × Nat)} (hE : ∀ e ∈ rawEdges fps, Reach E' e.1 e.2)
    {l : List Nat} (hl : IsLin π.length E' l)
    {s0 sf : SimState} (hinit : invOK W (ctx W s0) = true) (hrun : run W s0 π = .ok (some sf)) :
    ∃ sf', run W s0 (reorder π l) = .ok (some sf') ∧ sf'.get W.P = sf.get W.P := by
  have C := covered_of_covers hc
  have h0 : exec (stepAt W π) (List.range π.length) (s0.get W.P) = some (sf.get W.P) := by
    rw [exec_range]; exact run_exec π s0 sf hrun
  have h1 := exec_perm (stepAt W π) (fun s => invOK W (fctx W s) = true) (IndepAt fps)
    (fun i s t _ h => stepAt_good i s t h)
    (fun x a s s1 s2 hi hs h1 h2 => stepAt_comm C x a s s1 s2 hi hs h1 h2)
    l (List.range π.length) (s0.get W.P) (sf.get W.P) hl.1 List.pairwise_lt_range
    (indep_of_lin C hE hl) hinit h0
  rw [exec_reorder W π l _ (fun i hi => by
    have := hl.1.subset hi; rwa [List.mem_range] at this)] at h1
  exact exec_run _ s0 _ h1

/-- the initial state the simulator accepts satisfies every invariant (bounds included) -/
theorem getInitialState_invOK {W : World} {s0 : SimState} (h : getInitialState W = .ok (some s0)) :
    Spec.invOK W (ctx W s0) = true := by
  unfold getInitialState at h
  split at h
  · cases h
  · rename_i s0' _
    have key : ∀ (l : List Expr), getInitialState.go W s0' l = .ok (some s0) →
        s0' = s0 ∧ ∀ si ∈ l, evalBool (ctx W s0') si = .ok true := by
      intro l
      induction l with
      | nil =>
        intro hl
        simp only [getInitialState.go] at hl
        cases hl
        exact ⟨rfl, fun si hsi => by cases hsi⟩
      | cons si sis ih =>
        intro hl
        simp only [getInitialState.go] at hl
        split at hl
        · cases hl
        · cases hl
        · cases hl
        · rename_i hev
          obtain ⟨h1, h2⟩ := ih hl
          refine ⟨h1, ?_⟩
          intro x hx
          simp only [List.mem_cons] at hx
          rcases hx with rfl | hx
          · exact hev
          · exact h2 x hx
    obtain ⟨rfl, hall⟩ := key _ h
    exact invOK_iff.2 hall

end UPVerif.Deorder
