import UPVerif.Core.Compile.Common
import UPVerif.Lemmas.SpecPerm
/-!
Helper lemmas shared by the compiler step lemmas (C06 / C07): the map-state successor `succOf`
(= `Spec.successorOf`), its invariance under permutation of the effects, congruence in the
preconditions, the truth of conjunctions / negations under the state evaluator.
-/
namespace UPVerif.Compile
open UPVerif UPVerif.Expr UPVerif.Sim UPVerif.Spec

/-- the specification of C01 on a simulator state IS `succOf` on the map it denotes -/
theorem successorOf_eq_succOf (W : World) (s : SimState) (pre : List Expr) (E : List Effect) :
    Spec.successorOf W s pre E = succOf W (s.get W.P) pre E := rfl

theorem succOf_perm (W : World) (g : St) (pre : List Expr) {E E' : List Effect} (h : E.Perm E') :
    succOf W g pre E = succOf W g pre E' := by
  unfold succOf
  dsimp only
  split
  · rcases fired_perm (ctxOf W g) h with ⟨h1, h2⟩ | ⟨F, F', h1, h2, hp⟩
    · rw [h1, h2]
    · rw [h1, h2]
      dsimp only
      by_cases hc : Cons g F
      · have hc' : Cons g F' := (cons_perm hp).1 hc
        rw [← succGet_perm hp hc]
        simp only [hc, hc', true_and]
      · have hc' : ¬ Cons g F' := fun x => hc ((cons_perm hp).2 x)
        simp only [hc, hc', false_and, if_false]
  · rfl

/-- `succOf` only looks at the truth of the preconditions and at the fired effects -/
theorem succOf_congr (W : World) (g : St) {pre pre' : List Expr} {E E' : List Effect}
    (hp : preOK (ctxOf W g) pre = preOK (ctxOf W g) pre')
    (hf : fired (ctxOf W g) E = fired (ctxOf W g) E') : succOf W g pre E = succOf W g pre' E' := by
  unfold succOf
  dsimp only
  rw [hp, hf]

theorem succOf_some_pre {W : World} {g g' : St} {pre : List Expr} {E : List Effect}
    (h : succOf W g pre E = some g') : preOK (ctxOf W g) pre = true := by
  unfold succOf at h
  dsimp only at h
  split at h
  · assumption
  · cases h

theorem succOf_some_fired {W : World} {g g' : St} {pre : List Expr} {E : List Effect}
    (h : succOf W g pre E = some g') :
    ∃ F, fired (ctxOf W g) E = some F ∧ Cons g F ∧ invOK W (ctxOf W (succGet g F)) = true ∧ g' = succGet g F := by
  unfold succOf at h
  dsimp only at h
  split at h
  · split at h
    · cases h
    · rename_i F hF
      split at h
      · rename_i hc
        exact ⟨F, hF, hc.1, hc.2, by cases h; rfl⟩
      · cases h
  · cases h

theorem succOf_intro {W : World} {g : St} {pre : List Expr} {E : List Effect} {F : List Fired}
    (hp : preOK (ctxOf W g) pre = true) (hF : fired (ctxOf W g) E = some F) (hc : Cons g F)
    (hi : invOK W (ctxOf W (succGet g F)) = true) : succOf W g pre E = some (succGet g F) := by
  unfold succOf
  dsimp only
  rw [hp, hF]
  simp [hc, hi]

/-! ### preconditions -/

theorem preOK_append (c : EvalCtx) (l m : List Expr) : preOK c (l ++ m) = (preOK c l && preOK c m) := by
  unfold preOK; rw [List.all_append]

theorem preOK_cons (c : EvalCtx) (e : Expr) (l : List Expr) :
    preOK c (e :: l) = (Spec.isTrue (eval c [] e) && preOK c l) := by
  unfold preOK; rw [List.all_cons]

theorem preOK_mem {c : EvalCtx} {l : List Expr} (h : preOK c l = true) {e : Expr} (he : e ∈ l) :
    Spec.isTrue (eval c [] e) = true := by
  unfold preOK at h; rw [List.all_eq_true] at h; exact h e he

theorem isTrue_tt (c : EvalCtx) : Spec.isTrue (eval c [] Expr.tt) = true := rfl

theorem preOK_addPre (c : EvalCtx) (pre : List Expr) (e : Expr) :
    preOK c (addPre pre e) = (preOK c pre && Spec.isTrue (eval c [] e)) := by
  unfold addPre
  split
  · rename_i h; rw [h, isTrue_tt, Bool.and_true]
  · split
    · rename_i h
      have hm : e ∈ pre := by simpa using h
      cases hp : preOK c pre with
      | false => rfl
      | true => rw [preOK_mem hp hm]; rfl
    · rw [preOK_append]; simp [preOK]

theorem isTrue_eq_true {r : Except EvalErr Val} : Spec.isTrue r = true ↔ r = .ok (.b true) := by
  cases r with
  | error e => simp [Spec.isTrue]
  | ok v => cases v with
    | b x => cases x <;> simp [Spec.isTrue]
    | n q => simp [Spec.isTrue]
    | o s => simp [Spec.isTrue]

/-- a conjunction node evaluates to TRUE iff all its arguments do -/
theorem eval_and_true (c : EvalCtx) (ρ : VEnv) : ∀ (l : List Expr),
    Spec.isTrue (eval c ρ (.app .and l)) = l.all (fun e => Spec.isTrue (eval c ρ e)) := by
  intro l
  have key : ∀ (l : List Expr), (∃ vs, evalList c ρ l = .ok vs ∧
        ((allBools vs).map (fun bs => bs.all id) = some true ↔ l.all (fun e => Spec.isTrue (eval c ρ e)) = true)) ∨
      ((∃ x, evalList c ρ l = .error x) ∧ l.all (fun e => Spec.isTrue (eval c ρ e)) = false) := by
    intro l
    induction l with
    | nil => left; exact ⟨[], rfl, by simp [allBools]⟩
    | cons e es ih =>
      rcases ih with ⟨vs, hvs, hiff⟩ | ⟨⟨x, hx⟩, hall⟩
      · cases he : eval c ρ e with
        | error y =>
          right
          refine ⟨⟨y, ?_⟩, ?_⟩
          · simp [evalList, hvs, he]
          · simp [he, Spec.isTrue]
        | ok v =>
          left
          refine ⟨v :: vs, by simp [evalList, hvs, he], ?_⟩
          cases v with
          | b x =>
            simp only [allBools, List.all_cons, he]
            cases hab : allBools vs with
            | none =>
              rw [hab] at hiff
              simp only [Option.map_none] at hiff
              have : es.all (fun e => Spec.isTrue (eval c ρ e)) = false := by
                cases h : es.all (fun e => Spec.isTrue (eval c ρ e)) with
                | false => rfl
                | true => exact absurd (hiff.2 h) (by simp)
              simp [this]
            | some bs =>
              rw [hab] at hiff
              simp only [Option.map_some, Option.some.injEq] at hiff
              cases x with
              | true =>
                simp only [Option.map_some, List.all_cons, id, Bool.true_and, Option.some.injEq, Spec.isTrue]
                exact hiff
              | false => simp [Spec.isTrue]
          | n q => simp [allBools, he, Spec.isTrue]
          | o s => simp [allBools, he, Spec.isTrue]
      · right
        refine ⟨⟨x, by simp [evalList, hx]⟩, ?_⟩
        simp [hall]
  rcases key l with ⟨vs, hvs, hiff⟩ | ⟨⟨x, hx⟩, hall⟩
  · have e1 : eval c ρ (.app .and l) = evalOp c .and vs := by simp [eval, hvs]
    rw [e1]
    have e2 : evalOp c .and vs = (match (allBools vs).map (fun bs => Val.b (bs.all id)) with
        | some v => .ok v | none => .error .other) := rfl
    rw [e2]
    cases hab : allBools vs with
    | none =>
      rw [hab] at hiff
      simp only [Option.map_none] at hiff ⊢
      cases h : l.all (fun e => Spec.isTrue (eval c ρ e)) with
      | false => rfl
      | true => exact absurd (hiff.2 h) (by simp)
    | some bs =>
      rw [hab] at hiff
      simp only [Option.map_some, Option.some.injEq] at hiff ⊢
      cases hb : bs.all id with
      | true => rw [hiff.1 hb]; rfl
      | false =>
        cases h : l.all (fun e => Spec.isTrue (eval c ρ e)) with
        | false => rfl
        | true => rw [hiff.2 h] at hb; cases hb
  · have e1 : eval c ρ (.app .and l) = .error x := by simp [eval, hx]
    rw [e1, hall]; rfl

/-- `manager.And(l)` evaluates to TRUE iff every element does -/
theorem isTrue_mkAnd (c : EvalCtx) (l : List Expr) :
    Spec.isTrue (eval c [] (mkAnd l)) = preOK c l := by
  unfold preOK
  match l with
  | [] => rfl
  | [x] => simp [mkAnd]
  | x :: y :: r => rw [show mkAnd (x :: y :: r) = .app .and (x :: y :: r) from rfl, eval_and_true]

/-- the negation built by the manager is TRUE exactly when the expression evaluates to FALSE -/
theorem isTrue_mkNot {c : EvalCtx} {e : Expr} (h : Spec.isTrue (eval c [] (mkNot e)) = true) :
    eval c [] e = .ok (.b false) := by
  have hnot : ∀ x : Expr, Spec.isTrue (eval c [] (.app .not [x])) = true → eval c [] x = .ok (.b false) := by
    intro x hx
    rw [isTrue_eq_true] at hx
    cases hxe : eval c [] x with
    | error y => simp [eval, evalList, hxe] at hx
    | ok v =>
      simp only [eval, evalList, hxe] at hx
      cases v with
      | b b =>
        cases b with
        | false => rfl
        | true => simp [evalOp, denOp] at hx
      | n q => simp [evalOp, denOp] at hx
      | o s => simp [evalOp, denOp] at hx
  -- `mkNot (not x) = x`
  by_cases hs : ∃ x, e = .app .not [x]
  · obtain ⟨x, rfl⟩ := hs
    have : mkNot (.app .not [x]) = x := rfl
    rw [this, isTrue_eq_true] at h
    simp [eval, evalList, h, evalOp, denOp]
  · have : mkNot e = .app .not [e] := by
      unfold mkNot
      split
      · rename_i x; exact absurd ⟨x, rfl⟩ hs
      · rfl
    rw [this] at h
    exact hnot e h

theorem isTrue_mkNot_of_false {c : EvalCtx} {e : Expr} (h : eval c [] e = .ok (.b false)) :
    Spec.isTrue (eval c [] (mkNot e)) = true := by
  by_cases hs : ∃ x, e = .app .not [x]
  · obtain ⟨x, rfl⟩ := hs
    have : mkNot (.app .not [x]) = x := rfl
    rw [this]
    cases hxe : eval c [] x with
    | error y => simp [eval, evalList, hxe] at h
    | ok v =>
      simp only [eval, evalList, hxe] at h
      cases v with
      | b b =>
        cases b with
        | true => rfl
        | false => simp [evalOp, denOp] at h
      | n q => simp [evalOp, denOp] at h
      | o s => simp [evalOp, denOp] at h
  · have : mkNot e = .app .not [e] := by
      unfold mkNot
      split
      · rename_i x; exact absurd ⟨x, rfl⟩ hs
      · rfl
    rw [this]
    simp [eval, evalList, h, evalOp, denOp, Spec.isTrue]

/-! ### the compile-time simplifier -/

/-- the only thing the step lemmas need from the simplifier the compilers call: it does not change what
    an expression evaluates to (property C11 proves this about the real simplifier's model with respect to
    the reference denotation, on interpretations where the expression is defined) -/
def SimpExact (simp : Expr → Expr) : Prop := ∀ (c : EvalCtx) (e : Expr), eval c [] (simp e) = eval c [] e

theorem SimpExact_id : SimpExact id := fun _ _ => rfl

/-- `check_and_simplify_preconditions` keeps the truth of the conjunction of the preconditions -/
theorem preOK_simplifyPre {simp : Expr → Expr} (hs : SimpExact simp) (c : EvalCtx) (pre : List Expr) :
    (match simplifyPreWith simp pre with
     | some pre' => preOK c pre'
     | none => false) = preOK c pre := by
  by_cases h : pre.isEmpty = true
  · have : pre = [] := by simpa using h
    subst this; rfl
  · have key := isTrue_mkAnd c pre
    rw [← hs c (mkAnd pre)] at key
    rw [← key]
    unfold simplifyPreWith
    simp only [h, Bool.false_eq_true, if_false]
    generalize simp (mkAnd pre) = s
    split
    · rename_i x pre' hx
      split at hx
      · rename_i b
        split at hx
        · cases hx; rename_i hb; subst hb; rfl
        · cases hx
      · rename_i as
        cases hx
        rw [eval_and_true]; rfl
      · cases hx; simp [preOK]
    · rename_i x hx
      split at hx
      · rename_i b
        split at hx
        · cases hx
        · rename_i hb
          have : b = false := by simpa using hb
          subst this; rfl
      · cases hx
      · cases hx

end UPVerif.Compile
