import UPVerif.Lemmas.LinearLemmas
import Mathlib.Tactic.Ring
/-!
Helper lemmas for `Props/C17.lean`, part 2: the loop of `walk_times` against `den`, and the
induction over expressions (`linWalk_sound`).
-/
namespace UPVerif.Lin
open Expr Simp

section
variable {E : TypeEnv} {O : String → Option String} {ι ι' : Interp} {ρ : VEnv} {k : GFluent}

/-- the sign the loop state claims for the product `c` of the fluent-free factors seen so far -/
def SignOK (st : TimesSt) (c : Rat) : Prop :=
  st.unknown = false → (st.positivity = true → 0 < c) ∧ (st.positivity = false → c < 0)

/-- loop invariant of `walk_times`: the prefix products under `ι` and `ι'` are `c * u` and `c * u'`
    with `c` the product of the fluent-free factors and `u`, `u'` the value of the (at most one)
    factor with fluents -/
def TimesInv (k : GFluent) (st : TimesSt) (π π' : Rat) : Prop :=
  st.lin = true → ∃ c u u', π = c * u ∧ π' = c * u' ∧ SignOK st c ∧
    Claim (hasKey k st.pos) (hasKey k st.neg) u u' ∧
    (st.found = false → u = 1 ∧ u' = 1 ∧ st.pos = [] ∧ st.neg = [])

theorem timesInv_init : TimesInv k TimesSt.init 1 1 := by
  intro _
  refine ⟨1, 1, 1, by norm_num, by norm_num, ?_, ?_, ?_⟩
  · intro _; exact ⟨fun _ => by norm_num, fun h => by simp [TimesSt.init] at h⟩
  · simp only [TimesSt.init, hasKey_nil, claim_none]
  · intro _; exact ⟨rfl, rfl, rfl, rfl⟩

theorem timesStep_inv (hI : InterpOK E O ι) (hρ : VEnvOK E O ρ) {st st' : TimesSt} {a : Expr} {r : LinRes}
    {π π' w w' : Rat} (hl : LeavesOK E O ι a) (hs : Sound k ι ι' ρ a r)
    (hw : den ι ρ a = some (.n w)) (hw' : den ι' ρ a = some (.n w'))
    (hstep : timesStep E st a r = .ok st') (hinv : TimesInv k st π π') :
    TimesInv k st' (π * w) (π' * w') := by
  unfold timesStep at hstep
  simp only [] at hstep
  split at hstep
  · -- a factor with fluents
    simp only [Except.ok.injEq] at hstep
    subst hstep
    intro hlin
    simp only [] at hlin
    cases hf : st.found with
    | true => simp [hf] at hlin
    | false =>
      simp only [hf, Bool.false_eq_true, ↓reduceIte, Bool.and_eq_true] at hlin
      obtain ⟨c, u, u', hπ, hπ', hsg, _, hnf⟩ := hinv hlin.1
      obtain ⟨hu, hu', hp, hn⟩ := hnf hf
      subst hu; subst hu'
      refine ⟨c, w, w', by rw [hπ]; ring, by rw [hπ']; ring, ?_, ?_, ?_⟩
      · exact hsg
      · simp only [hp, hn, union_nil_left]
        exact hs hlin.2 w w' hw hw'
      · intro h; cases h
  · -- a fluent-free factor
    rename_i hempty
    simp only [Bool.or_eq_true, Bool.not_eq_true', not_or, Bool.not_eq_false] at hempty
    have hp := isEmpty_eq_nil hempty.1
    have hn := isEmpty_eq_nil hempty.2
    have hww : st.lin = true → r.lin = true → w = w' := by
      intro _ hr
      have := hs hr w w' hw hw'
      rw [hp, hn, hasKey_nil, claim_none] at this
      exact this
    split at hstep
    · cases hstep
    · -- positive
      rename_i hsign
      have hsg := signOf_sound hI hρ hl hsign hw
      simp only [Except.ok.injEq] at hstep
      subst hstep
      intro hlin
      simp only [Bool.and_eq_true] at hlin
      obtain ⟨c, u, u', hπ, hπ', hso, hcl, hnf⟩ := hinv hlin.1
      have hwe := hww hlin.1 hlin.2
      subst hwe
      refine ⟨c * w, u, u', by rw [hπ]; ring, by rw [hπ']; ring, ?_, hcl, hnf⟩
      intro hu
      have hw0 := hsg.1 rfl
      obtain ⟨h1, h2⟩ := hso hu
      exact ⟨fun hp => mul_pos (h1 hp) hw0, fun hp => mul_neg_of_neg_of_pos (h2 hp) hw0⟩
    · -- negative
      rename_i hsign
      have hsg := signOf_sound hI hρ hl hsign hw
      simp only [Except.ok.injEq] at hstep
      subst hstep
      intro hlin
      simp only [Bool.and_eq_true] at hlin
      obtain ⟨c, u, u', hπ, hπ', hso, hcl, hnf⟩ := hinv hlin.1
      have hwe := hww hlin.1 hlin.2
      subst hwe
      refine ⟨c * w, u, u', by rw [hπ]; ring, by rw [hπ']; ring, ?_, hcl, hnf⟩
      intro hu
      have hw0 := hsg.2 rfl
      obtain ⟨h1, h2⟩ := hso hu
      constructor
      · intro hp
        simp only [Bool.not_eq_true'] at hp
        exact mul_pos_of_neg_of_neg (h2 hp) hw0
      · intro hp
        simp only [Bool.not_eq_false'] at hp
        exact mul_neg_of_pos_of_neg (h1 hp) hw0
    · -- unknown
      simp only [Except.ok.injEq] at hstep
      subst hstep
      intro hlin
      simp only [Bool.and_eq_true] at hlin
      obtain ⟨c, u, u', hπ, hπ', _, hcl, hnf⟩ := hinv hlin.1
      have hwe := hww hlin.1 hlin.2
      subst hwe
      refine ⟨c * w, u, u', by rw [hπ]; ring, by rw [hπ']; ring, ?_, hcl, hnf⟩
      intro hu; cases hu

theorem timesLoop_inv (hI : InterpOK E O ι) (hρ : VEnvOK E O ρ) :
    ∀ {args : List Expr} {rs : List LinRes} {qs qs' : List Rat} {st st' : TimesSt} {π π' : Rat},
    List.Forall₂ (Sound k ι ι' ρ) args rs → (∀ a, a ∈ args → LeavesOK E O ι a) →
    denNums ι ρ args = some qs → denNums ι' ρ args = some qs' →
    timesLoop E st args rs = .ok st' → TimesInv k st π π' →
    TimesInv k st' (π * prodQ qs) (π' * prodQ qs')
  | _, _, qs, qs', st, st', π, π', .nil, _, h1, h2, hloop, hinv => by
    rw [denNums_nil] at h1 h2
    cases h1; cases h2
    simp only [timesLoop, Except.ok.injEq] at hloop
    subst hloop
    simpa [prodQ] using hinv
  | _, _, qs, qs', st, st', π, π', .cons (a := a) (b := r) (l₁ := as) (l₂ := rs) hs hrest, hl, h1, h2,
      hloop, hinv => by
    obtain ⟨x, xs, hx, hxs, rfl⟩ := denNums_cons.1 h1
    obtain ⟨x', xs', hx', hxs', rfl⟩ := denNums_cons.1 h2
    simp only [timesLoop] at hloop
    split at hloop
    · cases hloop
    · rename_i st1 hstep
      have hinv1 := timesStep_inv hI hρ (hl a (by simp)) hs hx hx' hstep hinv
      have := timesLoop_inv hI hρ hrest (fun b hb => hl b (List.mem_cons_of_mem _ hb)) hxs hxs' hloop hinv1
      simp only [prodQ]
      rw [← mul_assoc, ← mul_assoc]
      exact this

theorem times_sound (hI : InterpOK E O ι) (hρ : VEnvOK E O ρ) {args : List Expr} {rs : List LinRes} {r : LinRes}
    (hl : ∀ a, a ∈ args → LeavesOK E O ι a)
    (h : List.Forall₂ (Sound k ι ι' ρ) args rs) (hw : walkTimes E args rs = .ok r) :
    Sound k ι ι' ρ (.app .times args) r := by
  unfold walkTimes at hw
  split at hw
  · cases hw
  · rename_i st hloop
    intro hlin q q' h1 h2
    obtain ⟨qs, hqs, hq⟩ := den_times_some.1 h1
    obtain ⟨qs', hqs', hq'⟩ := den_times_some.1 h2
    cases hq; cases hq'
    have hinv := timesLoop_inv hI hρ h hl hqs hqs' hloop (timesInv_init (k := k))
    rw [one_mul, one_mul] at hinv
    cases hsl : st.lin with
    | false =>
      simp only [hsl, Bool.not_false, ↓reduceIte, Except.ok.injEq] at hw
      subst hw; cases hlin
    | true =>
      obtain ⟨c, u, u', hπ, hπ', hsg, hcl, _⟩ := hinv hsl
      rw [hπ, hπ']
      simp only [hsl, Bool.not_true, Bool.false_eq_true, ↓reduceIte] at hw
      cases hu : st.unknown with
      | true =>
        simp only [hu, ↓reduceIte, Except.ok.injEq] at hw
        subst hw
        exact claim_bySign (fun h => by cases h) (fun h => by cases h) hcl
      | false =>
        simp only [hu, Bool.false_eq_true, ↓reduceIte] at hw
        obtain ⟨h1', h2'⟩ := hsg hu
        cases hp : st.positivity with
        | true =>
          simp only [hp, ↓reduceIte, Except.ok.injEq] at hw
          subst hw
          exact claim_bySign (fun _ => h1' hp) (fun h => by cases h) hcl
        | false =>
          simp only [hp, Bool.false_eq_true, ↓reduceIte, Except.ok.injEq] at hw
          subst hw
          exact claim_bySign (fun h => by cases h) (fun _ => h2' hp) hcl

/-! ### the induction over expressions -/

theorem mem_leavesList {l : Leaf} : ∀ {args : List Expr} {a : Expr}, a ∈ args → l ∈ a.leaves →
    l ∈ Expr.leavesList args
  | [], _, ha, _ => by cases ha
  | x :: xs, a, ha, hl => by
    simp only [Expr.leavesList, List.mem_append]
    rcases List.mem_cons.1 ha with rfl | hm
    · exact .inl hl
    · exact .inr (mem_leavesList hm hl)

theorem leavesOK_args {op : Op} {args : List Expr} (h : LeavesOK E O ι (.app op args)) :
    ∀ a, a ∈ args → LeavesOK E O ι a := by
  intro a ha l hl
  apply h l
  simp only [Expr.leaves]
  exact mem_leavesList ha hl

theorem arithList_mem : ∀ {es : List Expr}, arithList es = true → ∀ e, e ∈ es → arith e = true
  | [], _, e, he => by cases he
  | x :: xs, h, e, he => by
    simp only [arithList, Bool.and_eq_true] at h
    rcases List.mem_cons.1 he with rfl | hm
    · exact h.1
    · exact arithList_mem h.2 e hm

mutual
theorem linWalk_sound (hB : Bump k ι ι') (hI : InterpOK E O ι) (hρ : VEnvOK E O ρ) :
    ∀ (e : Expr) (r : LinRes), arith e = true → LeavesOK E O ι e → linWalk E e = .ok r →
      Sound k ι ι' ρ e r
  | .leaf l, r, _, _, h => by
    simp only [linWalk, Except.ok.injEq] at h
    subst h
    exact leaf_sound hB l
  | .app op args, r, ha, hl, h => by
    simp only [linWalk] at h
    split at h
    · cases h
    · rename_i rs hrs
      have hla := leavesOK_args hl
      cases op with
      | plus =>
        have ih := linWalkList_sound hB hI hρ args rs (by simpa [arith] using ha) hla hrs
        simp only [walkOp, Except.ok.injEq] at h; subst h
        exact plus_sound ih
      | minus =>
        have ih := linWalkList_sound hB hI hρ args rs (by simpa [arith] using ha) hla hrs
        simp only [walkOp] at h
        exact minus_sound ih h
      | times =>
        have ih := linWalkList_sound hB hI hρ args rs (by simpa [arith] using ha) hla hrs
        simp only [walkOp] at h
        exact times_sound hI hρ hla ih h
      | div =>
        have ih := linWalkList_sound hB hI hρ args rs (by simpa [arith] using ha) hla hrs
        simp only [walkOp] at h
        exact div_sound hI hρ hla ih h
      | fluent f =>
        simp only [walkOp, Except.ok.injEq] at h; subst h
        exact fluent_sound hB (by simpa [arith] using ha)
      | _ => simp [arith] at ha
  | .quant _ _ _, _, ha, _, _ => by simp [arith] at ha
theorem linWalkList_sound (hB : Bump k ι ι') (hI : InterpOK E O ι) (hρ : VEnvOK E O ρ) :
    ∀ (es : List Expr) (rs : List LinRes), arithList es = true → (∀ e, e ∈ es → LeavesOK E O ι e) →
      linWalkList E es = .ok rs → List.Forall₂ (Sound k ι ι' ρ) es rs
  | [], rs, _, _, h => by
    simp only [linWalkList, Except.ok.injEq] at h
    subst h; exact .nil
  | e :: es, rs, ha, hl, h => by
    simp only [arithList, Bool.and_eq_true] at ha
    simp only [linWalkList] at h
    split at h
    · rename_i r rs' hr hrs'
      simp only [Except.ok.injEq] at h
      subst h
      exact .cons (linWalk_sound hB hI hρ e r ha.1 (hl e (by simp)) hr)
        (linWalkList_sound hB hI hρ es rs' ha.2 (fun x hx => hl x (List.mem_cons_of_mem _ hx)) hrs')
    · cases h
    · cases h
end

end
end UPVerif.Lin
