import UPVerif.Lemmas.SimplifySound
/-!
The concrete instance used for the non-vacuity examples of `Props/C11.lean`: a two-type hierarchy
`S < T`, a static integer fluent with initial value `2^60 + 1`, an interpretation, an expression that
exercises quantifier elimination and big-integer division — and the proof that the interpretation
meets `Respects`.
-/
namespace UPVerif.C11.Ex
open UPVerif UPVerif.Simp UPVerif.Expr

def S : Ty := .user "S"
def at_ : FluentRef := ⟨"at", .user "T", []⟩
def bs : FluentRef := ⟨"bs", .bool, [S]⟩
def x : FluentRef := ⟨"x", .int none none, []⟩
def q : Var := ⟨"q", S⟩
/-- hierarchy `S < T`; `x` static with initial value `2^60 + 1` -/
def cfg : SimpCfg :=
  { tenv := ⟨[("T", none), ("S", some "T")]⟩, statics := [x],
    init := [(.app (.fluent x) [], Expr.int (2 ^ 60 + 1))], defaults := [], funs := [] }
def oty : String → Option String := fun n => if n = "s1" then some "S" else if n = "t1" then some "T" else none
def ι : Interp where
  fl := fun f _ => if f = x then some (.n (2 ^ 60 + 1)) else if f = bs then some (.b true)
    else if f = at_ then some (.o "t1") else none
  fn := fun _ _ => none
  par := fun _ => none
  dom := fun t => if t = .user "S" then [.o "s1"] else if t = .user "T" then [.o "t1", .o "s1"] else []
/-- `Exists q : S. (q == s1 and bs(q)) and 3 * x / 3 <= x` -/
def e : Expr :=
  .app .and [.quant .ex [q] (.app .and [.app .eq [.leaf (.var q), .leaf (.obj "s1" "S")],
                                        .app (.fluent bs) [.leaf (.var q)]]),
             .app .le [.app .div [.app .times [Expr.int 3, .app (.fluent x) []], Expr.int 3],
                       .app (.fluent x) []]]

theorem sub_S (b : String) (h : cfg.tenv.isSubtype "S" b = true) : b = "S" ∨ b = "T" := by
  simp [cfg, TypeEnv.isSubtype, TypeEnv.isSubtypeFuel, TypeEnv.father, List.lookup] at h
  rcases h with h | h | h <;> simp_all
theorem sub_T (b : String) (h : cfg.tenv.isSubtype "T" b = true) : b = "T" := by
  simp [cfg, TypeEnv.isSubtype, TypeEnv.isSubtypeFuel, TypeEnv.father, List.lookup] at h
  rcases h with h | h <;> simp_all

theorem dom_cases (a : String) (v : Val) (h : v ∈ ι.dom (.user a)) :
    (a = "S" ∧ v = .o "s1") ∨ (a = "T" ∧ (v = .o "t1" ∨ v = .o "s1")) := by
  simp only [ι] at h
  split at h
  · rename_i h1; simp at h1; simp_all
  · split at h
    · rename_i h1 h2; simp at h2; simp_all
    · cases h

/-- the interpretation meets every hypothesis of `C11_sound_partial` -/
theorem respects : Respects cfg ι oty where
  objTy := by
    intro n t h
    simp only [oty] at h
    split at h
    · simp only [Option.some.injEq] at h; subst h; rename_i hn; subst hn; simp [ι]
    · split at h
      · simp only [Option.some.injEq] at h; subst h; rename_i hn; subst hn; simp [ι]
      · cases h
  domUp := by
    intro a b hab v hv
    rcases dom_cases a v hv with ⟨rfl, rfl⟩ | ⟨rfl, hv'⟩
    · rcases sub_S b hab with rfl | rfl <;> simp [ι]
    · have := sub_T b hab; subst this; exact hv
  domTree := by
    intro a b v ha hb
    rcases dom_cases a v ha with ⟨rfl, _⟩ | ⟨rfl, _⟩ <;>
    rcases dom_cases b v hb with ⟨rfl, _⟩ | ⟨rfl, _⟩ <;> decide
  flTy := by
    intro f args v t hf h
    simp only [ι] at h
    split at h
    · rename_i hfx; subst hfx; simp [x] at hf
    · split at h
      · rename_i hfx; subst hfx; simp [bs] at hf
      · split at h
        · rename_i hfx; subst hfx
          simp only [at_, Ty.user.injEq] at hf; subst hf
          simp only [Option.some.injEq] at h; subst h; simp [ι]
        · cases h
  fnTy := by intro g args v t _ h; cases h
  static := by
    intro f args v hf hv ρ w hw
    simp only [cfg, List.mem_singleton] at hf; subst hf
    by_cases hargs : args = []
    · subst hargs
      have : v = Expr.int (2 ^ 60 + 1) := by
        simp [cfg, SimpCfg.initialValue] at hv; exact hv.symm
      subst this
      obtain ⟨vs, _, hop⟩ := den_app_some.1 hw
      simp only [denOp, ι, if_true, Option.some.injEq] at hop
      subst hop
      simp only [Expr.int, den, denLeaf, Option.some.injEq, Val.n.injEq]
      first | rfl | decide +kernel
    · exfalso
      have hne : (Expr.app (Op.fluent x) args == Expr.app (Op.fluent x) []) = false := by
        simpa using hargs
      simp [cfg, SimpCfg.initialValue, hne] at hv
  funs := by intro g vs r e' h; simp [cfg, SimpCfg.funLookup] at h
  tables := by rfl


end UPVerif.C11.Ex
