import UPVerif.Core.Compile.NCR
import UPVerif.Lemmas.CompileNCREval
/-!
`NegativeFluentRemover` (Core/Compile/NCR.lean):

* the mapping only grows (`NMap.le`: what is mapped stays mapped to the same fluent), so every expression rewritten
  during the compilation is rewritten consistently with the FINAL mapping `M`;
* semantics of the walk (`nfrWalk_ev`): in a compiled state that agrees with the original state on the original
  fluents and holds, for every pair `(f, nf)` of `M` and every argument tuple, the negation of `f` in `nf`
  (`CtxRel`), the rewritten expression has the value of the original one — for the expressions `litOK` describes:
  negations sit on fluent applications or on `<=` / `<` comparisons (what NNF + simplification leave, except for
  negated equalities, which are NOT covered), n-ary operators have at least two arguments (manager normal form);
* `remove_negative_fluents` (`nfrRemove_ev`): NNF (property C12's model, `ev_nnf`), an exact simplifier, the walk.
-/
namespace UPVerif.Compile
open UPVerif UPVerif.Expr UPVerif.Sim UPVerif.Spec

/-! ### lists related element by element (core Lean has no `List.Forall₂`) -/

inductive All2 {α β : Type} (R : α → β → Prop) : List α → List β → Prop
  | nil : All2 R [] []
  | cons {a : α} {b : β} {as : List α} {bs : List β} : R a b → All2 R as bs → All2 R (a :: as) (b :: bs)

theorem All2.length {α β : Type} {R : α → β → Prop} {l : List α} {l' : List β} (h : All2 R l l') : l.length = l'.length := by
  induction h with
  | nil => rfl
  | cons _ _ ih => simp [ih]

theorem All2.imp {α β : Type} {R S : α → β → Prop} (hi : ∀ a b, R a b → S a b) {l : List α} {l' : List β}
    (h : All2 R l l') : All2 S l l' := by
  induction h with
  | nil => exact .nil
  | cons h1 _ ih => exact .cons (hi _ _ h1) ih

/-! ### the mapping only grows -/

/-- `m'` extends `m` -/
def NMap.le (m m' : NMap) : Prop := ∀ f nf, m.lookup f = some nf → m'.lookup f = some nf

theorem NMap.le_refl (m : NMap) : NMap.le m m := fun _ _ h => h
theorem NMap.le_trans {a b c : NMap} (h1 : NMap.le a b) (h2 : NMap.le b c) : NMap.le a c :=
  fun f nf h => h2 f nf (h1 f nf h)

theorem lookup_append_single (m : NMap) (f g x : FluentRef) :
    (m ++ [(f, x)]).lookup g = (match m.lookup g with
      | some y => some y
      | none => if g = f then some x else none) := by
  induction m with
  | nil =>
    simp only [List.nil_append, List.lookup]
    by_cases h : g = f
    · subst h; simp
    · have : (g == f) = false := by simpa using h
      simp [this, h]
  | cons kv m ih =>
    obtain ⟨k, v⟩ := kv
    simp only [List.cons_append, List.lookup]
    cases hk : g == k with
    | true => rfl
    | false => exact ih

theorem le_append_single {m : NMap} {f x : FluentRef} (h : m.lookup f = none) : NMap.le m (m ++ [(f, x)]) := by
  intro g y hg
  rw [lookup_append_single, hg]

theorem lookup_append_self {m : NMap} {f x : FluentRef} (h : m.lookup f = none) : (m ++ [(f, x)]).lookup f = some x := by
  rw [lookup_append_single, h]; simp

/-- the complementary fluent `walk_not` answers is the one the mapping holds afterwards -/
theorem nfrFluent_spec (P : Problem) (m : NMap) (f : FluentRef) :
    NMap.le m (nfrFluent P m f).2 ∧ (nfrFluent P m f).2.lookup f = some (nfrFluent P m f).1 := by
  unfold nfrFluent
  cases hl : m.lookup f with
  | some nf => exact ⟨NMap.le_refl m, hl⟩
  | none =>
    dsimp only
    cases m.find? (fun kv => kv.2 == f) with
    | some kv => exact ⟨le_append_single hl, lookup_append_self hl⟩
    | none => exact ⟨le_append_single hl, lookup_append_self hl⟩

theorem nfrNot_le {P : Problem} {m m' : NMap} {args : List Expr} {e' : Expr} (h : nfrNot P m args = some (e', m')) :
    NMap.le m m' := by
  unfold nfrNot at h
  split at h
  · cases h; exact (nfrFluent_spec P m _).1
  · cases hq : nfrNotEq P _ _ with
    | none => rw [hq] at h; cases h
    | some x => rw [hq] at h; cases h; exact NMap.le_refl m
  · cases h; exact NMap.le_refl m
  · cases h; exact NMap.le_refl m
  · cases h

theorem nfrWalk_le_both (P : Problem) :
    (∀ e m e' m', nfrWalk P m e = some (e', m') → NMap.le m m') ∧
    (∀ es m es' m', nfrWalkList P m es = some (es', m') → NMap.le m m' ∧ es'.length = es.length) := by
  have key : ∀ n, (∀ e, e.size ≤ n → ∀ m e' m', nfrWalk P m e = some (e', m') → NMap.le m m') ∧
      (∀ es, Expr.sizeList es ≤ n → ∀ m es' m', nfrWalkList P m es = some (es', m') → NMap.le m m' ∧ es'.length = es.length) := by
    intro n
    induction n with
    | zero =>
      constructor
      · intro e he; cases e <;> simp [Expr.size] at he
      · intro es he m es' m' h
        cases es with
        | nil => simp [nfrWalkList] at h; obtain ⟨rfl, rfl⟩ := h; exact ⟨NMap.le_refl m, rfl⟩
        | cons x xs =>
          simp [Expr.sizeList] at he
          cases x <;> simp [Expr.size] at he
    | succ n ih =>
      have hexpr : ∀ e, e.size ≤ n + 1 → ∀ m e' m', nfrWalk P m e = some (e', m') → NMap.le m m' := by
        intro e he m e' m' h
        cases e with
        | leaf l => simp [nfrWalk] at h; obtain ⟨_, rfl⟩ := h; exact NMap.le_refl m
        | app op args =>
          simp only [Expr.size] at he
          simp only [nfrWalk] at h
          cases hl : nfrWalkList P m args with
          | none => rw [hl] at h; cases h
          | some r =>
            obtain ⟨args', m1⟩ := r
            rw [hl] at h
            dsimp only at h
            have h1 := (ih.2 args (by omega) m args' m1 hl).1
            split at h
            · exact NMap.le_trans h1 (nfrNot_le h)
            · injection h with h; injection h with _ h2; subst h2; exact h1
        | quant q vs b =>
          simp only [Expr.size] at he
          simp only [nfrWalk] at h
          cases hb : nfrWalk P m b with
          | none => rw [hb] at h; cases h
          | some r =>
            obtain ⟨b', m1⟩ := r
            rw [hb] at h
            injection h with h; injection h with _ h2; subst h2
            exact ih.1 b (by omega) m b' m1 hb
      refine ⟨hexpr, ?_⟩
      intro es he m es' m' h
      cases es with
      | nil => simp [nfrWalkList] at h; obtain ⟨rfl, rfl⟩ := h; exact ⟨NMap.le_refl m, rfl⟩
      | cons x xs =>
        simp only [Expr.sizeList] at he
        have hx : 1 ≤ x.size := by cases x <;> simp [Expr.size] <;> omega
        simp only [nfrWalkList] at h
        cases hl : nfrWalkList P m xs with
        | none => rw [hl] at h; cases h
        | some r =>
          obtain ⟨xs', m1⟩ := r
          rw [hl] at h
          dsimp only at h
          cases hw : nfrWalk P m1 x with
          | none => rw [hw] at h; cases h
          | some r2 =>
            obtain ⟨x', m2⟩ := r2
            rw [hw] at h
            injection h with h; injection h with h3 h2; subst h2; subst h3
            obtain ⟨h1, hlen⟩ := ih.2 xs (by omega) m xs' m1 hl
            exact ⟨NMap.le_trans h1 (hexpr x (by omega) m1 x' m2 hw), by simp [hlen]⟩
  exact ⟨fun e m e' m' h => (key e.size).1 e (Nat.le_refl _) m e' m' h,
         fun es m es' m' h => (key (Expr.sizeList es)).2 es (Nat.le_refl _) m es' m' h⟩

theorem nfrWalk_le {P : Problem} {m m' : NMap} {e e' : Expr} (h : nfrWalk P m e = some (e', m')) : NMap.le m m' :=
  (nfrWalk_le_both P).1 e m e' m' h

theorem nfrRemove_le {simp : Expr → Expr} {P : Problem} {m m' : NMap} {e e' : Expr}
    (h : nfrRemove simp P m e = some (e', m')) : NMap.le m m' := nfrWalk_le h

/-- a stateful step that only extends the mapping, run over a list: every element is processed with a mapping the
    final one extends -/
theorem mapAccum_spec {α β : Type} {f : NMap → α → Option (β × NMap)}
    (hmono : ∀ m x y m', f m x = some (y, m') → NMap.le m m') :
    ∀ (xs : List α) (m : NMap) (ys : List β) (m' : NMap), mapAccum f m xs = some (ys, m') →
      NMap.le m m' ∧ All2 (fun x y => ∃ mi mi', f mi x = some (y, mi') ∧ NMap.le mi' m') xs ys
  | [], m, ys, m', h => by
    simp [mapAccum] at h
    obtain ⟨rfl, rfl⟩ := h
    exact ⟨NMap.le_refl m, .nil⟩
  | x :: xs, m, ys, m', h => by
    simp only [mapAccum] at h
    cases hf : f m x with
    | none => rw [hf] at h; cases h
    | some r =>
      obtain ⟨y, m1⟩ := r
      rw [hf] at h
      dsimp only at h
      cases hr : mapAccum f m1 xs with
      | none => rw [hr] at h; cases h
      | some r2 =>
        obtain ⟨ys', m2⟩ := r2
        rw [hr] at h
        injection h with h; injection h with h3 h4; subst h4; subst h3
        obtain ⟨h1, h2⟩ := mapAccum_spec hmono xs m1 ys' m2 hr
        exact ⟨NMap.le_trans (hmono m x y m1 hf) h1, .cons ⟨m, m1, hf, h1⟩ h2⟩

/-! ### the expressions the semantic lemma covers -/

/-- what may stand under a negation: a fluent application, a `<=` or a `<` comparison -/
def notArgOK : List Expr → Bool
  | [.app (.fluent _) _] => true
  | [.app .le [_, _]] => true
  | [.app .lt [_, _]] => true
  | _ => false

def opOK (op : Op) (args : List Expr) : Bool :=
  match op with
  | .not => notArgOK args
  | .and => decide (2 ≤ args.length)
  | .or => decide (2 ≤ args.length)
  | .plus => decide (2 ≤ args.length)
  | .times => decide (2 ≤ args.length)
  | _ => true

mutual
/-- negations only on fluent applications and `<=` / `<` comparisons; n-ary operators in manager normal form -/
def litOK : Expr → Bool
  | .leaf _ => true
  | .app op args => opOK op args && litOKList args
  | .quant _ _ b => litOK b
def litOKList : List Expr → Bool
  | [] => true
  | e :: es => litOK e && litOKList es
end

theorem rebuild_of_opOK {op : Op} {args args' : List Expr} (hop : opOK op args = true) (hne : op ≠ .not)
    (hl : args'.length = args.length) : rebuild op args' = .app op args' := by
  cases op with
  | not => exact absurd rfl hne
  | and | or | plus | times =>
    have h2 : 2 ≤ args'.length := by rw [hl]; simpa [opOK] using hop
    match args', h2 with
    | x :: y :: r, _ => rfl
  | _ => rfl

/-! ### compiled states and original states -/

/-- the complementary fluent holds the negation (or both are undefined) -/
def MirrorAt (x' x : Option Val) : Prop := (x = none ∧ x' = none) ∨ ∃ b, x = some (.b b) ∧ x' = some (.b (!b))

/-- the fresh fluents of a mapping -/
def NMap.fresh (M : NMap) : List FluentRef := M.map (·.2)

/-- a compiled evaluation context `c'` against the original one `c`: same objects and functions, same values on
    every fluent that is not a complementary one, and every complementary fluent mirrors its fluent -/
structure CtxRel (M : NMap) (c' c : EvalCtx) : Prop where
  agree : AgreeOffL M.fresh c c'
  mirror : ∀ f nf, M.lookup f = some nf → ∀ vs, MirrorAt (c'.get (nf, vs)) (c.get (f, vs))

theorem toO_evalOp_fluent (c : EvalCtx) (f : FluentRef) (vs : List Val) : toO (evalOp c (.fluent f) vs) = c.get (f, vs) := by
  simp only [evalOp]
  cases c.get (f, vs) <;> rfl

theorem ev_not_fluent_mirror {M : NMap} {c' c : EvalCtx} (hR : CtxRel M c' c) {f nf : FluentRef} (hM : M.lookup f = some nf)
    (ρ : VEnv) (as as' : List Expr) (has : evL c' ρ as' = evL c ρ as) :
    ev c' ρ (.app (.fluent nf) as') = ev c ρ (.app .not [.app (.fluent f) as]) := by
  rw [ev_app, ev_app, evL_cons, evL_nil, ev_app, has]
  cases evL c ρ as with
  | none => rfl
  | some vs =>
    simp only [Option.bind_some, toO_evalOp_fluent]
    rcases hR.mirror f nf hM vs with ⟨h1, h2⟩ | ⟨b, h1, h2⟩
    · rw [h1, h2]; rfl
    · rw [h1, h2]
      simp only [Option.bind_some]
      rw [toO_evalOp c .not [.b b] (by intro f h; cases h) (by intro h; cases h)]
      rfl

theorem ev_not_le (c' c : EvalCtx) (ρ : VEnv) (a b a' b' : Expr) (ha : ev c' ρ a' = ev c ρ a) (hb : ev c' ρ b' = ev c ρ b) :
    ev c' ρ (mkGT a' b') = ev c ρ (.app .not [.app .le [a, b]]) := by
  unfold mkGT
  rw [ev_app, ev_app, evL_cons, evL_cons, evL_nil, evL_cons, evL_nil, ev_app, evL_cons, evL_cons, evL_nil, ha, hb]
  cases ev c ρ a with
  | none => cases ev c ρ b <;> rfl
  | some va =>
    cases ev c ρ b with
    | none => rfl
    | some vb =>
      simp only [Option.bind_some]
      rw [toO_evalOp c' .lt [vb, va] (by intro f h; cases h) (by intro h; cases h),
          toO_evalOp c .le [va, vb] (by intro f h; cases h) (by intro h; cases h)]
      cases va <;> cases vb <;> simp [denOp]
      rename_i x y
      rw [toO_evalOp c .not _ (by intro f h; cases h) (by intro h; cases h)]
      simp only [denOp, Option.some.injEq, Val.b.injEq]
      by_cases h : x ≤ y
      · have : ¬ y < x := fun h' => (Rat.not_le.mpr h') h
        simp [h, this]
      · have : y < x := Rat.not_le.mp h
        simp [h, this]

theorem ev_not_lt (c' c : EvalCtx) (ρ : VEnv) (a b a' b' : Expr) (ha : ev c' ρ a' = ev c ρ a) (hb : ev c' ρ b' = ev c ρ b) :
    ev c' ρ (mkGE a' b') = ev c ρ (.app .not [.app .lt [a, b]]) := by
  unfold mkGE
  rw [ev_app, ev_app, evL_cons, evL_cons, evL_nil, evL_cons, evL_nil, ev_app, evL_cons, evL_cons, evL_nil, ha, hb]
  cases ev c ρ a with
  | none => cases ev c ρ b <;> rfl
  | some va =>
    cases ev c ρ b with
    | none => rfl
    | some vb =>
      simp only [Option.bind_some]
      rw [toO_evalOp c' .le [vb, va] (by intro f h; cases h) (by intro h; cases h),
          toO_evalOp c .lt [va, vb] (by intro f h; cases h) (by intro h; cases h)]
      cases va <;> cases vb <;> simp [denOp]
      rename_i x y
      rw [toO_evalOp c .not _ (by intro f h; cases h) (by intro h; cases h)]
      simp only [denOp, Option.some.injEq, Val.b.injEq]
      by_cases h : x < y
      · have : ¬ y ≤ x := fun h' => (Rat.not_le.mpr h) h'
        simp [h, this]
      · have : y ≤ x := Rat.not_lt.mp h
        simp [h, this]

/-! ### semantics of the walk -/

theorem nfrWalkList_single {P : Problem} {m m' : NMap} {x : Expr} {l : List Expr}
    (h : nfrWalkList P m [x] = some (l, m')) : ∃ x', nfrWalk P m x = some (x', m') ∧ l = [x'] := by
  simp only [nfrWalkList] at h
  cases hw : nfrWalk P m x with
  | none => rw [hw] at h; cases h
  | some r =>
    obtain ⟨x', m2⟩ := r
    rw [hw] at h
    injection h with h; injection h with h3 h2; subst h2; subst h3
    exact ⟨x', rfl, rfl⟩

theorem nfrWalkList_pair {P : Problem} {m m' : NMap} {a b : Expr} {l : List Expr}
    (h : nfrWalkList P m [a, b] = some (l, m')) :
    ∃ a' b' m1, nfrWalk P m b = some (b', m1) ∧ nfrWalk P m1 a = some (a', m') ∧ l = [a', b'] := by
  simp only [nfrWalkList] at h
  cases hb : nfrWalk P m b with
  | none => rw [hb] at h; cases h
  | some r =>
    obtain ⟨b', m1⟩ := r
    rw [hb] at h
    dsimp only at h
    cases ha : nfrWalk P m1 a with
    | none => rw [ha] at h; cases h
    | some r2 =>
      obtain ⟨a', m2⟩ := r2
      rw [ha] at h
      injection h with h; injection h with h3 h2; subst h2; subst h3
      exact ⟨a', b', m1, rfl, ha, rfl⟩

/-- a non-negation node is rebuilt around the walked children -/
theorem nfrWalk_app {P : Problem} {m m' : NMap} {op : Op} {args : List Expr} {e' : Expr} (hne : op ≠ .not)
    (h : nfrWalk P m (.app op args) = some (e', m')) :
    ∃ args', nfrWalkList P m args = some (args', m') ∧ e' = rebuild op args' := by
  simp only [nfrWalk] at h
  cases hl : nfrWalkList P m args with
  | none => rw [hl] at h; cases h
  | some r =>
    obtain ⟨args', m1⟩ := r
    rw [hl] at h
    dsimp only at h
    rw [if_neg hne] at h
    injection h with h; injection h with h3 h2; subst h2; subst h3
    exact ⟨args', rfl, rfl⟩

theorem nfrWalk_not {P : Problem} {m m' : NMap} {args : List Expr} {e' : Expr}
    (h : nfrWalk P m (.app .not args) = some (e', m')) :
    ∃ args' m1, nfrWalkList P m args = some (args', m1) ∧ nfrNot P m1 args' = some (e', m') := by
  simp only [nfrWalk] at h
  cases hl : nfrWalkList P m args with
  | none => rw [hl] at h; cases h
  | some r =>
    obtain ⟨args', m1⟩ := r
    rw [hl] at h
    simp only [if_true] at h
    exact ⟨args', m1, rfl, h⟩

theorem litOK_app {op : Op} {args : List Expr} (h : litOK (.app op args) = true) :
    opOK op args = true ∧ litOKList args = true := by
  simpa [litOK] using h

theorem litOKList_cons {x : Expr} {xs : List Expr} (h : litOKList (x :: xs) = true) :
    litOK x = true ∧ litOKList xs = true := by
  simpa [litOKList] using h

/-- the rewritten expression has, in the compiled state, the value of the original expression in the original
    state — whatever mapping the walk started from, as long as the final mapping `M` extends the one it ended with -/
theorem nfrWalk_ev_both {P : Problem} {M : NMap} {c' c : EvalCtx} (hR : CtxRel M c' c) :
    (∀ e, litOK e = true → mentionsAny M.fresh e = false → ∀ m e' m' ρ, nfrWalk P m e = some (e', m') → NMap.le m' M →
      ev c' ρ e' = ev c ρ e) ∧
    (∀ es, litOKList es = true → mentionsAnyList M.fresh es = false → ∀ m es' m' ρ, nfrWalkList P m es = some (es', m') →
      NMap.le m' M → evL c' ρ es' = evL c ρ es) := by
  have key : ∀ n,
      (∀ e, e.size ≤ n → litOK e = true → mentionsAny M.fresh e = false → ∀ m e' m' ρ, nfrWalk P m e = some (e', m') →
        NMap.le m' M → ev c' ρ e' = ev c ρ e) ∧
      (∀ es, Expr.sizeList es ≤ n → litOKList es = true → mentionsAnyList M.fresh es = false → ∀ m es' m' ρ,
        nfrWalkList P m es = some (es', m') → NMap.le m' M → evL c' ρ es' = evL c ρ es) := by
    intro n
    induction n with
    | zero =>
      constructor
      · intro e he; cases e <;> simp [Expr.size] at he
      · intro es he _ _ m es' m' ρ h _
        cases es with
        | nil => simp [nfrWalkList] at h; obtain ⟨rfl, rfl⟩ := h; rfl
        | cons x xs =>
          simp [Expr.sizeList] at he
          cases x <;> simp [Expr.size] at he
    | succ n ih =>
      have hexpr : ∀ e, e.size ≤ n + 1 → litOK e = true → mentionsAny M.fresh e = false → ∀ m e' m' ρ,
          nfrWalk P m e = some (e', m') → NMap.le m' M → ev c' ρ e' = ev c ρ e := by
        intro e he hlit hm m e' m' ρ h hle
        cases e with
        | leaf l =>
          simp [nfrWalk] at h
          obtain ⟨rfl, _⟩ := h
          rfl
        | quant q vs b =>
          simp only [Expr.size] at he
          have hmb := mentionsAny_quant hm
          have hlb : litOK b = true := by simpa [litOK] using hlit
          simp only [nfrWalk] at h
          cases hb : nfrWalk P m b with
          | none => rw [hb] at h; cases h
          | some r =>
            obtain ⟨b', m1⟩ := r
            rw [hb] at h
            injection h with h; injection h with h3 h2; subst h2; subst h3
            have ihb : ∀ a, toO (eval c' (a ++ ρ) b') = toO (eval c (a ++ ρ) b) :=
              fun a => ih.1 b (by omega) hlb hmb m b' m1 (a ++ ρ) hb hle
            unfold ev
            simp only [eval]
            rw [← qAssignments_congr hR.agree.objs]
            cases q with
            | ex => exact existsLoop_toO ihb _
            | all => exact forallLoop_toO ihb _
        | app op args =>
          simp only [Expr.size] at he
          obtain ⟨hop, hlargs⟩ := litOK_app hlit
          obtain ⟨hml, hfl⟩ := mentionsAny_app hm
          by_cases hne : op = .not
          · subst hne
            obtain ⟨args', m1, hwl, hnot⟩ := nfrWalk_not h
            have hle1 : NMap.le m1 M := NMap.le_trans (nfrNot_le hnot) hle
            -- the three shapes `notArgOK` admits
            unfold opOK at hop
            dsimp only at hop
            unfold notArgOK at hop
            split at hop
            · -- a fluent application
              rename_i f as
              obtain ⟨x', hwx, rfl⟩ := nfrWalkList_single hwl
              obtain ⟨as', hwas, rfl⟩ := nfrWalk_app (by intro hh; cases hh) hwx
              have hlas : litOKList as = true := by
                have := (litOKList_cons hlargs).1
                exact (litOK_app this).2
              have hmas : mentionsAnyList M.fresh as = false :=
                (mentionsAny_app (mentionsAnyList_cons hml).1).1
              have hsz : Expr.sizeList as ≤ n := by
                simp only [Expr.sizeList, Expr.size] at he; omega
              have ihas := ih.2 as hsz hlas hmas m as' m1 ρ hwas hle1
              have hrb : rebuild (.fluent f) as' = .app (.fluent f) as' := rfl
              rw [hrb] at hnot
              unfold nfrNot at hnot
              simp only [Option.some.injEq, Prod.mk.injEq] at hnot
              obtain ⟨rfl, rfl⟩ := hnot
              have hlk : M.lookup f = some (nfrFluent P m1 f).1 := hle f _ (nfrFluent_spec P m1 f).2
              exact ev_not_fluent_mirror hR hlk ρ as as' ihas
            · -- `not (a <= b)`
              rename_i a b
              obtain ⟨x', hwx, rfl⟩ := nfrWalkList_single hwl
              obtain ⟨ab', hwab, rfl⟩ := nfrWalk_app (by intro hh; cases hh) hwx
              obtain ⟨a', b', mb, hwb, hwa, rfl⟩ := nfrWalkList_pair hwab
              have hl2 := (litOK_app (litOKList_cons hlargs).1).2
              have hla := (litOKList_cons hl2).1
              have hlb := (litOKList_cons (litOKList_cons hl2).2).1
              have hm2 := (mentionsAny_app (mentionsAnyList_cons hml).1).1
              have hma := (mentionsAnyList_cons hm2).1
              have hmb := (mentionsAnyList_cons (mentionsAnyList_cons hm2).2).1
              have hsa : a.size ≤ n := by simp only [Expr.sizeList, Expr.size] at he; omega
              have hsb : b.size ≤ n := by simp only [Expr.sizeList, Expr.size] at he; omega
              have iha := ih.1 a hsa hla hma mb a' m1 ρ hwa hle1
              have ihb := ih.1 b hsb hlb hmb m b' mb ρ hwb (NMap.le_trans (nfrWalk_le hwa) hle1)
              have hrb : rebuild .le [a', b'] = .app .le [a', b'] := rfl
              rw [hrb] at hnot
              unfold nfrNot at hnot
              simp only [Option.some.injEq, Prod.mk.injEq] at hnot
              obtain ⟨rfl, rfl⟩ := hnot
              exact ev_not_le c' c ρ a b a' b' iha ihb
            · -- `not (a < b)`
              rename_i a b
              obtain ⟨x', hwx, rfl⟩ := nfrWalkList_single hwl
              obtain ⟨ab', hwab, rfl⟩ := nfrWalk_app (by intro hh; cases hh) hwx
              obtain ⟨a', b', mb, hwb, hwa, rfl⟩ := nfrWalkList_pair hwab
              have hl2 := (litOK_app (litOKList_cons hlargs).1).2
              have hla := (litOKList_cons hl2).1
              have hlb := (litOKList_cons (litOKList_cons hl2).2).1
              have hm2 := (mentionsAny_app (mentionsAnyList_cons hml).1).1
              have hma := (mentionsAnyList_cons hm2).1
              have hmb := (mentionsAnyList_cons (mentionsAnyList_cons hm2).2).1
              have hsa : a.size ≤ n := by simp only [Expr.sizeList, Expr.size] at he; omega
              have hsb : b.size ≤ n := by simp only [Expr.sizeList, Expr.size] at he; omega
              have iha := ih.1 a hsa hla hma mb a' m1 ρ hwa hle1
              have ihb := ih.1 b hsb hlb hmb m b' mb ρ hwb (NMap.le_trans (nfrWalk_le hwa) hle1)
              have hrb : rebuild .lt [a', b'] = .app .lt [a', b'] := rfl
              rw [hrb] at hnot
              unfold nfrNot at hnot
              simp only [Option.some.injEq, Prod.mk.injEq] at hnot
              obtain ⟨rfl, rfl⟩ := hnot
              exact ev_not_lt c' c ρ a b a' b' iha ihb
            · cases hop
          · obtain ⟨args', hwl, rfl⟩ := nfrWalk_app hne h
            have hlen := ((nfrWalk_le_both P).2 args m args' m' hwl).2
            rw [rebuild_of_opOK hop hne hlen, ev_app, ev_app, ih.2 args (by omega) hlargs hml m args' m' ρ hwl hle]
            cases evL c ρ args with
            | none => rfl
            | some vs =>
              simp only [Option.bind_some]
              rw [evalOp_agreeL hR.agree op vs hfl]
      refine ⟨hexpr, ?_⟩
      intro es he hlit hm m es' m' ρ h hle
      cases es with
      | nil => simp [nfrWalkList] at h; obtain ⟨rfl, rfl⟩ := h; rfl
      | cons x xs =>
        simp only [Expr.sizeList] at he
        have hx : 1 ≤ x.size := by cases x <;> simp [Expr.size] <;> omega
        obtain ⟨hl1, hl2⟩ := litOKList_cons hlit
        obtain ⟨hm1, hm2⟩ := mentionsAnyList_cons hm
        simp only [nfrWalkList] at h
        cases hl : nfrWalkList P m xs with
        | none => rw [hl] at h; cases h
        | some r =>
          obtain ⟨xs', m1⟩ := r
          rw [hl] at h
          dsimp only at h
          cases hw : nfrWalk P m1 x with
          | none => rw [hw] at h; cases h
          | some r2 =>
            obtain ⟨x', m2⟩ := r2
            rw [hw] at h
            injection h with h; injection h with h3 h2; subst h2; subst h3
            rw [evL_cons, evL_cons, hexpr x (by omega) hl1 hm1 m1 x' m2 ρ hw hle,
                ih.2 xs (by omega) hl2 hm2 m xs' m1 ρ hl (NMap.le_trans (nfrWalk_le hw) hle)]
  exact ⟨fun e h1 h2 m e' m' ρ h hle => (key e.size).1 e (Nat.le_refl _) h1 h2 m e' m' ρ h hle,
         fun es h1 h2 m es' m' ρ h hle => (key (Expr.sizeList es)).2 es (Nat.le_refl _) h1 h2 m es' m' ρ h hle⟩

/-- what a condition must look like for `nfrRemove_ev`: manager-normal root, and after NNF + simplification
    negations only on fluents / comparisons, no complementary fluent mentioned -/
def condOK (simp : Expr → Expr) (M : NMap) (e : Expr) : Bool :=
  nnfRootOK e && litOK (simp (nnf true e)) && !mentionsAny M.fresh (simp (nnf true e))

/-- `remove_negative_fluents`: the rewritten condition evaluates in the compiled state to what the original
    condition evaluates to in the original state -/
theorem nfrRemove_ev {simp : Expr → Expr} (hs : SimpExact simp) {P : Problem} {M : NMap} {c' c : EvalCtx} (hR : CtxRel M c' c)
    {e e' : Expr} {m m' : NMap} (hok : condOK simp M e = true) (h : nfrRemove simp P m e = some (e', m'))
    (hle : NMap.le m' M) : ev c' [] e' = ev c [] e := by
  unfold condOK at hok
  simp only [Bool.and_eq_true, Bool.not_eq_true'] at hok
  obtain ⟨⟨h1, h2⟩, h3⟩ := hok
  unfold nfrRemove at h
  rw [(nfrWalk_ev_both hR).1 _ h2 h3 m e' m' [] h hle]
  have : ev c [] (simp (nnf true e)) = ev c [] (nnf true e) := by unfold ev; rw [hs]
  rw [this, ev_nnf c [] e h1]

end UPVerif.Compile
