import UPVerif.Core.Den
import UPVerif.Core.Walkers.FreeVars
/-!
Reusable lemmas about the reference denotation `den` (Core/Den.lean):

* unfolding equations (`den_leaf`, `den_app`, `den_quant`, `denList_*`);
* environments: `VEnv.get` over `++`, the shape of `assignments`;
* coincidence: `den` depends on the environment only through the free variables of the expression
  (`den_congr_env`), and on the interpretation only through its four components (`Interp.ext'`);
* the expression manager's normalising constructors (`mkAnd`, `mkOr`, `mkNot`, `mkPlus`, `mkTimes`)
  preserve the denotation: unconditionally for 0 and ≥ 2 arguments, and for the collapsing cases
  (one argument, double negation) when the surviving argument has a value of the right sort
  (`BoolOrNone`, `NumOrNone`) — without such a hypothesis `den (mkAnd [x]) = den x` may be a number
  where `den (and [x])` is undefined.
-/
namespace UPVerif
open Expr

/-- the value of a quantifier from the values of its body under all assignments -/
def quantVal (q : Quant) : Option (List Bool) → Option Val
  | none => none
  | some bs => some (.b (match q with | .ex => bs.any id | .all => bs.all id))

theorem den_leaf (ι : Interp) (ρ : VEnv) (l : Leaf) : den ι ρ (.leaf l) = denLeaf ι ρ l := by
  rw [den]

theorem den_app (ι : Interp) (ρ : VEnv) (op : Op) (as : List Expr) :
    den ι ρ (.app op as) = (denList ι ρ as).bind (denOp ι op) := by
  rw [den]

theorem den_quant (ι : Interp) (ρ : VEnv) (q : Quant) (vs : List Var) (b : Expr) :
    den ι ρ (.quant q vs b)
      = quantVal q (allBoolsOpt ((assignments ι vs).map (fun a => den ι (a ++ ρ) b))) := by
  rw [den]
  cases allBoolsOpt ((assignments ι vs).map (fun a => den ι (a ++ ρ) b)) <;> rfl

theorem denList_nil (ι : Interp) (ρ : VEnv) : denList ι ρ [] = some [] := by
  rw [denList]

/-- `denList` of a cons from the values of head and tail -/
def consOpt : Option Val → Option (List Val) → Option (List Val)
  | some v, some vs => some (v :: vs)
  | _, _ => none

theorem denList_cons (ι : Interp) (ρ : VEnv) (e : Expr) (es : List Expr) :
    denList ι ρ (e :: es) = consOpt (den ι ρ e) (denList ι ρ es) := by
  rw [denList]
  cases den ι ρ e <;> cases denList ι ρ es <;> rfl

/-! ### environments -/

theorem VEnv.get_nil (x : Var) : VEnv.get [] x = none := rfl

theorem VEnv.get_cons (y : Var) (w : Val) (ρ : VEnv) (x : Var) :
    VEnv.get ((y, w) :: ρ) x = if y = x then some w else VEnv.get ρ x := by
  unfold VEnv.get
  rw [List.find?_cons]
  by_cases h : y = x
  · subst h; simp
  · have hb : (y == x) = false := by simp [h]
    simp only [hb, if_neg h]

theorem VEnv.get_append (a ρ : VEnv) (x : Var) :
    VEnv.get (a ++ ρ) x = (VEnv.get a x).or (VEnv.get ρ x) := by
  unfold VEnv.get
  rw [List.find?_append]
  cases List.find? (fun p => p.1 == x) a <;> simp

theorem VEnv.get_eq_none_of_not_mem (a : VEnv) (x : Var) (h : x ∉ a.map Prod.fst) :
    VEnv.get a x = none := by
  induction a with
  | nil => rfl
  | cons p a ih =>
    obtain ⟨y, w⟩ := p
    simp only [List.map_cons, List.mem_cons, not_or] at h
    rw [VEnv.get_cons, if_neg (fun e => h.1 e.symm)]
    exact ih h.2

theorem VEnv.get_isSome_of_mem (a : VEnv) (x : Var) (h : x ∈ a.map Prod.fst) :
    (VEnv.get a x).isSome = true := by
  induction a with
  | nil => simp at h
  | cons p a ih =>
    obtain ⟨y, w⟩ := p
    rw [VEnv.get_cons]
    by_cases hy : y = x
    · simp [hy]
    · simp only [List.map_cons, List.mem_cons] at h
      rw [if_neg hy]
      exact ih (h.resolve_left (fun e => hy e.symm))

/-- every assignment of `vs` binds exactly the variables `vs`, in order -/
theorem assignments_keys (ι : Interp) : ∀ (vs : List Var) (a : VEnv),
    a ∈ assignments ι vs → a.map Prod.fst = vs
  | [], a, h => by
    simp only [assignments, List.mem_singleton] at h
    subst h; rfl
  | v :: vs, a, h => by
    simp only [assignments, List.mem_flatMap, List.mem_map] at h
    obtain ⟨x, _, a', ha', rfl⟩ := h
    simp [assignments_keys ι vs a' ha']

/-- inside a quantifier over `vs`, a variable not in `vs` is looked up in the outer environment -/
theorem get_under_not_mem (ι : Interp) (vs : List Var) (a ρ : VEnv) (x : Var)
    (ha : a ∈ assignments ι vs) (hx : x ∉ vs) : VEnv.get (a ++ ρ) x = VEnv.get ρ x := by
  rw [VEnv.get_append, VEnv.get_eq_none_of_not_mem a x (by rw [assignments_keys ι vs a ha]; exact hx)]
  rfl

/-- … and a variable in `vs` in the assignment -/
theorem get_under_mem (ι : Interp) (vs : List Var) (a ρ : VEnv) (x : Var)
    (ha : a ∈ assignments ι vs) (hx : x ∈ vs) : VEnv.get (a ++ ρ) x = VEnv.get a x := by
  rw [VEnv.get_append]
  have := VEnv.get_isSome_of_mem a x (by rw [assignments_keys ι vs a ha]; exact hx)
  cases h : VEnv.get a x with
  | none => rw [h] at this; cases this
  | some w => rfl

theorem assignments_congr (ι ι' : Interp) (h : ι'.dom = ι.dom) :
    ∀ vs : List Var, assignments ι' vs = assignments ι vs
  | [] => rfl
  | v :: vs => by
    simp only [assignments, h, assignments_congr ι ι' h vs]

/-! ### coincidence -/

theorem Interp.ext' (ι ι' : Interp) (h1 : ι'.fl = ι.fl) (h2 : ι'.fn = ι.fn) (h3 : ι'.par = ι.par)
    (h4 : ι'.dom = ι.dom) : ι' = ι := by
  cases ι; cases ι'; simp only at h1 h2 h3 h4; subst h1 h2 h3 h4; rfl

theorem mem_freeVars_quant {q : Quant} {vs : List Var} {b : Expr} {x : Var} :
    x ∈ freeVars (.quant q vs b) ↔ x ∈ freeVars b ∧ x ∉ vs := by
  rw [freeVars]
  simp [List.mem_filter]

mutual
/-- `den` depends on the environment only through the free variables of the expression -/
theorem den_congr_env (ι : Interp) : ∀ (e : Expr) (ρ₁ ρ₂ : VEnv),
    (∀ x ∈ freeVars e, VEnv.get ρ₁ x = VEnv.get ρ₂ x) → den ι ρ₁ e = den ι ρ₂ e
  | .leaf l, ρ₁, ρ₂, h => by
    rw [den_leaf, den_leaf]
    cases l with
    | var v => exact h v (by simp [freeVars])
    | _ => rfl
  | .app op as, ρ₁, ρ₂, h => by
    rw [den_app, den_app, denList_congr_env ι as ρ₁ ρ₂ (fun x hx => h x (by rw [freeVars]; exact hx))]
  | .quant q vs b, ρ₁, ρ₂, h => by
    rw [den_quant, den_quant]
    congr 2
    apply List.map_congr_left
    intro a ha
    apply den_congr_env ι b
    intro x hx
    by_cases hv : x ∈ vs
    · rw [get_under_mem ι vs a ρ₁ x ha hv, get_under_mem ι vs a ρ₂ x ha hv]
    · rw [get_under_not_mem ι vs a ρ₁ x ha hv, get_under_not_mem ι vs a ρ₂ x ha hv]
      exact h x (mem_freeVars_quant.2 ⟨hx, hv⟩)
theorem denList_congr_env (ι : Interp) : ∀ (es : List Expr) (ρ₁ ρ₂ : VEnv),
    (∀ x ∈ freeVarsList es, VEnv.get ρ₁ x = VEnv.get ρ₂ x) → denList ι ρ₁ es = denList ι ρ₂ es
  | [], _, _, _ => by rw [denList_nil, denList_nil]
  | e :: es, ρ₁, ρ₂, h => by
    rw [denList_cons, denList_cons,
      den_congr_env ι e ρ₁ ρ₂ (fun x hx => h x (by rw [freeVarsList]; exact List.mem_append_left _ hx)),
      denList_congr_env ι es ρ₁ ρ₂ (fun x hx => h x (by rw [freeVarsList]; exact List.mem_append_right _ hx))]
end

/-- an environment extension that binds no free variable of `e` is invisible to `e` -/
theorem den_under_irrelevant (ι : Interp) (vs : List Var) (a ρ : VEnv) (e : Expr)
    (ha : a ∈ assignments ι vs) (h : ∀ x ∈ freeVars e, x ∉ vs) :
    den ι (a ++ ρ) e = den ι ρ e :=
  den_congr_env ι e _ _ (fun x hx => get_under_not_mem ι vs a ρ x ha (h x hx))

/-! ### the manager's normalising constructors -/

/-- an optional value that, when present, is a Boolean -/
def BoolOrNone (o : Option Val) : Prop := ∀ v, o = some v → ∃ b, v = .b b
/-- an optional value that, when present, is a number -/
def NumOrNone (o : Option Val) : Prop := ∀ v, o = some v → ∃ q, v = .n q

theorem denList_singleton (ι : Interp) (ρ : VEnv) (x : Expr) :
    denList ι ρ [x] = (den ι ρ x).map (fun v => [v]) := by
  rw [denList_cons, denList_nil]
  cases den ι ρ x <;> rfl

theorem den_mkAnd_nil (ι : Interp) (ρ : VEnv) : den ι ρ (mkAnd []) = den ι ρ (.app .and []) := by
  rw [den_app, denList_nil]; rfl

theorem den_mkOr_nil (ι : Interp) (ρ : VEnv) : den ι ρ (mkOr []) = den ι ρ (.app .or []) := by
  rw [den_app, denList_nil]; rfl

theorem den_mkPlus_nil (ι : Interp) (ρ : VEnv) : den ι ρ (mkPlus []) = den ι ρ (.app .plus []) := by
  rw [den_app, denList_nil]
  simp only [mkPlus, Expr.int, den_leaf, denLeaf, Option.bind, denOp, allNums, Option.map, List.foldl]
  rfl

theorem den_mkTimes_nil (ι : Interp) (ρ : VEnv) : den ι ρ (mkTimes []) = den ι ρ (.app .times []) := by
  rw [den_app, denList_nil]
  simp only [mkTimes, Expr.int, den_leaf, denLeaf, Option.bind, denOp, allNums, Option.map, List.foldl]
  rfl

theorem den_mkAnd_singleton (ι : Interp) (ρ : VEnv) (x : Expr) (h : BoolOrNone (den ι ρ x)) :
    den ι ρ (mkAnd [x]) = den ι ρ (.app .and [x]) := by
  rw [den_app, denList_singleton]
  show den ι ρ x = _
  cases hx : den ι ρ x with
  | none => rfl
  | some v =>
    obtain ⟨b, rfl⟩ := h v hx
    simp [denOp, allBools]

theorem den_mkOr_singleton (ι : Interp) (ρ : VEnv) (x : Expr) (h : BoolOrNone (den ι ρ x)) :
    den ι ρ (mkOr [x]) = den ι ρ (.app .or [x]) := by
  rw [den_app, denList_singleton]
  show den ι ρ x = _
  cases hx : den ι ρ x with
  | none => rfl
  | some v =>
    obtain ⟨b, rfl⟩ := h v hx
    simp [denOp, allBools]

theorem den_mkPlus_singleton (ι : Interp) (ρ : VEnv) (x : Expr) (h : NumOrNone (den ι ρ x)) :
    den ι ρ (mkPlus [x]) = den ι ρ (.app .plus [x]) := by
  rw [den_app, denList_singleton]
  show den ι ρ x = _
  cases hx : den ι ρ x with
  | none => rfl
  | some v =>
    obtain ⟨q, rfl⟩ := h v hx
    simp [denOp, allNums, Rat.zero_add]

theorem den_mkTimes_singleton (ι : Interp) (ρ : VEnv) (x : Expr) (h : NumOrNone (den ι ρ x)) :
    den ι ρ (mkTimes [x]) = den ι ρ (.app .times [x]) := by
  rw [den_app, denList_singleton]
  show den ι ρ x = _
  cases hx : den ι ρ x with
  | none => rfl
  | some v =>
    obtain ⟨q, rfl⟩ := h v hx
    simp [denOp, allNums, Rat.one_mul]

theorem mkAnd_cons_cons (a b : Expr) (t : List Expr) : mkAnd (a :: b :: t) = .app .and (a :: b :: t) := rfl
theorem mkOr_cons_cons (a b : Expr) (t : List Expr) : mkOr (a :: b :: t) = .app .or (a :: b :: t) := rfl
theorem mkPlus_cons_cons (a b : Expr) (t : List Expr) : mkPlus (a :: b :: t) = .app .plus (a :: b :: t) := rfl
theorem mkTimes_cons_cons (a b : Expr) (t : List Expr) : mkTimes (a :: b :: t) = .app .times (a :: b :: t) := rfl

/-- `Not(Not(x))` collapses to `x`: meaning-preserving when `x` is Boolean-valued or undefined -/
theorem den_mkNot_not (ι : Interp) (ρ : VEnv) (x : Expr) (h : BoolOrNone (den ι ρ x)) :
    den ι ρ (mkNot (.app .not [x])) = den ι ρ (.app .not [.app .not [x]]) := by
  show den ι ρ x = _
  rw [den_app, denList_singleton, den_app, denList_singleton]
  cases hx : den ι ρ x with
  | none => rfl
  | some v =>
    obtain ⟨b, rfl⟩ := h v hx
    simp [denOp]

/-- syntactic heads whose value, when defined, is a Boolean under every interpretation -/
def boolHead : Expr → Bool
  | .leaf (.boolC _) => true
  | .app .and _ | .app .or _ | .app .not _ | .app .implies _ | .app .iff _ => true
  | .app .le _ | .app .lt _ | .app .eq _ => true
  | .quant _ _ _ => true
  | _ => false

/-- syntactic heads whose value, when defined, is a number under every interpretation -/
def numHead : Expr → Bool
  | .leaf (.intC _) | .leaf (.realC _) => true
  | .app .plus _ | .app .minus _ | .app .times _ | .app .div _ => true
  | _ => false

end UPVerif
