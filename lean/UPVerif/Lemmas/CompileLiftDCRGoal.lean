import UPVerif.Lemmas.CompileLiftDCR
/-!
`DisjunctiveConditionsRemover` WITH goal actions (the DNF of the goals is a disjunction) on ALL instances: forward
simulation (soundness) and backward simulation with one extra final step (completeness, bound `k + 1`) between the
lifted transition systems.  The goal actions have no parameters: their only instance is the action itself.
-/
namespace UPVerif.Compile
open UPVerif UPVerif.Expr UPVerif.Sim UPVerif.Spec UPVerif.Simulation

/-- hypotheses of the lifted goal-action theorems -/
structure DcrGoalLiftOK (simp dnfE : Expr → Expr) (W : World) : Prop where
  /-- on the goals (closed expressions) -/
  hsimp : SimpExact simp
  hdnf : DnfSplits dnfE
  inst : ∀ a ∈ W.P.actions, ∀ args ∈ instancesOf W.P a, DcrInstOK simp dnfE (paramSubst W.P a args) a
  /-- the walkers are exact on the instances in every state -/
  instAt : ∀ a ∈ W.P.actions, ∀ args ∈ instancesOf W.P a, ∀ c : EvalCtx,
    DcrInstAt simp dnfE c (paramSubst W.P a args) a
  /-- the goal fluent is fresh: not declared, not initialised, not mentioned by goals and invariants … -/
  notDeclared : ∀ d ∈ W.P.fluents, d.ref ≠ fakeFluent
  initFree : ∀ kv ∈ W.P.init, mentions fakeFluent kv.1 = false
  goalsFree : mentionsList fakeFluent W.P.goals = false
  invFree : ∀ si ∈ invariants W, mentions fakeFluent si = false
  /-- … nor by what the DNF walker and the simplifier return for the conditions and effects of the instances -/
  disjFree : ∀ a ∈ W.P.actions, ∀ args ∈ instancesOf W.P a, ∀ d ∈ disjuncts (dnfE (mkAnd a.pre)),
    mentions fakeFluent (substE (paramSubst W.P a args) d) = false
  goalDisjFree : ∀ d ∈ disjuncts (dnfE (mkAnd W.P.goals)), mentions fakeFluent d = false
  compiledFree : ∀ a ∈ W.P.actions, ∀ args ∈ instancesOf W.P a,
    ∀ e ∈ expandEffs W.P ((dcrEffects simp dnfE a.effs).map (substEff (paramSubst W.P a args))),
      effectFree fakeFluent e = true

/-- the same world without actions: the part of the problem the initial state, the invariants and the goal read -/
def noActs (W : World) : World := { W with P := { W.P with actions := [] } }

theorem noActs_sameSig (W : World) : SameSig (noActs W).P W.P := ⟨rfl, rfl, rfl⟩

theorem invariants_noActs (W : World) : invariants (noActs W) = invariants W :=
  (noActs_sameSig W).invariants W rfl rfl

theorem ctxOf_noActs (W : World) (g : St) : ctxOf (noActs W) g = ctxOf W g :=
  (noActs_sameSig W).ctxOf W rfl g

theorem invOK_noActs (W : World) (c : EvalCtx) : invOK (noActs W) c = invOK W c :=
  (noActs_sameSig W).invOK W rfl rfl c

theorem initOf_noActs (W : World) : initOf (noActs W) = initOf W :=
  (noActs_sameSig W).initOf W rfl rfl rfl

theorem goalOK_noActs (W : World) (g : St) : goalOK (noActs W) g = goalOK W g :=
  (noActs_sameSig W).goalOK W rfl rfl g

/-- the action-free part of the hypotheses is what the parameterless lemmas about the initial state, the goal and
    the goal actions need -/
theorem DcrGoalLiftOK.base {simp dnfE : Expr → Expr} {W : World} (h : DcrGoalLiftOK simp dnfE W) :
    DcrGoalOK simp dnfE (noActs W) where
  hsimp := h.hsimp
  hdnf := h.hdnf
  effs := by intro a ha; cases ha
  notDeclared := h.notDeclared
  initFree := h.initFree
  goalsFree := h.goalsFree
  invFree := by intro si hsi; rw [invariants_noActs] at hsi; exact h.invFree si hsi
  disjFree := by intro a ha; cases ha
  goalDisjFree := h.goalDisjFree
  compiledFree := by intro a ha; cases ha

theorem substEff_resetEff {σ : Subst} (hσ : IsParamSubst σ) : substEff σ resetEff = resetEff := by
  unfold substEff resetEff
  dsimp only
  rw [substE_ff hσ, substE_tt hσ]
  have : substE σ (mkFluent fakeFluent []) = mkFluent fakeFluent [] := by
    unfold mkFluent
    rw [substE_app hσ]
    split <;> rfl
  rw [this]

/-- THE STEP of the instance `σ` of a compiled ordinary action (variant of `a` for the disjunct `d`, plus the reset
    of the goal fluent) in a state agreeing with `gA` off the goal fluent -/
theorem dcrGoal_stepI_iff {simp dnfE : Expr → Expr} (W : World) (acts : List Action) {σ : Subst} (hσ : IsParamSubst σ)
    {a a' : Action} {d : Expr} (hi : DcrInstOK simp dnfE σ a) (hat : ∀ c : EvalCtx, DcrInstAt simp dnfE c σ a)
    (hd : d ∈ disjuncts (dnfE (mkAnd a.pre)))
    (hinvFree : ∀ si ∈ invariants W, mentions fakeFluent si = false)
    (hdf : mentions fakeFluent (substE σ d) = false)
    (hcf : ∀ e ∈ expandEffs W.P ((dcrEffects simp dnfE a.effs).map (substEff σ)), effectFree fakeFluent e = true)
    (hv : dcrNewAction simp dnfE d a = some (some a')) {gB gA : St} (hag : AgreeSt gB gA) (gB' : St) :
    stepI (withProblem W (goalProblem W.P acts)) gB (withReset a') σ = some gB' ↔
      (Spec.isTrue (eval (ctxOf W gA) [] (substE σ d)) = true ∧
        ∃ F, fired (ctxOf W gA) (expandEffs W.P (a.effs.map (substEff σ))) = some F ∧ Cons gA F ∧
          invOK W (ctxOf W (succGet gA F)) = true ∧ gB' = succGet gB (F ++ [Fired.setB FK false])) := by
  obtain ⟨_, rfl⟩ := dcrNewAction_some hv
  have hso := goalProblem_sameObjs W.P acts
  have hoff := hso.agreeOff (W := W) hag
  unfold stepI withReset
  dsimp only
  rw [succOf_iff]
  have hQ : (withProblem W (goalProblem W.P acts)).P = goalProblem W.P acts := rfl
  -- preconditions
  have hpre : preOK (ctxOf (withProblem W (goalProblem W.P acts)) gB)
      (((splitAnd (simp d)).foldl addPre []).map (substE σ)) = Spec.isTrue (eval (ctxOf W gA) [] (substE σ d)) := by
    have h1 := (hat (ctxOf (withProblem W (goalProblem W.P acts)) gB)).simpD d hd
    unfold SimpExactAt at h1
    rw [preOK_map_foldl_addPre hσ, preOK_map_splitAnd hσ, h1, (eval_agree hoff).1 _ [] hdf]
    simp [preOK]
  -- effects
  have hexp : expandEffs (goalProblem W.P acts) ((dcrEffects simp dnfE a.effs ++ [resetEff]).map (substEff σ)) =
      expandEffs W.P ((dcrEffects simp dnfE a.effs).map (substEff σ)) ++ [resetEff] := by
    rw [hso.expandEffs, List.map_append, expandEffs_append, List.map_cons, List.map_nil, substEff_resetEff hσ]
    congr 1
  have hdf2 : fired (ctxOf W gA) (expandEffs W.P ((dcrEffects simp dnfE a.effs).map (substEff σ))) =
      fired (ctxOf W gA) (expandEffs W.P (a.effs.map (substEff σ))) := by
    exact dcr_inst_fired W hσ gA hi (hat _)
  have hfired : fired (ctxOf (withProblem W (goalProblem W.P acts)) gB)
        (expandEffs W.P ((dcrEffects simp dnfE a.effs).map (substEff σ)) ++ [resetEff]) =
      (fired (ctxOf W gA) (expandEffs W.P (a.effs.map (substEff σ)))).map (· ++ [Fired.setB FK false]) := by
    rw [fired_append_single _ _ _ _ (evalEff_reset _), fired_agree hoff _ hcf, hdf2]
  rw [hQ, hexp, hfired, hpre]
  constructor
  · rintro ⟨h1, F', hF', hc, hi', rfl⟩
    cases hFA : fired (ctxOf W gA) (expandEffs W.P (a.effs.map (substEff σ))) with
    | none => rw [hFA] at hF'; cases hF'
    | some F =>
      rw [hFA] at hF'
      simp only [Option.map_some, Option.some.injEq] at hF'
      subst hF'
      have hkeys : ∀ f ∈ F, f.key.1 ≠ fakeFluent := by
        have h2 : fired (ctxOf W gA) (expandEffs W.P ((dcrEffects simp dnfE a.effs).map (substEff σ))) = some F := by
          rw [hdf2]; exact hFA
        exact fired_keys hcf h2
      have hcons : Cons gA F :=
        (cons_append_fresh (fun f hf => key_ne_FK (hkeys f hf))
          (fun f hf => hag f.key.1 f.key.2 (hkeys f hf))).1 hc
      have hagree' : AgreeSt (succGet gB (F ++ [Fired.setB FK false])) (succGet gA F) := by
        intro f vs hf
        exact succGet_append_fresh_other (key_ne_FK (k := (f, vs)) hf) (hag f vs hf)
      rw [invOK_agree hagree' hinvFree] at hi'
      exact ⟨h1, F, rfl, hcons, hi', rfl⟩
  · rintro ⟨h1, F, hFA, hcons, hi', rfl⟩
    have hkeys : ∀ f ∈ F, f.key.1 ≠ fakeFluent := by
      have h2 : fired (ctxOf W gA) (expandEffs W.P ((dcrEffects simp dnfE a.effs).map (substEff σ))) = some F := by
        rw [hdf2]; exact hFA
      exact fired_keys hcf h2
    have hagree' : AgreeSt (succGet gB (F ++ [Fired.setB FK false])) (succGet gA F) := by
      intro f vs hf
      exact succGet_append_fresh_other (key_ne_FK (k := (f, vs)) hf) (hag f vs hf)
    refine ⟨h1, F ++ [Fired.setB FK false], by rw [hFA]; rfl, ?_, ?_, rfl⟩
    · exact (cons_append_fresh (fun f hf => key_ne_FK (hkeys f hf))
        (fun f hf => hag f.key.1 f.key.2 (hkeys f hf))).2 hcons
    · rw [invOK_agree hagree' hinvFree]; exact hi'

/-- keys of what the instantiated ordinary effects fire are not the goal fluent -/
theorem dcrGoal_keys_inst {simp dnfE : Expr → Expr} (W : World) {σ : Subst} (hσ : IsParamSubst σ) {a : Action}
    (hi : DcrInstOK simp dnfE σ a) (hat : ∀ c : EvalCtx, DcrInstAt simp dnfE c σ a)
    (hcf : ∀ e ∈ expandEffs W.P ((dcrEffects simp dnfE a.effs).map (substEff σ)), effectFree fakeFluent e = true)
    {g : St} {F : List Fired} (hF : fired (ctxOf W g) (expandEffs W.P (a.effs.map (substEff σ))) = some F) :
    ∀ f ∈ F, f.key ≠ FK := by
  have h2 : fired (ctxOf W g) (expandEffs W.P ((dcrEffects simp dnfE a.effs).map (substEff σ))) = some F := by
    rw [dcr_inst_fired W hσ g hi (hat _)]; exact hF
  intro f hf
  exact key_ne_FK (fired_keys hcf h2 f hf)

/-- the only instance of a parameterless action is the action itself -/
theorem stepI_of_noParams (W : World) (g : St) {a : Action} (hp : a.params = []) {args : List String}
    (_hin : (instancesOf W.P a).contains args = true) :
    stepI W g a (paramSubst W.P a args) = stepAct W g a := by
  have hσ : paramSubst W.P a args = [] := by unfold paramSubst; rw [hp]; rfl
  rw [hσ, stepI_nil]
  unfold stepAct
  rw [hp]
  rfl

theorem withReset_params (a : Action) : (withReset a).params = a.params := rfl

theorem fake_variant_params {simp dnfE : Expr → Expr} {d : Expr} {af : Action}
    (hv : dcrNewAction simp dnfE d fakeAction = some (some af)) : af.params = [] := dcrNewAction_params hv

/-- DisjunctiveConditionsRemover WITH goal actions is a FORWARD simulation on all instances: soundness -/
theorem dcrGoal_fwd_lifted {simp dnfE : Expr → Expr} (W : World) {c : Compiled} {gargs : List Expr}
    (hg : dnfE (mkAnd W.P.goals) = .app .or gargs) (hc : dcrCompile simp dnfE W.P = some c)
    (hok : DcrGoalLiftOK simp dnfE W) :
    Fwd (tsLifted W) (tsLifted (withProblem W c.prob)) (backLifted c)
      (fun gB gA => AgreeSt gB gA ∧ invOK W (ctxOf W gA) = true ∧ (gB FK = some (.b true) → goalOK W gA = true))
      (fun _ => True) := by
  obtain ⟨⟨acts, hacts⟩, hfw, _, _, _, _⟩ := dcrCompile_goal_some hg hc
  have hdisj : disjuncts (dnfE (mkAnd W.P.goals)) = gargs := by rw [hg]; rfl
  have hso := goalProblem_sameObjs W.P acts
  have hQ : (withProblem W c.prob).P = c.prob := rfl
  have hb0 := hok.base
  refine ⟨?_, fun _ _ => trivial, fun _ _ _ _ => trivial, ?_, ?_, ?_⟩
  · intro sB hB _
    have hB' : initOf (withProblem (noActs W) (goalProblem (noActs W).P acts)) = some sB := by
      rw [hacts] at hB; exact hB
    obtain ⟨gA, hA, hag, hfk⟩ := (dcrGoal_init (noActs W) hb0 acts).1 sB hB'
    have hA' : initOf W = some gA := by rw [← initOf_noActs]; exact hA
    obtain ⟨_, _, _, hi⟩ := initOf_eq hA'
    exact ⟨gA, hA', hag, hi, fun h => by rw [hfk] at h; cases h⟩
  · rintro sB sA ⟨b, args⟩ sB' x hR hstep _ hb
    obtain ⟨hag, hinv, _⟩ := hR
    obtain ⟨a'', ha'', hin, hst⟩ := tsLifted_step hstep
    rw [hQ] at ha'' hin hst
    dsimp only at ha'' hin hst
    rcases hfw b a'' ha'' with ⟨j', a, d, a', hbj, hao, hd, hv, rfl⟩ | ⟨hbn, _⟩
    · obtain ⟨j'', hbj', rfl⟩ := backLifted_some hb
      rw [hbj] at hbj'; cases hbj'
      have hmem := List.mem_of_getElem? hao
      have hpar : (withReset a').params = a.params := (dcrNewAction_params hv : a'.params = a.params)
      rw [hacts] at hst hin
      rw [paramSubst_congr hso.objExpr hpar] at hst
      rw [instancesOf_congr hso.tyDomain hpar] at hin
      have hin' := mem_instancesOf.1 hin
      have hσ := isParamSubst_paramSubst W.P a args
      have hi := hok.inst a hmem args hin'
      have hat := hok.instAt a hmem args hin'
      have hcf := hok.compiledFree a hmem args hin'
      obtain ⟨hdt, F, hF, hcons, hiv, rfl⟩ := (dcrGoal_stepI_iff W acts hσ hi hat hd hok.invFree
        (hok.disjFree a hmem args hin' d hd) hcf hv hag sB').1 hst
      have hpre : preOK (ctxOf W sA) (a.pre.map (substE (paramSubst W.P a args))) = true :=
        (dcr_pre_iff hσ (hat _).dnf).2 ⟨d, hd, hdt⟩
      refine ⟨succGet sA F, ?_, dcrGoal_agree_succ hag false, hiv, ?_⟩
      · rw [tsLifted_step_intro hao hin]
        exact succOf_intro hpre hF hcons hiv
      · intro h
        rw [succGet_append_fresh_self (dcrGoal_keys_inst W hσ hi hat hcf hF)] at h
        cases h
    · obtain ⟨j'', hbj', _⟩ := backLifted_some hb
      rw [hbn] at hbj'; cases hbj'
  · rintro sB sA ⟨b, args⟩ sB' hR hstep _ hb
    obtain ⟨hag, hinv, _⟩ := hR
    obtain ⟨a'', ha'', hin, hst⟩ := tsLifted_step hstep
    rw [hQ] at ha'' hin hst
    dsimp only at ha'' hin hst
    rcases hfw b a'' ha'' with ⟨j', a, d, a', hbj, _⟩ | ⟨_, d, hd, hv⟩
    · rw [backLifted_none hb] at hbj; cases hbj
    · have hd' : d ∈ disjuncts (dnfE (mkAnd W.P.goals)) := by rw [hdisj]; exact hd
      have hst2 : stepAct (withProblem W c.prob) sB a'' = some sB' := by
        rw [← stepI_of_noParams (withProblem W c.prob) sB (fake_variant_params hv) hin]; exact hst
      rw [hacts] at hst2
      have hst3 : stepAct (withProblem (noActs W) (goalProblem (noActs W).P acts)) sB a'' = some sB' := hst2
      obtain ⟨hdt, _, rfl⟩ := (dcrGoal_fake_step_iff (noActs W) hb0 acts hd' hv hag sB').1 hst3
      refine ⟨?_, hinv, fun _ => by rw [← goalOK_noActs]; exact (goalOK_iff_disjunct (noActs W) hb0 sA).2 ⟨d, hd', hdt⟩⟩
      have := dcrGoal_agree_succ (F := []) (gB := sB) (gA := sA) hag true
      intro f vs hf
      have h1 := this f vs hf
      simp only [List.nil_append] at h1
      rw [h1, succGet_nil]
  · intro sB sA hR hgoal
    obtain ⟨_, _, hgo⟩ := hR
    have hgoal' : goalOK (withProblem W (goalProblem W.P acts)) sB = true := by
      rw [← hacts]; exact hgoal
    exact hgo ((goalOK_goalProblem W acts sB).1 hgoal')

/-- … and a BACKWARD simulation with one extra final step (the goal action): completeness with bound `k + 1` -/
theorem dcrGoal_bwd_lifted {simp dnfE : Expr → Expr} (W : World) {c : Compiled} {gargs : List Expr}
    (hg : dnfE (mkAnd W.P.goals) = .app .or gargs) (hc : dcrCompile simp dnfE W.P = some c)
    (hok : DcrGoalLiftOK simp dnfE W) (hke : ∀ a ∈ W.P.actions, dcrKeepsEffects simp dnfE a = true) :
    Bwd (tsLifted W) (tsLifted (withProblem W c.prob)) (backLifted c)
      (fun gB gA => AgreeSt gB gA ∧ invOK W (ctxOf W gA) = true) 1 := by
  obtain ⟨⟨acts, hacts⟩, _, hbw1, hbw2, hnr1, hnr2⟩ := dcrCompile_goal_some hg hc
  have hdisj : disjuncts (dnfE (mkAnd W.P.goals)) = gargs := by rw [hg]; rfl
  have hso := goalProblem_sameObjs W.P acts
  have hQ : (withProblem W c.prob).P = c.prob := rfl
  have hb0 := hok.base
  refine ⟨?_, ?_, ?_⟩
  · intro sA hA
    have hA' : initOf (noActs W) = some sA := by rw [initOf_noActs]; exact hA
    obtain ⟨gB, hB, hag, _⟩ := (dcrGoal_init (noActs W) hb0 acts).2 sA hA'
    have hA2 : initOf W = some sA := hA
    obtain ⟨_, _, _, hi⟩ := initOf_eq hA2
    refine ⟨gB, ?_, hag, hi⟩
    show initOf (withProblem W c.prob) = some gB
    rw [hacts]; exact hB
  · rintro sB sA ⟨j, args⟩ sA' hR hstep
    obtain ⟨hag, _⟩ := hR
    obtain ⟨a, ha, hin, hst⟩ := tsLifted_step hstep
    dsimp only at ha hin hst
    have hmem := List.mem_of_getElem? ha
    have hin' := mem_instancesOf.1 hin
    have hσ := isParamSubst_paramSubst W.P a args
    have hi := hok.inst a hmem args hin'
    have hat := hok.instAt a hmem args hin'
    have hcf := hok.compiledFree a hmem args hin'
    have hst' : succOf W sA (a.pre.map (substE (paramSubst W.P a args)))
        (expandEffs W.P (a.effs.map (substEff (paramSubst W.P a args)))) = some sA' := hst
    obtain ⟨hpre, F, hF, hcons, hiv, rfl⟩ := succOf_iff.1 hst'
    obtain ⟨d, hd, hdt⟩ := (dcr_pre_iff hσ (hat _).dnf).1 hpre
    have hnf : (simp d).isFalse = false := by
      cases hf : (simp d).isFalse with
      | false => rfl
      | true =>
        have h1 := (hat (ctxOf W sA)).simpD d hd
        unfold SimpExactAt at h1
        rw [substE_of_isFalse hσ hf] at h1
        rw [← h1] at hdt; cases hdt
    have hv : ∃ a', dcrNewAction simp dnfE d a = some (some a') := by
      have hne := hnr1 a d hmem hd
      have hkeep := hke a hmem
      unfold dcrNewAction at hne ⊢
      dsimp only at hne ⊢
      simp only [hnf, Bool.false_eq_true, if_false] at hne ⊢
      cases hsa : staticAll ⟨[], []⟩ (dcrEffects simp dnfE a.effs) with
      | none => rw [hsa] at hne; exact absurd rfl hne
      | some acc =>
        unfold dcrKeepsEffects at hkeep
        have : (dcrEffects simp dnfE a.effs).isEmpty = false := by simpa using hkeep
        simp only [this, Bool.false_eq_true, if_false]
        exact ⟨_, rfl⟩
    obtain ⟨a', hv⟩ := hv
    obtain ⟨i, hi', hbi⟩ := hbw1 j a a' d ha hd hv
    have hpar : (withReset a').params = a.params := (dcrNewAction_params hv : a'.params = a.params)
    refine ⟨(i, args), succGet sB (F ++ [Fired.setB FK false]), backLifted_intro args hbi, ?_,
      dcrGoal_agree_succ hag false, hiv⟩
    have hin2 : (instancesOf (withProblem W c.prob).P (withReset a')).contains args = true := by
      rw [hQ, hacts, instancesOf_congr hso.tyDomain hpar]; exact hin
    rw [tsLifted_step_intro (W := withProblem W c.prob) hi' hin2, hQ, hacts, paramSubst_congr hso.objExpr hpar]
    exact (dcrGoal_stepI_iff W acts hσ hi hat hd hok.invFree (hok.disjFree a hmem args hin' d hd) hcf hv hag _).2
      ⟨hdt, F, hF, hcons, hiv, rfl⟩
  · intro sB sA hR hgoal
    obtain ⟨hag, hinv⟩ := hR
    have hgoal' : goalOK (noActs W) sA = true := by rw [goalOK_noActs]; exact hgoal
    obtain ⟨d, hd, hdt⟩ := (goalOK_iff_disjunct (noActs W) hb0 sA).1 hgoal'
    have hd' : d ∈ disjuncts (dnfE (mkAnd W.P.goals)) := hd
    have hda : d ∈ gargs := by rw [← hdisj]; exact hd'
    have hnf : (simp d).isFalse = false := by
      cases hf : (simp d).isFalse with
      | false => rfl
      | true =>
        have := eval_of_isFalse (c := ctxOf W sA) hf
        rw [hok.hsimp] at this
        have hdt' : Spec.isTrue (eval (ctxOf W sA) [] d) = true := by rw [← ctxOf_noActs]; exact hdt
        rw [this] at hdt'; cases hdt'
    have hv : ∃ af, dcrNewAction simp dnfE d fakeAction = some (some af) := by
      have hne := hnr2 d hda
      unfold dcrNewAction at hne ⊢
      dsimp only at hne ⊢
      simp only [hnf, Bool.false_eq_true, if_false] at hne ⊢
      cases hsa : staticAll ⟨[], []⟩ (dcrEffects simp dnfE fakeAction.effs) with
      | none => rw [hsa] at hne; exact absurd rfl hne
      | some acc =>
        have : (dcrEffects simp dnfE fakeAction.effs).isEmpty = false := rfl
        simp only [this, Bool.false_eq_true, if_false]
        exact ⟨_, rfl⟩
    obtain ⟨af, hv⟩ := hv
    obtain ⟨i, hi', hbi⟩ := hbw2 d hda af hv
    have hpf := fake_variant_params hv
    have hinf : (instancesOf (withProblem W c.prob).P af).contains [] = true := by
      unfold instancesOf; rw [hpf]; rfl
    have hstep : (tsLifted (withProblem W c.prob)).step sB (i, []) = some (succGet sB [Fired.setB FK true]) := by
      rw [tsLifted_step_intro (W := withProblem W c.prob) hi' hinf, stepI_of_noParams _ _ hpf hinf, hacts]
      have := (dcrGoal_fake_step_iff (noActs W) hb0 acts hd hv hag (succGet sB [Fired.setB FK true])).2
        ⟨hdt, by rw [invOK_noActs, ctxOf_noActs]; exact hinv, rfl⟩
      exact this
    refine ⟨[(i, [])], succGet sB [Fired.setB FK true], Nat.le_refl _, ?_, ?_, ?_⟩
    · have : backLifted c (i, []) = none := by unfold backLifted; dsimp only; rw [hbi]; rfl
      simp [mapBack, this]
    · simp only [TS.run, hstep]
    · show goalOK (withProblem W c.prob) (succGet sB [Fired.setB FK true]) = true
      rw [hacts]
      exact (goalOK_goalProblem W acts _).2 (succGet_set_FK sB)

end UPVerif.Compile
