import UPVerif.Lemmas.STNLemmas
/-!
Termination of `_inc_check` (helper lemmas for `Props/C25.lean`, clause `C25_terminates`).

Idea.  Let `dOld` be the distances before the insertion of `x - y ≤ b`; they are feasible for every
edge except the new one.  Put `Δ = dOld y - (dOld x + b) > 0`.  Then, as long as the loop has not
returned, `dOld v - d v ≤ Δ` for EVERY node (a relaxation along an old edge preserves it; the only
edge for which `dOld` is not feasible is the new one, and relaxing it makes the code return).
So every distance lives in `[dOld v - Δ, dOld v]`.  All distances and bounds are integer multiples
of `1/D` (`D` = product of the denominators of the inserted bounds), hence every successful
relaxation lowers `Σ_v (d v - dOld v + Δ)·D` by at least 1, and every `popleft` is paid for either
by the initial entry or by one successful relaxation:  `|queue| + Σ …` strictly decreases per pop.
-/
namespace UPVerif.STN

variable {Ev : Type} [DecidableEq Ev]

/-! ### rationals with a common denominator -/

/-- `r` is an integer multiple of `1/D` -/
def Lat (D : Nat) (r : Rat) : Prop := ∃ k : Int, r * (D : Rat) = (k : Rat)

theorem lat_add {D : Nat} {a b : Rat} (ha : Lat D a) (hb : Lat D b) : Lat D (a + b) := by
  obtain ⟨k1, h1⟩ := ha; obtain ⟨k2, h2⟩ := hb
  refine ⟨k1 + k2, ?_⟩
  rw [Rat.intCast_add]; grind

theorem lat_gap {D : Nat} {a b : Rat} (ha : Lat D a) (hb : Lat D b) (hD : 0 < D) (h : a < b) :
    a * D + 1 ≤ b * D := by
  obtain ⟨k1, h1⟩ := ha; obtain ⟨k2, h2⟩ := hb
  have hd : (0 : Rat) < (D : Rat) := Rat.natCast_pos.2 hD
  have : a * D < b * D := Rat.mul_lt_mul_of_pos_right h hd
  rw [h1, h2] at this ⊢
  have h3 : k1 < k2 := Rat.intCast_lt_intCast.1 this
  have h4 : k1 + 1 ≤ k2 := h3
  have := (Rat.intCast_le_intCast (a := k1 + 1) (b := k2)).2 h4
  rw [Rat.intCast_add] at this
  exact this

theorem lat_mul_right {D : Nat} (m : Nat) {a : Rat} (ha : Lat D a) : Lat (D * m) a := by
  obtain ⟨k, h⟩ := ha
  refine ⟨k * m, ?_⟩
  rw [Rat.natCast_mul, Rat.intCast_mul, ← Rat.mul_assoc, h]; rfl

theorem lat_mul_left {D : Nat} (m : Nat) {a : Rat} (ha : Lat D a) : Lat (m * D) a := by
  rw [Nat.mul_comm]; exact lat_mul_right m ha

theorem lat_den (r : Rat) : Lat r.den r := by
  refine ⟨r.num, ?_⟩
  have h2 := Rat.mkRat_eq_div r.num r.den
  rw [Rat.mkRat_self r] at h2
  have hne : (r.den : Rat) ≠ 0 := by
    intro e; exact r.den_nz (Rat.natCast_eq_zero_iff.1 e)
  have h3 : r * (r.den : Rat) = ((r.num : Rat) / (r.den : Rat)) * (r.den : Rat) := by rw [← h2]
  rw [h3]
  exact Rat.div_mul_cancel hne

theorem lat_zero (D : Nat) : Lat D 0 := ⟨0, by simp [Rat.zero_mul]⟩

theorem exists_nat_ge (r : Rat) : ∃ n : Nat, r ≤ (n : Rat) := by
  refine ⟨r.ceil.toNat, ?_⟩
  have h1 := Rat.le_ceil (x := r)
  have h2 : r.ceil ≤ (r.ceil.toNat : Int) := Int.self_le_toNat _
  have h3 := (Rat.intCast_le_intCast).2 h2
  exact Rat.le_trans h1 h3

/-- product of the denominators of the inserted bounds -/
def denProd : List (Con Ev) → Nat
  | [] => 1
  | c :: r => c.b.den * denProd r

omit [DecidableEq Ev] in
theorem denProd_pos : ∀ l : List (Con Ev), 0 < denProd l
  | [] => Nat.one_pos
  | c :: r => Nat.mul_pos c.b.den_pos (denProd_pos r)

omit [DecidableEq Ev] in
theorem denProd_append (l1 l2 : List (Con Ev)) : denProd (l1 ++ l2) = denProd l1 * denProd l2 := by
  induction l1 with
  | nil => simp [denProd]
  | cons c r ih => simp [denProd, ih, Nat.mul_assoc]

omit [DecidableEq Ev] in
theorem lat_of_mem : ∀ (l : List (Con Ev)) (c : Con Ev), c ∈ l → Lat (denProd l) c.b
  | [], _, h => by cases h
  | a :: r, c, h => by
    rcases List.mem_cons.1 h with h1 | h1
    · subst h1; exact lat_mul_right _ (lat_den _)
    · exact lat_mul_left _ (lat_of_mem r c h1)

/-! ### sums over a list of nodes -/

def sumOver (f : Ev → Rat) : List Ev → Rat
  | [] => 0
  | v :: r => f v + sumOver f r

omit [DecidableEq Ev] in
theorem sumOver_nonneg (f : Ev → Rat) (h : ∀ v, 0 ≤ f v) : ∀ K, 0 ≤ sumOver f K
  | [] => Rat.le_refl
  | v :: r => by
    have := h v; have := sumOver_nonneg f h r
    simp only [sumOver]; grind

omit [DecidableEq Ev] in
theorem sumOver_le (f g : Ev → Rat) (h : ∀ v, g v ≤ f v) : ∀ K, sumOver g K ≤ sumOver f K
  | [] => Rat.le_refl
  | v :: r => by
    have := h v; have := sumOver_le f g h r
    simp only [sumOver]; grind

omit [DecidableEq Ev] in
theorem sumOver_drop (f g : Ev → Rat) (v : Ev) (ε : Rat) (h : ∀ u, g u ≤ f u) (hε : g v + ε ≤ f v) :
    ∀ K, v ∈ K → sumOver g K + ε ≤ sumOver f K
  | [], hv => by cases hv
  | u :: r, hv => by
    simp only [sumOver]
    rcases List.mem_cons.1 hv with h1 | h1
    · subst h1
      have := sumOver_le f g h r
      grind
    · have := sumOver_drop f g v ε h hε r h1
      have := h u
      grind

/-! ### the loop -/

/-- the static facts the termination argument needs about one call of `_inc_check` -/
structure TermCtx (cs : Cons Ev) (y : Ev) (b : Rat) (D : Nat) (dOld : Ev → Rat) (K : List Ev) : Prop where
  Dpos : 0 < D
  edgeOld : ∀ c v w, (v, w) ∈ nbrs cs c → ¬ (v = y ∧ w = b) → dOld v ≤ dOld c + w
  edgeK : ∀ c v w, (v, w) ∈ nbrs cs c → v ∈ K
  latW : ∀ c v w, (v, w) ∈ nbrs cs c → Lat D w

/-- the dynamic invariant -/
def TermInv (D : Nat) (dOld : Ev → Rat) (Δ : Rat) (d : Dist Ev) : Prop :=
  (∀ v, Lat D (get d v)) ∧ (∀ v, dOld v - get d v ≤ Δ)

/-- the part of the measure contributed by the distances -/
def meas (D : Nat) (dOld : Ev → Rat) (Δ : Rat) (K : List Ev) (d : Dist Ev) : Rat :=
  sumOver (fun v => (get d v - dOld v + Δ) * (D : Rat)) K

theorem meas_nonneg (D : Nat) (dOld : Ev → Rat) (Δ : Rat) (K : List Ev) (d : Dist Ev)
    (h : TermInv D dOld Δ d) : 0 ≤ meas D dOld Δ K d := by
  apply sumOver_nonneg
  intro v
  apply Rat.mul_nonneg
  · have := h.2 v; grind
  · exact Rat.natCast_nonneg

theorem relax_term {cs : Cons Ev} {y : Ev} {b : Rat} {D : Nat} {dOld : Ev → Rat} {K : List Ev}
    (ctx : TermCtx cs y b D dOld K) (Δ : Rat) (c : Ev) :
    ∀ (ns : Nbrs Ev) (d : Dist Ev) (q : List Ev) (d' : Dist Ev) (q' : List Ev),
      (∀ e ∈ ns, e ∈ nbrs cs c) → TermInv D dOld Δ d → relax y b c ns d q = .ok d' q' →
      TermInv D dOld Δ d' ∧
        (q'.length : Rat) + meas D dOld Δ K d' ≤ (q.length : Rat) + meas D dOld Δ K d := by
  intro ns
  induction ns with
  | nil =>
    intro d q d' q' _ hinv h
    simp only [relax] at h; cases h
    exact ⟨hinv, Rat.le_refl⟩
  | cons e r ih =>
    obtain ⟨v, w⟩ := e
    intro d q d' q' hsub hinv h
    have hr : ∀ e ∈ r, e ∈ nbrs cs c := fun e he => hsub e (List.mem_cons_of_mem _ he)
    have hedge : (v, w) ∈ nbrs cs c := hsub _ (List.mem_cons_self ..)
    simp only [relax] at h
    split at h
    · rename_i hlt
      split at h
      · cases h
      · rename_i hnot
        have hold := ctx.edgeOld c v w hedge hnot
        have hlatNew : Lat D (get d c + w) := lat_add (hinv.1 c) (ctx.latW c v w hedge)
        have hinv1 : TermInv D dOld Δ (assign v (get d c + w) d) := by
          constructor
          · intro u; rw [get_assign]; split
            · exact hlatNew
            · exact hinv.1 u
          · intro u; rw [get_assign]; split
            · rename_i e; subst e
              have := hinv.2 c; grind
            · exact hinv.2 u
        obtain ⟨hinv', hm⟩ := ih _ _ _ _ hr hinv1 h
        refine ⟨hinv', ?_⟩
        have hgap := lat_gap hlatNew (hinv.1 v) ctx.Dpos hlt
        have hdrop : meas D dOld Δ K (assign v (get d c + w) d) + 1 ≤ meas D dOld Δ K d := by
          unfold meas
          apply sumOver_drop _ _ v 1 _ _ K (ctx.edgeK c v w hedge)
          · intro u
            simp only [get_assign]
            split
            · rename_i e; subst e
              have hd : (0 : Rat) ≤ (D : Rat) := Rat.natCast_nonneg
              have : get d c + w - dOld v + Δ ≤ get d v - dOld v + Δ := by grind
              exact Rat.mul_le_mul_of_nonneg_right this hd
            · exact Rat.le_refl
          · simp only [get_assign, if_true]
            grind
        have hlen : (((q ++ [v]).length : Nat) : Rat) = (q.length : Rat) + 1 := by
          rw [List.length_append]; simp [Rat.natCast_add]
        rw [hlen] at hm
        grind
    · exact ih _ _ _ _ hr hinv h

theorem loop_term {cs : Cons Ev} {y : Ev} {b : Rat} {D : Nat} {dOld : Ev → Rat} {K : List Ev}
    (ctx : TermCtx cs y b D dOld K) (Δ : Rat) :
    ∀ (fuel : Nat) (d : Dist Ev) (q : List Ev),
      TermInv D dOld Δ d → (q.length : Rat) + meas D dOld Δ K d ≤ (fuel : Rat) →
      loop cs y b fuel d q ≠ .fuel := by
  intro fuel
  induction fuel with
  | zero =>
    intro d q hinv hm
    cases q with
    | nil => simp [loop]
    | cons c q =>
      exfalso
      have h1 := meas_nonneg D dOld Δ K d hinv
      have h2 : (((c :: q).length : Nat) : Rat) = (q.length : Rat) + 1 := by
        simp [Rat.natCast_add]
      have h3 : (0 : Rat) ≤ (q.length : Rat) := Rat.natCast_nonneg
      rw [h2] at hm
      have h4 : ((0 : Nat) : Rat) = 0 := rfl
      rw [h4] at hm
      grind
  | succ n ih =>
    intro d q hinv hm
    cases q with
    | nil => simp [loop]
    | cons c q =>
      simp only [loop]
      split
      · rename_i d1 q1 hrel
        obtain ⟨hinv1, hm1⟩ := relax_term ctx Δ c _ _ _ _ _ (fun _ h => h) hinv hrel
        apply ih _ _ hinv1
        have h2 : (((c :: q).length : Nat) : Rat) = (q.length : Rat) + 1 := by
          simp [Rat.natCast_add]
        have h3 : ((n + 1 : Nat) : Rat) = (n : Rat) + 1 := by simp [Rat.natCast_add]
        rw [h2, h3] at hm
        grind
      · simp

theorem incCheck_term {cs : Cons Ev} {x y : Ev} {b : Rat} {D : Nat} {K : List Ev} (d : Dist Ev)
    (ctx : TermCtx cs y b D (get d) K) (hlatd : ∀ v, Lat D (get d v)) (hlatb : Lat D b) :
    ∃ fuel, incCheck fuel cs d x y b ≠ .fuel := by
  by_cases hlt : get d x + b < get d y
  · let Δ := get d y - (get d x + b)
    have hinv : TermInv D (get d) Δ (assign y (get d x + b) d) := by
      constructor
      · intro u; rw [get_assign]; split
        · exact lat_add (hlatd x) hlatb
        · exact hlatd u
      · intro u; rw [get_assign]; split
        · rename_i e; subst e; exact Rat.le_refl
        · show get d u - get d u ≤ get d y - (get d x + b); grind
    obtain ⟨fuel, hf⟩ := exists_nat_ge (1 + meas D (get d) Δ K (assign y (get d x + b) d))
    refine ⟨fuel, ?_⟩
    unfold incCheck
    simp only [if_pos hlt]
    apply loop_term ctx Δ fuel _ _ hinv
    have : ((([y] : List Ev).length : Nat) : Rat) = 1 := rfl
    rw [this]; exact hf
  · refine ⟨0, ?_⟩
    unfold incCheck
    simp [if_neg hlt]

/-! ### `add` and histories -/

/-- while consistent, every distance is a multiple of `1 / denProd ins` -/
def LatInv (s : Net Ev) (ins : List (Con Ev)) : Prop :=
  s.sat = true → ∀ v, Lat (denProd ins) (get s.dist v)

theorem latInv_empty : LatInv (empty : Net Ev) [] := by
  intro _ v; simp [empty, get, lookup]; exact lat_zero _

/-- the edges of the updated constraint store -/
theorem nbrs_new_edge (cons : Cons Ev) (x y : Ev) (b : Rat) (u v : Ev) (w : Rat) :
    (v, w) ∈ nbrs (assign x ((y, b) :: nbrs cons x) (setDefault y [] cons)) u ↔
      ((u = x ∧ v = y ∧ w = b) ∨ (v, w) ∈ nbrs cons u) := by
  rw [nbrs_assign, nbrs_setDefault]
  split
  · rename_i e; subst e
    simp only [List.mem_cons, Prod.mk.injEq, true_and]
  · rename_i e
    constructor
    · intro h1; exact Or.inr h1
    · rintro (⟨h1, _⟩ | h1)
      · exact (e h1.symm).elim
      · exact h1

theorem add_lat (fuel : Nat) (s s' : Net Ev) (ins : List (Con Ev)) (x y : Ev) (b : Rat)
    (hinv : Inv s ins) (hlat : LatInv s ins) (h : add fuel s x y b = some s') :
    LatInv s' (ins ++ [⟨x, y, b⟩]) := by
  unfold add at h
  cases hsat : s.sat with
  | false =>
    simp only [hsat] at h; cases h
    intro hs; rw [hsat] at hs; cases hs
  | true =>
    simp only [hsat, if_true] at h
    have hd1 : ∀ u, get (setDefault y 0 (setDefault x 0 s.dist)) u = get s.dist u := by
      intro u; rw [get_setDefault, get_setDefault]
    have hbase : ∀ v, Lat (denProd (ins ++ [(⟨x, y, b⟩ : Con Ev)])) (get (setDefault y 0 (setDefault x 0 s.dist)) v) := by
      intro v; rw [hd1, denProd_append]; exact lat_mul_right _ (hlat hsat v)
    split at h
    · cases h; intro _; exact hbase
    · split at h
      · rename_i d hres
        cases h
        intro _
        refine incCheck_pres (fun d => ∀ v, Lat (denProd (ins ++ [(⟨x, y, b⟩ : Con Ev)])) (get d v)) fuel _ _ _ x y b ?_
          ((nbrs_new_edge _ _ _ _ _ _ _).2 (Or.inl ⟨rfl, rfl, rfl⟩)) hbase hres
        intro c d0 v w he hq _ u
        rw [get_assign]; split
        · apply lat_add (hq c)
          rcases (nbrs_new_edge _ _ _ _ _ _ _).1 he with ⟨_, _, h3⟩ | h1
          · subst h3; exact lat_of_mem _ ⟨x, y, w⟩ (by simp)
          · obtain ⟨c', hc', _, _, h3⟩ := hinv.edge_ins c v w h1
            subst h3; exact lat_of_mem _ c' (List.mem_append_left _ hc')
        · exact hq u
      · cases h; intro hs; simp at hs
      · cases h

theorem add_terminates (s : Net Ev) (ins : List (Con Ev)) (x y : Ev) (b : Rat)
    (hinv : Inv s ins) (hlat : LatInv s ins) : ∃ fuel s', add fuel s x y b = some s' := by
  suffices key : ∃ fuel, add fuel s x y b ≠ none by
    obtain ⟨fuel, hne⟩ := key
    cases h : add fuel s x y b with
    | none => exact (hne h).elim
    | some s' => exact ⟨fuel, s', h⟩
  cases hsat : s.sat with
  | false => exact ⟨0, by simp [add, hsat]⟩
  | true =>
    by_cases hsub : isSubsumed (setDefault y [] s.cons) x y b = true
    · exact ⟨0, by simp [add, hsat, hsub]⟩
    · have hd1 : ∀ u, get (setDefault y 0 (setDefault x 0 s.dist)) u = get s.dist u := by
        intro u; rw [get_setDefault, get_setDefault]
      have hedge : ∀ u v w, (v, w) ∈ nbrs (assign x ((y, b) :: nbrs s.cons x) (setDefault y [] s.cons)) u →
          ∃ c ∈ ins ++ [(⟨x, y, b⟩ : Con Ev)], c.x = u ∧ c.y = v ∧ c.b = w := by
        intro u v w he
        rcases (nbrs_new_edge _ _ _ _ _ _ _).1 he with ⟨h1, h2, h3⟩ | h1
        · exact ⟨⟨x, y, b⟩, by simp, h1.symm, h2.symm, h3.symm⟩
        · obtain ⟨c, hc, hh⟩ := hinv.edge_ins u v w h1
          exact ⟨c, List.mem_append_left _ hc, hh⟩
      have ctx : TermCtx (assign x ((y, b) :: nbrs s.cons x) (setDefault y [] s.cons)) y b
          (denProd (ins ++ [(⟨x, y, b⟩ : Con Ev)])) (get (setDefault y 0 (setDefault x 0 s.dist)))
          (events (ins ++ [(⟨x, y, b⟩ : Con Ev)])) := {
        Dpos := denProd_pos _
        edgeOld := by
          intro c v w he hnot
          rcases (nbrs_new_edge _ _ _ _ _ _ _).1 he with ⟨_, h2, h3⟩ | h1
          · exact (hnot ⟨h2, h3⟩).elim
          · rw [hd1, hd1]; exact hinv.feas hsat c v w h1
        edgeK := by
          intro c v w he
          obtain ⟨c', hc', _, h2, _⟩ := hedge c v w he
          simp only [events, List.mem_flatMap]
          exact ⟨c', hc', by simp [← h2]⟩
        latW := by
          intro c v w he
          obtain ⟨c', hc', _, _, h3⟩ := hedge c v w he
          rw [← h3]; exact lat_of_mem _ c' hc' }
      have hlatd : ∀ v, Lat (denProd (ins ++ [(⟨x, y, b⟩ : Con Ev)])) (get (setDefault y 0 (setDefault x 0 s.dist)) v) := by
        intro v; rw [hd1, denProd_append]; exact lat_mul_right _ (hlat hsat v)
      have hlatb : Lat (denProd (ins ++ [(⟨x, y, b⟩ : Con Ev)])) b :=
        lat_of_mem _ ⟨x, y, b⟩ (by simp)
      obtain ⟨fuel, hf⟩ := incCheck_term (x := x) _ ctx hlatd hlatb
      refine ⟨fuel, ?_⟩
      cases hres : incCheck fuel (assign x ((y, b) :: nbrs s.cons x) (setDefault y [] s.cons))
          (setDefault y 0 (setDefault x 0 s.dist)) x y b with
      | ok d => simp [add, hsat, hsub, hres]
      | neg d => simp [add, hsat, hsub, hres]
      | fuel => exact (hf hres).elim

theorem addAll_terminates : ∀ (cs : List (Con Ev)) (s : Net Ev) (ins : List (Con Ev)),
    Inv s ins → LatInv s ins → ∃ fuel s', addAll fuel s cs = some s' := by
  intro cs
  induction cs with
  | nil => intro s ins _ _; exact ⟨0, s, rfl⟩
  | cons c r ih =>
    intro s ins hinv hlat
    obtain ⟨f1, s1, h1⟩ := add_terminates s ins c.x c.y c.b hinv hlat
    obtain ⟨f2, s2, h2⟩ := ih s1 (ins ++ [c]) (add_inv f1 s s1 ins c.x c.y c.b hinv h1)
      (add_lat f1 s s1 ins c.x c.y c.b hinv hlat h1)
    refine ⟨f1 + f2, s2, ?_⟩
    simp only [addAll]
    rw [add_fuel_mono f1 f2 s s1 c.x c.y c.b h1]
    have := addAll_fuel_mono f2 f1 r s1 s2 h2
    rw [Nat.add_comm] at this
    exact this

theorem step_fuel_mono (fuel k : Nat) (nets nets' : List (Net Ev)) (o : Op Ev)
    (h : step fuel nets o = some nets') : step (fuel + k) nets o = some nets' := by
  cases o with
  | add i c =>
    simp only [step] at h ⊢
    split at h
    · rename_i s hs
      split at h
      · rename_i s1 h1
        rw [add_fuel_mono fuel k s s1 c.x c.y c.b h1]; exact h
      · cases h
    · cases h
  | copy i => simpa [step] using h

theorem run_fuel_mono (fuel k : Nat) : ∀ (ops : List (Op Ev)) (nets nets' : List (Net Ev)),
    run fuel nets ops = some nets' → run (fuel + k) nets ops = some nets' := by
  intro ops
  induction ops with
  | nil => intro nets nets' h; simpa [run] using h
  | cons o r ih =>
    intro nets nets' h
    simp only [run] at h ⊢
    split at h
    · rename_i n1 h1
      rw [step_fuel_mono fuel k nets n1 o h1]
      exact ih n1 nets' h
    · cases h

theorem run_terminates : ∀ (ops : List (Op Ev)) (nets : List (Net Ev)),
    (∀ s ∈ nets, ∃ ins, Inv s ins ∧ LatInv s ins) → wellIndexed nets.length ops = true →
    ∃ fuel nets', run fuel nets ops = some nets' := by
  intro ops
  induction ops with
  | nil => intro nets _ _; exact ⟨0, nets, rfl⟩
  | cons o r ih =>
    intro nets hall hwi
    cases o with
    | add i c =>
      simp only [wellIndexed, Bool.and_eq_true, decide_eq_true_eq] at hwi
      obtain ⟨hi, hwr⟩ := hwi
      have hs : nets[i]? = some nets[i] := List.getElem?_eq_getElem hi
      obtain ⟨ins, hinv, hlat⟩ := hall nets[i] (List.getElem_mem hi)
      obtain ⟨f1, s1, h1⟩ := add_terminates nets[i] ins c.x c.y c.b hinv hlat
      have hall1 : ∀ s ∈ nets.set i s1, ∃ ins, Inv s ins ∧ LatInv s ins := by
        intro s hsm
        rcases List.mem_or_eq_of_mem_set hsm with h2 | h2
        · exact hall s h2
        · subst h2
          exact ⟨ins ++ [c], add_inv f1 _ _ ins c.x c.y c.b hinv h1, add_lat f1 _ _ ins c.x c.y c.b hinv hlat h1⟩
      obtain ⟨f2, nets', h2⟩ := ih (nets.set i s1) hall1 (by simpa using hwr)
      refine ⟨f1 + f2, nets', ?_⟩
      have hstep : step (f1 + f2) nets (.add i c) = some (nets.set i s1) := by
        apply step_fuel_mono
        simp only [step, hs, h1]
      simp only [run, hstep]
      have := run_fuel_mono f2 f1 r _ _ h2
      rw [Nat.add_comm] at this
      exact this
    | copy i =>
      simp only [wellIndexed, Bool.and_eq_true, decide_eq_true_eq] at hwi
      obtain ⟨hi, hwr⟩ := hwi
      have hs : nets[i]? = some nets[i] := List.getElem?_eq_getElem hi
      have hall1 : ∀ s ∈ nets ++ [copy nets[i]], ∃ ins, Inv s ins ∧ LatInv s ins := by
        intro s hsm
        rcases List.mem_append.1 hsm with h2 | h2
        · exact hall s h2
        · simp only [List.mem_singleton] at h2
          subst h2; rw [copy_eq]; exact hall _ (List.getElem_mem hi)
      obtain ⟨f2, nets', h2⟩ := ih (nets ++ [copy nets[i]]) hall1 (by simpa using hwr)
      refine ⟨f2, nets', ?_⟩
      simp only [run, step, hs]
      exact h2

end UPVerif.STN
