import UPVerif.Core.KindProg
import UPVerif.Lemmas.KindLemmas
/-! Helper lemmas for `Props/C09.lean`: locality of the kind programs (membership of a feature in
the output depends only on that feature and on the features the body reads), soundness of the
finite checks `monoCheck` / `neverCheck`, and the tie between `run` (with assertions) and `exec`. -/
set_option linter.unusedSectionVars false
namespace UPVerif.KindProg
open UPVerif.Kind

section generic
variable {α : Type} [BEq α] [LawfulBEq α]

theorem mem_addF {f g : α} {s : List α} : g ∈ addF f s ↔ g = f ∨ g ∈ s := by
  unfold addF
  split
  · rename_i h
    have hf : f ∈ s := by simpa using h
    constructor
    · intro hg; exact Or.inr hg
    · rintro (rfl | hg)
      · exact hf
      · exact hg
  · simp only [List.mem_append, List.mem_singleton]
    constructor
    · rintro (h | h); exact Or.inr h; exact Or.inl h
    · rintro (h | h); exact Or.inr h; exact Or.inl h

theorem mem_delF {f g : α} {s : List α} : g ∈ delF f s ↔ g ∈ s ∧ g ≠ f := by
  simp [delF]

theorem hasAny_iff {fs s : List α} : hasAny fs s = true ↔ ∃ f, f ∈ fs ∧ f ∈ s := by
  simp [hasAny, List.any_eq_true]

/-- two feature sets agree on the features satisfying `U` -/
def AgreeOn (U : α → Prop) (a b : List α) : Prop := ∀ f, U f → (f ∈ a ↔ f ∈ b)

theorem AgreeOn.refl (U : α → Prop) (a : List α) : AgreeOn U a a := fun _ _ => Iff.rfl

theorem AgreeOn.symm {U : α → Prop} {a b : List α} (h : AgreeOn U a b) : AgreeOn U b a :=
  fun f hf => (h f hf).symm

theorem hasAny_congr {U : α → Prop} {fs a b : List α} (hfs : ∀ f ∈ fs, U f)
    (h : AgreeOn U a b) : hasAny fs a = hasAny fs b := by
  rw [Bool.eq_iff_iff, hasAny_iff, hasAny_iff]
  constructor
  · rintro ⟨f, hf, hm⟩; exact ⟨f, hf, (h f (hfs f hf)).1 hm⟩
  · rintro ⟨f, hf, hm⟩; exact ⟨f, hf, (h f (hfs f hf)).2 hm⟩

theorem cond_congr {U : α → Prop} (c : Cond α) {inp inp' cur cur' : List α}
    (ht : ∀ f ∈ c.tests, U f) (hi : AgreeOn U inp inp') (hc : AgreeOn U cur cur') :
    c.eval inp cur = c.eval inp' cur' := by
  induction c with
  | has s n =>
    cases s
    · simp only [Cond.eval]; exact hasAny_congr ht hi
    · simp only [Cond.eval]; exact hasAny_congr ht hc
  | and a b iha ihb =>
    simp only [Cond.tests, List.mem_append] at ht
    simp only [Cond.eval, iha (fun f hf => ht f (Or.inl hf)), ihb (fun f hf => ht f (Or.inr hf))]
  | or a b iha ihb =>
    simp only [Cond.tests, List.mem_append] at ht
    simp only [Cond.eval, iha (fun f hf => ht f (Or.inl hf)), ihb (fun f hf => ht f (Or.inr hf))]
  | not a iha =>
    simp only [Cond.tests] at ht
    simp only [Cond.eval, iha ht]

theorem agree_addF {U : α → Prop} {a b : List α} (f : α) (h : AgreeOn U a b) :
    AgreeOn U (addF f a) (addF f b) := by
  intro g hg
  rw [mem_addF, mem_addF, h g hg]

theorem agree_delF {U : α → Prop} {a b : List α} (f : α) (h : AgreeOn U a b) :
    AgreeOn U (delF f a) (delF f b) := by
  intro g hg
  rw [mem_delF, mem_delF, h g hg]

/-- LOCALITY: on the features of `U ⊇ tests`, the output is determined by the input restricted to `U` -/
theorem exec_congr {U : α → Prop} (p : Prog α) :
    ∀ {inp inp' cur cur' : List α}, (∀ f ∈ p.tests, U f) → AgreeOn U inp inp' →
      AgreeOn U cur cur' → AgreeOn U (p.exec inp cur) (p.exec inp' cur') := by
  induction p with
  | done => intro _ _ _ _ _ _ hc; exact hc
  | set f k ih =>
    intro inp inp' cur cur' ht hi hc
    exact ih ht hi (agree_addF f hc)
  | unset f k ih =>
    intro inp inp' cur cur' ht hi hc
    exact ih ht hi (agree_delF f hc)
  | ite c t e k iht ihe ihk =>
    intro inp inp' cur cur' ht hi hc
    simp only [Prog.tests, List.mem_append] at ht
    have hcond := cond_congr c (fun f hf => ht f (Or.inl (Or.inl (Or.inl hf)))) hi hc
    simp only [Prog.exec, hcond]
    split
    · exact ihk (fun f hf => ht f (Or.inr hf)) hi
        (iht (fun f hf => ht f (Or.inl (Or.inl (Or.inr hf)))) hi hc)
    · exact ihk (fun f hf => ht f (Or.inr hf)) hi
        (ihe (fun f hf => ht f (Or.inl (Or.inr hf))) hi hc)

/-- a feature the body neither sets nor unsets passes through unchanged -/
theorem exec_untouched (p : Prog α) :
    ∀ (inp cur : List α) (f : α), f ∉ p.mentioned → (f ∈ p.exec inp cur ↔ f ∈ cur) := by
  induction p with
  | done => intro _ _ _ _; exact Iff.rfl
  | set f' k ih =>
    intro inp cur f hf
    simp only [Prog.mentioned, List.mem_cons, not_or] at hf
    simp only [Prog.exec]
    rw [ih inp _ f hf.2, mem_addF]
    constructor
    · rintro (h | h); exact absurd h hf.1; exact h
    · intro h; exact Or.inr h
  | unset f' k ih =>
    intro inp cur f hf
    simp only [Prog.mentioned, List.mem_cons, not_or] at hf
    simp only [Prog.exec]
    rw [ih inp _ f hf.2, mem_delF]
    exact ⟨fun h => h.1, fun h => ⟨h, hf.1⟩⟩
  | ite c t e k iht ihe ihk =>
    intro inp cur f hf
    simp only [Prog.mentioned, List.mem_append, not_or] at hf
    simp only [Prog.exec]
    split
    · rw [ihk inp _ f hf.2, iht inp cur f hf.1.1]
    · rw [ihk inp _ f hf.2, ihe inp cur f hf.1.2]

/-- `D` is closed for the body (Prop version of `closedB`) -/
theorem closedB_ite {D : List α} {c : Cond α} {t e k : Prog α} (h : (Prog.ite c t e k).closedB D = true) :
    ((∃ g, (g ∈ t.mentioned ∨ g ∈ e.mentioned) ∧ g ∈ D) → ∀ x ∈ c.tests, x ∈ D) ∧
    t.closedB D = true ∧ e.closedB D = true ∧ k.closedB D = true := by
  simp only [Prog.closedB, Bool.and_eq_true, Bool.or_eq_true, Bool.not_eq_eq_eq_not, Bool.not_true,
    List.any_eq_false, List.all_eq_true, List.mem_append, List.contains_iff_mem] at h
  refine ⟨?_, h.1.1.2, h.1.2, h.2⟩
  rintro ⟨g, hg, hD⟩ x hx
  rcases h.1.1.1 with h1 | h1
  · exact absurd hD (by simpa using h1 g hg)
  · exact h1 x hx

/-- LOCALITY, sharper: on a CLOSED set of features the output is determined by the input
    restricted to that set -/
theorem exec_congr_closed (D : List α) (p : Prog α) :
    ∀ {inp inp' cur cur' : List α}, p.closedB D = true → AgreeOn (fun x => x ∈ D) inp inp' →
      AgreeOn (fun x => x ∈ D) cur cur' →
      AgreeOn (fun x => x ∈ D) (p.exec inp cur) (p.exec inp' cur') := by
  induction p with
  | done => intro _ _ _ _ _ _ hc; exact hc
  | set f k ih =>
    intro inp inp' cur cur' hcl hi hc
    exact ih (by simpa [Prog.closedB] using hcl) hi (agree_addF f hc)
  | unset f k ih =>
    intro inp inp' cur cur' hcl hi hc
    exact ih (by simpa [Prog.closedB] using hcl) hi (agree_delF f hc)
  | ite c t e k iht ihe ihk =>
    intro inp inp' cur cur' hcl hi hc
    obtain ⟨hguard, hct, hce, hck⟩ := closedB_ite hcl
    by_cases hmod : ∃ g, (g ∈ t.mentioned ∨ g ∈ e.mentioned) ∧ g ∈ D
    · -- the condition reads only features of `D`: both runs take the same branch
      have hcond := cond_congr c (U := fun x => x ∈ D) (hguard hmod) hi hc
      simp only [Prog.exec, hcond]
      split
      · exact ihk hck hi (iht hct hi hc)
      · exact ihk hck hi (ihe hce hi hc)
    · -- neither branch changes a feature of `D`: whatever branch each run takes, `D` is untouched
      have hnt : ∀ g ∈ D, g ∉ t.mentioned := fun g hg hm => hmod ⟨g, Or.inl hm, hg⟩
      have hne : ∀ g ∈ D, g ∉ e.mentioned := fun g hg hm => hmod ⟨g, Or.inr hm, hg⟩
      have key : ∀ (b b' : Bool),
          AgreeOn (fun x => x ∈ D) (if b then t.exec inp cur else e.exec inp cur)
            (if b' then t.exec inp' cur' else e.exec inp' cur') := by
        intro b b' g hg
        have h1 : g ∈ (if b then t.exec inp cur else e.exec inp cur) ↔ g ∈ cur := by
          cases b
          · simpa using exec_untouched e inp cur g (hne g hg)
          · simpa using exec_untouched t inp cur g (hnt g hg)
        have h2 : g ∈ (if b' then t.exec inp' cur' else e.exec inp' cur') ↔ g ∈ cur' := by
          cases b'
          · simpa using exec_untouched e inp' cur' g (hne g hg)
          · simpa using exec_untouched t inp' cur' g (hnt g hg)
        rw [h1, h2]
        exact hc g hg
      have := ihk hck hi (key (c.eval inp cur) (c.eval inp' cur'))
      simp only [Prog.exec]
      cases h1 : c.eval inp cur <;> cases h2 : c.eval inp' cur' <;> simp only [h1, h2] at this ⊢ <;>
        simpa using this

theorem mem_dedup {x : α} : ∀ {l : List α}, x ∈ dedup l ↔ x ∈ l
  | [] => by simp [dedup]
  | y :: ys => by
    have ih := @mem_dedup x ys
    unfold dedup
    split
    · rename_i h
      have hy : y ∈ ys := (@mem_dedup y ys).1 (by simpa using h)
      rw [ih, List.mem_cons]
      constructor
      · intro h; exact Or.inr h
      · rintro (rfl | h)
        · exact hy
        · exact h
    · rw [List.mem_cons, List.mem_cons, ih]

theorem filter_mem_masks (q : α → Bool) : ∀ (l : List α), l.filter q ∈ masks l
  | [] => by simp [masks]
  | x :: xs => by
    have ih := filter_mem_masks q xs
    simp only [masks, List.mem_append, List.mem_map]
    by_cases hq : q x = true
    · right
      exact ⟨xs.filter q, ih, by simp [hq]⟩
    · left
      simpa [List.filter_cons, hq] using ih

/-- restriction of a feature set to the finite universe `U`, as one of the enumerated masks -/
def restrict (U : List α) (a : List α) : List α := U.filter (fun x => a.contains x)

theorem mem_restrict {U a : List α} {x : α} : x ∈ restrict U a ↔ x ∈ U ∧ x ∈ a := by
  simp [restrict]

theorem agree_restrict (U a : List α) : AgreeOn (fun x => x ∈ U) a (restrict U a) := by
  intro x hx
  rw [mem_restrict]
  exact ⟨fun h => ⟨hx, h⟩, fun h => h.2⟩

/-! #### soundness of the syntactic monotonicity condition `monoB` -/

theorem hasAny_mono {fs a b : List α} (hab : ∀ x, x ∈ a → x ∈ b) : hasAny fs a = true → hasAny fs b = true := by
  rw [hasAny_iff, hasAny_iff]
  rintro ⟨f, hf, hm⟩
  exact ⟨f, hf, hab f hm⟩

theorem cond_mono (c : Cond α) (hpos : c.positive = true) {inp inp' cur cur' : List α}
    (hi : ∀ x, x ∈ inp → x ∈ inp') (hc : ∀ x, x ∈ cur → x ∈ cur') :
    c.eval inp cur = true → c.eval inp' cur' = true := by
  induction c with
  | has s fs =>
    cases s
    · simp only [Cond.eval]; exact hasAny_mono hi
    · simp only [Cond.eval]; exact hasAny_mono hc
  | and a b iha ihb =>
    simp only [Cond.positive, Bool.and_eq_true] at hpos
    simp only [Cond.eval, Bool.and_eq_true]
    rintro ⟨h1, h2⟩
    exact ⟨iha hpos.1 h1, ihb hpos.2 h2⟩
  | or a b iha ihb =>
    simp only [Cond.positive, Bool.and_eq_true] at hpos
    simp only [Cond.eval, Bool.or_eq_true]
    rintro (h1 | h2)
    · exact Or.inl (iha hpos.1 h1)
    · exact Or.inr (ihb hpos.2 h2)
  | not a _ => simp [Cond.positive] at hpos

theorem isDone_eq {p : Prog α} (h : p.isDone = true) : p = .done := by
  cases p <;> simp [Prog.isDone] at h ⊢

/-- a feature that the body never unsets stays -/
theorem mem_exec_of_not_unset (p : Prog α) :
    ∀ (inp cur : List α) (x : α), x ∈ cur → x ∉ p.unsets → x ∈ p.exec inp cur := by
  induction p with
  | done => intro _ _ _ h _; exact h
  | set f k ih =>
    intro inp cur x hx hu
    exact ih inp _ x (mem_addF.2 (Or.inr hx)) hu
  | unset f k ih =>
    intro inp cur x hx hu
    simp only [Prog.unsets, List.mem_cons, not_or] at hu
    exact ih inp _ x (mem_delF.2 ⟨hx, hu.1⟩) hu.2
  | ite c t e k iht ihe ihk =>
    intro inp cur x hx hu
    simp only [Prog.unsets, List.mem_append, not_or] at hu
    simp only [Prog.exec]
    split
    · exact ihk inp _ x (iht inp cur x hx hu.1.1) hu.2
    · exact ihk inp _ x (ihe inp cur x hx hu.1.2) hu.2

/-- a body made of unsets only removes features -/
theorem exec_sub_of_onlyUnsets (p : Prog α) :
    ∀ (inp cur : List α), p.onlyUnsets = true → ∀ x, x ∈ p.exec inp cur → x ∈ cur := by
  induction p with
  | done => intro _ _ _ x h; exact h
  | set f k _ => intro _ _ h; simp [Prog.onlyUnsets] at h
  | unset f k ih =>
    intro inp cur h x hx
    exact (mem_delF.1 (ih inp _ (by simpa [Prog.onlyUnsets] using h) x hx)).1
  | ite c t e k _ _ _ => intro _ _ h; simp [Prog.onlyUnsets] at h

theorem monoB_of_onlyUnsets (p : Prog α) : p.onlyUnsets = true → p.monoB = true := by
  induction p with
  | done => intro _; rfl
  | set f k _ => intro h; simp [Prog.onlyUnsets] at h
  | unset f k ih => intro h; exact ih (by simpa [Prog.onlyUnsets] using h)
  | ite c t e k _ _ _ => intro h; simp [Prog.onlyUnsets] at h

/-- SOUNDNESS of `monoB`: the body is monotone jointly in the `problem_kind` argument and in the
    local kind it starts from -/
theorem monoB_sound (p : Prog α) :
    ∀ (inp inp' cur cur' : List α), p.monoB = true → (∀ x, x ∈ inp → x ∈ inp') →
      (∀ x, x ∈ cur → x ∈ cur') → ∀ f, f ∈ p.exec inp cur → f ∈ p.exec inp' cur' := by
  induction p with
  | done => intro _ _ _ _ _ _ hc f hf; exact hc f hf
  | set g k ih =>
    intro inp inp' cur cur' h hi hc
    refine ih inp inp' _ _ (by simpa [Prog.monoB] using h) hi ?_
    intro x hx
    rw [mem_addF] at *
    rcases hx with h1 | h1
    · exact Or.inl h1
    · exact Or.inr (hc x h1)
  | unset g k ih =>
    intro inp inp' cur cur' h hi hc
    refine ih inp inp' _ _ (by simpa [Prog.monoB] using h) hi ?_
    intro x hx
    rw [mem_delF] at *
    exact ⟨hc x hx.1, hx.2⟩
  | ite c t e k iht ihe ihk =>
    intro inp inp' cur cur' h hi hc
    simp only [Prog.monoB, Bool.and_eq_true, Bool.or_eq_true] at h
    obtain ⟨⟨hk, hdone⟩, hrule⟩ := h
    have he : e = .done := isDone_eq hdone
    subst he
    simp only [Prog.exec]
    rcases hrule with hA | hC
    · -- positive condition; the unsets of `t` are of features whose presence makes it true
      obtain ⟨⟨hpos, ht⟩, hun⟩ := hA
      rw [List.all_eq_true] at hun
      by_cases hb : c.eval inp cur = true
      · have hb' := cond_mono c hpos hi hc hb
        simp only [hb, hb', if_true]
        exact ihk inp inp' _ _ hk hi (iht inp inp' cur cur' ht hi hc)
      · by_cases hb' : c.eval inp' cur' = true
        · simp only [hb, hb', if_true]
          refine ihk inp inp' _ _ hk hi ?_
          intro x hx
          apply mem_exec_of_not_unset t inp' cur' x (hc x hx)
          intro hxu
          have h1 : c.eval [] [x] = true := hun x hxu
          have h2 := cond_mono c hpos (inp := []) (inp' := inp) (cur := [x]) (cur' := cur)
            (fun y hy => by cases hy) (fun y hy => by
              rw [List.mem_singleton] at hy; subst hy; exact hx) h1
          exact hb h2
        · simp only [hb, hb']
          exact ihk inp inp' _ _ hk hi hc
    · -- `if not c': <unsets only>`
      cases c with
      | not c' =>
        simp only [Bool.and_eq_true] at hC
        obtain ⟨hpos, hou⟩ := hC
        simp only [Cond.eval]
        by_cases hb : c'.eval inp cur = true
        · have hb' := cond_mono c' hpos hi hc hb
          simp only [hb, hb', Bool.not_true]
          exact ihk inp inp' _ _ hk hi hc
        · by_cases hb' : c'.eval inp' cur' = true
          · simp only [hb, hb', Bool.not_true, Bool.not_eq_true] at *
            simp only [Bool.not_false, if_true]
            refine ihk inp inp' _ _ hk hi ?_
            intro x hx
            exact hc x (exec_sub_of_onlyUnsets t inp cur hou x hx)
          · simp only [Bool.not_eq_true] at hb hb'
            simp only [hb, hb', Bool.not_false, if_true]
            exact ihk inp inp' _ _ hk hi (iht inp inp' cur cur' (monoB_of_onlyUnsets t hou) hi hc)
      | has _ _ => simp at hC
      | and _ _ => simp at hC
      | or _ _ => simp at hC

/-- soundness of `neverCheck`: `f` is in no output for an input without blockers -/
theorem neverCheck_sound (p : Prog α) (f : α) (blockers : List α) (h : p.neverCheck f blockers = true)
    (a : List α) (hbl : ∀ x ∈ blockers, x ∉ a) : f ∉ p.exec a a := by
  unfold Prog.neverCheck at h
  simp only [Bool.and_eq_true, List.contains_iff_mem] at h
  obtain ⟨⟨hfU, hcl⟩, h⟩ := h
  let U := p.univ f
  have hs : restrict U a ∈ masks U := filter_mem_masks _ U
  rw [List.all_eq_true] at h
  have hc := h _ hs
  have e := exec_congr_closed U p hcl (agree_restrict U a) (agree_restrict U a) f hfU
  intro hfa
  have h1 : f ∈ p.exec (restrict U a) (restrict U a) := e.1 hfa
  have h2 : (p.exec (restrict U a) (restrict U a)).contains f = true := by simpa using h1
  rw [h2] at hc
  simp only [Bool.not_true, Bool.or_false, List.any_eq_true, List.contains_iff_mem] at hc
  obtain ⟨x, hx, hxb⟩ := hc
  exact hbl x hxb (mem_restrict.1 hx).2

end generic

/-! ### renaming of features: the finite checks may be run on a renamed copy of the body -/
section rename
variable {α β : Type} [BEq α] [LawfulBEq α] [BEq β] [LawfulBEq β]

/-- `φ` is injective on the features satisfying `S` -/
def InjOn (φ : α → β) (S : α → Prop) : Prop := ∀ x y, S x → S y → φ x = φ y → x = y

theorem mem_map_inj {φ : α → β} {S : α → Prop} (hinj : InjOn φ S) {f : α} {s : List α} (hf : S f)
    (hs : ∀ x ∈ s, S x) : φ f ∈ s.map φ ↔ f ∈ s := by
  rw [List.mem_map]
  constructor
  · rintro ⟨x, hx, he⟩
    have := hinj x f (hs x hx) hf he
    rwa [← this]
  · intro h; exact ⟨f, h, rfl⟩

theorem contains_map_inj {φ : α → β} {S : α → Prop} (hinj : InjOn φ S) {f : α} {s : List α} (hf : S f)
    (hs : ∀ x ∈ s, S x) : (s.map φ).contains (φ f) = s.contains f := by
  rw [Bool.eq_iff_iff, List.contains_iff_mem, List.contains_iff_mem]
  exact mem_map_inj hinj hf hs

theorem addF_map {φ : α → β} {S : α → Prop} (hinj : InjOn φ S) {f : α} {s : List α} (hf : S f)
    (hs : ∀ x ∈ s, S x) : (addF f s).map φ = addF (φ f) (s.map φ) := by
  unfold addF
  rw [contains_map_inj hinj hf hs]
  split <;> simp

theorem delF_map {φ : α → β} {S : α → Prop} (hinj : InjOn φ S) {f : α} {s : List α} (hf : S f)
    (hs : ∀ x ∈ s, S x) : (delF f s).map φ = delF (φ f) (s.map φ) := by
  unfold delF
  rw [List.filter_map]
  congr 1
  apply List.filter_congr
  intro x hx
  simp only [Function.comp, bne, Bool.not_eq_eq_eq_not, Bool.not_not]
  rw [Bool.eq_iff_iff, beq_iff_eq, beq_iff_eq]
  constructor
  · intro h; rw [h]
  · intro h; exact hinj x f (hs x hx) hf h

theorem mem_addF_S {S : α → Prop} {f : α} {s : List α} (hf : S f) (hs : ∀ x ∈ s, S x) :
    ∀ x ∈ addF f s, S x := by
  intro x hx
  rw [mem_addF] at hx
  rcases hx with rfl | hx
  · exact hf
  · exact hs x hx

theorem mem_delF_S {S : α → Prop} {f : α} {s : List α} (hs : ∀ x ∈ s, S x) : ∀ x ∈ delF f s, S x := by
  intro x hx
  rw [mem_delF] at hx
  exact hs x hx.1

theorem hasAny_map {φ : α → β} {S : α → Prop} (hinj : InjOn φ S) {fs s : List α} (hfs : ∀ x ∈ fs, S x)
    (hs : ∀ x ∈ s, S x) : hasAny (fs.map φ) (s.map φ) = hasAny fs s := by
  rw [Bool.eq_iff_iff, hasAny_iff, hasAny_iff]
  constructor
  · rintro ⟨y, hy, hm⟩
    rw [List.mem_map] at hy
    obtain ⟨x, hx, rfl⟩ := hy
    exact ⟨x, hx, (mem_map_inj hinj (hfs x hx) hs).1 hm⟩
  · rintro ⟨x, hx, hm⟩
    exact ⟨φ x, List.mem_map.2 ⟨x, hx, rfl⟩, (mem_map_inj hinj (hfs x hx) hs).2 hm⟩

theorem cond_eval_map {φ : α → β} {S : α → Prop} (hinj : InjOn φ S) (c : Cond α) {inp cur : List α}
    (hc : ∀ x ∈ c.tests, S x) (hi : ∀ x ∈ inp, S x) (hcur : ∀ x ∈ cur, S x) :
    (c.map φ).eval (inp.map φ) (cur.map φ) = c.eval inp cur := by
  induction c with
  | has s fs =>
    cases s
    · simp only [Cond.map, Cond.eval]; exact hasAny_map hinj hc hi
    · simp only [Cond.map, Cond.eval]; exact hasAny_map hinj hc hcur
  | and a b iha ihb =>
    simp only [Cond.tests, List.mem_append] at hc
    simp only [Cond.map, Cond.eval, iha (fun x hx => hc x (Or.inl hx)), ihb (fun x hx => hc x (Or.inr hx))]
  | or a b iha ihb =>
    simp only [Cond.tests, List.mem_append] at hc
    simp only [Cond.map, Cond.eval, iha (fun x hx => hc x (Or.inl hx)), ihb (fun x hx => hc x (Or.inr hx))]
  | not a iha =>
    simp only [Cond.tests] at hc
    simp only [Cond.map, Cond.eval, iha hc]

theorem exec_mem_S {S : α → Prop} (p : Prog α) :
    ∀ (inp cur : List α), (∀ x ∈ p.sets, S x) → (∀ x ∈ cur, S x) → ∀ x ∈ p.exec inp cur, S x := by
  induction p with
  | done => intro _ _ _ hc; exact hc
  | set f k ih =>
    intro inp cur hp hc
    simp only [Prog.sets, List.mem_cons, forall_eq_or_imp] at hp
    exact ih inp _ hp.2 (mem_addF_S hp.1 hc)
  | unset f k ih =>
    intro inp cur hp hc
    simp only [Prog.sets] at hp
    exact ih inp _ hp (mem_delF_S hc)
  | ite c t e k iht ihe ihk =>
    intro inp cur hp hc
    simp only [Prog.sets, List.mem_append] at hp
    simp only [Prog.exec]
    split
    · exact ihk inp _ (fun x hx => hp x (Or.inr hx)) (iht inp cur (fun x hx => hp x (Or.inl (Or.inl hx))) hc)
    · exact ihk inp _ (fun x hx => hp x (Or.inr hx)) (ihe inp cur (fun x hx => hp x (Or.inl (Or.inr hx))) hc)

theorem sets_sub_mentioned (p : Prog α) : ∀ x ∈ p.sets, x ∈ p.mentioned := by
  induction p with
  | done => intro x hx; cases hx
  | set f k ih =>
    intro x hx
    simp only [Prog.sets, Prog.mentioned, List.mem_cons] at *
    rcases hx with h | h
    · exact Or.inl h
    · exact Or.inr (ih x h)
  | unset f k ih =>
    intro x hx
    simp only [Prog.sets, Prog.mentioned, List.mem_cons] at *
    exact Or.inr (ih x hx)
  | ite c t e k iht ihe ihk =>
    intro x hx
    simp only [Prog.sets, Prog.mentioned, List.mem_append] at *
    rcases hx with (h | h) | h
    · exact Or.inl (Or.inl (iht x h))
    · exact Or.inl (Or.inr (ihe x h))
    · exact Or.inr (ihk x h)

theorem exec_map {φ : α → β} {S : α → Prop} (hinj : InjOn φ S) (p : Prog α) :
    ∀ (inp cur : List α), (∀ x ∈ p.mentioned, S x) → (∀ x ∈ p.tests, S x) → (∀ x ∈ inp, S x) →
      (∀ x ∈ cur, S x) → (p.map φ).exec (inp.map φ) (cur.map φ) = (p.exec inp cur).map φ := by
  induction p with
  | done => intro _ _ _ _ _ _; rfl
  | set f k ih =>
    intro inp cur hm ht hi hc
    simp only [Prog.mentioned, List.mem_cons, forall_eq_or_imp] at hm
    simp only [Prog.tests] at ht
    simp only [Prog.map, Prog.exec]
    rw [← addF_map hinj hm.1 hc]
    exact ih inp _ hm.2 ht hi (mem_addF_S hm.1 hc)
  | unset f k ih =>
    intro inp cur hm ht hi hc
    simp only [Prog.mentioned, List.mem_cons, forall_eq_or_imp] at hm
    simp only [Prog.tests] at ht
    simp only [Prog.map, Prog.exec]
    rw [← delF_map hinj hm.1 hc]
    exact ih inp _ hm.2 ht hi (mem_delF_S hc)
  | ite c t e k iht ihe ihk =>
    intro inp cur hm ht hi hc
    simp only [Prog.mentioned, List.mem_append] at hm
    simp only [Prog.tests, List.mem_append] at ht
    have hcond := cond_eval_map hinj c (fun x hx => ht x (Or.inl (Or.inl (Or.inl hx)))) hi hc
    have hmt : ∀ x ∈ t.mentioned, S x := fun x hx => hm x (Or.inl (Or.inl hx))
    have hme : ∀ x ∈ e.mentioned, S x := fun x hx => hm x (Or.inl (Or.inr hx))
    have hmk : ∀ x ∈ k.mentioned, S x := fun x hx => hm x (Or.inr hx)
    have htt : ∀ x ∈ t.tests, S x := fun x hx => ht x (Or.inl (Or.inl (Or.inr hx)))
    have hte : ∀ x ∈ e.tests, S x := fun x hx => ht x (Or.inl (Or.inr hx))
    have htk : ∀ x ∈ k.tests, S x := fun x hx => ht x (Or.inr hx)
    simp only [Prog.map, Prog.exec, hcond]
    split
    · rw [iht inp cur hmt htt hi hc]
      exact ihk inp _ hmk htk hi
        (exec_mem_S t inp cur (fun x hx => hmt x (sets_sub_mentioned t x hx)) hc)
    · rw [ihe inp cur hme hte hi hc]
      exact ihk inp _ hmk htk hi
        (exec_mem_S e inp cur (fun x hx => hme x (sets_sub_mentioned e x hx)) hc)

/-- restriction of a feature set to the members of a name table agrees with it on the table -/
theorem agree_filter_names (names a : List α) :
    AgreeOn (fun x => x ∈ names) a (a.filter (fun x => names.contains x)) := by
  intro x hx
  simp only [List.mem_filter, List.contains_iff_mem]
  exact ⟨fun h => ⟨h, hx⟩, fun h => h.1⟩

/-- soundness of `neverCheck` evaluated on a renamed copy of the body -/
theorem neverCheck_sound_map {φ : α → β} (names : List α) (hinj : InjOn φ (fun x => x ∈ names)) (p : Prog α)
    (hm : ∀ x ∈ p.mentioned, x ∈ names) (ht : ∀ x ∈ p.tests, x ∈ names) (f : α) (hSf : f ∈ names)
    (blockers : List α) (hbn : ∀ x ∈ blockers, x ∈ names)
    (hchk : (p.map φ).neverCheck (φ f) (blockers.map φ) = true) (a : List α)
    (hbl : ∀ x ∈ blockers, x ∉ a) : f ∉ p.exec a a := by
  let a' := a.filter (fun x => names.contains x)
  have ha' : ∀ x ∈ a', x ∈ names := fun x hx => by
    simpa using (List.mem_filter.1 hx).2
  have ea := exec_congr p (U := fun x => x ∈ names) ht (agree_filter_names names a)
    (agree_filter_names names a) f hSf
  intro hfa
  have h1 : φ f ∈ (p.map φ).exec (a'.map φ) (a'.map φ) := by
    rw [exec_map hinj p a' a' hm ht ha' ha']
    exact List.mem_map.2 ⟨f, ea.1 hfa, rfl⟩
  refine neverCheck_sound (p.map φ) (φ f) (blockers.map φ) hchk (a'.map φ) ?_ h1
  intro y hy hya
  rw [List.mem_map] at hy
  obtain ⟨x, hx, rfl⟩ := hy
  have : x ∈ a' := (mem_map_inj hinj (hbn x hx) ha').1 hya
  exact hbl x hx (List.mem_filter.1 this).1

/-- the index of a feature in a name table is injective on the table's members -/
theorem idxOf_injOn (names : List α) : InjOn (fun x => names.idxOf x) (fun x => x ∈ names) := by
  intro x y hx hy h
  have hx' : names.idxOf x < names.length := List.idxOf_lt_length_iff.2 hx
  have hy' : names.idxOf y < names.length := List.idxOf_lt_length_iff.2 hy
  have e1 := List.getElem_idxOf hx'
  have e2 := List.getElem_idxOf hy'
  simp only at h
  rw [← e1, ← e2]
  congr 1

end rename

/-! ### the model with assertions vs `exec`; kinds of one explicit version; stages; the factory chain -/

/-- when the version assertion cannot fail, `run` computes `exec` -/
theorem run_eq_exec (T : Tables) (ver : Option Nat) (p : Prog Feature) :
    ∀ (inp cur : List Feature), (∀ f ∈ p.sets, ∀ v, ver = some v → added T f ≤ v) →
      p.run T ver inp cur = some (p.exec inp cur) := by
  induction p with
  | done => intro _ _ _; rfl
  | set f k ih =>
    intro inp cur hv
    simp only [Prog.sets, List.mem_cons, forall_eq_or_imp] at hv
    have hok : setOK T ver f = true := by
      unfold setOK
      cases ver with
      | none => rfl
      | some v => simpa using hv.1 v rfl
    simp only [Prog.run, hok, if_true, Prog.exec]
    exact ih inp _ hv.2
  | unset f k ih =>
    intro inp cur hv
    simp only [Prog.sets] at hv
    simp only [Prog.run, Prog.exec]
    exact ih inp _ hv
  | ite c t e k iht ihe ihk =>
    intro inp cur hv
    simp only [Prog.sets, List.mem_append] at hv
    simp only [Prog.run, Prog.exec]
    split
    · rw [iht inp cur (fun f hf => hv f (Or.inl (Or.inl hf)))]
      exact ihk inp _ (fun f hf => hv f (Or.inr hf))
    · rw [ihe inp cur (fun f hf => hv f (Or.inl (Or.inr hf)))]
      exact ihk inp _ (fun f hf => hv f (Or.inr hf))

/-- no feature of the version table is newer than the latest version (decided on the regenerated table) -/
def versionsOK (T : Tables) : Bool :=
  decide (1 ≤ T.latest) && T.versions.all (fun e => decide (e.2.1 ≤ T.latest))

theorem added_le_latest {T : Tables} (h : versionsOK T = true) (f : Feature) : added T f ≤ T.latest := by
  unfold versionsOK at h
  simp only [Bool.and_eq_true, decide_eq_true_eq, List.all_eq_true] at h
  unfold added verInfo
  split
  · rename_i e he
    exact h.2 e (List.mem_of_find?_eq_some he)
  · exact h.1


theorem ver_of_version {T : Tables} {k : Kind} {v : Nat} (h : k.version = some v) : k.ver T = v := by
  unfold Kind.ver; rw [h]

theorem le_iff_v {T : Tables} {a b : Kind} {v : Nat} (ha : a.version = some v) (hb : b.version = some v) :
    a.le T b = true ↔ ∀ f, f ∈ a.feats → isValid T v f = true → f ∈ b.feats := by
  have hab : a.ver T = b.ver T := by rw [ver_of_version ha, ver_of_version hb]
  rw [le_same hab, ver_of_version hb, subset_iff]
  constructor
  · intro h f hf hv
    exact (mem_validPart.1 (h f (mem_validPart.2 ⟨hf, hv⟩))).1
  · intro h f hf
    rw [mem_validPart] at *
    exact ⟨h f hf.1 hf.2, hf.2⟩

theorem le_trans_v {T : Tables} {a b c : Kind} {v : Nat} (ha : a.version = some v) (hb : b.version = some v)
    (hc : c.version = some v) (h1 : a.le T b = true) (h2 : b.le T c = true) : a.le T c = true := by
  rw [le_iff_v ha hb] at h1
  rw [le_iff_v hb hc] at h2
  rw [le_iff_v ha hc]
  intro f hf hv
  exact h2 f (h1 f hf hv) hv

/-- a compiler as the pipeline sees it: the kind its `supports` compares against, and its declared
    kind transformer -/
structure Stage where
  supp : Kind
  res : Kind → Kind

/-- what makes the chaining argument go through, on kinds of the explicit version `v` -/
structure Stage.Good (T : Tables) (v : Nat) (s : Stage) : Prop where
  supp_ver : s.supp.version = some v
  res_ver : ∀ k, k.version = some v → (s.res k).version = some v
  mono : ∀ a b, a.version = some v → b.version = some v → a.le T b = true → (s.res a).le T (s.res b) = true

def stageOf (T : Tables) (d : Decl) : Stage :=
  { supp := supportedOf T d.supports, res := execKind d.resulting }

/-- the body is a monotone function of the feature set -/
def Prog.Monotone (p : Prog Feature) : Prop :=
  ∀ a b : List Feature, (∀ x, x ∈ a → x ∈ b) → ∀ f, f ∈ p.exec a a → f ∈ p.exec b b

/-- `resultingIdx` really is `resulting` with every feature replaced by its index in `names`
    (decided once per class; the only string comparisons the kernel has to do) -/
def Decl.idxOK (d : Decl) : Bool :=
  decide (d.resulting.map (fun x => d.names.idxOf x) = d.resultingIdx) &&
    d.resulting.feats.all (fun x => d.names.contains x)

theorem Decl.idxOK_mem {d : Decl} (h : d.idxOK = true) :
    (∀ x ∈ d.resulting.mentioned, x ∈ d.names) ∧ (∀ x ∈ d.resulting.tests, x ∈ d.names) ∧
    d.resulting.map (fun x => d.names.idxOf x) = d.resultingIdx := by
  unfold Decl.idxOK at h
  simp only [Bool.and_eq_true, decide_eq_true_eq, List.all_eq_true, Prog.feats, List.mem_append,
    List.contains_iff_mem] at h
  exact ⟨fun x hx => h.2 x (Or.inl hx), fun x hx => h.2 x (Or.inr hx), h.1⟩

/-- the syntactic condition proves monotonicity of the body -/
theorem monotone_of_monoB (p : Prog Feature) (h : p.monoB = true) : p.Monotone := by
  intro a b hab f hf
  exact monoB_sound p a b a b h hab hab f hf

/-- the finite "never in the output" check on the indexed copy holds for the body itself -/
theorem decl_never (d : Decl) (hidx : d.idxOK = true) (f : Feature) (hf : f ∈ d.names)
    (blockers : List Feature) (hbn : ∀ x ∈ blockers, x ∈ d.names)
    (hchk : d.resultingIdx.neverCheck (d.names.idxOf f) (blockers.map (fun x => d.names.idxOf x)) = true)
    (a : List Feature) (hbl : ∀ x ∈ blockers, x ∉ a) : f ∉ d.resulting.exec a a := by
  obtain ⟨hm, ht, he⟩ := Decl.idxOK_mem hidx
  exact neverCheck_sound_map d.names (idxOf_injOn d.names) d.resulting hm ht f hf blockers hbn
    (by rw [he]; exact hchk) a hbl

/-- a monotone body that reads only features valid at `v` is monotone for `<=` on kinds of
    version `v` (which ignores features that are not valid at `v`) -/
theorem execKind_mono_le (T : Tables) (p : Prog Feature) (v : Nat) (hmono : p.Monotone)
    (hvalid : ∀ f ∈ p.tests, isValid T v f = true) (a b : Kind) (ha : a.version = some v)
    (hb : b.version = some v) (hle : a.le T b = true) : (execKind p a).le T (execKind p b) = true := by
  have ha' : (execKind p a).version = some v := ha
  have hb' : (execKind p b).version = some v := hb
  rw [le_iff_v ha hb] at hle
  rw [le_iff_v ha' hb']
  intro f hf hv
  -- restrict both inputs to the valid features
  let U : Feature → Prop := fun x => isValid T v x = true
  let a' := validPart T v a.feats
  let b' := validPart T v b.feats
  have haa : AgreeOn U a.feats a' := by
    intro x hx; rw [mem_validPart]; exact ⟨fun h => ⟨h, hx⟩, fun h => h.1⟩
  have hbb : AgreeOn U b.feats b' := by
    intro x hx; rw [mem_validPart]; exact ⟨fun h => ⟨h, hx⟩, fun h => h.1⟩
  have hsub : ∀ x, x ∈ a' → x ∈ b' := by
    intro x hx
    rw [mem_validPart] at *
    exact ⟨hle x hx.1 hx.2, hx.2⟩
  have e1 := exec_congr p (U := U) hvalid haa haa f hv
  have e2 := exec_congr p (U := U) hvalid hbb hbb f hv
  exact e2.2 (hmono a' b' hsub f (e1.1 hf))

theorem stageOf_good (T : Tables) (d : Decl) (hmono : d.resulting.Monotone)
    (hvalid : ∀ f ∈ d.resulting.tests, isValid T T.latest f = true) : (stageOf T d).Good T T.latest :=
  { supp_ver := rfl
    res_ver := fun _ hk => hk
    mono := execKind_mono_le T d.resulting T.latest hmono hvalid }

theorem supportsKind_eq (T : Tables) (hT : versionsOK T = true) (d : Decl) (k : Kind) :
    d.supportsKind T k = some (k.le T (supportedOf T d.supports)) := by
  have h := run_eq_exec T (some T.latest) d.supports [] []
    (fun f _ v hv => by cases hv; exact added_le_latest hT f)
  simp [Decl.supportsKind, kindOfProg, h, supportedOf]

/-- a kind that is already at (or beyond) the latest version is only cloned -/
theorem kindAtLatest_of_le (T : Tables) (k : Kind) (h : T.latest ≤ k.ver T) : kindAtLatest T k = some k := by
  simp [kindAtLatest, h]

/-- on a kind of the latest version every `resulting_problem_kind` body starts from the kind itself -/
theorem startKind_latest (T : Tables) (d : Decl) (k : Kind) (hk : k.version = some T.latest) :
    d.startKind T k = some k := by
  unfold Decl.startKind
  split
  · exact kindAtLatest_of_le T k (by rw [ver_of_version hk]; exact Nat.le_refl _)
  · rfl

theorem resultingKind_eq (T : Tables) (hT : versionsOK T = true) (d : Decl) (k : Kind)
    (hk : k.version = some T.latest) : d.resultingKind T k = some (execKind d.resulting k) := by
  have h := run_eq_exec T k.version d.resulting k.feats k.feats
    (fun f _ v hv => by rw [hk] at hv; cases hv; exact added_le_latest hT f)
  simp [Decl.resultingKind, startKind_latest T d k hk, h, execKind]

/-- what `Factory._get_engine` has established when it returns a pipeline: every stage's compiler
    supports the kind DECLARED for its input -/
def Declared (T : Tables) : List Stage → Kind → Prop
  | [], _ => True
  | s :: ss, d => d.le T s.supp = true ∧ Declared T ss (s.res d)

theorem selectCompiler_some (T : Tables) (ck : String) (k : Kind) :
    ∀ (pref : List (String × Decl)) (n : String) (d : Decl),
      selectCompiler T ck k pref = some (some (n, d)) →
      (n, d) ∈ pref ∧ d.cks.contains ck = true ∧ d.supportsKind T k = some true := by
  intro pref
  induction pref with
  | nil => intro n d h; simp [selectCompiler] at h
  | cons e rest ih =>
    intro n d h
    obtain ⟨n', d'⟩ := e
    unfold selectCompiler at h
    split at h
    · rename_i hck
      split at h
      · cases h
      · rename_i hs
        simp only [Option.some.injEq, Prod.mk.injEq] at h
        obtain ⟨rfl, rfl⟩ := h
        exact ⟨List.mem_cons_self, hck, hs⟩
      · obtain ⟨hm, h2⟩ := ih n d h
        exact ⟨List.mem_cons_of_mem _ hm, h2⟩
    · obtain ⟨hm, h2⟩ := ih n d h
      exact ⟨List.mem_cons_of_mem _ hm, h2⟩

theorem chain_declared (T : Tables) (hT : versionsOK T = true) (pref : List (String × Decl)) :
    ∀ (cks : List String) (k : Kind) (stages : List (String × Decl × Kind)) (fin : Kind),
      k.version = some T.latest → chain T pref k cks = .ok stages fin →
      Declared T (stages.map (fun s => stageOf T s.2.1)) k ∧
      (∀ s ∈ stages, (s.1, s.2.1) ∈ pref) ∧ stages.length = cks.length := by
  intro cks
  induction cks with
  | nil =>
    intro k stages fin _ h
    simp only [chain, Outcome.ok.injEq] at h
    obtain ⟨rfl, _⟩ := h
    simp [Declared]
  | cons ck cks ih =>
    intro k stages fin hk h
    unfold chain at h
    split at h
    · cases h
    · cases h
    · rename_i n d hsel
      obtain ⟨hmem, _, hsup⟩ := selectCompiler_some T ck k pref n d hsel
      rw [resultingKind_eq T hT d k hk] at h
      simp only at h
      split at h
      · rename_i st fin' hrec
        simp only [Outcome.ok.injEq] at h
        obtain ⟨rfl, rfl⟩ := h
        have hk' : (execKind d.resulting k).version = some T.latest := hk
        obtain ⟨hd, hm, hl⟩ := ih (execKind d.resulting k) st fin' hk' hrec
        rw [supportsKind_eq T hT d k] at hsup
        simp only [Option.some.injEq] at hsup
        refine ⟨?_, ?_, ?_⟩
        · simp only [List.map_cons, Declared]
          exact ⟨hsup, hd⟩
        · intro s hs
          rw [List.mem_cons] at hs
          rcases hs with rfl | hs
          · exact hmem
          · exact hm s hs
        · simp [hl]
      · rename_i hne
        cases hchain : chain T pref (execKind d.resulting k) cks with
        | ok st f => exact absurd hchain (hne st f)
        | noSuitable => rw [hchain] at h; cases h
        | assertion => rw [hchain] at h; cases h

/-- per-compiler C09 along the ACTUAL kinds `a, a₁, …, aₙ` of the problems a pipeline produces:
    each compiler, IF it supports its actual input, produces a problem whose kind is within
    what it declares for that input -/
def Compiles (T : Tables) : List Stage → Kind → List Kind → Prop
  | [], _, rest => rest = []
  | _ :: _, _, [] => False
  | s :: ss, a, a' :: as => (a.le T s.supp = true → a'.le T (s.res a) = true) ∧ Compiles T ss a' as

/-- what `CompilersPipeline.compile` checks stage by stage (`engine.supports(new_problem.kind)`) -/
def Accepted (T : Tables) : List Stage → Kind → List Kind → Prop
  | [], _, _ => True
  | _ :: _, _, [] => False
  | s :: ss, a, a' :: as => a.le T s.supp = true ∧ Accepted T ss a' as

/-- the kind `_get_engine` ends with -/
def finalDeclared : List Stage → Kind → Kind
  | [], d => d
  | s :: ss, d => finalDeclared ss (s.res d)

theorem pipeline_accepts (T : Tables) (v : Nat) :
    ∀ (stages : List Stage), (∀ s ∈ stages, s.Good T v) →
    ∀ (d a : Kind) (as : List Kind), d.version = some v → a.version = some v →
      (∀ k ∈ as, k.version = some v) → Declared T stages d → a.le T d = true → Compiles T stages a as →
      Accepted T stages a as ∧ ((a :: as).getLast (List.cons_ne_nil _ _)).le T (finalDeclared stages d) = true := by
  intro stages
  induction stages with
  | nil =>
    intro _ d a as _ _ _ _ hle hc
    simp only [Compiles] at hc
    subst hc
    exact ⟨trivial, by simpa [finalDeclared] using hle⟩
  | cons s ss ih =>
    intro hgood d a as hd ha has hdecl hle hc
    have hs := hgood s List.mem_cons_self
    cases as with
    | nil => exact absurd hc (by simp [Compiles])
    | cons a' as =>
      simp only [Compiles] at hc
      simp only [Declared] at hdecl
      have ha' : a'.version = some v := has a' List.mem_cons_self
      have hsup : a.le T s.supp = true := le_trans_v ha hd hs.supp_ver hle hdecl.1
      have h1 : a'.le T (s.res a) = true := hc.1 hsup
      have h2 : (s.res a).le T (s.res d) = true := hs.mono a d ha hd hle
      have h3 : a'.le T (s.res d) = true :=
        le_trans_v ha' (hs.res_ver a ha) (hs.res_ver d hd) h1 h2
      obtain ⟨hacc, hfin⟩ := ih (fun t ht => hgood t (List.mem_cons_of_mem _ ht)) (s.res d) a' as
        (hs.res_ver d hd) ha' (fun k hk => has k (List.mem_cons_of_mem _ hk)) hdecl.2 h3 hc.2
      refine ⟨⟨hsup, hacc⟩, ?_⟩
      simpa [finalDeclared, List.getLast_cons] using hfin

end UPVerif.KindProg
