import UPVerif.Core.Deorder
/-!
C27: the footprints `Deorder.footprint` computes contain every written fluent among the reads, as in
`_to_partial_order_plan` where the target of each expanded effect goes through
`fve.get(eqr.remove_quantifiers(eff.fluent))` into `required_fluents` — provided the target's arguments
are leaves (objects, parameters, variables), which the quantifier remover leaves untouched.
-/
namespace UPVerif.Deorder
open UPVerif UPVerif.Expr UPVerif.Sim

def isLeaf : Expr → Bool
  | .leaf _ => true
  | _ => false

/-- a fluent application all of whose arguments are leaves -/
def leafArgs : Expr → Bool
  | .app (.fluent _) args => args.all isLeaf
  | _ => false

/-- the targets of all expanded effects of the action have leaf arguments -/
def simpleTargets (P : Problem) (a : Action) : Bool := (expanded P a).all (fun e => leafArgs e.fluent)

theorem removeQuantifiersList_leaves (P : Problem) : ∀ (args : List Expr), args.all isLeaf = true →
    removeQuantifiersList P args = args
  | [], _ => rfl
  | a :: as, h => by
    simp only [List.all_cons, Bool.and_eq_true] at h
    cases a with
    | leaf l => simp only [removeQuantifiersList, removeQuantifiers, removeQuantifiersList_leaves P as h.2]
    | app _ _ => simp [isLeaf] at h
    | quant _ _ _ => simp [isLeaf] at h

theorem removeQuantifiers_leafArgs (P : Problem) {e : Expr} (h : leafArgs e = true) :
    removeQuantifiers P e = e ∧ e ∈ fluentExps e := by
  unfold leafArgs at h
  split at h
  · rename_i f args
    refine ⟨?_, by simp [fluentExps]⟩
    simp only [removeQuantifiers, removeQuantifiersList_leaves P args h]
    rfl
  · cases h

theorem footprint_wsub {W : World} {invs : List (List Expr)} {a : Action} {args : List String}
    {fp : Footprint Expr} (h : footprint W invs a args = .ok fp)
    (hl : simpleTargets W.P a = true) : ∀ k ∈ fp.writes, k ∈ fp.reads := by
  unfold footprint at h
  dsimp only at h
  split at h
  · cases h
    intro k hk
    simp only [List.mem_map] at hk
    obtain ⟨e, he, rfl⟩ := hk
    simp only [List.mem_append, List.mem_map]
    left
    refine ⟨e.fluent, ?_, rfl⟩
    unfold simpleTargets at hl
    rw [List.all_eq_true] at hl
    obtain ⟨h1, h2⟩ := removeQuantifiers_leafArgs W.P (hl e he)
    unfold expanded at he
    rw [List.mem_flatMap] at he
    obtain ⟨eff, heff, he'⟩ := he
    unfold liftedRequired
    simp only [List.mem_append, List.mem_flatMap]
    right
    refine ⟨eff, heff, e, he', ?_⟩
    left; right
    rw [h1]; exact h2
  · cases h

theorem footprintsGo_wsub {W : World} {invs : List (List Expr)} : ∀ {π : List (Action × List String)}
    {fps : List (Footprint Expr)}, footprintsGo W invs π = .ok fps →
    (∀ st ∈ π, simpleTargets W.P st.1 = true) → ∀ fp ∈ fps, ∀ k ∈ fp.writes, k ∈ fp.reads
  | [], fps, h, _ => by
    simp only [footprintsGo] at h
    cases h
    intro fp hfp; cases hfp
  | st :: rest, fps, h, hl => by
    simp only [footprintsGo] at h
    split at h
    · cases h
    · rename_i fp hfp
      split at h
      · cases h
      · rename_i r hr
        cases h
        intro fp' hfp'
        simp only [List.mem_cons] at hfp'
        rcases hfp' with rfl | hfp'
        · exact footprint_wsub hfp (hl st (by simp))
        · exact footprintsGo_wsub hr (fun s hs => hl s (by simp [hs])) fp' hfp'

/-- every footprint the model computes lists its written fluents among its reads -/
theorem footprints_wsub {W : World} {π : List (Action × List String)} {fps : List (Footprint Expr)}
    (h : footprints W π = .ok fps) (hl : ∀ st ∈ π, simpleTargets W.P st.1 = true) :
    ∀ fp ∈ fps, ∀ k ∈ fp.writes, k ∈ fp.reads := by
  unfold footprints at h
  split at h
  · cases h
  · exact footprintsGo_wsub h hl

end UPVerif.Deorder
