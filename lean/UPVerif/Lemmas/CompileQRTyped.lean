import UPVerif.Lemmas.CompileQR
import UPVerif.Lemmas.CompileCER
/-!
QuantifiersRemover, part 5: a DECIDABLE sufficient condition for the strict-definedness hypothesis of the
QuantifiersRemover theorems — typed (ADL + numeric, division-free) problems.

If every fluent is Boolean or numeric with a constant default of its sort, and preconditions, goals, effect
conditions and values are built from constants, fluent applications on objects / bound variables, `+ - *`,
comparisons, object equalities, `and / or / not / implies / iff` and quantifiers (`bfrag`, `nfrag`,
Core/Compile/Hyps.lean), then every reachable state gives every ground fluent a value of its sort (`TypedState`) and
every such expression has a value in the reference denotation: nothing is ever undefined.
-/
namespace UPVerif.Compile
open UPVerif UPVerif.Expr UPVerif.Sim UPVerif.Spec UPVerif.Simp UPVerif.Simulation

/-- every ground instance of the fluents `D` has a value of the fluent's sort -/
def TypedState (D : List FluentRef) (g : St) : Prop :=
  ∀ f ∈ D, ∀ vs, (f.ty = .bool → ∃ b, g (f, vs) = some (.b b)) ∧ (isNumTy f.ty = true → ∃ q, g (f, vs) = some (.n q))

theorem mem_asgV {F : List Fired} {k : GKey} {v : Val} (h : v ∈ asgV F k) : Fired.setV k v ∈ F := by
  unfold asgV at h
  rw [List.mem_filterMap] at h
  obtain ⟨f, hf, hs⟩ := h
  cases f with
  | setB k' b => simp [selV] at hs
  | delta k' d => simp [selV] at hs
  | setV k' w =>
    simp only [selV] at hs
    split at hs
    · rename_i hk; cases hs; rw [← hk]; exact hf
    · cases hs

theorem mem_asgB' {F : List Fired} {k : GKey} {b : Bool} (h : b ∈ asgB F k) : Fired.setB k b ∈ F := by
  unfold asgB at h
  rw [List.mem_filterMap] at h
  obtain ⟨f, hf, hs⟩ := h
  cases f with
  | setV k' w => simp [selB] at hs
  | delta k' d => simp [selB] at hs
  | setB k' w =>
    simp only [selB] at hs
    split at hs
    · rename_i hk; cases hs; rw [← hk]; exact hf
    · cases hs

/-! ### the typed fragment has values -/

section
variable {ι : Interp} {D : List FluentRef}

theorem objTerms_den {B : List Var} {ρ : VEnv} (hρ : ∀ x ∈ B, ∃ n, VEnv.get ρ x = some (.o n)) :
    ∀ args : List Expr, args.all (objTerm B) = true →
      ∃ ns : List String, denList ι ρ args = some (ns.map Val.o)
  | [], _ => ⟨[], by rw [denList_nil]; rfl⟩
  | a :: as, h => by
    simp only [List.all_cons, Bool.and_eq_true] at h
    obtain ⟨ns, hns⟩ := objTerms_den hρ as h.2
    have ha : ∃ n, den ι ρ a = some (.o n) := by
      cases a with
      | leaf l =>
        cases l <;> simp only [objTerm, Bool.false_eq_true, false_and] at h
        · exact ⟨_, rfl⟩
        · rename_i v
          obtain ⟨n, hn⟩ := hρ v (by simpa using h.1)
          exact ⟨n, by rw [den_leaf]; exact hn⟩
      | app op args => simp [objTerm] at h
      | quant q vs b => simp [objTerm] at h
    obtain ⟨n, hn⟩ := ha
    exact ⟨n :: ns, denList_cons_some.2 ⟨_, _, hn, hns, rfl⟩⟩

theorem denBools_of_all {ρ : VEnv} : ∀ es : List Expr, (∀ e ∈ es, ∃ b, den ι ρ e = some (.b b)) →
    ∃ xs, denBools ι ρ es = some xs
  | [], _ => ⟨[], denBools_nil _ _⟩
  | e :: es, h => by
    obtain ⟨b, hb⟩ := h e (List.mem_cons_self ..)
    obtain ⟨xs, hxs⟩ := denBools_of_all es (fun x hx => h x (List.mem_cons_of_mem _ hx))
    exact ⟨b :: xs, denBools_cons.2 ⟨b, xs, hb, hxs, rfl⟩⟩

theorem denNums_of_all {ρ : VEnv} : ∀ es : List Expr, (∀ e ∈ es, ∃ q, den ι ρ e = some (.n q)) →
    ∃ qs : List Rat, denList ι ρ es = some (qs.map Val.n) ∧ allNums (qs.map Val.n) = some qs
  | [], _ => ⟨[], by rw [denList_nil]; rfl, rfl⟩
  | e :: es, h => by
    obtain ⟨q, hq⟩ := h e (List.mem_cons_self ..)
    obtain ⟨qs, hqs, hall⟩ := denNums_of_all es (fun x hx => h x (List.mem_cons_of_mem _ hx))
    exact ⟨q :: qs, denList_cons_some.2 ⟨_, _, hq, hqs, rfl⟩, by simp [allNums, hall]⟩

theorem bfragList_iff {B : List Var} {es : List Expr} : bfragList D B es = true ↔ ∀ e ∈ es, bfrag D B e = true := by
  induction es with
  | nil => simp [bfragList]
  | cons x xs ih => simp [bfragList, ih]

theorem nfragList_iff {B : List Var} {es : List Expr} : nfragList D B es = true ↔ ∀ e ∈ es, nfrag D B e = true := by
  induction es with
  | nil => simp [nfragList]
  | cons x xs ih => simp [nfragList, ih]

theorem size_mem_le : ∀ (args : List Expr) (n : Nat), Expr.sizeList args ≤ n → ∀ x ∈ args, x.size ≤ n
  | [], _, _, x, hx => by cases hx
  | y :: ys, n, hs, x, hx => by
    simp only [Expr.sizeList] at hs
    rcases List.mem_cons.1 hx with rfl | hx'
    · omega
    · exact size_mem_le ys n (by omega) x hx'

/-- every numeric term of the fragment has a numeric value -/
theorem nfrag_def (hflN : ∀ f ∈ D, isNumTy f.ty = true → ∀ vs, ∃ q, ι.fl f vs = some (.n q))
    {B : List Var} {ρ : VEnv} (hρ : ∀ x ∈ B, ∃ m, VEnv.get ρ x = some (.o m)) :
    ∀ n (e : Expr), e.size ≤ n → nfrag D B e = true → ∃ q, den ι ρ e = some (.n q) := by
  intro n
  induction n with
  | zero => intro e he; cases e <;> simp [Expr.size] at he
  | succ n ih =>
    intro e he hb
    cases e with
    | leaf l =>
      cases l <;> simp only [nfrag, Bool.false_eq_true] at hb
      · exact ⟨_, rfl⟩
      · exact ⟨_, rfl⟩
    | quant q vs b => simp [nfrag] at hb
    | app op args =>
      simp only [Expr.size] at he
      have hsz := size_mem_le args n (by omega)
      have hargs : nfragList D B args = true → ∀ x ∈ args, ∃ q, den ι ρ x = some (.n q) := by
        intro hl x hx
        exact ih x (hsz x hx) (nfragList_iff.1 hl x hx)
      cases op <;> simp only [nfrag, Bool.false_eq_true] at hb
      · -- fluent
        rename_i f
        simp only [Bool.and_eq_true] at hb
        obtain ⟨ns, hns⟩ := objTerms_den (ι := ι) hρ args hb.2
        obtain ⟨q, hfq⟩ := hflN f (by simpa using hb.1.1) hb.1.2 (ns.map Val.o)
        exact ⟨q, den_app_some.2 ⟨_, hns, hfq⟩⟩
      · -- plus
        obtain ⟨qs, hqs, hall⟩ := denNums_of_all args (hargs hb)
        exact ⟨qs.foldl (· + ·) 0, den_app_some.2 ⟨_, hqs, by simp [denOp, hall]⟩⟩
      · -- minus
        simp only [Bool.and_eq_true, beq_iff_eq] at hb
        match args, hb with
        | [a, b], hb =>
          obtain ⟨x, hx⟩ := hargs hb.2 a (List.mem_cons_self ..)
          obtain ⟨y, hy⟩ := hargs hb.2 b (List.mem_cons_of_mem _ (List.mem_cons_self ..))
          exact ⟨_, den_app_some.2 ⟨[.n x, .n y],
            denList_cons_some.2 ⟨_, _, hx, denList_cons_some.2 ⟨_, _, hy, denList_nil _ _, rfl⟩, rfl⟩, rfl⟩⟩
      · -- times
        obtain ⟨qs, hqs, hall⟩ := denNums_of_all args (hargs hb)
        exact ⟨qs.foldl (· * ·) 1, den_app_some.2 ⟨_, hqs, by simp [denOp, hall]⟩⟩

/-- every Boolean expression of the fragment has a Boolean value -/
theorem bfrag_def (hflB : ∀ f ∈ D, f.ty = .bool → ∀ vs, ∃ b, ι.fl f vs = some (.b b))
    (hflN : ∀ f ∈ D, isNumTy f.ty = true → ∀ vs, ∃ q, ι.fl f vs = some (.n q))
    (hdom : ∀ t, ∀ v ∈ ι.dom t, ∃ n, v = Val.o n) :
    ∀ n (e : Expr), e.size ≤ n → ∀ (B : List Var) (ρ : VEnv), bfrag D B e = true →
      (∀ x ∈ B, ∃ m, VEnv.get ρ x = some (.o m)) → ∃ b, den ι ρ e = some (.b b) := by
  intro n
  induction n with
  | zero => intro e he; cases e <;> simp [Expr.size] at he
  | succ n ih =>
    intro e he B ρ hb hρ
    cases e with
    | leaf l =>
      cases l <;> simp only [bfrag, Bool.false_eq_true] at hb
      exact ⟨_, rfl⟩
    | quant q vs b =>
      simp only [Expr.size] at he
      simp only [bfrag] at hb
      rw [den_quant]
      have hall : ∀ a, a ∈ assignments ι vs → ∃ x, den ι (a ++ ρ) b = some (.b x) := by
        intro a ha
        apply ih b (by omega) (vs ++ B) (a ++ ρ) hb
        intro x hx
        rw [VEnv.get_append]
        by_cases hxv : x ∈ vs
        · have hs := VEnv.get_isSome_of_mem a x (by rw [assignments_keys ι vs a ha]; exact hxv)
          cases hax : VEnv.get a x with
          | none => rw [hax] at hs; cases hs
          | some w =>
            obtain ⟨m, hm⟩ := hdom _ w (assignments_get_dom ha x w hax)
            exact ⟨m, by rw [hm]; rfl⟩
        · rw [VEnv.get_eq_none_of_not_mem a x (by rw [assignments_keys ι vs a ha]; exact hxv)]
          have : x ∈ B := by
            rcases List.mem_append.1 hx with h | h
            · exact absurd h hxv
            · exact h
          obtain ⟨m, hm⟩ := hρ x this
          exact ⟨m, by rw [hm]; rfl⟩
      obtain ⟨bs, hbs, _, _⟩ := allBoolsOpt_map_some (fun a => den ι (a ++ ρ) b) (assignments ι vs) hall
      rw [hbs]
      exact ⟨_, rfl⟩
    | app op args =>
      simp only [Expr.size] at he
      have hsz := size_mem_le args n (by omega)
      have hargs : bfragList D B args = true → ∀ x ∈ args, ∃ b, den ι ρ x = some (.b b) := by
        intro hl x hx
        exact ih x (hsz x hx) B ρ (bfragList_iff.1 hl x hx) hρ
      have hnums : nfragList D B args = true → ∀ x ∈ args, ∃ q, den ι ρ x = some (.n q) := by
        intro hl x hx
        exact nfrag_def hflN hρ x.size x (Nat.le_refl _) (nfragList_iff.1 hl x hx)
      have hcmp : ∀ {o : Op} (hop : ∀ x y : Rat, ∃ r, denOp ι o [.n x, .n y] = some (.b r)),
          args.length = 2 → nfragList D B args = true → ∃ b, den ι ρ (.app o args) = some (.b b) := by
        intro o hop hlen hl
        match args, hlen, hl, hnums with
        | [a, b], _, hl, hnums =>
          obtain ⟨x, hx⟩ := hnums hl a (List.mem_cons_self ..)
          obtain ⟨y, hy⟩ := hnums hl b (List.mem_cons_of_mem _ (List.mem_cons_self ..))
          obtain ⟨r, hr⟩ := hop x y
          exact ⟨r, den_app_some.2 ⟨[.n x, .n y],
            denList_cons_some.2 ⟨_, _, hx, denList_cons_some.2 ⟨_, _, hy, denList_nil _ _, rfl⟩, rfl⟩, hr⟩⟩
      cases op <;> simp only [bfrag, Bool.false_eq_true] at hb
      · -- and
        obtain ⟨xs, hxs⟩ := denBools_of_all args (hargs hb)
        exact ⟨_, den_and_some.2 ⟨xs, hxs, rfl⟩⟩
      · -- or
        obtain ⟨xs, hxs⟩ := denBools_of_all args (hargs hb)
        exact ⟨_, den_or_some.2 ⟨xs, hxs, rfl⟩⟩
      · -- not
        simp only [Bool.and_eq_true, beq_iff_eq] at hb
        match args, hb with
        | [a], hb =>
          obtain ⟨x, hx⟩ := hargs hb.2 a (List.mem_cons_self ..)
          exact ⟨_, den_not_some.2 ⟨x, hx, rfl⟩⟩
      · -- implies
        simp only [Bool.and_eq_true, beq_iff_eq] at hb
        match args, hb with
        | [a, b], hb =>
          obtain ⟨x, hx⟩ := hargs hb.2 a (List.mem_cons_self ..)
          obtain ⟨y, hy⟩ := hargs hb.2 b (List.mem_cons_of_mem _ (List.mem_cons_self ..))
          exact ⟨_, den_app_some.2 ⟨[.b x, .b y],
            denList_cons_some.2 ⟨_, _, hx, denList_cons_some.2 ⟨_, _, hy, denList_nil _ _, rfl⟩, rfl⟩, rfl⟩⟩
      · -- iff
        simp only [Bool.and_eq_true, beq_iff_eq] at hb
        match args, hb with
        | [a, b], hb =>
          obtain ⟨x, hx⟩ := hargs hb.2 a (List.mem_cons_self ..)
          obtain ⟨y, hy⟩ := hargs hb.2 b (List.mem_cons_of_mem _ (List.mem_cons_self ..))
          exact ⟨_, den_app_some.2 ⟨[.b x, .b y],
            denList_cons_some.2 ⟨_, _, hx, denList_cons_some.2 ⟨_, _, hy, denList_nil _ _, rfl⟩, rfl⟩, rfl⟩⟩
      · -- fluent
        rename_i f
        simp only [Bool.and_eq_true, beq_iff_eq] at hb
        obtain ⟨ns, hns⟩ := objTerms_den (ι := ι) hρ args hb.2
        obtain ⟨b, hfb⟩ := hflB f (by simpa using hb.1.1) hb.1.2 (ns.map Val.o)
        exact ⟨b, den_app_some.2 ⟨_, hns, hfb⟩⟩
      · -- le
        simp only [Bool.and_eq_true, beq_iff_eq] at hb
        exact hcmp (fun x y => ⟨_, rfl⟩) hb.1 hb.2
      · -- lt
        simp only [Bool.and_eq_true, beq_iff_eq] at hb
        exact hcmp (fun x y => ⟨_, rfl⟩) hb.1 hb.2
      · -- eq
        simp only [Bool.and_eq_true, beq_iff_eq, Bool.or_eq_true] at hb
        rcases hb.2 with hobj | hnum
        · match args, hb.1, hobj with
          | [a, b], _, hobj =>
            obtain ⟨ns, hns⟩ := objTerms_den (ι := ι) hρ [a, b] hobj
            match ns, hns with
            | [x, y], hns => exact ⟨_, den_app_some.2 ⟨_, hns, rfl⟩⟩
            | [], hns =>
              obtain ⟨_, _, _, _, h⟩ := denList_cons_some.1 hns; cases h
            | [x], hns =>
              obtain ⟨_, _, _, h2, h⟩ := denList_cons_some.1 hns
              obtain ⟨_, _, _, _, h'⟩ := denList_cons_some.1 h2
              subst h'; cases h
            | x :: y :: z :: r, hns =>
              obtain ⟨_, _, _, h2, h⟩ := denList_cons_some.1 hns
              obtain ⟨_, _, _, h3, h'⟩ := denList_cons_some.1 h2
              rw [denList_nil] at h3; cases h3
              subst h'; cases h
        · exact hcmp (fun x y => ⟨_, rfl⟩) hb.1 hnum

end

/-! ### numeric terms contain no quantifier -/

theorem nfrag_qNodup {D : List FluentRef} {B : List Var} :
    ∀ n (e : Expr), e.size ≤ n → nfrag D B e = true → qNodup e = true := by
  intro n
  induction n with
  | zero => intro e he; cases e <;> simp [Expr.size] at he
  | succ n ih =>
    intro e he hb
    cases e with
    | leaf l => rfl
    | quant q vs b => simp [nfrag] at hb
    | app op args =>
      simp only [Expr.size] at he
      simp only [qNodup]
      have hsz := size_mem_le args n (by omega)
      have hl : nfragList D B args = true → qNodupList args = true := by
        intro h
        rw [qNodupList_iff]
        intro x hx
        exact ih x (hsz x hx) (nfragList_iff.1 h x hx)
      have hobj : args.all (objTerm B) = true → qNodupList args = true := by
        intro h
        rw [qNodupList_iff]
        intro x hx
        have := List.all_eq_true.1 h x hx
        cases x with
        | leaf l => rfl
        | app o a => simp [objTerm] at this
        | quant q v b => simp [objTerm] at this
      cases op <;> simp only [nfrag, Bool.false_eq_true, Bool.and_eq_true] at hb
      · exact hobj hb.2
      · exact hl hb
      · exact hl hb.2
      · exact hl hb

/-! ### typed problems -/

/-- a typed (ADL + numeric, division-free) problem — every clause is decidable -/
structure TypedProblem (W : World) : Prop where
  /-- every fluent is Boolean or numeric and has a constant default value of its sort -/
  fluents : ∀ d ∈ W.P.fluents, (d.ref.ty = .bool ∧ (d.default.bind boolConst?).isSome = true) ∨
    (isNumTy d.ref.ty = true ∧ (d.default.bind num?).isSome = true)
  /-- explicit initial values are constants of the sort of their fluent -/
  init : ∀ fv ∈ W.P.init, initSorted fv = true
  pre : ∀ a ∈ W.P.actions, ∀ p ∈ a.pre, bfrag (declared W.P) [] p = true
  /-- effect instances: Boolean condition, ground target, value of the target's sort -/
  effs : ∀ a ∈ W.P.actions, ∀ x ∈ expandEffs W.P a.effs,
    bfrag (declared W.P) [] x.cond = true ∧ effSorted (declared W.P) x = true
  goals : ∀ e ∈ W.P.goals, bfrag (declared W.P) [] e = true

theorem boolConst_constVal {e : Expr} {b : Bool} (h : boolConst? e = some b) : constVal? e = some (.b b) := by
  cases e with
  | leaf l => cases l <;> simp [boolConst?] at h; subst h; rfl
  | app op as => simp [boolConst?] at h
  | quant q vs x => simp [boolConst?] at h

theorem num_constVal {e : Expr} (h : (num? e).isSome = true) : ∃ q, constVal? e = some (.n q) := by
  cases e with
  | leaf l => cases l <;> simp [num?] at h <;> exact ⟨_, rfl⟩
  | app op as => simp [num?] at h
  | quant q vs x => simp [num?] at h

theorem lookup_mem {α β : Type} [BEq α] [LawfulBEq α] {k : α} {v : β} : ∀ {l : List (α × β)}, l.lookup k = some v → (k, v) ∈ l
  | [], h => by simp at h
  | (k', v') :: rest, h => by
    rw [List.lookup_cons] at h
    by_cases hk : k == k'
    · simp only [hk] at h
      cases h
      have : k = k' := by simpa using hk
      subst this
      exact List.mem_cons_self ..
    · have hk' : (k == k') = false := by simpa using hk
      simp only [hk'] at h
      exact List.mem_cons_of_mem _ (lookup_mem h)

section
variable {W : World}

theorem typedState_init (hb : TypedProblem W) {g : St} (h : initOf W = some g) : TypedState (declared W.P) g := by
  obtain ⟨s0, hs0, rfl, _⟩ := initOf_eq h
  intro f hf vs
  unfold SimState.get
  cases hl : s0.vals.lookup (f, vs) with
  | some v =>
    dsimp only
    have hm := lookup_mem hl
    rw [initialState_eq] at hs0
    cases hmm : W.P.init.mapM initPair with
    | none => rw [hmm] at hs0; cases hs0
    | some l =>
      rw [hmm] at hs0
      cases hs0
      obtain ⟨fv, hfv, hp⟩ := mapM_mem hmm _ hm
      have hsort := hb.init fv hfv
      unfold initPair at hp
      unfold initSorted at hsort
      cases hk : keyOf? fv.1 with
      | none => rw [hk] at hp; cases hp
      | some k =>
        cases hv : constVal? fv.2 with
        | none => rw [hk, hv] at hp; cases hp
        | some w =>
          rw [hk, hv] at hp
          cases hp
          rw [hk] at hsort
          simp only [Bool.or_eq_true, Bool.and_eq_true, beq_iff_eq] at hsort
          constructor
          · intro hfb
            rcases hsort with ⟨_, hbc⟩ | ⟨hnum, _⟩
            · cases hbc' : boolConst? fv.2 with
              | none => rw [hbc'] at hbc; cases hbc
              | some b =>
                rw [boolConst_constVal hbc'] at hv
                cases hv
                exact ⟨b, rfl⟩
            · have : f.ty = Ty.bool := hfb
              rw [this] at hnum; cases hnum
          · intro hfn
            rcases hsort with ⟨hbool, _⟩ | ⟨_, hnc⟩
            · have : f.ty = Ty.bool := hbool
              rw [this] at hfn; cases hfn
            · obtain ⟨q, hq⟩ := num_constVal hnc
              rw [hq] at hv
              cases hv
              exact ⟨q, rfl⟩
  | none =>
    dsimp only
    unfold defaultOf
    unfold declared at hf
    obtain ⟨d0, hd0, hd0f⟩ := List.mem_map.1 hf
    cases hfind : W.P.fluents.find? (fun d => d.ref == f) with
    | none =>
      have := List.find?_eq_none.1 hfind d0 hd0
      simp [hd0f] at this
    | some d =>
      have hd := List.mem_of_find?_eq_some hfind
      have hdf : d.ref = f := by
        have := List.find?_some hfind
        simpa using this
      simp only [Option.bind_some]
      rcases hb.fluents d hd with ⟨hty, hdef⟩ | ⟨hty, hdef⟩
      · constructor
        · intro _
          cases hdd : d.default with
          | none => rw [hdd] at hdef; cases hdef
          | some e =>
            rw [hdd] at hdef
            simp only [Option.bind_some] at hdef ⊢
            cases hbc : boolConst? e with
            | none => rw [hbc] at hdef; cases hdef
            | some b => exact ⟨b, boolConst_constVal hbc⟩
        · intro hfn
          rw [← hdf, hty] at hfn; cases hfn
      · constructor
        · intro hfb
          rw [← hdf] at hfb
          rw [hfb] at hty; cases hty
        · intro _
          cases hdd : d.default with
          | none => rw [hdd] at hdef; cases hdef
          | some e =>
            rw [hdd] at hdef
            simp only [Option.bind_some] at hdef ⊢
            exact num_constVal hdef

theorem ctx_fl (g : St) (f : FluentRef) (vs : List Val) : (ctxInterp (ctxOf W g)).fl f vs = g (f, vs) := rfl

theorem ctx_dom_obj (g : St) : ∀ t, ∀ v ∈ (ctxInterp (ctxOf W g)).dom t, ∃ n, v = Val.o n := by
  intro t v hv
  rw [ctx_dom] at hv
  obtain ⟨n, _, rfl⟩ := List.mem_map.1 hv
  exact ⟨n, rfl⟩

/-- in a typed state every Boolean expression of the fragment is strictly defined -/
theorem defAt_of_bfrag {g : St} (hg : TypedState (declared W.P) g) {e : Expr}
    (he : bfrag (declared W.P) [] e = true) : DefAt W g e := by
  obtain ⟨b, hb⟩ := bfrag_def (ι := ctxInterp (ctxOf W g)) (fun f hf hty vs => (hg f hf vs).1 hty)
    (fun f hf hty vs => (hg f hf vs).2 hty) (ctx_dom_obj g) e.size e (Nat.le_refl _) [] [] he
    (fun x hx => by cases hx)
  exact ⟨_, hb⟩

/-- … and every numeric term has a numeric value -/
theorem num_of_nfrag {g : St} (hg : TypedState (declared W.P) g) {e : Expr}
    (he : nfrag (declared W.P) [] e = true) : ∃ q, den (ctxInterp (ctxOf W g)) [] e = some (.n q) :=
  nfrag_def (ι := ctxInterp (ctxOf W g)) (fun f hf hty vs => (hg f hf vs).2 hty) (fun x hx => by cases hx)
    e.size e (Nat.le_refl _) he

theorem evalEff_setV {c : EvalCtx} {x : Effect} {k : GKey} {v : Val} (h : evalEff c x = .ok (some (.setV k v))) :
    ∃ f args vs, x.fluent = .app (.fluent f) args ∧ evalArgs c args = .ok vs ∧ k = (f, vs) ∧
      eval c [] x.value = .ok v := by
  obtain ⟨fl, va, cnd, kd, fa⟩ := x
  cases fl with
  | leaf l => simp [evalEff] at h
  | quant q vs b => simp [evalEff] at h
  | app op args =>
    cases op <;> try (simp [evalEff] at h; done)
    rename_i f
    rw [evalEff_fluent] at h
    cases hargs : evalArgs c args with
    | error e => rw [hargs] at h; cases h
    | ok vs =>
      rw [hargs] at h
      dsimp only at h
      refine ⟨f, args, vs, rfl, hargs, ?_⟩
      unfold effResult at h
      dsimp only at h
      split at h
      · cases h
      · cases h
      · split at h
        · cases h
        · rename_i w hw
          split at h
          · split at h
            · split at h
              · cases h
              · cases h
            · cases h; exact ⟨rfl, hw⟩
          · split at h <;> cases h
          · split at h <;> cases h

/-- typed states are closed under the steps of a typed problem -/
theorem succGet_typedState (hb : TypedProblem W) {a : Action} (ha : a ∈ W.P.actions) {g : St} {F : List Fired}
    (hg : TypedState (declared W.P) g) (hF : fired (ctxOf W g) (expandEffs W.P a.effs) = some F) (hc : Cons g F) :
    TypedState (declared W.P) (succGet g F) := by
  intro f hf vs
  obtain ⟨hgb, hgn⟩ := hg f hf vs
  have hsorted := fired_sorted hF
  constructor
  · intro hty
    obtain ⟨b, hb'⟩ := hgb hty
    unfold succGet newVal
    by_cases hB : asgB F (f, vs) ≠ []
    · rw [if_pos hB]; exact ⟨_, rfl⟩
    · rw [if_neg hB]
      cases hV : asgV F (f, vs) with
      | cons v rest =>
        exfalso
        have hm : Fired.setV (f, vs) v ∈ F := mem_asgV (by rw [hV]; exact List.mem_cons_self ..)
        exact hsorted _ hm hty
      | nil =>
        dsimp only
        by_cases hDl : deltas F (f, vs) ≠ []
        · exfalso
          obtain ⟨q, hq⟩ := ((cons_iff g F).1 hc (f, vs)).2.2 hDl
          rw [hb'] at hq; cases hq
        · rw [if_neg hDl]
          exact ⟨b, hb'⟩
  · intro hty
    obtain ⟨q, hq⟩ := hgn hty
    unfold succGet newVal
    have hB : ¬ asgB F (f, vs) ≠ [] := by
      intro hne
      cases hl : asgB F (f, vs) with
      | nil => exact hne hl
      | cons b rest =>
        have hm : Fired.setB (f, vs) b ∈ F := mem_asgB' (by rw [hl]; exact List.mem_cons_self ..)
        have hbool : f.ty = Ty.bool := hsorted _ hm
        rw [hbool] at hty; cases hty
    rw [if_neg hB]
    cases hV : asgV F (f, vs) with
    | cons v rest =>
      dsimp only
      -- the assigned value is the value of a numeric term of the fragment
      have hm : Fired.setV (f, vs) v ∈ F := mem_asgV (by rw [hV]; exact List.mem_cons_self ..)
      rw [fired_eq] at hF
      split at hF
      · cases hF
        rw [List.mem_filterMap] at hm
        obtain ⟨x, hx, hsel⟩ := hm
        unfold effSel at hsel
        cases hev : evalEff (ctxOf W g) x with
        | error e => rw [hev] at hsel; cases hsel
        | ok o =>
          cases o with
          | none => rw [hev] at hsel; cases hsel
          | some f' =>
            rw [hev] at hsel
            cases hsel
            obtain ⟨f0, args, vs0, hfl, _, hk, hval⟩ := evalEff_setV hev
            cases hk
            obtain ⟨_, hes⟩ := hb.effs a ha x hx
            unfold effSorted at hes
            rw [hfl] at hes
            simp only [keyOf?] at hes
            cases hargs : args.mapM constVal? with
            | none => rw [hargs] at hes; simp at hes
            | some vs1 =>
              rw [hargs] at hes
              simp only [Option.map_some, Bool.or_eq_true, Bool.and_eq_true, beq_iff_eq] at hes
              rcases hes with ⟨hbool, _⟩ | ⟨_, hnf⟩
              · rw [hbool] at hty; cases hty
              · obtain ⟨q', hq'⟩ := num_of_nfrag hg hnf
                have := (den_eval (ctxOf W g)).1 x.value [] _ (nfrag_qNodup x.value.size x.value (Nat.le_refl _) hnf) hq'
                rw [this] at hval
                cases hval
                exact ⟨q', rfl⟩
      · cases hF
    | nil =>
      dsimp only
      by_cases hDl : deltas F (f, vs) ≠ []
      · rw [if_pos hDl, hq]
        exact ⟨_, rfl⟩
      · rw [if_neg hDl]
        exact ⟨q, hq⟩

theorem typedState_reach (hb : TypedProblem W) {g : St} (h : Reach W g) : TypedState (declared W.P) g := by
  refine Reach.inv (D := TypedState (declared W.P)) (fun g0 h0 => typedState_init hb h0) ?_ h
  intro g1 i g2 h1 hstep
  obtain ⟨a, ha, hst⟩ := tsOf_step hstep
  unfold stepAct at hst
  split at hst
  · obtain ⟨F, hF, hc, _, rfl⟩ := succOf_some_fired hst
    exact succGet_typedState hb (List.mem_of_getElem? ha) h1 hF hc
  · cases hst

/-- typed problems satisfy the strict-definedness hypothesis of the QuantifiersRemover theorems -/
theorem typed_defined (simp : Expr → Expr) (hb : TypedProblem W) : ∀ g, Reach W g →
    (∀ a ∈ W.P.actions, a.params.isEmpty = true → DefAct simp W g a) ∧ ∀ e ∈ W.P.goals, DefAt W g e := by
  intro g hr
  have hg := typedState_reach hb hr
  refine ⟨?_, fun e he => defAt_of_bfrag hg (hb.goals e he)⟩
  intro a ha _
  refine ⟨fun p hp => defAt_of_bfrag hg (hb.pre a ha p hp), ?_⟩
  intro _ x hx
  obtain ⟨h1, h2⟩ := hb.effs a ha x hx
  unfold effSorted at h2
  cases hfl : x.fluent with
  | leaf l => rw [hfl] at h2; simp [keyOf?] at h2
  | quant q vs b => rw [hfl] at h2; simp [keyOf?] at h2
  | app op args =>
    rw [hfl] at h2
    cases op <;> simp only [keyOf?, Bool.false_eq_true] at h2
    rename_i f
    cases hargs : args.mapM constVal? with
    | none => rw [hargs] at h2; simp at h2
    | some vs =>
      rw [hargs] at h2
      simp only [Option.map_some, Bool.or_eq_true, Bool.and_eq_true, beq_iff_eq] at h2
      refine ⟨fun _ => defAt_of_bfrag hg h1, fun _ => ?_, fun _ _ => ⟨f, args, vs, hfl, evalArgs_const _ args vs hargs⟩⟩
      rcases h2 with ⟨_, hv⟩ | ⟨_, hv⟩
      · exact defAt_of_bfrag hg hv
      · obtain ⟨q, hq⟩ := num_of_nfrag hg hv
        exact ⟨_, hq⟩

end

end UPVerif.Compile
