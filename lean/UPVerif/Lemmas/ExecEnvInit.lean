import UPVerif.Spec.Contingent
/-!
Helper lemmas for C35, part 1: the initial state of the simulated execution environment
(`dedup`, `allAssignments`, `setAll`, the lookup in `initialState?`).
-/
namespace UPVerif.ExecEnv
open UPVerif UPVerif.Expr UPVerif.Sim UPVerif.Spec

/-! ### dedup -/

theorem mem_dedup : ∀ {l : List Expr} {a : Expr}, a ∈ dedup l ↔ a ∈ l
  | [], a => by simp [dedup]
  | x :: xs, a => by
    simp only [dedup, List.mem_cons, List.mem_filter, mem_dedup (l := xs)]
    constructor
    · rintro (h | ⟨h, _⟩)
      · exact Or.inl h
      · exact Or.inr h
    · rintro (h | h)
      · exact Or.inl h
      · by_cases hx : a = x
        · exact Or.inl hx
        · exact Or.inr ⟨h, by simpa using hx⟩

theorem nodup_dedup : ∀ (l : List Expr), (dedup l).Nodup
  | [] => by simp [dedup]
  | x :: xs => by
    simp only [dedup, List.nodup_cons, List.mem_filter]
    refine ⟨?_, (nodup_dedup xs).filter _⟩
    rintro ⟨_, h⟩
    simp at h

theorem mem_hiddenAtoms {C : CProblem} {a : Expr} : a ∈ hiddenAtoms C ↔ ∃ x ∈ C.hidden, atomOf x = a := by
  unfold hiddenAtoms
  rw [mem_dedup, List.mem_map]

/-! ### allAssignments -/

theorem allAssignments_keys : ∀ {atoms : List Expr} {asg : Asg}, asg ∈ allAssignments atoms → asg.map (·.1) = atoms
  | [], asg, h => by
    simp [allAssignments] at h
    subst h; rfl
  | a :: as, asg, h => by
    simp only [allAssignments, List.mem_flatMap, List.mem_map] at h
    obtain ⟨b, _, r, hr, rfl⟩ := h
    simp [allAssignments_keys hr]

theorem mem_allAssignments (β : Expr → Bool) : ∀ (atoms : List Expr), atoms.map (fun a => (a, β a)) ∈ allAssignments atoms
  | [] => by simp [allAssignments]
  | a :: as => by
    simp only [allAssignments, List.mem_flatMap, List.mem_map, List.map_cons]
    refine ⟨β a, by cases β a <;> simp, as.map (fun a => (a, β a)), mem_allAssignments β as, rfl⟩

theorem mem_models {C : CProblem} {mc : Option Nat} {asg : Asg} (h : asg ∈ models C mc) :
    asg.map (·.1) = hiddenAtoms C ∧ satisfies C mc asg = true := by
  unfold models at h
  rw [List.mem_filter] at h
  exact ⟨allAssignments_keys h.1, h.2⟩

theorem takeOrs_none : ∀ (n : Nat) (l : List (List Expr)), takeOrs none n l = l
  | _, [] => rfl
  | n, c :: cs => by simp [takeOrs, takeOrs_none (n + 1) cs]

theorem usedOrs_none (C : CProblem) : usedOrs C none = C.ors := by
  unfold usedOrs effLimit
  exact takeOrs_none _ _

/-! ### setAll -/

theorem setInit_fresh {init : List (Expr × Expr)} {f v : Expr} (h : ∀ fv ∈ init, fv.1 ≠ f) :
    setInit init f v = init ++ [(f, v)] := by
  unfold setInit
  have : init.any (fun fv => fv.1 == f) = false := by
    rw [List.any_eq_false]
    intro fv hfv
    simpa using h fv hfv
  simp [this]

theorem setAll_fresh : ∀ (asg : Asg) (init : List (Expr × Expr)),
    (∀ p ∈ asg, ∀ fv ∈ init, fv.1 ≠ p.1) → (asg.map (·.1)).Nodup →
    setAll init asg = init ++ asg.map (fun p => (p.1, Expr.bool p.2))
  | [], init, _, _ => by simp [setAll]
  | p :: ps, init, h, hn => by
    have h1 : ∀ fv ∈ init, fv.1 ≠ p.1 := fun fv hfv => h p (List.mem_cons_self) fv hfv
    simp only [List.map_cons, List.nodup_cons] at hn
    have ih := setAll_fresh ps (init ++ [(p.1, Expr.bool p.2)]) (by
      intro q hq fv hfv
      rw [List.mem_append] at hfv
      rcases hfv with hfv | hfv
      · exact h q (List.mem_cons_of_mem _ hq) fv hfv
      · simp at hfv
        subst hfv
        intro heq
        exact hn.1 (by rw [List.mem_map]; exact ⟨q, hq, heq.symm⟩)) hn.2
    unfold setAll at ih ⊢
    simp only [List.foldl_cons]
    rw [setInit_fresh h1, ih]
    simp

/-! ### the lookup performed by `initialState?` -/

/-- the function `initialState?` maps over the initial values -/
def keyed (fv : Expr × Expr) : Option (GKey × Val) := do
  let k ← keyOf? fv.1
  let v ← constVal? fv.2
  some (k, v)

theorem initialState?_eq (P : Problem) : initialState? P = (P.init.mapM keyed).map (fun l => ⟨l⟩) := rfl

theorem lookup_keyed : ∀ {l : List (Expr × Expr)} {r : List (GKey × Val)} (k : GKey),
    l.mapM keyed = some r → r.lookup k = explicitValue l k
  | [], r, k, h => by
    simp at h; subst h
    simp [explicitValue]
  | fv :: l, r, k, h => by
    rw [List.mapM_cons] at h
    simp only [Option.bind_eq_bind, Option.bind_eq_some_iff, Option.pure_def, Option.some.injEq] at h
    obtain ⟨kv, hkv, r', hr', rfl⟩ := h
    have ih := lookup_keyed k hr'
    unfold keyed at hkv
    simp only [Option.bind_eq_bind, Option.bind_eq_some_iff, Option.some.injEq] at hkv
    obtain ⟨k1, hk1, v1, hv1, rfl⟩ := hkv
    unfold explicitValue at ih ⊢
    by_cases hk : k1 = k
    · subst hk
      simp [List.lookup, hk1, hv1]
    · have hne : (k == k1) = false := by simpa using fun h => hk h.symm
      simp only [List.lookup, hne, List.find?_cons, hk1]
      have : (some k1 == some k) = false := by simpa using hk
      simp [this, ih]

end UPVerif.ExecEnv
