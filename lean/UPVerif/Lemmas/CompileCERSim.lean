import UPVerif.Lemmas.CompileCER
import UPVerif.Lemmas.CompileTS
/-!
`ConditionalEffectsRemover` (repaired) as a forward and a backward simulation between the transition
systems of the original and of the compiled problem.
-/
namespace UPVerif.Compile
open UPVerif UPVerif.Expr UPVerif.Sim UPVerif.Spec UPVerif.Simulation

/-- hypothesis of the CER theorems on an action: its conditional effects are not forall effects and their
    targets are fluents applied to constants -/
def cerOK (a : Action) : Bool := a.effs.all (fun e => !e.isConditional || simpleCond e)

theorem cerOK_simple {a : Action} (h : cerOK a = true) :
    ∀ e ∈ a.effs, e.isConditional = true → simpleCond e = true := by
  intro e he hc
  unfold cerOK at h
  rw [List.all_eq_true] at h
  have := h e he
  simpa [hc] using this

/-- unpacking one yielded variant -/
theorem cerVariant_some {simp : Expr → Expr} {a a' : Action} {p : List Nat} (h : cerVariant simp a p = some a') :
    ∃ pre', simplifyPreWith simp (condPre p (a.effs.filter (fun e => e.isConditional)) 0 a.pre) = some pre' ∧
      a' = { a with pre := pre', effs := a.effs.filter (fun e => !e.isConditional) ++
                                         selUncond p (a.effs.filter (fun e => e.isConditional)) 0 } := by
  unfold cerVariant at h
  dsimp only at h
  split at h
  · cases h
  · rename_i acc0 _
    split at h
    · cases h
    · rename_i pre effs hl
      obtain ⟨h1, h2⟩ := cerLoop_some _ _ _ _ _ hl
      split at h
      · cases h
      · split at h
        · cases h
        · rename_i pre' hp
          cases h
          exact ⟨pre', by rw [← h1]; exact hp, by rw [h2]⟩

/-- SOUNDNESS of one variant: whenever the variant applies, the original action applies with the same result -/
theorem cer_sound_step {simp : Expr → Expr} (hs : SimpExact simp) (W : World) {a a' : Action} {p : List Nat}
    (hok : cerOK a = true) (hv : cerVariant simp a p = some a') {g g' : St}
    (h : stepAct W g a' = some g') : stepAct W g a = some g' := by
  obtain ⟨pre', hp, rfl⟩ := cerVariant_some hv
  unfold stepAct at h ⊢
  dsimp only at h
  split at h
  · rename_i hpar
    simp only [hpar, if_true]
    have hpre' := succOf_some_pre h
    have hk := preOK_simplifyPre hs (ctxOf W g) (condPre p (a.effs.filter (fun e => e.isConditional)) 0 a.pre)
    rw [hp] at hk
    dsimp only at hk
    rw [hpre'] at hk
    obtain ⟨hpa, hm⟩ := (preOK_condPre _ p _ 0 a.pre).1 hk.symm
    rw [← cer_successor_eq W g a p pre' (cerOK_simple hok) hm (by rw [hpre', hpa])]
    exact h
  · cases h

/-! ### completeness: the variant selected by the state -/

/-- positions (counted from `i`) of the conditional effects whose condition is TRUE in the state -/
def trueIdx (c : EvalCtx) : List Effect → Nat → List Nat
  | [], _ => []
  | e :: es, i =>
    if eval c [] e.cond = .ok (.b true) then i :: trueIdx c es (i + 1) else trueIdx c es (i + 1)

theorem trueIdx_ge (c : EvalCtx) : ∀ (C : List Effect) (i j : Nat), j ∈ trueIdx c C i → i ≤ j
  | [], _, _, h => by simp [trueIdx] at h
  | e :: es, i, j, h => by
    simp only [trueIdx] at h
    split at h
    · rcases List.mem_cons.1 h with rfl | h2
      · exact Nat.le_refl _
      · exact Nat.le_of_succ_le (trueIdx_ge c es (i + 1) j h2)
    · exact Nat.le_of_succ_le (trueIdx_ge c es (i + 1) j h)

theorem CondMatches_congr (c : EvalCtx) {p q : List Nat} : ∀ (C : List Effect) (i : Nat),
    (∀ j, i ≤ j → p.contains j = q.contains j) → (CondMatches c p C i ↔ CondMatches c q C i)
  | [], _, _ => by simp [CondMatches]
  | e :: es, i, h => by
    simp only [CondMatches]
    rw [h i (Nat.le_refl _), CondMatches_congr c es (i + 1) (fun j hj => h j (Nat.le_of_succ_le hj))]

/-- all conditions evaluate to Booleans ⇒ the conditions match the variant `trueIdx` -/
theorem CondMatches_trueIdx (c : EvalCtx) : ∀ (C : List Effect) (i : Nat),
    (∀ e ∈ C, ∃ b, eval c [] e.cond = .ok (.b b)) → CondMatches c (trueIdx c C i) C i
  | [], _, _ => by simp [CondMatches]
  | e :: es, i, h => by
    obtain ⟨b, hb⟩ := h e (List.mem_cons_self ..)
    have ih := CondMatches_trueIdx c es (i + 1) (fun x hx => h x (List.mem_cons_of_mem _ hx))
    have hnot : (trueIdx c es (i + 1)).contains i = false := by
      cases hc : (trueIdx c es (i + 1)).contains i with
      | false => rfl
      | true =>
        have : i ∈ trueIdx c es (i + 1) := by simpa using hc
        have := trueIdx_ge c es (i + 1) i this
        omega
    simp only [CondMatches, trueIdx]
    cases b with
    | true =>
      simp only [hb, if_true]
      refine ⟨by simp, ?_⟩
      refine (CondMatches_congr c es (i + 1) ?_).2 ih
      intro j hj
      have : j ≠ i := by omega
      simp [this]
    | false =>
      have hne : ¬ (Except.ok (Val.b false) : Except EvalErr Val) = .ok (.b true) := by simp
      simp only [hb, hne, if_false, hnot, Bool.false_eq_true]
      exact ⟨trivial, ih⟩

theorem trueIdx_sublist (c : EvalCtx) : ∀ (C : List Effect) (i : Nat),
    (trueIdx c C i).Sublist (List.range' i C.length)
  | [], _ => by simp [trueIdx]
  | e :: es, i => by
    simp only [trueIdx, List.length_cons, List.range'_succ]
    split
    · exact (trueIdx_sublist c es (i + 1)).cons_cons _
    · exact (trueIdx_sublist c es (i + 1)).cons _

theorem combos_of_sublist {α : Type} : ∀ {s l : List α}, s.Sublist l → s ∈ combos l s.length
  | _, _, .slnil => by simp [combos]
  | s, _ :: l, .cons a h => by
    cases s with
    | nil => simp [combos]
    | cons x xs =>
      simp only [List.length_cons, combos, List.mem_append]
      right
      exact combos_of_sublist h
  | _ :: s, _ :: l, .cons_cons a h => by
    simp only [List.length_cons, combos, List.mem_append, List.mem_map]
    left
    exact ⟨s, combos_of_sublist h, rfl⟩

theorem trueIdx_mem_powerset (c : EvalCtx) (C : List Effect) : trueIdx c C 0 ∈ powerset C.length := by
  unfold powerset
  rw [List.mem_flatMap]
  have hs := trueIdx_sublist c C 0
  rw [← List.range_eq_range'] at hs
  refine ⟨(trueIdx c C 0).length, ?_, combos_of_sublist hs⟩
  rw [List.mem_range]
  have := hs.length_le
  simp at this
  omega

/-- no combination of fired conditional effects statically conflicts (then no variant is skipped for a
    conflict): excludes finding D-C07b -/
def cerNoConflict (a : Action) : Bool :=
  let U := a.effs.filter (fun e => !e.isConditional)
  let C := a.effs.filter (fun e => e.isConditional)
  match staticAll ⟨[], []⟩ U with
  | none => false
  | some acc0 => (powerset C.length).all (fun p => (cerLoop p C 0 a.pre U acc0).isSome)

/-- every variant has an effect: the action has an unconditional effect (excludes finding D-C07) -/
def cerHasUncond (a : Action) : Bool := !(a.effs.filter (fun e => !e.isConditional)).isEmpty

/-- the conditions of the conditional effects are Boolean-valued in the state `c` whenever they evaluate
    (well-typedness of the state: a Boolean fluent holds a Boolean) -/
def BoolConds (a : Action) (c : EvalCtx) : Prop :=
  ∀ e ∈ a.effs, ∀ (v : Val), eval c [] e.cond = .ok v → ∃ b, v = .b b

/-- conditions whose root is a Boolean connective / comparison / constant are Boolean-valued in EVERY state -/
def boolRooted : Expr → Bool
  | .leaf (.boolC _) => true
  | .app .and _ | .app .or _ | .app .not _ | .app .implies _ | .app .iff _ => true
  | .app .le _ | .app .lt _ | .app .eq _ => true
  | _ => false

theorem boolRooted_bool {c : EvalCtx} {e : Expr} (hr : boolRooted e = true) {v : Val}
    (h : eval c [] e = .ok v) : ∃ b, v = .b b := by
  cases e with
  | leaf l =>
    cases l with
    | boolC b => simp [eval, evalLeaf] at h; exact ⟨b, h.symm⟩
    | _ => simp [boolRooted] at hr
  | quant q vs b => simp [boolRooted] at hr
  | app op args =>
    simp only [eval] at h
    cases hl : evalList c [] args with
    | error x => rw [hl] at h; cases h
    | ok vs =>
      rw [hl] at h
      dsimp only at h
      have hden : ∀ {ι : Interp} {o : Op}, (o = .and ∨ o = .or ∨ o = .not ∨ o = .implies ∨ o = .iff ∨ o = .le ∨ o = .lt ∨ o = .eq) →
          ∀ {w}, denOp ι o vs = some w → ∃ b, w = .b b := by
        intro ι o ho w hw
        rcases ho with rfl | rfl | rfl | rfl | rfl | rfl | rfl | rfl
        · simp only [denOp] at hw
          cases hab : allBools vs with
          | none => rw [hab] at hw; cases hw
          | some bs => rw [hab] at hw; simp at hw; exact ⟨_, hw.symm⟩
        · simp only [denOp] at hw
          cases hab : allBools vs with
          | none => rw [hab] at hw; cases hw
          | some bs => rw [hab] at hw; simp at hw; exact ⟨_, hw.symm⟩
        all_goals
          unfold denOp at hw
          split at hw
          all_goals first
            | (cases hw; exact ⟨_, rfl⟩)
            | (exfalso; simp at *; done)
            | (cases hw; done)
      cases op with
      | and | or | not | implies | iff | le | lt | eq =>
        unfold evalOp at h
        split at h
        · rename_i heq; cases heq
        · rename_i heq; simp at heq
        · split at h
          · rename_i w hw
            cases h
            exact hden (by simp) hw
          · cases h
      | _ => simp [boolRooted] at hr

/-- a conditional effect with a constant target that evaluates has a condition that evaluates -/
theorem evalEff_ok_cond {c : EvalCtx} {e : Effect} (hc : e.isConditional = true)
    (h : effOk c e = true) : ∃ v, eval c [] e.cond = .ok v := by
  obtain ⟨fl, v, cnd, k, fa⟩ := e
  unfold effOk at h
  unfold evalEff at h
  cases fl with
  | leaf l => simp at h
  | quant q vs b => simp at h
  | app op args =>
    cases op with
    | fluent f =>
      dsimp only at h
      cases ha : evalArgs c args with
      | error x => rw [ha] at h; simp at h
      | ok vs =>
        rw [ha] at h
        dsimp only at h
        simp only [hc, if_true] at h
        cases hv : eval c [] cnd with
        | error x => rw [hv] at h; simp at h
        | ok w => exact ⟨w, rfl⟩
    | _ => simp at h

/-- COMPLETENESS of the split: whenever the original action applies, the variant selected by the truth
    values of the conditions is yielded, applies, and gives the same result -/
theorem cer_complete_step {simp : Expr → Expr} (hs : SimpExact simp) (W : World) {a : Action}
    (hok : cerOK a = true) (hnc : cerNoConflict a = true) (hu : cerHasUncond a = true)
    {g g' : St} (hb : BoolConds a (ctxOf W g)) (h : stepAct W g a = some g') :
    ∃ a' ∈ cerVariants simp a, stepAct W g a' = some g' := by
  unfold stepAct at h
  have hpar : a.params.isEmpty = true := by
    cases hp : a.params.isEmpty with
    | true => rfl
    | false => rw [hp] at h; simp at h
  simp only [hpar, if_true] at h
  let c := ctxOf W g
  let U := a.effs.filter (fun e => !e.isConditional)
  let C := a.effs.filter (fun e => e.isConditional)
  have hpa := succOf_some_pre h
  obtain ⟨F, hF, _, _, _⟩ := succOf_some_fired h
  -- every conditional effect evaluates, hence its condition evaluates to a Boolean
  have hall : (expandEffs W.P a.effs).all (effOk c) = true := by
    rw [fired_eq] at hF
    split at hF
    · assumption
    · cases hF
  have hCb : ∀ e ∈ C, ∃ b, eval c [] e.cond = .ok (.b b) := by
    intro e he
    obtain ⟨hea, hec⟩ := List.mem_filter.1 he
    have hsimple := cerOK_simple hok e hea hec
    have hfa : e.forall_ = [] := by
      unfold simpleCond at hsimple
      rw [Bool.and_eq_true] at hsimple
      simpa using hsimple.1
    have hmem : e ∈ expandEffs W.P a.effs := by
      unfold expandEffs
      rw [List.mem_flatMap]
      exact ⟨e, hea, by simp [expandEffect, hfa]⟩
    have hok' := List.all_eq_true.1 hall e hmem
    obtain ⟨v, hv⟩ := evalEff_ok_cond hec hok'
    obtain ⟨b, rfl⟩ := hb e hea v hv
    exact ⟨b, hv⟩
  let p := trueIdx c C 0
  have hm : CondMatches c p C 0 := CondMatches_trueIdx c C 0 hCb
  have hpre : preOK c (condPre p C 0 a.pre) = true := (preOK_condPre c p C 0 a.pre).2 ⟨hpa, hm⟩
  have hpin : p ∈ powerset C.length := trueIdx_mem_powerset c C
  -- the variant is yielded
  unfold cerNoConflict at hnc
  dsimp only at hnc
  split at hnc
  · cases hnc
  rename_i acc0 hacc
  have hloop := List.all_eq_true.1 hnc p hpin
  cases hl : cerLoop p C 0 a.pre U acc0 with
  | none => rw [hl] at hloop; cases hloop
  | some pe =>
    obtain ⟨pre, effs⟩ := pe
    obtain ⟨h1, h2⟩ := cerLoop_some _ _ _ _ _ hl
    have hk := preOK_simplifyPre hs c pre
    cases hsp : simplifyPreWith simp pre with
    | none =>
      rw [hsp] at hk
      rw [h1, hpre] at hk
      cases hk
    | some pre' =>
      rw [hsp] at hk
      dsimp only at hk
      have hne : effs.isEmpty = false := by
        rw [h2]
        unfold cerHasUncond at hu
        have hu' : (a.effs.filter (fun e => !e.isConditional)).isEmpty = false := by simpa using hu
        cases hU : a.effs.filter (fun e => !e.isConditional) with
        | nil => rw [hU] at hu'; cases hu'
        | cons x xs => simp only [U, hU]; rfl
      let a' : Action := { a with pre := pre', effs := effs }
      have hv : cerVariant simp a p = some a' := by
        unfold cerVariant
        dsimp only
        rw [hacc]
        dsimp only
        rw [hl]
        dsimp only
        rw [hne]
        simp only [Bool.false_eq_true, if_false]
        rw [hsp]
      refine ⟨a', ?_, ?_⟩
      · unfold cerVariants
        rw [List.mem_filterMap]
        exact ⟨p, hpin, hv⟩
      · unfold stepAct
        simp only [a', hpar, if_true]
        rw [h2]
        rw [cer_successor_eq W g a p pre' (cerOK_simple hok) hm (by rw [hk, h1, hpre, hpa])]
        exact h

/-! ### the compiled problem -/

/-- what `cerCompile` returns: the problem with another action list, every compiled action mapping back to
    the original it is (unconditional) or is a variant of (conditional), and nothing else is dropped -/
theorem cerCompile_some {simp : Expr → Expr} {P : Problem} {c : Compiled} (h : cerCompile simp P = some c) :
    (∃ acts, c.prob = { P with actions := acts }) ∧
    (∀ (i : Nat) (a' : Action), c.prob.actions[i]? = some a' → ∃ (j : Nat) (a : Action), backOf c i = some j ∧
        P.actions[j]? = some a ∧
        ((Action.isConditional a = false ∧ a' = a) ∨
         (Action.isConditional a = true ∧ a' ∈ cerVariants simp (cerExpand P a)))) ∧
    (∀ (j : Nat) (a : Action), P.actions[j]? = some a →
        (Action.isConditional a = false → ∃ i : Nat, c.prob.actions[i]? = some a ∧ backOf c i = some j) ∧
        (Action.isConditional a = true → ∀ a' ∈ cerVariants simp (cerExpand P a),
            ∃ i : Nat, c.prob.actions[i]? = some a' ∧ backOf c i = some j)) := by
  unfold cerCompile at h
  dsimp only at h
  cases h
  refine ⟨⟨_, rfl⟩, ?_, ?_⟩
  · intro i a' hi
    dsimp only at hi
    obtain ⟨b, hb, hback⟩ := getElem?_pairs hi
    have hmem := List.mem_of_getElem? hb
    rw [List.mem_append] at hmem
    rcases hmem with hm | hm
    · rw [List.mem_map] at hm
      obtain ⟨⟨j, a⟩, hja, he⟩ := hm
      simp only [Prod.mk.injEq] at he
      obtain ⟨hja1, hja2⟩ := List.mem_filter.1 hja
      refine ⟨j, a, ?_, mem_zip_range0 _ _ _ hja1, Or.inl ⟨by simpa using hja2, he.1.symm⟩⟩
      unfold backOf; dsimp only; rw [hback, ← he.2]
    · rw [List.mem_flatMap] at hm
      obtain ⟨⟨j, a⟩, hja, he⟩ := hm
      rw [List.mem_map] at he
      obtain ⟨v, hv, hve⟩ := he
      simp only [Prod.mk.injEq] at hve
      obtain ⟨hja1, hja2⟩ := List.mem_filter.1 hja
      refine ⟨j, a, ?_, mem_zip_range0 _ _ _ hja1, Or.inr ⟨hja2, by rw [← hve.1]; exact hv⟩⟩
      unfold backOf; dsimp only; rw [hback, ← hve.2]
  · intro j a hj
    have hz := zip_range_mem0 _ _ _ hj
    constructor
    · intro hc
      have : (a, some j) ∈ (((List.range P.actions.length).zip P.actions).filter (fun ia => !Action.isConditional ia.2)).map
            (fun ia => (ia.2, some ia.1)) ++
          (((List.range P.actions.length).zip P.actions).filter (fun ia => Action.isConditional ia.2)).flatMap
            (fun ia => (cerVariants simp (cerExpand P ia.2)).map (fun v => (v, some ia.1))) := by
        rw [List.mem_append]; left
        rw [List.mem_map]
        exact ⟨(j, a), List.mem_filter.2 ⟨hz, by simp [hc]⟩, rfl⟩
      obtain ⟨i, h1, h2⟩ := pairs_of_mem this
      exact ⟨i, h1, h2⟩
    · intro hc a' ha'
      have : (a', some j) ∈ (((List.range P.actions.length).zip P.actions).filter (fun ia => !Action.isConditional ia.2)).map
            (fun ia => (ia.2, some ia.1)) ++
          (((List.range P.actions.length).zip P.actions).filter (fun ia => Action.isConditional ia.2)).flatMap
            (fun ia => (cerVariants simp (cerExpand P ia.2)).map (fun v => (v, some ia.1))) := by
        rw [List.mem_append]; right
        rw [List.mem_flatMap]
        exact ⟨(j, a), List.mem_filter.2 ⟨hz, hc⟩, List.mem_map.2 ⟨a', ha', rfl⟩⟩
      obtain ⟨i, h1, h2⟩ := pairs_of_mem this
      exact ⟨i, h1, h2⟩

theorem stepAct_cerExpand (W : World) (g : St) (a : Action) :
    stepAct W g (cerExpand W.P a) = stepAct W g a := by
  unfold stepAct cerExpand
  dsimp only
  rw [expandEffs_cerExpand]

theorem sameSig_actions (P : Problem) (acts : List Action) : SameSig { P with actions := acts } P := ⟨rfl, rfl, rfl⟩

/-- ConditionalEffectsRemover (repaired) is a FORWARD simulation: soundness -/
theorem cer_fwd {simp : Expr → Expr} (hs : SimpExact simp) (W : World) {c : Compiled}
    (hc : cerCompile simp W.P = some c) (hok : ∀ a ∈ W.P.actions, cerOK (cerExpand W.P a) = true) :
    Fwd (tsOf W) (tsOf (withProblem W c.prob)) (backOf c) (fun gB gA => gB = gA) (fun _ => True) := by
  obtain ⟨⟨acts, hacts⟩, hfw, _⟩ := cerCompile_some hc
  have hsig : SameSig c.prob W.P := by rw [hacts]; exact sameSig_actions _ _
  have htr : c.prob.traj = W.P.traj := by rw [hacts]
  refine ⟨?_, fun _ _ => trivial, fun _ _ _ _ => trivial, ?_, ?_, ?_⟩
  · intro sB hB _
    refine ⟨sB, ?_, rfl⟩
    have : (tsOf (withProblem W c.prob)).init = initOf (withProblem W c.prob) := rfl
    rw [this, hsig.initOf W rfl htr (by rw [hacts])] at hB
    exact hB
  · intro sB sA b sB' a hR hstep _ hb
    subst hR
    obtain ⟨a', ha', hst⟩ := tsOf_step hstep
    obtain ⟨j, ao, hbj, hao, hcase⟩ := hfw b a' ha'
    rw [hb] at hbj
    cases hbj
    rw [hsig.stepAct W rfl htr] at hst
    refine ⟨sB', ?_, rfl⟩
    rw [tsOf_step_intro hao]
    rcases hcase with ⟨_, rfl⟩ | ⟨_, hv⟩
    · exact hst
    · unfold cerVariants at hv
      rw [List.mem_filterMap] at hv
      obtain ⟨p, _, hp⟩ := hv
      rw [← stepAct_cerExpand]
      exact cer_sound_step hs W (hok ao (List.mem_of_getElem? hao)) hp hst
  · intro sB sA b sB' hR hstep _ hb
    obtain ⟨a', ha', _⟩ := tsOf_step hstep
    obtain ⟨j, ao, hbj, _⟩ := hfw b a' ha'
    rw [hb] at hbj; cases hbj
  · intro sB sA hR hg
    subst hR
    have : (tsOf (withProblem W c.prob)).goal sB = (goalOK (withProblem W c.prob) sB = true) := rfl
    rw [this, hsig.goalOK W rfl (by rw [hacts])] at hg
    exact hg

/-- ConditionalEffectsRemover is a BACKWARD simulation (completeness, same plan length) on problems where
    no variant is pruned: every conditional action has an unconditional effect (finding D-C07 excluded) and
    no combination of its conditional effects conflicts statically (finding D-C07b excluded).  `T` is any
    invariant of the original problem's runs under which the effect conditions are Boolean-valued (typing of
    the states); `cer_bwd_rooted` discharges it syntactically. -/
theorem cer_bwd {simp : Expr → Expr} (hs : SimpExact simp) (W : World) {c : Compiled}
    (hc : cerCompile simp W.P = some c) (hok : ∀ a ∈ W.P.actions, cerOK (cerExpand W.P a) = true)
    (hnc : ∀ a ∈ W.P.actions, Action.isConditional a = true →
      cerNoConflict (cerExpand W.P a) = true ∧ cerHasUncond (cerExpand W.P a) = true)
    (T : St → Prop) (hT0 : ∀ g, (tsOf W).init = some g → T g)
    (hTs : ∀ g i g', T g → (tsOf W).step g i = some g' → T g')
    (hb : ∀ g, T g → ∀ a ∈ W.P.actions, BoolConds (cerExpand W.P a) (ctxOf W g)) :
    Bwd (tsOf W) (tsOf (withProblem W c.prob)) (backOf c) (fun gB gA => gB = gA ∧ T gA) 0 := by
  obtain ⟨⟨acts, hacts⟩, _, hbw⟩ := cerCompile_some hc
  have hsig : SameSig c.prob W.P := by rw [hacts]; exact sameSig_actions _ _
  have htr : c.prob.traj = W.P.traj := by rw [hacts]
  refine ⟨?_, ?_, ?_⟩
  · intro sA hA
    refine ⟨sA, ?_, rfl, hT0 sA hA⟩
    have : (tsOf (withProblem W c.prob)).init = initOf (withProblem W c.prob) := rfl
    rw [this, hsig.initOf W rfl htr (by rw [hacts])]
    exact hA
  · intro sB sA j sA' hR hstep
    obtain ⟨rfl, hT⟩ := hR
    have hT' := hTs sB j sA' hT hstep
    obtain ⟨a, ha, hst⟩ := tsOf_step hstep
    have hmem := List.mem_of_getElem? ha
    obtain ⟨h1, h2⟩ := hbw j a ha
    cases hcond : Action.isConditional a with
    | false =>
      obtain ⟨i, hi, hbi⟩ := h1 hcond
      refine ⟨i, sA', hbi, ?_, rfl, hT'⟩
      rw [tsOf_step_intro hi, hsig.stepAct W rfl htr]
      exact hst
    | true =>
      obtain ⟨hn1, hn2⟩ := hnc a hmem hcond
      rw [← stepAct_cerExpand] at hst
      obtain ⟨a', hv, hst'⟩ := cer_complete_step hs W (hok a hmem) hn1 hn2 (hb sB hT a hmem) hst
      obtain ⟨i, hi, hbi⟩ := h2 hcond a' hv
      refine ⟨i, sA', hbi, ?_, rfl, hT'⟩
      rw [tsOf_step_intro hi, hsig.stepAct W rfl htr]
      exact hst'
  · intro sB sA hR hg
    obtain ⟨rfl, _⟩ := hR
    refine ⟨[], sB, Nat.le_refl _, rfl, rfl, ?_⟩
    have : (tsOf (withProblem W c.prob)).goal sB = (goalOK (withProblem W c.prob) sB = true) := rfl
    rw [this, hsig.goalOK W rfl (by rw [hacts])]
    exact hg

/-- conditions rooted in a connective / comparison need no typing invariant -/
def cerRooted (a : Action) : Bool := a.effs.all (fun e => !e.isConditional || boolRooted e.cond)

theorem boolConds_of_rooted {a : Action} (h : cerRooted a = true) (c : EvalCtx) : BoolConds a c := by
  intro e he v hv
  unfold cerRooted at h
  have := List.all_eq_true.1 h e he
  by_cases hc : e.isConditional = true
  · simp [hc] at this
    exact boolRooted_bool this hv
  · have hcf : e.isConditional = false := by simpa using hc
    unfold Effect.isConditional at hcf
    have : e.cond.isTrue = true := by simpa using hcf
    cases hcond : e.cond with
    | leaf l =>
      cases l with
      | boolC b =>
        rw [hcond] at hv
        simp [eval, evalLeaf] at hv
        exact ⟨b, hv.symm⟩
      | _ => rw [hcond] at this; simp [Expr.isTrue] at this
    | app op as => rw [hcond] at this; simp [Expr.isTrue] at this
    | quant q vs b => rw [hcond] at this; simp [Expr.isTrue] at this

end UPVerif.Compile
