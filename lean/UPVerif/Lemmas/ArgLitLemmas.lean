import UPVerif.Spec.Plan
/-!
The spelling of actual parameters (`Core/ArgLit.lean`) loses nothing: every integer, every fraction and both
Booleans have a spelling that `Sim.argExpr` reads back as exactly that constant.  (The numeral lemmas follow
`Lemmas/ProtoLemmas.lean`, which proves the same facts for the protobuf codec's numerals.)
-/
namespace UPVerif.ArgLit
open UPVerif

theorem natStr_ne_nil (n : Nat) : natStr n ≠ [] := Nat.toDigits_ne_nil

theorem natStr_isDigit {n : Nat} {c : Char} (h : c ∈ natStr n) : c.isDigit = true :=
  Nat.isDigit_of_mem_toDigits (by decide) (by decide) h

theorem parseNat_natStr (n : Nat) : parseNat (natStr n) = some n := by
  unfold parseNat
  have h1 : natStr n ≠ [] := natStr_ne_nil n
  have h2 : (natStr n).all Char.isDigit = true := by
    rw [List.all_eq_true]; intro c hc; exact natStr_isDigit hc
  rw [if_pos ⟨h1, h2⟩]
  simp [natStr]

theorem isDigit_ne {c d : Char} (h : c.isDigit = true) (hd : d.isDigit = false) : c ≠ d := by
  intro e; subst e; rw [h] at hd; cases hd

theorem parseInt_natStr (n : Nat) : parseInt (natStr n) = some (n : Int) := by
  have hp := parseNat_natStr n
  cases hs : natStr n with
  | nil => exact absurd hs (natStr_ne_nil n)
  | cons c cs =>
    have hc : c.isDigit = true := natStr_isDigit (by rw [hs]; exact List.mem_cons_self)
    have : c ≠ '-' := isDigit_ne hc (by decide)
    rw [hs] at hp
    simp [parseInt, this, hp]

theorem parseInt_intChars (z : Int) : parseInt (intChars z) = some z := by
  cases z with
  | ofNat n => exact parseInt_natStr n
  | negSucc n =>
    simp only [intChars, parseInt, if_true, parseNat_natStr]
    rfl

theorem intChars_chars {z : Int} {c : Char} (h : c ∈ intChars z) : c.isDigit = true ∨ c = '-' := by
  cases z with
  | ofNat n => exact Or.inl (natStr_isDigit h)
  | negSucc n =>
    simp only [intChars, List.mem_cons] at h
    rcases h with h | h
    · exact Or.inr h
    · exact Or.inl (natStr_isDigit h)

theorem splitSlash_noSlash : ∀ (a : List Char), (∀ c ∈ a, c ≠ '/') → splitSlash a = (a, none)
  | [], _ => rfl
  | c :: a, h => by
    have hc : c ≠ '/' := h c List.mem_cons_self
    have ih := splitSlash_noSlash a (fun d hd => h d (List.mem_cons_of_mem _ hd))
    simp [splitSlash, hc, ih]

theorem splitSlash_append : ∀ (a b : List Char), (∀ c ∈ a, c ≠ '/') →
    splitSlash (a ++ '/' :: b) = (a, some b)
  | [], b, _ => by simp [splitSlash]
  | c :: a, b, h => by
    have hc : c ≠ '/' := h c List.mem_cons_self
    have ih := splitSlash_append a b (fun d hd => h d (List.mem_cons_of_mem _ hd))
    simp [splitSlash, hc, ih]

theorem intChars_noSlash (z : Int) : ∀ c ∈ intChars z, c ≠ '/' := by
  intro c hc
  rcases intChars_chars hc with h | h
  · exact isDigit_ne h (by decide)
  · rw [h]; decide

/-- an integer spelling is read back as that integer -/
theorem parseNum_intChars (z : Int) : parseNum (intChars z) = some (.i z) := by
  unfold parseNum
  rw [splitSlash_noSlash _ (intChars_noSlash z)]
  simp [parseInt_intChars]

/-- `n/d` is read back as the fraction -/
theorem parseNum_frac (r : Rat) : parseNum (intChars r.num ++ '/' :: natStr r.den) = some (.q r) := by
  unfold parseNum
  rw [splitSlash_append _ _ (intChars_noSlash r.num)]
  simp only [parseInt_intChars, parseNat_natStr]
  have hd : r.den ≠ 0 := r.den_nz
  rw [if_neg hd]
  rw [← Rat.mkRat_eq_div, Rat.mkRat_self]

end UPVerif.ArgLit

namespace UPVerif.Sim
open UPVerif UPVerif.ArgLit

/-- every integer is an actual parameter the model reads back exactly (`Int(z)`) -/
theorem argExpr_int_roundtrip (P : Problem) (lb ub : Option Int) (z : Int) :
    argExpr P (.int lb ub) (intStr z) = Expr.int z := by
  simp [argExpr, intStr, parseInt_intChars]

/-- … also for a real parameter (Python `int` promoted to `Int(z)`) -/
theorem argExpr_real_int_roundtrip (P : Problem) (lb ub : Option Rat) (z : Int) :
    argExpr P (.real lb ub) (intStr z) = Expr.int z := by
  simp [argExpr, intStr, parseNum_intChars, Num.toExpr]

/-- every fraction is an actual parameter the model reads back exactly (`Real(r)`) -/
theorem argExpr_real_frac_roundtrip (P : Problem) (lb ub : Option Rat) (r : Rat) :
    argExpr P (.real lb ub) (fracStr r) = Expr.real r := by
  simp [argExpr, fracStr, parseNum_frac, Num.toExpr]

theorem argExpr_bool_true (P : Problem) : argExpr P .bool "true" = Expr.tt := by simp [argExpr]
theorem argExpr_bool_false (P : Problem) : argExpr P .bool "false" = Expr.ff := by simp [argExpr]

/-- for a user-typed formal parameter the actual parameter is the object of that name, as before -/
theorem argExpr_user (P : Problem) (t s : String) : argExpr P (.user t) s = objExpr P s := rfl

/-- an action all of whose parameters are user-typed (objects) -/
def UserTyped (a : Action) : Prop := ∀ p ∈ a.params, ∃ t, p.2 = Ty.user t

/-! ### conservativity: on user-typed actions the typed reading is the one of `Core/Sim.lean` -/

theorem paramSubstT_eq_paramSubst (P : Problem) {a : Action} (h : UserTyped a) (args : List String) :
    paramSubstT P a args = paramSubst P a args := by
  unfold paramSubstT paramSubst
  apply List.map_congr_left
  intro pa hpa
  obtain ⟨t, ht⟩ := h pa.1 (List.of_mem_zip hpa).1
  rw [ht]; rfl

theorem groundT_eq_ground (W : World) {a : Action} (h : UserTyped a) (args : List String) :
    groundT W a args = ground W a args := by
  unfold groundT ground
  rw [paramSubstT_eq_paramSubst W.P h args]
  dsimp only
  -- the two definitions use different (but equal) auxiliary matchers
  cases groundEffects W (paramSubst W.P a args) a.effs ⟨[], []⟩ [] with
  | error x => rfl
  | ok o =>
    cases o with
    | none => rfl
    | some effs => cases simplifyPre W (a.pre.map (substE (paramSubst W.P a args))) <;> rfl

theorem instancesOfT_eq_instancesOf (P : Problem) {a : Action} (h : UserTyped a) :
    instancesOfT P a = instancesOf P a := by
  unfold instancesOfT instancesOf
  congr 1
  apply List.map_congr_left
  intro p hp
  obtain ⟨t, ht⟩ := h p hp
  rw [ht]; rfl

/-- the step semantics used by C03 is C01's `Spec.apply` on every user-typed action -/
theorem applyT_eq_apply (W : World) (s : SimState) {a : Action} (h : UserTyped a) (args : List String) :
    Spec.applyT W s a args = Spec.apply W s a args := by
  unfold Spec.applyT Spec.apply
  rw [groundT_eq_ground W h args]
  cases ground W a args with
  | error x => rfl
  | ok o => cases o <;> rfl

end UPVerif.Sim
