import UPVerif.Core.DagCtx
import UPVerif.Lemmas.DagWalkerLemmas
/-!
Helper lemmas for `Props/C14Ctx.lean`: one call / a history of mutations and calls on a walker
instance with fields and a mutable world (`Core/DagCtx.lean`), reduced to `walk_spec`.
-/
namespace UPVerif.Dag
open UPVerif

variable {Arg Val ε Wd F Key Mut : Type}

/-- **the entry method re-derives, from the call's own arguments and the world as it is now,
    everything the node functions read**: whatever the fields were before the call, the node functions
    see the same thing -/
def Resets (En : Entry Wd F Key Arg) : Prop :=
  ∀ W f f' k, En.view W (En.enter W f k) = En.view W (En.enter W f' k)

/-- one call on an instance whose machine is clean -/
theorem ctxCall_spec (S : Spec Arg Val ε) (hS : ArgIndep S) (En : Entry Wd F Key Arg) (W : Wd)
    (I : Inst F Val) (k : Key) (e : Expr) (hw : Clean S I.walker) :
    (ctxCall S En W I k e).1 = liftPure (pureWalk S (En.view W (En.enter W I.fields k)) e) ∧
    Clean S (ctxCall S En W I k e).2.walker := by
  obtain ⟨h1, h2⟩ := walk_spec S hS (En.view W (En.enter W I.fields k)) I.walker e hw
  exact ⟨h1, h2⟩

theorem runOps_spec (S : Spec Arg Val ε) (hS : ArgIndep S) (En : Entry Wd F Key Arg) (hR : Resets En)
    (apply : Mut → Wd → Wd) (init : F) :
    ∀ (ops : List (CtxOp Mut Key)) (W : Wd) (I : Inst F Val), Clean S I.walker →
      (runOps S En apply W I ops).1 = pureOps S En apply init W ops ∧
      Clean S (runOps S En apply W I ops).2.2.walker
  | [], _, _, hw => ⟨rfl, hw⟩
  | .mutate m :: ops, W, I, hw => by
    obtain ⟨ih1, ih2⟩ := runOps_spec S hS En hR apply init ops (apply m W) I hw
    simp only [runOps, pureOps]
    exact ⟨by rw [ih1], ih2⟩
  | .call k e :: ops, W, I, hw => by
    obtain ⟨h1, h2⟩ := ctxCall_spec S hS En W I k e hw
    obtain ⟨ih1, ih2⟩ := runOps_spec S hS En hR apply init ops W _ h2
    simp only [runOps, pureOps]
    refine ⟨?_, ih2⟩
    rw [h1, ih1, hR W I.fields init k]

theorem freshOps_eq_pureOps (S : Spec Arg Val ε) (hS : ArgIndep S) (En : Entry Wd F Key Arg)
    (apply : Mut → Wd → Wd) (init : F) :
    ∀ (ops : List (CtxOp Mut Key)) (W : Wd), freshOps S En apply init W ops = pureOps S En apply init W ops
  | [], _ => rfl
  | .mutate m :: ops, W => by
    simp only [freshOps, pureOps, freshOps_eq_pureOps S hS En apply init ops (apply m W)]
  | .call k e :: ops, W => by
    have h := (ctxCall_spec S hS En W { fields := init, walker := Walker.fresh } k e (Clean.fresh S)).1
    simp only [freshOps, pureOps, freshOps_eq_pureOps S hS En apply init ops W]
    rw [h]

/-- `Resets` relative to what the CONSTRUCTOR fixed: `Inv` describes the fields that no call
    reassigns (e.g. the problem a walker was built on); among instances that agree on them, the node
    functions see the same thing whatever else the fields held before the call -/
def ResetsOn (En : Entry Wd F Key Arg) (Inv : F → Prop) : Prop :=
  (∀ W f k, Inv f → Inv (En.enter W f k)) ∧ (∀ W f e, Inv f → Inv (En.leave W f e)) ∧
  ∀ W f f' k, Inv f → Inv f' → En.view W (En.enter W f k) = En.view W (En.enter W f' k)

theorem runOps_spec_on (S : Spec Arg Val ε) (hS : ArgIndep S) (En : Entry Wd F Key Arg) (Inv : F → Prop)
    (hR : ResetsOn En Inv) (apply : Mut → Wd → Wd) (init : F) (hi : Inv init) :
    ∀ (ops : List (CtxOp Mut Key)) (W : Wd) (I : Inst F Val), Clean S I.walker → Inv I.fields →
      (runOps S En apply W I ops).1 = pureOps S En apply init W ops ∧
      Clean S (runOps S En apply W I ops).2.2.walker
  | [], _, _, hw, _ => ⟨rfl, hw⟩
  | .mutate m :: ops, W, I, hw, hf => by
    obtain ⟨ih1, ih2⟩ := runOps_spec_on S hS En Inv hR apply init hi ops (apply m W) I hw hf
    simp only [runOps, pureOps]
    exact ⟨by rw [ih1], ih2⟩
  | .call k e :: ops, W, I, hw, hf => by
    obtain ⟨h1, h2⟩ := ctxCall_spec S hS En W I k e hw
    have hf' : Inv (ctxCall S En W I k e).2.fields := hR.2.1 W _ e (hR.1 W _ k hf)
    obtain ⟨ih1, ih2⟩ := runOps_spec_on S hS En Inv hR apply init hi ops W _ h2 hf'
    simp only [runOps, pureOps]
    refine ⟨?_, ih2⟩
    rw [h1, ih1, hR.2.2 W I.fields init k hf hi]

theorem qsEntry_resetsOn (A : Type) (p : Nat) : ResetsOn (qsEntry A) (fun f => f.pb = p) := by
  refine ⟨fun _ _ _ h => h, fun _ _ _ h => h, ?_⟩
  intro W f f' k hf hf'
  show (W.objects f.pb, some k) = (W.objects f'.pb, some k)
  rw [hf, hf']

/-! ### the quantifier remover -/

theorem qrmEntry_resets : Resets qrmEntry := fun _ _ _ _ => rfl

theorem qrmEntry_view (W : QWorld) (f : Option Nat) (p : Nat) :
    qrmEntry.view W (qrmEntry.enter W f p) = W.objects p := rfl

/-! ### the environment with a long-lived remover -/

def EnvXClean (reject : Expr → Bool) (X : EnvX) : Prop :=
  EnvClean reject X.env ∧ Clean (qrmSpec reject) X.qrm.walker

theorem envxStep_spec (reject : Expr → Bool) (X : EnvX) (o : OpX) (hX : EnvXClean reject X) :
    (X.step reject o).1 = pureStepX reject X.world o ∧
    (X.step reject o).2.world = o.next X.world ∧
    EnvXClean reject (X.step reject o).2 := by
  obtain ⟨hE, hQ⟩ := hX
  cases o with
  | call c =>
    obtain ⟨h1, h2⟩ := envCall_spec reject X.env c hE
    refine ⟨?_, rfl, h2, hQ⟩
    show some (X.env.call reject c).1 = some (pureCall reject c)
    rw [h1]
  | mutate m => exact ⟨rfl, rfl, hE, hQ⟩
  | qrm p e =>
    obtain ⟨h1, h2⟩ := ctxCall_spec (qrmSpec reject) (argIndep_of_invalidate rfl) qrmEntry X.world X.qrm p e hQ
    refine ⟨?_, rfl, hE, h2⟩
    show some (ansOfSub (ctxCall (qrmSpec reject) qrmEntry X.world X.qrm p e).1) = _
    rw [h1, qrmEntry_view]; rfl

theorem envxRun_spec (reject : Expr → Bool) :
    ∀ (os : List OpX) (X : EnvX), EnvXClean reject X →
      (X.run reject os).1 = pureX reject X.world os ∧ EnvXClean reject (X.run reject os).2
  | [], _, hX => ⟨rfl, hX⟩
  | o :: os, X, hX => by
    obtain ⟨h1, h2, h3⟩ := envxStep_spec reject X o hX
    obtain ⟨ih1, ih2⟩ := envxRun_spec reject os _ h3
    simp only [EnvX.run, pureX]
    exact ⟨by rw [h1, ih1, h2], ih2⟩

end UPVerif.Dag
