import UPVerif.Lemmas.FromPddlEffThm
/-!
C21, effects: the agreement theorem `eff_agree` (structural induction on the effect tree) and its corollary for the two
loops (`readEffects` of the first reader, `convEffects` of the converter).
-/
namespace UPVerif.FromPddl
open UPVerif UPVerif.Expr UPVerif.Pddl

theorem effOKL_and (fl : List FluentRef) (C : PCtx) (rest : List Sexp) (φs : List Form) (hφ : astCEffects C rest = some φs)
    (h : effOKL fl C (.atom "and" :: rest) = true) : effOKs fl C rest = true ∧ φs.Nodup := by
  rw [effOKL.eq_def] at h
  simpa [hφ] using h

theorem effOKL_when (fl : List FluentRef) (C : PCtx) (c e : Sexp) (h : effOKL fl C [.atom "when", c, e] = true) :
    gdOK fl C c = true ∧ effOK fl C e = true := by
  rw [effOKL.eq_def] at h
  simpa using h

theorem effOKL_forall (fl : List FluentRef) (C : PCtx) (vl : List Sexp) (e : Sexp)
    (h : effOKL fl C [.atom "forall", .list vl, e] = true) : varsNodup vl = true ∧ effOK fl C e = true := by
  rw [effOKL.eq_def] at h
  simpa using h

theorem effOKL_assign (fl : List FluentRef) (C : PCtx) (hd : String) (kU : EffKind) (hk : assignKind? hd = some kU)
    (rest : List Sexp) (h : effOKL fl C (.atom hd :: rest) = true) : fexpOKs C rest = true := by
  rw [effOKL.eq_def] at h
  rcases assign_kinds hk with ⟨rfl, _⟩ | ⟨rfl, _⟩ | ⟨rfl, _⟩ <;> simpa [assignOp?] using h

section
variable {E : REnv} {CE : CEnv} {ps : List (String × Ty)} {hc : Bool} {tc : Expr}
  (ag : EnvAgree E CE ps) (nm : NamesOK E) (C : PCtx) (ca : CostAgree E hc tc)
include ag nm ca

mutual
/-- **effects**: what the two walks yield from one effect tree is the same up to order and `EffRel` -/
theorem eff_agree : ∀ (t : Sexp) (cond : Expr) (vars : List Var) (rs : List Effect) (φ : Form) (cond' : Expr)
    (rs' : List Effect), UYield E ⟨t, cond, vars⟩ rs → AstEff C t φ → AYield CE hc ps tc ⟨φ, vars, cond'⟩ rs' →
    GdRel cond cond' → effOK E.fluents C t = true → EffsRel rs rs'
  | .atom _, _, _, _, _, _, _, hU, _, _, _, _ => by
    obtain ⟨es, more, r, hs, _, _⟩ := hU.inv
    unfold Pddl.effStep at hs
    simp at hs
  | .list xs, cond, vars, rs, φ, cond', rs', hU, hA, hQ, hcnd, hok => by
    rw [effOK] at hok
    exact effL_agree xs cond vars rs φ cond' rs' hU hA hQ hcnd hok
theorem effL_agree : ∀ (xs : List Sexp) (cond : Expr) (vars : List Var) (rs : List Effect) (φ : Form) (cond' : Expr)
    (rs' : List Effect), UYield E ⟨.list xs, cond, vars⟩ rs → AstEff C (.list xs) φ →
    AYield CE hc ps tc ⟨φ, vars, cond'⟩ rs' → GdRel cond cond' → effOKL E.fluents C xs = true → EffsRel rs rs'
  | [], _, _, _, φ, _, _, _, hA, _, _, _ => by
    rcases hA with h | h | h | h
    · rw [astEffect, astEffectL] at h; cases h
    · rw [astCEffect, astCEffectL] at h; cases h
    · unfold astCondEffect astPEffect at h; cases h
    · unfold astPEffect at h; cases h
  | .list _ :: _, _, _, _, φ, _, _, _, hA, _, _, _ => by
    rcases hA with h | h | h | h
    · rw [astEffect, astEffectL] at h; cases h
    · rw [astCEffect, astCEffectL] at h; cases h
    · unfold astCondEffect astPEffect at h; simp at h
    · unfold astPEffect at h; cases h
  | .atom hd :: rest, cond, vars, rs, φ, cond', rs', hU, hA, hQ, hcnd, hok => by
    by_cases hand : hd = "and"
    · -- a conjunction of effects
      subst hand
      obtain ⟨φs, hφs, rfl⟩ := astEff_and hA
      have hφC : astCEffects C rest = some φs := by
        rcases hφs with h | h
        · exact h
        · exact astCEffects_of_P h
      obtain ⟨hall, hno⟩ := all2_astEff_C hφC
      obtain ⟨hoks, hnd⟩ := effOKL_and _ C rest φs hφC hok
      have hUs := hU.node (ustep_and E rest cond vars)
      rw [mkOp_and_plain φs hnd hno] at hQ
      clear hnd hno hφs hφC
      match φs, hall, hQ with
      | [x], hall, hQ =>
        have hQ' : AYield CE hc ps tc ⟨x, vars, cond'⟩ rs' := hQ
        have hQs : AYields CE hc ps tc ([x].map (fun e => (⟨e, vars, cond'⟩ : EItem))) (rs' ++ []) :=
          AYields.cons hQ' AYields.nil
        rw [List.append_nil] at hQs
        exact effs_agree rest cond vars rs [x] cond' rs' hUs hall hQs hcnd hoks
      | [], hall, hQ =>
        have hQ' : AYield CE hc ps tc ⟨.op .and [], vars, cond'⟩ rs' := hQ
        exact effs_agree rest cond vars rs [] cond' rs' hUs hall (hQ'.inv_push (astep_and CE hc ps [] vars cond')) hcnd hoks
      | a :: b :: l, hall, hQ =>
        have hQ' : AYield CE hc ps tc ⟨.op .and (a :: b :: l), vars, cond'⟩ rs' := hQ
        exact effs_agree rest cond vars rs (a :: b :: l) cond' rs' hUs hall
          (hQ'.inv_push (astep_and CE hc ps (a :: b :: l) vars cond')) hcnd hoks
    · by_cases hwhen : hd = "when"
      · -- a conditional effect
        subst hwhen
        match rest, hU, hA, hok with
        | [c, e], hU, hA, hok =>
          obtain ⟨cφ, eφ, hcφ, heφ, rfl⟩ := astEff_when hA
          obtain ⟨hokc, hoke⟩ := effOKL_when _ C c e hok
          obtain ⟨o, ho⟩ := hQ.defined
          have hstepA := astep_when CE hc ps cφ eφ vars cond'
          rw [hstepA] at ho
          split at ho
          · cases ho
          · rename_i hct
            simp only [hct, Bool.false_eq_true, if_false] at hstepA
            cases hcc : convExpr CE ps vars cφ with
            | none => simp [hcc] at ho
            | some cc' =>
              rw [hcc, Option.map_some] at hstepA
              have hQs := hQ.inv_push hstepA
              obtain ⟨r', r2', hQe, hnil', rfl⟩ := hQs.cons_inv
              rw [hnil'.nil_inv, List.append_nil]
              -- first reader
              obtain ⟨es, more, r, hstep, hmore, rfl⟩ := hU.inv
              rw [ustep_when, Option.map_eq_some_iff] at hstep
              obtain ⟨cu, hcu, hpair⟩ := hstep
              cases hpair
              obtain ⟨r1, r2, hUe, hnil, rfl⟩ := hmore.cons_inv
              rw [hnil.nil_inv, List.append_nil, List.nil_append]
              have hg := gd_agree ag nm C c vars vars cu cφ cc' (scope_refl vars) hcu hcφ hcc hokc
              exact eff_agree e cu vars r1 eφ cc' r' hUe (Or.inr (Or.inr (Or.inl heφ))) hQe hg hoke
        | [], hU, _, _ =>
          obtain ⟨es, more, r, hs, _, _⟩ := hU.inv
          unfold Pddl.effStep at hs; simp at hs
        | [_], hU, _, _ =>
          obtain ⟨es, more, r, hs, _, _⟩ := hU.inv
          unfold Pddl.effStep at hs; simp at hs
        | _ :: _ :: _ :: _, hU, _, _ =>
          obtain ⟨es, more, r, hs, _, _⟩ := hU.inv
          unfold Pddl.effStep at hs; simp at hs
      · by_cases hforall : hd = "forall"
        · -- a universal effect
          subst hforall
          match rest, hU, hA, hok with
          | [.list vl, e], hU, hA, hok =>
            obtain ⟨tvs, eφ, htvs, heφ, rfl⟩ := astEff_forall hA
            obtain ⟨hokv, hoke⟩ := effOKL_forall _ C vl e hok
            obtain ⟨o, ho⟩ := hQ.defined
            have hstepA := astep_forall CE hc ps tvs eφ vars cond'
            rw [hstepA] at ho
            cases hups : effVariables CE.types tvs with
            | none => simp [hups] at ho
            | some ups =>
              rw [hups, Option.map_some] at hstepA
              have hQs := hQ.inv_push hstepA
              obtain ⟨r', r2', hQe, hnil', rfl⟩ := hQs.cons_inv
              rw [hnil'.nil_inv, List.append_nil]
              obtain ⟨es, more, r, hstep, hmore, rfl⟩ := hU.inv
              rw [ustep_forall] at hstep
              split at hstep
              · cases hstep
              · rename_i hve
                have hvars : vars = [] := by simpa using hve
                subst hvars
                rw [Option.map_eq_some_iff] at hstep
                obtain ⟨vs, hvs, hpair⟩ := hstep
                cases hpair
                obtain ⟨r1, r2, hUe, hnil, rfl⟩ := hmore.cons_inv
                rw [hnil.nil_inv, List.append_nil, List.nil_append]
                rw [effVariables_eq CE.types tvs (astVars_tags htvs)] at hups
                obtain ⟨heq, hnd⟩ := vars_agree E CE.types ag.types_id vl vs tvs ups hvs htvs hups hokv
                subst heq
                rw [qvUpdate_nil vs hnd] at hQe
                exact eff_agree e cond vs r1 eφ cond' r' hUe (Or.inl heφ) hQe hcnd hoke
          | [], hU, _, _ =>
            obtain ⟨es, more, r, hs, _, _⟩ := hU.inv
            unfold Pddl.effStep at hs; simp at hs
          | [_], hU, _, _ =>
            obtain ⟨es, more, r, hs, _, _⟩ := hU.inv
            unfold Pddl.effStep at hs; simp at hs
          | [.atom _, _], hU, _, _ =>
            obtain ⟨es, more, r, hs, _, _⟩ := hU.inv
            unfold Pddl.effStep at hs; simp at hs
          | _ :: _ :: _ :: _, hU, _, _ =>
            obtain ⟨es, more, r, hs, _, _⟩ := hU.inv
            unfold Pddl.effStep at hs; simp at hs
        · -- a leaf
          have h1 : (hd == "forall") = false := by simpa using hforall
          have h2 : (hd == "when") = false := by simpa using hwhen
          have h3 : (hd == "and") = false := by simpa using hand
          have hP := astEff_leaf h1 h2 h3 hA
          by_cases hnot : hd = "not"
          · subst hnot
            match rest, hU, hP with
            | [x], hU, hP => exact leaf_not ag nm C x φ cond cond' vars rs rs' hcnd hU hP hQ
            | [], hU, _ =>
              obtain ⟨es, more, r, hs, _, _⟩ := hU.inv
              unfold Pddl.effStep at hs; simp at hs
            | _ :: _ :: _, hU, _ =>
              obtain ⟨es, more, r, hs, _, _⟩ := hU.inv
              unfold Pddl.effStep at hs; simp at hs
          · cases hk : assignKind? hd with
            | some kU =>
              exact leaf_assign ag nm C ca hd kU hk rest φ cond cond' vars rs rs' hcnd hU hP hQ
                (effOKL_assign _ C hd kU hk rest hok)
            | none =>
              have hh : isEffHead hd = false := by
                unfold assignKind? at hk
                unfold isEffHead
                have h4 : (hd == "not") = false := by simpa using hnot
                cases ha : (hd == "assign") <;> cases hi : (hd == "increase") <;> cases hde : (hd == "decrease") <;>
                  simp [ha, hi, hde, h1, h2, h3, h4] at hk ⊢
              exact leaf_pred ag nm C hd hh rest φ cond cond' vars rs rs' hcnd hU hP hQ
theorem effs_agree : ∀ (xs : List Sexp) (cond : Expr) (vars : List Var) (rs : List Effect) (φs : List Form) (cond' : Expr)
    (rs' : List Effect), UYields E (xs.map (fun s => (⟨s, cond, vars⟩ : Pddl.EffItem))) rs → All2 (AstEff C) xs φs →
    AYields CE hc ps tc (φs.map (fun e => (⟨e, vars, cond'⟩ : EItem))) rs' → GdRel cond cond' →
    effOKs E.fluents C xs = true → EffsRel rs rs'
  | [], _, _, rs, φs, _, rs', hU, hall, hQ, _, _ => by
    match φs, hall, hQ with
    | [], _, hQ =>
      rw [hU.nil_inv, hQ.nil_inv]
      exact EffsRel.nil
  | x :: xs, cond, vars, rs, φs, cond', rs', hU, hall, hQ, hcnd, hok => by
    match φs, hall, hQ with
    | φ :: φs, hall, hQ =>
      obtain ⟨r1, r2, hU1, hU2, rfl⟩ := hU.cons_inv
      obtain ⟨r1', r2', hQ1, hQ2, rfl⟩ := hQ.cons_inv
      obtain ⟨hok1, hok2⟩ := effOKs_cons hok
      exact (eff_agree x cond vars r1 φ cond' r1' hU1 hall.1 hQ1 hcnd hok1).append
        (effs_agree xs cond vars r2 φs cond' r2' hU2 hall.2 hQ2 hcnd hok2)
end

end

end UPVerif.FromPddl
