import UPVerif.Core.Compile.Invariant
import UPVerif.Core.Compile.Hyps
import UPVerif.Lemmas.CompileTS
import UPVerif.Lemmas.CompileAgree
/-!
BoundedTypesRemover, part 1: the renaming of fluent symbols.

The compiled problem declares NEW fluents (same name and signature, unbounded type), so a ground fluent of the
compiled problem is a different key `(unboundRef f, args)`.  This file shows that

* on expressions in the expression manager's normal form (`normal`: what every real `FNode` satisfies — no
  0/1-ary `And`/`Or`/`Plus`/`Times`, no double negation) `FluentsSubstituter.substitute_fluents` (`retype`) is the
  plain renaming `rn` of the fluent symbols;
* evaluation commutes with the renaming: `eval` of `rn e` in a compiled state equals `eval` of `e` in every original
  state that agrees with it on the declared fluents (`Rel`).
-/
namespace UPVerif.Compile
open UPVerif UPVerif.Expr UPVerif.Sim UPVerif.Spec

/-! ### the renaming -/

def rnOp : Op → Op
  | .fluent f => .fluent (unboundRef f)
  | op => op

mutual
/-- every fluent symbol replaced by its unbounded copy, nothing rebuilt -/
def rn : Expr → Expr
  | .leaf l => .leaf l
  | .app op args => .app (rnOp op) (rnList args)
  | .quant q vs b => .quant q vs (rn b)
def rnList : List Expr → List Expr
  | [] => []
  | e :: es => rn e :: rnList es
end

def rnKey (k : GKey) : GKey := (unboundRef k.1, k.2)

def rnFired : Fired → Fired
  | .setB k b => .setB (rnKey k) b
  | .setV k v => .setV (rnKey k) v
  | .delta k d => .delta (rnKey k) d

def rnEff (e : Effect) : Effect :=
  { fluent := rn e.fluent, value := rn e.value, cond := rn e.cond, kind := e.kind, forall_ := e.forall_ }

theorem rnList_eq_map : ∀ es : List Expr, rnList es = es.map rn
  | [] => rfl
  | e :: es => by rw [rnList, List.map_cons, rnList_eq_map es]

/-! ### manager-normal expressions (`normal`, Core/Compile/Hyps.lean) -/

theorem isNot_rn (x : Expr) : isNot (rn x) = isNot x := by
  cases x with
  | leaf l => simp [rn, isNot]
  | quant q vs b => simp [rn, isNot]
  | app op args =>
    cases op <;> simp only [rn, rnOp, isNot]
    -- only `.not` is left with a non-trivial match
    cases args with
    | nil => simp [rnList]
    | cons a as =>
      cases as with
      | nil => simp [rnList]
      | cons b bs => simp [rnList]

theorem rebuild_rn {op : Op} {args : List Expr} (h : shapeOK op args = true) :
    rebuild (rnOp op) (rnList args) = .app (rnOp op) (rnList args) := by
  cases op with
  | and | or | plus | times =>
    simp only [shapeOK, decide_eq_true_eq] at h
    match args, h with
    | a :: b :: t, _ => simp [rnOp, rnList, rebuild, mkAnd, mkOr, mkPlus, mkTimes]
  | not =>
    match args with
    | [] => rfl
    | [x] =>
      simp only [shapeOK, Bool.not_eq_true'] at h
      have h' : isNot (rn x) = false := by rw [isNot_rn]; exact h
      simp only [rnOp, rnList, rebuild]
      unfold mkNot
      split
      · rename_i y hy; rw [hy] at h'; simp [isNot] at h'
      · rfl
    | a :: b :: t => rfl
  | _ => rfl


/-- on manager-normal expressions `FluentsSubstituter.substitute_fluents` is the renaming -/
theorem retype_eq_rn : (∀ e, normal e = true → retype e = rn e) ∧
    (∀ es, normalList es = true → retypeList es = rnList es) := by
  have key : ∀ n, (∀ e, e.size ≤ n → normal e = true → retype e = rn e) ∧
      (∀ es, Expr.sizeList es ≤ n → normalList es = true → retypeList es = rnList es) := by
    intro n
    induction n with
    | zero =>
      constructor
      · intro e he; cases e <;> simp [Expr.size] at he
      · intro es he _
        cases es with
        | nil => rfl
        | cons x xs =>
          simp [Expr.sizeList] at he
          cases x <;> simp [Expr.size] at he
    | succ n ih =>
      have hexpr : ∀ e, e.size ≤ n + 1 → normal e = true → retype e = rn e := by
        intro e he hn
        cases e with
        | leaf l => simp [retype, rn]
        | app op args =>
          simp only [Expr.size] at he
          simp only [normal, Bool.and_eq_true] at hn
          have hl := ih.2 args (by omega) hn.2
          have hr := rebuild_rn hn.1
          cases op with
          | fluent f => simp only [retype, rn, rnOp, hl]
          | _ => simp only [retype, rn, hl] <;> exact hr
        | quant q vs b =>
          simp only [Expr.size] at he
          simp only [normal] at hn
          simp only [retype, rn, ih.1 b (by omega) hn]
      refine ⟨hexpr, ?_⟩
      intro es he hn
      cases es with
      | nil => rfl
      | cons x xs =>
        simp only [Expr.sizeList] at he
        simp only [normalList, Bool.and_eq_true] at hn
        have hx : 1 ≤ x.size := by cases x <;> simp [Expr.size] <;> omega
        simp only [retypeList, rnList]
        rw [hexpr x (by omega) hn.1, ih.2 xs (by omega) hn.2]
  exact ⟨fun e => (key e.size).1 e (Nat.le_refl _), fun es => (key (Expr.sizeList es)).2 es (Nat.le_refl _)⟩

theorem normalList_iff {es : List Expr} : normalList es = true ↔ ∀ e ∈ es, normal e = true := by
  induction es with
  | nil => simp [normalList]
  | cons x xs ih => simp [normalList, ih]

theorem retype_map_eq {es : List Expr} (h : ∀ e ∈ es, normal e = true) : es.map retype = es.map rn :=
  List.map_congr_left (fun e he => retype_eq_rn.1 e (h e he))

/-! ### what the renaming keeps -/

theorem freeVars_rn : (∀ e, freeVars (rn e) = freeVars e) ∧ (∀ es, freeVarsList (rnList es) = freeVarsList es) := by
  have key : ∀ n, (∀ e, e.size ≤ n → freeVars (rn e) = freeVars e) ∧
      (∀ es, Expr.sizeList es ≤ n → freeVarsList (rnList es) = freeVarsList es) := by
    intro n
    induction n with
    | zero =>
      constructor
      · intro e he; cases e <;> simp [Expr.size] at he
      · intro es he
        cases es with
        | nil => rfl
        | cons x xs =>
          simp [Expr.sizeList] at he
          cases x <;> simp [Expr.size] at he
    | succ n ih =>
      have hexpr : ∀ e, e.size ≤ n + 1 → freeVars (rn e) = freeVars e := by
        intro e he
        cases e with
        | leaf l => rfl
        | app op args =>
          simp only [Expr.size] at he
          simp only [rn, freeVars, ih.2 args (by omega)]
        | quant q vs b =>
          simp only [Expr.size] at he
          simp only [rn, freeVars, ih.1 b (by omega)]
      refine ⟨hexpr, ?_⟩
      intro es he
      cases es with
      | nil => rfl
      | cons x xs =>
        simp only [Expr.sizeList] at he
        have hx : 1 ≤ x.size := by cases x <;> simp [Expr.size] <;> omega
        simp only [rnList, freeVarsList]
        rw [hexpr x (by omega), ih.2 xs (by omega)]
  exact ⟨fun e => (key e.size).1 e (Nat.le_refl _), fun es => (key (Expr.sizeList es)).2 es (Nat.le_refl _)⟩

theorem constVal_rn (e : Expr) : constVal? (rn e) = constVal? e := by
  cases e with
  | leaf l => rfl
  | app op args => rfl
  | quant q vs b => rfl

theorem mapM_constVal_rn : ∀ es : List Expr, (rnList es).mapM constVal? = es.mapM constVal?
  | [] => rfl
  | e :: es => by
    rw [rnList, List.mapM_cons, List.mapM_cons, constVal_rn, mapM_constVal_rn es]

/-! ### evaluation commutes with the renaming -/

/-- the original state `gA` reads, on the fluents `D`, what the compiled state `gB` holds for their copies -/
def Rel (D : List FluentRef) (gB gA : St) : Prop := ∀ f ∈ D, ∀ vs, gA (f, vs) = gB (unboundRef f, vs)

/-- two evaluation contexts over related states -/
structure RelCtx (D : List FluentRef) (cB cA : EvalCtx) : Prop where
  objs : cB.objs = cA.objs
  fn : cB.fn = cA.fn
  get : Rel D cB.get cA.get

theorem evalOp_rn {D : List FluentRef} {cB cA : EvalCtx} (h : RelCtx D cB cA) (op : Op) (vs : List Val)
    (hop : ∀ f, op = .fluent f → f ∈ D) : evalOp cB (rnOp op) vs = evalOp cA op vs := by
  cases op with
  | fluent f =>
    have := h.get f (hop f rfl) vs
    simp only [rnOp, evalOp, this]
  | div =>
    simp only [rnOp]
    unfold evalOp
    split
    · rename_i heq; cases heq
    · rfl
    · rw [h.fn]
  | _ => simp only [rnOp, evalOp, h.fn]

theorem eval_rn {D : List FluentRef} {cB cA : EvalCtx} (h : RelCtx D cB cA) :
    (∀ e ρ, refsIn D e = true → eval cB ρ (rn e) = eval cA ρ e) ∧
    (∀ es ρ, refsInList D es = true → evalList cB ρ (rnList es) = evalList cA ρ es) := by
  have key : ∀ n, (∀ e, e.size ≤ n → ∀ ρ, refsIn D e = true → eval cB ρ (rn e) = eval cA ρ e) ∧
      (∀ es, Expr.sizeList es ≤ n → ∀ ρ, refsInList D es = true → evalList cB ρ (rnList es) = evalList cA ρ es) := by
    intro n
    induction n with
    | zero =>
      constructor
      · intro e he; cases e <;> simp [Expr.size] at he
      · intro es he ρ _
        cases es with
        | nil => rfl
        | cons x xs =>
          simp [Expr.sizeList] at he
          cases x <;> simp [Expr.size] at he
    | succ n ih =>
      have hexpr : ∀ e, e.size ≤ n + 1 → ∀ ρ, refsIn D e = true → eval cB ρ (rn e) = eval cA ρ e := by
        intro e he ρ hm
        cases e with
        | leaf l => rfl
        | app op args =>
          simp only [Expr.size] at he
          simp only [refsIn, Bool.and_eq_true] at hm
          have hop : ∀ f, op = .fluent f → f ∈ D := by
            intro f hf; subst hf
            simpa using hm.1
          simp only [rn, eval]
          rw [ih.2 args (by omega) ρ hm.2]
          cases evalList cA ρ args with
          | error x => rfl
          | ok vs => exact evalOp_rn h op vs hop
        | quant q vs b =>
          simp only [Expr.size] at he
          simp only [refsIn] at hm
          simp only [rn, eval]
          rw [qAssignments_congr h.objs]
          cases q with
          | ex => exact existsLoop_congr (fun a => ih.1 b (by omega) (a ++ ρ) hm) _
          | all => exact forallLoop_congr (fun a => ih.1 b (by omega) (a ++ ρ) hm) _
      refine ⟨hexpr, ?_⟩
      intro es he ρ hm
      cases es with
      | nil => rfl
      | cons x xs =>
        simp only [Expr.sizeList] at he
        simp only [refsInList, Bool.and_eq_true] at hm
        have hx : 1 ≤ x.size := by cases x <;> simp [Expr.size] <;> omega
        simp only [rnList, evalList]
        rw [ih.2 xs (by omega) ρ hm.2, hexpr x (by omega) ρ hm.1]
  exact ⟨fun e ρ hm => (key e.size).1 e (Nat.le_refl _) ρ hm,
         fun es ρ hm => (key (Expr.sizeList es)).2 es (Nat.le_refl _) ρ hm⟩

theorem refsInList_iff {D : List FluentRef} {es : List Expr} :
    refsInList D es = true ↔ ∀ e ∈ es, refsIn D e = true := by
  induction es with
  | nil => simp [refsInList]
  | cons x xs ih => simp [refsInList, ih]

theorem evalArgs_rn {D : List FluentRef} {cB cA : EvalCtx} (h : RelCtx D cB cA) : ∀ (args : List Expr),
    refsInList D args = true → evalArgs cB (rnList args) = evalArgs cA args
  | [], _ => rfl
  | a :: as, hm => by
    simp only [refsInList, Bool.and_eq_true] at hm
    simp only [rnList, evalArgs, (eval_rn h).1 a [] hm.1, evalArgs_rn h as hm.2]

theorem preOK_rn {D : List FluentRef} {cB cA : EvalCtx} (h : RelCtx D cB cA) {l : List Expr}
    (hl : ∀ e ∈ l, refsIn D e = true) : preOK cB (l.map rn) = preOK cA l := by
  induction l with
  | nil => rfl
  | cons x xs ih =>
    rw [List.map_cons, preOK_cons, preOK_cons, (eval_rn h).1 x [] (hl x (List.mem_cons_self ..)),
      ih (fun e he => hl e (List.mem_cons_of_mem _ he))]

end UPVerif.Compile
