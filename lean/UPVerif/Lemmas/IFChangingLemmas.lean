import UPVerif.Core.IFChanging
import Batteries.Data.List.Perm
/-! Helper lemmas for `Props/C31Closure.lean`: the sweep of `_find_changing_fluents` only appends, its loop ends in a
set that one more sweep does not change, every member is justified by a dependency chain, and the fuel suffices. -/
namespace UPVerif.IFChanging
open UPVerif

/-! ### the walker models -/

/-- head fluent of a fluent application -/
def headFluent? : Expr → Option FluentRef
  | .app (.fluent f) _ => some f
  | _ => none

mutual
/-- `fluentsRead` is `f_e.fluent()` mapped over the model of `FreeVarsExtractor.get` (`Expr.fluentExps`) -/
theorem fluentsRead_eq_fluentExps : ∀ e : Expr, fluentsRead e = (Expr.fluentExps e).filterMap headFluent?
  | .leaf _ => by simp [fluentsRead, Expr.fluentExps]
  | .app op args => by
    have ih := fluentsReadList_eq_fluentExpsList args
    cases op <;> simp [fluentsRead, Expr.fluentExps, opFluent, ih, headFluent?, List.filterMap_append]
  | .quant _ _ b => by
    rw [fluentsRead, Expr.fluentExps]; exact fluentsRead_eq_fluentExps b
theorem fluentsReadList_eq_fluentExpsList : ∀ es : List Expr,
    fluentsReadList es = (Expr.fluentExpsList es).filterMap headFluent?
  | [] => by simp [fluentsReadList, Expr.fluentExpsList]
  | e :: es => by
    rw [fluentsReadList, Expr.fluentExpsList, List.filterMap_append, fluentsRead_eq_fluentExps e,
      fluentsReadList_eq_fluentExpsList es]
end

/-! ### `add`, `visit`, `sweep` only append -/

theorem mem_add {f g : FluentRef} {found : List FluentRef} : g ∈ add f found ↔ g = f ∨ g ∈ found := by
  unfold add
  by_cases h : found.contains f = true
  · rw [if_pos h]
    constructor
    · exact Or.inr
    · rintro (rfl | h')
      · simpa using h
      · exact h'
  · rw [if_neg h]; simp [or_comm]

theorem add_prefix (f : FluentRef) (found : List FluentRef) : ∃ t, add f found = found ++ t := by
  unfold add
  split
  · exact ⟨[], by simp⟩
  · exact ⟨[f], rfl⟩

theorem add_nodup {f : FluentRef} {found : List FluentRef} (h : found.Nodup) : (add f found).Nodup := by
  unfold add
  by_cases hc : found.contains f = true
  · rw [if_pos hc]; exact h
  · rw [if_neg hc]
    have : f ∉ found := by simpa using hc
    rw [List.nodup_append]
    exact ⟨h, by simp, by intro a ha b hb; simp at hb; subst hb; intro e; subst e; exact this ha⟩

theorem visit_cases (found : List FluentRef) (ef : Effect) :
    visit found ef = found ∨ ∃ f, target? ef = some f ∧ visit found ef = add f found ∧
      (hasIfun ef.value = true ∨ (hasIfun ef.value = false ∧ ∃ g ∈ reads ef, g ∈ found)) := by
  unfold visit
  cases ht : target? ef with
  | none => exact Or.inl rfl
  | some f =>
    simp only
    by_cases hi : hasIfun ef.value = true
    · rw [if_pos hi]; exact Or.inr ⟨f, rfl, rfl, Or.inl hi⟩
    · rw [if_neg hi]
      by_cases ha : (reads ef).any (fun g => found.contains g) = true
      · rw [if_pos ha]
        refine Or.inr ⟨f, rfl, rfl, Or.inr ⟨by simpa using hi, ?_⟩⟩
        obtain ⟨g, hg, hc⟩ := List.any_eq_true.mp ha
        exact ⟨g, hg, by simpa using hc⟩
      · rw [if_neg ha]; exact Or.inl rfl

theorem visit_prefix (found : List FluentRef) (ef : Effect) : ∃ t, visit found ef = found ++ t := by
  rcases visit_cases found ef with h | ⟨f, _, h, _⟩
  · exact ⟨[], by simp [h]⟩
  · rw [h]; exact add_prefix f found

theorem sweep_prefix : ∀ (effs : List Effect) (found : List FluentRef), ∃ t, sweep effs found = found ++ t
  | [], found => ⟨[], by simp [sweep]⟩
  | ef :: effs, found => by
    obtain ⟨t, ht⟩ := visit_prefix found ef
    obtain ⟨t', ht'⟩ := sweep_prefix effs (visit found ef)
    refine ⟨t ++ t', ?_⟩
    unfold sweep at ht' ⊢
    rw [List.foldl_cons, ht', ht, List.append_assoc]

theorem sweep_cons (ef : Effect) (effs : List Effect) (found : List FluentRef) :
    sweep (ef :: effs) found = sweep effs (visit found ef) := by
  simp [sweep]

theorem length_le_sweep (effs : List Effect) (found : List FluentRef) : found.length ≤ (sweep effs found).length := by
  obtain ⟨t, ht⟩ := sweep_prefix effs found
  rw [ht]; simp

theorem sweep_eq_of_length_le {effs : List Effect} {found : List FluentRef}
    (h : (sweep effs found).length ≤ found.length) : sweep effs found = found := by
  obtain ⟨t, ht⟩ := sweep_prefix effs found
  rw [ht] at h ⊢
  have : t = [] := by
    cases t with
    | nil => rfl
    | cons a t => simp at h; omega
  simp [this]

theorem visit_nodup {found : List FluentRef} (ef : Effect) (h : found.Nodup) : (visit found ef).Nodup := by
  rcases visit_cases found ef with h' | ⟨f, _, h', _⟩
  · rw [h']; exact h
  · rw [h']; exact add_nodup h

theorem sweep_nodup : ∀ (effs : List Effect) {found : List FluentRef}, found.Nodup → (sweep effs found).Nodup
  | [], _, h => by simpa [sweep] using h
  | ef :: effs, _, h => by rw [sweep_cons]; exact sweep_nodup effs (visit_nodup ef h)

/-! ### closed sets -/

/-- one more visit of any effect changes nothing -/
def Closed (effs : List Effect) (S : List FluentRef) : Prop := ∀ ef ∈ effs, visit S ef = S

theorem closed_of_sweep_eq : ∀ (effs : List Effect) (S : List FluentRef), sweep effs S = S → Closed effs S
  | [], _, _ => by intro ef h; cases h
  | ef :: effs, S, h => by
    rw [sweep_cons] at h
    obtain ⟨t, ht⟩ := visit_prefix S ef
    obtain ⟨t', ht'⟩ := sweep_prefix effs (visit S ef)
    have hv : visit S ef = S := by
      rw [ht', ht, List.append_assoc] at h
      have : t ++ t' = [] := by
        have := congrArg List.length h
        simp at this
        cases t with
        | nil => cases t' with
          | nil => rfl
          | cons _ _ => simp at this
        | cons _ _ => simp at this <;> omega
      have : t = [] := (List.append_eq_nil_iff.mp this).1
      rw [ht, this]; simp
    rw [hv] at h
    intro ef' hef'
    rcases List.mem_cons.mp hef' with rfl | hm
    · exact hv
    · exact closed_of_sweep_eq effs S h ef' hm

theorem sweep_eq_of_closed : ∀ (effs : List Effect) (S : List FluentRef), Closed effs S → sweep effs S = S
  | [], _, _ => by simp [sweep]
  | ef :: effs, S, h => by
    rw [sweep_cons, h ef (List.mem_cons_self ..)]
    exact sweep_eq_of_closed effs S (fun e he => h e (List.mem_cons_of_mem _ he))

/-- what `Closed` says effect by effect: the rule of the `if ifs … else …` -/
theorem closed_rule {effs : List Effect} {S : List FluentRef} (h : Closed effs S) {ef : Effect} (hef : ef ∈ effs)
    {f : FluentRef} (ht : target? ef = some f) :
    (hasIfun ef.value = true → f ∈ S) ∧ (hasIfun ef.value = false → ∀ g ∈ reads ef, g ∈ S → f ∈ S) := by
  have hv := h ef hef
  unfold visit at hv
  rw [ht] at hv
  simp only at hv
  constructor
  · intro hi
    rw [if_pos hi] at hv
    rw [← hv]; exact mem_add.mpr (Or.inl rfl)
  · intro hi g hg hgS
    rw [if_neg (by simp [hi])] at hv
    have ha : (reads ef).any (fun g => S.contains g) = true :=
      List.any_eq_true.mpr ⟨g, hg, by simpa using hgS⟩
    rw [if_pos ha] at hv
    rw [← hv]; exact mem_add.mpr (Or.inl rfl)

/-- the converse: a set satisfying the rule for every effect is not changed by a visit -/
theorem closed_of_rule {effs : List Effect} {S : List FluentRef}
    (h : ∀ ef ∈ effs, ∀ f, target? ef = some f →
      (hasIfun ef.value = true → f ∈ S) ∧ (hasIfun ef.value = false → ∀ g ∈ reads ef, g ∈ S → f ∈ S)) :
    Closed effs S := by
  intro ef hef
  rcases visit_cases S ef with hv | ⟨f, ht, hv, hwhy⟩
  · exact hv
  · rw [hv]
    have hf : f ∈ S := by
      rcases hwhy with hi | ⟨hi, g, hg, hgS⟩
      · exact (h ef hef f ht).1 hi
      · exact (h ef hef f ht).2 hi g hg hgS
    unfold add
    rw [if_pos (by simpa using hf)]

/-! ### the loop ends in a closed set -/

theorem loop_closed (effs : List Effect) : ∀ (fuel : Nat) (found : List FluentRef) (ls le : Nat) (S : List FluentRef),
    (le ≤ ls → sweep effs found = found) → loop effs fuel found ls le = some S → sweep effs S = S
  | 0, _, _, _, _, _, h => by simp [loop] at h
  | fuel + 1, found, ls, le, S, hinv, h => by
    unfold loop at h
    by_cases hgt : le > ls
    · rw [if_pos hgt] at h
      refine loop_closed effs fuel (sweep effs found) found.length (sweep effs found).length S ?_ h
      intro hle
      rw [sweep_eq_of_length_le hle, sweep_eq_of_length_le hle]
    · rw [if_neg hgt] at h
      cases h
      exact hinv (by omega)

/-! ### every member is justified: the least closed set -/

/-- `f` depends (transitively) on the result of an interpreted function: it is assigned a value containing one, or
    assigned by an effect whose value or condition reads a fluent that does -/
inductive Dep (effs : List Effect) : FluentRef → Prop where
  | direct {ef : Effect} {f : FluentRef} : ef ∈ effs → target? ef = some f → hasIfun ef.value = true → Dep effs f
  | step {ef : Effect} {f g : FluentRef} : ef ∈ effs → target? ef = some f → hasIfun ef.value = false →
      g ∈ reads ef → Dep effs g → Dep effs f

theorem visit_dep {effs : List Effect} {found : List FluentRef} {ef : Effect} (hef : ef ∈ effs)
    (h : ∀ g ∈ found, Dep effs g) : ∀ g ∈ visit found ef, Dep effs g := by
  rcases visit_cases found ef with hv | ⟨f, ht, hv, hwhy⟩
  · rw [hv]; exact h
  · rw [hv]
    intro g hg
    rcases mem_add.mp hg with rfl | hg'
    · rcases hwhy with hi | ⟨hi, g', hg', hgS⟩
      · exact Dep.direct hef ht hi
      · exact Dep.step hef ht hi hg' (h g' hgS)
    · exact h g hg'

theorem sweep_dep {effs : List Effect} : ∀ (es : List Effect), (∀ e ∈ es, e ∈ effs) → ∀ (found : List FluentRef),
    (∀ g ∈ found, Dep effs g) → ∀ g ∈ sweep es found, Dep effs g
  | [], _, _, h => by simpa [sweep] using h
  | e :: es, hsub, found, h => by
    rw [sweep_cons]
    exact sweep_dep es (fun x hx => hsub x (List.mem_cons_of_mem _ hx)) _
      (visit_dep (hsub e (List.mem_cons_self ..)) h)

theorem loop_dep (effs : List Effect) : ∀ (fuel : Nat) (found : List FluentRef) (ls le : Nat) (S : List FluentRef),
    (∀ g ∈ found, Dep effs g) → loop effs fuel found ls le = some S → ∀ g ∈ S, Dep effs g
  | 0, _, _, _, _, _, h => by simp [loop] at h
  | fuel + 1, found, ls, le, S, hd, h => by
    unfold loop at h
    by_cases hgt : le > ls
    · rw [if_pos hgt] at h
      exact loop_dep effs fuel _ _ _ S (sweep_dep effs (fun _ hx => hx) found hd) h
    · rw [if_neg hgt] at h
      cases h
      exact hd

theorem dep_mem_of_closed {effs : List Effect} {S : List FluentRef} (hc : Closed effs S) {f : FluentRef}
    (hd : Dep effs f) : f ∈ S := by
  induction hd with
  | direct hef ht hi => exact (closed_rule hc hef ht).1 hi
  | step hef ht hi hg _ ih => exact (closed_rule hc hef ht).2 hi _ hg ih

/-! ### the fuel of `findChangingEffs` suffices -/

/-- every member is the target of some effect -/
def AllTargets (effs : List Effect) (found : List FluentRef) : Prop := ∀ g ∈ found, g ∈ effs.filterMap target?

theorem visit_targets {effs : List Effect} {found : List FluentRef} {ef : Effect} (hef : ef ∈ effs)
    (h : AllTargets effs found) : AllTargets effs (visit found ef) := by
  rcases visit_cases found ef with hv | ⟨f, ht, hv, _⟩
  · rw [hv]; exact h
  · rw [hv]
    intro g hg
    rcases mem_add.mp hg with rfl | hg'
    · exact List.mem_filterMap.mpr ⟨ef, hef, ht⟩
    · exact h g hg'

theorem sweep_targets {effs : List Effect} : ∀ (es : List Effect), (∀ e ∈ es, e ∈ effs) → ∀ (found : List FluentRef),
    AllTargets effs found → AllTargets effs (sweep es found)
  | [], _, _, h => by simpa [sweep] using h
  | e :: es, hsub, found, h => by
    rw [sweep_cons]
    exact sweep_targets es (fun x hx => hsub x (List.mem_cons_of_mem _ hx)) _
      (visit_targets (hsub e (List.mem_cons_self ..)) h)

theorem length_le_of_targets {effs : List Effect} {found : List FluentRef} (hn : found.Nodup)
    (ht : AllTargets effs found) : found.length ≤ effs.length := by
  have h1 : found.length ≤ (effs.filterMap target?).length :=
    (List.subperm_of_subset hn ht).length_le
  exact Nat.le_trans h1 (List.length_filterMap_le _ _)

theorem loop_isSome (effs : List Effect) : ∀ (fuel : Nat) (found : List FluentRef) (ls le : Nat),
    found.Nodup → AllTargets effs found →
    ((le ≤ ls ∧ 1 ≤ fuel) ∨ (effs.length - found.length) + 2 ≤ fuel) →
    (loop effs fuel found ls le).isSome = true
  | 0, _, _, _, _, _, h => by omega
  | fuel + 1, found, ls, le, hn, ht, h => by
    unfold loop
    by_cases hgt : le > ls
    · rw [if_pos hgt]
      have hn' := sweep_nodup effs hn
      have ht' := sweep_targets effs (fun _ hx => hx) found ht
      have hb := length_le_of_targets hn' ht'
      have hge := length_le_sweep effs found
      apply loop_isSome effs fuel _ _ _ hn' ht'
      rcases h with ⟨h1, _⟩ | h2
      · omega
      · by_cases hgrow : (sweep effs found).length ≤ found.length
        · left; exact ⟨hgrow, by omega⟩
        · right; omega
    · rw [if_neg hgt]; rfl

end UPVerif.IFChanging
