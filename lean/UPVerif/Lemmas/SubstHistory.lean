import UPVerif.Lemmas.DagSubstLemmas
/-!
Helper lemmas for `Props/C13History.lean`: whatever the expression manager refuses (`reject`), a
`Substituter` walk that RETURNS returns `Expr.subst σ e` (the function C13's theorems are about), and
a walk that raises raises at a node the manager refuses.
-/
namespace UPVerif.Dag
open UPVerif UPVerif.Expr

theorem rebuildE_ok (reject : Expr → Bool) (e : Expr) (args : List Expr) (r : Expr)
    (h : rebuildE reject e args = .ok r) : r = identityNode e args := by
  cases e with
  | leaf l =>
    simp only [rebuildE, Except.ok.injEq] at h
    simp [identityNode, ← h]
  | app op as =>
    simp only [rebuildE] at h
    split at h
    · cases h
    · simp only [Except.ok.injEq] at h
      simp [identityNode, ← h]
  | quant q vs b =>
    simp only [rebuildE] at h
    split at h
    · split at h
      · cases h
      · simp only [Except.ok.injEq] at h
        simp [identityNode, ← h]
    · cases h

theorem rebuildE_error (reject : Expr → Bool) (e : Expr) (args : List Expr) (n : Expr)
    (hlen : ∀ q vs b, e = .quant q vs b → ∃ b', args = [b'])
    (h : rebuildE reject e args = .error (.rejected n)) : reject n = true := by
  cases e with
  | leaf l => simp [rebuildE] at h
  | app op as =>
    simp only [rebuildE] at h
    split at h
    · rename_i hr
      simp only [Except.error.injEq, SubErr.rejected.injEq] at h
      rw [← h]; exact hr
    · cases h
  | quant q vs b =>
    obtain ⟨b', hb'⟩ := hlen q vs b rfl
    subst hb'
    simp only [rebuildE] at h
    split at h
    · rename_i hr
      simp only [Except.error.injEq, SubErr.rejected.injEq] at h
      rw [← h]; exact hr
    · cases h

theorem substFn_ok (reject : Expr → Bool) (σ : Subst) (e : Expr) (args : List Expr) (r : Expr)
    (h : substFn reject σ e args = .ok r) : r = walkReplaceOrIdentity σ e args := by
  unfold substFn at h
  unfold walkReplaceOrIdentity
  cases hl : σ.lookup e with
  | some v =>
    rw [hl] at h
    simp only [Except.ok.injEq] at h
    simp [h]
  | none =>
    rw [hl] at h
    exact rebuildE_ok reject e args r h

theorem substFn_error (reject : Expr → Bool) (σ : Subst) (e : Expr) (args : List Expr) (n : Expr)
    (hlen : ∀ q vs b, e = .quant q vs b → ∃ b', args = [b'])
    (h : substFn reject σ e args = .error (.rejected n)) : reject n = true := by
  unfold substFn at h
  cases hl : σ.lookup e with
  | some v => rw [hl] at h; cases h
  | none => rw [hl] at h; exact rebuildE_error reject e args n hlen h

mutual
/-- a walk that returns, returns `subst σ e` — whatever the manager refuses elsewhere -/
theorem substE_ok (reject : Expr → Bool) (σ : Subst) :
    ∀ (e r : Expr), substE reject σ e = .ok r → r = subst σ e
  | .leaf l, r, h => by
    simp only [substE] at h
    simp only [subst]
    cases hl : σ.lookup (.leaf l) with
    | some v =>
      rw [hl] at h
      simp only [Except.ok.injEq] at h
      simp [h]
    | none =>
      rw [hl] at h
      exact substFn_ok reject σ _ _ r h
  | .app op args, r, h => by
    simp only [substE] at h
    simp only [subst]
    cases hl : σ.lookup (.app op args) with
    | some v =>
      rw [hl] at h
      simp only [Except.ok.injEq] at h
      simp [h]
    | none =>
      rw [hl] at h
      cases hargs : substListE reject σ args with
      | error x => rw [hargs] at h; cases h
      | ok as' =>
        rw [hargs] at h
        have := substListE_ok reject σ args as' hargs
        subst this
        exact substFn_ok reject σ _ _ r h
  | .quant q vs b, r, h => by
    simp only [substE] at h
    simp only [subst]
    cases hl : σ.lookup (.quant q vs b) with
    | some v =>
      rw [hl] at h
      simp only [Except.ok.injEq] at h
      simp [h]
    | none =>
      rw [hl] at h
      rw [bodySubst_eq_keptUnder] at h
      by_cases he : (keptUnder vs σ).isEmpty = true
      · rw [if_pos he] at h
        simp only [if_pos he]
        exact substFn_ok reject σ _ _ r h
      · rw [if_neg he] at h
        simp only [if_neg he]
        cases hb : substE reject (keptUnder vs σ) b with
        | error x => rw [hb] at h; cases h
        | ok b' =>
          rw [hb] at h
          have := substE_ok reject (keptUnder vs σ) b b' hb
          subst this
          exact substFn_ok reject σ _ _ r h
theorem substListE_ok (reject : Expr → Bool) (σ : Subst) :
    ∀ (es rs : List Expr), substListE reject σ es = .ok rs → rs = substList σ es
  | [], rs, h => by
    simp only [substListE, Except.ok.injEq] at h
    simp [substList, ← h]
  | e :: es, rs, h => by
    simp only [substListE] at h
    cases hes : substListE reject σ es with
    | error x => rw [hes] at h; cases h
    | ok vs =>
      rw [hes] at h
      cases he : substE reject σ e with
      | error x => rw [he] at h; cases h
      | ok v =>
        rw [he] at h
        simp only [Except.ok.injEq] at h
        rw [← h, substList, substE_ok reject σ e v he, substListE_ok reject σ es vs hes]
end

mutual
/-- a walk that raises, raises at a node the manager refuses -/
theorem substE_error (reject : Expr → Bool) (σ : Subst) :
    ∀ (e n : Expr), substE reject σ e = .error (.rejected n) → reject n = true
  | .leaf l, n, h => by
    simp only [substE] at h
    cases hl : σ.lookup (.leaf l) with
    | some v => rw [hl] at h; cases h
    | none =>
      rw [hl] at h
      exact substFn_error reject σ _ _ n (by intro q vs b hq; cases hq) h
  | .app op args, n, h => by
    simp only [substE] at h
    cases hl : σ.lookup (.app op args) with
    | some v => rw [hl] at h; cases h
    | none =>
      rw [hl] at h
      cases hargs : substListE reject σ args with
      | error x =>
        rw [hargs] at h
        simp only [Except.error.injEq] at h
        subst h
        exact substListE_error reject σ args n hargs
      | ok as' =>
        rw [hargs] at h
        exact substFn_error reject σ _ _ n (by intro q vs b hq; cases hq) h
  | .quant q vs b, n, h => by
    simp only [substE] at h
    cases hl : σ.lookup (.quant q vs b) with
    | some v => rw [hl] at h; cases h
    | none =>
      rw [hl] at h
      by_cases he : (bodySubst σ vs).isEmpty = true
      · rw [if_pos he] at h
        exact substFn_error reject σ _ _ n (fun _ _ _ _ => ⟨_, rfl⟩) h
      · rw [if_neg he] at h
        cases hb : substE reject (bodySubst σ vs) b with
        | error x =>
          rw [hb] at h
          simp only [Except.error.injEq] at h
          subst h
          exact substE_error reject (bodySubst σ vs) b n hb
        | ok b' =>
          rw [hb] at h
          exact substFn_error reject σ _ _ n (fun _ _ _ _ => ⟨_, rfl⟩) h
theorem substListE_error (reject : Expr → Bool) (σ : Subst) :
    ∀ (es : List Expr) (n : Expr), substListE reject σ es = .error (.rejected n) → reject n = true
  | [], n, h => by simp [substListE] at h
  | e :: es, n, h => by
    simp only [substListE] at h
    cases hes : substListE reject σ es with
    | error x =>
      rw [hes] at h
      simp only [Except.error.injEq] at h
      subst h
      exact substListE_error reject σ es n hes
    | ok vs =>
      rw [hes] at h
      cases he : substE reject σ e with
      | error x =>
        rw [he] at h
        simp only [Except.error.injEq] at h
        subst h
        exact substE_error reject σ e n he
      | ok v => rw [he] at h; cases h
end

end UPVerif.Dag
