import UPVerif.Core.Den
import UPVerif.Core.Walkers.Substitute
/-!
Declarative notions the C13 theorems are stated with (DEFINITIONS ONLY — this file is part of the
statement of `Props/C13.lean`; the proofs are in `Lemmas/SubstLemmas.lean`).

1. `Replaces σ B e r` — the property's reading of substitution as an inductive relation:
   top-down, a node that matches a key is replaced by the value as a whole and nothing happens inside
   the inserted value; a key matches only where none of its free variables is bound by an enclosing
   quantifier of the expression (`B` = the variables bound so far); nodes above replaced occurrences
   are rebuilt through the expression manager's constructors; the body of a quantifier under which
   no key is active any more is left alone.
2. the interpretation / environment "updated by the map" (`updInterp`, `updEnv`) and the side
   conditions of the semantic clause (`SemOK`, `noCapture`, `VarValuesDefined`, `CollapseOK`).
-/
namespace UPVerif.Expr

/-! ### 1. the replacement relation -/

/-- the node `e` is a key of `σ` (with value `v`) and none of its free variables is bound by the
    enclosing quantifiers `B` -/
def Matches (σ : Subst) (B : List Var) (e v : Expr) : Prop :=
  σ.lookup e = some v ∧ ∀ m ∈ freeVars e, m ∉ B

/-- every key of `σ` mentions a variable of `B` -/
def NoneActive (σ : Subst) (B : List Var) : Prop :=
  ∀ kv ∈ σ, ∃ m ∈ freeVars kv.1, m ∈ B

mutual
inductive Replaces (σ : Subst) : List Var → Expr → Expr → Prop
  /-- a maximal occurrence of an active key is replaced by its value, verbatim -/
  | key {B : List Var} {e v : Expr} : Matches σ B e v → Replaces σ B e v
  | leaf {B : List Var} {l : Leaf} : (∀ v, ¬ Matches σ B (.leaf l) v) → Replaces σ B (.leaf l) (.leaf l)
  /-- an operator node that is not a key is rebuilt (through the manager) from its replaced children -/
  | app {B : List Var} {op : Op} {args args' : List Expr} :
      (∀ v, ¬ Matches σ B (.app op args) v) → ReplacesList σ B args args' →
      Replaces σ B (.app op args) (rebuild op args')
  /-- below a quantifier its variables are bound … -/
  | quant {B : List Var} {q : Quant} {vs : List Var} {b b' : Expr} :
      (∀ v, ¬ Matches σ B (.quant q vs b) v) → ¬ NoneActive σ (vs ++ B) →
      Replaces σ (vs ++ B) b b' → Replaces σ B (.quant q vs b) (.quant q vs b')
  /-- … and when that leaves no active key the quantifier is returned as it is -/
  | quantSkip {B : List Var} {q : Quant} {vs : List Var} {b : Expr} :
      (∀ v, ¬ Matches σ B (.quant q vs b) v) → NoneActive σ (vs ++ B) →
      Replaces σ B (.quant q vs b) (.quant q vs b)
inductive ReplacesList (σ : Subst) : List Var → List Expr → List Expr → Prop
  | nil {B : List Var} : ReplacesList σ B [] []
  | cons {B : List Var} {e e' : Expr} {es es' : List Expr} :
      Replaces σ B e e' → ReplacesList σ B es es' → ReplacesList σ B (e :: es) (e' :: es')
end

/-- the pairs of `σ` still active below quantifiers binding `B` -/
def restrict (B : List Var) (σ : Subst) : Subst :=
  σ.filter (fun kv => (freeVars kv.1).all (fun m => !B.contains m))

/-! ### 2. the semantic clause -/

/-- value of a constant leaf (independent of interpretation and environment) -/
def constVal : Expr → Option Val
  | .leaf (.boolC b) => some (.b b)
  | .leaf (.intC z) => some (.n z)
  | .leaf (.realC r) => some (.n r)
  | .leaf (.obj n _) => some (.o n)
  | _ => none

/-- the key forms of the semantic clause (DESIGN 2.11): a parameter, a variable, or a fluent applied
    to constants -/
def isSimpleKey : Expr → Bool
  | .leaf (.param _ _) => true
  | .leaf (.var _) => true
  | .app (.fluent _) cs => cs.all (fun c => (constVal c).isSome)
  | _ => false

/-- two argument tuples certainly denote different value tuples: different lengths, or constants
    with different values at some position -/
def apart : List Expr → List Expr → Bool
  | [], [] => false
  | a :: as, c :: cs =>
    (match constVal a, constVal c with
     | some x, some y => decide (x ≠ y)
     | _, _ => false) || apart as cs
  | _, _ => true

/-- the atom `t` cannot be confused with a key it is not: every parameter key with the name of a
    parameter `t` IS `t` (parameters are interpreted by name), every fluent key over the fluent of an
    application `t` either IS `t` or is `apart` from it -/
def atomSep (σ : Subst) : Expr → Bool
  | .leaf (.param n ty) => σ.all (fun kv => match kv.1 with
      | .leaf (.param n' ty') => n' != n || ty' == ty
      | _ => true)
  | .app (.fluent f) args => σ.all (fun kv => match kv.1 with
      | .app (.fluent f') cs => f' != f || decide (cs = args) || apart args cs
      | _ => true)
  | _ => true

mutual
/-- `atomSep` at every node of the expression -/
def sepAll (σ : Subst) : Expr → Bool
  | .leaf l => atomSep σ (.leaf l)
  | .app op args => atomSep σ (.app op args) && sepAllList σ args
  | .quant _ _ b => sepAll σ b
def sepAllList (σ : Subst) : List Expr → Bool
  | [] => true
  | e :: es => sepAll σ e && sepAllList σ es
end

/-- no variable bound somewhere in `e` occurs free in a value of `σ`
    (the real code does not avoid capture: finding F-C13-capture) -/
def noCapture (σ : Subst) (e : Expr) : Bool :=
  (boundVars e).all (fun x => σ.all (fun kv => !(freeVars kv.2).contains x))

/-- the decidable side conditions of the semantic clause other than capture -/
def SemOK (σ : Subst) (e : Expr) : Bool :=
  σ.all (fun kv => isSimpleKey kv.1) && σ.all (fun kv => atomSep σ kv.1) && sepAll σ e

/-- is `k` a parameter named `n` -/
def isParNamed (n : String) : Expr → Bool
  | .leaf (.param n' _) => n' == n
  | _ => false

/-- is `k` an application of fluent `f` to constants denoting `as` -/
def isFlKey (f : FluentRef) (as : List Val) : Expr → Bool
  | .app (.fluent f') cs => f' == f && decide (cs.map constVal = as.map some)
  | _ => false

/-- the interpretation updated by the map: a parameter key gets the value of its replacement, a
    ground fluent key likewise (values are taken under the old interpretation, in `ρ`) -/
def updInterp (ι : Interp) (ρ : VEnv) (σ : Subst) : Interp where
  fl := fun f as => match σ.find? (fun kv => isFlKey f as kv.1) with
    | some kv => den ι ρ kv.2
    | none => ι.fl f as
  fn := ι.fn
  par := fun n => match σ.find? (fun kv => isParNamed n kv.1) with
    | some kv => den ι ρ kv.2
    | none => ι.par n
  dom := ι.dom

/-- the variable of a variable key -/
def varKey? : Expr → Option Var
  | .leaf (.var x) => some x
  | _ => none

/-- the environment updated by the map: a variable key is bound to the value of its replacement -/
def updEnv (ι : Interp) (ρ : VEnv) (σ : Subst) : VEnv :=
  σ.filterMap (fun kv => match varKey? kv.1 with
    | some x => (den ι ρ kv.2).map (fun w => (x, w))
    | none => none) ++ ρ

/-- environments bind variables to values, so the replacement of a variable key must have one -/
def VarValuesDefined (ι : Interp) (ρ : VEnv) (σ : Subst) : Prop :=
  ∀ kv ∈ σ, ∀ x, kv.1 = .leaf (.var x) → (den ι ρ kv.2).isSome = true

/-- rebuilding this node through the manager's normalising constructor does not change its meaning
    (always true unless the constructor collapses — one argument, double negation — around an
    argument of the wrong sort; see `Lemmas/DenLemmas.lean`) -/
def RebuildOK (ι : Interp) (op : Op) (as : List Expr) : Prop :=
  ∀ ρ, den ι ρ (rebuild op as) = den ι ρ (.app op as)

mutual
/-- `RebuildOK` at every node the walk rebuilds -/
def CollapseOK (ι : Interp) (σ : Subst) : Expr → Prop
  | .leaf _ => True
  | .app op args => σ.lookup (.app op args) = none →
      (CollapseOKList ι σ args ∧ RebuildOK ι op (substList σ args))
  | .quant q vs b => σ.lookup (.quant q vs b) = none → (keptUnder vs σ).isEmpty = false →
      CollapseOK ι (keptUnder vs σ) b
def CollapseOKList (ι : Interp) (σ : Subst) : List Expr → Prop
  | [] => True
  | e :: es => CollapseOK ι σ e ∧ CollapseOKList ι σ es
end

end UPVerif.Expr
