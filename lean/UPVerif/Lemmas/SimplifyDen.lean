import UPVerif.Lemmas.SimplifyBasic
import UPVerif.Lemmas.SimplifySpec
/-!
Helper lemmas for `Props/C11.lean`, part 2: facts about the reference denotation `den` and the
semantic correctness of every node function of the simplifier (`walkApp_sound`).  No Mathlib.
-/
namespace UPVerif.Simp
open Expr

/-! ### unfolding `den` -/

theorem den_leaf (ι : Interp) (ρ : VEnv) (l : Leaf) : den ι ρ (.leaf l) = denLeaf ι ρ l := by
  simp only [den]

theorem den_app (ι : Interp) (ρ : VEnv) (op : Op) (args : List Expr) :
    den ι ρ (.app op args) = (denList ι ρ args).bind (denOp ι op) := by
  simp only [den]

theorem denList_nil (ι : Interp) (ρ : VEnv) : denList ι ρ [] = some [] := by
  simp only [denList]

theorem denList_cons_some {ι : Interp} {ρ : VEnv} {e : Expr} {es : List Expr} {vs : List Val} :
    denList ι ρ (e :: es) = some vs ↔
      ∃ v vs', den ι ρ e = some v ∧ denList ι ρ es = some vs' ∧ vs = v :: vs' := by
  simp only [denList]
  constructor
  · intro h
    split at h
    · rename_i v vs' hv hvs
      exact ⟨v, vs', hv, hvs, by simpa using h.symm⟩
    · cases h
  · rintro ⟨v, vs', hv, hvs, rfl⟩
    simp [hv, hvs]

theorem den_app_some {ι : Interp} {ρ : VEnv} {op : Op} {args : List Expr} {v : Val} :
    den ι ρ (.app op args) = some v ↔ ∃ vs, denList ι ρ args = some vs ∧ denOp ι op vs = some v := by
  rw [den_app]
  cases denList ι ρ args <;> simp

/-! ### Boolean-valued argument lists -/

/-- the Boolean values of a list of expressions (`none` if one is undefined or not Boolean) -/
def denBools (ι : Interp) (ρ : VEnv) (es : List Expr) : Option (List Bool) :=
  (denList ι ρ es).bind allBools

theorem denBools_nil (ι : Interp) (ρ : VEnv) : denBools ι ρ [] = some [] := by
  simp [denBools, denList, allBools]

theorem denBools_cons {ι : Interp} {ρ : VEnv} {e : Expr} {es : List Expr} {bs : List Bool} :
    denBools ι ρ (e :: es) = some bs ↔
      ∃ x xs, den ι ρ e = some (.b x) ∧ denBools ι ρ es = some xs ∧ bs = x :: xs := by
  unfold denBools
  constructor
  · intro h
    rw [Option.bind_eq_some_iff] at h
    obtain ⟨vs, hvs, hb⟩ := h
    obtain ⟨v, vs', hv, hvs', rfl⟩ := denList_cons_some.1 hvs
    cases v with
    | b x =>
      simp only [allBools, Option.map_eq_some_iff] at hb
      obtain ⟨xs, hxs, rfl⟩ := hb
      exact ⟨x, xs, hv, by simp [hvs', hxs], rfl⟩
    | n q => simp [allBools] at hb
    | o nm => simp [allBools] at hb
  · rintro ⟨x, xs, hx, hxs, rfl⟩
    rw [Option.bind_eq_some_iff] at hxs
    obtain ⟨vs', hvs', hb⟩ := hxs
    rw [Option.bind_eq_some_iff]
    exact ⟨.b x :: vs', denList_cons_some.2 ⟨_, _, hx, hvs', rfl⟩, by simp [allBools, hb]⟩

theorem denBools_append {ι : Interp} {ρ : VEnv} :
    ∀ {es fs : List Expr} {bs cs : List Bool}, denBools ι ρ es = some bs → denBools ι ρ fs = some cs →
      denBools ι ρ (es ++ fs) = some (bs ++ cs)
  | [], fs, bs, cs, h1, h2 => by
    rw [denBools_nil] at h1; cases h1; simpa using h2
  | e :: es, fs, bs, cs, h1, h2 => by
    obtain ⟨x, xs, hx, hxs, rfl⟩ := denBools_cons.1 h1
    exact denBools_cons.2 ⟨x, xs ++ cs, hx, denBools_append hxs h2, rfl⟩

theorem denBools_append_inv {ι : Interp} {ρ : VEnv} :
    ∀ {es fs : List Expr} {bs : List Bool}, denBools ι ρ (es ++ fs) = some bs →
      ∃ xs ys, denBools ι ρ es = some xs ∧ denBools ι ρ fs = some ys ∧ bs = xs ++ ys
  | [], fs, bs, h => ⟨[], bs, denBools_nil _ _, by simpa using h, rfl⟩
  | e :: es, fs, bs, h => by
    obtain ⟨x, xs, hx, hxs, rfl⟩ := denBools_cons.1 (by simpa using h)
    obtain ⟨ys, zs, hys, hzs, rfl⟩ := denBools_append_inv hxs
    exact ⟨x :: ys, zs, denBools_cons.2 ⟨x, ys, hx, hys, rfl⟩, hzs, rfl⟩

theorem denBools_mem {ι : Interp} {ρ : VEnv} :
    ∀ {es : List Expr} {bs : List Bool} {e : Expr}, denBools ι ρ es = some bs → e ∈ es →
      ∃ x, x ∈ bs ∧ den ι ρ e = some (.b x)
  | e' :: es, bs, e, h, hm => by
    obtain ⟨x, xs, hx, hxs, rfl⟩ := denBools_cons.1 h
    rcases List.mem_cons.1 hm with rfl | hm
    · exact ⟨x, by simp, hx⟩
    · obtain ⟨y, hy, hd⟩ := denBools_mem hxs hm
      exact ⟨y, by simp [hy], hd⟩

theorem den_and_some {ι : Interp} {ρ : VEnv} {args : List Expr} {v : Val} :
    den ι ρ (.app .and args) = some v ↔ ∃ xs, denBools ι ρ args = some xs ∧ v = .b (xs.all id) := by
  rw [den_app, denBools]
  cases denList ι ρ args with
  | none => simp
  | some vs =>
    simp only [Option.bind_some, denOp]
    cases allBools vs <;> simp [eq_comm]

theorem den_or_some {ι : Interp} {ρ : VEnv} {args : List Expr} {v : Val} :
    den ι ρ (.app .or args) = some v ↔ ∃ xs, denBools ι ρ args = some xs ∧ v = .b (xs.any id) := by
  rw [den_app, denBools]
  cases denList ι ρ args with
  | none => simp
  | some vs =>
    simp only [Option.bind_some, denOp]
    cases allBools vs <;> simp [eq_comm]

theorem den_mkAnd {ι : Interp} {ρ : VEnv} {es : List Expr} {xs : List Bool}
    (h : denBools ι ρ es = some xs) : den ι ρ (mkAnd es) = some (.b (xs.all id)) := by
  match es, h with
  | [], h => rw [denBools_nil] at h; cases h; simp [mkAnd, tt, den, denLeaf]
  | [e], h =>
    obtain ⟨x, xs', hx, hxs, rfl⟩ := denBools_cons.1 h
    rw [denBools_nil] at hxs; cases hxs
    simpa [mkAnd] using hx
  | e1 :: e2 :: es, h => exact den_and_some.2 ⟨xs, h, rfl⟩

theorem den_mkOr {ι : Interp} {ρ : VEnv} {es : List Expr} {xs : List Bool}
    (h : denBools ι ρ es = some xs) : den ι ρ (mkOr es) = some (.b (xs.any id)) := by
  match es, h with
  | [], h => rw [denBools_nil] at h; cases h; simp [mkOr, ff, den, denLeaf]
  | [e], h =>
    obtain ⟨x, xs', hx, hxs, rfl⟩ := denBools_cons.1 h
    rw [denBools_nil] at hxs; cases hxs
    simpa [mkOr] using hx
  | e1 :: e2 :: es, h => exact den_or_some.2 ⟨xs, h, rfl⟩

/-! ### `walk_not`, `walk_and`, `walk_or` -/

theorem den_not_some {ι : Interp} {ρ : VEnv} {a : Expr} {v : Val} :
    den ι ρ (.app .not [a]) = some v ↔ ∃ x, den ι ρ a = some (.b x) ∧ v = .b (!x) := by
  rw [den_app_some]
  constructor
  · rintro ⟨vs, hvs, hop⟩
    obtain ⟨w, vs', hw, hvs', rfl⟩ := denList_cons_some.1 hvs
    rw [denList_nil] at hvs'; cases hvs'
    cases w <;> simp [denOp] at hop
    exact ⟨_, hw, hop.symm⟩
  · rintro ⟨x, hx, rfl⟩
    exact ⟨[.b x], denList_cons_some.2 ⟨_, _, hx, denList_nil _ _, rfl⟩, by simp [denOp]⟩

theorem den_mkNot {ι : Interp} {ρ : VEnv} {a : Expr} {x : Bool} (h : den ι ρ a = some (.b x)) :
    den ι ρ (mkNot a) = some (.b (!x)) := by
  unfold mkNot
  split
  · rename_i y
    obtain ⟨z, hz, hv⟩ := den_not_some.1 h
    simp only [Val.b.injEq] at hv; subst hv
    simpa using hz
  · exact den_not_some.2 ⟨x, h, rfl⟩

theorem den_walkNot {ι : Interp} {ρ : VEnv} {a : Expr} {x : Bool} (h : den ι ρ a = some (.b x)) :
    den ι ρ (walkNot a) = some (.b (!x)) := by
  unfold walkNot
  split
  · rename_i b
    simp only [den, denLeaf, Option.some.injEq, Val.b.injEq] at h
    subst h; simp [Expr.bool, den, denLeaf]
  · rename_i y
    obtain ⟨z, hz, hv⟩ := den_not_some.1 h
    simp only [Val.b.injEq] at hv; subst hv
    simpa using hz
  · exact den_mkNot h

/-- all values are the neutral element of the connective -/
def neutral (isAnd : Bool) (bs : List Bool) : Bool := bs.all (· == isAnd)

theorem neutral_append (isAnd : Bool) (as bs : List Bool) :
    neutral isAnd (as ++ bs) = (neutral isAnd as && neutral isAnd bs) := by
  simp [neutral]

theorem all_eq_neutral (bs : List Bool) : bs.all id = neutral true bs := by
  induction bs with
  | nil => simp [neutral]
  | cons b bs ih => cases b <;> simp_all [neutral]

theorem any_eq_neutral (bs : List Bool) : bs.any id = !neutral false bs := by
  induction bs with
  | nil => simp [neutral]
  | cons b bs ih => cases b <;> simp_all [neutral]

theorem neutral_mem {isAnd : Bool} {bs : List Bool} {y : Bool} (hy : y ∈ bs)
    (h : neutral isAnd bs = true) : y = isAnd := by
  simp only [neutral, List.all_eq_true] at h
  simpa using h _ hy

theorem addLit_sem {ι : Interp} {ρ : VEnv} (isAnd : Bool) {acc : List Expr} {as : List Bool}
    {s : Expr} {x : Bool} (hacc : denBools ι ρ acc = some as) (hs : den ι ρ s = some (.b x)) :
    (addLit acc s = none → neutral isAnd (as ++ [x]) = false) ∧
    (∀ acc', addLit acc s = some acc' →
      ∃ as', denBools ι ρ acc' = some as' ∧ neutral isAnd as' = neutral isAnd (as ++ [x])) := by
  unfold addLit
  by_cases hc : acc.contains (walkNot s) = true
  · rw [if_pos hc]
    refine ⟨fun _ => ?_, fun _ h => by cases h⟩
    have hm : walkNot s ∈ acc := by simpa using hc
    obtain ⟨y, hy, hd⟩ := denBools_mem hacc hm
    rw [den_walkNot hs] at hd
    simp only [Option.some.injEq, Val.b.injEq] at hd; subst hd
    rw [neutral_append]
    cases hn : neutral isAnd as with
    | false => rfl
    | true =>
      have := neutral_mem hy hn
      cases isAnd <;> cases x <;> simp_all [neutral]
  · rw [if_neg hc]
    by_cases hc2 : acc.contains s = true
    · rw [if_pos hc2]
      refine ⟨(fun h => nomatch h), fun acc' h => ?_⟩
      simp only [Option.some.injEq] at h; subst h
      have hm : s ∈ acc := by simpa using hc2
      obtain ⟨y, hy, hd⟩ := denBools_mem hacc hm
      rw [hs] at hd
      simp only [Option.some.injEq, Val.b.injEq] at hd; subst hd
      refine ⟨as, hacc, ?_⟩
      rw [neutral_append]
      cases hn : neutral isAnd as with
      | false => rfl
      | true =>
        have := neutral_mem hy hn
        subst this; simp [neutral]
    · rw [if_neg hc2]
      refine ⟨(fun h => nomatch h), fun acc' h => ?_⟩
      simp only [Option.some.injEq] at h; subst h
      exact ⟨as ++ [x], denBools_append hacc (denBools_cons.2 ⟨x, [], hs, denBools_nil _ _, rfl⟩), rfl⟩

theorem addLits_sem {ι : Interp} {ρ : VEnv} (isAnd : Bool) :
    ∀ {ss : List Expr} {acc : List Expr} {as xs : List Bool},
      denBools ι ρ acc = some as → denBools ι ρ ss = some xs →
      (addLits acc ss = none → neutral isAnd (as ++ xs) = false) ∧
      (∀ acc', addLits acc ss = some acc' →
        ∃ as', denBools ι ρ acc' = some as' ∧ neutral isAnd as' = neutral isAnd (as ++ xs))
  | [], acc, as, xs, hacc, hss => by
    rw [denBools_nil] at hss; cases hss
    simp only [addLits, List.append_nil]
    refine ⟨(fun h => nomatch h), fun acc' h => ?_⟩
    simp only [Option.some.injEq] at h; subst h
    exact ⟨as, hacc, rfl⟩
  | s :: ss, acc, as, xs, hacc, hss => by
    obtain ⟨x, xs', hx, hxs, rfl⟩ := denBools_cons.1 hss
    obtain ⟨h1n, h1s⟩ := addLit_sem isAnd hacc hx
    have happ : as ++ x :: xs' = (as ++ [x]) ++ xs' := by simp
    simp only [addLits]
    cases h : addLit acc s with
    | none =>
      refine ⟨fun _ => ?_, fun _ h' => by cases h'⟩
      rw [happ, neutral_append, h1n h]; rfl
    | some acc' =>
      obtain ⟨as', has', hn⟩ := h1s acc' h
      obtain ⟨h2n, h2s⟩ := addLits_sem isAnd (ss := ss) has' hxs
      refine ⟨fun h' => ?_, fun acc'' h' => ?_⟩
      · have := h2n h'
        rw [neutral_append] at this
        rw [happ, neutral_append, ← hn]; exact this
      · obtain ⟨as'', has'', hn'⟩ := h2s acc'' h'
        refine ⟨as'', has'', ?_⟩
        rw [happ]
        simp only [neutral_append] at hn hn' ⊢
        rw [hn', hn]

theorem den_boolConst {ι : Interp} {ρ : VEnv} {a : Expr} {c : Bool} (h : a.boolConst? = some c) :
    den ι ρ a = some (.b c) := by
  unfold boolConst? at h
  split at h
  · simp only [Option.some.injEq] at h; subst h; simp [den, denLeaf]
  · cases h

theorem neutral_cons (isAnd x : Bool) (xs : List Bool) :
    neutral isAnd (x :: xs) = ((x == isAnd) && neutral isAnd xs) := by
  simp [neutral]

theorem sameJunc_sem {ι : Interp} {ρ : VEnv} {isAnd : Bool} {a : Expr} {ss : List Expr} {x : Bool}
    (hj : sameJunc? isAnd a = some ss) (ha : den ι ρ a = some (.b x)) :
    ∃ ys, denBools ι ρ ss = some ys ∧ (x == isAnd) = neutral isAnd ys := by
  unfold sameJunc? at hj
  split at hj
  · split at hj
    · rename_i h; simp only [Option.some.injEq] at hj; subst hj; subst h
      obtain ⟨ys, hys, hv⟩ := den_and_some.1 ha
      simp only [Val.b.injEq] at hv; subst hv
      exact ⟨ys, hys, by rw [all_eq_neutral]; simp⟩
    · cases hj
  · split at hj
    · cases hj
    · rename_i h; simp only [Option.some.injEq] at hj; subst hj
      have h : isAnd = false := by simpa using h
      subst h
      obtain ⟨ys, hys, hv⟩ := den_or_some.1 ha
      simp only [Val.b.injEq] at hv; subst hv
      exact ⟨ys, hys, by rw [any_eq_neutral]; simp⟩
  · cases hj

theorem juncLoop_sem {ι : Interp} {ρ : VEnv} (isAnd : Bool) :
    ∀ {args : List Expr} {acc : List Expr} {as xs : List Bool},
      denBools ι ρ acc = some as → denBools ι ρ args = some xs →
      (juncLoop isAnd acc args = none → neutral isAnd (as ++ xs) = false) ∧
      (∀ l, juncLoop isAnd acc args = some l →
        ∃ ls, denBools ι ρ l = some ls ∧ neutral isAnd ls = neutral isAnd (as ++ xs))
  | [], acc, as, xs, hacc, hargs => by
    rw [denBools_nil] at hargs; cases hargs
    simp only [juncLoop, List.append_nil]
    refine ⟨(fun h => nomatch h), fun l h => ?_⟩
    simp only [Option.some.injEq] at h; subst h
    exact ⟨as, hacc, rfl⟩
  | a :: rest, acc, as, xs, hacc, hargs => by
    obtain ⟨x, xs', hx, hxs, rfl⟩ := denBools_cons.1 hargs
    simp only [juncLoop]
    by_cases h1 : a.boolConst? = some isAnd
    · rw [if_pos h1]
      have := den_boolConst (ι := ι) (ρ := ρ) h1
      rw [hx] at this
      simp only [Option.some.injEq, Val.b.injEq] at this; subst this
      have hn : neutral x (as ++ x :: xs') = neutral x (as ++ xs') := by
        simp [neutral_append, neutral_cons]
      rw [hn]
      exact juncLoop_sem x hacc hxs
    · rw [if_neg h1]
      by_cases h2 : a.boolConst? = some (!isAnd)
      · rw [if_pos h2]
        have := den_boolConst (ι := ι) (ρ := ρ) h2
        rw [hx] at this
        simp only [Option.some.injEq, Val.b.injEq] at this; subst this
        refine ⟨fun _ => ?_, fun _ h => nomatch h⟩
        cases isAnd <;> simp [neutral_append, neutral_cons]
      · rw [if_neg h2]
        cases hj : sameJunc? isAnd a with
        | some ss =>
          obtain ⟨ys, hys, hxy⟩ := sameJunc_sem hj hx
          obtain ⟨h3n, h3s⟩ := addLits_sem isAnd hacc hys
          have hn : neutral isAnd (as ++ x :: xs') = neutral isAnd ((as ++ ys) ++ xs') := by
            simp only [neutral_append, neutral_cons, hxy, Bool.and_assoc]
          simp only []
          cases h3 : addLits acc ss with
          | none =>
            refine ⟨fun _ => ?_, fun _ h => nomatch h⟩
            rw [hn, neutral_append, h3n h3]; rfl
          | some acc' =>
            obtain ⟨as', has', hn'⟩ := h3s acc' h3
            obtain ⟨h4n, h4s⟩ := juncLoop_sem isAnd (args := rest) has' hxs
            simp only []
            rw [hn, neutral_append, ← hn', ← neutral_append]
            exact ⟨h4n, h4s⟩
        | none =>
          obtain ⟨h3n, h3s⟩ := addLit_sem isAnd hacc hx
          have hn : neutral isAnd (as ++ x :: xs') = neutral isAnd ((as ++ [x]) ++ xs') := by
            simp
          simp only []
          cases h3 : addLit acc a with
          | none =>
            refine ⟨fun _ => ?_, fun _ h => nomatch h⟩
            rw [hn, neutral_append, h3n h3]; rfl
          | some acc' =>
            obtain ⟨as', has', hn'⟩ := h3s acc' h3
            obtain ⟨h4n, h4s⟩ := juncLoop_sem isAnd (args := rest) has' hxs
            simp only []
            rw [hn, neutral_append, ← hn', ← neutral_append]
            exact ⟨h4n, h4s⟩

theorem den_junc_some {ι : Interp} {ρ : VEnv} {isAnd : Bool} {args : List Expr} {v : Val} :
    den ι ρ (.app (if isAnd then .and else .or) args) = some v ↔
      ∃ xs, denBools ι ρ args = some xs ∧ v = .b (neutral isAnd xs == isAnd) := by
  cases isAnd
  · simp only [Bool.false_eq_true, if_false, den_or_some, any_eq_neutral]
    constructor <;> rintro ⟨xs, h, rfl⟩ <;> exact ⟨xs, h, by cases neutral false xs <;> rfl⟩
  · simp only [if_true, den_and_some, all_eq_neutral]
    constructor <;> rintro ⟨xs, h, rfl⟩ <;> exact ⟨xs, h, by cases neutral true xs <;> rfl⟩

theorem den_mkJunc {ι : Interp} {ρ : VEnv} {isAnd : Bool} {es : List Expr} {xs : List Bool}
    (h : denBools ι ρ es = some xs) : den ι ρ (mkJunc isAnd es) = some (.b (neutral isAnd xs == isAnd)) := by
  cases isAnd
  · simp only [mkJunc, Bool.false_eq_true, if_false, den_mkOr h, any_eq_neutral]
    cases neutral false xs <;> rfl
  · simp only [mkJunc, if_true, den_mkAnd h, all_eq_neutral]
    cases neutral true xs <;> rfl

theorem walkJunc_pair (isAnd : Bool) (a : Expr) : walkJunc isAnd [a, a] = a := by
  simp [walkJunc]

theorem walkJunc_general (isAnd : Bool) (args : List Expr) (h : ∀ a, args ≠ [a, a]) :
    walkJunc isAnd args = juncGeneral isAnd args := by
  unfold walkJunc
  split
  · rename_i a b
    split
    · rename_i hab; subst hab; exact absurd rfl (h a)
    · rfl
  · rfl

theorem walkJunc_sound {ι : Interp} {ρ : VEnv} {isAnd : Bool} {args : List Expr} {v : Val}
    (h : den ι ρ (.app (if isAnd then .and else .or) args) = some v) :
    den ι ρ (walkJunc isAnd args) = some v := by
  obtain ⟨xs, hxs, rfl⟩ := den_junc_some.1 h
  by_cases hp : ∃ a, args = [a, a]
  · obtain ⟨a, rfl⟩ := hp
    rw [walkJunc_pair]
    obtain ⟨x, xs1, hx, hxs1, rfl⟩ := denBools_cons.1 hxs
    obtain ⟨y, xs2, hy, hxs2, rfl⟩ := denBools_cons.1 hxs1
    rw [denBools_nil] at hxs2; cases hxs2
    rw [hx] at hy; simp only [Option.some.injEq, Val.b.injEq] at hy; subst hy
    rw [hx]; cases isAnd <;> cases x <;> rfl
  · rw [walkJunc_general isAnd args (fun a ha => hp ⟨a, ha⟩)]
    unfold juncGeneral
    obtain ⟨hn, hs⟩ := juncLoop_sem isAnd (args := args) (denBools_nil ι ρ) hxs
    cases hl : juncLoop isAnd [] args with
    | none =>
      have := hn hl
      simp only [List.nil_append] at this
      rw [this]; cases isAnd <;> simp [Expr.bool, den, denLeaf]
    | some l =>
      obtain ⟨ls, hls, hnl⟩ := hs l hl
      simp only [List.nil_append] at hnl
      rw [← hnl]; exact den_mkJunc hls

/-! ### binary nodes -/

theorem den_app1_some {ι : Interp} {ρ : VEnv} {op : Op} {a : Expr} {v : Val} :
    den ι ρ (.app op [a]) = some v ↔ ∃ va, den ι ρ a = some va ∧ denOp ι op [va] = some v := by
  rw [den_app_some]
  constructor
  · rintro ⟨vs, hvs, hop⟩
    obtain ⟨va, vs1, ha, hvs1, rfl⟩ := denList_cons_some.1 hvs
    rw [denList_nil] at hvs1; cases hvs1
    exact ⟨va, ha, hop⟩
  · rintro ⟨va, ha, hop⟩
    exact ⟨[va], denList_cons_some.2 ⟨_, _, ha, denList_nil _ _, rfl⟩, hop⟩

theorem den_app2_some {ι : Interp} {ρ : VEnv} {op : Op} {a b : Expr} {v : Val} :
    den ι ρ (.app op [a, b]) = some v ↔
      ∃ va vb, den ι ρ a = some va ∧ den ι ρ b = some vb ∧ denOp ι op [va, vb] = some v := by
  rw [den_app_some]
  constructor
  · rintro ⟨vs, hvs, hop⟩
    obtain ⟨va, vs1, ha, hvs1, rfl⟩ := denList_cons_some.1 hvs
    obtain ⟨vb, vs2, hb, hvs2, rfl⟩ := denList_cons_some.1 hvs1
    rw [denList_nil] at hvs2; cases hvs2
    exact ⟨va, vb, ha, hb, hop⟩
  · rintro ⟨va, vb, ha, hb, hop⟩
    exact ⟨[va, vb], denList_cons_some.2 ⟨_, _, ha,
      denList_cons_some.2 ⟨_, _, hb, denList_nil _ _, rfl⟩, rfl⟩, hop⟩

theorem boolConst_none_or (a : Expr) : a.boolConst? = none ∨ ∃ c, a = .leaf (.boolC c) := by
  unfold boolConst?
  split
  · exact .inr ⟨_, rfl⟩
  · exact .inl rfl

theorem walkIff_sound {ι : Interp} {ρ : VEnv} {a b : Expr} {v : Val}
    (h : den ι ρ (.app .iff [a, b]) = some v) : den ι ρ (walkIff a b) = some v := by
  obtain ⟨va, vb, ha, hb, hop⟩ := den_app2_some.1 h
  cases va <;> cases vb <;> simp [denOp] at hop
  rename_i x y; subst hop
  unfold walkIff
  split
  · rename_i l r hl hr
    have h1 := den_boolConst (ι := ι) (ρ := ρ) hl
    have h2 := den_boolConst (ι := ι) (ρ := ρ) hr
    rw [ha] at h1; rw [hb] at h2
    simp only [Option.some.injEq, Val.b.injEq] at h1 h2; subst h1 h2
    simp [Expr.bool, den, denLeaf]
  · rename_i l hl hr
    have h1 := den_boolConst (ι := ι) (ρ := ρ) hl
    rw [ha] at h1
    simp only [Option.some.injEq, Val.b.injEq] at h1; subst h1
    split
    · rename_i hx; subst hx; rw [hb]; cases y <;> rfl
    · rename_i hx
      have : x = false := by simpa using hx
      subst this; rw [den_mkNot hb]; cases y <;> rfl
  · rename_i r hl hr
    have h2 := den_boolConst (ι := ι) (ρ := ρ) hr
    rw [hb] at h2
    simp only [Option.some.injEq, Val.b.injEq] at h2; subst h2
    split
    · rename_i hy; subst hy; rw [ha]; cases x <;> rfl
    · rename_i hy
      have : y = false := by simpa using hy
      subst this; rw [den_mkNot ha]; cases x <;> rfl
  · split
    · rename_i hab; subst hab
      rw [ha] at hb; simp only [Option.some.injEq, Val.b.injEq] at hb; subst hb
      cases x <;> simp [tt, den, denLeaf]
    · exact den_app2_some.2 ⟨_, _, ha, hb, by simp [denOp]⟩

theorem walkImplies_sound {ι : Interp} {ρ : VEnv} {a b : Expr} {v : Val}
    (h : den ι ρ (.app .implies [a, b]) = some v) : den ι ρ (walkImplies a b) = some v := by
  obtain ⟨va, vb, ha, hb, hop⟩ := den_app2_some.1 h
  cases va <;> cases vb <;> simp [denOp] at hop
  rename_i x y; subst hop
  unfold walkImplies
  split
  · rename_i l hl
    have h1 := den_boolConst (ι := ι) (ρ := ρ) hl
    rw [ha] at h1
    simp only [Option.some.injEq, Val.b.injEq] at h1; subst h1
    split
    · rename_i hx; subst hx; rw [hb]; simp
    · rename_i hx
      have : x = false := by simpa using hx
      subst this; simp [tt, den, denLeaf]
  · split
    · rename_i r hr
      have h2 := den_boolConst (ι := ι) (ρ := ρ) hr
      rw [hb] at h2
      simp only [Option.some.injEq, Val.b.injEq] at h2; subst h2
      split
      · rename_i hy; subst hy; simp [tt, den, denLeaf]
      · rename_i hy
        have : y = false := by simpa using hy
        subst this; rw [den_mkNot ha]; simp
    · split
      · rename_i hab; subst hab
        rw [ha] at hb; simp only [Option.some.injEq, Val.b.injEq] at hb; subst hb
        cases x <;> simp [tt, den, denLeaf]
      · exact den_app2_some.2 ⟨_, _, ha, hb, by simp [denOp]⟩

end UPVerif.Simp
