import UPVerif.Lemmas.CompileBTRStep
import UPVerif.Lemmas.CompileSIR
/-!
BoundedTypesRemover, part 3: the helper `add_invariant_condition_apply_function_to_problem_expressions` for an
arbitrary function and condition (generic: also what StateInvariantsRemover instantiates), the bound conditions
(`btrConditions` = the bounded-type invariants of the simulator, read in the compiled state), the initial state.
-/
namespace UPVerif.Compile
open UPVerif UPVerif.Expr UPVerif.Sim UPVerif.Spec UPVerif.Simulation

/-- what the theorems about preconditions and goals need from the simplifier: an expression is TRUE in a state
    exactly when its simplification is (weaker than `SimpExact`: values other than TRUE need not be kept) -/
def SimpTruth (simp : Expr → Expr) : Prop :=
  ∀ (c : EvalCtx) (e : Expr), Spec.isTrue (eval c [] (simp e)) = Spec.isTrue (eval c [] e)

theorem SimpTruth_id : SimpTruth id := fun _ _ => rfl

theorem SimpExact.truth {simp : Expr → Expr} (h : SimpExact simp) : SimpTruth simp := fun c e => by rw [h c e]

/-! ### the generic helper -/

/-- unpacking `addInvariantCondition`: the goals, and the two-way correspondence between compiled and original
    actions (positions) -/
theorem addInv_some {simp fn : Expr → Expr} {cond : Expr} {P : Problem}
    {acts : List (Action × Option Nat)} {goals traj : List Expr}
    (hadd : addInvariantCondition simp fn cond P = some (acts, goals, traj)) :
    goals = invGoals simp fn cond P.goals ∧
    (∀ (i : Nat) (a' : Action), (acts.map (·.1))[i]? = some a' → ∃ (j : Nat) (a : Action),
        ((acts.map (·.2))[i]?).join = some j ∧ P.actions[j]? = some a ∧ invAction simp fn cond a = some (some a')) ∧
    (∀ (j : Nat) (a a' : Action), P.actions[j]? = some a → invAction simp fn cond a = some (some a') →
        ∃ i : Nat, (acts.map (·.1))[i]? = some a' ∧ ((acts.map (·.2))[i]?).join = some j) := by
  unfold addInvariantCondition at hadd
  dsimp only at hadd
  split at hadd
  · cases hadd
  simp only [Option.some.injEq, Prod.mk.injEq] at hadd
  obtain ⟨hacts, hgoals, _⟩ := hadd
  refine ⟨hgoals.symm, ?_, ?_⟩
  · intro i a' hi
    obtain ⟨b, hb, hback⟩ := getElem?_pairs hi
    have hmem := List.mem_of_getElem? hb
    rw [← hacts, List.mem_filterMap] at hmem
    obtain ⟨⟨r, j⟩, hrj, hr⟩ := hmem
    rw [List.mem_filterMap] at hrj
    obtain ⟨⟨j', a⟩, hja, hinv⟩ := hrj
    cases r with
    | none => simp at hr
    | some ar =>
      simp only [Option.map_some, Option.some.injEq, Prod.mk.injEq] at hr
      cases hia : invAction simp fn cond a with
      | none => rw [hia] at hinv; simp at hinv
      | some r' =>
        rw [hia] at hinv
        simp only [Option.map_some, Option.some.injEq, Prod.mk.injEq] at hinv
        refine ⟨j', a, ?_, mem_zip_range0 _ _ _ hja, ?_⟩
        · rw [hback, ← hr.2, hinv.2]
        · rw [hia, hinv.1, hr.1]
  · intro j a a' hj hinv
    have hz := zip_range_mem0 _ _ _ hj
    have : (a', some j) ∈ acts := by
      rw [← hacts, List.mem_filterMap]
      refine ⟨(some a', j), ?_, rfl⟩
      rw [List.mem_filterMap]
      exact ⟨(j, a), hz, by rw [hinv]; rfl⟩
    obtain ⟨i, h1, h2⟩ := pairs_of_mem this
    exact ⟨i, h1, h2⟩

/-- the compiled preconditions: the mapped originals and the condition -/
theorem invAction_pre_fn {simp : Expr → Expr} (hs : SimpTruth simp) (c : EvalCtx) (fn : Expr → Expr) (cond : Expr)
    (pre : List Expr) :
    preOK c ((splitAnd (simp (mkAnd (pre.map fn ++ [cond])))).foldl addPre []) =
      (preOK c (pre.map fn) && Spec.isTrue (eval c [] cond)) := by
  rw [preOK_foldl_addPre, preOK_splitAnd, hs, isTrue_mkAnd, preOK_append]
  simp [preOK]

/-- the compiled goals: the mapped originals and the condition -/
theorem invGoals_all {simp : Expr → Expr} (hs : SimpTruth simp) (c : EvalCtx) (fn : Expr → Expr) (cond : Expr)
    (goals : List Expr) :
    (invGoals simp fn cond goals).all (fun e => Spec.isTrue (eval c [] e)) =
      (preOK c (goals.map fn) && Spec.isTrue (eval c [] cond)) := by
  unfold invGoals
  rw [all_foldl_addGoal _ (isTrue_tt c), List.all_nil, Bool.true_and]
  have := preOK_splitAnd c (simp (mkAnd (goals.map fn ++ [cond])))
  unfold preOK at this
  rw [this, hs, isTrue_mkAnd, preOK_append]
  simp [preOK]

theorem mapM_some_of_forall {α β : Type} {f : α → Option β} {g : α → β} :
    ∀ (l : List α), (∀ x ∈ l, f x = some (g x)) → l.mapM f = some (l.map g)
  | [], _ => rfl
  | x :: xs, h => by
    rw [List.mapM_cons, h x (List.mem_cons_self ..),
      mapM_some_of_forall xs (fun y hy => h y (List.mem_cons_of_mem _ hy))]
    rfl

/-- unpacking the per-action part of the helper when every effect can be rebuilt -/
theorem invAction_some_fn {simp fn : Expr → Expr} {g : Effect → Effect} {cond : Expr} {a a' : Action}
    (heff : ∀ e ∈ a.effs, applyFnEffect fn e = some (g e)) (h : invAction simp fn cond a = some (some a')) :
    (simp (mkAnd (a.pre.map fn ++ [cond]))).isFalse = false ∧
    a' = { a with pre := (splitAnd (simp (mkAnd (a.pre.map fn ++ [cond])))).foldl addPre [],
                  effs := a.effs.map g } := by
  unfold invAction at h
  dsimp only at h
  split at h
  · cases h
  · rename_i hf
    rw [mapM_some_of_forall a.effs heff] at h
    simp only [Option.some.injEq] at h
    exact ⟨by simpa using hf, h.symm⟩

/-- an action whose compiled condition can be TRUE is not dropped -/
theorem invAction_kept {simp fn : Expr → Expr} {g : Effect → Effect} {cond : Expr} {a : Action} {c : EvalCtx}
    (heff : ∀ e ∈ a.effs, applyFnEffect fn e = some (g e))
    (ht : Spec.isTrue (eval c [] (simp (mkAnd (a.pre.map fn ++ [cond])))) = true) :
    ∃ a', invAction simp fn cond a = some (some a') := by
  unfold invAction
  dsimp only
  split
  · rename_i hf
    rw [isFalse_not_true hf] at ht; cases ht
  · rw [mapM_some_of_forall a.effs heff]
    exact ⟨_, rfl⟩

/-! ### effects through `FluentsSubstituter` -/

theorem applyFnEffect_retype {e : Effect} (hn : normal e.fluent = true ∧ normal e.value = true ∧ normal e.cond = true)
    (h : applyFnEffect id e = some e) : applyFnEffect retype e = some (rnEff e) := by
  unfold applyFnEffect mkEffect at *
  simp only [id] at h
  rw [retype_eq_rn.1 _ hn.1, retype_eq_rn.1 _ hn.2.1, retype_eq_rn.1 _ hn.2.2]
  simp only [freeVars_rn.1]
  split at h
  · rename_i hall
    rw [if_pos hall]
    simp only [Option.some.injEq] at h ⊢
    have hk := congrArg Effect.forall_ h
    simp only at hk
    unfold rnEff
    rw [hk]
  · cases h

theorem expandEffs_noForall (P : Problem) : ∀ (E : List Effect), (∀ e ∈ E, e.forall_ = []) → expandEffs P E = E
  | [], _ => rfl
  | e :: es, h => by
    have ih := expandEffs_noForall P es (fun x hx => h x (List.mem_cons_of_mem _ hx))
    unfold expandEffs at ih ⊢
    rw [List.flatMap_cons, ih]
    unfold expandEffect
    rw [h e (List.mem_cons_self ..)]
    rfl

end UPVerif.Compile
