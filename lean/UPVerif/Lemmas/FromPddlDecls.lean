import UPVerif.Lemmas.FromPddlInit
/-!
Helper lemmas for C21, the declarations: constants and objects, predicates, functions — whenever both readers accept
them, they declare the same objects and fluents.
-/
namespace UPVerif.FromPddl
open UPVerif UPVerif.Expr UPVerif.Pddl

/-! ### signatures -/

theorem readSig_eq (E : REnv) : ∀ gs, readSig E gs = (readParams E gs).map (List.map (·.2))
  | [] => rfl
  | (ns, t) :: gs => by
    rw [readSig, readParams, readSig_eq E gs]
    cases E.tyOf t with
    | none => rfl
    | some ty =>
      cases readParams E gs with
      | none => rfl
      | some rest => simp [List.map_map, Function.comp_def]

theorem convSig_eq (tab : TypeTab) : ∀ vs, convSig tab vs = (convParams tab vs).map (List.map (·.2))
  | [] => rfl
  | v :: vs => by
    rw [convSig, convParams, convSig_eq tab vs]
    cases variableType tab v with
    | none => rfl
    | some ty =>
      cases convParams tab vs with
      | none => rfl
      | some rest => rfl

theorem sig_agree (E : REnv) (tab : TypeTab) (hid : ∀ t n, (tab.lookup t).join = some n → n = t)
    (gs : List (List String × Option String)) (sig sig' : List Ty) (hU : readSig E gs = some sig)
    (hQ : convSig tab (gs.flatMap (fun g => g.1.map (fun n => ({ name := n, tags := g.2.toList } : TVar)))) = some sig') :
    sig = sig' := by
  rw [readSig_eq, Option.map_eq_some_iff] at hU
  rw [convSig_eq, Option.map_eq_some_iff] at hQ
  obtain ⟨P, hP, rfl⟩ := hU
  obtain ⟨P', hP', rfl⟩ := hQ
  rw [params_agree_groups E tab hid gs P P' hP hP']

/-! ### constants and objects -/

theorem convObjects_append (tab : TypeTab) : ∀ (l1 l2 : List (String × Option String)) (r : List (String × String)),
    convObjects tab (l1 ++ l2) = some r ↔
      ∃ r1 r2, convObjects tab l1 = some r1 ∧ convObjects tab l2 = some r2 ∧ r = r1 ++ r2
  | [], l2, r => by simp [convObjects]
  | (n, t) :: l1, l2, r => by
    simp only [List.cons_append, convObjects, Option.bind_eq_bind, Option.bind_eq_some_iff, Option.some.injEq]
    constructor
    · rintro ⟨tt, htt, ty, hty, xs, hxs, rfl⟩
      obtain ⟨r1, r2, h1, h2, rfl⟩ := (convObjects_append tab l1 l2 xs).1 hxs
      exact ⟨(n, ty) :: r1, r2, ⟨tt, htt, ty, hty, r1, h1, rfl⟩, h2, rfl⟩
    · rintro ⟨r1, r2, ⟨tt, htt, ty, hty, xs, hxs, rfl⟩, h2, rfl⟩
      exact ⟨tt, htt, ty, hty, xs ++ r2, (convObjects_append tab l1 l2 _).2 ⟨xs, r2, hxs, h2, rfl⟩, rfl⟩

theorem convObjects_group (tab : TypeTab) (hid : ∀ t n, (tab.lookup t).join = some n → n = t) (t : Option String) :
    ∀ (ns : List String) (r : List (String × String)), ns ≠ [] → convObjects tab (ns.map (fun n => (n, t))) = some r →
    ∃ tn, t = some tn ∧ r = ns.map (fun n => (n, tn))
  | [], _, hne, _ => (hne rfl).elim
  | n :: ns, r, _, h => by
    simp only [List.map_cons, convObjects, Option.bind_eq_bind, Option.bind_eq_some_iff, Option.some.injEq] at h
    obtain ⟨tt, htt, ty, hty, xs, hxs, rfl⟩ := h
    have : ty = tt := hid tt ty hty
    subst this
    refine ⟨ty, htt, ?_⟩
    cases ns with
    | nil =>
      simp only [List.map_nil, convObjects, Option.some.injEq] at hxs
      subst hxs; rfl
    | cons m ms =>
      obtain ⟨tn, htn, hr⟩ := convObjects_group tab hid t (m :: ms) xs (by simp) hxs
      rw [htt] at htn
      cases htn
      rw [hr]; rfl

/-- `typedList` never yields an empty group -/
theorem typedGroups_nonempty (vars : Bool) : ∀ (ts : List Sexp) (pend : List String) (gs : List (List String × Option String)),
    typedGroups vars ts pend = some gs → ∀ g ∈ gs, g.1 ≠ [] := by
  intro ts pend
  fun_induction typedGroups vars ts pend with
  | case1 pend hp => intro gs h; cases h; intro g hg; cases hg
  | case2 pend hp =>
    intro gs h; cases h; intro g hg
    simp only [List.mem_singleton] at hg
    subst hg
    simp only [ne_eq, List.reverse_eq_nil_iff]
    intro he; exact hp (by simp [he])
  | case3 => intro gs h; cases h
  | case4 => intro gs h; cases h
  | case5 n pend hn t rest' hp ih =>
    intro gs h
    rw [Option.map_eq_some_iff] at h
    obtain ⟨gs', hgs', rfl⟩ := h
    intro g hg
    rcases List.mem_cons.1 hg with rfl | hg
    · simp only [ne_eq, List.reverse_eq_nil_iff]
      intro he; exact hp (by simp [he])
    · exact ih gs' hgs' g hg
  | case6 => intro gs h; cases h
  | case7 n rest pend hn hv v hs ih => intro gs h; exact ih gs h
  | case8 => intro gs h; cases h
  | case9 n rest pend hn hv ih => intro gs h; exact ih gs h

/-- `_add_object` of the converter vs the first reader on a typed list of names -/
theorem objects_agree_groups (E : REnv) (tab : TypeTab) (hid : ∀ t n, (tab.lookup t).join = some n → n = t) :
    ∀ (gs : List (List String × Option String)) (os os' : List (String × String)), (∀ g ∈ gs, g.1 ≠ []) →
    readObjects E gs = some os → convObjects tab (gs.flatMap (fun g => g.1.map (fun n => (n, g.2)))) = some os' → os = os'
  | [], os, os', _, hU, hQ => by
    rw [readObjects] at hU
    simp [convObjects] at hQ
    rw [← Option.some.inj hU, hQ]
  | (ns, t) :: gs, os, os', hne, hU, hQ => by
    rw [readObjects] at hU
    simp only [Option.bind_eq_bind] at hU
    replace hU := (ite_none_inv hU rfl).2
    rw [Option.bind_eq_some_iff] at hU
    obtain ⟨rest, hrest, hU⟩ := hU
    cases hU
    rw [List.flatMap_cons, convObjects_append] at hQ
    obtain ⟨r1, r2, h1, h2, rfl⟩ := hQ
    rw [objects_agree_groups E tab hid gs rest r2 (fun g hg => hne g (List.mem_cons_of_mem _ hg)) hrest h2]
    congr 1
    obtain ⟨tn, htn, hr⟩ := convObjects_group tab hid t ns r1 (hne (ns, t) (by simp)) h1
    subst htn
    rw [hr]; rfl

theorem astNames_inv {l : List Sexp} {ns : List (String × Option String)} (h : astNames l = some ns) :
    ∃ gs, typedList false l = some gs ∧ ns = gs.flatMap (fun g => g.1.map (fun n => (n, g.2))) := by
  unfold astNames at h
  split at h
  · rename_i gs hgs
    simp only at h
    split at h
    · cases h; exact ⟨gs, hgs, rfl⟩
    · cases h
  · cases h

theorem objects_agree (E : REnv) (tab : TypeTab) (hid : ∀ t n, (tab.lookup t).join = some n → n = t) (l : List Sexp)
    (ns : List (String × Option String)) (os os' : List (String × String))
    (hU : ∃ gs, typedList false l = some gs ∧ readObjects E gs = some os) (hA : astNames l = some ns)
    (hQ : convObjects tab ns = some os') : os = os' := by
  obtain ⟨gs, hgs, hos⟩ := hU
  obtain ⟨gs', hgs', rfl⟩ := astNames_inv hA
  rw [hgs] at hgs'
  cases hgs'
  exact objects_agree_groups E tab hid gs os os' (typedGroups_nonempty false l [] gs hgs) hos hQ

/-! ### predicates -/

theorem pred_agree (E : REnv) (tab : TypeTab) (hid : ∀ t n, (tab.lookup t).join = some n → n = t) (x : Sexp)
    (p : FluentRef) (sk : String × List TVar) (sig' : List Ty) (hU : readPredicate E x = some p)
    (hA : astSkeleton x = some sk) (hQ : convSig tab sk.2 = some sig') : p = { name := sk.1, ty := .bool, sig := sig' } := by
  unfold readPredicate at hU
  split at hU
  · rename_i n ps
    simp only [Option.bind_eq_bind, Option.bind_eq_some_iff, Option.some.injEq] at hU
    obtain ⟨gs, hgs, sig, hsig, rfl⟩ := hU
    simp only [astSkeleton] at hA
    split at hA
    · cases hA
    · rw [Option.map_eq_some_iff] at hA
      obtain ⟨vs, hvs, rfl⟩ := hA
      unfold astVars at hvs
      rw [hgs] at hvs
      simp only [Option.map_some, Option.some.injEq] at hvs
      subst hvs
      rw [sig_agree E tab hid gs sig sig' hsig hQ]
  · cases hU

theorem preds_agree (E : REnv) (tab : TypeTab) (hid : ∀ t n, (tab.lookup t).join = some n → n = t) :
    ∀ (l : List Sexp) (ps : List FluentRef) (sk : List (String × List TVar)) (ps' : List FluentRef),
      l.mapM (readPredicate E) = some ps → l.mapM astSkeleton = some sk → convPredicates tab sk = some ps' → ps = ps'
  | [], ps, sk, ps', hU, hA, hQ => by
    simp only [List.mapM_nil, Option.pure_def, Option.some.injEq] at hU hA
    subst hU hA
    simp only [convPredicates, Option.some.injEq] at hQ
    exact hQ
  | x :: l, ps, sk, ps', hU, hA, hQ => by
    simp only [List.mapM_cons, Option.pure_def, Option.bind_eq_bind, Option.bind_eq_some_iff, Option.some.injEq] at hU hA
    obtain ⟨p, hp, ps1, hps1, rfl⟩ := hU
    obtain ⟨s, hs, sk1, hsk1, rfl⟩ := hA
    obtain ⟨n, vs⟩ := s
    rw [convPredicates] at hQ
    simp only [Option.bind_eq_bind, Option.bind_eq_some_iff, Option.some.injEq] at hQ
    obtain ⟨sig', hsig', rest, hrest, rfl⟩ := hQ
    rw [pred_agree E tab hid x p (n, vs) sig' hp hs hsig', preds_agree E tab hid l ps1 sk1 rest hps1 hsk1 hrest]

/-! ### functions -/

/-- no function of the `:functions` section is called `total-cost` -/
def noTotalCost : List Sexp → Bool
  | [] => true
  | .list (.atom n :: _) :: rest => n != "total-cost" && noTotalCost rest
  | _ :: rest => noTotalCost rest

theorem astFunctions_minus (rest : List Sexp) : astFunctions (.atom "-" :: rest) = none := by
  unfold astFunctions
  rfl

theorem funs_agree (E : REnv) (tab : TypeTab) (hid : ∀ t n, (tab.lookup t).join = some n → n = t) (l : List Sexp) :
    ∀ (fs : List FluentRef) (sk : List (String × List TVar)) (fs' : List FluentRef), readFunctions E l = some fs →
      astFunctions l = some sk → noTotalCost l = true → convFunctions tab false sk = some fs' → fs = fs' := by
  fun_induction readFunctions E l with
  | case1 =>
    intro fs sk fs' hU hA _ hQ
    cases hU
    simp only [astFunctions, Option.some.injEq] at hA
    subst hA
    simp only [convFunctions, Option.some.injEq] at hQ
    exact hQ
  | case2 n ps rt rest ih =>
    intro fs sk fs' hU hA hn hQ
    simp only [Option.bind_eq_bind] at hU
    rw [Option.bind_eq_some_iff] at hU; obtain ⟨gs, hgs, hU⟩ := hU
    replace hU := (ite_none_inv hU rfl).2
    rw [Option.bind_eq_some_iff] at hU; obtain ⟨sig, hsig, hU⟩ := hU
    rw [Option.bind_eq_some_iff] at hU; obtain ⟨ty, hty, hU⟩ := hU
    rw [Option.bind_eq_some_iff] at hU; obtain ⟨more, hmore, hU⟩ := hU
    cases hU
    simp only [noTotalCost, Bool.and_eq_true, bne_iff_ne, ne_eq] at hn
    have hntc : (n == "total-cost") = false := by simpa using hn.1
    unfold astFunctions at hA
    split at hA
    · rename_i heq; cases heq
    · rename_i n' ps' rest' heq
      simp only [List.cons.injEq, Sexp.list.injEq, Sexp.atom.injEq, true_and] at heq
      obtain ⟨⟨rfl, rfl⟩, hrt, rfl⟩ := heq
      simp only [Option.bind_eq_bind, Option.bind_eq_some_iff, Option.some.injEq] at hA
      obtain ⟨vs, hvs, more', hmore', rfl⟩ := hA
      simp only [hntc, Bool.false_eq_true, if_false] at hQ
      rw [convFunctions] at hQ
      simp only [hntc, Bool.false_and, Bool.false_eq_true, if_false, Option.bind_eq_bind, Option.bind_eq_some_iff,
        Option.some.injEq] at hQ
      obtain ⟨sig', hsig', rest'', hrest'', rfl⟩ := hQ
      unfold astVars at hvs
      rw [hgs] at hvs
      simp only [Option.map_some, Option.some.injEq] at hvs
      subst hvs
      have hty' : ty = .real none none := by
        simp only [← hrt, beq_self_eq_true, if_true, Option.some.injEq] at hty
        exact hty.symm
      rw [sig_agree E tab hid gs sig sig' hsig hsig', hty', ih more more' rest'' hmore hmore' hn.2 hrest'']
    · rename_i n' ps' rest' _ heq
      simp only [List.cons.injEq, Sexp.list.injEq, Sexp.atom.injEq, true_and] at heq
      obtain ⟨⟨rfl, rfl⟩, rfl⟩ := heq
      simp only [Option.bind_eq_bind, Option.bind_eq_some_iff, Option.some.injEq, astFunctions_minus] at hA
      obtain ⟨_, _, _, h, _⟩ := hA
      cases h
    · cases hA
  | case3 n ps rest hx ih =>
    intro fs sk fs' hU hA hn hQ
    simp only [Option.bind_eq_bind] at hU
    rw [Option.bind_eq_some_iff] at hU; obtain ⟨gs, hgs, hU⟩ := hU
    replace hU := (ite_none_inv hU rfl).2
    rw [Option.bind_eq_some_iff] at hU; obtain ⟨sig, hsig, hU⟩ := hU
    rw [Option.bind_eq_some_iff] at hU; obtain ⟨more, hmore, hU⟩ := hU
    cases hU
    simp only [noTotalCost, Bool.and_eq_true, bne_iff_ne, ne_eq] at hn
    have hntc : (n == "total-cost") = false := by simpa using hn.1
    unfold astFunctions at hA
    split at hA
    · rename_i heq; cases heq
    · rename_i n' ps' rest' heq
      simp only [List.cons.injEq, Sexp.list.injEq, Sexp.atom.injEq, true_and] at heq
      obtain ⟨⟨rfl, rfl⟩, rfl⟩ := heq
      exact (hx "number" rest' rfl).elim
    · rename_i n' ps' rest' _ heq
      simp only [List.cons.injEq, Sexp.list.injEq, Sexp.atom.injEq, true_and] at heq
      obtain ⟨⟨rfl, rfl⟩, rfl⟩ := heq
      simp only [Option.bind_eq_bind, Option.bind_eq_some_iff, Option.some.injEq] at hA
      obtain ⟨vs, hvs, more', hmore', rfl⟩ := hA
      simp only [hntc, Bool.false_eq_true, if_false] at hQ
      rw [convFunctions] at hQ
      simp only [hntc, Bool.false_and, Bool.false_eq_true, if_false, Option.bind_eq_bind, Option.bind_eq_some_iff,
        Option.some.injEq] at hQ
      obtain ⟨sig', hsig', rest'', hrest'', rfl⟩ := hQ
      unfold astVars at hvs
      rw [hgs] at hvs
      simp only [Option.map_some, Option.some.injEq] at hvs
      subst hvs
      rw [sig_agree E tab hid gs sig sig' hsig hsig', ih more more' rest'' hmore hmore' hn.2 hrest'']
    · cases hA
  | case4 => intro fs sk fs' hU; cases hU

end UPVerif.FromPddl
