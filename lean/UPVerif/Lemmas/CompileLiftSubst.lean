import UPVerif.Lemmas.CompileSIR
import UPVerif.Lemmas.SubstBasic
/-!
Instantiation of action parameters (`Compile.instAct`, i.e. `FNode.substitute` with the map
parameter ↦ object that `paramSubst` builds) seen through the state evaluator: the facts the lifted
compiler theorems (Props/C06Lift.lean, Props/C07Lift.lean) need about `substE σ`.

`Substituter` rebuilds every node through the expression manager (`rebuild`: `And`/`Or`/`Plus`/`Times` of
one argument collapse, a double negation collapses), so `substE σ` is NOT a homomorphism on syntax.  What is
proved here is what survives at the level of TRUTH in a state:

* `isTrue_substE_mkAnd`: an instantiated conjunction is TRUE iff every instantiated conjunct is;
* `preOK_map_splitAnd`, `preOK_map_addPre`, `preOK_map_foldl_addPre`: the same through the helpers the compilers
  use to store a simplified condition as a list of preconditions (the duplicate test of `add_precondition` may
  answer differently before and after instantiation — two parameters bound to one object — but the truth of the
  list is the same);
* `isTrue_substE_mkNot`: the instantiated negation built by the manager is TRUE iff the instantiated
  expression evaluates to FALSE;
* `preOK_map_simplifyPre`: `check_and_simplify_preconditions`, then instantiation.

No hypothesis on the expressions (normal form, typing) is needed for these.
-/
namespace UPVerif.Compile
open UPVerif UPVerif.Expr UPVerif.Sim UPVerif.Spec

/-- a substitution of action parameters by objects: what `paramSubst` builds -/
def IsParamSubst (σ : Subst) : Prop :=
  ∀ kv ∈ σ, (∃ n t, kv.1 = .leaf (.param n t)) ∧ (∃ o t, kv.2 = .leaf (.obj o t))

theorem isParamSubst_nil : IsParamSubst [] := by intro kv h; cases h

theorem isParamSubst_paramSubst (P : Problem) (a : Action) (args : List String) :
    IsParamSubst (paramSubst P a args) := by
  intro kv hkv
  unfold paramSubst at hkv
  rw [List.mem_map] at hkv
  obtain ⟨pa, _, rfl⟩ := hkv
  exact ⟨⟨_, _, rfl⟩, ⟨_, _, rfl⟩⟩

theorem IsParamSubst.lookup_app {σ : Subst} (h : IsParamSubst σ) (op : Op) (args : List Expr) :
    σ.lookup (.app op args) = none := by
  rw [lookup_eq_none_iff_forall]
  intro kv hkv he
  obtain ⟨⟨n, t, hk⟩, _⟩ := h kv hkv
  rw [hk] at he; cases he

theorem IsParamSubst.lookup_quant {σ : Subst} (h : IsParamSubst σ) (q : Quant) (vs : List Var) (b : Expr) :
    σ.lookup (.quant q vs b) = none := by
  rw [lookup_eq_none_iff_forall]
  intro kv hkv he
  obtain ⟨⟨n, t, hk⟩, _⟩ := h kv hkv
  rw [hk] at he; cases he

theorem IsParamSubst.lookup_leaf {σ : Subst} (h : IsParamSubst σ) (l : Leaf) (hl : ∀ n t, l ≠ .param n t) :
    σ.lookup (.leaf l) = none := by
  rw [lookup_eq_none_iff_forall]
  intro kv hkv he
  obtain ⟨⟨n, t, hk⟩, _⟩ := h kv hkv
  rw [hk] at he
  injection he with he
  exact hl n t he.symm

theorem substE_nil (e : Expr) : substE [] e = e := rfl

theorem substE_of_ne {σ : Subst} (h : σ.isEmpty = false) (e : Expr) : substE σ e = subst σ e := by
  unfold substE; simp [h]

theorem substE_of_empty {σ : Subst} (h : σ.isEmpty = true) (e : Expr) : substE σ e = e := by
  unfold substE; simp [h]

theorem substList_eq_map (σ : Subst) : ∀ es : List Expr, substList σ es = es.map (subst σ)
  | [] => by rw [substList_nil]; rfl
  | e :: es => by rw [substList_cons, substList_eq_map σ es]; rfl

theorem substE_leaf {σ : Subst} (h : IsParamSubst σ) (l : Leaf) (hl : ∀ n t, l ≠ .param n t) :
    substE σ (.leaf l) = .leaf l := by
  unfold substE
  split
  · rfl
  · exact subst_leaf_none σ l (h.lookup_leaf l hl)

theorem substE_tt {σ : Subst} (h : IsParamSubst σ) : substE σ Expr.tt = Expr.tt :=
  substE_leaf h _ (by intro n t e; cases e)

theorem substE_ff {σ : Subst} (h : IsParamSubst σ) : substE σ Expr.ff = Expr.ff :=
  substE_leaf h _ (by intro n t e; cases e)

/-- on an application node: the node itself (empty map) or the node rebuilt by the manager from the
    instantiated children -/
theorem substE_app {σ : Subst} (h : IsParamSubst σ) (op : Op) (args : List Expr) :
    substE σ (.app op args) = if σ.isEmpty then .app op args else rebuild op (args.map (substE σ)) := by
  cases hσ : σ.isEmpty with
  | true => simp [substE_of_empty hσ]
  | false =>
    simp only [Bool.false_eq_true, if_false]
    rw [substE_of_ne hσ, subst_app_none σ op args (h.lookup_app op args), substList_eq_map]
    congr 1
    apply List.map_congr_left
    intro x _
    rw [substE_of_ne hσ]

/-! ### conjunctions -/

theorem preOK_singleton' (c : EvalCtx) (d : Expr) : preOK c [d] = Spec.isTrue (eval c [] d) := by
  simp [preOK]

/-- an instantiated AND node is TRUE iff every instantiated argument is -/
theorem isTrue_substE_and {σ : Subst} (h : IsParamSubst σ) (c : EvalCtx) (as : List Expr) :
    Spec.isTrue (eval c [] (substE σ (.app .and as))) = preOK c (as.map (substE σ)) := by
  rw [substE_app h]
  split
  · rename_i hσ
    rw [eval_and_true]
    unfold preOK
    rw [List.all_map]
    apply all_congr_mem
    intro x _
    simp only [Function.comp, substE_of_empty hσ]
  · show Spec.isTrue (eval c [] (mkAnd (as.map (substE σ)))) = _
    rw [isTrue_mkAnd]

/-- `manager.And(l)`, instantiated, is TRUE iff every instantiated element is -/
theorem isTrue_substE_mkAnd {σ : Subst} (h : IsParamSubst σ) (c : EvalCtx) (l : List Expr) :
    Spec.isTrue (eval c [] (substE σ (mkAnd l))) = preOK c (l.map (substE σ)) := by
  match l with
  | [] =>
    show Spec.isTrue (eval c [] (substE σ Expr.tt)) = _
    rw [substE_tt h]; rfl
  | [x] =>
    show Spec.isTrue (eval c [] (substE σ x)) = _
    simp [preOK]
  | x :: y :: r =>
    rw [show mkAnd (x :: y :: r) = .app .and (x :: y :: r) from rfl, isTrue_substE_and h]

theorem preOK_map_splitAnd {σ : Subst} (h : IsParamSubst σ) (c : EvalCtx) (e : Expr) :
    preOK c ((splitAnd e).map (substE σ)) = Spec.isTrue (eval c [] (substE σ e)) := by
  unfold splitAnd
  split
  · rw [isTrue_substE_and h]
  · simp [preOK]

theorem preOK_map_append (c : EvalCtx) (f : Expr → Expr) (l m : List Expr) :
    preOK c ((l ++ m).map f) = (preOK c (l.map f) && preOK c (m.map f)) := by
  rw [List.map_append, preOK_append]

theorem preOK_map_mem {c : EvalCtx} {f : Expr → Expr} {l : List Expr} (h : preOK c (l.map f) = true) {e : Expr}
    (he : e ∈ l) : Spec.isTrue (eval c [] (f e)) = true :=
  preOK_mem h (List.mem_map_of_mem he)

/-- `add_precondition`, then instantiation: the truth of the list is that of the old list and of the new
    condition (whatever the duplicate test answered) -/
theorem preOK_map_addPre {σ : Subst} (h : IsParamSubst σ) (c : EvalCtx) (pre : List Expr) (e : Expr) :
    preOK c ((addPre pre e).map (substE σ)) =
      (preOK c (pre.map (substE σ)) && Spec.isTrue (eval c [] (substE σ e))) := by
  unfold addPre
  split
  · rename_i he; rw [he, substE_tt h, isTrue_tt, Bool.and_true]
  · split
    · rename_i hc
      have hm : e ∈ pre := by simpa using hc
      cases hp : preOK c (pre.map (substE σ)) with
      | false => rfl
      | true => rw [preOK_map_mem hp hm]; rfl
    · rw [preOK_map_append]; simp [preOK]

theorem preOK_map_foldl_addPre {σ : Subst} (h : IsParamSubst σ) (c : EvalCtx) : ∀ (l acc : List Expr),
    preOK c ((l.foldl addPre acc).map (substE σ)) =
      (preOK c (acc.map (substE σ)) && preOK c (l.map (substE σ)))
  | [], acc => by simp [preOK]
  | e :: es, acc => by
    rw [List.foldl_cons, preOK_map_foldl_addPre h c es, preOK_map_addPre h, List.map_cons, preOK_cons, Bool.and_assoc]

/-! ### negations -/

theorem eval_mkNot_false {c : EvalCtx} {e : Expr} :
    eval c [] (mkNot e) = .ok (.b false) ↔ eval c [] e = .ok (.b true) := by
  have hnot : ∀ x : Expr, eval c [] (.app .not [x]) = .ok (.b false) ↔ eval c [] x = .ok (.b true) := by
    intro x
    cases hxe : eval c [] x with
    | error y => simp [eval, evalList, hxe]
    | ok v =>
      simp only [eval, evalList, hxe]
      cases v with
      | b b => cases b <;> simp [evalOp, denOp]
      | n q => simp [evalOp, denOp]
      | o s => simp [evalOp, denOp]
  by_cases hs : ∃ x, e = .app .not [x]
  · obtain ⟨x, rfl⟩ := hs
    have : mkNot (.app .not [x]) = x := rfl
    rw [this]
    cases hxe : eval c [] x with
    | error y => simp [eval, evalList, hxe]
    | ok v =>
      simp only [eval, evalList, hxe]
      cases v with
      | b b => cases b <;> simp [evalOp, denOp]
      | n q => simp [evalOp, denOp]
      | o s => simp [evalOp, denOp]
  · have : mkNot e = .app .not [e] := by
      unfold mkNot
      split
      · rename_i x; exact absurd ⟨x, rfl⟩ hs
      · rfl
    rw [this]
    exact hnot e

theorem isTrue_mkNot_iff {c : EvalCtx} {e : Expr} :
    Spec.isTrue (eval c [] (mkNot e)) = true ↔ eval c [] e = .ok (.b false) :=
  ⟨isTrue_mkNot, isTrue_mkNot_of_false⟩

/-- the negation built by the manager, instantiated, is TRUE exactly when the instantiated expression
    evaluates to FALSE -/
theorem isTrue_substE_mkNot {σ : Subst} (h : IsParamSubst σ) (c : EvalCtx) (e : Expr) :
    Spec.isTrue (eval c [] (substE σ (mkNot e))) = true ↔ eval c [] (substE σ e) = .ok (.b false) := by
  cases hσ : σ.isEmpty with
  | true => rw [substE_of_empty hσ, substE_of_empty hσ]; exact isTrue_mkNot_iff
  | false =>
    by_cases hs : ∃ x, e = .app .not [x]
    · obtain ⟨x, rfl⟩ := hs
      have e1 : mkNot (.app .not [x]) = x := rfl
      have e2 : substE σ (.app .not [x]) = mkNot (substE σ x) := by
        rw [substE_app h]; simp [hσ, rebuild]
      rw [e1, e2, eval_mkNot_false, isTrue_eq_true]
    · have e1 : mkNot e = .app .not [e] := by
        unfold mkNot
        split
        · rename_i x; exact absurd ⟨x, rfl⟩ hs
        · rfl
      have e2 : substE σ (.app .not [e]) = mkNot (substE σ e) := by
        rw [substE_app h]; simp [hσ, rebuild]
      rw [e1, e2]
      exact isTrue_mkNot_iff

/-! ### `check_and_simplify_preconditions`, then instantiation -/

/-- the truth of the instantiated simplified preconditions is the truth of the instantiated simplified conjunction -/
theorem preOK_map_simplifyPre {σ : Subst} (h : IsParamSubst σ) (c : EvalCtx) (simp : Expr → Expr) (pre : List Expr) :
    (match simplifyPreWith simp pre with
     | some pre' => preOK c (pre'.map (substE σ))
     | none => false) =
    (if pre.isEmpty then true else Spec.isTrue (eval c [] (substE σ (simp (mkAnd pre))))) := by
  by_cases hp : pre.isEmpty = true
  · have : pre = [] := by simpa using hp
    subst this; rfl
  · unfold simplifyPreWith
    simp only [hp, Bool.false_eq_true, if_false]
    generalize simp (mkAnd pre) = s
    split
    · rename_i x pre' hx
      split at hx
      · rename_i b
        split at hx
        · cases hx; rename_i hb; subst hb
          show true = Spec.isTrue (eval c [] (substE σ Expr.tt))
          rw [substE_tt h]; rfl
        · cases hx
      · rename_i as
        cases hx
        rw [isTrue_substE_and h]
      · cases hx; simp [preOK]
    · rename_i x hx
      split at hx
      · rename_i b
        split at hx
        · cases hx
        · rename_i hb
          have : b = false := by simpa using hb
          subst this
          show false = Spec.isTrue (eval c [] (substE σ Expr.ff))
          rw [substE_ff h]; rfl
      · cases hx
      · cases hx

/-! ### effects -/

/-- the instantiation of one effect (`instAct` maps it over the effects of an action) -/
def substEff (σ : Subst) (e : Effect) : Effect :=
  { fluent := substE σ e.fluent, value := substE σ e.value, cond := substE σ e.cond, kind := e.kind,
    forall_ := e.forall_ }

theorem instAct_eq (P : Problem) (a : Action) (args : List String) :
    instAct P a args = { name := a.name, params := [], pre := a.pre.map (substE (paramSubst P a args)),
                         effs := a.effs.map (substEff (paramSubst P a args)) } := rfl

/-- instantiation keeps the (un)conditional status of the effect: its condition does not become (or stop being)
    the constant TRUE.  Decidable; it holds for every condition in the expression manager's normal form
    (a conjunction of no arguments, or a collapsing singleton / double negation around TRUE, is what breaks it). -/
def condStable (σ : Subst) (e : Effect) : Bool := (substE σ e.cond).isTrue == e.cond.isTrue

theorem substEff_isConditional {σ : Subst} {e : Effect} (h : condStable σ e = true) :
    (substEff σ e).isConditional = e.isConditional := by
  unfold condStable at h
  unfold Effect.isConditional substEff
  dsimp only
  rw [beq_iff_eq] at h
  rw [h]

theorem filter_map_substEff {σ : Subst} (p : Bool) : ∀ (l : List Effect), (∀ e ∈ l, condStable σ e = true) →
    (l.map (substEff σ)).filter (fun e => e.isConditional == p) =
      (l.filter (fun e => e.isConditional == p)).map (substEff σ)
  | [], _ => rfl
  | e :: es, h => by
    have he := substEff_isConditional (h e (List.mem_cons_self ..))
    have ih := filter_map_substEff p es (fun x hx => h x (List.mem_cons_of_mem _ hx))
    rw [List.map_cons, List.filter_cons, List.filter_cons, he, ih]
    split <;> rfl

end UPVerif.Compile
