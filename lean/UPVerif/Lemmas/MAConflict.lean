import UPVerif.Lemmas.MACondLemmas
/-!
Helper lemmas for `Props/C37.lean`: what the static conflict check of `_add_effect_instance`
(`check_conflicting_effects`, `Sim.staticStep`) means for the documented successor.

`_create_unconditional_actions` (after d88a7f6) drops the variant of a subset `p` as soon as the
unconditional copy of a selected effect is refused.  In the state that selects `p` every effect of the
variant FIRES, so a refusal is a conflict of two firing effects on one ground fluent:
* an assignment together with an increase/decrease — the original is inapplicable (`Spec.ConsK`);
* two assignments of value expressions that are neither equal nor equal constants — the original is
  inapplicable UNLESS the two expressions happen to have the same value in this state (`coincide`,
  the cause of finding D-C37-coinciding-values, inherited from C07-static-conflict-coinciding-values).
-/
namespace UPVerif.MA
open UPVerif UPVerif.Expr UPVerif.Sim UPVerif.MASpec

/-! ### a refused effect clashes with an earlier one -/

/-- `e2` is refused by `check_conflicting_effects` because of the earlier `e1`: same non-Boolean target,
    and two assignments of incompatible value expressions, or an assignment with an increase/decrease -/
def Clash (e1 e2 : Effect) : Prop :=
  fluentIsBool e1.fluent = false ∧ e1.fluent = e2.fluent ∧
  ((e1.kind = .assign ∧ e2.kind = .assign ∧ compatVal e1.value e2.value = false) ∨
   (e1.kind = .assign ∧ e2.kind ≠ .assign) ∨ (e1.kind ≠ .assign ∧ e2.kind = .assign))

/-- the bookkeeping `acc` was produced by unconditional non-Boolean effects of `P` -/
def AccFrom (acc : StaticAcc) (P : List Effect) : Prop :=
  (∀ fv ∈ acc.assigned, ∃ e ∈ P, e.fluent = fv.1 ∧ e.value = fv.2 ∧ e.kind = .assign ∧ fluentIsBool e.fluent = false) ∧
  (∀ fl ∈ acc.incdec, ∃ e ∈ P, e.fluent = fl ∧ e.kind ≠ .assign ∧ fluentIsBool e.fluent = false)

theorem accFrom_nil : AccFrom ⟨[], []⟩ [] := by
  unfold AccFrom
  exact ⟨fun _ h => (by cases h), fun _ h => (by cases h)⟩

theorem AccFrom.mono {acc : StaticAcc} {P Q : List Effect} (h : AccFrom acc P) (hs : ∀ e ∈ P, e ∈ Q) : AccFrom acc Q :=
  ⟨fun fv hfv => let ⟨e, he, r⟩ := h.1 fv hfv; ⟨e, hs e he, r⟩,
   fun fl hfl => let ⟨e, he, r⟩ := h.2 fl hfl; ⟨e, hs e he, r⟩⟩

theorem mem_of_lookup {α β : Type} [BEq α] [LawfulBEq α] {k : α} {v : β} : ∀ {l : List (α × β)},
    l.lookup k = some v → (k, v) ∈ l
  | [], h => by cases h
  | (k', v') :: l, h => by
    rw [List.lookup_cons] at h
    by_cases hk : (k == k') = true
    · rw [hk] at h
      have : k = k' := by simpa using hk
      cases h; subst this
      exact List.mem_cons_self ..
    · have hk' : (k == k') = false := by simpa using hk
      rw [hk'] at h
      exact List.mem_cons_of_mem _ (mem_of_lookup h)

/-- one accepted step keeps the bookkeeping explained by the effects seen so far -/
theorem staticStep_accFrom {acc acc' : StaticAcc} {P : List Effect} {e : Effect} (h : AccFrom acc P)
    (hs : staticStep acc e = some acc') : AccFrom acc' (P ++ [e]) := by
  have hm : AccFrom acc (P ++ [e]) := h.mono (fun x hx => List.mem_append_left _ hx)
  unfold staticStep at hs
  split at hs
  · cases hs; exact hm
  · rename_i hcb
    have hb : fluentIsBool e.fluent = false := by
      cases hx : fluentIsBool e.fluent with
      | false => rfl
      | true => simp [hx] at hcb
    split at hs
    · rename_i hk
      split at hs
      · cases hs
      · split at hs
        · split at hs
          · cases hs; exact hm
          · cases hs
        · cases hs
          refine ⟨fun fv hfv => ?_, hm.2⟩
          rcases List.mem_cons.1 hfv with rfl | hfv
          · exact ⟨e, List.mem_append_right _ (List.mem_singleton.2 rfl), rfl, rfl, hk, hb⟩
          · exact hm.1 fv hfv
    · rename_i hk
      split at hs
      · cases hs
      · cases hs
        refine ⟨hm.1, fun fl hfl => ?_⟩
        rcases List.mem_cons.1 hfl with rfl | hfl
        · refine ⟨e, List.mem_append_right _ (List.mem_singleton.2 rfl), rfl, ?_, hb⟩
          intro hka
          exact hk (by rw [hka])
        · exact hm.2 fl hfl

/-- a refused step names the earlier effect it clashes with -/
theorem staticStep_none {acc : StaticAcc} {P : List Effect} {e : Effect} (h : AccFrom acc P)
    (hs : staticStep acc e = none) : ∃ e1 ∈ P, Clash e1 e := by
  unfold staticStep at hs
  split at hs
  · cases hs
  · split at hs
    · rename_i hk
      split at hs
      · rename_i hin
        have hin' : e.fluent ∈ acc.incdec := by simpa using hin
        obtain ⟨e1, he1, hf, hk1, hb1⟩ := h.2 _ hin'
        exact ⟨e1, he1, hb1, hf, Or.inr (Or.inr ⟨hk1, hk⟩)⟩
      · split at hs
        · rename_i av hl
          split at hs
          · cases hs
          · rename_i hcv
            obtain ⟨e1, he1, hf, hv, hk1, hb1⟩ := h.1 _ (mem_of_lookup hl)
            refine ⟨e1, he1, hb1, hf, Or.inl ⟨hk1, hk, ?_⟩⟩
            rw [hv]; simpa using hcv
        · cases hs
    · rename_i hk
      split at hs
      · rename_i hsome
        cases hl : acc.assigned.lookup e.fluent with
        | none => rw [hl] at hsome; cases hsome
        | some av =>
          obtain ⟨e1, he1, hf, _, hk1, hb1⟩ := h.1 _ (mem_of_lookup hl)
          refine ⟨e1, he1, hb1, hf, Or.inr (Or.inl ⟨hk1, ?_⟩)⟩
          intro hka
          exact hk (by rw [hka])
      · cases hs

/-- STATIC CONFLICT = a clashing pair: when re-adding a list of effects raises, some effect clashes with
    an earlier one -/
theorem staticAdd_none : ∀ (L : List Effect) (acc : StaticAcc) (P : List Effect), AccFrom acc P →
    staticAdd L acc = none → ∃ e1 ∈ P ++ L, ∃ e2 ∈ L, Clash e1 e2
  | [], _, _, _, h => by cases h
  | e :: L, acc, P, hacc, h => by
    unfold staticAdd at h
    cases hs : staticStep acc e with
    | none =>
      obtain ⟨e1, he1, hc⟩ := staticStep_none hacc hs
      exact ⟨e1, List.mem_append_left _ he1, e, List.mem_cons_self .., hc⟩
    | some acc' =>
      rw [hs] at h
      obtain ⟨e1, he1, e2, he2, hc⟩ := staticAdd_none L acc' (P ++ [e]) (staticStep_accFrom hacc hs) h
      refine ⟨e1, ?_, e2, List.mem_cons_of_mem _ he2, hc⟩
      simpa [List.append_assoc] using he1

/-! ### two clashing effects that both fire are inconsistent -/

theorem targetIsBool_eq (e : Effect) : targetIsBool e = fluentIsBool e.fluent := by
  unfold targetIsBool fluentIsBool
  cases e.fluent with
  | app op args => cases op <;> rfl
  | _ => rfl

/-- an unconditional effect that fires: its target and what it does to it -/
theorem fires_unfold {V : View} {g : GState} {e : Effect} {f : Fired} (hu : e.isConditional = false)
    (h : evalEff V g e = some (some f)) : ∃ k, target V g e = some k ∧ firing V g e k = some f := by
  unfold MASpec.evalEff at h
  cases ht : target V g e with
  | none => rw [ht] at h; cases h
  | some k =>
    rw [ht] at h
    simp only [hu, Bool.false_eq_true, if_false] at h
    refine ⟨k, rfl, ?_⟩
    cases hf : firing V g e k with
    | none => rw [hf] at h; cases h
    | some f' => rw [hf] at h; simpa using h

theorem target_congr {V : View} {g : GState} {e1 e2 : Effect} {k1 k2 : GKey} (hf : e1.fluent = e2.fluent)
    (h1 : target V g e1 = some k1) (h2 : target V g e2 = some k2) : k1 = k2 := by
  unfold target at h1 h2
  split at h1
  · cases h1
  · split at h2
    · cases h2
    · rw [hf] at h1
      rw [h1] at h2
      exact Option.some.inj h2

theorem firing_assign {V : View} {g : GState} {e : Effect} {k : GKey} {f : Fired}
    (hb : fluentIsBool e.fluent = false) (hk : e.kind = .assign) (h : firing V g e k = some f) :
    ∃ v, value V g e.value = some v ∧ f = .setV k v := by
  unfold firing at h
  cases hv : value V g e.value with
  | none => rw [hv] at h; cases h
  | some v =>
    rw [hv] at h
    simp only [hk, targetIsBool_eq, hb, Bool.false_eq_true, if_false] at h
    exact ⟨v, rfl, (Option.some.inj h).symm⟩

theorem firing_incdec {V : View} {g : GState} {e : Effect} {k : GKey} {f : Fired}
    (hk : e.kind ≠ .assign) (h : firing V g e k = some f) : ∃ d, f = .delta k d := by
  unfold firing at h
  cases hv : value V g e.value with
  | none => rw [hv] at h; cases h
  | some v =>
    rw [hv] at h
    cases hkind : e.kind with
    | assign => exact absurd hkind hk
    | increase =>
      rw [hkind] at h
      cases v with
      | n d => exact ⟨d, (Option.some.inj h).symm⟩
      | b _ => cases h
      | o _ => cases h
    | decrease =>
      rw [hkind] at h
      cases v with
      | n d => exact ⟨-d, (Option.some.inj h).symm⟩
      | b _ => cases h
      | o _ => cases h

theorem mem_asgV {F : List Fired} {k : GKey} {v : Val} (h : Fired.setV k v ∈ F) : v ∈ Spec.asgV F k := by
  unfold Spec.asgV
  exact List.mem_filterMap.2 ⟨_, h, by simp [Spec.selV]⟩

theorem mem_deltas {F : List Fired} {k : GKey} {d : Rat} (h : Fired.delta k d ∈ F) : d ∈ Spec.deltas F k := by
  unfold Spec.deltas
  exact List.mem_filterMap.2 ⟨_, h, by simp [Spec.selD]⟩

/-- two clashing unconditional effects of a list all of whose effects fire make the fired effects
    inconsistent, unless they are two assignments of the same value -/
theorem not_cons_of_clash {V : View} {g : GState} {L : List Effect} {F : List Fired} {e1 e2 : Effect}
    (hfire : ∀ e ∈ L, e.isConditional = false ∧ ∃ f, evalEff V g e = some (some f))
    (hF : fired V g L = some F) (h1 : e1 ∈ L) (h2 : e2 ∈ L) (hc : Clash e1 e2)
    (hval : e1.kind = .assign → e2.kind = .assign → value V g e1.value ≠ value V g e2.value) :
    ¬ Spec.Cons g F := by
  obtain ⟨hu1, f1, hf1⟩ := hfire e1 h1
  obtain ⟨hu2, f2, hf2⟩ := hfire e2 h2
  have hFeq : F = L.filterMap (evSel V g) := by
    rw [fired_eq] at hF
    split at hF
    · exact (Option.some.inj hF).symm
    · cases hF
  have hm1 : f1 ∈ F := by
    rw [hFeq]; exact List.mem_filterMap.2 ⟨e1, h1, by unfold evSel; rw [hf1]; rfl⟩
  have hm2 : f2 ∈ F := by
    rw [hFeq]; exact List.mem_filterMap.2 ⟨e2, h2, by unfold evSel; rw [hf2]; rfl⟩
  obtain ⟨k1, ht1, hg1⟩ := fires_unfold hu1 hf1
  obtain ⟨k2, ht2, hg2⟩ := fires_unfold hu2 hf2
  obtain ⟨hb, hfl, hkinds⟩ := hc
  have hb2 : fluentIsBool e2.fluent = false := hfl ▸ hb
  have hk : k1 = k2 := target_congr hfl ht1 ht2
  subst hk
  intro hcons
  have hK := (Sim.cons_iff g F).1 hcons k1
  rcases hkinds with ⟨ha1, ha2, _⟩ | ⟨ha1, hn2⟩ | ⟨hn1, ha2⟩
  · obtain ⟨v1, hv1, rfl⟩ := firing_assign hb ha1 hg1
    obtain ⟨v2, hv2, rfl⟩ := firing_assign hb2 ha2 hg2
    have := hK.1 v1 (mem_asgV hm1) v2 (mem_asgV hm2)
    exact hval ha1 ha2 (by rw [hv1, hv2, this])
  · obtain ⟨v1, _, rfl⟩ := firing_assign hb ha1 hg1
    obtain ⟨d, rfl⟩ := firing_incdec hn2 hg2
    have hne : Spec.asgV F k1 ≠ [] := List.ne_nil_of_mem (mem_asgV hm1)
    have := hK.2.1 (Or.inr hne)
    exact List.ne_nil_of_mem (mem_deltas hm2) this
  · obtain ⟨d, rfl⟩ := firing_incdec hn1 hg1
    obtain ⟨v2, _, rfl⟩ := firing_assign hb2 ha2 hg2
    have hne : Spec.asgV F k1 ≠ [] := List.ne_nil_of_mem (mem_asgV hm2)
    have := hK.2.1 (Or.inr hne)
    exact List.ne_nil_of_mem (mem_deltas hm1) this

/-! ### the variant a state selects -/

/-- the cause of finding D-C37-coinciding-values, in the state `g`: two FIRING assignments of the action
    to one non-Boolean fluent whose value expressions are incompatible for `check_conflicting_effects`
    (neither equal nor equal constants) but have the same value in `g` -/
def coincide (V : View) (g : GState) (a : Action) : Bool :=
  a.effs.any (fun e1 => a.effs.any (fun e2 =>
    decide (e1.kind = .assign) && decide (e2.kind = .assign) && !fluentIsBool e1.fluent &&
    decide (e1.fluent = e2.fluent) && !compatVal e1.value e2.value &&
    holds V g e1.cond && holds V g e2.cond && decide (value V g e1.value = value V g e2.value)))

theorem coincide_false {V : View} {g : GState} {a : Action} (h : coincide V g a = false)
    {e1 e2 : Effect} (h1 : e1 ∈ a.effs) (h2 : e2 ∈ a.effs) (hk1 : e1.kind = .assign) (hk2 : e2.kind = .assign)
    (hb : fluentIsBool e1.fluent = false) (hf : e1.fluent = e2.fluent) (hc : compatVal e1.value e2.value = false)
    (hh1 : holds V g e1.cond = true) (hh2 : holds V g e2.cond = true) :
    value V g e1.value ≠ value V g e2.value := by
  intro heq
  have : coincide V g a = true := by
    unfold coincide
    rw [List.any_eq_true]
    refine ⟨e1, h1, ?_⟩
    rw [List.any_eq_true]
    refine ⟨e2, h2, ?_⟩
    simp [hk1, hk2, hf, hh1, hh2, heq]
    exact ⟨hf ▸ hb, hc⟩
  rw [h] at this; cases this

/-- the library accepted the action: `_add_effect_instance` checked its unconditional effects in this order -/
def Accepted (a : Action) : Prop := (staticAdd (uncondEffects a) ⟨[], []⟩).isSome = true

instance (a : Action) : Decidable (Accepted a) := by unfold Accepted; infer_instance

/-- where an effect of the selected variant comes from: an effect of the action that fires in `g` -/
theorem mem_variant_origin {V : View} {g : GState} {a : Action} {e : Effect}
    (h : e ∈ uncondEffects a ++ selected (selIdx V g (enumFrom 0 (condEffects a))) (enumFrom 0 (condEffects a))) :
    ∃ e0 ∈ a.effs, holds V g e0.cond = true ∧ e = uncond e0 := by
  rcases List.mem_append.1 h with h | h
  · have hc : e.isConditional = false := by
      have := (List.mem_filter.1 h).2
      simpa using this
    have hcond := not_isConditional hc
    refine ⟨e, mem_uncondEffects h, by rw [hcond]; exact holds_tt V g, ?_⟩
    unfold uncond
    rw [← hcond]
  · unfold selected at h
    obtain ⟨ie, hie, rfl⟩ := List.mem_map.1 h
    obtain ⟨hie1, hie2⟩ := List.mem_filter.1 hie
    have hnd : ((enumFrom 0 (condEffects a)).map (·.1)).Nodup := by
      rw [enumFrom_map_fst]; exact List.nodup_range'
    have hin : ie.1 ∈ selIdx V g (enumFrom 0 (condEffects a)) := by simpa using hie2
    unfold selIdx at hin
    obtain ⟨ie', hf', he'⟩ := List.mem_map.1 hin
    obtain ⟨hie', hh'⟩ := List.mem_filter.1 hf'
    have : ie' = ie := eq_of_nodup_map _ _ hnd ie' hie' ie hie1 he'
    subst this
    refine ⟨ie'.2, mem_condEffects ?_, hh', rfl⟩
    rw [← enumFrom_map_snd 0 (condEffects a)]
    exact List.mem_map.2 ⟨ie', hie1, rfl⟩

/-- THE DROPPED VARIANT: when the unconditional copies of the effects the state selects do not pass the
    static conflict check — the variant is dropped — the original action is not applicable in that
    state, unless two of its firing assignments coincide there -/
theorem conflict_inapplicable {V : View} {g : GState} {a : Action} (hD : ∀ e ∈ a.effs, EffDefined V g e)
    (hco : coincide V g a = false)
    (hconf : staticAdd (uncondEffects a ++ selected (selIdx V g (enumFrom 0 (condEffects a))) (enumFrom 0 (condEffects a))) ⟨[], []⟩ = none) :
    successor V g a.pre a.effs = none := by
  rw [← cond_successor hD]
  obtain ⟨e1, he1, e2, he2, hc⟩ := staticAdd_none _ _ [] accFrom_nil hconf
  rw [List.nil_append] at he1
  obtain ⟨o1, ho1, hh1, rfl⟩ := mem_variant_origin he1
  obtain ⟨o2, ho2, hh2, rfl⟩ := mem_variant_origin he2
  have hfire : ∀ e ∈ uncondEffects a ++ selected (selIdx V g (enumFrom 0 (condEffects a))) (enumFrom 0 (condEffects a)),
      e.isConditional = false ∧ ∃ f, evalEff V g e = some (some f) := by
    intro e he
    obtain ⟨o, ho, _, rfl⟩ := mem_variant_origin he
    exact ⟨isConditional_uncond o, (hD o ho).1⟩
  unfold successor
  split
  · cases hF : fired V g (uncondEffects a ++ selected (selIdx V g (enumFrom 0 (condEffects a))) (enumFrom 0 (condEffects a))) with
    | none => rfl
    | some F =>
      have hn : ¬ Spec.Cons g F := by
        apply not_cons_of_clash hfire hF he1 he2 hc
        intro hk1 hk2
        have hcv : compatVal o1.value o2.value = false := by
          rcases hc.2.2 with ⟨_, _, h⟩ | ⟨_, h⟩ | ⟨h, _⟩
          · exact h
          · exact absurd hk2 h
          · exact absurd hk1 h
        exact coincide_false (e1 := o1) (e2 := o2) hco ho1 ho2 hk1 hk2 hc.1 hc.2.1 hcv hh1 hh2
      simp [hn]
  · rfl

/-- ONE ITERATION IN CLOSED FORM (the action's own unconditional effects having been accepted): the variant of
    `p` is dropped when the selected effects do not pass the static conflict check, when it has no effect at
    all, or when its preconditions simplify to FALSE; otherwise it carries the marks (simplified) and the
    unconditional effects followed by the selected ones -/
theorem condVariant_eq (simp : Expr → Expr) (a : Action) (p : List Nat) {acc0 : StaticAcc}
    (h0 : staticAdd (uncondEffects a) ⟨[], []⟩ = some acc0) :
    condVariant simp a p =
      if (staticAdd (selected p (enumFrom 0 (condEffects a))) acc0).isSome then
        (if (uncondEffects a ++ selected p (enumFrom 0 (condEffects a))).isEmpty then some none
         else match MA.simplifyPre simp ((marks p (enumFrom 0 (condEffects a))).foldl addPre a.pre) with
          | none => some none
          | some pre' => some (some { pre := pre', effs := uncondEffects a ++ selected p (enumFrom 0 (condEffects a)) }))
      else some none := by
  unfold condVariant
  rw [h0]
  simp only
  rw [variantLoop_eq]
  by_cases hc : (staticAdd (selected p (enumFrom 0 (condEffects a))) acc0).isSome = true
  · simp only [hc, if_true]
    by_cases hE : (uncondEffects a ++ selected p (enumFrom 0 (condEffects a))).isEmpty = true
    · simp only [hE, if_true]
    · simp only [hE, Bool.false_eq_true, if_false]
      cases MA.simplifyPre simp ((marks p (enumFrom 0 (condEffects a))).foldl addPre a.pre) <;> rfl
  · simp only [hc, Bool.false_eq_true, if_false]

/-- the static check of the whole variant, split at the action's own unconditional effects -/
theorem noStaticConflict_iff (a : Action) (p : List Nat) {acc0 : StaticAcc}
    (h0 : staticAdd (uncondEffects a) ⟨[], []⟩ = some acc0) :
    NoStaticConflict a p ↔ (staticAdd (selected p (enumFrom 0 (condEffects a))) acc0).isSome = true := by
  unfold NoStaticConflict
  rw [staticAdd_append, h0]
  rfl

theorem condVariant_none_iff (simp : Expr → Expr) (a : Action) (p : List Nat) :
    condVariant simp a p = none ↔ ¬ Accepted a := by
  unfold Accepted
  cases h0 : staticAdd (uncondEffects a) ⟨[], []⟩ with
  | none => simp [condVariant, h0]
  | some acc0 =>
    rw [condVariant_eq simp a p h0]
    simp only [Option.isSome_some, not_true_eq_false, iff_false]
    split
    · split
      · simp
      · split <;> simp
    · simp

/-- a yielded variant carries the unconditional effects followed by the unconditional copies of ALL selected effects -/
theorem condVariant_effs {simp : Expr → Expr} {a : Action} {p : List Nat} {b : Body}
    (hb : condVariant simp a p = some (some b)) :
    b.effs = uncondEffects a ++ selected p (enumFrom 0 (condEffects a)) := by
  cases h0 : staticAdd (uncondEffects a) ⟨[], []⟩ with
  | none => simp [condVariant, h0] at hb
  | some acc0 =>
    rw [condVariant_eq simp a p h0] at hb
    split at hb
    · split at hb
      · cases hb
      · split at hb
        · cases hb
        · simp only [Option.some.injEq] at hb
          subst hb
          rfl
    · cases hb

/-- the variants of a forall-free action are forall-free -/
theorem variant_ground {simp : Expr → Expr} {a : Action} {p : List Nat} {b : Body}
    (hg : ∀ e ∈ a.effs, e.forall_ = []) (hb : condVariant simp a p = some (some b)) : ∀ e ∈ b.effs, e.forall_ = [] := by
  intro e he
  rw [condVariant_effs hb] at he
  rcases List.mem_append.1 he with h | h
  · exact hg e (mem_uncondEffects h)
  · unfold selected at h
    obtain ⟨ie, hie, rfl⟩ := List.mem_map.1 h
    have : ie.2 ∈ condEffects a := by
      rw [← enumFrom_map_snd 0 (condEffects a)]
      exact List.mem_map.2 ⟨ie, (List.mem_filter.1 hie).1, rfl⟩
    exact hg ie.2 (mem_condEffects this)

end UPVerif.MA
