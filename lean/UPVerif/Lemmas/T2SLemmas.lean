import UPVerif.Core.T2S
import Mathlib.Tactic.Linarith
import Mathlib.Algebra.Order.Field.Rat
/-! Helper lemmas for `Props/C28.lean`. -/
namespace UPVerif.T2S

/-! ### duration intervals -/

theorem nonempty_iff (I : Ival) :
    I.nonempty = true ↔ (I.lo < I.hi ∨ (I.lo = I.hi ∧ I.lopen = false ∧ I.ropen = false)) := by
  simp [Ival.nonempty, and_assoc]

theorem positive_iff (I : Ival) :
    I.positive = true ↔ (0 < I.lo ∨ (I.lo = 0 ∧ I.lopen = true)) := by
  simp [Ival.positive]

/-- membership as a proposition -/
def Ival.Mem (I : Ival) (d : Rat) : Prop :=
  (if I.lopen then I.lo < d else I.lo ≤ d) ∧ (if I.ropen then d < I.hi else d ≤ I.hi)

theorem memb_iff (I : Ival) (d : Rat) : I.memb d = true ↔ I.Mem d := by
  unfold Ival.memb Ival.Mem
  cases I.lopen <;> cases I.ropen <;> simp

theorem chooseDuration_Mem (I : Ival) (h : I.nonempty = true) : I.Mem (chooseDuration I) := by
  rw [nonempty_iff] at h
  obtain ⟨lo, hi, lop, rop⟩ := I
  unfold Ival.Mem chooseDuration
  cases lop <;> cases rop <;> simp at h ⊢
  · rcases h with h | h <;> linarith
  · exact h
  · constructor <;> linarith
  · constructor <;> linarith

theorem chooseDuration_pos (I : Ival) (h : I.nonempty = true) (hp : I.positive = true) :
    0 < chooseDuration I := by
  rw [nonempty_iff] at h
  rw [positive_iff] at hp
  obtain ⟨lo, hi, lop, rop⟩ := I
  unfold chooseDuration
  cases lop <;> simp at h hp ⊢
  · exact hp
  · rcases hp with hp | hp <;> linarith

/-! ### happenings already in strictly increasing time order are left alone by the sort -/

variable {σ : Type}

theorem incr_tail {a : Ev σ} {l : List (Ev σ)} (h : incr (a :: l) = true) : incr l = true := by
  cases l with
  | nil => rfl
  | cons b r => simp [incr] at h; exact h.2

theorem sortEvs_of_incr : ∀ (l : List (Ev σ)), incr l = true → sortEvs l = l
  | [], _ => rfl
  | [a], _ => rfl
  | a :: b :: r, h => by
    have ih := sortEvs_of_incr (b :: r) (incr_tail h)
    simp only [incr, Bool.and_eq_true, decide_eq_true_eq] at h
    show insertEv a (sortEvs (b :: r)) = a :: b :: r
    rw [ih]
    simp [insertEv, le_of_lt h.1]

theorem incr_cons_of_lb {a : Ev σ} {l : List (Ev σ)} (t : Rat) (ha : a.time < t)
    (hl : ∀ e ∈ l, t ≤ e.time) (hi : incr l = true) : incr (a :: l) = true := by
  cases l with
  | nil => rfl
  | cons b r =>
    have hb := hl b (by simp)
    simp only [incr, Bool.and_eq_true, decide_eq_true_eq]
    exact ⟨lt_of_lt_of_le ha hb, hi⟩

/-! ### reading the trace -/

theorem lastState_append : ∀ (s0 : σ) (a b : List (Rat × σ)),
    lastState s0 (a ++ b) = lastState (lastState s0 a) b
  | _, [], _ => rfl
  | _, (_, s) :: r, b => by simp [lastState, lastState_append s r b]

theorem stateBefore_append_lt : ∀ (s0 : σ) (pre tr : List (Rat × σ)) (t : Rat),
    (∀ p ∈ pre, p.1 < t) → stateBefore s0 (pre ++ tr) t = stateBefore (lastState s0 pre) tr t
  | _, [], _, _, _ => rfl
  | s0, (τ, s) :: r, tr, t, h => by
    have h1 : τ < t := h (τ, s) (by simp)
    have h2 : ∀ p ∈ r, p.1 < t := fun p hp => h p (by simp [hp])
    simp [stateBefore, lastState, h1, stateBefore_append_lt s r tr t h2]

theorem stateBefore_ge (s0 : σ) (tr : List (Rat × σ)) (t : Rat)
    (h : ∀ p ∈ tr, t ≤ p.1) : stateBefore s0 tr t = s0 := by
  cases tr with
  | nil => rfl
  | cons p r =>
    obtain ⟨τ, s⟩ := p
    have : ¬ τ < t := not_lt.mpr (h (τ, s) (by simp))
    simp [stateBefore, this]

/-! ### the loop of the back conversion -/

theorem runC_cons {a : DAct σ} {r : List (DAct σ)} {s sf : σ} (h : runC s (a :: r) = some sf) :
    ∃ s', a.collapse s = some s' ∧ runC s' r = some sf := by
  simp only [runC] at h
  split at h
  · cases h
  · rename_i s' hs; exact ⟨s', hs, h⟩

/-- what `collapse` demands of a durative action -/
theorem collapse_dur {a : DAct σ} {s s' : σ} (hd : a.durative = true) (h : a.collapse s = some s') :
    a.cStart s = true ∧ a.cOverC s = true ∧
    ∃ m, a.eStart s = some m ∧ a.cOverC m = true ∧ a.cOverO m = true ∧ a.cEnd m = true ∧ a.eEnd m = some s' := by
  simp only [DAct.collapse, hd, if_true] at h
  split at h
  · rename_i h1
    simp only [Bool.and_eq_true] at h1
    split at h
    · cases h
    · rename_i m hm
      split at h
      · rename_i h2
        simp only [Bool.and_eq_true] at h2
        exact ⟨h1.1, h1.2, m, hm, h2.1.1, h2.1.2, h2.2, h⟩
      · cases h
  · cases h

theorem collapse_inst {a : DAct σ} {s s' : σ} (hd : a.durative = false) (h : a.collapse s = some s') :
    a.cStart s = true ∧ a.eStart s = some s' := by
  simp only [DAct.collapse, hd, Bool.false_eq_true, if_false] at h
  split at h
  · rename_i h1; exact ⟨h1, h⟩
  · cases h

/-- The invariant of the back conversion.  From state `s` at time `now`, for a compiled plan that
    runs to `sf` with well-formed intervals: the loop succeeds; the happenings of its result are
    at times `≥ now`, strictly increasing, and executing them from `s` yields a trace ending in
    `sf`; and against ANY earlier trace `pre` (all before `now`, ending in `s`) every emitted entry
    satisfies its duration constraint and all its conditions. -/
theorem back_main (eps : Rat) (heps : 0 < eps) :
    ∀ (acts : List (DAct σ)) (s : σ) (now : Rat) (sf : σ),
      runC s acts = some sf → intervalsOK s acts = true →
      ∃ plan tr, backLoop eps s now acts = some plan ∧
        exec s (events plan) = some tr ∧
        (∀ p ∈ tr, now ≤ p.1) ∧
        (∀ e ∈ events plan, now ≤ e.time) ∧
        incr (events plan) = true ∧
        lastState s tr = sf ∧
        ∀ (s0 : σ) (pre : List (Rat × σ)), (∀ p ∈ pre, p.1 < now) → lastState s0 pre = s →
          plan.all (entryOK s0 (pre ++ tr)) = true
  | [], s, now, sf, hr, _ => by
    simp only [runC, Option.some.injEq] at hr
    exact ⟨[], [], rfl, rfl, by simp, by simp [events], rfl, by simp [lastState, hr], by simp⟩
  | a :: rest, s, now, sf, hr, hi => by
    obtain ⟨s', hc, hr'⟩ := runC_cons hr
    cases hd : a.durative with
    | true =>
      -- the interval
      simp only [intervalsOK, hd, if_true, hc, Bool.and_eq_true] at hi
      obtain ⟨hI, hi'⟩ := hi
      cases hiv : a.ival s with
      | none => simp [hiv] at hI
      | some I =>
        simp only [hiv, Bool.and_eq_true] at hI
        have hmem := (memb_iff I _).mpr (chooseDuration_Mem I hI.1)
        have hpos := chooseDuration_pos I hI.1 hI.2
        obtain ⟨hcs, hco, m, hes, hmc, hmo, hme, hee⟩ := collapse_dur hd hc
        generalize hdd : chooseDuration I = d at hmem hpos
        obtain ⟨plan', tr', hb, hx, htr, hev, hinc, hls, hent⟩ :=
          back_main eps heps rest s' (now + d + eps) sf hr' hi'
        refine ⟨⟨now, a, some d⟩ :: plan', (now, m) :: (now + d, s') :: tr', ?_, ?_, ?_, ?_, ?_, ?_, ?_⟩
        · simp [backLoop, hd, hiv, hc, hdd, hb]
        · simp [events, hd, Entry.len, exec, hes, hee, hx]
        · intro p hp
          simp only [List.mem_cons] at hp
          rcases hp with rfl | rfl | hp
          · exact le_refl _
          · simp only; linarith
          · have := htr p hp; linarith
        · intro e he
          simp only [events, hd, if_true, Entry.len, Option.getD_some, List.mem_cons] at he
          rcases he with rfl | rfl | he
          · exact le_refl _
          · simp only; linarith
          · have := hev e he; linarith
        · simp only [events, hd, if_true, Entry.len, Option.getD_some]
          apply incr_cons_of_lb (now + d) (by simp only; linarith)
          · intro e he
            simp only [List.mem_cons] at he
            rcases he with rfl | he
            · exact le_refl _
            · have := hev e he; linarith
          · exact incr_cons_of_lb (now + d + eps) (by simp only; linarith) hev hinc
        · simpa [lastState] using hls
        · intro s0 pre hpre hlast
          have hpre' : ∀ p ∈ pre ++ [(now, m), (now + d, s')], p.1 < now + d + eps := by
            intro p hp
            simp only [List.mem_append, List.mem_cons, List.not_mem_nil, or_false] at hp
            rcases hp with hp | rfl | rfl
            · have := hpre p hp; linarith
            · simp only; linarith
            · simp only; linarith
          have hlast' : lastState s0 (pre ++ [(now, m), (now + d, s')]) = s' := by
            rw [lastState_append]; rfl
          have hrest := hent s0 (pre ++ [(now, m), (now + d, s')]) hpre' hlast'
          have happ : (pre ++ [(now, m), (now + d, s')]) ++ tr' = pre ++ (now, m) :: (now + d, s') :: tr' := by
            simp
          rw [happ] at hrest
          simp only [List.all_cons, Bool.and_eq_true]
          refine ⟨?_, hrest⟩
          -- the entry of `a` itself
          have hge : ∀ p ∈ (now, m) :: (now + d, s') :: tr', now ≤ p.1 := by
            intro p hp
            simp only [List.mem_cons] at hp
            rcases hp with rfl | rfl | hp
            · exact le_refl _
            · simp only; linarith
            · have := htr p hp; linarith
          have hsb : stateBefore s0 (pre ++ (now, m) :: (now + d, s') :: tr') now = s := by
            rw [stateBefore_append_lt _ _ _ _ hpre, hlast, stateBefore_ge _ _ _ hge]
          have hpre2 : ∀ p ∈ pre, p.1 < now + d := fun p hp => by have := hpre p hp; linarith
          have hse : stateBefore s0 (pre ++ (now, m) :: (now + d, s') :: tr') (now + d) = m := by
            rw [stateBefore_append_lt _ _ _ _ hpre2, hlast]
            have h1 : now < now + d := by linarith
            simp [stateBefore, h1]
          simp only [entryOK, hd, if_true, hsb, hse, hiv, hmem, hcs, hco, hme, Bool.true_and,
            Bool.and_true, List.all_append, List.all_cons, Bool.and_eq_true]
          refine ⟨?_, ?_, ?_, ?_⟩
          · rw [List.all_eq_true]
            intro p hp
            have : ¬ now ≤ p.1 := not_le.mpr (hpre p hp)
            simp [this]
          · simp [hmc, hmo]
          · simp
          · rw [List.all_eq_true]
            intro p hp
            have h1 := htr p hp
            have : ¬ p.1 < now + d := not_lt.mpr (by linarith)
            simp [this]
    | false =>
      simp only [intervalsOK, hd, Bool.false_eq_true, if_false, hc, Bool.and_eq_true] at hi
      obtain ⟨_, hi'⟩ := hi
      obtain ⟨hcs, hes⟩ := collapse_inst hd hc
      obtain ⟨plan', tr', hb, hx, htr, hev, hinc, hls, hent⟩ :=
        back_main eps heps rest s' (now + eps) sf hr' hi'
      refine ⟨⟨now, a, none⟩ :: plan', (now, s') :: tr', ?_, ?_, ?_, ?_, ?_, ?_, ?_⟩
      · simp [backLoop, hd, hc, hb]
      · simp [events, hd, exec, hes, hx]
      · intro p hp
        simp only [List.mem_cons] at hp
        rcases hp with rfl | hp
        · exact le_refl _
        · have := htr p hp; linarith
      · intro e he
        simp only [events, hd, Bool.false_eq_true, if_false, List.mem_cons] at he
        rcases he with rfl | he
        · exact le_refl _
        · have := hev e he; linarith
      · simp only [events, hd, Bool.false_eq_true, if_false]
        exact incr_cons_of_lb (now + eps) (by simp only; linarith) hev hinc
      · simpa [lastState] using hls
      · intro s0 pre hpre hlast
        have hpre' : ∀ p ∈ pre ++ [(now, s')], p.1 < now + eps := by
          intro p hp
          simp only [List.mem_append, List.mem_cons, List.not_mem_nil, or_false] at hp
          rcases hp with hp | rfl
          · have := hpre p hp; linarith
          · simp only; linarith
        have hlast' : lastState s0 (pre ++ [(now, s')]) = s' := by
          rw [lastState_append]; rfl
        have hrest := hent s0 (pre ++ [(now, s')]) hpre' hlast'
        have happ : (pre ++ [(now, s')]) ++ tr' = pre ++ (now, s') :: tr' := by simp
        rw [happ] at hrest
        simp only [List.all_cons, Bool.and_eq_true]
        refine ⟨?_, hrest⟩
        have hge : ∀ p ∈ (now, s') :: tr', now ≤ p.1 := by
          intro p hp
          simp only [List.mem_cons] at hp
          rcases hp with rfl | hp
          · exact le_refl _
          · have := htr p hp; linarith
        have hsb : stateBefore s0 (pre ++ (now, s') :: tr') now = s := by
          rw [stateBefore_append_lt _ _ _ _ hpre, hlast, stateBefore_ge _ _ _ hge]
        simp [entryOK, hd, hsb, hcs]

/-! ### shape of the loop's result -/

theorem backLoop_cons {eps : Rat} {a : DAct σ} {rest : List (DAct σ)} {s : σ} {now : Rat}
    {plan : List (Entry σ)} (h : backLoop eps s now (a :: rest) = some plan) :
    ∃ s' plan', a.collapse s = some s' ∧
      ((a.durative = true ∧ ∃ I, a.ival s = some I ∧
          backLoop eps s' (now + chooseDuration I + eps) rest = some plan' ∧
          plan = ⟨now, a, some (chooseDuration I)⟩ :: plan') ∨
       (a.durative = false ∧ backLoop eps s' (now + eps) rest = some plan' ∧
          plan = ⟨now, a, none⟩ :: plan')) := by
  cases hd : a.durative with
  | true =>
    simp only [backLoop, hd, if_true] at h
    cases hiv : a.ival s with
    | none => simp [hiv] at h
    | some I =>
      cases hc : a.collapse s with
      | none => simp [hiv, hc] at h
      | some s' =>
        simp only [hiv, hc, Option.map_eq_some_iff] at h
        obtain ⟨plan', hb, rfl⟩ := h
        exact ⟨s', plan', rfl, Or.inl ⟨rfl, I, rfl, hb, rfl⟩⟩
  | false =>
    simp only [backLoop, hd, Bool.false_eq_true, if_false] at h
    cases hc : a.collapse s with
    | none => simp [hc] at h
    | some s' =>
      simp only [hc, Option.map_eq_some_iff] at h
      obtain ⟨plan', hb, rfl⟩ := h
      exact ⟨s', plan', rfl, Or.inr ⟨rfl, hb, rfl⟩⟩

theorem backLoop_acts (eps : Rat) : ∀ (acts : List (DAct σ)) (s : σ) (now : Rat) (plan : List (Entry σ)),
    backLoop eps s now acts = some plan → plan.map (·.act) = acts
  | [], _, _, plan, h => by simp [backLoop] at h; subst h; rfl
  | a :: rest, s, now, plan, h => by
    obtain ⟨s', plan', _, h' | h'⟩ := backLoop_cons h
    · obtain ⟨_, I, _, hb, rfl⟩ := h'
      simp [backLoop_acts eps rest _ _ _ hb]
    · obtain ⟨_, hb, rfl⟩ := h'
      simp [backLoop_acts eps rest _ _ _ hb]

theorem backLoop_spaced (eps : Rat) : ∀ (acts : List (DAct σ)) (s : σ) (now : Rat) (plan : List (Entry σ)),
    backLoop eps s now acts = some plan → Spaced eps now plan
  | [], _, _, plan, h => by simp [backLoop] at h; subst h; trivial
  | a :: rest, s, now, plan, h => by
    obtain ⟨s', plan', _, h' | h'⟩ := backLoop_cons h
    · obtain ⟨_, I, _, hb, rfl⟩ := h'
      exact ⟨rfl, by simpa [Entry.len] using backLoop_spaced eps rest _ _ _ hb⟩
    · obtain ⟨_, hb, rfl⟩ := h'
      exact ⟨rfl, by simpa [Entry.len] using backLoop_spaced eps rest _ _ _ hb⟩

theorem backLoop_durInside (eps : Rat) : ∀ (acts : List (DAct σ)) (s : σ) (now : Rat) (plan : List (Entry σ)),
    backLoop eps s now acts = some plan → DurInside s plan
  | [], _, _, plan, h => by simp [backLoop] at h; subst h; trivial
  | a :: rest, s, now, plan, h => by
    obtain ⟨s', plan', hc, h' | h'⟩ := backLoop_cons h
    · obtain ⟨hd, I, hiv, hb, rfl⟩ := h'
      refine ⟨fun _ => ⟨I, _, hiv, rfl, rfl, fun hne => (memb_iff I _).mpr (chooseDuration_Mem I hne)⟩,
              fun hf => by simp [hd] at hf, ?_⟩
      intro s'' hc'
      simp only [hc, Option.some.injEq] at hc'
      subst hc'
      exact backLoop_durInside eps rest _ _ _ hb
    · obtain ⟨hd, hb, rfl⟩ := h'
      refine ⟨fun ht => by simp [hd] at ht, fun _ => rfl, ?_⟩
      intro s'' hc'
      simp only [hc, Option.some.injEq] at hc'
      subst hc'
      exact backLoop_durInside eps rest _ _ _ hb

/-- with well-formed intervals no entry has a negative length -/
theorem backLoop_len_nonneg (eps : Rat) : ∀ (acts : List (DAct σ)) (s : σ) (now : Rat) (plan : List (Entry σ)),
    backLoop eps s now acts = some plan → intervalsOK s acts = true → ∀ e ∈ plan, 0 ≤ e.len
  | [], _, _, plan, h, _ => by simp [backLoop] at h; subst h; simp
  | a :: rest, s, now, plan, h, hi => by
    obtain ⟨s', plan', hc, h' | h'⟩ := backLoop_cons h
    · obtain ⟨hd, I, hiv, hb, rfl⟩ := h'
      simp only [intervalsOK, hd, if_true, hiv, hc, Bool.and_eq_true] at hi
      intro e he
      simp only [List.mem_cons] at he
      rcases he with rfl | he
      · simp only [Entry.len, Option.getD_some]
        exact le_of_lt (chooseDuration_pos I hi.1.1 hi.1.2)
      · exact backLoop_len_nonneg eps rest _ _ _ hb hi.2 e he
    · obtain ⟨hd, hb, rfl⟩ := h'
      simp only [intervalsOK, hd, Bool.false_eq_true, if_false, hc, Bool.and_eq_true] at hi
      intro e he
      simp only [List.mem_cons] at he
      rcases he with rfl | he
      · simp [Entry.len]
      · exact backLoop_len_nonneg eps rest _ _ _ hb hi.2 e he

theorem spaced_lb (eps : Rat) (heps : 0 ≤ eps) : ∀ (plan : List (Entry σ)) (now : Rat),
    Spaced eps now plan → (∀ e ∈ plan, 0 ≤ e.len) → ∀ e ∈ plan, now ≤ e.t
  | [], _, _, _ => by simp
  | x :: r, now, hs, hl => by
    intro e he
    simp only [List.mem_cons] at he
    rcases he with rfl | he
    · exact le_of_eq hs.1.symm
    · have h0 := hl x (by simp)
      have := spaced_lb eps heps r _ hs.2 (fun e he => hl e (by simp [he])) e he
      linarith

/-- consecutive (indeed all ordered pairs of) actions do not overlap: a later action starts at least
    `eps` after the end of an earlier one -/
theorem spaced_pairwise (eps : Rat) (heps : 0 ≤ eps) : ∀ (plan : List (Entry σ)) (now : Rat),
    Spaced eps now plan → (∀ e ∈ plan, 0 ≤ e.len) →
    plan.Pairwise (fun e1 e2 => e1.t + e1.len + eps ≤ e2.t)
  | [], _, _, _ => List.Pairwise.nil
  | x :: r, now, hs, hl => by
    refine List.Pairwise.cons ?_ (spaced_pairwise eps heps r _ hs.2 (fun e he => hl e (by simp [he])))
    intro e he
    have := spaced_lb eps heps r _ hs.2 (fun e he => hl e (by simp [he])) e he
    rw [hs.1]; exact this

end UPVerif.T2S
