import UPVerif.Lemmas.PddlExprLemmas
/-! A concrete instance of the hypotheses of `C18_expr_roundtrip` (non-vacuity). -/
namespace UPVerif.Pddl.Example
open UPVerif UPVerif.Pddl

def tbl : List (NameKey × String) :=
  [(.fluent "On", "on"), (.fluent "Fuel", "fuel"), (.obj "A", "a"), (.ty "T", "t"),
   (.param "p" "T", "?p"), (.var "v" "T", "?v")]

/-- upper-case names are lower-cased by the writer; parameters and variables get their `?` -/
def ρ0 : Ren := fun k => tbl.lookup k

def onRef : FluentRef := { name := "On", ty := .bool, sig := [.user "T"] }
def fuelRef : FluentRef := { name := "Fuel", ty := .int none none, sig := [] }
def D0 : Decls := { fluents := [onRef, fuelRef], objects := [("A", "T")], params := [("p", .user "T")] }
def E0 : REnv :=
  { types := ["t"],
    fluents := [{ name := "on", ty := .bool, sig := [.user "t"] }, { name := "fuel", ty := .real none none, sig := [] }],
    objects := [("a", "t")], params := some [("p", .user "t")] }

theorem lookup_mem {k : NameKey} {s : String} : ∀ {l : List (NameKey × String)}, l.lookup k = some s → (k, s) ∈ l
  | [], h => by simp [List.lookup] at h
  | (k', s') :: l, h => by
    simp only [List.lookup] at h
    split at h
    · rename_i heq
      have : k = k' := by simpa using heq
      simp only [Option.some.injEq] at h
      subst this h
      exact List.mem_cons_self
    · exact List.mem_cons_of_mem _ (lookup_mem h)

theorem ρ0_cases {k : NameKey} {s : String} (h : ρ0 k = some s) :
    (k = .fluent "On" ∧ s = "on") ∨ (k = .fluent "Fuel" ∧ s = "fuel") ∨ (k = .obj "A" ∧ s = "a") ∨
    (k = .ty "T" ∧ s = "t") ∨ (k = .param "p" "T" ∧ s = "?p") ∨ (k = .var "v" "T" ∧ s = "?v") := by
  have := lookup_mem h
  simp only [tbl, List.mem_cons, Prod.mk.injEq, List.not_mem_nil, or_false] at this
  exact this

theorem envOK : EnvOK ρ0 D0 E0 where
  fluent := by
    intro f hf n f' hn hf'
    simp only [D0, List.mem_cons, List.not_mem_nil, or_false] at hf
    rcases hf with rfl | rfl
    · have : n = "on" := by
        rcases ρ0_cases hn with h | h | h | h | h | h <;> simp_all [onRef]
      subst this
      have : f' = { name := "on", ty := .bool, sig := [.user "t"] } := by
        have h2 : normRef ρ0 onRef = some { name := "on", ty := .bool, sig := [.user "t"] } := by decide +kernel
        rw [h2] at hf'
        exact (Option.some.inj hf').symm
      subst this
      decide +kernel
    · have : n = "fuel" := by
        rcases ρ0_cases hn with h | h | h | h | h | h <;> simp_all [fuelRef]
      subst this
      have : f' = { name := "fuel", ty := .real none none, sig := [] } := by
        have h2 : normRef ρ0 fuelRef = some { name := "fuel", ty := .real none none, sig := [] } := by decide +kernel
        rw [h2] at hf'
        exact (Option.some.inj hf').symm
      subst this
      decide +kernel
  object := by
    intro o ho n t' hn ht
    simp only [D0, List.mem_cons, List.not_mem_nil, or_false] at ho
    subst ho
    have h1 : n = "a" := by
      rcases ρ0_cases hn with h | h | h | h | h | h <;> simp_all
    have h2 : t' = "t" := by
      rcases ρ0_cases ht with h | h | h | h | h | h <;> simp_all
    subst h1 h2
    decide +kernel
  param := by
    intro p hp t s t' hty hs ht
    simp only [D0, List.mem_cons, List.not_mem_nil, or_false] at hp
    subst hp
    simp only [Ty.user.injEq] at hty
    subst hty
    have h1 : s = "?p" := by
      rcases ρ0_cases hs with h | h | h | h | h | h <;> simp_all
    have h2 : t' = "t" := by
      rcases ρ0_cases ht with h | h | h | h | h | h <;> simp_all
    subst h1 h2
    exact ⟨"p", [("p", .user "t")], by decide +kernel, rfl, by decide +kernel⟩
  paramVar := by
    intro p hp t s hty hs vn vt hv
    simp only [D0, List.mem_cons, List.not_mem_nil, or_false] at hp
    subst hp
    simp only [Ty.user.injEq] at hty
    subst hty
    have h1 : s = "?p" := by
      rcases ρ0_cases hs with h | h | h | h | h | h <;> simp_all
    subst h1
    rcases ρ0_cases hv with h | h | h | h | h | h <;> simp_all
  varInj := by
    intro a ta b tb s h1 h2
    rcases ρ0_cases h1 with h | h | h | h | h | h <;> rcases ρ0_cases h2 with g | g | g | g | g | g <;> simp_all
  ty := by
    intro t t' h
    rcases ρ0_cases h with h | h | h | h | h | h <;> simp_all [E0]
  numbers := by
    intro s q h
    have h1 : s ≠ "on" := by
      intro hs; subst hs
      have hn : parseNumber "on" = none := by decide +kernel
      rw [hn] at h
      cases h
    have h2 : s ≠ "fuel" := by
      intro hs; subst hs
      have hn : parseNumber "fuel" = none := by decide +kernel
      rw [hn] at h
      cases h
    have h3 : s ≠ "a" := by
      intro hs; subst hs
      have hn : parseNumber "a" = none := by decide +kernel
      rw [hn] at h
      cases h
    constructor
    · have e1 : ("on" == s) = false := by simpa using Ne.symm h1
      have e2 : ("fuel" == s) = false := by simpa using Ne.symm h2
      simp [REnv.fluent?, E0, List.find?, e1, e2]
    · have e3 : (s == "a") = false := by simpa using h3
      simp [REnv.object?, E0, e3]

/-- `forall v:T. (On(v) ⇔ On(p)) ∧ Fuel + 1 + 1/2 ≤ 12345678901/100 ∧ ¬On(A)` -/
def e0 : Expr :=
  .quant .all [{ name := "v", ty := .user "T" }]
    (.app .and [
      .app .iff [.app (.fluent onRef) [.leaf (.var { name := "v", ty := .user "T" })],
                 .app (.fluent onRef) [.leaf (.param "p" (.user "T"))]],
      .app .le [.app .plus [.app (.fluent fuelRef) [], Expr.int 1, Expr.real (1 / 2)], Expr.real (12345678901 / 100)],
      .app .not [.app (.fluent onRef) [.leaf (.obj "A" "T")]]])

theorem e0_wf : WF D0 [] e0 := by
  simp [e0, WF, WFs, D0, Expr.int, Expr.real]

theorem e0_printed : (printExpr ρ0 e0).isSome = true := by decide +kernel
theorem e0_normed : (normExpr ρ0 e0).isSome = true := by decide +kernel

end UPVerif.Pddl.Example
