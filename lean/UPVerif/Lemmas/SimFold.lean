import UPVerif.Core.Sim
import UPVerif.Spec.Successor
/-!
Helper lemmas for `Props/C01.lean`: the accumulator loop of `_evaluate_effects` (`Sim.step` folded
over the fired effects) computes exactly the order-free per-fluent summary of `Spec/Successor.lean`.
-/
namespace UPVerif.Sim
open UPVerif UPVerif.Spec

/-- the loop of `_evaluate_effects` once every effect has been evaluated -/
def foldFired (cur : GKey → Option Val) : List Fired → Acc → Except Fail Acc
  | [], acc => .ok acc
  | f :: fs, acc =>
    match step cur acc f with
    | .error x => .error x
    | .ok acc' => foldFired cur fs acc'

/-- Boolean assignments go to Boolean fluents, other assignments to non-Boolean ones
    (this is what `evalEff` produces) -/
def SortedF : Fired → Prop
  | .setB k _ => k.1.ty = .bool
  | .setV k _ => k.1.ty ≠ .bool
  | .delta _ _ => True

def Sorted (F : List Fired) : Prop := ∀ f ∈ F, SortedF f

/-! ### list bookkeeping -/

@[simp] theorem asgB_nil (k : GKey) : asgB [] k = [] := rfl
@[simp] theorem asgV_nil (k : GKey) : asgV [] k = [] := rfl
@[simp] theorem deltas_nil (k : GKey) : deltas [] k = [] := rfl
@[simp] theorem asgB_append (G H : List Fired) (k : GKey) : asgB (G ++ H) k = asgB G k ++ asgB H k := by
  simp [asgB]
@[simp] theorem asgV_append (G H : List Fired) (k : GKey) : asgV (G ++ H) k = asgV G k ++ asgV H k := by
  simp [asgV]
@[simp] theorem deltas_append (G H : List Fired) (k : GKey) : deltas (G ++ H) k = deltas G k ++ deltas H k := by
  simp [deltas]

theorem asgB_cons (f : Fired) (G : List Fired) (k : GKey) : asgB (f :: G) k = asgB [f] k ++ asgB G k := by
  rw [← asgB_append]; rfl
theorem asgV_cons (f : Fired) (G : List Fired) (k : GKey) : asgV (f :: G) k = asgV [f] k ++ asgV G k := by
  rw [← asgV_append]; rfl
theorem deltas_cons (f : Fired) (G : List Fired) (k : GKey) : deltas (f :: G) k = deltas [f] k ++ deltas G k := by
  rw [← deltas_append]; rfl

theorem single_ne (f : Fired) (k : GKey) (h : f.key ≠ k) :
    asgB [f] k = [] ∧ asgV [f] k = [] ∧ deltas [f] k = [] := by
  cases f <;> simp_all [asgB, asgV, deltas, selB, selV, selD, Fired.key]

theorem sumR_append (l m : List Rat) : sumR (l ++ m) = sumR l + sumR m := by
  induction l with
  | nil => simp [sumR, Rat.zero_add]
  | cons d ds ih => simp [sumR, ih, Rat.add_assoc]

/-- untouched fluents have nothing assigned -/
theorem untouched (F : List Fired) (k : GKey) (h : ∀ f ∈ F, f.key ≠ k) :
    asgB F k = [] ∧ asgV F k = [] ∧ deltas F k = [] := by
  induction F with
  | nil => simp
  | cons f F ih =>
    have h1 := single_ne f k (h f (by simp))
    have h2 := ih (fun g hg => h g (by simp [hg]))
    rw [asgB_cons, asgV_cons, deltas_cons, h1.1, h1.2.1, h1.2.2, h2.1, h2.2.1, h2.2.2]
    simp

theorem cons_iff (cur : GKey → Option Val) (F : List Fired) : Cons cur F ↔ ∀ k, ConsK cur F k := by
  constructor
  · intro h k
    by_cases hk : ∃ f ∈ F, f.key = k
    · obtain ⟨f, hf, rfl⟩ := hk
      exact h f hf
    · have := untouched F k (fun f hf e => hk ⟨f, hf, e⟩)
      simp [ConsK, this.1, this.2.1, this.2.2]
  · intro h f _
    exact h f.key

theorem consK_prefix {cur : GKey → Option Val} {G H : List Fired} {k : GKey}
    (h : ConsK cur (G ++ H) k) : ConsK cur G k := by
  obtain ⟨h1, h2, h3⟩ := h
  refine ⟨?_, ?_, ?_⟩
  · intro v hv w hw
    exact h1 v (by simp [hv]) w (by simp [hw])
  · intro ha
    have : deltas (G ++ H) k = [] := h2 (by
      rcases ha with ha | ha
      · left; simp [ha]
      · right; simp [ha])
    simp at this
    exact this.1
  · intro hd
    exact h3 (by simp [hd])


theorem frame {f : Fired} {k : GKey} (G : List Fired) (h : f.key ≠ k) :
    asgB (G ++ [f]) k = asgB G k ∧ asgV (G ++ [f]) k = asgV G k ∧ deltas (G ++ [f]) k = deltas G k := by
  have := single_ne f k h
  simp [this.1, this.2.1, this.2.2]

theorem sorted_bool {G : List Fired} {k : GKey} (hs : Sorted G) (hk : k.1.ty = .bool) : asgV G k = [] := by
  simp only [asgV, List.filterMap_eq_nil_iff]
  intro f hf
  have := hs f hf
  cases f <;> simp_all [selV, SortedF]
  rename_i k' v
  intro e; subst e; exact this hk

theorem sorted_nonbool {G : List Fired} {k : GKey} (hs : Sorted G) (hk : k.1.ty ≠ .bool) : asgB G k = [] := by
  simp only [asgB, List.filterMap_eq_nil_iff]
  intro f hf
  have := hs f hf
  cases f <;> simp_all [selB, SortedF]
  rename_i k' v
  intro e; subst e; exact hk this

/-- the accumulator `(updated_values, assigned_fluent)` after the fired effects `G` -/
structure Inv (cur : GKey → Option Val) (acc : Acc) (G : List Fired) : Prop where
  sorted : Sorted G
  cons : ∀ k, ConsK cur G k
  vals : ∀ k, acc.upd.lookup k = newVal cur G k
  asg : ∀ k, acc.assigned.contains k = true ↔ (asgB G k ≠ [] ∨ asgV G k ≠ [])

theorem inv_empty (cur : GKey → Option Val) : Inv cur Acc.empty [] := by
  refine ⟨?_, ?_, ?_, ?_⟩
  · intro f hf; cases hf
  · intro k; simp [ConsK]
  · intro k; simp [Acc.empty, newVal]
  · intro k; simp [Acc.empty]

theorem sorted_snoc {G : List Fired} {f : Fired} (h : Sorted G) (hf : SortedF f) : Sorted (G ++ [f]) := by
  intro g hg
  simp at hg
  rcases hg with hg | rfl
  · exact h g hg
  · exact hf

/-- extending the invariant by one fired effect: only the fluent it touches needs an argument -/
theorem inv_extend {cur : GKey → Option Val} {acc acc' : Acc} {G : List Fired} {f : Fired}
    (hI : Inv cur acc G) (hs : SortedF f)
    (hc : ConsK cur (G ++ [f]) f.key)
    (hv : acc'.upd.lookup f.key = newVal cur (G ++ [f]) f.key)
    (hvf : ∀ k, k ≠ f.key → acc'.upd.lookup k = acc.upd.lookup k)
    (ha : acc'.assigned.contains f.key = true ↔ (asgB (G ++ [f]) f.key ≠ [] ∨ asgV (G ++ [f]) f.key ≠ []))
    (haf : ∀ k, k ≠ f.key → acc'.assigned.contains k = acc.assigned.contains k) :
    Inv cur acc' (G ++ [f]) := by
  refine ⟨sorted_snoc hI.sorted hs, ?_, ?_, ?_⟩
  · intro k
    by_cases hk : k = f.key
    · subst hk; exact hc
    · have fr := frame G (Ne.symm hk)
      have := hI.cons k
      unfold ConsK at *
      rw [fr.1, fr.2.1, fr.2.2]; exact this
  · intro k
    by_cases hk : k = f.key
    · subst hk; exact hv
    · have fr := frame G (Ne.symm hk)
      rw [hvf k hk, hI.vals k]
      unfold newVal
      rw [fr.1, fr.2.1, fr.2.2]
  · intro k
    by_cases hk : k = f.key
    · subst hk; exact ha
    · have fr := frame G (Ne.symm hk)
      rw [haf k hk, hI.asg k, fr.1, fr.2.1]

theorem newVal_B {cur : GKey → Option Val} {G : List Fired} {k : GKey} (h : asgB G k ≠ []) :
    newVal cur G k = some (.b ((asgB G k).any id)) := by simp [newVal, h]
theorem newVal_V {cur : GKey → Option Val} {G : List Fired} {k : GKey} {v : Val} {vs : List Val}
    (hB : asgB G k = []) (hV : asgV G k = v :: vs) : newVal cur G k = some v := by simp [newVal, hB, hV]
theorem newVal_none {cur : GKey → Option Val} {G : List Fired} {k : GKey}
    (hB : asgB G k = []) (hV : asgV G k = []) (hD : deltas G k = []) : newVal cur G k = none := by
  simp [newVal, hB, hV, hD]
theorem newVal_D {cur : GKey → Option Val} {G : List Fired} {k : GKey} {q : Rat}
    (hB : asgB G k = []) (hV : asgV G k = []) (hD : deltas G k ≠ []) (hc : cur k = some (.n q)) :
    newVal cur G k = some (.n (q + sumR (deltas G k))) := by
  simp [newVal, hB, hV, hD, hc]

theorem lookup_cons_self (k : GKey) (v : Val) (l : List (GKey × Val)) : ((k, v) :: l).lookup k = some v := by
  simp [List.lookup]
theorem lookup_cons_ne' {k k' : GKey} (v : Val) (l : List (GKey × Val)) (h : k ≠ k') :
    ((k', v) :: l).lookup k = l.lookup k := by
  have : (k == k') = false := by simpa using h
  simp [List.lookup, this]

theorem step_setB_ok {cur : GKey → Option Val} {acc acc' : Acc} {G : List Fired} {k : GKey} {b : Bool}
    (hI : Inv cur acc G) (hs : k.1.ty = .bool) (h : step cur acc (.setB k b) = .ok acc') :
    Inv cur acc' (G ++ [.setB k b]) := by
  have hV : asgV G k = [] := sorted_bool hI.sorted hs
  have hB1 : asgB (G ++ [.setB k b]) k = asgB G k ++ [b] := by simp [asgB, selB]
  have hV1 : asgV (G ++ [.setB k b]) k = [] := by simp [asgV, selV] at hV ⊢; exact hV
  have hD1 : deltas (G ++ [.setB k b]) k = deltas G k := by simp [deltas, selD]
  have hBne : asgB (G ++ [.setB k b]) k ≠ [] := by rw [hB1]; simp
  have hvals := hI.vals k
  have hcons := hI.cons k
  have hasg := hI.asg k
  simp only [step] at h
  unfold stepB at h
  split at h
  · -- nothing recorded for k yet
    rename_i hl
    rw [hl] at hvals
    have hB : asgB G k = [] := by
      by_cases hB : asgB G k = []
      · exact hB
      · rw [newVal_B hB] at hvals; cases hvals
    have hD : deltas G k = [] := by
      by_cases hD : deltas G k = []
      · exact hD
      · obtain ⟨q, hq⟩ := hcons.2.2 hD
        rw [newVal_D hB hV hD hq] at hvals; cases hvals
    cases h
    refine inv_extend hI hs ?_ ?_ ?_ ?_ ?_
    · refine ⟨?_, ?_, ?_⟩
      · intro v hv; simp [Fired.key, hV1] at hv
      · intro _; simp [Fired.key, hD1, hD]
      · intro hd; simp [Fired.key, hD1, hD] at hd
    · simp only [Fired.key]
      rw [lookup_cons_self, newVal_B hBne, hB1, hB]; simp
    · intro k' hk'; exact lookup_cons_ne' _ _ hk'
    · simp [Fired.key, hB1]
    · intro k' hk'; simp [Fired.key] at hk'; simp [hk']
  · rename_i old hl
    rw [hl] at hvals
    by_cases hB : asgB G k = []
    · -- the recorded value comes from increases: never a Boolean
      exfalso
      have hD : deltas G k ≠ [] := by
        intro hD; rw [newVal_none hB hV hD] at hvals; cases hvals
      obtain ⟨q, hq⟩ := hcons.2.2 hD
      rw [newVal_D hB hV hD hq] at hvals
      cases hvals
      simp at h
    · have hD : deltas G k = [] := hcons.2.1 (Or.inl hB)
      rw [newVal_B hB] at hvals
      cases hvals
      have hmem : k ∈ acc.assigned := by simpa using hasg.2 (Or.inl hB)
      have hcK : ConsK cur (G ++ [.setB k b]) (Fired.key (.setB k b)) := by
        refine ⟨?_, ?_, ?_⟩
        · intro v hv; simp [Fired.key, hV1] at hv
        · intro _; simp [Fired.key, hD1, hD]
        · intro hd; simp [Fired.key, hD1, hD] at hd
      have hany : (asgB (G ++ [.setB k b]) k).any id = ((asgB G k).any id || b) := by
        rw [hB1]; simp
      split at h
      · rename_i hne
        split at h
        · -- old = false, new = true
          rename_i hold
          cases h
          have hx : (asgB G k).any id = false := by simpa using hold
          have hb : b = true := by
            cases b
            · exfalso; apply hne; rw [hx]
            · rfl
          refine inv_extend hI hs hcK ?_ ?_ ?_ ?_
          · simp only [Fired.key]
            rw [lookup_cons_self, newVal_B hBne, hany, hx, hb]; simp
          · intro k' hk'; exact lookup_cons_ne' _ _ hk'
          · simp [Fired.key, hB1, hmem]
          · intro k' hk'; rfl
        · -- old = true: kept
          rename_i hold
          cases h
          have hx : (asgB G k).any id = true := by simpa using hold
          refine inv_extend hI hs hcK ?_ ?_ ?_ ?_
          · simp only [Fired.key]
            rw [hl, newVal_B hBne, hany, hx]; simp
          · intro k' hk'; rfl
          · simp [Fired.key, hB1, hmem]
          · intro k' hk'; rfl
        · rename_i h1 h2
          exfalso
          cases hx : (asgB G k).any id
          · exact h1 (by rw [hx])
          · exact h2 (by rw [hx])
      · rename_i heq
        have hx : (asgB G k).any id = b := by simpa using heq
        simp [hmem] at h
        cases h
        refine inv_extend hI hs hcK ?_ ?_ ?_ ?_
        · simp only [Fired.key]
          rw [lookup_cons_self, newVal_B hBne, hany, hx]; simp
        · intro k' hk'; exact lookup_cons_ne' _ _ hk'
        · simp [Fired.key, hB1]
        · intro k' hk'; simp [Fired.key] at hk'; simp [hk']

theorem step_setV_ok {cur : GKey → Option Val} {acc acc' : Acc} {G : List Fired} {k : GKey} {v : Val}
    (hI : Inv cur acc G) (hs : k.1.ty ≠ .bool) (h : step cur acc (.setV k v) = .ok acc') :
    Inv cur acc' (G ++ [.setV k v]) := by
  have hB : asgB G k = [] := sorted_nonbool hI.sorted hs
  have hB1 : asgB (G ++ [.setV k v]) k = [] := by simp [asgB, selB] at hB ⊢; exact hB
  have hV1 : asgV (G ++ [.setV k v]) k = asgV G k ++ [v] := by simp [asgV, selV]
  have hD1 : deltas (G ++ [.setV k v]) k = deltas G k := by simp [deltas, selD]
  have hvals := hI.vals k
  have hcons := hI.cons k
  have hasg := hI.asg k
  simp only [step] at h
  unfold stepV at h
  split at h
  · rename_i hl
    rw [hl] at hvals
    have hV : asgV G k = [] := by
      cases hV : asgV G k with
      | nil => rfl
      | cons w ws => rw [newVal_V hB hV] at hvals; cases hvals
    have hD : deltas G k = [] := by
      by_cases hD : deltas G k = []
      · exact hD
      · obtain ⟨q, hq⟩ := hcons.2.2 hD
        rw [newVal_D hB hV hD hq] at hvals; cases hvals
    cases h
    refine inv_extend hI hs ?_ ?_ ?_ ?_ ?_
    · refine ⟨?_, ?_, ?_⟩
      · intro a ha c hc
        simp [Fired.key, hV1, hV] at ha hc
        rw [ha, hc]
      · intro _; simp [Fired.key, hD1, hD]
      · intro hd; simp [Fired.key, hD1, hD] at hd
    · simp only [Fired.key]
      rw [lookup_cons_self, newVal_V hB1 (by rw [hV1, hV]; rfl)]
    · intro k' hk'; exact lookup_cons_ne' _ _ hk'
    · simp [Fired.key, hV1]
    · intro k' hk'; simp [Fired.key] at hk'; simp [hk']
  · rename_i old hl
    rw [hl] at hvals
    split at h
    · cases h
    · rename_i heq
      have heq' : old = v := by simpa using heq
      subst heq'
      split at h
      · cases h
      · rename_i hmem
        have hmem' : k ∈ acc.assigned := by simpa using hmem
        cases h
        have hVne : asgV G k ≠ [] := by
          have := hasg.1 (by simpa using hmem')
          rcases this with h1 | h1
          · exact absurd hB h1
          · exact h1
        obtain ⟨w, ws, hw⟩ : ∃ w ws, asgV G k = w :: ws := by
          cases hV : asgV G k with
          | nil => exact absurd hV hVne
          | cons w ws => exact ⟨w, ws, rfl⟩
        rw [newVal_V hB hw] at hvals
        cases hvals
        have hD : deltas G k = [] := hcons.2.1 (Or.inr hVne)
        refine inv_extend hI hs ?_ ?_ ?_ ?_ ?_
        · refine ⟨?_, ?_, ?_⟩
          · intro a ha c hc
            simp only [Fired.key, hV1, List.mem_append, List.mem_singleton] at ha hc
            have e1 : a = old := by
              rcases ha with ha | ha
              · exact hcons.1 a ha old (by rw [hw]; simp)
              · exact ha
            have e2 : c = old := by
              rcases hc with hc | hc
              · exact hcons.1 c hc old (by rw [hw]; simp)
              · exact hc
            rw [e1, e2]
          · intro _; simp [Fired.key, hD1, hD]
          · intro hd; simp [Fired.key, hD1, hD] at hd
        · simp only [Fired.key]
          rw [lookup_cons_self, newVal_V hB1 (by rw [hV1, hw]; rfl)]
        · intro k' hk'; exact lookup_cons_ne' _ _ hk'
        · simp [Fired.key, hV1]
        · intro k' hk'; simp [Fired.key] at hk'; simp [hk']

theorem step_delta_ok {cur : GKey → Option Val} {acc acc' : Acc} {G : List Fired} {k : GKey} {d : Rat}
    (hI : Inv cur acc G) (h : step cur acc (.delta k d) = .ok acc') :
    Inv cur acc' (G ++ [.delta k d]) := by
  have hB1 : asgB (G ++ [.delta k d]) k = asgB G k := by simp [asgB, selB]
  have hV1 : asgV (G ++ [.delta k d]) k = asgV G k := by simp [asgV, selV]
  have hD1 : deltas (G ++ [.delta k d]) k = deltas G k ++ [d] := by simp [deltas, selD]
  have hvals := hI.vals k
  have hcons := hI.cons k
  have hasg := hI.asg k
  simp only [step] at h
  unfold stepD at h
  split at h
  · cases h
  · rename_i hnot
    have hnm : ¬ (asgB G k ≠ [] ∨ asgV G k ≠ []) := fun hh => hnot (hasg.2 hh)
    have hB : asgB G k = [] := by
      by_cases hB : asgB G k = []
      · exact hB
      · exact absurd (Or.inl hB) hnm
    have hV : asgV G k = [] := by
      by_cases hV : asgV G k = []
      · exact hV
      · exact absurd (Or.inr hV) hnm
    split at h
    · cases h
    · rename_i c0 hc0
      split at h
      · rename_i q hq
        cases h
        -- the value before this increase
        have hbase : ∃ q0, cur k = some (.n q0) ∧ q = q0 + sumR (deltas G k) := by
          by_cases hD : deltas G k = []
          · rw [newVal_none hB hV hD] at hvals
            rw [hvals] at hq
            simp at hq
            refine ⟨q, ?_, ?_⟩
            · rw [hc0, hq]
            · simp [hD, sumR, Rat.add_zero]
          · obtain ⟨q0, hq0⟩ := hcons.2.2 hD
            rw [newVal_D hB hV hD hq0] at hvals
            rw [hvals] at hq
            simp at hq
            exact ⟨q0, hq0, hq.symm⟩
        obtain ⟨q0, hq0, hqe⟩ := hbase
        refine inv_extend hI (by trivial) ?_ ?_ ?_ ?_ ?_
        · refine ⟨?_, ?_, ?_⟩
          · intro a ha; simp [Fired.key, hV1, hV] at ha
          · intro hh
            simp only [Fired.key, hB1, hV1] at hh
            exact absurd hh hnm
          · intro _; exact ⟨q0, hq0⟩
        · simp only [Fired.key]
          rw [lookup_cons_self, newVal_D (by rw [hB1, hB]) (by rw [hV1, hV]) (by rw [hD1]; simp) hq0,
            hD1, sumR_append, hqe]
          simp [sumR, Rat.add_zero, Rat.add_assoc]
        · intro k' hk'; exact lookup_cons_ne' _ _ hk'
        · simp only [Fired.key, hB1, hV1]; exact hasg
        · intro k' hk'; rfl
      · cases h

theorem step_setB_err {cur : GKey → Option Val} {acc : Acc} {G : List Fired} {k : GKey} {b : Bool} {e : Fail}
    (hI : Inv cur acc G) (hs : k.1.ty = .bool) (h : step cur acc (.setB k b) = .error e) :
    ¬ ConsK cur (G ++ [.setB k b]) k := by
  have hV : asgV G k = [] := sorted_bool hI.sorted hs
  have hB1 : asgB (G ++ [.setB k b]) k = asgB G k ++ [b] := by simp [asgB, selB]
  have hD1 : deltas (G ++ [.setB k b]) k = deltas G k := by simp [deltas, selD]
  have hvals := hI.vals k
  have hcons := hI.cons k
  have hasg := hI.asg k
  simp only [step] at h
  unfold stepB at h
  split at h
  · cases h
  · rename_i old hl
    rw [hl] at hvals
    by_cases hB : asgB G k = []
    · have hD : deltas G k ≠ [] := by
        intro hD; rw [newVal_none hB hV hD] at hvals; cases hvals
      intro hc
      have := hc.2.1 (Or.inl (by rw [hB1]; simp))
      rw [hD1] at this
      exact hD this
    · exfalso
      rw [newVal_B hB] at hvals
      cases hvals
      have hmem : k ∈ acc.assigned := by simpa using hasg.2 (Or.inl hB)
      split at h
      · split at h
        · cases h
        · cases h
        · rename_i h1 h2
          cases hx : (asgB G k).any id
          · exact h1 (by rw [hx])
          · exact h2 (by rw [hx])
      · simp [hmem] at h

theorem step_setV_err {cur : GKey → Option Val} {acc : Acc} {G : List Fired} {k : GKey} {v : Val} {e : Fail}
    (hI : Inv cur acc G) (hs : k.1.ty ≠ .bool) (h : step cur acc (.setV k v) = .error e) :
    ¬ ConsK cur (G ++ [.setV k v]) k := by
  have hB : asgB G k = [] := sorted_nonbool hI.sorted hs
  have hV1 : asgV (G ++ [.setV k v]) k = asgV G k ++ [v] := by simp [asgV, selV]
  have hD1 : deltas (G ++ [.setV k v]) k = deltas G k := by simp [deltas, selD]
  have hvals := hI.vals k
  have hcons := hI.cons k
  have hasg := hI.asg k
  -- when the recorded value comes from increases the new list is inconsistent
  have fromD : asgV G k = [] → List.lookup k acc.upd ≠ none → ¬ ConsK cur (G ++ [.setV k v]) k := by
    intro hV hne hc
    have hD : deltas G k ≠ [] := by
      intro hD; rw [newVal_none hB hV hD] at hvals; exact hne hvals
    have := hc.2.1 (Or.inr (by rw [hV1]; simp))
    rw [hD1] at this
    exact hD this
  simp only [step] at h
  unfold stepV at h
  split at h
  · cases h
  · rename_i old hl
    cases hV : asgV G k with
    | nil => exact fromD hV (by rw [hl]; simp)
    | cons w ws =>
      rw [hl, newVal_V hB hV] at hvals
      cases hvals
      split at h
      · rename_i hne
        intro hc
        have := hc.1 old (by rw [hV1, hV]; simp) v (by rw [hV1]; simp)
        exact hne this
      · split at h
        · rename_i hnm
          exfalso
          have : acc.assigned.contains k = true := hasg.2 (Or.inr (by rw [hV]; simp))
          rw [this] at hnm; cases hnm
        · cases h

theorem step_delta_err {cur : GKey → Option Val} {acc : Acc} {G : List Fired} {k : GKey} {d : Rat} {e : Fail}
    (hI : Inv cur acc G) (h : step cur acc (.delta k d) = .error e) :
    ¬ ConsK cur (G ++ [.delta k d]) k := by
  have hB1 : asgB (G ++ [.delta k d]) k = asgB G k := by simp [asgB, selB]
  have hV1 : asgV (G ++ [.delta k d]) k = asgV G k := by simp [asgV, selV]
  have hD1 : deltas (G ++ [.delta k d]) k = deltas G k ++ [d] := by simp [deltas, selD]
  have hvals := hI.vals k
  have hcons := hI.cons k
  have hasg := hI.asg k
  simp only [step] at h
  unfold stepD at h
  split at h
  · rename_i hmem
    intro hc
    have := hc.2.1 (by rw [hB1, hV1]; exact hasg.1 hmem)
    rw [hD1] at this
    simp at this
  · rename_i hnot
    have hnm : ¬ (asgB G k ≠ [] ∨ asgV G k ≠ []) := fun hh => hnot (hasg.2 hh)
    have hB : asgB G k = [] := by
      by_cases hB : asgB G k = []
      · exact hB
      · exact absurd (Or.inl hB) hnm
    have hV : asgV G k = [] := by
      by_cases hV : asgV G k = []
      · exact hV
      · exact absurd (Or.inr hV) hnm
    split at h
    · rename_i hc0
      intro hc
      obtain ⟨q, hq⟩ := hc.2.2 (by rw [hD1]; simp)
      rw [hc0] at hq; cases hq
    · rename_i c0 hc0
      split at h
      · cases h
      · rename_i hnn
        intro hc
        obtain ⟨q0, hq0⟩ := hc.2.2 (by rw [hD1]; simp)
        by_cases hD : deltas G k = []
        · rw [newVal_none hB hV hD] at hvals
          rw [hvals] at hnn
          rw [hc0] at hq0; cases hq0
          exact hnn q0 (by simp)
        · rw [newVal_D hB hV hD hq0] at hvals
          rw [hvals] at hnn
          exact hnn (q0 + sumR (deltas G k)) (by simp)


theorem step_ok {cur : GKey → Option Val} {acc acc' : Acc} {G : List Fired} {f : Fired}
    (hI : Inv cur acc G) (hs : SortedF f) (h : step cur acc f = .ok acc') : Inv cur acc' (G ++ [f]) := by
  cases f with
  | setB k b => exact step_setB_ok hI hs h
  | setV k v => exact step_setV_ok hI hs h
  | delta k d => exact step_delta_ok hI h

theorem step_err {cur : GKey → Option Val} {acc : Acc} {G : List Fired} {f : Fired} {e : Fail}
    (hI : Inv cur acc G) (hs : SortedF f) (h : step cur acc f = .error e) : ¬ ConsK cur (G ++ [f]) f.key := by
  cases f with
  | setB k b => exact step_setB_err hI hs h
  | setV k v => exact step_setV_err hI hs h
  | delta k d => exact step_delta_err hI h

theorem foldFired_ok {cur : GKey → Option Val} : ∀ (F : List Fired) {acc acc' : Acc} {G : List Fired},
    Inv cur acc G → Sorted F → foldFired cur F acc = .ok acc' → Inv cur acc' (G ++ F)
  | [], acc, acc', G, hI, _, h => by
    simp only [foldFired] at h
    cases h
    simpa using hI
  | f :: F, acc, acc', G, hI, hS, h => by
    simp only [foldFired] at h
    split at h
    · cases h
    · rename_i acc1 h1
      have hI1 := step_ok hI (hS f (by simp)) h1
      have := foldFired_ok F hI1 (fun g hg => hS g (by simp [hg])) h
      simpa using this

theorem foldFired_err {cur : GKey → Option Val} : ∀ (F : List Fired) {acc : Acc} {G : List Fired} {e : Fail},
    Inv cur acc G → Sorted F → foldFired cur F acc = .error e → ¬ ∀ k, ConsK cur (G ++ F) k
  | [], acc, G, e, _, _, h => by
    simp only [foldFired] at h
    cases h
  | f :: F, acc, G, e, hI, hS, h => by
    simp only [foldFired] at h
    have e1 : G ++ f :: F = (G ++ [f]) ++ F := by simp
    split at h
    · rename_i x h1
      intro hall
      have := hall f.key
      rw [e1] at this
      exact step_err hI (hS f (by simp)) h1 (consK_prefix this)
    · rename_i acc1 h1
      have hI1 := step_ok hI (hS f (by simp)) h1
      rw [e1]
      exact foldFired_err F hI1 (fun g hg => hS g (by simp [hg])) h

/-- THE FOLD LEMMA: the accumulator loop succeeds exactly on consistent multisets of fired effects
    and then records exactly the order-free new values -/
theorem foldFired_spec {cur : GKey → Option Val} {F : List Fired} (hS : Sorted F) :
    match foldFired cur F Acc.empty with
    | .ok acc => Cons cur F ∧ ∀ k, acc.upd.lookup k = newVal cur F k
    | .error _ => ¬ Cons cur F := by
  cases h : foldFired cur F Acc.empty with
  | ok acc =>
    have := foldFired_ok F (inv_empty cur) hS h
    simp only [List.nil_append] at this
    exact ⟨(cons_iff cur F).2 this.cons, this.vals⟩
  | error e =>
    have := foldFired_err F (inv_empty cur) hS h
    simp only [List.nil_append] at this
    intro hc
    exact this ((cons_iff cur F).1 hc)

/-! ### the interleaved loop of the code = evaluate everything, then fold -/

theorem evalEff_sorted {c : EvalCtx} {e : Effect} {f : Fired} (h : evalEff c e = .ok (some f)) : SortedF f := by
  unfold evalEff at h
  split at h
  · rename_i fr args
    split at h
    · cases h
    · rename_i vs hvs
      dsimp only at h
      split at h
      · cases h
      · cases h
      · split at h
        · cases h
        · rename_i v hv
          split at h
          · split at h
            · rename_i hb
              split at h
              · cases h
                simpa [SortedF] using hb
              · cases h
            · rename_i hb
              cases h
              simpa [SortedF] using hb
          · split at h
            · cases h; trivial
            · cases h
          · split at h
            · cases h; trivial
            · cases h
  · cases h

theorem fired_sorted {c : EvalCtx} : ∀ {E : List Effect} {F : List Fired}, fired c E = some F → Sorted F
  | [], F, h => by
    simp [fired] at h; subst h
    intro f hf; cases hf
  | e :: E, F, h => by
    simp only [fired] at h
    split at h
    · rename_i F' h1 h2
      cases h
      exact fired_sorted h2
    · rename_i f F' h1 h2
      cases h
      intro g hg
      simp at hg
      rcases hg with rfl | hg
      · exact evalEff_sorted h1
      · exact fired_sorted h2 g hg
    · cases h

theorem foldEffects_of_fired {c : EvalCtx} : ∀ {E : List Effect} {F : List Fired} (acc : Acc),
    fired c E = some F → foldEffects c E acc = foldFired c.get F acc
  | [], F, acc, h => by
    simp [fired] at h; subst h; rfl
  | e :: E, F, acc, h => by
    simp only [fired] at h
    split at h
    · rename_i F' h1 h2
      cases h
      simp only [foldEffects, h1]
      exact foldEffects_of_fired acc h2
    · rename_i f F' h1 h2
      cases h
      simp only [foldEffects, h1, foldFired]
      cases step c.get acc f with
      | error x => rfl
      | ok acc' => exact foldEffects_of_fired acc' h2
    · cases h

theorem fired_of_foldEffects {c : EvalCtx} : ∀ {E : List Effect} {acc acc' : Acc},
    foldEffects c E acc = .ok acc' → ∃ F, fired c E = some F
  | [], _, _, _ => ⟨[], rfl⟩
  | e :: E, acc, acc', h => by
    simp only [foldEffects] at h
    split at h
    · cases h
    · rename_i h1
      obtain ⟨F, hF⟩ := fired_of_foldEffects h
      exact ⟨F, by simp [fired, h1, hF]⟩
    · rename_i f h1
      split at h
      · cases h
      · obtain ⟨F, hF⟩ := fired_of_foldEffects h
        exact ⟨f :: F, by simp [fired, h1, hF]⟩

end UPVerif.Sim
