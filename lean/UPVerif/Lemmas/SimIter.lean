import UPVerif.Lemmas.SimQueries
import UPVerif.Core.SimIter
/-!
Helper definitions and lemmas for `Props/C02Iter.lean`: the `get_applicable_actions` generator
(`Core/SimIter.lean`) against the completely consumed enumeration (`Sim.applicableActions`), and histories
in which generators are left incomplete, interleaved with each other and with the other queries.
-/
namespace UPVerif.Sim
open UPVerif

/-! ### one generator -/

/-- the result of a complete enumeration as `Sim.applicableActions` reports it -/
def ofDrain (r : List (Action × List String) × Option EvalErr) : Except EvalErr (List (Action × List String)) :=
  match r.2 with
  | none => .ok r.1
  | some e => .error e

theorem applicableActions_go_eq_drain (W : World) (s : SimState) :
    ∀ l, applicableActions.go W s l = ofDrain (drainGo W s l)
  | [] => rfl
  | ai :: rest => by
    have ih := applicableActions_go_eq_drain W s rest
    simp only [applicableActions.go, drainGo]
    cases isApplicable W s ai.1 ai.2 with
    | error x => rfl
    | ok b =>
      simp only [ih, ofDrain]
      cases (drainGo W s rest).2 <;> rfl

/-- how a complete enumeration continues after one `next` -/
def drainOfNext (W : World) (s : SimState) (r : Step × List (Action × List String)) :
    List (Action × List String) × Option EvalErr :=
  match r.1 with
  | .done => ([], none)
  | .raised e => ([], some e)
  | .item ai => (ai :: (drainGo W s r.2).1, (drainGo W s r.2).2)

theorem drainGo_eq_next (W : World) (s : SimState) : ∀ l, drainGo W s l = drainOfNext W s (nextGo W s l)
  | [] => rfl
  | ai :: rest => by
    have ih := drainGo_eq_next W s rest
    simp only [drainGo, nextGo]
    cases isApplicable W s ai.1 ai.2 with
    | error x => rfl
    | ok b =>
      cases b with
      | true => rfl
      | false => simpa using ih

theorem nextGo_done (W : World) (s : SimState) : ∀ l, (nextGo W s l).1 = .done → (nextGo W s l).2 = []
  | [], _ => rfl
  | ai :: rest, h => by
    simp only [nextGo] at h ⊢
    cases hi : isApplicable W s ai.1 ai.2 with
    | error x => simp [hi] at h
    | ok b =>
      cases b with
      | true => simp [hi] at h
      | false => simp only [hi] at h ⊢; exact nextGo_done W s rest h

theorem nextGo_raised (W : World) (s : SimState) : ∀ l e, (nextGo W s l).1 = .raised e → (nextGo W s l).2 = []
  | [], _, _ => rfl
  | ai :: rest, e, h => by
    simp only [nextGo] at h ⊢
    cases hi : isApplicable W s ai.1 ai.2 with
    | error x => rfl
    | ok b =>
      cases b with
      | true => simp [hi] at h
      | false => simp only [hi] at h ⊢; exact nextGo_raised W s rest e h

/-- what `next` skips and what it stops at, in terms of `apply` -/
theorem nextGo_spec (W : World) (s : SimState) : ∀ l,
    ∃ pre, (∀ x ∈ pre, Sim.apply W s x.1 x.2 = .ok none) ∧
      match (nextGo W s l).1 with
      | .done => l = pre
      | .item ai => l = pre ++ ai :: (nextGo W s l).2 ∧ succeeds W s ai = true
      | .raised e => ∃ x post, l = pre ++ x :: post ∧ Sim.apply W s x.1 x.2 = .error e
  | [] => ⟨[], by simp, by simp [nextGo]⟩
  | ai :: rest => by
    obtain ⟨pre, hpre, hrest⟩ := nextGo_spec W s rest
    have hia := isApplicable_eq_apply W s ai.1 ai.2
    simp only [nextGo]
    cases hi : isApplicable W s ai.1 ai.2 with
    | error x =>
      refine ⟨[], by simp, ?_⟩
      rw [hi] at hia
      exact ⟨ai, rest, rfl, map_eq_error hia.symm⟩
    | ok b =>
      rw [hi] at hia
      obtain ⟨o, ho, hb⟩ := map_eq_ok hia.symm
      cases b with
      | true =>
        refine ⟨[], by simp, ?_⟩
        refine ⟨rfl, ?_⟩
        cases o with
        | none => simp at hb
        | some s' => simp [succeeds, ho]
      | false =>
        cases o with
        | some s' => simp at hb
        | none =>
          refine ⟨ai :: pre, ?_, ?_⟩
          · intro x hx
            cases List.mem_cons.mp hx with
            | inl h => rw [h]; exact ho
            | inr h => exact hpre x h
          · dsimp only
            cases hn : (nextGo W s rest).1 with
            | done => rw [hn] at hrest; simpa using hrest
            | item aj =>
              rw [hn] at hrest
              exact ⟨by simpa using hrest.1, hrest.2⟩
            | raised e =>
              rw [hn] at hrest
              obtain ⟨x, post, hl, hx⟩ := hrest
              exact ⟨x, post, by simpa using hl, hx⟩

/-- `k` times `next` -/
def pullGo (W : World) (s : SimState) : Nat → List (Action × List String) → List Step × List (Action × List String)
  | 0, l => ([], l)
  | k + 1, l => ((nextGo W s l).1 :: (pullGo W s k (nextGo W s l).2).1, (pullGo W s k (nextGo W s l).2).2)

def Iter.pull (W : World) (k : Nat) (it : Iter) : List Step × Iter :=
  ((pullGo W it.s k it.rest).1, ⟨it.s, (pullGo W it.s k it.rest).2⟩)

def terminal : Option EvalErr → Step
  | none => .done
  | some e => .raised e

/-- everything a generator will ever answer: the items of its complete enumeration, then how it ends -/
def traceGo (W : World) (s : SimState) (l : List (Action × List String)) : List Step :=
  (drainGo W s l).1.map Step.item ++ [terminal (drainGo W s l).2]

def Iter.trace (W : World) (it : Iter) : List Step := traceGo W it.s it.rest

theorem take_append_replicate_succ {α : Type} (X : List α) (d : α) (k : Nat) :
    (X ++ List.replicate (k + 1) d).take k = (X ++ List.replicate k d).take k := by
  rw [List.replicate_succ', ← List.append_assoc]
  exact List.take_append_of_le_length (by simp)

theorem pullGo_eq_take (W : World) (s : SimState) : ∀ k l,
    (pullGo W s k l).1 = (traceGo W s l ++ List.replicate k Step.done).take k
  | 0, _ => by simp [pullGo]
  | k + 1, l => by
    have hd := drainGo_eq_next W s l
    simp only [pullGo]
    rw [pullGo_eq_take W s k]
    cases hn : (nextGo W s l).1 with
    | done =>
      have h2 := nextGo_done W s l hn
      have : traceGo W s l = [.done] := by
        simp [traceGo, hd, drainOfNext, hn, terminal]
      rw [this, h2]
      have : traceGo W s [] = [.done] := by simp [traceGo, drainGo, terminal]
      rw [this]
      simp only [List.singleton_append, List.take_succ_cons]
      rw [← List.replicate_succ]
    | raised e =>
      have h2 := nextGo_raised W s l e hn
      have : traceGo W s l = [.raised e] := by
        simp [traceGo, hd, drainOfNext, hn, terminal]
      rw [this, h2]
      have : traceGo W s [] = [.done] := by simp [traceGo, drainGo, terminal]
      rw [this]
      simp only [List.singleton_append, List.take_succ_cons]
      rw [← List.replicate_succ]
    | item ai =>
      have : traceGo W s l = .item ai :: traceGo W s (nextGo W s l).2 := by
        simp [traceGo, hd, drainOfNext, hn]
      rw [this]
      simp only [List.cons_append, List.take_succ_cons]
      exact congrArg _ (take_append_replicate_succ _ Step.done k).symm

/-! ### histories with incomplete enumerations -/

/-- what a client can do with ONE generator it holds -/
inductive HAct where
  | next
  | close
  | drain
  deriving Repr, DecidableEq

def Iter.act (W : World) (it : Iter) : HAct → IAns × Iter
  | .next => (.step (it.next W).1, (it.next W).2)
  | .close => (.closed, it.close)
  | .drain => (.drained (it.drain W).1 (it.drain W).2, it.close)

/-- a generator used ALONE: the answers to a sequence of operations on it -/
def Iter.acts (W : World) : Iter → List HAct → List IAns
  | _, [] => []
  | it, a :: as => (it.act W a).1 :: Iter.acts W (it.act W a).2 as

def IOp.act (h : Nat) : IOp → Option HAct
  | .openIt _ => none
  | .next k => if k = h then some .next else none
  | .close k => if k = h then some .close else none
  | .drain k => if k = h then some .drain else none

/-- the operations of a history on one simulator instance: the five complete queries of
    `Lemmas/SimQueries.lean` and the operations on generators -/
inductive HistOp where
  | query (q : Query)
  | it (o : IOp)

inductive HistAns where
  | q (a : Answer)
  | it (a : IAns)

/-- is this an operation on the generator with handle `h`, and which? -/
def HistOp.act (h : Nat) : HistOp → Option HAct
  | .query _ => none
  | .it o => o.act h

def stepOp (W : World) (its : List Iter) : HistOp → HistAns × List Iter
  | .query q => (.q (answer W q), its)
  | .it o => (.it (iterOp W its o).1, (iterOp W its o).2)

/-- one simulator instance (`W`) serving a history; `its` = the generators the client holds -/
def run (W : World) : List Iter → List HistOp → List HistAns × List Iter
  | its, [] => ([], its)
  | its, op :: ops => ((stepOp W its op).1 :: (run W (stepOp W its op).2 ops).1, (run W (stepOp W its op).2 ops).2)

theorem run_append (W : World) : ∀ (xs ys : List HistOp) (its : List Iter),
    run W its (xs ++ ys) = ((run W its xs).1 ++ (run W (run W its xs).2 ys).1, (run W (run W its xs).2 ys).2)
  | [], _, _ => rfl
  | x :: xs, ys, its => by
    simp only [List.cons_append, run]
    rw [run_append W xs ys]

theorem iterOp_other (W : World) (h : Nat) (its : List Iter) (o : IOp) (it : Iter)
    (ho : o.act h = none) (hh : its[h]? = some it) : (iterOp W its o).2[h]? = some it := by
  have hlt : h < its.length := by
    cases Nat.lt_or_ge h its.length with
    | inl x => exact x
    | inr x => rw [List.getElem?_eq_none x] at hh; cases hh
  cases o with
  | openIt s => simp only [iterOp]; rw [List.getElem?_append_left hlt]; exact hh
  | next k =>
    have hk : k ≠ h := by intro e; simp [IOp.act, e] at ho
    simp only [iterOp]
    cases its[k]? with
    | none => exact hh
    | some x => simp only []; rw [List.getElem?_set_ne hk]; exact hh
  | close k =>
    have hk : k ≠ h := by intro e; simp [IOp.act, e] at ho
    simp only [iterOp]
    cases its[k]? with
    | none => exact hh
    | some x => simp only []; rw [List.getElem?_set_ne hk]; exact hh
  | drain k =>
    have hk : k ≠ h := by intro e; simp [IOp.act, e] at ho
    simp only [iterOp]
    cases its[k]? with
    | none => exact hh
    | some x => simp only []; rw [List.getElem?_set_ne hk]; exact hh

theorem iterOp_on (W : World) (h : Nat) (its : List Iter) (o : IOp) (it : Iter) (a : HAct)
    (ho : o.act h = some a) (hh : its[h]? = some it) :
    (iterOp W its o).1 = (it.act W a).1 ∧ (iterOp W its o).2[h]? = some (it.act W a).2 := by
  have hlt : h < its.length := by
    cases Nat.lt_or_ge h its.length with
    | inl x => exact x
    | inr x => rw [List.getElem?_eq_none x] at hh; cases hh
  cases o with
  | openIt s => simp [IOp.act] at ho
  | next k =>
    have hk : k = h := by
      cases Nat.decEq k h with
      | isTrue e => exact e
      | isFalse e => simp [IOp.act, e] at ho
    subst hk
    have ha : a = .next := by simp [IOp.act] at ho; exact ho.symm
    subst ha
    simp only [iterOp, hh, Iter.act]
    exact ⟨trivial, by rw [List.getElem?_set_self hlt]⟩
  | close k =>
    have hk : k = h := by
      cases Nat.decEq k h with
      | isTrue e => exact e
      | isFalse e => simp [IOp.act, e] at ho
    subst hk
    have ha : a = .close := by simp [IOp.act] at ho; exact ho.symm
    subst ha
    simp only [iterOp, hh, Iter.act]
    exact ⟨trivial, by rw [List.getElem?_set_self hlt]⟩
  | drain k =>
    have hk : k = h := by
      cases Nat.decEq k h with
      | isTrue e => exact e
      | isFalse e => simp [IOp.act, e] at ho
    subst hk
    have ha : a = .drain := by simp [IOp.act] at ho; exact ho.symm
    subst ha
    simp only [iterOp, hh, Iter.act]
    exact ⟨trivial, by rw [List.getElem?_set_self hlt]⟩

/-- the answers a history gave to the operations on handle `h` -/
def answersOn (h : Nat) (ops : List HistOp) (anss : List HistAns) : List HistAns :=
  ((ops.zip anss).filter (fun p => (p.1.act h).isSome)).map (·.2)

theorem answersOn_eq_acts (W : World) (h : Nat) : ∀ (ops : List HistOp) (its : List Iter) (it : Iter),
    its[h]? = some it →
    answersOn h ops (run W its ops).1 = (Iter.acts W it (ops.filterMap (HistOp.act h))).map HistAns.it
  | [], _, _, _ => rfl
  | op :: ops, its, it, hh => by
    simp only [run, answersOn, List.zip_cons_cons, List.filter_cons, List.filterMap_cons]
    cases hact : op.act h with
    | none =>
      have hkeep : (stepOp W its op).2[h]? = some it := by
        cases op with
        | query q => exact hh
        | it o => exact iterOp_other W h its o it hact hh
      simp only [Option.isSome_none, Bool.false_eq_true, if_false]
      exact answersOn_eq_acts W h ops _ it hkeep
    | some a =>
      cases op with
      | query q => simp [HistOp.act] at hact
      | it o =>
        obtain ⟨h1, h2⟩ := iterOp_on W h its o it a hact hh
        simp only [Option.isSome_some, if_true, List.map_cons, Iter.acts, stepOp, h1]
        exact congrArg _ (answersOn_eq_acts W h ops _ _ h2)

theorem acts_replicate_next (W : World) : ∀ (k : Nat) (it : Iter),
    Iter.acts W it (List.replicate k .next) = (it.pull W k).1.map IAns.step
  | 0, _ => rfl
  | k + 1, it => by
    simp only [List.replicate_succ, Iter.acts, Iter.act, Iter.pull, pullGo, List.map_cons]
    have := acts_replicate_next W k (it.next W).2
    simp only [Iter.pull, Iter.next] at this
    exact congrArg _ this

end UPVerif.Sim
