import UPVerif.Lemmas.CompileDCR
import UPVerif.Lemmas.CompileFresh
/-!
`DisjunctiveConditionsRemover` when the DNF of the goals IS a disjunction: the goal becomes a fresh Boolean
fluent `dcrm_fake_goal` (false initially), one goal action per disjunct (mapping back to nothing) sets it, every
other action resets it.  Forward simulation (soundness) and backward simulation with ONE extra final step
(completeness with bound `k + 1`).
-/
namespace UPVerif.Compile
open UPVerif UPVerif.Expr UPVerif.Sim UPVerif.Spec UPVerif.Simulation

/-- the ground goal fluent -/
def FK : GKey := (fakeFluent, [])

def resetEff : Effect := { fluent := mkFluent fakeFluent [], value := Expr.ff, cond := Expr.tt, kind := .assign, forall_ := [] }
def setEff : Effect := { fluent := mkFluent fakeFluent [], value := Expr.tt, cond := Expr.tt, kind := .assign, forall_ := [] }

/-- the two states agree on every ground fluent except the goal fluent -/
def AgreeSt (gB gA : St) : Prop := ∀ f vs, f ≠ fakeFluent → gB (f, vs) = gA (f, vs)

/-- `Q` has the types and objects of `P` -/
structure SameObjs (Q P : Problem) : Prop where
  types : Q.types = P.types
  objects : Q.objects = P.objects

theorem SameObjs.tyDomain {Q P : Problem} (h : SameObjs Q P) : tyDomain Q = tyDomain P := by
  funext t
  cases t <;> simp [Sim.tyDomain, Problem.objectsOf, h.types, h.objects]

theorem SameObjs.objExpr {Q P : Problem} (h : SameObjs Q P) : objExpr Q = objExpr P := by
  funext o; simp [Sim.objExpr, h.objects]

theorem SameObjs.objectsOf {Q P : Problem} (h : SameObjs Q P) : Q.objectsOf = P.objectsOf := by
  funext t; simp [Problem.objectsOf, h.types, h.objects]

theorem SameObjs.expandEffs {Q P : Problem} (h : SameObjs Q P) (E : List Effect) : expandEffs Q E = expandEffs P E := by
  unfold Compile.expandEffs
  congr 1
  funext e
  unfold expandEffect
  rw [h.tyDomain, h.objExpr]

theorem SameObjs.agreeOff {Q : Problem} {W : World} (h : SameObjs Q W.P) {gB gA : St} (ha : AgreeSt gB gA) :
    AgreeOff fakeFluent (ctxOf (withProblem W Q) gB) (ctxOf W gA) :=
  ⟨by unfold ctxOf withProblem; simp [h.objectsOf], rfl, fun f vs hf => ha f vs hf⟩

/-- the compiled problem of the goal-action case: the original one with another action list, the goal fluent as
    only goal and declared (default false) after the original fluents -/
def goalProblem (P : Problem) (acts : List Action) : Problem :=
  { P with actions := acts, goals := [mkFluent fakeFluent []],
           fluents := P.fluents ++ [⟨fakeFluent, some Expr.ff⟩] }

theorem goalProblem_sameObjs (P : Problem) (acts : List Action) : SameObjs (goalProblem P acts) P := ⟨rfl, rfl⟩

/-- the invariants of the compiled problem are those of the original (the goal fluent is Boolean: no bounds) -/
theorem invariants_goalProblem (W : World) (acts : List Action) :
    invariants (withProblem W (goalProblem W.P acts)) = invariants W := by
  have hso := goalProblem_sameObjs W.P acts
  unfold Sim.invariants withProblem
  dsimp only
  have e1 : stateInvariants (goalProblem W.P acts) = stateInvariants W.P := rfl
  rw [e1]
  congr 1
  · apply List.map_congr_left
    intro si _
    rw [(removeQuantifiers_congr hso.tyDomain hso.objExpr).1 si]
  · have e2 : (goalProblem W.P acts).fluents = W.P.fluents ++ [⟨fakeFluent, some Expr.ff⟩] := rfl
    rw [e2, List.flatMap_append]
    have hafe : ∀ f, allFluentExps (goalProblem W.P acts) f = allFluentExps W.P f := by
      intro f; unfold Sim.allFluentExps; rw [hso.tyDomain, hso.objExpr]
    simp only [hafe]
    have hfake : boundsOf fakeFluent.ty = (none, none) := rfl
    simp only [List.flatMap_cons, List.flatMap_nil, hfake, List.append_nil]


/-- hypotheses of the goal-action theorems -/
structure DcrGoalOK (simp dnfE : Expr → Expr) (W : World) : Prop where
  hsimp : SimpExact simp
  hdnf : DnfSplits dnfE
  effs : ∀ a ∈ W.P.actions, ∀ e ∈ a.effs, e.isConditional = true →
    simpleCond e = true ∧ (∀ args, simp (dnfE e.cond) ≠ .app .or args) ∧
    (∀ c : EvalCtx, eval c [] (simp (dnfE e.cond)) = eval c [] e.cond)
  /-- the goal fluent is fresh: not declared, not initialised, not mentioned by goals and invariants … -/
  notDeclared : ∀ d ∈ W.P.fluents, d.ref ≠ fakeFluent
  initFree : ∀ kv ∈ W.P.init, mentions fakeFluent kv.1 = false
  goalsFree : mentionsList fakeFluent W.P.goals = false
  invFree : ∀ si ∈ invariants W, mentions fakeFluent si = false
  /-- … nor by what the DNF walker and the simplifier return for the conditions and effects of the problem -/
  disjFree : ∀ a ∈ W.P.actions, ∀ d ∈ disjuncts (dnfE (mkAnd a.pre)), mentions fakeFluent d = false
  goalDisjFree : ∀ d ∈ disjuncts (dnfE (mkAnd W.P.goals)), mentions fakeFluent d = false
  compiledFree : ∀ a ∈ W.P.actions, ∀ e ∈ expandEffs W.P (dcrEffects simp dnfE a.effs), effectFree fakeFluent e = true

theorem evalEff_reset (c : EvalCtx) : evalEff c resetEff = .ok (some (.setB FK false)) := rfl
theorem evalEff_set (c : EvalCtx) : evalEff c setEff = .ok (some (.setB FK true)) := rfl

theorem fired_append_single (c : EvalCtx) (E : List Effect) (e : Effect) (f : Fired)
    (he : evalEff c e = .ok (some f)) : fired c (E ++ [e]) = (fired c E).map (· ++ [f]) := by
  rw [fired_eq, fired_eq, List.all_append, List.filterMap_append]
  have e1 : effOk c e = true := by unfold effOk; rw [he]
  have e2 : effSel c e = some f := by unfold effSel; rw [he]
  simp only [List.all_cons, List.all_nil, e1, Bool.and_true, List.filterMap_cons, e2, List.filterMap_nil]
  cases E.all (effOk c) <;> simp

theorem invOK_agree {W : World} {acts : List Action} {gB gA : St} (hag : AgreeSt gB gA)
    (hfree : ∀ si ∈ invariants W, mentions fakeFluent si = false) :
    invOK (withProblem W (goalProblem W.P acts)) (ctxOf (withProblem W (goalProblem W.P acts)) gB) =
      invOK W (ctxOf W gA) := by
  unfold invOK
  rw [invariants_goalProblem]
  apply all_congr_mem
  intro si hsi
  have hoff := (goalProblem_sameObjs W.P acts).agreeOff (W := W) hag
  unfold evalBool
  rw [(eval_agree hoff).1 si [] (hfree si hsi)]

theorem succGet_nil (cur : GKey → Option Val) (k : GKey) : succGet cur [] k = cur k := by
  simp [succGet, newVal, asgB, asgV, deltas]

theorem key_ne_FK {k : GKey} (h : k.1 ≠ fakeFluent) : k ≠ FK := by
  intro e; apply h; rw [e]; rfl

/-- THE STEP of a compiled ordinary action (variant of `a` for the disjunct `d`, plus the reset of the goal
    fluent) in a state agreeing with `gA` off the goal fluent: exactly the original step under `d`, and the
    goal fluent ends false -/
theorem dcrGoal_step_iff {simp dnfE : Expr → Expr} (W : World) (hok : DcrGoalOK simp dnfE W) (acts : List Action)
    {a a' : Action} {d : Expr} (ha : a ∈ W.P.actions) (hd : d ∈ disjuncts (dnfE (mkAnd a.pre)))
    (hv : dcrNewAction simp dnfE d a = some (some a')) {gB gA : St} (hag : AgreeSt gB gA) (gB' : St) :
    stepAct (withProblem W (goalProblem W.P acts)) gB { a' with effs := a'.effs ++ [resetEff] } = some gB' ↔
      (a.params.isEmpty = true ∧ Spec.isTrue (eval (ctxOf W gA) [] d) = true ∧
        ∃ F, fired (ctxOf W gA) (expandEffs W.P a.effs) = some F ∧ Cons gA F ∧
          invOK W (ctxOf W (succGet gA F)) = true ∧ gB' = succGet gB (F ++ [Fired.setB FK false])) := by
  obtain ⟨_, rfl⟩ := dcrNewAction_some hv
  have hso := goalProblem_sameObjs W.P acts
  have hoff := hso.agreeOff (W := W) hag
  unfold stepAct
  dsimp only
  cases hp : a.params.isEmpty with
  | false => simp
  | true =>
  simp only [if_true, true_and]
  rw [succOf_iff]
  have hQ : (withProblem W (goalProblem W.P acts)).P = goalProblem W.P acts := rfl
  -- preconditions
  have hpre : preOK (ctxOf (withProblem W (goalProblem W.P acts)) gB) ((splitAnd (simp d)).foldl addPre []) =
      Spec.isTrue (eval (ctxOf W gA) [] d) := by
    rw [preOK_foldl_addPre, preOK_splitAnd, hok.hsimp, (eval_agree hoff).1 d [] (hok.disjFree a ha d hd)]
    simp [preOK]
  -- effects
  have hexp : expandEffs (goalProblem W.P acts) (dcrEffects simp dnfE a.effs ++ [resetEff]) =
      expandEffs W.P (dcrEffects simp dnfE a.effs) ++ [resetEff] := by
    rw [hso.expandEffs, expandEffs_append]
    congr 1
  have hfired : fired (ctxOf (withProblem W (goalProblem W.P acts)) gB)
        (expandEffs W.P (dcrEffects simp dnfE a.effs) ++ [resetEff]) =
      (fired (ctxOf W gA) (expandEffs W.P a.effs)).map (· ++ [Fired.setB FK false]) := by
    rw [fired_append_single _ _ _ _ (evalEff_reset _), fired_agree hoff _ (hok.compiledFree a ha),
        dcrEffects_fired W.P (ctxOf W gA) a.effs (hok.effs a ha)]
  rw [hQ, hexp, hfired, hpre]
  constructor
  · rintro ⟨h1, F', hF', hc, hi, rfl⟩
    cases hFA : fired (ctxOf W gA) (expandEffs W.P a.effs) with
    | none => rw [hFA] at hF'; cases hF'
    | some F =>
      rw [hFA] at hF'
      simp only [Option.map_some, Option.some.injEq] at hF'
      subst hF'
      have hkeys : ∀ f ∈ F, f.key.1 ≠ fakeFluent := by
        have h2 : fired (ctxOf W gA) (expandEffs W.P (dcrEffects simp dnfE a.effs)) = some F := by
          rw [dcrEffects_fired W.P (ctxOf W gA) a.effs (hok.effs a ha)]; exact hFA
        exact fired_keys (hok.compiledFree a ha) h2
      have hcons : Cons gA F :=
        (cons_append_fresh (fun f hf => key_ne_FK (hkeys f hf))
          (fun f hf => hag f.key.1 f.key.2 (hkeys f hf))).1 hc
      have hagree' : AgreeSt (succGet gB (F ++ [Fired.setB FK false])) (succGet gA F) := by
        intro f vs hf
        exact succGet_append_fresh_other (key_ne_FK (k := (f, vs)) hf) (hag f vs hf)
      rw [invOK_agree hagree' hok.invFree] at hi
      exact ⟨h1, F, rfl, hcons, hi, rfl⟩
  · rintro ⟨h1, F, hFA, hcons, hi, rfl⟩
    have hkeys : ∀ f ∈ F, f.key.1 ≠ fakeFluent := by
      have h2 : fired (ctxOf W gA) (expandEffs W.P (dcrEffects simp dnfE a.effs)) = some F := by
        rw [dcrEffects_fired W.P (ctxOf W gA) a.effs (hok.effs a ha)]; exact hFA
      exact fired_keys (hok.compiledFree a ha) h2
    have hagree' : AgreeSt (succGet gB (F ++ [Fired.setB FK false])) (succGet gA F) := by
      intro f vs hf
      exact succGet_append_fresh_other (key_ne_FK (k := (f, vs)) hf) (hag f vs hf)
    refine ⟨h1, F ++ [Fired.setB FK false], by rw [hFA]; rfl, ?_, ?_, rfl⟩
    · exact (cons_append_fresh (fun f hf => key_ne_FK (hkeys f hf))
        (fun f hf => hag f.key.1 f.key.2 (hkeys f hf))).2 hcons
    · rw [invOK_agree hagree' hok.invFree]; exact hi

theorem fakeAction_effs : fakeAction.effs = [setEff] := rfl

theorem dcrEffects_setEff (simp dnfE : Expr → Expr) : dcrEffects simp dnfE [setEff] = [setEff] := rfl

theorem fired_single_set (c : EvalCtx) : fired c [setEff] = some [Fired.setB FK true] := rfl

/-- THE STEP of a goal action (disjunct `d` of the goals' DNF): it applies where `d` holds and only sets the goal
    fluent -/
theorem dcrGoal_fake_step_iff {simp dnfE : Expr → Expr} (W : World) (hok : DcrGoalOK simp dnfE W) (acts : List Action)
    {af : Action} {d : Expr} (hd : d ∈ disjuncts (dnfE (mkAnd W.P.goals)))
    (hv : dcrNewAction simp dnfE d fakeAction = some (some af)) {gB gA : St} (hag : AgreeSt gB gA) (gB' : St) :
    stepAct (withProblem W (goalProblem W.P acts)) gB af = some gB' ↔
      (Spec.isTrue (eval (ctxOf W gA) [] d) = true ∧ invOK W (ctxOf W gA) = true ∧
        gB' = succGet gB [Fired.setB FK true]) := by
  obtain ⟨_, rfl⟩ := dcrNewAction_some hv
  have hso := goalProblem_sameObjs W.P acts
  have hoff := hso.agreeOff (W := W) hag
  unfold stepAct
  dsimp only
  have hpar : fakeAction.params.isEmpty = true := rfl
  simp only [hpar, if_true]
  rw [succOf_iff]
  have hpre : preOK (ctxOf (withProblem W (goalProblem W.P acts)) gB) ((splitAnd (simp d)).foldl addPre []) =
      Spec.isTrue (eval (ctxOf W gA) [] d) := by
    rw [preOK_foldl_addPre, preOK_splitAnd, hok.hsimp, (eval_agree hoff).1 d [] (hok.goalDisjFree d hd)]
    simp [preOK]
  have hexp : expandEffs (withProblem W (goalProblem W.P acts)).P (dcrEffects simp dnfE fakeAction.effs) = [setEff] := by
    rw [fakeAction_effs, dcrEffects_setEff]; rfl
  rw [hpre, hexp, fired_single_set]
  have hagree' : AgreeSt (succGet gB [Fired.setB FK true]) gA := by
    intro f vs hf
    have := succGet_append_fresh_other (cur := gB) (cur' := gB) (F := []) (K := FK) (b := true)
      (key_ne_FK (k := (f, vs)) hf) rfl
    simp only [List.nil_append] at this
    rw [this, succGet_nil]
    exact hag f vs hf
  have hcons : Cons gB [Fired.setB FK true] := by
    have := (cons_append_fresh (cur := gB) (cur' := gB) (F := []) (K := FK) (b := true)
      (by intro f hf; cases hf) (by intro f hf; cases hf)).2 (by intro f hf; cases hf)
    simpa using this
  constructor
  · rintro ⟨h1, F, hF, _, hi, rfl⟩
    simp only [Option.some.injEq] at hF
    subst hF
    rw [invOK_agree hagree' hok.invFree] at hi
    exact ⟨h1, hi, rfl⟩
  · rintro ⟨h1, hi, rfl⟩
    refine ⟨h1, _, rfl, hcons, ?_, rfl⟩
    rw [invOK_agree hagree' hok.invFree]; exact hi

theorem succGet_set_FK (g : St) : succGet g [Fired.setB FK true] FK = some (.b true) := by
  have := succGet_append_fresh_self (cur' := g) (F := []) (K := FK) (b := true) (by intro f hf; cases hf)
  simpa using this

/-! ### initial states -/

def initEntry (fv : Expr × Expr) : Option (GKey × Val) :=
  (keyOf? fv.1).bind (fun k => (UPVerif.constVal? fv.2).bind (fun v => some (k, v)))

theorem initialState?_eq (P : Problem) : initialState? P = (P.init.mapM initEntry).map (fun l => ⟨l⟩) := rfl

theorem initialState_keys : ∀ (init : List (Expr × Expr)) (l : List (GKey × Val)),
    init.mapM initEntry = some l → ∀ kv ∈ l, ∃ fv ∈ init, keyOf? fv.1 = some kv.1
  | [], l, h, kv, hkv => by simp at h; subst h; cases hkv
  | fv :: rest, l, h, kv, hkv => by
    rw [List.mapM_cons] at h
    cases he : initEntry fv with
    | none => rw [he] at h; simp at h
    | some kv0 =>
      cases hr : rest.mapM initEntry with
      | none => rw [he, hr] at h; simp at h
      | some l' =>
        rw [he, hr] at h
        simp at h
        subst h
        rcases List.mem_cons.1 hkv with rfl | hm
        · refine ⟨fv, List.mem_cons_self .., ?_⟩
          unfold initEntry at he
          cases hk : keyOf? fv.1 with
          | none => rw [hk] at he; simp at he
          | some k =>
            rw [hk] at he
            cases hv : UPVerif.constVal? fv.2 with
            | none => rw [hv] at he; simp at he
            | some v => rw [hv] at he; simp at he; rw [← he]
        · obtain ⟨fv', hfv', hkey⟩ := initialState_keys rest l' hr kv hm
          exact ⟨fv', List.mem_cons_of_mem _ hfv', hkey⟩

theorem lookup_none_of_keys {l : List (GKey × Val)} {K : GKey} (h : ∀ kv ∈ l, kv.1 ≠ K) : l.lookup K = none := by
  induction l with
  | nil => rfl
  | cons x xs ih =>
    have hx := h x (List.mem_cons_self ..)
    have : (K == x.1) = false := by
      simp only [beq_eq_false_iff_ne, ne_eq]
      exact fun e => hx e.symm
    rw [List.lookup_cons, this]
    exact ih (fun kv hkv => h kv (List.mem_cons_of_mem _ hkv))

theorem defaultOf_goalProblem {P : Problem} (acts : List Action) (f : FluentRef) (hf : f ≠ fakeFluent) :
    defaultOf (goalProblem P acts) f = defaultOf P f := by
  unfold defaultOf
  have : (goalProblem P acts).fluents = P.fluents ++ [⟨fakeFluent, some Expr.ff⟩] := rfl
  rw [this, List.find?_append]
  cases P.fluents.find? (fun d => d.ref == f) with
  | some d => rfl
  | none =>
    have hne : (fakeFluent == f) = false := by
      simp only [beq_eq_false_iff_ne, ne_eq]; exact fun e => hf e.symm
    simp [List.find?, hne]

theorem defaultOf_goalProblem_fake {P : Problem} (acts : List Action) (hnd : ∀ d ∈ P.fluents, d.ref ≠ fakeFluent) :
    defaultOf (goalProblem P acts) fakeFluent = some (.b false) := by
  unfold defaultOf
  have : (goalProblem P acts).fluents = P.fluents ++ [⟨fakeFluent, some Expr.ff⟩] := rfl
  rw [this, List.find?_append]
  have hnone : P.fluents.find? (fun d => d.ref == fakeFluent) = none := by
    rw [List.find?_eq_none]
    intro d hd
    simp only [beq_iff_eq]
    exact hnd d hd
  rw [hnone]
  rfl

/-- the initial states of the compiled and of the original problem: defined together, agreeing off the goal
    fluent, which is false -/
theorem dcrGoal_init {simp dnfE : Expr → Expr} (W : World) (hok : DcrGoalOK simp dnfE W) (acts : List Action) :
    (∀ gB, initOf (withProblem W (goalProblem W.P acts)) = some gB →
      ∃ gA, initOf W = some gA ∧ AgreeSt gB gA ∧ gB FK = some (.b false)) ∧
    (∀ gA, initOf W = some gA →
      ∃ gB, initOf (withProblem W (goalProblem W.P acts)) = some gB ∧ AgreeSt gB gA ∧ gB FK = some (.b false)) := by
  have hQ : (withProblem W (goalProblem W.P acts)).P = goalProblem W.P acts := rfl
  have hinit : initialState? (goalProblem W.P acts) = initialState? W.P := rfl
  have hagree : ∀ s0 : SimState, initialState? W.P = some s0 →
      AgreeSt (s0.get (goalProblem W.P acts)) (s0.get W.P) ∧ s0.get (goalProblem W.P acts) FK = some (.b false) := by
    intro s0 hs0
    constructor
    · intro f vs hf
      unfold SimState.get
      rw [defaultOf_goalProblem acts f hf]
    · unfold SimState.get
      have hl : s0.vals.lookup FK = none := by
        apply lookup_none_of_keys
        intro kv hkv
        rw [initialState?_eq] at hs0
        cases hm : W.P.init.mapM initEntry with
        | none => rw [hm] at hs0; cases hs0
        | some l =>
          rw [hm] at hs0
          simp only [Option.map_some, Option.some.injEq] at hs0
          subst hs0
          obtain ⟨fv, hfv, hkey⟩ := initialState_keys W.P.init l hm kv hkv
          have hfree := hok.initFree fv hfv
          intro e
          rw [e] at hkey
          cases hfe : fv.1 with
          | leaf x => rw [hfe] at hkey; simp [keyOf?] at hkey
          | quant q vs b => rw [hfe] at hkey; simp [keyOf?] at hkey
          | app op args =>
            rw [hfe] at hkey hfree
            cases op with
            | fluent f =>
              simp only [keyOf?, Option.map_eq_some_iff] at hkey
              obtain ⟨vs, _, hk⟩ := hkey
              have : f = fakeFluent := by
                have := congrArg Prod.fst hk
                simpa [FK] using this
              subst this
              simp [mentions] at hfree
            | _ => simp [keyOf?] at hkey
      rw [hl]
      exact defaultOf_goalProblem_fake acts hok.notDeclared
  constructor
  · intro gB hB
    obtain ⟨s0, hs0, hg, hi⟩ := initOf_eq hB
    rw [hQ, hinit] at hs0
    rw [hQ] at hg
    obtain ⟨hag, hfk⟩ := hagree s0 hs0
    refine ⟨s0.get W.P, ?_, by rw [hg]; exact hag, by rw [hg]; exact hfk⟩
    unfold initOf
    rw [hs0]
    dsimp only
    rw [hg, invOK_agree hag hok.invFree] at hi
    rw [hi]; rfl
  · intro gA hA
    obtain ⟨s0, hs0, hg, hi⟩ := initOf_eq hA
    obtain ⟨hag, hfk⟩ := hagree s0 hs0
    refine ⟨s0.get (goalProblem W.P acts), ?_, by rw [hg]; exact hag, hfk⟩
    unfold initOf
    rw [hQ, hinit, hs0]
    dsimp only
    rw [invOK_agree hag hok.invFree, ← hg, hi]; rfl

/-! ### the compiled problem -/

def withReset (a : Action) : Action := { a with effs := a.effs ++ [resetEff] }

/-- what `dcrCompile` returns when the goals' DNF is the disjunction of `args` -/
theorem dcrCompile_goal_some {simp dnfE : Expr → Expr} {P : Problem} {c : Compiled} {args : List Expr}
    (hg : dnfE (mkAnd P.goals) = .app .or args) (h : dcrCompile simp dnfE P = some c) :
    (∃ acts, c.prob = goalProblem P acts) ∧
    (∀ (i : Nat) (a'' : Action), c.prob.actions[i]? = some a'' →
      (∃ (j : Nat) (a : Action) (d : Expr) (a' : Action), backOf c i = some j ∧ P.actions[j]? = some a ∧
          d ∈ disjuncts (dnfE (mkAnd a.pre)) ∧ dcrNewAction simp dnfE d a = some (some a') ∧ a'' = withReset a') ∨
      (backOf c i = none ∧ ∃ d ∈ args, dcrNewAction simp dnfE d fakeAction = some (some a''))) ∧
    (∀ (j : Nat) (a a' : Action) (d : Expr), P.actions[j]? = some a → d ∈ disjuncts (dnfE (mkAnd a.pre)) →
        dcrNewAction simp dnfE d a = some (some a') →
        ∃ i : Nat, c.prob.actions[i]? = some (withReset a') ∧ backOf c i = some j) ∧
    (∀ d ∈ args, ∀ af, dcrNewAction simp dnfE d fakeAction = some (some af) →
        ∃ i : Nat, c.prob.actions[i]? = some af ∧ backOf c i = none) ∧
    (∀ (a : Action) (d : Expr), a ∈ P.actions → d ∈ disjuncts (dnfE (mkAnd a.pre)) →
        dcrNewAction simp dnfE d a ≠ none) ∧
    (∀ d ∈ args, dcrNewAction simp dnfE d fakeAction ≠ none) := by
  unfold dcrCompile at h
  dsimp only at h
  split at h
  · cases h
  rename_i hraise
  rw [hg] at h
  dsimp only at h
  split at h
  · cases h
  rename_i hraise2
  cases h
  refine ⟨⟨_, rfl⟩, ?_, ?_, ?_, ?_, ?_⟩
  · intro i a'' hi
    dsimp only at hi
    obtain ⟨b, hb, hback⟩ := getElem?_pairs hi
    have hmem := List.mem_of_getElem? hb
    rw [List.mem_append] at hmem
    rcases hmem with hm | hm
    · left
      rw [List.mem_map] at hm
      obtain ⟨⟨a', bj⟩, hab, he⟩ := hm
      simp only [Prod.mk.injEq] at he
      rw [List.mem_filterMap] at hab
      obtain ⟨⟨r, j⟩, hrj, hr⟩ := hab
      rw [List.mem_flatMap] at hrj
      obtain ⟨⟨j', a⟩, hja, hra⟩ := hrj
      rw [List.mem_map] at hra
      obtain ⟨r', hr', hre⟩ := hra
      simp only [Prod.mk.injEq] at hre
      unfold dcrActions at hr'
      rw [List.mem_map] at hr'
      obtain ⟨d, hd, hdr⟩ := hr'
      cases hj : r.join with
      | none => rw [hj] at hr; simp at hr
      | some ar =>
        rw [hj] at hr
        simp only [Option.map_some, Option.some.injEq, Prod.mk.injEq] at hr
        refine ⟨j', a, d, a', ?_, mem_zip_range0 _ _ _ hja, hd, ?_, he.1.symm⟩
        · unfold backOf; dsimp only; rw [hback, ← he.2, ← hr.2, hre.2]
        · rw [hdr, hre.1]
          cases r with
          | none => simp at hj
          | some r2 =>
            cases r2 with
            | none => simp at hj
            | some a2 => simp at hj; rw [hj, hr.1]
    · right
      rw [List.mem_filterMap] at hm
      obtain ⟨r, hr, hre⟩ := hm
      rw [List.mem_map] at hr
      obtain ⟨d, hd, hdr⟩ := hr
      cases hj : r.join with
      | none => rw [hj] at hre; simp at hre
      | some af =>
        rw [hj] at hre
        simp only [Option.map_some, Option.some.injEq, Prod.mk.injEq] at hre
        refine ⟨?_, d, hd, ?_⟩
        · unfold backOf; dsimp only; rw [hback, ← hre.2]
        · rw [hdr]
          cases r with
          | none => simp at hj
          | some r2 =>
            cases r2 with
            | none => simp at hj
            | some a2 => simp at hj; rw [hj, hre.1]
  · intro j a a' d hj hd hv
    have hz := zip_range_mem0 _ _ _ hj
    have hmean : (a', some j) ∈ ((((List.range P.actions.length).zip P.actions).flatMap
        (fun ia => (dcrActions simp dnfE ia.2).map (fun r => (r, ia.1)))).filterMap
          (fun r => r.1.join.map (fun a => (a, some r.2)))) := by
      rw [List.mem_filterMap]
      refine ⟨(some (some a'), j), ?_, rfl⟩
      rw [List.mem_flatMap]
      refine ⟨(j, a), hz, ?_⟩
      rw [List.mem_map]
      refine ⟨some (some a'), ?_, rfl⟩
      unfold dcrActions
      rw [List.mem_map]
      exact ⟨d, hd, hv⟩
    have : (withReset a', some j) ∈
        ((((List.range P.actions.length).zip P.actions).flatMap
          (fun ia => (dcrActions simp dnfE ia.2).map (fun r => (r, ia.1)))).filterMap
            (fun r => r.1.join.map (fun a => (a, some r.2)))).map
          (fun ab => (withReset ab.1, ab.2)) ++
        (args.map (fun d => dcrNewAction simp dnfE d fakeAction)).filterMap
          (fun r => r.join.map (fun a => (a, (none : Option Nat)))) := by
      rw [List.mem_append]; left
      rw [List.mem_map]
      exact ⟨(a', some j), hmean, rfl⟩
    obtain ⟨i, h1, h2⟩ := pairs_of_mem this
    exact ⟨i, h1, h2⟩
  · intro d hd af hv
    have : (af, (none : Option Nat)) ∈
        ((((List.range P.actions.length).zip P.actions).flatMap
          (fun ia => (dcrActions simp dnfE ia.2).map (fun r => (r, ia.1)))).filterMap
            (fun r => r.1.join.map (fun a => (a, some r.2)))).map
          (fun ab => (withReset ab.1, ab.2)) ++
        (args.map (fun d => dcrNewAction simp dnfE d fakeAction)).filterMap
          (fun r => r.join.map (fun a => (a, (none : Option Nat)))) := by
      rw [List.mem_append]; right
      rw [List.mem_filterMap]
      refine ⟨some (some af), ?_, rfl⟩
      rw [List.mem_map]
      exact ⟨d, hd, hv⟩
    obtain ⟨i, h1, h2⟩ := pairs_of_mem this
    exact ⟨i, h1, h2⟩
  · intro a d ha hd hnone
    apply hraise
    rw [List.any_eq_true]
    obtain ⟨j, hj, hje⟩ := List.getElem_of_mem ha
    have hj' : P.actions[j]? = some a := by rw [List.getElem?_eq_getElem hj, hje]
    have hz := zip_range_mem0 _ _ _ hj'
    refine ⟨(none, j), ?_, rfl⟩
    rw [List.mem_flatMap]
    refine ⟨(j, a), hz, ?_⟩
    rw [List.mem_map]
    refine ⟨none, ?_, rfl⟩
    unfold dcrActions
    rw [List.mem_map]
    exact ⟨d, hd, hnone⟩
  · intro d hd hnone
    apply hraise2
    rw [List.any_eq_true]
    refine ⟨none, ?_, rfl⟩
    rw [List.mem_map]
    exact ⟨d, hd, hnone⟩

/-- the compiled goal test reads the goal fluent -/
theorem goalOK_goalProblem (W : World) (acts : List Action) (g : St) :
    goalOK (withProblem W (goalProblem W.P acts)) g = true ↔ g FK = some (.b true) := by
  unfold goalOK
  have : (withProblem W (goalProblem W.P acts)).P.goals = [mkFluent fakeFluent []] := rfl
  rw [this]
  simp only [List.all_cons, List.all_nil, Bool.and_true]
  unfold holdsG
  rw [isTrueB_evalBool, isTrue_eq_true]
  have e : eval (ctxOf (withProblem W (goalProblem W.P acts)) g) [] (mkFluent fakeFluent []) =
      (match g FK with | some v => .ok v | none => .error .missing) := rfl
  rw [e]
  cases h : g FK with
  | none => simp
  | some v => simp

/-- the original goals hold iff some disjunct of their DNF does -/
theorem goalOK_iff_disjunct {simp dnfE : Expr → Expr} (W : World) (hok : DcrGoalOK simp dnfE W) (g : St) :
    goalOK W g = true ↔ ∃ d ∈ disjuncts (dnfE (mkAnd W.P.goals)), Spec.isTrue (eval (ctxOf W g) [] d) = true := by
  have e2 : goalOK W g = preOK (ctxOf W g) W.P.goals := by
    unfold goalOK preOK; exact all_congr_mem (fun e _ => by unfold holdsG; rw [isTrueB_evalBool])
  rw [e2, ← isTrue_mkAnd, hok.hdnf, List.any_eq_true]

theorem dcrGoal_agree_succ {gB gA : St} {F : List Fired} (hag : AgreeSt gB gA) (b : Bool) :
    AgreeSt (succGet gB (F ++ [Fired.setB FK b])) (succGet gA F) := by
  intro f vs hf
  exact succGet_append_fresh_other (key_ne_FK (k := (f, vs)) hf) (hag f vs hf)

/-- keys of what the ordinary effects fire are not the goal fluent -/
theorem dcrGoal_keys {simp dnfE : Expr → Expr} (W : World) (hok : DcrGoalOK simp dnfE W) {a : Action}
    (ha : a ∈ W.P.actions) {g : St} {F : List Fired} (hF : fired (ctxOf W g) (expandEffs W.P a.effs) = some F) :
    ∀ f ∈ F, f.key ≠ FK := by
  have h2 : fired (ctxOf W g) (expandEffs W.P (dcrEffects simp dnfE a.effs)) = some F := by
    rw [dcrEffects_fired W.P (ctxOf W g) a.effs (hok.effs a ha)]; exact hF
  intro f hf
  exact key_ne_FK (fired_keys (hok.compiledFree a ha) h2 f hf)

/-- DisjunctiveConditionsRemover WITH goal actions is a FORWARD simulation: soundness -/
theorem dcrGoal_fwd {simp dnfE : Expr → Expr} (W : World) {c : Compiled} {args : List Expr}
    (hg : dnfE (mkAnd W.P.goals) = .app .or args) (hc : dcrCompile simp dnfE W.P = some c)
    (hok : DcrGoalOK simp dnfE W) :
    Fwd (tsOf W) (tsOf (withProblem W c.prob)) (backOf c)
      (fun gB gA => AgreeSt gB gA ∧ invOK W (ctxOf W gA) = true ∧ (gB FK = some (.b true) → goalOK W gA = true))
      (fun _ => True) := by
  obtain ⟨⟨acts, hacts⟩, hfw, _, _, _, _⟩ := dcrCompile_goal_some hg hc
  have hdisj : disjuncts (dnfE (mkAnd W.P.goals)) = args := by rw [hg]; rfl
  rw [hacts]
  refine ⟨?_, fun _ _ => trivial, fun _ _ _ _ => trivial, ?_, ?_, ?_⟩
  · intro sB hB _
    obtain ⟨gA, hA, hag, hfk⟩ := (dcrGoal_init W hok acts).1 sB hB
    obtain ⟨_, _, _, hi⟩ := initOf_eq hA
    exact ⟨gA, hA, hag, hi, fun h => by rw [hfk] at h; cases h⟩
  · intro sB sA b sB' j hR hstep _ hb
    obtain ⟨hag, hinv, _⟩ := hR
    obtain ⟨a'', ha'', hst⟩ := tsOf_step hstep
    have ha''c : c.prob.actions[b]? = some a'' := by rw [hacts]; exact ha''
    rcases hfw b a'' ha''c with ⟨j', a, d, a', hbj, hao, hd, hv, rfl⟩ | ⟨hbn, _⟩
    · rw [hb] at hbj; cases hbj
      have hmem := List.mem_of_getElem? hao
      obtain ⟨hpar, hdt, F, hF, hcons, hi, rfl⟩ := (dcrGoal_step_iff W hok acts hmem hd hv hag sB').1 hst
      have hpre : preOK (ctxOf W sA) a.pre = true := by
        rw [← isTrue_mkAnd, hok.hdnf, List.any_eq_true]; exact ⟨d, hd, hdt⟩
      refine ⟨succGet sA F, ?_, dcrGoal_agree_succ hag false, hi, ?_⟩
      · rw [tsOf_step_intro hao]
        unfold stepAct
        simp only [hpar, if_true]
        exact succOf_intro hpre hF hcons hi
      · intro h
        rw [succGet_append_fresh_self (dcrGoal_keys W hok hmem hF)] at h
        cases h
    · rw [hb] at hbn; cases hbn
  · intro sB sA b sB' hR hstep _ hb
    obtain ⟨hag, hinv, _⟩ := hR
    obtain ⟨a'', ha'', hst⟩ := tsOf_step hstep
    have ha''c : c.prob.actions[b]? = some a'' := by rw [hacts]; exact ha''
    rcases hfw b a'' ha''c with ⟨j', a, d, a', hbj, _⟩ | ⟨_, d, hd, hv⟩
    · rw [hb] at hbj; cases hbj
    · have hd' : d ∈ disjuncts (dnfE (mkAnd W.P.goals)) := by rw [hdisj]; exact hd
      obtain ⟨hdt, _, rfl⟩ := (dcrGoal_fake_step_iff W hok acts hd' hv hag sB').1 hst
      refine ⟨?_, hinv, fun _ => (goalOK_iff_disjunct W hok sA).2 ⟨d, hd', hdt⟩⟩
      have := dcrGoal_agree_succ (F := []) (gB := sB) (gA := sA) hag true
      intro f vs hf
      have h1 := this f vs hf
      simp only [List.nil_append] at h1
      rw [h1, succGet_nil]
  · intro sB sA hR hgoal
    obtain ⟨_, _, hgo⟩ := hR
    exact hgo ((goalOK_goalProblem W acts sB).1 hgoal)

/-- … and a BACKWARD simulation with one extra final step (the goal action): completeness with bound `k + 1` -/
theorem dcrGoal_bwd {simp dnfE : Expr → Expr} (W : World) {c : Compiled} {args : List Expr}
    (hg : dnfE (mkAnd W.P.goals) = .app .or args) (hc : dcrCompile simp dnfE W.P = some c)
    (hok : DcrGoalOK simp dnfE W) (hke : ∀ a ∈ W.P.actions, dcrKeepsEffects simp dnfE a = true) :
    Bwd (tsOf W) (tsOf (withProblem W c.prob)) (backOf c)
      (fun gB gA => AgreeSt gB gA ∧ invOK W (ctxOf W gA) = true) 1 := by
  obtain ⟨⟨acts, hacts⟩, _, hbw1, hbw2, hnr1, hnr2⟩ := dcrCompile_goal_some hg hc
  have hdisj : disjuncts (dnfE (mkAnd W.P.goals)) = args := by rw [hg]; rfl
  refine ⟨?_, ?_, ?_⟩
  · intro sA hA
    obtain ⟨gB, hB, hag, _⟩ := (dcrGoal_init W hok acts).2 sA hA
    obtain ⟨_, _, _, hi⟩ := initOf_eq hA
    exact ⟨gB, by rw [hacts]; exact hB, hag, hi⟩
  · intro sB sA j sA' hR hstep
    obtain ⟨hag, _⟩ := hR
    obtain ⟨a, ha, hst⟩ := tsOf_step hstep
    have hmem := List.mem_of_getElem? ha
    have hpar : a.params.isEmpty = true := by
      unfold stepAct at hst
      cases hp : a.params.isEmpty with
      | true => rfl
      | false => rw [hp] at hst; simp at hst
    have hst' : succOf W sA a.pre (expandEffs W.P a.effs) = some sA' := by
      unfold stepAct at hst; simpa [hpar] using hst
    obtain ⟨hpre, F, hF, hcons, hi, rfl⟩ := succOf_iff.1 hst'
    rw [← isTrue_mkAnd, hok.hdnf, List.any_eq_true] at hpre
    obtain ⟨d, hd, hdt⟩ := hpre
    have hnf : (simp d).isFalse = false := by
      cases hf : (simp d).isFalse with
      | false => rfl
      | true =>
        have := eval_of_isFalse (c := ctxOf W sA) hf
        rw [hok.hsimp] at this
        rw [this] at hdt; cases hdt
    have hv : ∃ a', dcrNewAction simp dnfE d a = some (some a') := by
      have hne := hnr1 a d hmem hd
      have hkeep := hke a hmem
      unfold dcrNewAction at hne ⊢
      dsimp only at hne ⊢
      simp only [hnf, Bool.false_eq_true, if_false] at hne ⊢
      cases hsa : staticAll ⟨[], []⟩ (dcrEffects simp dnfE a.effs) with
      | none => rw [hsa] at hne; exact absurd rfl hne
      | some acc =>
        unfold dcrKeepsEffects at hkeep
        have : (dcrEffects simp dnfE a.effs).isEmpty = false := by simpa using hkeep
        simp only [this, Bool.false_eq_true, if_false]
        exact ⟨_, rfl⟩
    obtain ⟨a', hv⟩ := hv
    obtain ⟨i, hi', hbi⟩ := hbw1 j a a' d ha hd hv
    refine ⟨i, succGet sB (F ++ [Fired.setB FK false]), hbi, ?_, dcrGoal_agree_succ hag false, hi⟩
    rw [tsOf_step_intro hi', hacts]
    exact (dcrGoal_step_iff W hok acts hmem hd hv hag _).2 ⟨hpar, hdt, F, hF, hcons, hi, rfl⟩
  · intro sB sA hR hgoal
    obtain ⟨hag, hinv⟩ := hR
    obtain ⟨d, hd, hdt⟩ := (goalOK_iff_disjunct W hok sA).1 hgoal
    have hda : d ∈ args := by rw [← hdisj]; exact hd
    have hnf : (simp d).isFalse = false := by
      cases hf : (simp d).isFalse with
      | false => rfl
      | true =>
        have := eval_of_isFalse (c := ctxOf W sA) hf
        rw [hok.hsimp] at this
        rw [this] at hdt; cases hdt
    have hv : ∃ af, dcrNewAction simp dnfE d fakeAction = some (some af) := by
      have hne := hnr2 d hda
      unfold dcrNewAction at hne ⊢
      dsimp only at hne ⊢
      simp only [hnf, Bool.false_eq_true, if_false] at hne ⊢
      cases hsa : staticAll ⟨[], []⟩ (dcrEffects simp dnfE fakeAction.effs) with
      | none => rw [hsa] at hne; exact absurd rfl hne
      | some acc =>
        have : (dcrEffects simp dnfE fakeAction.effs).isEmpty = false := rfl
        simp only [this, Bool.false_eq_true, if_false]
        exact ⟨_, rfl⟩
    obtain ⟨af, hv⟩ := hv
    obtain ⟨i, hi', hbi⟩ := hbw2 d hda af hv
    have hstep : (tsOf (withProblem W c.prob)).step sB i = some (succGet sB [Fired.setB FK true]) := by
      rw [tsOf_step_intro hi', hacts]
      exact (dcrGoal_fake_step_iff W hok acts hd hv hag _).2 ⟨hdt, hinv, rfl⟩
    refine ⟨[i], succGet sB [Fired.setB FK true], Nat.le_refl _, ?_, ?_, ?_⟩
    · simp [mapBack, hbi]
    · simp only [TS.run, hstep]
    · show goalOK (withProblem W c.prob) (succGet sB [Fired.setB FK true]) = true
      rw [hacts]
      exact (goalOK_goalProblem W acts _).2 (succGet_set_FK sB)

end UPVerif.Compile
