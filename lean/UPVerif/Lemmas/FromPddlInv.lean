import UPVerif.Lemmas.FromPddlProblem
/-!
Helper lemmas for C21, the whole problem: what an accepted pair of files went through, in each of the two readers
(inversion of the `do` blocks of `pddlReadLower`, `astDomain`, `astProblem`, `fromPddl`).
-/
namespace UPVerif.FromPddl
open UPVerif UPVerif.Expr UPVerif.Pddl

theorem ite_none_inv {β : Type} {c : Prop} [Decidable c] {a b : Option β} {x : β} (h : (if c then a else b) = some x)
    (ha : a = none) : ¬ c ∧ b = some x := by
  by_cases hc : c
  · rw [if_pos hc, ha] at h; cases h
  · rw [if_neg hc] at h; exact ⟨hc, h⟩

theorem ite_some_inv {β : Type} {c : Prop} [Decidable c] {a b x : β} (h : (if c then some a else some b) = some x) :
    (c ∧ a = x) ∨ (¬ c ∧ b = x) := by
  by_cases hc : c
  · rw [if_pos hc] at h; exact Or.inl ⟨hc, Option.some.inj h⟩
  · rw [if_neg hc] at h; exact Or.inr ⟨hc, Option.some.inj h⟩

/-! ### the first reader -/

/-- the items of `:init` (`(:init (and …))` is unwrapped) -/
def initItems (init : List Sexp) : List Sexp :=
  match init with
  | [.list (.atom "and" :: items)] => items
  | l => l

/-- the metric of a problem read without action costs -/
def PlainMetric (E2 : REnv) (Q : ProblemSecs) (P : Problem) : Prop :=
  match Q.metric with
  | none => P.metrics = []
  | some (opt, m) => ∃ ml me, m = .list ml ∧ readExpr E2 [] (.list ml) = some me ∧
      P.metrics = [if opt == "minimize" then .minFinal me else .maxFinal me]

/-- the declarations: predicates, constants, objects -/
structure UPDecls (D : DomainSecs) (Q : ProblemSecs) (tmap : List String) (preds : List FluentRef)
    (consts objs : List (String × String)) : Prop where
  hpreds : D.predicates.mapM (readPredicate { types := tmap, fluents := [], objects := [], params := none }) = some preds
  hconsts : ∃ cg, typedList false D.constants = some cg ∧
    readObjects { types := tmap, fluents := [], objects := [], params := none } cg = some consts
  hobjs : ∃ og, typedList false Q.objects = some og ∧
    readObjects { types := tmap, fluents := [], objects := [], params := none } og = some objs

/-- the stages of `pddlReadLower dom prob = some P` -/
structure UPStages (dom prob : Sexp) (P : Problem) where
  D : DomainSecs
  Q : ProblemSecs
  tmap : List String
  preds : List FluentRef
  funs : List FluentRef
  consts : List (String × String)
  objs : List (String × String)
  actions : List Action
  init : List (Expr × Expr)
  g : List Sexp
  goalE : Expr
  hD : splitDomain dom = some D
  hQ : splitProblem prob = some Q
  decls : UPDecls D Q tmap preds consts objs
  hfuns : readFunctions { types := tmap, fluents := [], objects := [], params := none } D.functions = some funs
  hacts : readActions { types := tmap, fluents := preds ++ funs, objects := consts, params := none } D.actions = some actions
  hinit : readInit { types := tmap, fluents := preds ++ funs, objects := consts ++ objs, params := none }
    (initItems Q.init) [] = some init
  hg : Q.goal = some (.list g)
  hgoal : readExpr { types := tmap, fluents := preds ++ funs, objects := consts ++ objs, params := none } [] (.list g) = some goalE
  name : P.name = Q.name
  objects : P.objects = consts ++ objs
  goals : P.goals = preList goalE
  /-- no function called `total-cost`: no action costs are extracted -/
  plain : funs.any (fun f => f.name == "total-cost") = false →
    P.fluents = (preds ++ funs).map fluentDecl ∧ P.actions = actions ∧ P.init = init ∧
    PlainMetric { types := tmap, fluents := preds ++ funs, objects := consts ++ objs, params := none } Q P

theorem pddlReadLower_inv {dom prob : Sexp} {P : Problem} (h : pddlReadLower dom prob = some P) :
    Nonempty (UPStages dom prob P) := by
  unfold pddlReadLower at h
  simp only [Option.bind_eq_bind] at h
  rw [Option.bind_eq_some_iff] at h; obtain ⟨D, hD, h⟩ := h
  rw [Option.bind_eq_some_iff] at h; obtain ⟨Q, hQ, h⟩ := h
  rw [Option.bind_eq_some_iff] at h; obtain ⟨typeLines, _, h⟩ := h
  rw [Option.bind_eq_some_iff] at h; obtain ⟨constGroups, hcg, h⟩ := h
  rw [Option.bind_eq_some_iff] at h; obtain ⟨predGroups, _, h⟩ := h
  rw [Option.bind_eq_some_iff] at h; obtain ⟨funGroups, _, h⟩ := h
  rw [Option.bind_eq_some_iff] at h; obtain ⟨actGroups, _, h⟩ := h
  rw [Option.bind_eq_some_iff] at h; obtain ⟨objGroups, hog, h⟩ := h
  rw [Option.bind_eq_some_iff] at h; obtain ⟨decls, _, h⟩ := h
  replace h := (ite_none_inv h rfl).2
  generalize htys : resolveTypes _ decls = types at h
  generalize htm : List.map (fun x => x.fst) types = tmap at h
  rw [Option.bind_eq_some_iff] at h; obtain ⟨preds, hpreds, h⟩ := h
  rw [Option.bind_eq_some_iff] at h; obtain ⟨funs, hfuns, h⟩ := h
  replace h := (ite_none_inv h rfl).2
  replace h := (ite_none_inv h rfl).2
  rw [Option.bind_eq_some_iff] at h; obtain ⟨consts, hconsts, h⟩ := h
  rw [Option.bind_eq_some_iff] at h; obtain ⟨actions, hacts, h⟩ := h
  rw [Option.bind_eq_some_iff] at h; obtain ⟨objs, hobjs, h⟩ := h
  replace h := (ite_none_inv h rfl).2
  rw [Option.bind_eq_some_iff] at h; obtain ⟨init, hinit, h⟩ := h
  rw [Option.bind_eq_some_iff] at h; obtain ⟨goalE, hgoal, h⟩ := h
  -- the goal
  have hg : ∃ g, Q.goal = some (.list g) ∧
      readExpr { types := tmap, fluents := preds ++ funs, objects := consts ++ objs, params := none } [] (.list g) = some goalE := by
    split at hgoal
    · rename_i g hgq; exact ⟨g, hgq, hgoal⟩
    · cases hgoal
  obtain ⟨g, hgq, hgoal'⟩ := hg
  have hdecls : UPDecls D Q tmap preds consts objs := ⟨hpreds, ⟨_, hcg, hconsts⟩, ⟨_, hog, hobjs⟩⟩
  -- the metric
  cases hm : Q.metric with
  | none =>
    rw [hm] at h
    simp only [Option.some.injEq] at h
    subst h
    exact ⟨{ D := D, Q := Q, tmap := tmap, preds := preds, funs := funs, consts := consts, objs := objs, actions := actions,
             init := init, g := g, goalE := goalE, hD := hD, hQ := hQ, decls := hdecls, hfuns := hfuns, hacts := hacts, hinit := hinit,
             hg := hgq, hgoal := hgoal', name := rfl, objects := rfl, goals := rfl,
             plain := fun _ => ⟨rfl, rfl, rfl, by simp [PlainMetric, hm]⟩ }⟩
  | some om =>
    obtain ⟨opt, m⟩ := om
    rw [hm] at h
    simp only at h
    split at h
    · cases h
    · split at h <;> cases h
    · rename_i ml _
      rw [Option.bind_eq_some_iff] at h; obtain ⟨me, hme, h⟩ := h
      rcases ite_some_inv h with ⟨hcond, h⟩ | ⟨_, h⟩
      · subst h
        exact ⟨{ D := D, Q := Q, tmap := tmap, preds := preds, funs := funs, consts := consts, objs := objs,
                 actions := actions, init := init, g := g, goalE := goalE, hD := hD, hQ := hQ, decls := hdecls, hfuns := hfuns,
                 hacts := hacts, hinit := hinit, hg := hgq, hgoal := hgoal', name := rfl, objects := rfl, goals := rfl,
                 plain := fun htc => by simp [htc] at hcond }⟩
      · subst h
        exact ⟨{ D := D, Q := Q, tmap := tmap, preds := preds, funs := funs, consts := consts, objs := objs,
                 actions := actions, init := init, g := g, goalE := goalE, hD := hD, hQ := hQ, decls := hdecls, hfuns := hfuns,
                 hacts := hacts, hinit := hinit, hg := hgq, hgoal := hgoal', name := rfl, objects := rfl, goals := rfl,
                 plain := fun _ => ⟨rfl, rfl, rfl, by
                   simp only [PlainMetric, hm]
                   exact ⟨ml, me, rfl, hme, rfl⟩⟩ }⟩

/-! ### the external parser -/

/-- the context in which the problem file's formulas are read: a fresh `DomainTransformer` -/
def C0 : PCtx := { reqs := [], consts := none }

/-- the stages of `astDomain dom = some Dm` -/
structure AstDomStages (dom : Sexp) (Dm : PDomain) where
  D : DomainSecs
  preds : List (String × List TVar)
  acts : List PAction
  hD : splitDomain dom = some D
  hconsts : astNames D.constants = some Dm.constants
  hpreds : D.predicates.mapM astSkeleton = some preds
  predicates : Dm.predicates = dedup preds
  hfuns : astFunctions D.functions = some Dm.functions
  hacts : astActions { reqs := extendReqs Dm.reqs, consts := some (Dm.constants.map (·.1)) } D.actions = some acts
  actions : Dm.actions = dedup acts

theorem astDomain_inv {dom : Sexp} {Dm : PDomain} (h : astDomain dom = some Dm) : Nonempty (AstDomStages dom Dm) := by
  unfold astDomain at h
  simp only [Option.bind_eq_bind] at h
  rw [Option.bind_eq_some_iff] at h; obtain ⟨D, hD, h⟩ := h
  rw [Option.bind_eq_some_iff] at h; obtain ⟨reqs, hreqs, h⟩ := h
  rw [Option.bind_eq_some_iff] at h; obtain ⟨typeLines, htl, h⟩ := h
  replace h := (ite_none_inv h rfl).2
  replace h := (ite_none_inv h rfl).2
  rw [Option.bind_eq_some_iff] at h; obtain ⟨consts, hconsts, h⟩ := h
  rw [Option.bind_eq_some_iff] at h; obtain ⟨preds, hpreds, h⟩ := h
  rw [Option.bind_eq_some_iff] at h; obtain ⟨funs, hfuns, h⟩ := h
  replace h := (ite_none_inv h rfl).2
  rw [Option.bind_eq_some_iff] at h; obtain ⟨acts, hacts, h⟩ := h
  replace h := (ite_none_inv h rfl).2
  replace h := (ite_none_inv h rfl).2
  cases h
  exact ⟨{ D := D, preds := preds, acts := acts, hD := hD, hconsts := hconsts, hpreds := hpreds, predicates := rfl,
           hfuns := hfuns, hacts := hacts, actions := rfl }⟩

/-- the stages of `astProblem prob = some Pm` -/
structure AstProbStages (prob : Sexp) (Pm : PProblem) where
  Q : ProblemSecs
  init : List Form
  g : Sexp
  hQ : splitProblem prob = some Q
  hobjs : astNames Q.objects = some Pm.objects
  hinit : astInit C0 Q.init = some init
  init_eq : Pm.init = dedup init
  hg : Q.goal = some g
  hgoal : astGd C0 g = some Pm.goal
  hmetric : match Q.metric with
    | none => Pm.metric = none
    | some (opt, m) => ∃ φ, astFexp C0 m = some φ ∧ Pm.metric = some (opt, φ)
  name : Pm.name = Q.name

theorem astProblem_inv {prob : Sexp} {Pm : PProblem} (h : astProblem prob = some Pm) : Nonempty (AstProbStages prob Pm) := by
  unfold astProblem at h
  simp only [Option.bind_eq_bind] at h
  rw [Option.bind_eq_some_iff] at h; obtain ⟨Q, hQ, h⟩ := h
  rw [Option.bind_eq_some_iff] at h; obtain ⟨dname, hdn, h⟩ := h
  rw [Option.bind_eq_some_iff] at h; obtain ⟨reqs, hreqs, h⟩ := h
  rw [Option.bind_eq_some_iff] at h; obtain ⟨objs, hobjs, h⟩ := h
  rw [Option.bind_eq_some_iff] at h; obtain ⟨init, hinit, h⟩ := h
  replace h := (ite_none_inv h rfl).2
  rw [Option.bind_eq_some_iff] at h; obtain ⟨goal, hgoal, h⟩ := h
  rw [Option.bind_eq_some_iff] at h; obtain ⟨metric, hmetric, h⟩ := h
  cases h
  cases hgq : Q.goal with
  | none => rw [hgq] at hgoal; cases hgoal
  | some g =>
    rw [hgq] at hgoal
    refine ⟨{ Q := Q, init := init, g := g, hQ := hQ, hobjs := hobjs, hinit := hinit, init_eq := rfl, hg := hgq, hgoal := hgoal,
              hmetric := ?_, name := rfl }⟩
    cases hm : Q.metric with
    | none =>
      rw [hm] at hmetric
      simp only [Option.some.injEq] at hmetric
      exact hmetric.symm
    | some om =>
      obtain ⟨opt, m⟩ := om
      rw [hm] at hmetric
      simp only [Option.map_eq_some_iff] at hmetric
      obtain ⟨φ, hφ, hmet⟩ := hmetric
      exact ⟨φ, hφ, hmet.symm⟩

/-! ### the converter, without action costs -/

/-- the metric the converter builds when there are no action costs -/
def ConvMetric (CE : CEnv) (Pm : PProblem) (R : Problem) : Prop :=
  match Pm.metric with
  | none => R.metrics = []
  | some (opt, m) => ∃ e, convExpr CE [] [] m = some e ∧
      R.metrics = [if opt == "minimize" then .minFinal e else .maxFinal e]

/-- the stages of `fromPddl A = some R` without action costs -/
structure ConvStages (A : PddlAst) (R : Problem) where
  tab : TypeTab
  ups : List (String × Option String)
  fluents : List FluentRef
  objects : List (String × String)
  acts : List (Action × Option Expr)
  init : List (Expr × Expr)
  tcInit : Bool
  goal : Expr
  htab : convertTypes (hasObjectUserType A) A.dom.types = some (tab, ups)
  decls : ∃ preds funs consts objs, convPredicates tab A.dom.predicates = some preds ∧
    convFunctions tab false A.dom.functions = some funs ∧ convObjects tab A.dom.constants = some consts ∧
    convObjects tab A.prob.objects = some objs ∧ fluents = preds ++ funs ∧ objects = consts ++ objs
  hacts : convActions { types := tab, fluents := fluents, objects := objects } false A.dom.actions = some acts
  hinit : convInit { types := tab, fluents := fluents, objects := objects } false A.prob.init [] false = some (init, tcInit)
  hgoal : convExpr { types := tab, fluents := fluents, objects := objects } [] [] A.prob.goal = some goal
  hmetric : ConvMetric { types := tab, fluents := fluents, objects := objects } A.prob R
  name : R.name = A.prob.name
  objects_eq : R.objects = objects
  fluents_eq : R.fluents = fluents.map fluentDecl
  init_eq : R.init = init
  actions_eq : R.actions = acts.map (·.1)
  goals_eq : R.goals = preList goal

theorem fromPddl_inv {A : PddlAst} {R : Problem} (h : fromPddl A = some R)
    (hc : (A.dom.functions.any (fun f => f.1 == "total-cost" && f.2.isEmpty) && hasMinimizeTotalCost A.prob) = false) :
    Nonempty (ConvStages A R) := by
  unfold fromPddl at h
  simp only [Option.bind_eq_bind, hc] at h
  rw [Option.bind_eq_some_iff] at h; obtain ⟨⟨tab, ups⟩, htab, h⟩ := h
  simp only at h
  rw [Option.bind_eq_some_iff] at h; obtain ⟨preds, hpreds, h⟩ := h
  rw [Option.bind_eq_some_iff] at h; obtain ⟨funs, hfuns, h⟩ := h
  replace h := (ite_none_inv h rfl).2
  rw [Option.bind_eq_some_iff] at h; obtain ⟨consts, hconsts, h⟩ := h
  rw [Option.bind_eq_some_iff] at h; obtain ⟨objs, hobjs, h⟩ := h
  replace h := (ite_none_inv h rfl).2
  rw [Option.bind_eq_some_iff] at h; obtain ⟨acts, hacts, h⟩ := h
  replace h := (ite_none_inv h rfl).2
  rw [Option.bind_eq_some_iff] at h; obtain ⟨metrics, hmet, h⟩ := h
  rw [Option.bind_eq_some_iff] at h; obtain ⟨⟨init, tcInit⟩, hinit, h⟩ := h
  simp only at h
  replace h := (ite_none_inv h rfl).2
  rw [Option.bind_eq_some_iff] at h; obtain ⟨goal, hgoal, h⟩ := h
  cases h
  refine ⟨{ tab := tab, ups := ups, fluents := preds ++ funs, objects := consts ++ objs, acts := acts, init := init,
            tcInit := tcInit, goal := goal, htab := htab,
            decls := ⟨preds, funs, consts, objs, hpreds, hfuns, hconsts, hobjs, rfl, rfl⟩, hacts := hacts, hinit := hinit, hgoal := hgoal, hmetric := ?_,
            name := rfl, objects_eq := rfl, fluents_eq := rfl, init_eq := rfl, actions_eq := rfl, goals_eq := rfl }⟩
  simp only [Bool.false_eq_true, if_false] at hmet
  unfold ConvMetric
  cases hm : A.prob.metric with
  | none =>
    rw [hm] at hmet
    simp only [Option.some.injEq] at hmet
    exact hmet.symm
  | some om =>
    obtain ⟨opt, m⟩ := om
    rw [hm] at hmet
    simp only [Option.map_eq_some_iff] at hmet
    obtain ⟨e, he, hmet⟩ := hmet
    exact ⟨e, he, hmet.symm⟩

end UPVerif.FromPddl
