import UPVerif.Lemmas.TTMain
import UPVerif.Lemmas.SpecPerm
/-!
Helper lemmas for `Props/C05.lean`: the reference semantics of `Spec/Temporal.lean` does not depend
on the order in which the action instances of the plan (hence their events and conditions) are
listed — in particular the listing order of the plan and the validator's processing order give the
same verdict.
-/
namespace UPVerif.TT
open UPVerif UPVerif.Expr UPVerif.Sim UPVerif.Spec UPVerif.Spec.Temporal

/-- both undefined, or both defined and equal up to the order of the lists -/
def OptPerm {α β : Type} : Option (List α × List β) → Option (List α × List β) → Prop
  | none, none => True
  | some (E, C), some (E', C') => E.Perm E' ∧ C.Perm C'
  | _, _ => False

theorem OptPerm.refl' {α β : Type} (o : Option (List α × List β)) : OptPerm o o := by
  cases o with
  | none => trivial
  | some p => exact ⟨List.Perm.refl _, List.Perm.refl _⟩

theorem OptPerm.trans' {α β : Type} {a b c : Option (List α × List β)} (h1 : OptPerm a b) (h2 : OptPerm b c) :
    OptPerm a c := by
  cases a <;> cases b <;> cases c <;> simp_all [OptPerm]
  exact ⟨h1.1.trans h2.1, h1.2.trans h2.2⟩

theorem stepsItems_cons (W : World) (x : Step × Nat) (l : List (Step × Nat)) :
    stepsItems W (x :: l) = match stepItems W x.1 x.2, stepsItems W l with
      | .ok (some (ev, cs)), some (E, C) => some (ev ++ E, cs ++ C)
      | _, _ => none := by
  obtain ⟨st, idx⟩ := x
  rfl

theorem stepsItems_perm {W : World} {A B : List (Step × Nat)} (h : A.Perm B) :
    OptPerm (stepsItems W A) (stepsItems W B) := by
  induction h with
  | nil => exact OptPerm.refl' _
  | @cons x l1 l2 _ ih =>
    rw [stepsItems_cons, stepsItems_cons]
    cases hx : stepItems W x.1 x.2 with
    | error e => cases stepsItems W l1 <;> cases stepsItems W l2 <;> trivial
    | ok o =>
      cases o with
      | none => cases stepsItems W l1 <;> cases stepsItems W l2 <;> trivial
      | some p =>
        obtain ⟨ev, cs⟩ := p
        cases h1 : stepsItems W l1 with
        | none =>
          cases h2 : stepsItems W l2 with
          | none => trivial
          | some q => rw [h1, h2] at ih; exact ih
        | some q1 =>
          cases h2 : stepsItems W l2 with
          | none => rw [h1, h2] at ih; exact ih
          | some q2 =>
            rw [h1, h2] at ih
            obtain ⟨E1, C1⟩ := q1
            obtain ⟨E2, C2⟩ := q2
            exact ⟨ih.1.append_left ev, ih.2.append_left cs⟩
  | swap x y l =>
    rw [stepsItems_cons, stepsItems_cons, stepsItems_cons, stepsItems_cons]
    cases hx : stepItems W x.1 x.2 with
    | error e => cases stepItems W y.1 y.2 with
      | error e' => cases stepsItems W l <;> trivial
      | ok o' => cases o' <;> cases stepsItems W l <;> trivial
    | ok o =>
      cases o with
      | none => cases stepItems W y.1 y.2 with
        | error e' => cases stepsItems W l <;> trivial
        | ok o' => cases o' <;> cases stepsItems W l <;> trivial
      | some p =>
        obtain ⟨evx, csx⟩ := p
        cases hy : stepItems W y.1 y.2 with
        | error e' => cases stepsItems W l <;> trivial
        | ok o' =>
          cases o' with
          | none => cases stepsItems W l <;> trivial
          | some q =>
            obtain ⟨evy, csy⟩ := q
            cases hl : stepsItems W l with
            | none => trivial
            | some r =>
              obtain ⟨E, C⟩ := r
              refine ⟨?_, ?_⟩
              · rw [← List.append_assoc, ← List.append_assoc]
                exact List.Perm.append_right _ List.perm_append_comm
              · rw [← List.append_assoc, ← List.append_assoc]
                exact List.Perm.append_right _ List.perm_append_comm
  | trans _ _ ih1 ih2 => exact OptPerm.trans' ih1 ih2

/-! ### one instant -/

/-- both undefined, or both defined and equal up to order -/
def OptPermL {α : Type} : Option (List α) → Option (List α) → Prop
  | none, none => True
  | some a, some b => a.Perm b
  | _, _ => False

theorem firedGroups_perm {P : Problem} {c : EvalCtx} {gs gs' : List Group} (h : gs.Perm gs') :
    OptPermL (firedGroups P c gs) (firedGroups P c gs') := by
  induction h with
  | nil => exact List.Perm.refl _
  | @cons g l1 l2 _ ih =>
    simp only [firedGroups]
    cases firedInsts c g.σ g.tag (g.effs.flatMap (expandEffect P)) with
    | none => cases firedGroups P c l1 <;> cases firedGroups P c l2 <;> trivial
    | some F =>
      cases h1 : firedGroups P c l1 <;> cases h2 : firedGroups P c l2 <;> rw [h1, h2] at ih <;>
        first | trivial | exact ih | exact ih.append_left F
  | swap g g' l =>
    simp only [firedGroups]
    cases firedInsts c g.σ g.tag (g.effs.flatMap (expandEffect P)) <;>
      cases firedInsts c g'.σ g'.tag (g'.effs.flatMap (expandEffect P)) <;>
        cases firedGroups P c l <;> try trivial
    rename_i F F' G
    show (F' ++ (F ++ G)).Perm (F ++ (F' ++ G))
    rw [← List.append_assoc, ← List.append_assoc]
    exact List.Perm.append_right _ List.perm_append_comm
  | @trans l1 l2 l3 _ _ ih1 ih2 =>
    cases h1 : firedGroups P c l1 <;> cases h2 : firedGroups P c l2 <;> cases h3 : firedGroups P c l3 <;>
      rw [h1, h2] at ih1 <;> rw [h2, h3] at ih2 <;> first | trivial | exact ih1.trans ih2 | exact absurd ih1 id | exact absurd ih2 id

theorem exclusive_perm {TF TF' : List TFired} (h : TF.Perm TF') : Exclusive TF ↔ Exclusive TF' := by
  unfold Exclusive
  constructor
  · intro hx x hx' y hy'
    exact hx x (h.mem_iff.2 hx') y (h.mem_iff.2 hy')
  · intro hx x hx' y hy'
    exact hx x (h.mem_iff.1 hx') y (h.mem_iff.1 hy')

/-- the successor of an instant does not depend on the order of its events -/
theorem instantSucc_perm {W : World} {σ : SMap} {gs gs' : List Group} (h : gs.Perm gs') :
    instantSucc W σ gs = instantSucc W σ gs' := by
  unfold instantSucc
  have hp := firedGroups_perm (P := W.P) (c := ctxOf W σ) h
  cases h1 : firedGroups W.P (ctxOf W σ) gs with
  | none =>
    cases h2 : firedGroups W.P (ctxOf W σ) gs' with
    | none => rfl
    | some TF' => rw [h1, h2] at hp; exact absurd hp id
  | some TF =>
    cases h2 : firedGroups W.P (ctxOf W σ) gs' with
    | none => rw [h1, h2] at hp; exact absurd hp id
    | some TF' =>
      rw [h1, h2] at hp
      have hp' : (TF.map (·.2)).Perm (TF'.map (·.2)) := hp.map _
      simp only
      by_cases hc : Cons σ (TF.map (·.2)) ∧ Exclusive TF
      · have hc' : Cons σ (TF'.map (·.2)) ∧ Exclusive TF' :=
          ⟨(cons_perm hp').1 hc.1, (exclusive_perm hp).1 hc.2⟩
        rw [if_pos hc, if_pos hc', succGet_perm hp' hc.1]
      · have hc' : ¬ (Cons σ (TF'.map (·.2)) ∧ Exclusive TF') := by
          rintro ⟨a, b⟩
          exact hc ⟨(cons_perm hp').2 a, (exclusive_perm hp).2 b⟩
        rw [if_neg hc, if_neg hc']

/-! ### the whole plan -/

theorem eventsAt_perm {E E' : List Sched} (h : E.Perm E') (t : Rat) : (eventsAt E t).Perm (eventsAt E' t) :=
  (h.filter _).map _

theorem timeline_perm {W : World} {E E' : List Sched} (h : E.Perm E') : ∀ (ts : List Rat) (σ : SMap),
    timeline W E σ ts = timeline W E' σ ts
  | [], _ => rfl
  | t :: ts, σ => by
    simp only [timeline]
    rw [instantSucc_perm (eventsAt_perm h t)]
    cases instantSucc W σ (eventsAt E' t) with
    | none => rfl
    | some σ' => simp only; rw [timeline_perm h ts σ']

theorem happenings_perm {E E' : List Sched} (h : E.Perm E') : happenings E = happenings E' := by
  apply strictAsc_ext (strictAsc_happenings _) (strictAsc_happenings _)
  intro t
  rw [mem_happenings, mem_happenings]
  constructor
  · rintro ⟨ev, hev, rfl⟩; exact ⟨ev, h.mem_iff.1 hev, rfl⟩
  · rintro ⟨ev, hev, rfl⟩; exact ⟨ev, h.mem_iff.2 hev, rfl⟩

theorem validFor_perm {W : World} {E E' : List Sched} {C C' : List DCond} {σ0 : SMap}
    (hE : E.Perm E') (hC : C.Perm C') : ValidFor W E C σ0 ↔ ValidFor W E' C' σ0 := by
  unfold ValidFor
  rw [happenings_perm hE]
  constructor
  · rintro ⟨tl, h1, h2, h3⟩
    exact ⟨tl, by rw [← timeline_perm hE]; exact h1, fun dc hdc => h2 dc (hC.mem_iff.2 hdc), h3⟩
  · rintro ⟨tl, h1, h2, h3⟩
    exact ⟨tl, by rw [timeline_perm hE]; exact h1, fun dc hdc => h2 dc (hC.mem_iff.1 hdc), h3⟩

theorem itemsOf_perm {W : World} {T : TProblem} {A B : List (Step × Nat)} (h : A.Perm B) :
    OptPerm (itemsOf W T A) (itemsOf W T B) := by
  unfold itemsOf
  have hp := stepsItems_perm (W := W) h
  cases timedSched T.timedEffs with
  | error e => trivial
  | ok te =>
    cases timedGoalConds T.timedGoals with
    | error e => trivial
    | ok tg =>
      cases h1 : stepsItems W A with
      | none =>
        cases h2 : stepsItems W B with
        | none => trivial
        | some q => rw [h1, h2] at hp; exact hp
      | some p =>
        cases h2 : stepsItems W B with
        | none => rw [h1, h2] at hp; exact hp
        | some q =>
          rw [h1, h2] at hp
          obtain ⟨E, C⟩ := p
          obtain ⟨E', C'⟩ := q
          exact ⟨hp.1.append_left te, hp.2.append_left _⟩

/-- validity does not depend on the order in which the action instances are taken -/
theorem validOf_perm {W : World} {T : TProblem} {A B : List (Step × Nat)} (h : A.Perm B) :
    ValidOf W T A ↔ ValidOf W T B := by
  have hp := itemsOf_perm (W := W) (T := T) h
  unfold ValidOf
  cases h1 : itemsOf W T A with
  | none =>
    cases h2 : itemsOf W T B with
    | none => simp
    | some q => rw [h1, h2] at hp; exact absurd hp id
  | some p =>
    cases h2 : itemsOf W T B with
    | none => rw [h1, h2] at hp; exact absurd hp id
    | some q =>
      rw [h1, h2] at hp
      obtain ⟨E, C⟩ := p
      obtain ⟨E', C'⟩ := q
      constructor
      · rintro ⟨E1, C1, s0, he, hs, hv⟩
        cases he
        exact ⟨E', C', s0, rfl, hs, (validFor_perm hp.1 hp.2).1 hv⟩
      · rintro ⟨E1, C1, s0, he, hs, hv⟩
        cases he
        exact ⟨E, C, s0, rfl, hs, (validFor_perm hp.1 hp.2).2 hv⟩

end UPVerif.TT
