import UPVerif.Lemmas.CompileBTRStep
import UPVerif.Lemmas.CompileQRDen
/-!
BoundedTypesRemover, forall effects: the renaming of the fluent symbols commutes with the substitution of object
constants for variables, hence with `Effect.expand_effect`; the instances of an effect on declared fluents are
effects on declared fluents.
-/
namespace UPVerif.Compile
open UPVerif UPVerif.Expr UPVerif.Sim UPVerif.Spec

theorem isNot_iff {x : Expr} : isNot x = true ↔ ∃ y, x = .app .not [y] := by
  constructor
  · intro h
    unfold isNot at h
    split at h
    · exact ⟨_, rfl⟩
    · cases h
  · rintro ⟨y, rfl⟩; rfl

theorem rn_mkNot (x : Expr) : rn (mkNot x) = mkNot (rn x) := by
  by_cases h : isNot x = true
  · obtain ⟨y, rfl⟩ := isNot_iff.1 h
    simp [mkNot, rn, rnOp, rnList]
  · have h' : isNot x = false := by simpa using h
    have h2 : isNot (rn x) = false := by rw [isNot_rn]; exact h'
    have e1 : mkNot x = .app .not [x] := by
      unfold mkNot
      split
      · rename_i y; simp [isNot] at h'
      · rfl
    have e2 : mkNot (rn x) = .app .not [rn x] := by
      unfold mkNot
      split
      · rename_i y hy; rw [hy] at h2; simp [isNot] at h2
      · rfl
    rw [e1, e2]
    simp [rn, rnOp, rnList]

theorem rn_rebuild (op : Op) (as : List Expr) : rn (rebuild op as) = rebuild (rnOp op) (rnList as) := by
  cases op with
  | and | or | plus | times =>
    match as with
    | [] => rfl
    | [x] => simp [rebuild, rnOp, rnList, mkAnd, mkOr, mkPlus, mkTimes]
    | x :: y :: r => simp [rebuild, rnOp, rnList, mkAnd, mkOr, mkPlus, mkTimes, rn]
  | not =>
    match as with
    | [] => rfl
    | [x] => simp only [rebuild, rnOp, rnList]; exact rn_mkNot x
    | x :: y :: r => rfl
  | _ => rfl

/-- the renaming commutes with the substitution of object constants for variables -/
theorem subst_rn (τ : OSub) :
    (∀ e, subst (osSubst τ) (rn e) = rn (subst (osSubst τ) e)) ∧
    (∀ es, substList (osSubst τ) (rnList es) = rnList (substList (osSubst τ) es)) := by
  have key : ∀ n, (∀ e, e.size ≤ n → ∀ τ : OSub, subst (osSubst τ) (rn e) = rn (subst (osSubst τ) e)) ∧
      (∀ es, Expr.sizeList es ≤ n → ∀ τ : OSub, substList (osSubst τ) (rnList es) = rnList (substList (osSubst τ) es)) := by
    intro n
    induction n with
    | zero =>
      constructor
      · intro e he; cases e <;> simp [Expr.size] at he
      · intro es he τ
        cases es with
        | nil => simp [rnList, substList_nil]
        | cons x xs =>
          simp [Expr.sizeList] at he
          cases x <;> simp [Expr.size] at he
    | succ n ih =>
      have hexpr : ∀ e, e.size ≤ n + 1 → ∀ τ : OSub, subst (osSubst τ) (rn e) = rn (subst (osSubst τ) e) := by
        intro e he τ
        cases e with
        | leaf l =>
          simp only [rn]
          by_cases hl : ∃ x, l = .var x
          · obtain ⟨x, rfl⟩ := hl
            rcases osub_lookup_var x τ with ⟨h1, _⟩ | ⟨nm, ty, h1, _⟩
            · rw [subst_leaf_none _ _ h1]; rfl
            · rw [subst_of_lookup_some _ _ _ h1]; rfl
          · have hne : ∀ x, Expr.leaf l ≠ .leaf (.var x) := by
              intro x e; injection e with e; exact hl ⟨x, e⟩
            rw [subst_leaf_none _ _ (osub_lookup_other _ hne τ)]; rfl
        | app op args =>
          simp only [Expr.size] at he
          simp only [rn]
          rw [subst_app_none _ _ _ (osub_lookup_other _ (by intro x e; cases e) τ),
            subst_app_none _ _ _ (osub_lookup_other _ (by intro x e; cases e) τ),
            ih.2 args (by omega) τ, rn_rebuild]
        | quant q vs b =>
          simp only [Expr.size] at he
          simp only [rn]
          rw [subst_quant_none _ _ _ _ (osub_lookup_other _ (by intro x e; cases e) τ),
            subst_quant_none _ _ _ _ (osub_lookup_other _ (by intro x e; cases e) τ), osub_keptUnder]
          by_cases hemp : (osSubst (osFilter vs τ)).isEmpty = true
          · rw [if_pos hemp, if_pos hemp]; simp only [rn]
          · rw [if_neg hemp, if_neg hemp, ih.1 b (by omega)]; simp only [rn]
      refine ⟨hexpr, ?_⟩
      intro es he τ
      cases es with
      | nil => simp [rnList, substList_nil]
      | cons x xs =>
        simp only [Expr.sizeList] at he
        have hx : 1 ≤ x.size := by cases x <;> simp [Expr.size] <;> omega
        simp only [rnList, substList_cons]
        rw [hexpr x (by omega) τ, ih.2 xs (by omega) τ]
  exact ⟨fun e => (key e.size).1 e (Nat.le_refl _) τ, fun es => (key (Expr.sizeList es)).2 es (Nat.le_refl _) τ⟩

/-- the substitution `expand_effect` builds for one tuple of objects -/
def zipSub (P : Problem) (vs : List Var) (objs : List String) : OSub :=
  (vs.zip objs).map (fun vo => (vo.1, vo.2, (P.objects.lookup vo.2).getD ""))

theorem zipSub_subst (P : Problem) (vs : List Var) (objs : List String) :
    osSubst (zipSub P vs objs) = (vs.zip objs).map (fun vo => (Expr.leaf (.var vo.1), objExpr P vo.2)) := by
  unfold osSubst zipSub
  rw [List.map_map]
  rfl

theorem substE_rn (τ : OSub) (e : Expr) : substE (osSubst τ) (rn e) = rn (substE (osSubst τ) e) := by
  unfold substE
  split
  · rfl
  · exact (subst_rn τ).1 e

/-- `expand_effect` of a renamed effect: the renamed instances -/
theorem expandEffect_rn {Q P : Problem} (ht : Q.types = P.types) (ho : Q.objects = P.objects) (e : Effect) :
    expandEffect Q (rnEff e) = (expandEffect P e).map rnEff := by
  have htd : tyDomain Q = tyDomain P := by
    funext t; cases t <;> simp [Sim.tyDomain, Problem.objectsOf, ht, ho]
  have hoe : objExpr Q = objExpr P := by funext o; simp [Sim.objExpr, ho]
  unfold expandEffect
  have hf : (rnEff e).forall_ = e.forall_ := rfl
  rw [hf]
  split
  · rfl
  · rw [List.map_map, htd, hoe]
    apply List.map_congr_left
    intro objs _
    simp only [Function.comp, rnEff]
    rw [← zipSub_subst, substE_rn, substE_rn, substE_rn]

theorem expandEffs_rn {Q P : Problem} (ht : Q.types = P.types) (ho : Q.objects = P.objects) (E : List Effect) :
    expandEffs Q (E.map rnEff) = (expandEffs P E).map rnEff := by
  unfold expandEffs
  rw [List.flatMap_map, List.map_flatMap]
  congr 1
  funext e
  exact expandEffect_rn ht ho e

/-! ### declared fluents under substitution -/

theorem refsIn_mk {D : List FluentRef} {es : List Expr} (h : refsInList D es = true) :
    refsIn D (mkAnd es) = true ∧ refsIn D (mkOr es) = true ∧ refsIn D (mkPlus es) = true ∧
    refsIn D (mkTimes es) = true := by
  match es, h with
  | [], _ => exact ⟨rfl, rfl, rfl, rfl⟩
  | [x], h =>
    have : refsIn D x = true := by simpa [refsInList] using h
    exact ⟨this, this, this, this⟩
  | x :: y :: r, h => simp [mkAnd, mkOr, mkPlus, mkTimes, refsIn, h]

theorem refsIn_rebuild {D : List FluentRef} {op : Op} {args : List Expr}
    (hop : ∀ f, op = .fluent f → f ∈ D) (h : refsInList D args = true) : refsIn D (rebuild op args) = true := by
  cases op with
  | and => exact (refsIn_mk h).1
  | or => exact (refsIn_mk h).2.1
  | plus => exact (refsIn_mk h).2.2.1
  | times => exact (refsIn_mk h).2.2.2
  | not =>
    match args, h with
    | [], _ => rfl
    | [x], h =>
      have hx : refsIn D x = true := by simpa [refsInList] using h
      show refsIn D (mkNot x) = true
      unfold mkNot
      split
      · rename_i y
        simpa [refsIn, refsInList] using hx
      · simp [refsIn, refsInList, hx]
    | x :: y :: r, h => simpa [rebuild, refsIn] using h
  | fluent f =>
    have := hop f rfl
    simp [rebuild, refsIn, h, this]
  | _ => simp [rebuild, refsIn, h]

theorem refsIn_subst_objs {D : List FluentRef} (τ : OSub) :
    (∀ e, refsIn D e = true → refsIn D (subst (osSubst τ) e) = true) ∧
    (∀ es, refsInList D es = true → refsInList D (substList (osSubst τ) es) = true) := by
  have key : ∀ n, (∀ e, e.size ≤ n → ∀ τ : OSub, refsIn D e = true → refsIn D (subst (osSubst τ) e) = true) ∧
      (∀ es, Expr.sizeList es ≤ n → ∀ τ : OSub, refsInList D es = true →
        refsInList D (substList (osSubst τ) es) = true) := by
    intro n
    induction n with
    | zero =>
      constructor
      · intro e he; cases e <;> simp [Expr.size] at he
      · intro es he τ _
        cases es with
        | nil => rw [substList_nil]; rfl
        | cons x xs =>
          simp [Expr.sizeList] at he
          cases x <;> simp [Expr.size] at he
    | succ n ih =>
      have hexpr : ∀ e, e.size ≤ n + 1 → ∀ τ : OSub, refsIn D e = true → refsIn D (subst (osSubst τ) e) = true := by
        intro e he τ h
        cases e with
        | leaf l =>
          by_cases hl : ∃ x, l = .var x
          · obtain ⟨x, rfl⟩ := hl
            rcases osub_lookup_var x τ with ⟨h1, _⟩ | ⟨nm, ty, h1, _⟩
            · rw [subst_leaf_none _ _ h1]; rfl
            · rw [subst_of_lookup_some _ _ _ h1]; rfl
          · have hne : ∀ x, Expr.leaf l ≠ .leaf (.var x) := by
              intro x e; injection e with e; exact hl ⟨x, e⟩
            rw [subst_leaf_none _ _ (osub_lookup_other _ hne τ)]; rfl
        | app op args =>
          simp only [Expr.size] at he
          simp only [refsIn, Bool.and_eq_true] at h
          rw [subst_app_none _ _ _ (osub_lookup_other _ (by intro x e; cases e) τ)]
          apply refsIn_rebuild
          · intro f hf; subst hf; simpa using h.1
          · exact ih.2 args (by omega) τ h.2
        | quant q vs b =>
          simp only [Expr.size] at he
          simp only [refsIn] at h
          rw [subst_quant_none _ _ _ _ (osub_lookup_other _ (by intro x e; cases e) τ), osub_keptUnder]
          by_cases hemp : (osSubst (osFilter vs τ)).isEmpty = true
          · rw [if_pos hemp]; simp only [refsIn]; exact h
          · rw [if_neg hemp]; simp only [refsIn]
            exact ih.1 b (by omega) _ h
      refine ⟨hexpr, ?_⟩
      intro es he τ h
      cases es with
      | nil => rw [substList_nil]; rfl
      | cons x xs =>
        simp only [Expr.sizeList] at he
        simp only [refsInList, Bool.and_eq_true] at h
        have hx : 1 ≤ x.size := by cases x <;> simp [Expr.size] <;> omega
        rw [substList_cons]
        simp only [refsInList, Bool.and_eq_true]
        exact ⟨hexpr x (by omega) τ h.1, ih.2 xs (by omega) τ h.2⟩
  exact ⟨fun e => (key e.size).1 e (Nat.le_refl _) τ, fun es => (key (Expr.sizeList es)).2 es (Nat.le_refl _) τ⟩

theorem refsIn_substE {D : List FluentRef} (τ : OSub) {e : Expr} (h : refsIn D e = true) :
    refsIn D (substE (osSubst τ) e) = true := by
  unfold substE
  split
  · exact h
  · exact (refsIn_subst_objs τ).1 e h

/-- the instances of an effect on declared fluents are effects on declared fluents -/
theorem effRefsIn_expand {D : List FluentRef} (P : Problem) {E : List Effect} (h : ∀ e ∈ E, effRefsIn D e = true) :
    ∀ x ∈ expandEffs P E, effRefsIn D x = true := by
  intro x hx
  unfold expandEffs at hx
  rw [List.mem_flatMap] at hx
  obtain ⟨e, he, hxe⟩ := hx
  have hr := h e he
  unfold expandEffect at hxe
  split at hxe
  · simp only [List.mem_singleton] at hxe; subst hxe; exact hr
  · rw [List.mem_map] at hxe
    obtain ⟨objs, _, rfl⟩ := hxe
    unfold effRefsIn at hr ⊢
    simp only [Bool.and_eq_true] at hr ⊢
    rw [← zipSub_subst]
    exact ⟨⟨refsIn_substE _ hr.1.1, refsIn_substE _ hr.1.2⟩, refsIn_substE _ hr.2⟩

end UPVerif.Compile
