import UPVerif.Core.Compile.Invariant
import UPVerif.Lemmas.CompileTS
/-!
`StateInvariantsRemover` as a forward simulation up to viability (soundness) and a backward simulation
(completeness): the conjunction of the state invariants is added to every precondition and to the goal, so
every state of a valid compiled plan satisfies it — which is what the original problem's successor
function demands of every successor.
-/
namespace UPVerif.Compile
open UPVerif UPVerif.Expr UPVerif.Sim UPVerif.Spec UPVerif.Simulation

theorem isTrueB_evalBool (c : EvalCtx) (e : Expr) : isTrueB (evalBool c e) = Spec.isTrue (eval c [] e) := by
  unfold evalBool
  cases eval c [] e with
  | error x => rfl
  | ok v => cases v with
    | b x => cases x <;> rfl
    | n q => rfl
    | o s => rfl

theorem preOK_foldl_addPre (c : EvalCtx) : ∀ (l acc : List Expr),
    preOK c (l.foldl addPre acc) = (preOK c acc && preOK c l)
  | [], acc => by simp [preOK]
  | e :: es, acc => by
    rw [List.foldl_cons, preOK_foldl_addPre c es, preOK_addPre, preOK_cons, Bool.and_assoc]

theorem preOK_splitAnd (c : EvalCtx) (e : Expr) : preOK c (splitAnd e) = Spec.isTrue (eval c [] e) := by
  unfold splitAnd
  split
  · rw [eval_and_true]; rfl
  · simp [preOK]

theorem all_foldl_addGoal (f : Expr → Bool) (hf : f Expr.tt = true) : ∀ (l acc : List Expr),
    (l.foldl addGoal acc).all f = (acc.all f && l.all f)
  | [], acc => by simp
  | e :: es, acc => by
    rw [List.foldl_cons, all_foldl_addGoal f hf es]
    unfold addGoal
    split
    · rename_i h; rw [h, List.all_cons, hf, Bool.true_and]
    · rw [List.all_append, List.all_cons, List.all_cons, List.all_nil, Bool.and_true, Bool.and_assoc]

theorem all_congr_mem {α : Type} {f h : α → Bool} : ∀ {l : List α}, (∀ x ∈ l, f x = h x) → l.all f = l.all h
  | [], _ => rfl
  | x :: xs, hx => by
    rw [List.all_cons, List.all_cons, hx x (List.mem_cons_self ..),
        all_congr_mem (fun y hy => hx y (List.mem_cons_of_mem _ hy))]

/-- the `Always` bodies of the problem hold in the state -/
def invA (W : World) (g : St) : Bool := preOK (ctxOf W g) (stateInvariants W.P)

/-- hypotheses of the StateInvariantsRemover theorems on the problem -/
structure SirOK (simp : Expr → Expr) (W : World) (c : Compiled) : Prop where
  /-- the compile-time simplifier and the simulator's simplifier preserve evaluation -/
  simp : SimpExact simp
  wsimp : SimpExact W.simp
  /-- the state invariants contain no quantifier to expand (syntactic: `ExpressionQuantifiersRemover` is the
      identity on them) -/
  rq : ∀ si ∈ stateInvariants W.P, removeQuantifiers W.P si = si
  /-- effects are well-formed (`Effect.__init__` rebuilds them unchanged) -/
  effs : ∀ a ∈ W.P.actions, ∀ e ∈ a.effs, applyFnEffect id e = some e
  /-- no `Always` constraint is left in the compiled problem -/
  noAlways : stateInvariants c.prob = []

/-- the bounded-type part of the invariants -/
def boundInvs (P : Problem) : List Expr :=
  P.fluents.flatMap (fun d =>
    let (lb, ub) := boundsOf d.ref.ty
    (match lb with
      | some l => (allFluentExps P d.ref).map (fun fe => mkLE l fe)
      | none => []) ++
    (match ub with
      | some u => (allFluentExps P d.ref).map (fun fe => mkLE fe u)
      | none => []))

def invB (W : World) (c : EvalCtx) : Bool := (boundInvs W.P).all (fun si => isTrueB (evalBool c si))

theorem invOK_split {W : World} (hw : SimpExact W.simp) (hrq : ∀ si ∈ stateInvariants W.P, removeQuantifiers W.P si = si)
    (g : St) : invOK W (ctxOf W g) = (invA W g && invB W (ctxOf W g)) := by
  unfold invOK invariants invA invB boundInvs preOK
  rw [List.all_append, List.all_map]
  congr 1
  apply all_congr_mem
  intro si hsi
  simp only [Function.comp]
  rw [isTrueB_evalBool, hw, hrq si hsi]

/-- in the compiled problem only the bounded types are left as invariants -/
theorem invOK_compiled {W : World} {Q : Problem} (hsig : SameSig Q W.P) (hna : stateInvariants Q = []) (g : St) :
    invOK (withProblem W Q) (ctxOf (withProblem W Q) g) = invB W (ctxOf W g) := by
  rw [hsig.ctxOf W rfl]
  unfold invOK invariants invB boundInvs
  have : (withProblem W Q).P = Q := rfl
  rw [this, hna, hsig.fluents]
  simp only [List.map_nil, List.nil_append]
  congr 2
  funext d
  rw [hsig.allFluentExps]
  rfl

theorem succOf_iff {W : World} {g g' : St} {pre : List Expr} {E : List Effect} :
    succOf W g pre E = some g' ↔ (preOK (ctxOf W g) pre = true ∧ ∃ F, fired (ctxOf W g) E = some F ∧ Cons g F ∧
      invOK W (ctxOf W (succGet g F)) = true ∧ g' = succGet g F) := by
  constructor
  · intro h; exact ⟨succOf_some_pre h, succOf_some_fired h⟩
  · rintro ⟨hp, F, hF, hc, hi, rfl⟩; exact succOf_intro hp hF hc hi

/-- unpacking the per-action part of the helper -/
theorem invAction_some {simp : Expr → Expr} {cond : Expr} {a a' : Action}
    (heff : ∀ e ∈ a.effs, applyFnEffect id e = some e) (h : invAction simp id cond a = some (some a')) :
    (simp (mkAnd (a.pre.map id ++ [cond]))).isFalse = false ∧
    a' = { a with pre := (splitAnd (simp (mkAnd (a.pre.map id ++ [cond])))).foldl addPre [] } := by
  unfold invAction at h
  dsimp only at h
  split at h
  · cases h
  · rename_i hf
    have hm : a.effs.mapM (applyFnEffect id) = some a.effs := by
      have : ∀ l : List Effect, (∀ e ∈ l, applyFnEffect id e = some e) → l.mapM (applyFnEffect id) = some l := by
        intro l
        induction l with
        | nil => intro _; rfl
        | cons x xs ih =>
          intro hl
          rw [List.mapM_cons, hl x (List.mem_cons_self ..), ih (fun e he => hl e (List.mem_cons_of_mem _ he))]
          rfl
      exact this a.effs heff
    rw [hm] at h
    simp only [Option.some.injEq] at h
    exact ⟨by simpa using hf, h.symm⟩

theorem invAction_pre {simp : Expr → Expr} (hs : SimpExact simp) (c : EvalCtx) (cond : Expr) (pre : List Expr) :
    preOK c ((splitAnd (simp (mkAnd (pre.map id ++ [cond])))).foldl addPre []) =
      (preOK c pre && Spec.isTrue (eval c [] cond)) := by
  rw [preOK_foldl_addPre, preOK_splitAnd, hs, isTrue_mkAnd, preOK_append, List.map_id]
  simp [preOK]

theorem isFalse_not_true {c : EvalCtx} {e : Expr} (h : e.isFalse = true) : Spec.isTrue (eval c [] e) = false := by
  cases e with
  | leaf l =>
    cases l with
    | boolC b => cases b with
      | false => rfl
      | true => simp [Expr.isFalse] at h
    | _ => simp [Expr.isFalse] at h
  | app op as => simp [Expr.isFalse] at h
  | quant q vs b => simp [Expr.isFalse] at h

/-- the condition `And(state_invariants).simplify()` is TRUE exactly in the states satisfying the invariants -/
theorem sir_cond_true {simp : Expr → Expr} (hs : SimpExact simp) (W : World) (g : St) :
    Spec.isTrue (eval (ctxOf W g) [] (simp (mkAnd (stateInvariants W.P)))) = invA W g := by
  rw [hs, isTrue_mkAnd]; rfl

/-- what `sirCompile` returns -/
theorem sirCompile_some {simp : Expr → Expr} {P : Problem} {c : Compiled} (h : sirCompile simp P = some c) :
    SameSig c.prob P ∧ c.prob.init = P.init ∧
    c.prob.goals = invGoals simp id (simp (mkAnd (stateInvariants P))) P.goals ∧
    (∀ (i : Nat) (a' : Action), c.prob.actions[i]? = some a' → ∃ (j : Nat) (a : Action), backOf c i = some j ∧
        P.actions[j]? = some a ∧ invAction simp id (simp (mkAnd (stateInvariants P))) a = some (some a')) ∧
    (∀ (j : Nat) (a a' : Action), P.actions[j]? = some a →
        invAction simp id (simp (mkAnd (stateInvariants P))) a = some (some a') →
        ∃ i : Nat, c.prob.actions[i]? = some a' ∧ backOf c i = some j) := by
  unfold sirCompile at h
  dsimp only at h
  split at h
  · cases h
  rename_i acts goals traj hadd
  cases h
  unfold addInvariantCondition at hadd
  dsimp only at hadd
  split at hadd
  · cases hadd
  simp only [Option.some.injEq, Prod.mk.injEq] at hadd
  obtain ⟨hacts, hgoals, _⟩ := hadd
  refine ⟨⟨rfl, rfl, rfl⟩, rfl, hgoals.symm, ?_, ?_⟩
  · intro i a' hi
    dsimp only at hi
    obtain ⟨b, hb, hback⟩ := getElem?_pairs hi
    have hmem := List.mem_of_getElem? hb
    rw [← hacts, List.mem_filterMap] at hmem
    obtain ⟨⟨r, j⟩, hrj, hr⟩ := hmem
    rw [List.mem_filterMap] at hrj
    obtain ⟨⟨j', a⟩, hja, hinv⟩ := hrj
    cases r with
    | none => simp at hr
    | some ar =>
      simp only [Option.map_some, Option.some.injEq, Prod.mk.injEq] at hr
      cases hia : invAction simp id (simp (mkAnd (stateInvariants P))) a with
      | none => rw [hia] at hinv; simp at hinv
      | some r' =>
        rw [hia] at hinv
        simp only [Option.map_some, Option.some.injEq, Prod.mk.injEq] at hinv
        refine ⟨j', a, ?_, mem_zip_range0 _ _ _ hja, ?_⟩
        · unfold backOf; dsimp only; rw [hback, ← hr.2, hinv.2]
        · rw [hia, hinv.1, hr.1]
  · intro j a a' hj hinv
    have hz := zip_range_mem0 _ _ _ hj
    have : (a', some j) ∈ acts := by
      rw [← hacts, List.mem_filterMap]
      refine ⟨(some a', j), ?_, rfl⟩
      rw [List.mem_filterMap]
      exact ⟨(j, a), hz, by rw [hinv]; rfl⟩
    obtain ⟨i, h1, h2⟩ := pairs_of_mem this
    exact ⟨i, h1, h2⟩

/-- the compiled goal test: original goals and invariants -/
theorem sir_goal {simp : Expr → Expr} (hs : SimpExact simp) (W : World) {Q : Problem} (hsig : SameSig Q W.P)
    (hg : Q.goals = invGoals simp id (simp (mkAnd (stateInvariants W.P))) W.P.goals) (g : St) :
    goalOK (withProblem W Q) g = (goalOK W g && invA W g) := by
  unfold goalOK
  have : (withProblem W Q).P = Q := rfl
  rw [this, hg]
  unfold invGoals
  have hf : holdsG (withProblem W Q) g Expr.tt = true := rfl
  rw [all_foldl_addGoal _ hf, List.all_nil, Bool.true_and]
  have e1 : ∀ e, holdsG (withProblem W Q) g e = Spec.isTrue (eval (ctxOf W g) [] e) := by
    intro e; unfold holdsG; rw [isTrueB_evalBool, hsig.ctxOf W rfl]
  have e2 : ∀ e, holdsG W g e = Spec.isTrue (eval (ctxOf W g) [] e) := by
    intro e; unfold holdsG; rw [isTrueB_evalBool]
  rw [List.all_congr rfl e1]
  have e3 : W.P.goals.all (holdsG W g) = preOK (ctxOf W g) W.P.goals := by
    unfold preOK; exact all_congr_mem (fun e _ => e2 e)
  rw [e3]
  have := preOK_splitAnd (ctxOf W g) (simp (mkAnd (W.P.goals.map id ++ [simp (mkAnd (stateInvariants W.P))])))
  unfold preOK at this
  rw [this, hs, isTrue_mkAnd, preOK_append, List.map_id, ← sir_cond_true hs]
  simp [preOK]

/-- one compiled step: the original preconditions plus the invariants in the PRE-state, the original effects,
    only the bounded types checked in the successor -/
theorem sir_step_iff {simp : Expr → Expr} (hs : SimpExact simp) (W : World) {Q : Problem} (hsig : SameSig Q W.P)
    (hna : stateInvariants Q = []) {a a' : Action} (heff : ∀ e ∈ a.effs, applyFnEffect id e = some e)
    (hinv : invAction simp id (simp (mkAnd (stateInvariants W.P))) a = some (some a')) (g g' : St) :
    stepAct (withProblem W Q) g a' = some g' ↔
      (a.params.isEmpty = true ∧ preOK (ctxOf W g) a.pre = true ∧ invA W g = true ∧
        ∃ F, fired (ctxOf W g) (expandEffs W.P a.effs) = some F ∧ Cons g F ∧
          invB W (ctxOf W (succGet g F)) = true ∧ g' = succGet g F) := by
  obtain ⟨_, rfl⟩ := invAction_some heff hinv
  unfold stepAct
  dsimp only
  have hQ : (withProblem W Q).P = Q := rfl
  by_cases hp : a.params.isEmpty = true
  · simp only [hp, if_true, true_and]
    rw [succOf_iff, hsig.ctxOf W rfl, invAction_pre hs, hQ, hsig.expandEffs, Bool.and_eq_true, sir_cond_true hs]
    constructor
    · rintro ⟨⟨h1, h2⟩, F, hF, hc, hi, rfl⟩
      rw [invOK_compiled hsig hna] at hi
      exact ⟨h1, h2, F, hF, hc, hi, rfl⟩
    · rintro ⟨h1, h2, F, hF, hc, hi, rfl⟩
      refine ⟨⟨h1, h2⟩, F, hF, hc, ?_, rfl⟩
      rw [invOK_compiled hsig hna]; exact hi
  · simp [hp]

/-- one original step -/
theorem orig_step_iff {W : World} (hw : SimpExact W.simp)
    (hrq : ∀ si ∈ stateInvariants W.P, removeQuantifiers W.P si = si) (a : Action) (g g' : St) :
    stepAct W g a = some g' ↔
      (a.params.isEmpty = true ∧ preOK (ctxOf W g) a.pre = true ∧
        ∃ F, fired (ctxOf W g) (expandEffs W.P a.effs) = some F ∧ Cons g F ∧
          invA W (succGet g F) = true ∧ invB W (ctxOf W (succGet g F)) = true ∧ g' = succGet g F) := by
  unfold stepAct
  by_cases hp : a.params.isEmpty = true
  · simp only [hp, if_true, true_and]
    rw [succOf_iff]
    constructor
    · rintro ⟨h1, F, hF, hc, hi, rfl⟩
      rw [invOK_split hw hrq, Bool.and_eq_true] at hi
      exact ⟨h1, F, hF, hc, hi.1, hi.2, rfl⟩
    · rintro ⟨h1, F, hF, hc, hi1, hi2, rfl⟩
      refine ⟨h1, F, hF, hc, ?_, rfl⟩
      rw [invOK_split hw hrq, hi1, hi2]; rfl
  · simp [hp]

theorem initOf_eq {W : World} {g : St} (h : initOf W = some g) :
    ∃ s0, initialState? W.P = some s0 ∧ g = s0.get W.P ∧ invOK W (ctxOf W g) = true := by
  unfold initOf at h
  split at h
  · cases h
  · rename_i s0 hs0
    dsimp only at h
    split at h
    · rename_i hi
      cases h
      exact ⟨s0, hs0, rfl, hi⟩
    · cases h

/-- StateInvariantsRemover is a FORWARD simulation up to viability (= the invariants hold): soundness -/
theorem sir_fwd {simp : Expr → Expr} (W : World) {c : Compiled} (hc : sirCompile simp W.P = some c)
    (hok : SirOK simp W c) :
    Fwd (tsOf W) (tsOf (withProblem W c.prob)) (backOf c) (fun gB gA => gB = gA) (fun g => invA W g = true) := by
  obtain ⟨hsig, hinit, hgoals, hfw, _⟩ := sirCompile_some hc
  have hQ : (withProblem W c.prob).P = c.prob := rfl
  refine ⟨?_, ?_, ?_, ?_, ?_, ?_⟩
  · intro sB hB hV
    refine ⟨sB, ?_, rfl⟩
    obtain ⟨s0, hs0, hg, hi⟩ := initOf_eq hB
    rw [invOK_compiled hsig hok.noAlways] at hi
    have e1 : initialState? W.P = some s0 := by
      unfold initialState? at hs0 ⊢
      rw [hQ, hinit] at hs0; exact hs0
    have e2 : s0.get c.prob = s0.get W.P := by
      funext k; unfold SimState.get; rw [defaultOf_congr hsig.fluents]
    rw [hQ, e2] at hg
    show initOf W = some sB
    unfold initOf
    rw [e1]
    dsimp only
    rw [← hg, invOK_split hok.wsimp hok.rq, hV, hi]
    rfl
  · intro sB hg
    have : goalOK (withProblem W c.prob) sB = true := hg
    rw [sir_goal hok.simp W hsig hgoals, Bool.and_eq_true] at this
    exact this.2
  · intro sB b sB' hstep
    obtain ⟨a', ha', hst⟩ := tsOf_step hstep
    obtain ⟨j, a, _, hao, hinv⟩ := hfw b a' ha'
    exact ((sir_step_iff hok.simp W hsig hok.noAlways (hok.effs a (List.mem_of_getElem? hao)) hinv sB sB').1 hst).2.2.1
  · intro sB sA b sB' ao hR hstep hV hb
    subst hR
    obtain ⟨a', ha', hst⟩ := tsOf_step hstep
    obtain ⟨j, a, hbj, hao, hinv⟩ := hfw b a' ha'
    rw [hb] at hbj; cases hbj
    obtain ⟨h1, h2, _, F, hF, hcons, hib, rfl⟩ :=
      (sir_step_iff hok.simp W hsig hok.noAlways (hok.effs a (List.mem_of_getElem? hao)) hinv sB sB').1 hst
    refine ⟨_, ?_, rfl⟩
    rw [tsOf_step_intro hao]
    exact (orig_step_iff hok.wsimp hok.rq a sB _).2 ⟨h1, h2, F, hF, hcons, hV, hib, rfl⟩
  · intro sB sA b sB' hR hstep _ hb
    obtain ⟨a', ha', _⟩ := tsOf_step hstep
    obtain ⟨j, a, hbj, _⟩ := hfw b a' ha'
    rw [hb] at hbj; cases hbj
  · intro sB sA hR hg
    subst hR
    have : goalOK (withProblem W c.prob) sB = true := hg
    rw [sir_goal hok.simp W hsig hgoals, Bool.and_eq_true] at this
    exact this.1

/-- StateInvariantsRemover is a BACKWARD simulation: completeness with the same plan length -/
theorem sir_bwd {simp : Expr → Expr} (W : World) {c : Compiled} (hc : sirCompile simp W.P = some c)
    (hok : SirOK simp W c) :
    Bwd (tsOf W) (tsOf (withProblem W c.prob)) (backOf c) (fun gB gA => gB = gA ∧ invA W gA = true) 0 := by
  obtain ⟨hsig, hinit, hgoals, _, hbw⟩ := sirCompile_some hc
  have hQ : (withProblem W c.prob).P = c.prob := rfl
  refine ⟨?_, ?_, ?_⟩
  · intro sA hA
    obtain ⟨s0, hs0, hg, hi⟩ := initOf_eq hA
    rw [invOK_split hok.wsimp hok.rq, Bool.and_eq_true] at hi
    refine ⟨sA, ?_, rfl, hi.1⟩
    show initOf (withProblem W c.prob) = some sA
    have e1 : initialState? (withProblem W c.prob).P = some s0 := by
      unfold initialState? at hs0 ⊢
      rw [hQ, hinit]; exact hs0
    have e2 : s0.get c.prob = s0.get W.P := by
      funext k; unfold SimState.get; rw [defaultOf_congr hsig.fluents]
    unfold initOf
    rw [e1]
    dsimp only
    rw [hQ, e2, ← hg, invOK_compiled hsig hok.noAlways, hi.2]
    rfl
  · intro sB sA j sA' hR hstep
    obtain ⟨rfl, hV⟩ := hR
    obtain ⟨a, ha, hst⟩ := tsOf_step hstep
    have hmem := List.mem_of_getElem? ha
    obtain ⟨h1, h2, F, hF, hcons, hia, hib, rfl⟩ := (orig_step_iff hok.wsimp hok.rq a sB sA').1 hst
    -- the action is not dropped: its compiled condition is true here
    have hpre := invAction_pre hok.simp (ctxOf W sB) (simp (mkAnd (stateInvariants W.P))) a.pre
    rw [h2, sir_cond_true hok.simp, hV] at hpre
    cases hinv : invAction simp id (simp (mkAnd (stateInvariants W.P))) a with
    | none =>
      exfalso
      unfold invAction at hinv
      dsimp only at hinv
      split at hinv
      · rename_i hf
        have := isFalse_not_true (c := ctxOf W sB) hf
        have h3 := invAction_pre hok.simp (ctxOf W sB) (simp (mkAnd (stateInvariants W.P))) a.pre
        rw [preOK_foldl_addPre, preOK_splitAnd, this] at h3
        rw [h2, sir_cond_true hok.simp, hV] at h3
        simp [preOK] at h3
      · split at hinv <;> cases hinv
    | some r =>
      cases r with
      | none =>
        exfalso
        unfold invAction at hinv
        dsimp only at hinv
        split at hinv
        · cases hinv
        · have hm : a.effs.mapM (applyFnEffect id) = some a.effs := by
            have : ∀ l : List Effect, (∀ e ∈ l, applyFnEffect id e = some e) → l.mapM (applyFnEffect id) = some l := by
              intro l
              induction l with
              | nil => intro _; rfl
              | cons x xs ih =>
                intro hl
                rw [List.mapM_cons, hl x (List.mem_cons_self ..), ih (fun e he => hl e (List.mem_cons_of_mem _ he))]
                rfl
            exact this a.effs (hok.effs a hmem)
          rw [hm] at hinv
          cases hinv
      | some a' =>
        obtain ⟨i, hi, hbi⟩ := hbw j a a' ha hinv
        refine ⟨i, _, hbi, ?_, rfl, hia⟩
        rw [tsOf_step_intro hi]
        exact (sir_step_iff hok.simp W hsig hok.noAlways (hok.effs a hmem) hinv sB _).2
          ⟨h1, h2, hV, F, hF, hcons, hib, rfl⟩
  · intro sB sA hR hg
    obtain ⟨rfl, hV⟩ := hR
    refine ⟨[], sB, Nat.le_refl _, rfl, rfl, ?_⟩
    show goalOK (withProblem W c.prob) sB = true
    have hg' : goalOK W sB = true := hg
    rw [sir_goal hok.simp W hsig hgoals, hg', hV]
    rfl

end UPVerif.Compile
