import UPVerif.Core.TT
import UPVerif.Spec.Temporal
/-!
Helper lemmas for `Props/C05.lean`: the happening times (`Spec.Temporal.happenings`) are the strictly
ascending list of the distinct event times, and such a list is unique.
-/
namespace UPVerif.TT
open UPVerif UPVerif.Sim UPVerif.Spec.Temporal

def StrictAsc (l : List Rat) : Prop := l.Pairwise (· < ·)

theorem mem_insertTime {t x : Rat} : ∀ {l : List Rat}, x ∈ insertTime t l ↔ x = t ∨ x ∈ l
  | [] => by simp [insertTime]
  | y :: ys => by
    simp only [insertTime]
    split
    · simp
    · split
      · rename_i h; subst h; simp
      · simp only [List.mem_cons, mem_insertTime (l := ys)]
        constructor
        · rintro (h | h | h)
          · exact Or.inr (Or.inl h)
          · exact Or.inl h
          · exact Or.inr (Or.inr h)
        · rintro (h | h | h)
          · exact Or.inr (Or.inl h)
          · exact Or.inl h
          · exact Or.inr (Or.inr h)

theorem strictAsc_insertTime {t : Rat} : ∀ {l : List Rat}, StrictAsc l → StrictAsc (insertTime t l)
  | [], _ => by simp [insertTime, StrictAsc]
  | y :: ys, h => by
    unfold StrictAsc at h ⊢
    simp only [insertTime]
    rw [List.pairwise_cons] at h
    split
    · rename_i hty
      rw [List.pairwise_cons]
      refine ⟨?_, List.pairwise_cons.2 h⟩
      intro a ha
      simp only [List.mem_cons] at ha
      rcases ha with rfl | ha
      · exact hty
      · have := h.1 a ha; grind
    · split
      · exact List.pairwise_cons.2 h
      · rename_i h1 h2
        rw [List.pairwise_cons]
        refine ⟨?_, strictAsc_insertTime h.2⟩
        intro a ha
        rw [mem_insertTime] at ha
        rcases ha with rfl | ha
        · grind
        · exact h.1 a ha

theorem mem_happenings {E : List Sched} {t : Rat} : t ∈ happenings E ↔ ∃ ev ∈ E, ev.time = t := by
  induction E with
  | nil => simp [happenings]
  | cons x xs ih =>
    have : happenings (x :: xs) = insertTime x.time (happenings xs) := rfl
    rw [this, mem_insertTime, ih]
    constructor
    · rintro (h | ⟨ev, hev, h⟩)
      · exact ⟨x, by simp, h.symm⟩
      · exact ⟨ev, by simp [hev], h⟩
    · rintro ⟨ev, hev, h⟩
      simp only [List.mem_cons] at hev
      rcases hev with rfl | hev
      · exact Or.inl h.symm
      · exact Or.inr ⟨ev, hev, h⟩

theorem strictAsc_happenings (E : List Sched) : StrictAsc (happenings E) := by
  induction E with
  | nil => simp [happenings, StrictAsc]
  | cons x xs ih => exact strictAsc_insertTime ih

/-- a strictly ascending list is determined by its elements -/
theorem strictAsc_ext : ∀ {l m : List Rat}, StrictAsc l → StrictAsc m → (∀ x, x ∈ l ↔ x ∈ m) → l = m
  | [], [], _, _, _ => rfl
  | [], y :: ys, _, _, h => by have := (h y).2 (by simp); cases this
  | x :: xs, [], _, _, h => by have := (h x).1 (by simp); cases this
  | x :: xs, y :: ys, hl, hm, h => by
    unfold StrictAsc at hl hm
    rw [List.pairwise_cons] at hl hm
    have hxy : x = y := by
      have h1 := (h x).1 (by simp)
      have h2 := (h y).2 (by simp)
      simp only [List.mem_cons] at h1 h2
      rcases h1 with h1 | h1
      · exact h1
      · rcases h2 with h2 | h2
        · exact h2.symm
        · have a := hm.1 x h1
          have b := hl.1 y h2
          grind
    subst hxy
    congr 1
    apply strictAsc_ext hl.2 hm.2
    intro z
    constructor
    · intro hz
      have := (h z).1 (by simp [hz])
      simp only [List.mem_cons] at this
      rcases this with rfl | this
      · have := hl.1 z hz; grind
      · exact this
    · intro hz
      have := (h z).2 (by simp [hz])
      simp only [List.mem_cons] at this
      rcases this with rfl | this
      · have := hm.1 z hz; grind
      · exact this

end UPVerif.TT
