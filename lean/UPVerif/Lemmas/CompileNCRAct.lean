import UPVerif.Lemmas.CompileNCRStep
/-!
NegativeConditionsRemover, one action: the decidable hypothesis that NO GROUND INSTANCE OF A FLUENT WITH A COMPLEMENTARY
FLUENT IS ASSIGNED TWICE WITH POSSIBLY DIFFERENT VALUES (`noDoubleB`, on the expanded effects), what it gives on the
fired effects (`firedOK_of`), and the step lemma (`ncr_step`).
-/
namespace UPVerif.Compile
open UPVerif UPVerif.Expr UPVerif.Sim UPVerif.Spec

/-- the ground fluent a target denotes in every state: its arguments are constants -/
def constKey? : Expr → Option GKey
  | .app (.fluent f) as => (mapOpt constVal? as).map (fun vs => (f, vs))
  | _ => none

/-- two (expanded) effects never assign different values to one ground instance of a fluent that has a complementary
    fluent: they write different fluents, or a fluent without complementary fluent, or their targets are ground and
    differ, or they assign the same value expression -/
def pairOK (M : NMap) (a b : Effect) : Bool :=
  match a.fluent, b.fluent with
  | .app (.fluent f) _, .app (.fluent g) _ =>
    if f = g ∧ (M.lookup f).isSome = true then
      (match constKey? a.fluent, constKey? b.fluent with
       | some k1, some k2 => decide (k1 ≠ k2)
       | _, _ => false) || decide (a.value = b.value)
    else true
  | _, _ => true

/-- `pairOK` for every pair of the list -/
def noDoubleB (M : NMap) : List Effect → Bool
  | [] => true
  | e :: es => es.all (pairOK M e) && noDoubleB M es

theorem ev_const {c : EvalCtx} {ρ : VEnv} {a : Expr} {v : Val} (h : constVal? a = some v) : ev c ρ a = some v := by
  unfold constVal? at h
  split at h <;> first | (cases h; rfl) | cases h

theorem evL_const {c : EvalCtx} {ρ : VEnv} : ∀ {as : List Expr} {vs : List Val}, mapOpt constVal? as = some vs →
    evL c ρ as = some vs
  | [], vs, h => by simp [mapOpt] at h; subst h; rfl
  | a :: as, vs, h => by
    obtain ⟨v, vs', hv, hvs, rfl⟩ := mapOpt_cons h
    rw [evL_cons, ev_const hv, evL_const hvs]

/-- a ground target denotes its key -/
theorem constKey_eval {c : EvalCtx} {f : FluentRef} {args : List Expr} {k1 : GKey} {vs : List Val}
    (h : constKey? (.app (.fluent f) args) = some k1) (he : evL c [] args = some vs) : k1 = (f, vs) := by
  simp only [constKey?] at h
  cases hm : mapOpt constVal? args with
  | none => rw [hm] at h; cases h
  | some ws =>
    rw [hm] at h
    simp only [Option.map_some, Option.some.injEq] at h
    rw [evL_const hm] at he
    injection he with he
    rw [← h, he]

/-- two effects that both fire a Boolean assignment to one ground fluent with a complementary fluent assign the same value -/
theorem pairOK_same {M : NMap} {c : EvalCtx} {a b : Effect} (hp : pairOK M a b = true) {k : GKey} {nf : FluentRef}
    (hl : M.lookup k.1 = some nf) {b1 b2 : Bool} (ha : effO c a = some (some (.setB k b1)))
    (hb : effO c b = some (some (.setB k b2))) : b1 = b2 := by
  obtain ⟨fl1, v1, c1, kd1, fa1⟩ := a
  obtain ⟨fl2, v2, c2, kd2, fa2⟩ := b
  obtain ⟨f1, args1, hfl1, _⟩ := effO_key ha
  obtain ⟨f2, args2, hfl2, _⟩ := effO_key hb
  simp only at hfl1 hfl2
  subst hfl1; subst hfl2
  obtain ⟨hk1, he1, hv1⟩ := effO_setB ha
  obtain ⟨hk2, he2, hv2⟩ := effO_setB hb
  unfold pairOK at hp
  dsimp only at hp
  have hff : f1 = f2 ∧ (M.lookup f1).isSome = true := by
    refine ⟨by rw [← hk1, ← hk2], ?_⟩
    rw [← hk1, hl]; rfl
  rw [if_pos hff] at hp
  simp only [Bool.or_eq_true, decide_eq_true_eq] at hp
  rcases hp with hp | hp
  · cases hc1 : constKey? (.app (.fluent f1) args1) with
    | none => rw [hc1] at hp; simp at hp
    | some k1 =>
      cases hc2 : constKey? (.app (.fluent f2) args2) with
      | none => rw [hc1, hc2] at hp; simp at hp
      | some k2 =>
        rw [hc1, hc2] at hp
        simp only [decide_eq_true_eq] at hp
        have e1 := constKey_eval hc1 he1
        have e2 := constKey_eval hc2 he2
        exfalso
        apply hp
        rw [e1, e2, ← hk1, ← hk2]
  · subst hp
    rw [hv1] at hv2
    injection hv2 with hv2
    injection hv2 with hv2

theorem ncr_mem_asgB {F : List Fired} {k : GKey} {b : Bool} (h : b ∈ asgB F k) : .setB k b ∈ F := by
  unfold asgB at h
  obtain ⟨x, hx, hsel⟩ := List.mem_filterMap.1 h
  cases x with
  | setB k' b' =>
    simp only [selB] at hsel
    by_cases hk : k' = k
    · subst hk; simp at hsel; subst hsel; exact hx
    · simp [hk] at hsel
  | setV k' v => cases hsel
  | delta k' d => cases hsel

/-- `noDoubleB` on the effects gives `FiredOK.noDouble` on what fires, in every state -/
theorem noDouble_of {M : NMap} {c : EvalCtx} : ∀ {E : List Effect} {F : List Fired}, noDoubleB M E = true → fired c E = some F →
    ∀ f nf vs, M.lookup f = some nf → ∀ b1 ∈ asgB F (f, vs), ∀ b2 ∈ asgB F (f, vs), b1 = b2
  | [], F, _, hF => by
    simp [fired_nil] at hF; subst hF
    intro f nf vs _ b1 h1; simp [asgB] at h1
  | e :: E, F, hnd, hF => by
    simp only [noDoubleB, Bool.and_eq_true, List.all_eq_true] at hnd
    obtain ⟨hpe, hndE⟩ := hnd
    rw [fired_cons_effO] at hF
    intro f nf vs hl b1 h1 b2 h2
    have hm1 := ncr_mem_asgB h1
    have hm2 := ncr_mem_asgB h2
    cases heo : effO c e with
    | none => rw [heo] at hF; simp at hF
    | some o =>
      cases hFE : fired c E with
      | none => rw [heo, hFE] at hF; cases o <;> simp at hF
      | some F' =>
        rw [heo, hFE] at hF
        have ih := noDouble_of hndE hFE f nf vs hl
        cases o with
        | none =>
          simp only [Option.some.injEq] at hF
          subst hF
          exact ih b1 h1 b2 h2
        | some x =>
          simp only [Option.some.injEq] at hF
          subst hF
          -- where do the two assignments come from?
          have key : ∀ {ba bb : Bool}, Fired.setB (f, vs) ba = x → Fired.setB (f, vs) bb ∈ F' → ba = bb := by
            intro ba bb hx hy
            obtain ⟨e', he', hxe'⟩ := ncr_fired_mem hFE hy
            subst hx
            exact pairOK_same (hpe e' he') (k := (f, vs)) hl heo hxe'
          rcases List.mem_cons.1 hm1 with hm1 | hm1 <;> rcases List.mem_cons.1 hm2 with hm2 | hm2
          · rw [← hm1] at hm2; injection hm2 with _ hb; exact hb.symm
          · exact key hm1 hm2
          · exact (key hm2 hm1).symm
          · -- both from the tail
            have hb1 : b1 ∈ asgB F' (f, vs) := by
              unfold asgB; exact List.mem_filterMap.2 ⟨_, hm1, by simp [selB]⟩
            have hb2 : b2 ∈ asgB F' (f, vs) := by
              unfold asgB; exact List.mem_filterMap.2 ⟨_, hm2, by simp [selB]⟩
            exact ih b1 hb1 b2 hb2

/-- the hypotheses on the effects give `FiredOK` on what fires in any state -/
theorem firedOK_of {simp : Expr → Expr} {P : Problem} {M : NMap} (hM : MapOK M) {c : EvalCtx} {effs : List Effect}
    (hok : ∀ e ∈ effs, ncrEffOK simp P M e = true) (hnd : noDoubleB M (effs.flatMap (expandEffect P)) = true)
    {F : List Fired} (hF : fired c (effs.flatMap (expandEffect P)) = some F) : FiredOK M F := by
  -- every fired effect comes from an instance of an effect of the list
  have src : ∀ x ∈ F, ∃ e ∈ effs, ∃ inst ∈ expandEffect P e, effO c inst = some (some x) := by
    intro x hx
    obtain ⟨inst, hinst, hxe⟩ := ncr_fired_mem hF hx
    obtain ⟨e, he, hie⟩ := List.mem_flatMap.1 hinst
    exact ⟨e, he, inst, hie, hxe⟩
  refine ⟨?_, ?_, noDouble_of hnd hF⟩
  · intro x hx
    obtain ⟨e, he, inst, hie, hxe⟩ := src x hx
    have hoke := hok e he
    obtain ⟨ref, args, hfl, hkey⟩ := effO_key hxe
    unfold ncrEffOK at hoke
    by_cases hfa : e.forall_ = []
    · rw [expandEffect_nil P hfa] at hie
      have : inst = e := by simpa using hie
      subst this
      rw [hfl] at hoke
      simp only [hfa, List.isEmpty_nil, if_true, Bool.and_eq_true, Bool.not_eq_true', decide_eq_false_iff_not] at hoke
      rw [hkey]; exact hoke.1.1.1.1
    · cases hfle : e.fluent with
      | leaf l => rw [hfle] at hoke; simp at hoke
      | quant q vs b => rw [hfle] at hoke; simp at hoke
      | app op as =>
        cases op with
        | fluent f =>
          rw [hfle] at hoke
          have hne : e.forall_.isEmpty = false := by
            cases hh : e.forall_ with
            | nil => exact absurd hh hfa
            | cons _ _ => rfl
          simp only [hne, Bool.false_eq_true, if_false, Bool.and_eq_true, List.all_eq_true] at hoke
          have hio := hoke.2 inst hie
          unfold instOK at hio
          rw [hfl] at hio
          simp only [Bool.and_eq_true, Bool.not_eq_true', decide_eq_false_iff_not] at hio
          rw [hkey]; exact hio.1.1.1.2
        | _ => rw [hfle] at hoke; simp at hoke
  · intro x hx nf hl
    obtain ⟨e, he, inst, hie, hxe⟩ := src x hx
    have hoke := hok e he
    obtain ⟨ref, args, hfl, hkey⟩ := effO_key hxe
    unfold ncrEffOK at hoke
    by_cases hfa : e.forall_ = []
    · rw [expandEffect_nil P hfa] at hie
      have : inst = e := by simpa using hie
      subst this
      obtain ⟨fl, v, cnd, kd, fa⟩ := inst
      simp only at hfl hfa
      subst hfl; subst hfa
      simp only [List.isEmpty_nil, if_true, Bool.and_eq_true, Bool.or_eq_true, Option.isNone_iff_eq_none,
        decide_eq_true_eq] at hoke
      rw [hkey] at hl
      have hk : kd = .assign := by
        rcases hoke.2 with h | h
        · rw [hl] at h; cases h
        · exact h
      subst hk
      exact effO_bool_assign (hM.bool (ref, nf) (nmap_lookup_mem hl)).1 hxe
    · cases hfle : e.fluent with
      | leaf l => rw [hfle] at hoke; simp at hoke
      | quant q vs b => rw [hfle] at hoke; simp at hoke
      | app op as =>
        cases op with
        | fluent f =>
          rw [hfle] at hoke
          have hne : e.forall_.isEmpty = false := by
            cases hh : e.forall_ with
            | nil => exact absurd hh hfa
            | cons _ _ => rfl
          simp only [hne, Bool.false_eq_true, if_false, Bool.and_eq_true, List.all_eq_true] at hoke
          have hio := hoke.2 inst hie
          unfold instOK at hio
          rw [hfl] at hio
          simp only [Bool.and_eq_true, Option.isNone_iff_eq_none] at hio
          rw [hkey, hio.1.1.1.1] at hl
          cases hl
        | _ => rw [hfle] at hoke; simp at hoke

/-! ### the step -/

def OptRel {α β : Type} (R : α → β → Prop) : Option α → Option β → Prop
  | some x, some y => R x y
  | none, none => True
  | _, _ => False

/-- how `_compile` derives the compiled action from the original one, with respect to the final mapping `M` -/
structure ActRel (simp : Expr → Expr) (P : Problem) (M : NMap) (a a' : Action) : Prop where
  params : a'.params = a.params
  pre : ∃ pres, All2 (fun p p' => ∃ mi mi', nfrRemove simp P mi p = some (p', mi') ∧ NMap.le mi' M) a.pre pres ∧
    a'.pre = pres.foldl addPre []
  effs : ∃ effs1 ms, All2 (EffRel1 simp P M) a.effs effs1 ∧ mapOpt (ncrMirror simp M) effs1 = some ms ∧
    a'.effs = effs1 ++ ms.filterMap id

/-- the decidable hypotheses on one (parameterless) action -/
def actOK (simp : Expr → Expr) (P : Problem) (M : NMap) (a : Action) : Bool :=
  a.pre.all (condOK simp M) && a.effs.all (ncrEffOK simp P M) && noDoubleB M (expandEffs P a.effs)

theorem isTrue_of_ev {c' c : EvalCtx} {ρ : VEnv} {e' e : Expr} (h : ev c' ρ e' = ev c ρ e) :
    Spec.isTrue (eval c' ρ e') = Spec.isTrue (eval c ρ e) := by
  unfold ev at h
  cases h1 : eval c' ρ e' with
  | error x =>
    cases h2 : eval c ρ e with
    | error y => rfl
    | ok w => rw [h1, h2] at h; simp [toO] at h
  | ok v =>
    cases h2 : eval c ρ e with
    | error y => rw [h1, h2] at h; simp [toO] at h
    | ok w =>
      rw [h1, h2] at h
      simp only [toO, Option.some.injEq] at h
      rw [h]

/-- the compiled problem, as far as a step reads it -/
structure ProbRel (M : NMap) (W : World) (Q : Problem) : Prop where
  types : Q.types = W.P.types
  objects : Q.objects = W.P.objects
  invs : invariants (withProblem W Q) = invariants W
  invFree : ∀ si ∈ invariants W, mentionsAny M.fresh si = false

theorem ProbRel.objectsOf {M : NMap} {W : World} {Q : Problem} (h : ProbRel M W Q) : Q.objectsOf = W.P.objectsOf := by
  funext t; simp [Problem.objectsOf, h.types, h.objects]

theorem ProbRel.expandEffect {M : NMap} {W : World} {Q : Problem} (h : ProbRel M W Q) (e : Effect) :
    expandEffect Q e = expandEffect W.P e := by
  have h1 : tyDomain Q = tyDomain W.P := by
    funext t
    cases t <;> simp [Sim.tyDomain, h.objectsOf]
  have h2 : objExpr Q = objExpr W.P := by
    funext o; simp [Sim.objExpr, h.objects]
  unfold Sim.expandEffect
  rw [h1, h2]

theorem ProbRel.ctx {M : NMap} {W : World} {Q : Problem} (h : ProbRel M W Q) {g' g : St} (hR : StRel M g' g) :
    CtxRel M (ctxOf (withProblem W Q) g') (ctxOf W g) := by
  apply CtxRel_of_StRel
  · show W.P.objectsOf = (withProblem W Q).P.objectsOf
    exact h.objectsOf.symm
  · rfl
  · exact hR

theorem ProbRel.invOK {M : NMap} {W : World} {Q : Problem} (h : ProbRel M W Q) {g' g : St} (hR : StRel M g' g) :
    invOK (withProblem W Q) (ctxOf (withProblem W Q) g') = invOK W (ctxOf W g) := by
  unfold Spec.invOK
  rw [h.invs]
  apply all_congr_mem
  intro si hsi
  have hc := h.ctx hR
  unfold evalBool
  rw [← (eval_agreeL hc.agree).1 si [] (h.invFree si hsi)]

theorem preOK_all2 {c' c : EvalCtx} {pre pres : List Expr}
    (h : All2 (fun p p' => ev c' [] p' = ev c [] p) pre pres) : preOK c' pres = preOK c pre := by
  induction h with
  | nil => rfl
  | cons h1 _ ih => rw [preOK_cons, preOK_cons, isTrue_of_ev h1, ih]

theorem pre_all2 {simp : Expr → Expr} (hs : SimpExact simp) {P : Problem} {M : NMap} {c' c : EvalCtx} (hc : CtxRel M c' c)
    {pre pres : List Expr}
    (hpall : All2 (fun p p' => ∃ mi mi', nfrRemove simp P mi p = some (p', mi') ∧ NMap.le mi' M) pre pres)
    (hpre : ∀ p ∈ pre, condOK simp M p = true) : All2 (fun p p' => ev c' [] p' = ev c [] p) pre pres := by
  induction hpall with
  | nil => exact .nil
  | @cons p p' ps ps' h1 _ ih =>
    obtain ⟨mi, mi', hr, hle⟩ := h1
    exact .cons (nfrRemove_ev hs hc (hpre p (List.mem_cons_self ..)) hr hle)
      (ih (fun x hx => hpre x (List.mem_cons_of_mem _ hx)))

/-- ONE STEP: from related states, the compiled action and the original action both have no successor, or they have
    related successors -/
theorem ncr_step {simp : Expr → Expr} (hs : SimpExact simp) {M : NMap} (hM : MapOK M) {W : World} {Q : Problem}
    (hQ : ProbRel M W Q) {a a' : Action} (hrel : ActRel simp W.P M a a') (hok : actOK simp W.P M a = true)
    {g' g : St} (hR : StRel M g' g) :
    OptRel (StRel M) (stepAct (withProblem W Q) g' a') (stepAct W g a) := by
  unfold actOK at hok
  simp only [Bool.and_eq_true, List.all_eq_true] at hok
  obtain ⟨⟨hpre, heffs⟩, hnd⟩ := hok
  obtain ⟨pres, hpall, hpeq⟩ := hrel.pre
  obtain ⟨effs1, ms, heall, hms, heeq⟩ := hrel.effs
  have hc := hQ.ctx hR
  unfold stepAct
  rw [hrel.params]
  by_cases hp : a.params.isEmpty = true
  · simp only [hp, if_true]
    -- preconditions
    have hpre' : preOK (ctxOf (withProblem W Q) g') a'.pre = preOK (ctxOf W g) a.pre := by
      rw [hpeq, preOK_foldl_addPre]
      have : preOK (ctxOf (withProblem W Q) g') [] = true := rfl
      rw [this, Bool.true_and]
      exact preOK_all2 (pre_all2 hs hc hpall hpre)
    -- effects
    have hexp : expandEffs (withProblem W Q).P a'.effs =
        effs1.flatMap (expandEffect W.P) ++ (ms.filterMap id).flatMap (expandEffect W.P) := by
      unfold expandEffs
      rw [heeq, List.flatMap_append]
      have : (withProblem W Q).P = Q := rfl
      rw [this]
      have hfe : expandEffect Q = expandEffect W.P := funext hQ.expandEffect
      rw [hfe]
    obtain ⟨hf1, hf2⟩ := effs_step hs hc hM heall heffs hms
    unfold succOf
    dsimp only
    rw [hpre', hexp, ncr_fired_append, hf1]
    by_cases hpo : preOK (ctxOf W g) a.pre = true
    · simp only [hpo, if_true]
      unfold expandEffs
      cases hF : fired (ctxOf W g) (a.effs.flatMap (expandEffect W.P)) with
      | none => simp [OptRel]
      | some F =>
        rw [hf2 F hF]
        dsimp only
        have hFok : FiredOK M F := firedOK_of hM heffs hnd hF
        have hcons := cons_mirror hR hFok
        have hsucc := succGet_mirror hM hR hFok
        have hinv := hQ.invOK hsucc
        rw [hinv]
        by_cases hcf : Cons g F
        · have hcf' : Cons g' (F ++ mirList M F) := hcons.2 hcf
          by_cases hi : invOK W (ctxOf W (succGet g F)) = true
          · simp only [hcf, hcf', hi, and_self, if_true]
            exact hsucc
          · simp [hcf, hcf', hi, OptRel]
        · have hcf' : ¬ Cons g' (F ++ mirList M F) := fun h => hcf (hcons.1 h)
          simp [hcf, hcf', OptRel]
    · simp [hpo, OptRel]
  · simp [hp, OptRel]

end UPVerif.Compile
