import UPVerif.Lemmas.KS0Track
/-!
Helper lemmas for `Props/C30.lean`, part 2: plans — soundness and completeness of the translation for
an arbitrary list of tag states.
-/
set_option linter.unusedSectionVars false
namespace UPVerif.KS0
open UPVerif.Conformant

variable {α : Type} [DecidableEq α]

theorem run_append (π₁ π₂ : List (Action α)) (σ : State α) :
    run (π₁ ++ π₂) σ = run π₂ (run π₁ σ) := by
  induction π₁ generalizing σ with
  | nil => rfl
  | cons a π ih => simp [run, ih]

theorem executable_append (π₁ π₂ : List (Action α)) (σ : State α) :
    executable (π₁ ++ π₂) σ = (executable π₁ σ && executable π₂ (run π₁ σ)) := by
  induction π₁ generalizing σ with
  | nil => simp [executable, run]
  | cons a π ih => simp [executable, run, ih, Bool.and_assoc]

theorem mem_csteps_act {P : NProblem α} {a : Action α} : CStep.act a ∈ csteps P ↔ a ∈ P.actions := by
  simp [csteps]

theorem mem_csteps_merge {P : NProblem α} {l : Lit α} : CStep.merge l ∈ csteps P ↔ l ∈ mergeTargets P := by
  simp [csteps]

theorem mem_dedup {β : Type} [DecidableEq β] {l : List β} {x : β} : x ∈ dedup l ↔ x ∈ l := by
  induction l with
  | nil => simp [dedup]
  | cons y ys ih =>
    simp only [dedup, List.mem_cons, List.mem_filter, decide_eq_true_eq, ih]
    by_cases h : x = y <;> simp [h]

theorem mem_mergeTargets {P : NProblem α} {l : Lit α} :
    l ∈ mergeTargets P ↔ (∃ a ∈ P.actions, l ∈ a.pre) ∨ l ∈ P.goals := by
  simp [mergeTargets, mem_dedup]

theorem mem_mapBack {cs : List (CStep α)} {a : Action α} : a ∈ mapBack cs ↔ CStep.act a ∈ cs := by
  induction cs with
  | nil => simp [mapBack]
  | cons s cs ih =>
    cases s with
    | act b => simp [mapBack, ih]
    | merge l => simp [mapBack, ih]

/-- every step that is an original action is consistent -/
def StepsConsistent (cs : List (CStep α)) : Prop := ∀ a, CStep.act a ∈ cs → Consistent a

/-- soundness, generalised to any compiled state that tracks a family of original states -/
theorem sound_aux {n : Nat} (cs : List (CStep α)) :
    ∀ (κ : State (KAtom α)) (σ : Nat → State α), Track n κ σ → StepsConsistent cs →
      executable (cs.map (CStep.compile n)) κ = true →
      (∀ i, i < n → executable (mapBack cs) (σ i) = true) ∧
      Track n (run (cs.map (CStep.compile n)) κ) (fun i => run (mapBack cs) (σ i)) := by
  induction cs with
  | nil => intro κ σ h _ _; exact ⟨fun _ _ => rfl, h⟩
  | cons s cs ih =>
    intro κ σ h hc hex
    have hc' : StepsConsistent cs := fun a ha => hc a (List.mem_cons_of_mem _ ha)
    cases s with
    | act a =>
      simp only [List.map_cons, CStep.compile, executable, Bool.and_eq_true] at hex
      have ha : Consistent a := hc a List.mem_cons_self
      have h' := track_act a ha h
      obtain ⟨e1, e2⟩ := ih _ _ h' hc' hex.2
      refine ⟨?_, ?_⟩
      · intro i hi
        simp only [mapBack, executable, Bool.and_eq_true]
        refine ⟨?_, e1 i hi⟩
        simp only [applicable, List.all_eq_true]
        intro l hl
        exact h.empty l ((applicable_compileAct n a κ).1 hex.1 l hl) i hi
      · simpa [mapBack, run, CStep.compile] using e2
    | merge l =>
      simp only [List.map_cons, CStep.compile, executable, Bool.and_eq_true] at hex
      have h' := track_merge l h hex.1
      obtain ⟨e1, e2⟩ := ih _ _ h' hc' hex.2
      exact ⟨by simpa [mapBack] using e1, by simpa [mapBack, run, CStep.compile] using e2⟩

/-- a block of merges for literals that hold in every tracked state is executable, keeps the
invariant, establishes the merged knowledge and forgets nothing -/
theorem merges_run {n : Nat} (ls : List (Lit α)) :
    ∀ (κ : State (KAtom α)) (σ : Nat → State α), Track n κ σ →
      (∀ l ∈ ls, ∀ i, i < n → holds (σ i) l = true) →
      executable ((ls.map CStep.merge).map (CStep.compile n)) κ = true ∧
      Track n (run ((ls.map CStep.merge).map (CStep.compile n)) κ) σ ∧
      (∀ l ∈ ls, run ((ls.map CStep.merge).map (CStep.compile n)) κ ⟨l, Tag.empty⟩ = true) ∧
      (∀ k, κ k = true → run ((ls.map CStep.merge).map (CStep.compile n)) κ k = true) := by
  induction ls with
  | nil => intro κ σ h _; exact ⟨rfl, h, by simp, fun _ hk => hk⟩
  | cons l ls ih =>
    intro κ σ h hl
    have happ : applicable (mergeAct n l) κ = true := by
      rw [applicable_mergeAct]
      intro i hi
      rw [h.tag i hi l]
      exact hl l List.mem_cons_self i hi
    have h' := track_merge l h happ
    obtain ⟨e1, e2, e3, e4⟩ := ih _ σ h' (fun m hm => hl m (List.mem_cons_of_mem _ hm))
    have hmono : ∀ k, κ k = true → step (mergeAct n l) κ k = true := by
      intro k hk; rw [step_mergeAct]; split <;> simp [hk]
    refine ⟨?_, ?_, ?_, ?_⟩
    · simp only [List.map_cons, CStep.compile, executable, Bool.and_eq_true]
      exact ⟨happ, e1⟩
    · simpa [run, CStep.compile] using e2
    · intro m hm
      simp only [List.map_cons, CStep.compile, run]
      rcases List.mem_cons.1 hm with rfl | hm'
      · apply e4
        rw [step_mergeAct]; simp
      · exact e3 m hm'
    · intro k hk
      simp only [List.map_cons, CStep.compile, run]
      exact e4 k (hmono k hk)

/-- completeness, generalised to any compiled state that tracks a family of original states -/
theorem complete_aux {n : Nat} (goals : List (Lit α)) (π : List (Action α)) :
    ∀ (κ : State (KAtom α)) (σ : Nat → State α), Track n κ σ → (∀ a ∈ π, Consistent a) →
      (∀ i, i < n → validFrom goals π (σ i) = true) →
      validFrom (goals.map (fun l => kpos l Tag.empty))
        ((withMerges goals π).map (CStep.compile n)) κ = true := by
  induction π with
  | nil =>
    intro κ σ h _ hv
    have hg : ∀ l ∈ goals, ∀ i, i < n → holds (σ i) l = true := by
      intro l hl i hi
      have := hv i hi
      simp only [validFrom, executable, run, Bool.true_and, List.all_eq_true] at this
      exact this l hl
    obtain ⟨e1, _, e3, _⟩ := merges_run goals κ σ h hg
    simp only [validFrom, withMerges, Bool.and_eq_true, List.all_eq_true, List.mem_map,
      forall_exists_index, and_imp, forall_apply_eq_imp_iff₂]
    refine ⟨e1, ?_⟩
    intro l hl
    simpa [holds, kpos] using e3 l hl
  | cons a π ih =>
    intro κ σ h hc hv
    have hpre : ∀ l ∈ a.pre, ∀ i, i < n → holds (σ i) l = true := by
      intro l hl i hi
      have := hv i hi
      simp only [validFrom, executable, applicable, Bool.and_eq_true, List.all_eq_true] at this
      exact this.1.1 l hl
    obtain ⟨e1, e2, e3, _⟩ := merges_run a.pre κ σ h hpre
    let κ₁ := run ((a.pre.map CStep.merge).map (CStep.compile n)) κ
    have happ : applicable (compileAct n a) κ₁ = true := by
      rw [applicable_compileAct]; exact e3
    have h' := track_act a (hc a List.mem_cons_self) e2
    have hv' : ∀ i, i < n → validFrom goals π (step a (σ i)) = true := by
      intro i hi
      have := hv i hi
      simp only [validFrom, executable, run, Bool.and_eq_true] at this ⊢
      exact ⟨this.1.2, this.2⟩
    have hrec := ih _ _ h' (fun b hb => hc b (List.mem_cons_of_mem _ hb)) hv'
    simp only [validFrom, Bool.and_eq_true] at hrec ⊢
    simp only [withMerges, List.map_append, List.map_cons, executable_append, run_append,
      executable, run, CStep.compile, Bool.and_eq_true]
    exact ⟨⟨e1, happ, hrec.1⟩, hrec.2⟩

theorem mapBack_append (c₁ c₂ : List (CStep α)) : mapBack (c₁ ++ c₂) = mapBack c₁ ++ mapBack c₂ := by
  induction c₁ with
  | nil => rfl
  | cons s c ih => cases s <;> simp [mapBack, ih]

theorem mapBack_merges (ls : List (Lit α)) : mapBack (ls.map CStep.merge) = [] := by
  induction ls with
  | nil => rfl
  | cons l ls ih => simp [mapBack, ih]

theorem mapBack_withMerges (goals : List (Lit α)) (π : List (Action α)) :
    mapBack (withMerges goals π) = π := by
  induction π with
  | nil => simp [withMerges, mapBack_merges]
  | cons a π ih => simp [withMerges, mapBack_append, mapBack_merges, mapBack, ih]

theorem withMerges_steps {P : NProblem α} {π : List (Action α)} (hπ : ∀ a ∈ π, a ∈ P.actions) :
    ∀ s ∈ withMerges P.goals π, s ∈ csteps P := by
  induction π with
  | nil =>
    intro s hs
    simp only [withMerges, List.mem_map] at hs
    obtain ⟨l, hl, rfl⟩ := hs
    exact mem_csteps_merge.2 (mem_mergeTargets.2 (Or.inr hl))
  | cons a π ih =>
    intro s hs
    simp only [withMerges, List.mem_append, List.mem_map, List.mem_cons] at hs
    rcases hs with ⟨l, hl, rfl⟩ | rfl | hs
    · exact mem_csteps_merge.2 (mem_mergeTargets.2 (Or.inl ⟨a, hπ a List.mem_cons_self, hl⟩))
    · exact mem_csteps_act.2 (hπ a List.mem_cons_self)
    · exact ih (fun b hb => hπ b (List.mem_cons_of_mem _ hb)) s hs

end UPVerif.KS0
