import UPVerif.Lemmas.FromPddlEffMain
/-!
C21, effects: the leaves and the agreement theorem.
-/
namespace UPVerif.FromPddl
open UPVerif UPVerif.Expr UPVerif.Pddl

/-! ### the converter's step, node by node -/

section
variable (CE : CEnv) (hc : Bool) (ps : List (String × Ty))

theorem astep_pred (n : String) (ts : List Term) (qv : List Var) (c : Expr) :
    effStep CE hc ps ⟨.pred n ts, qv, c⟩ =
      (convFluent CE ps qv n ts).map (fun f => .effect (Pddl.mkEffect f Expr.tt c .assign qv)) := rfl

theorem astep_not (a : Form) (qv : List Var) (c : Expr) :
    effStep CE hc ps ⟨.not a, qv, c⟩ =
      (convExpr CE ps qv a).bind (fun f =>
        if isFluentExp f then some (.effect (Pddl.mkEffect f Expr.ff c .assign qv)) else none) := rfl

theorem astep_and (es : List Form) (qv : List Var) (c : Expr) :
    effStep CE hc ps ⟨.op .and es, qv, c⟩ = some (.push (es.map (fun e => ⟨e, qv, c⟩))) := rfl

theorem astep_when (cφ eφ : Form) (qv : List Var) (c : Expr) :
    effStep CE hc ps ⟨.when cφ eφ, qv, c⟩ =
      if c != Expr.tt then none else (convExpr CE ps qv cφ).map (fun c' => .push [⟨eφ, qv, c'⟩]) := rfl

theorem astep_forall (tvs : List TVar) (eφ : Form) (qv : List Var) (c : Expr) :
    effStep CE hc ps ⟨.forallE tvs eφ, qv, c⟩ =
      (effVariables CE.types tvs).map (fun ups => .push [⟨eφ, qvUpdate qv ups, c⟩]) := by
  unfold effStep
  simp only
  cases effVariables CE.types tvs <;> rfl

theorem astep_eqT (l r : Term) (qv : List Var) (c : Expr) : effStep CE hc ps ⟨.eqT l r, qv, c⟩ = none := rfl

end

/-! ### the variables of a universal effect -/

theorem effVariables_eq (tab : TypeTab) : ∀ tvs : List TVar, (∀ v ∈ tvs, v.tags.length ≤ 1) →
    effVariables tab tvs = convertVariables tab tvs
  | [], _ => rfl
  | v :: tvs, h => by
    rw [effVariables, convertVariables, effVariables_eq tab tvs (fun w hw => h w (List.mem_cons_of_mem _ hw))]
    have hv := h v (List.mem_cons_self ..)
    have : (variableType tab v).bind (fun ty => (convertVariables tab tvs).bind (fun rest =>
        some (({ name := v.name, ty := ty } : Var) :: rest))) =
        (convertVariable tab v).bind (fun x => (convertVariables tab tvs).bind (fun xs => some (x :: xs))) := by
      unfold variableType convertVariable
      match hvt : v.tags, hv with
      | [], _ => rfl
      | [t], _ =>
        dsimp only
        cases (tab.lookup t).join <;> rfl
    exact this

theorem astVars_tags {vl : List Sexp} {tvs : List TVar} (h : astVars vl = some tvs) : ∀ v ∈ tvs, v.tags.length ≤ 1 := by
  unfold astVars at h
  rw [Option.map_eq_some_iff] at h
  obtain ⟨gs, _, rfl⟩ := h
  intro v hv
  simp only [List.mem_flatMap, List.mem_map] at hv
  obtain ⟨g, _, n, _, rfl⟩ := hv
  cases g.2 <;> simp

theorem qvUpdate_append (ups : List Var) : ∀ (acc : List Var), ((acc ++ ups).map (·.name)).Nodup → qvUpdate acc ups = acc ++ ups := by
  induction ups with
  | nil => intro acc _; simp [qvUpdate]
  | cons v r ih =>
    intro acc hn
    show qvUpdate (qvSet acc v) r = _
    have hany : acc.any (fun w => w.name == v.name) = false := by
      cases hc : acc.any (fun w => w.name == v.name) with
      | false => rfl
      | true =>
        obtain ⟨w, hw, hwn⟩ := List.any_eq_true.1 hc
        have hwn' : w.name = v.name := by simpa using hwn
        rw [List.map_append, List.nodup_append] at hn
        have hne := hn.2.2 w.name (List.mem_map.2 ⟨w, hw, rfl⟩) v.name (by simp)
        exact absurd hwn' hne
    have hset : qvSet acc v = acc ++ [v] := by
      unfold qvSet; simp [hany]
    rw [hset, ih (acc ++ [v]) (by simpa using hn)]
    simp

theorem qvUpdate_nil (ups : List Var) (hn : (ups.map (·.name)).Nodup) : qvUpdate [] ups = ups := by
  have := qvUpdate_append ups [] (by simpa using hn)
  simpa using this

/-! ### the leaves -/

/-- under an action-cost metric the first reader knows `total-cost` as a fluent without parameters -/
structure CostAgree (E : REnv) (hc : Bool) (tc : Expr) : Prop where
  cost : hc = true → ∃ tcRef : FluentRef, E.fluent? "total-cost" = some tcRef ∧ tcRef.sig = [] ∧ tc = .app (.fluent tcRef) []

theorem scope_refl (vars : List Var) : ScopeAgree vars vars := fun _ => rfl

theorem astTerms_nil_of {C : PCtx} {r : List Sexp} (h : astTerms C r = some []) : r = [] := by
  cases r with
  | nil => rfl
  | cons x xs =>
    obtain ⟨a, as, _, _, he⟩ := astTerms_cons_inv h
    cases he

/-- the target `(total-cost)` of a cost effect, as the first reader reads it -/
theorem tc_target {E : REnv} {C : PCtx} {sc : List Var} {x : Sexp} {f : Expr} {tcRef : FluentRef}
    (hA : astFhead C x = some (.fn "total-cost" [])) (hf : E.fluent? "total-cost" = some tcRef) (hsig : tcRef.sig = [])
    (hU : readExpr E sc x = some f) : f = .app (.fluent tcRef) [] := by
  cases x with
  | atom s =>
    rw [astFhead] at hA
    split at hA
    · cases hA
    · simp only [Option.some.injEq, Form.fn.injEq, and_true] at hA
      subst hA
      rw [readExpr] at hU
      have hq : stripQ "total-cost" = none := by decide
      simp only [readAtom, hq, hf, hsig, List.isEmpty_nil, if_true, Option.some.injEq] at hU
      exact hU.symm
  | list xs =>
    match xs, hA, hU with
    | .atom h :: rest, hA, hU =>
      rw [astFhead] at hA
      split at hA
      · cases hA
      · rw [Option.map_eq_some_iff] at hA
        obtain ⟨τs, hτs, he⟩ := hA
        simp only [Form.fn.injEq] at he
        obtain ⟨rfl, rfl⟩ := he
        have hr := astTerms_nil_of hτs
        subst hr
        rw [readExpr, readList_fluent E sc "total-cost" [] tcRef (by decide) (by decide) (by decide) (by decide) hf] at hU
        simp only [readExprs, Option.bind_some, hsig, List.length_nil, beq_self_eq_true, if_true, Option.some.injEq] at hU
        exact hU.symm
    | [], hA, _ => simp [astFhead] at hA
    | .list _ :: _, hA, _ => simp [astFhead] at hA

theorem mkEffect_nil_vars (f v c : Expr) (k : EffKind) : (Pddl.mkEffect f v c k []).forall_ = [] := by
  unfold Pddl.mkEffect; rfl

section
variable {E : REnv} {CE : CEnv} {ps : List (String × Ty)} {hc : Bool} {tc : Expr}
  (ag : EnvAgree E CE ps) (nm : NamesOK E) (C : PCtx) (ca : CostAgree E hc tc)
include ag nm ca

/-- `(p t…)` / `(not (p t…))` -/
theorem leaf_atom (h : String) (rest : List Sexp) (hres : isReserved h = false) (τs : List Term) (val : Expr) (cond cond' : Expr)
    (vars : List Var) (rs rs' : List Effect) (hcnd : GdRel cond cond') (hτs : astTerms C rest = some τs)
    (hU : ∃ f, readList E vars (.atom h :: rest) = some f ∧ (isFluentExp f = true → rs = [Pddl.mkEffect f val cond .assign vars])
      ∧ isFluentExp f = true)
    (hQ : ∃ f', convFluent CE ps vars h τs = some f' ∧ rs' = [Pddl.mkEffect f' val cond' .assign vars]) :
    EffsRel rs rs' := by
  obtain ⟨f, hf, hrs, hfl⟩ := hU
  obtain ⟨f', hf', rfl⟩ := hQ
  have := app_agree ag nm C (scope_refl vars) h rest τs f f' hres hτs hf hf'
  subst this
  rw [hrs hfl]
  exact EffsRel.single (mkEffect_rel .assign vars (FRel.refl val) hcnd)

end

/-! ### `p_effect`s are `c_effect`s -/

theorem astAtom_head {C : PCtx} {t : Sexp} {φ : Form} (h : astAtom C t = some φ) :
    ∃ hd rest, t = .list (.atom hd :: rest) ∧ (hd = "=" ∨ isReserved hd = false) := by
  unfold astAtom at h
  split at h
  · rename_i hd rest
    refine ⟨hd, rest, rfl, ?_⟩
    split at h
    · rename_i he; exact Or.inl (by simpa using he)
    · split at h
      · cases h
      · rename_i hc
        right
        simp only [Bool.or_eq_true, not_or, Bool.not_eq_true] at hc
        exact hc.1.1
  · cases h

theorem astCEffect_of_P {C : PCtx} {t : Sexp} {φ : Form} (h : astPEffect C t = some φ) : astCEffect C t = some φ := by
  -- the head of a `p_effect` is `not`, an assignment operator, `=` or a plain name: never `forall`, `when`, `and`, `oneof`
  have key : ∀ hd rest, t = .list (.atom hd :: rest) →
      (hd = "not" ∨ (assignOp? hd).isSome ∨ hd = "=" ∨ isReserved hd = false) → astCEffect C t = some φ := by
    intro hd rest ht hcase
    subst ht
    have hne : (hd == "forall") = false ∧ (hd == "when") = false ∧ (hd == "and") = false ∧ (hd == "oneof") = false := by
      rcases hcase with rfl | hk | rfl | hr
      · simp
      · cases hk' : assignOp? hd with
        | none => simp [hk'] at hk
        | some k =>
          unfold assignOp? at hk'
          refine ⟨?_, ?_, ?_, ?_⟩ <;>
          · cases hc : (hd == _) with
            | false => rfl
            | true =>
              have := (beq_iff_eq.1 hc)
              subst this
              simp at hk'
      · simp
      · refine ⟨?_, ?_, ?_, ?_⟩ <;>
        · cases hc : (hd == _) with
          | false => rfl
          | true =>
            have := (beq_iff_eq.1 hc)
            subst this
            revert hr; decide
    rw [astCEffect_plain C hd rest hne.1 hne.2.1 hne.2.2.1 hne.2.2.2]
    exact h
  have h0 := h
  unfold astPEffect at h0
  split at h0
  · exact key "not" _ rfl (Or.inl rfl)
  · rename_i hd rest _
    split at h0
    · rename_i k hk
      exact key hd rest rfl (Or.inr (Or.inl (by simp [hk])))
    · obtain ⟨hd', rest', ht, hc⟩ := astAtom_head h0
      simp only [Sexp.list.injEq, List.cons.injEq, Sexp.atom.injEq] at ht
      obtain ⟨rfl, rfl⟩ := ht
      exact key hd rest rfl (Or.inr (Or.inr hc))
  · cases h0

theorem astCEffects_of_P {C : PCtx} : ∀ {ts : List Sexp} {φs : List Form}, astPEffects C ts = some φs → astCEffects C ts = some φs
  | [], φs, h => by rw [astPEffects] at h; rw [astCEffects]; exact h
  | t :: ts, φs, h => by
    obtain ⟨a, as, ha, has, rfl⟩ := astPEffects_cons_inv h
    rw [astCEffects, astCEffect_of_P ha, astCEffects_of_P has]
    rfl

theorem all2_astEff_C {C : PCtx} : ∀ {ts : List Sexp} {φs : List Form}, astCEffects C ts = some φs →
    All2 (AstEff C) ts φs ∧ ∀ φ ∈ φs, notOp .and φ = true
  | [], φs, h => by
    rw [astCEffects] at h; cases h
    exact ⟨trivial, fun _ hm => by cases hm⟩
  | t :: ts, φs, h => by
    obtain ⟨a, as, ha, has, rfl⟩ := astCEffects_cons_inv h
    obtain ⟨h1, h2⟩ := all2_astEff_C has
    refine ⟨⟨Or.inr (Or.inl ha), h1⟩, ?_⟩
    intro φ hφ
    rcases List.mem_cons.1 hφ with rfl | hφ
    · exact astCEffect_notAnd ha
    · exact h2 φ hφ

end UPVerif.FromPddl
