import UPVerif.Lemmas.CompileTS
/-!
Evaluation does not depend on fluents an expression does not mention: two states that agree on every ground
fluent except those of one fluent symbol `F` evaluate every `F`-free expression, effect and invariant alike.
Used for compilations that add a fresh fluent (the goal fluent of DisjunctiveConditionsRemover).
-/
namespace UPVerif.Compile
open UPVerif UPVerif.Expr UPVerif.Sim UPVerif.Spec

mutual
/-- does the expression apply the fluent symbol `F`? -/
def mentions (F : FluentRef) : Expr → Bool
  | .leaf _ => false
  | .app (.fluent f) args => f == F || mentionsList F args
  | .app _ args => mentionsList F args
  | .quant _ _ b => mentions F b
def mentionsList (F : FluentRef) : List Expr → Bool
  | [] => false
  | e :: es => mentions F e || mentionsList F es
end

/-- two evaluation contexts that differ only on the ground fluents of `F` -/
structure AgreeOff (F : FluentRef) (c c' : EvalCtx) : Prop where
  objs : c.objs = c'.objs
  fn : c.fn = c'.fn
  get : ∀ f vs, f ≠ F → c.get (f, vs) = c'.get (f, vs)

theorem AgreeOff.symm {F : FluentRef} {c c' : EvalCtx} (h : AgreeOff F c c') : AgreeOff F c' c :=
  ⟨h.objs.symm, h.fn.symm, fun f vs hf => (h.get f vs hf).symm⟩

theorem existsLoop_congr {f f' : VEnv → Except EvalErr Val} (h : ∀ a, f a = f' a) :
    ∀ l, existsLoop f l = existsLoop f' l
  | [] => rfl
  | a :: as => by simp only [existsLoop, h a, existsLoop_congr h as]

theorem forallLoop_congr {f f' : VEnv → Except EvalErr Val} (h : ∀ a, f a = f' a) :
    ∀ l, forallLoop f l = forallLoop f' l
  | [] => rfl
  | a :: as => by simp only [forallLoop, h a, forallLoop_congr h as]

theorem qAssignments_congr {c c' : EvalCtx} (h : c.objs = c'.objs) : ∀ vs, qAssignments c vs = qAssignments c' vs
  | [] => rfl
  | v :: vs => by
    have hd : c.domain v.ty = c'.domain v.ty := by
      unfold EvalCtx.domain; cases v.ty <;> simp [h]
    simp only [qAssignments, hd, qAssignments_congr h vs]

theorem evalOp_agree {F : FluentRef} {c c' : EvalCtx} (h : AgreeOff F c c') (op : Op) (vs : List Val)
    (hop : ∀ f, op = .fluent f → f ≠ F) : evalOp c op vs = evalOp c' op vs := by
  cases op with
  | fluent f =>
    have := h.get f vs (hop f rfl)
    simp only [evalOp, this]
  | div =>
    unfold evalOp
    split
    · rename_i heq; cases heq
    · rfl
    · rw [h.fn]
  | _ => simp only [evalOp, h.fn]

theorem eval_agree {F : FluentRef} {c c' : EvalCtx} (h : AgreeOff F c c') :
    (∀ e ρ, mentions F e = false → eval c ρ e = eval c' ρ e) ∧
    (∀ es ρ, mentionsList F es = false → evalList c ρ es = evalList c' ρ es) := by
  have key : ∀ n, (∀ e, e.size ≤ n → ∀ ρ, mentions F e = false → eval c ρ e = eval c' ρ e) ∧
      (∀ es, Expr.sizeList es ≤ n → ∀ ρ, mentionsList F es = false → evalList c ρ es = evalList c' ρ es) := by
    intro n
    induction n with
    | zero =>
      constructor
      · intro e he; cases e <;> simp [Expr.size] at he
      · intro es he ρ _
        cases es with
        | nil => rfl
        | cons x xs =>
          simp [Expr.sizeList] at he
          cases x <;> simp [Expr.size] at he
    | succ n ih =>
      have hexpr : ∀ e, e.size ≤ n + 1 → ∀ ρ, mentions F e = false → eval c ρ e = eval c' ρ e := by
        intro e he ρ hm
        cases e with
        | leaf l => rfl
        | app op args =>
          simp only [Expr.size] at he
          have hml : mentionsList F args = false := by
            cases op <;> simp [mentions] at hm <;> first | exact hm | exact hm.2
          have hop : ∀ f, op = .fluent f → f ≠ F := by
            intro f hf; subst hf
            simp [mentions] at hm
            exact hm.1
          simp only [eval]
          rw [ih.2 args (by omega) ρ hml]
          cases evalList c' ρ args with
          | error x => rfl
          | ok vs => exact evalOp_agree h op vs hop
        | quant q vs b =>
          simp only [Expr.size] at he
          have hmb : mentions F b = false := by simpa [mentions] using hm
          simp only [eval]
          rw [qAssignments_congr h.objs]
          cases q with
          | ex => exact existsLoop_congr (fun a => ih.1 b (by omega) (a ++ ρ) hmb) _
          | all => exact forallLoop_congr (fun a => ih.1 b (by omega) (a ++ ρ) hmb) _
      refine ⟨hexpr, ?_⟩
      intro es he ρ hm
      cases es with
      | nil => rfl
      | cons x xs =>
        simp only [Expr.sizeList] at he
        simp only [mentionsList, Bool.or_eq_false_iff] at hm
        have hx : 1 ≤ x.size := by cases x <;> simp [Expr.size] <;> omega
        simp only [evalList]
        rw [ih.2 xs (by omega) ρ hm.2, hexpr x (by omega) ρ hm.1]
  exact ⟨fun e ρ hm => (key e.size).1 e (Nat.le_refl _) ρ hm,
         fun es ρ hm => (key (Expr.sizeList es)).2 es (Nat.le_refl _) ρ hm⟩

theorem evalArgs_agree {F : FluentRef} {c c' : EvalCtx} (h : AgreeOff F c c') : ∀ (args : List Expr),
    mentionsList F args = false → evalArgs c args = evalArgs c' args
  | [], _ => rfl
  | a :: as, hm => by
    simp only [mentionsList, Bool.or_eq_false_iff] at hm
    simp only [evalArgs, (eval_agree h).1 a [] hm.1, evalArgs_agree h as hm.2]

/-- an effect that neither targets nor reads `F` -/
def effectFree (F : FluentRef) (e : Effect) : Bool :=
  !mentions F e.fluent && !mentions F e.value && !mentions F e.cond

theorem evalEff_agree {F : FluentRef} {c c' : EvalCtx} (h : AgreeOff F c c') {e : Effect}
    (he : effectFree F e = true) : evalEff c e = evalEff c' e := by
  obtain ⟨fl, v, cnd, k, fa⟩ := e
  unfold effectFree at he
  simp only [Bool.and_eq_true, Bool.not_eq_true'] at he
  obtain ⟨⟨h1, h2⟩, h3⟩ := he
  unfold evalEff
  cases fl with
  | leaf l => rfl
  | quant q vs b => rfl
  | app op args =>
    cases op <;> try rfl
    rename_i f
    have hargs : mentionsList F args = false := by
      simp [mentions] at h1; exact h1.2
    dsimp only
    rw [evalArgs_agree h args hargs, (eval_agree h).1 cnd [] h3, (eval_agree h).1 v [] h2]

theorem preOK_agree {F : FluentRef} {c c' : EvalCtx} (h : AgreeOff F c c') {l : List Expr}
    (hl : mentionsList F l = false) : preOK c l = preOK c' l := by
  induction l with
  | nil => rfl
  | cons x xs ih =>
    simp only [mentionsList, Bool.or_eq_false_iff] at hl
    rw [preOK_cons, preOK_cons, (eval_agree h).1 x [] hl.1, ih hl.2]

theorem fired_agree {F : FluentRef} {c c' : EvalCtx} (h : AgreeOff F c c') : ∀ (E : List Effect),
    (∀ e ∈ E, effectFree F e = true) → fired c E = fired c' E
  | [], _ => rfl
  | e :: es, hE => by
    have e1 : fired c (e :: es) = (match evalEff c e, fired c es with
      | .ok none, some Fs => some Fs
      | .ok (some f), some Fs => some (f :: Fs)
      | _, _ => none) := rfl
    have e2 : fired c' (e :: es) = (match evalEff c' e, fired c' es with
      | .ok none, some Fs => some Fs
      | .ok (some f), some Fs => some (f :: Fs)
      | _, _ => none) := rfl
    rw [e1, e2, evalEff_agree h (hE e (List.mem_cons_self ..)),
        fired_agree h es (fun x hx => hE x (List.mem_cons_of_mem _ hx))]

end UPVerif.Compile
