import UPVerif.Lemmas.WellFormedCER
import UPVerif.Lemmas.WellFormedDCR
import UPVerif.Lemmas.WellFormedQR
import UPVerif.Lemmas.WellFormedInv
import UPVerif.Lemmas.WellFormedBTR
/-!
Helper lemmas for `Props/C08Models.lean`, part 9: the generic frame.  A `CompilerModel` packages an executable model
of a compiler with the fragment it covers and its target; `PreservesWF` / `ReachesTarget` are the two statements
property C08 makes about every compiler; both are closed under `CompilersPipeline` composition.  New models (negative
conditions remover, grounder, …) only have to provide an instance and the two proofs.  No Mathlib.
-/
namespace UPVerif.Compile
open UPVerif UPVerif.Expr UPVerif.Sim UPVerif.WF UPVerif.Declared

/-- an executable model of a compiler, the fragment of problems it covers, the extra conditions on the input under
    which its target is reached, and the target: what the compiled problem is free of -/
structure CompilerModel where
  compile : Problem → Option Compiled
  dom : Problem → Prop
  targetDom : Problem → Prop
  target : Problem → Bool

/-- "a plan back-conversion is available": the map-back has one entry per compiled action and every entry is `none`
    (no counterpart) or a position of the ORIGINAL problem's action list -/
def BackOK (P : Problem) (c : Compiled) : Prop :=
  c.back.length = c.prob.actions.length ∧ ∀ b ∈ c.back, b = none ∨ ∃ i, b = some i ∧ i < P.actions.length

theorem BackOK_of_backOK {P : Problem} {c : Compiled} (h : backOK P.actions.length c.prob.actions c.back = true) :
    BackOK P c := by
  rw [backOK_iff] at h
  refine ⟨h.1, fun b hb => ?_⟩
  cases b with
  | none => exact .inl rfl
  | some i => exact .inr ⟨i, rfl, h.2 _ hb i rfl⟩

/-- the compiled problem of a well-formed problem is well-formed and its map-back is total into the original -/
def CompilerModel.PreservesWF (M : CompilerModel) : Prop :=
  ∀ P c, WellFormed P → M.dom P → M.compile P = some c → WellFormed c.prob ∧ BackOK P c

/-- the compiled problem is inside the compiler's declared target -/
def CompilerModel.ReachesTarget (M : CompilerModel) : Prop :=
  ∀ P c, M.dom P → M.targetDom P → M.compile P = some c → M.target c.prob = true

/-! ### pipelines -/

/-- `CompilersPipeline([M₁, M₂])` -/
def CompilerModel.pipe (M₁ M₂ : CompilerModel) : CompilerModel where
  compile := pipeCompile M₁.compile M₂.compile
  dom := fun P => M₁.dom P ∧ ∀ c, M₁.compile P = some c → M₂.dom c.prob
  targetDom := fun P => ∀ c, M₁.compile P = some c → M₂.targetDom c.prob
  target := M₂.target

theorem pipeCompile_some {c₁ c₂ : Problem → Option Compiled} {P : Problem} {c : Compiled}
    (h : pipeCompile c₁ c₂ P = some c) :
    ∃ r₁ r₂, c₁ P = some r₁ ∧ c₂ r₁.prob = some r₂ ∧ c = { prob := r₂.prob, back := composeBack r₁.back r₂.back } := by
  unfold pipeCompile at h
  split at h
  · cases h
  · rename_i r₁ h₁
    split at h
    · cases h
    · rename_i r₂ h₂
      simp only [Option.some.injEq] at h
      exact ⟨r₁, r₂, h₁, h₂, h.symm⟩

theorem composeBack_ok {P : Problem} {r₁ r₂ : Compiled} (h₁ : BackOK P r₁) (h₂ : BackOK r₁.prob r₂) :
    BackOK P { prob := r₂.prob, back := composeBack r₁.back r₂.back } := by
  refine ⟨by simp [composeBack, h₂.1], ?_⟩
  intro b hb
  simp only [composeBack, List.mem_map] at hb
  obtain ⟨b₂, hb₂, rfl⟩ := hb
  cases b₂ with
  | none => exact .inl rfl
  | some j =>
    simp only []
    cases hj : r₁.back[j]? with
    | none => exact .inl rfl
    | some b₁ =>
      cases b₁ with
      | none => exact .inl rfl
      | some i =>
        rcases h₁.2 (some i) (List.mem_of_getElem? hj) with h | ⟨i', hi', hlt⟩
        · cases h
        · simp only [Option.some.injEq] at hi'
          subst hi'
          exact .inr ⟨i, rfl, hlt⟩

theorem PreservesWF.pipe {M₁ M₂ : CompilerModel} (h₁ : M₁.PreservesWF) (h₂ : M₂.PreservesWF) :
    (M₁.pipe M₂).PreservesWF := by
  intro P c hP hdom hc
  obtain ⟨r₁, r₂, hr₁, hr₂, rfl⟩ := pipeCompile_some hc
  obtain ⟨hw₁, hb₁⟩ := h₁ P r₁ hP hdom.1 hr₁
  obtain ⟨hw₂, hb₂⟩ := h₂ r₁.prob r₂ hw₁ (hdom.2 r₁ hr₁) hr₂
  exact ⟨hw₂, composeBack_ok hb₁ hb₂⟩

theorem ReachesTarget.pipe {M₁ M₂ : CompilerModel} (h₂ : M₂.ReachesTarget) : (M₁.pipe M₂).ReachesTarget := by
  intro P c hdom ht hc
  obtain ⟨r₁, r₂, hr₁, hr₂, rfl⟩ := pipeCompile_some hc
  exact h₂ r₁.prob r₂ (hdom.2 r₁ hr₁) (ht r₁ hr₁) hr₂

/-! ### the five models -/

/-- the fragment of the compiler models of C06 / C07: no quality metric -/
def MetricFree (P : Problem) : Prop := P.metrics = []

/-- `add_trajectory_constraint` accepted every trajectory constraint of the problem -/
def TrajShaped (P : Problem) : Prop := ∀ t ∈ P.traj, trajShape t = true

def cerModel (simp : Expr → Expr) : CompilerModel :=
  { compile := cerCompileN simp, dom := MetricFree, targetDom := fun _ => True, target := noCondEffects }

/-- the target needs the postcondition of the DNF walker on the conditions it is applied to -/
def dcrModel (simp dnfE : Expr → Expr) : CompilerModel :=
  { compile := dcrCompileN simp dnfE, dom := MetricFree,
    targetDom := fun P => (∀ a ∈ P.actions, DisjOut (dnfE (mkAnd a.pre))) ∧ DisjOut (dnfE (mkAnd P.goals)),
    target := noDisjunctions }

def qrModel (simp : Expr → Expr) : CompilerModel :=
  { compile := qrCompileN simp, dom := MetricFree, targetDom := fun _ => True, target := noQuantifiers }

def sirModel (simp : Expr → Expr) : CompilerModel :=
  { compile := sirCompileN simp, dom := MetricFree, targetDom := TrajShaped, target := noInvariants }

def btrModel (simp : Expr → Expr) : CompilerModel :=
  { compile := btrCompileN simp, dom := fun P => MetricFree P ∧ ConstDefaults P, targetDom := fun _ => True,
    target := noBoundedFluents }

/-- the compiled problem is metric-free again (the models carry `P.metrics` over unchanged) -/
theorem cer_metrics {simp : Expr → Expr} {P : Problem} {c : Compiled} (h : cerCompileN simp P = some c) :
    c.prob.metrics = P.metrics := by rw [cerCompileN_eq h]
theorem qr_metrics {simp : Expr → Expr} {P : Problem} {c : Compiled} (h : qrCompileN simp P = some c) :
    c.prob.metrics = P.metrics := by obtain ⟨acts, _, rfl⟩ := qrCompile_eq h; rfl
theorem sir_metrics {simp : Expr → Expr} {P : Problem} {c : Compiled} (h : sirCompileN simp P = some c) :
    c.prob.metrics = P.metrics := by obtain ⟨_, _, _, _, rfl⟩ := sirCompile_eq h; rfl
theorem btr_metrics {simp : Expr → Expr} {P : Problem} {c : Compiled} (h : btrCompileN simp P = some c) :
    c.prob.metrics = P.metrics := by obtain ⟨_, _, _, _, rfl⟩ := btrCompile_eq h; rfl
theorem dcr_metrics {simp dnfE : Expr → Expr} {P : Problem} {c : Compiled} (h : dcrCompileN simp dnfE P = some c) :
    c.prob.metrics = P.metrics := by
  obtain ⟨m, _, hcase⟩ := dcrCompileN_cases h
  rcases hcase with ⟨_, _, _, rfl⟩ | ⟨_, rfl⟩ <;> rfl

end UPVerif.Compile
