import UPVerif.Core.Conflicts
/-! Helper lemmas for `Props/C24.lean`. -/
namespace UPVerif.Conflicts

theorem beq_comm' {α} [DecidableEq α] (a b : α) : (a == b) = (b == a) := by
  rw [Bool.eq_iff_iff, beq_iff_eq, beq_iff_eq]; exact eq_comm

/-! ### `sameValue` is an equivalence relation -/

theorem payloadEq_symm (a b : Val) : payloadEq a b = payloadEq b a := by
  cases a <;> cases b <;> simp only [payloadEq, Val.num?] <;> exact beq_comm' _ _

theorem sameValue_refl (a : Val) : sameValue a a = true := by simp [sameValue]

theorem sameValue_symm (a b : Val) : sameValue a b = sameValue b a := by
  unfold sameValue
  rw [payloadEq_symm a b, beq_comm' a b, Bool.and_comm a.isConstant b.isConstant]

theorem payloadEq_trans (a b c : Val) (h1 : payloadEq a b = true) (h2 : payloadEq b c = true) :
    payloadEq a c = true := by
  cases a <;> cases b <;> cases c <;> simp_all [payloadEq, Val.num?]

theorem sameValue_trans (a b c : Val) (h1 : sameValue a b = true) (h2 : sameValue b c = true) :
    sameValue a c = true := by
  unfold sameValue at *
  simp only [Bool.or_eq_true, Bool.and_eq_true, beq_iff_eq] at *
  rcases h1 with h1 | ⟨⟨ha, hb⟩, h1⟩
  · subst h1; exact h2
  · rcases h2 with h2 | ⟨⟨_, hc⟩, h2⟩
    · subst h2; exact Or.inr ⟨⟨ha, hb⟩, h1⟩
    · exact Or.inr ⟨⟨ha, hc⟩, payloadEq_trans a b c h1 h2⟩

/-! ### list-as-set / list-as-dict facts -/

theorem mem_setAdd (l : List String) (f g : String) : g ∈ setAdd l f ↔ (g ∈ l ∨ g = f) := by
  unfold setAdd
  by_cases h : f ∈ l
  · simp only [List.contains_eq_mem, h, decide_true, if_true]
    constructor
    · exact Or.inl
    · rintro (h' | h')
      · exact h'
      · subst h'; exact h
  · simp [h]

theorem lookup_snoc (l : List (String × Val)) (f g : String) (v : Val) :
    (l ++ [(f, v)]).lookup g = (l.lookup g).or (if g = f then some v else none) := by
  rw [List.lookup_append]
  congr 1
  by_cases h : g = f
  · subst h; simp [List.lookup]
  · have h' : (g == f) = false := by simp [h]
    simp [List.lookup, h', h]

/-! ### one step, read through the view -/

theorem step_raised (s : Slot) (op : Op) : (s.step op).2 = !s.admits op := by
  cases op with
  | sim fl =>
    simp only [Slot.step, Slot.setSimulatedEffect, Slot.admits, Op.view, checkConflictingSimulated]
    by_cases h : (fl.any fun f => s.book.incDec.contains f || (List.lookup f s.book.assigned).isSome) = true
    · simp only [h, if_true]; rfl
    · simp only [h]; simp
  | eff e =>
    obtain ⟨f, bt, k, v, c⟩ := e
    simp only [Slot.step, Slot.addEffectInstance, Slot.admits, Op.view, checkConflictingEffects]
    cases k <;> cases c <;> cases bt <;> simp
    · -- assign
      by_cases h1 : f ∈ s.book.incDec
      · simp [h1]
      · by_cases h2 : simHas s.sim f = true
        · simp [h1, h2]
        · cases h3 : s.book.assigned.lookup f with
          | none => simp [h1, h2]
          | some u => by_cases h4 : sameValue u v = true <;> simp [h1, h2, h4]
    all_goals
      cases h1 : s.book.assigned.lookup f with
      | some u => simp
      | none => by_cases h2 : simHas s.sim f = true <;> simp [h2]

/-- exception safety of one call: a raising call returns every container as it found it -/
theorem step_noop (s : Slot) (op : Op) (h : (s.step op).2 = true) : (s.step op).1 = s := by
  cases op with
  | sim fl =>
    simp only [Slot.step, Slot.setSimulatedEffect] at *
    by_cases h' : checkConflictingSimulated fl s.book = true
    · simp [h']
    · simp [h'] at h
  | eff e =>
    obtain ⟨f, bt, k, v, c⟩ := e
    simp only [Slot.step, Slot.addEffectInstance, checkConflictingEffects] at *
    cases k <;> cases c <;> cases bt <;> simp at h ⊢
    · by_cases h1 : f ∈ s.book.incDec
      · simp [h1]
      · by_cases h2 : simHas s.sim f = true
        · simp [h1, h2]
        · cases h3 : s.book.assigned.lookup f with
          | none => simp [h1, h2, h3] at h
          | some u =>
            by_cases h4 : sameValue u v = true
            · simp [h1, h2, h3, h4] at h
            · simp [h1, h2, h4]
    all_goals
      cases h1 : s.book.assigned.lookup f with
      | some u => simp
      | none =>
        by_cases h2 : simHas s.sim f = true
        · simp [h2]
        · simp [h1, h2] at h

/-- the simulated effect and the bookkeeping after an ACCEPTED insertion, by view -/
def after (sim : Option (List String)) (bk : Book) : View → Option (List String) × Book
  | .skip => (sim, bk)
  | .asg f v =>
    (sim, match bk.assigned.lookup f with
          | some _ => bk
          | none => { bk with assigned := bk.assigned ++ [(f, v)] })
  | .idc f => (sim, { bk with incDec := setAdd bk.incDec f })
  | .sim fl => (some fl, bk)

theorem step_accepted (s : Slot) (op : Op) (h : (s.step op).2 = false) :
    ((s.step op).1.sim, (s.step op).1.book) = after s.sim s.book op.view := by
  cases op with
  | sim fl =>
    simp only [Slot.step, Slot.setSimulatedEffect, after, Op.view] at *
    by_cases h' : checkConflictingSimulated fl s.book = true
    · simp [h'] at h
    · simp [h']
  | eff e =>
    obtain ⟨f, bt, k, v, c⟩ := e
    simp only [Slot.step, Slot.addEffectInstance, checkConflictingEffects, Op.view] at *
    cases k <;> cases c <;> cases bt <;> simp [after] at h ⊢
    · by_cases h1 : f ∈ s.book.incDec
      · simp [h1] at h
      · by_cases h2 : simHas s.sim f = true
        · simp [h1, h2] at h
        · cases h3 : s.book.assigned.lookup f with
          | none => simp [h1, h2]
          | some u =>
            by_cases h4 : sameValue u v = true
            · simp [h1, h2, h4]
            · simp [h1, h2, h3, h4] at h
    all_goals
      cases h1 : s.book.assigned.lookup f with
      | some u => simp [h1] at h
      | none =>
        by_cases h2 : simHas s.sim f = true
        · simp [h1, h2] at h
        · simp [h2]

/-- `admits` only looks at the simulated effect and the bookkeeping -/
def admitsV (sim : Option (List String)) (bk : Book) : View → Bool
  | .skip => true
  | .asg f v =>
    !bk.incDec.contains f && !simHas sim f &&
      (match bk.assigned.lookup f with
       | some u => sameValue u v
       | none => true)
  | .idc f => !(bk.assigned.lookup f).isSome && !simHas sim f
  | .sim fl => !fl.any (fun f => bk.incDec.contains f || (bk.assigned.lookup f).isSome)

theorem admits_eq (s : Slot) (op : Op) : s.admits op = admitsV s.sim s.book op.view := by
  unfold Slot.admits admitsV
  cases op.view <;> rfl

theorem bne_comm' {α} [DecidableEq α] (a b : α) : (a != b) = (b != a) := by
  simp only [bne, beq_comm' a b]

theorem compat_symm_view (a b : View) : a.compat b = b.compat a := by
  cases a <;> cases b <;> simp only [View.compat] <;>
    first | rfl | (rw [bne_comm', sameValue_symm]) | (rw [bne_comm'])

theorem compat_symm (a b : Op) : a.compat b = b.compat a := compat_symm_view _ _

theorem admitsV_asg (sim bk f v) : admitsV sim bk (.asg f v) = true ↔
    (f ∉ bk.incDec ∧ simHas sim f = false ∧ ∀ u, bk.assigned.lookup f = some u → sameValue u v = true) := by
  simp only [admitsV, Bool.and_eq_true, Bool.not_eq_true', List.contains_eq_mem, decide_eq_false_iff_not]
  cases h : bk.assigned.lookup f <;> simp [and_assoc]

theorem admitsV_idc (sim bk f) : admitsV sim bk (.idc f) = true ↔
    (bk.assigned.lookup f = none ∧ simHas sim f = false) := by
  simp only [admitsV, Bool.and_eq_true, Bool.not_eq_true']
  cases h : bk.assigned.lookup f <;> simp

theorem admitsV_sim (sim bk fl) : admitsV sim bk (.sim fl) = true ↔
    (∀ h ∈ fl, h ∉ bk.incDec ∧ bk.assigned.lookup h = none) := by
  simp only [admitsV, Bool.not_eq_true', List.any_eq_false, Bool.or_eq_true, not_or,
    List.contains_eq_mem, decide_eq_true_eq]
  constructor
  · intro H h hh
    have := H h hh
    refine ⟨this.1, ?_⟩
    cases hl : bk.assigned.lookup h <;> simp_all
  · intro H h hh
    have := H h hh
    refine ⟨this.1, ?_⟩
    simp [this.2]

/-- after an accepted `asg f v` -/
theorem after_asg (sim : Option (List String)) (bk : Book) (f : String) (v : Val) (b : View)
    (ha : admitsV sim bk (.asg f v) = true) :
    admitsV (after sim bk (.asg f v)).1 (after sim bk (.asg f v)).2 b = true ↔
      (admitsV sim bk b = true ∧ (View.asg f v).compat b = true) := by
  rw [admitsV_asg] at ha
  obtain ⟨ha1, ha2, ha3⟩ := ha
  cases hl : bk.assigned.lookup f with
  | some u =>
    have huv := ha3 u hl
    simp only [after, hl]
    cases b with
    | skip => simp [View.compat]
    | asg g w =>
      simp only [View.compat, Bool.or_eq_true, bne_iff_ne, ne_eq]
      constructor
      · intro h; refine ⟨h, ?_⟩
        by_cases e : f = g
        · subst e; right
          rw [admitsV_asg] at h
          have := h.2.2 u hl
          exact sameValue_trans v u w (by rw [sameValue_symm]; exact huv) this
        · exact Or.inl e
      · exact fun h => h.1
    | idc g =>
      simp only [View.compat, bne_iff_ne, ne_eq]
      constructor
      · intro h; refine ⟨h, ?_⟩
        rintro rfl
        rw [admitsV_idc] at h
        rw [hl] at h; exact absurd h.1 (by simp)
      · exact fun h => h.1
    | sim fl =>
      simp only [View.compat, Bool.not_eq_true', List.contains_eq_mem, decide_eq_false_iff_not]
      constructor
      · intro h; refine ⟨h, ?_⟩
        intro hf
        rw [admitsV_sim] at h
        have := (h f hf).2
        rw [hl] at this; exact absurd this (by simp)
      · exact fun h => h.1
  | none =>
    simp only [after, hl]
    cases b with
    | skip => simp [View.compat, admitsV]
    | asg g w =>
      simp only [View.compat, Bool.or_eq_true, bne_iff_ne, ne_eq, admitsV_asg, lookup_snoc]
      by_cases e : g = f
      · subst e
        simp [hl, and_assoc]
      · have e' : ¬ f = g := fun x => e x.symm
        simp [e, e']
    | idc g =>
      simp only [View.compat, bne_iff_ne, ne_eq, admitsV_idc, lookup_snoc]
      by_cases e : g = f
      · subst e
        simp [hl]
      · have e' : ¬ f = g := fun x => e x.symm
        simp [e, e']
    | sim fl =>
      simp only [View.compat, Bool.not_eq_true', List.contains_eq_mem, decide_eq_false_iff_not, admitsV_sim, lookup_snoc]
      constructor
      · intro H
        refine ⟨fun h hh => ⟨(H h hh).1, ?_⟩, ?_⟩
        · have := (H h hh).2
          cases hx : bk.assigned.lookup h <;> simp_all
        · intro hf
          have := (H f hf).2
          simp at this
      · rintro ⟨H, hf⟩ h hh
        refine ⟨(H h hh).1, ?_⟩
        have e : ¬ h = f := by rintro rfl; exact hf hh
        simp [(H h hh).2, e]


/-- after an accepted `idc f` -/
theorem after_idc (sim : Option (List String)) (bk : Book) (f : String) (b : View) :
    admitsV (after sim bk (.idc f)).1 (after sim bk (.idc f)).2 b = true ↔
      (admitsV sim bk b = true ∧ (View.idc f).compat b = true) := by
  simp only [after]
  cases b with
  | skip => simp [View.compat, admitsV]
  | asg g w =>
    simp only [View.compat, bne_iff_ne, ne_eq, admitsV_asg, mem_setAdd]
    by_cases e : g = f
    · subst e; simp
    · have e' : ¬ f = g := fun x => e x.symm
      simp [e, e']
  | idc g => simp [View.compat, admitsV_idc]
  | sim fl =>
    simp only [View.compat, Bool.not_eq_true', List.contains_eq_mem, decide_eq_false_iff_not,
      admitsV_sim, mem_setAdd]
    constructor
    · intro H
      refine ⟨fun h hh => ⟨fun x => (H h hh).1 (Or.inl x), (H h hh).2⟩, ?_⟩
      intro hf
      exact (H f hf).1 (Or.inr rfl)
    · rintro ⟨H, hf⟩ h hh
      refine ⟨?_, (H h hh).2⟩
      rintro (x | rfl)
      · exact (H h hh).1 x
      · exact hf hh

/-- after an accepted `sim fl`, provided no simulated effect was set before -/
theorem after_sim (bk : Book) (fl : List String) (b : View) :
    admitsV (after none bk (.sim fl)).1 (after none bk (.sim fl)).2 b = true ↔
      (admitsV none bk b = true ∧ (View.sim fl).compat b = true) := by
  simp only [after]
  cases b with
  | skip => simp [View.compat, admitsV]
  | asg g w => simp [View.compat, admitsV_asg, simHas, and_comm, and_left_comm]
  | idc g => simp [View.compat, admitsV_idc, simHas]
  | sim fl' => simp [View.compat, admitsV_sim]

/-- KEY LEMMA: once `a` has been accepted, a later insertion `b` is admitted iff it was admissible
    before and is compatible with `a` -/
theorem admitsV_after (sim : Option (List String)) (bk : Book) (a b : View)
    (ha : admitsV sim bk a = true) (hs : (∃ fl, a = .sim fl) → sim = none) :
    admitsV (after sim bk a).1 (after sim bk a).2 b = (admitsV sim bk b && a.compat b) := by
  rw [Bool.eq_iff_iff, Bool.and_eq_true]
  cases a with
  | skip => simp [after, View.compat]
  | asg f v => exact after_asg sim bk f v b ha
  | idc f => exact after_idc sim bk f b
  | sim fl =>
    have := hs ⟨fl, rfl⟩
    subst this
    exact after_sim bk fl b

/-! ### collections -/

theorem raises_nil (s : Slot) : s.raises [] = false := rfl

theorem raises_cons (s : Slot) (a : Op) (l : List Op) :
    s.raises (a :: l) = ((s.step a).2 || (s.step a).1.raises l) := by
  simp [Slot.raises, Slot.run]

theorem view_sim_iff (a : Op) : (∃ fl, a.view = .sim fl) ↔ a.isSim = true := by
  cases a with
  | sim fl => simp [Op.view, Op.isSim]
  | eff e =>
    simp only [Op.view, Op.isSim]
    split
    · split <;> simp
    · simp

/-- the step lemma on slots -/
theorem admits_step (s : Slot) (a b : Op) (ha : (s.step a).2 = false)
    (hs : a.isSim = true → s.sim = none) :
    (s.step a).1.admits b = (s.admits b && a.compat b) := by
  have h1 := step_accepted s a ha
  have ha' : admitsV s.sim s.book a.view = true := by
    have := step_raised s a
    rw [ha, admits_eq] at this
    simpa using this.symm
  rw [admits_eq, admits_eq]
  have e1 : (s.step a).1.sim = (after s.sim s.book a.view).1 := by rw [← h1]
  have e2 : (s.step a).1.book = (after s.sim s.book a.view).2 := by rw [← h1]
  rw [e1, e2]
  exact admitsV_after s.sim s.book a.view b.view ha' (fun h => hs ((view_sim_iff a).1 h))

theorem step_sim_of_not_isSim (s : Slot) (a : Op) (h : a.isSim = false) : (s.step a).1.sim = s.sim := by
  cases a with
  | sim fl => simp [Op.isSim] at h
  | eff e =>
    simp only [Slot.step, Slot.addEffectInstance]
    split <;> rfl

theorem step_sim_of_isSim (s : Slot) (a : Op) (h : a.isSim = true) (ha : (s.step a).2 = false) :
    (s.step a).1.sim.isSome = true := by
  cases a with
  | eff e => simp [Op.isSim] at h
  | sim fl =>
    simp only [Slot.step, Slot.setSimulatedEffect] at *
    split at ha
    · simp at ha
    · simp_all

/-- CHARACTERISATION: a collection is accepted without any error iff every member is admissible
    on its own and the members are pairwise compatible -/
theorem raises_false_iff (l : List Op) : ∀ (s : Slot), simLoad s l ≤ 1 →
    (s.raises l = false ↔ ((∀ op ∈ l, s.admits op = true) ∧ l.Pairwise (fun a b => a.compat b = true))) := by
  induction l with
  | nil => intro s _; simp [raises_nil]
  | cons a l ih =>
    intro s hload
    rw [raises_cons]
    by_cases hr : (s.step a).2 = true
    · have : s.admits a = false := by
        have := step_raised s a; rw [hr] at this; simpa using this.symm
      simp [hr, this]
    · have hr' : (s.step a).2 = false := by simpa using hr
      have hadm : s.admits a = true := by
        have := step_raised s a; rw [hr'] at this; simpa using this.symm
      -- the load invariant for the rest
      have hs : a.isSim = true → s.sim = none := by
        intro ha
        unfold simLoad at hload
        rw [List.countP_cons_of_pos ha] at hload
        cases h : s.sim with
        | none => rfl
        | some x => simp [h] at hload; omega
      have hload' : simLoad (s.step a).1 l ≤ 1 := by
        unfold simLoad at *
        by_cases ha : a.isSim = true
        · rw [List.countP_cons_of_pos ha] at hload
          have h0 := hs ha
          simp only [h0] at hload
          have : List.countP Op.isSim l = 0 := by
            simp only [Option.isSome_none, Bool.false_eq_true, if_false] at hload; omega
          rw [this]; split <;> omega
        · have ha' : a.isSim = false := by simpa using ha
          rw [List.countP_cons_of_neg ha] at hload
          rw [step_sim_of_not_isSim s a ha']; exact hload
      rw [hr', Bool.false_or, ih _ hload']
      simp only [List.forall_mem_cons, List.pairwise_cons, hadm, true_and]
      constructor
      · rintro ⟨h1, h2⟩
        refine ⟨fun op hop => ?_, ⟨fun op hop => ?_, h2⟩⟩
        · have := h1 op hop; rw [admits_step s a op hr' hs] at this
          simp only [Bool.and_eq_true] at this; exact this.1
        · have := h1 op hop; rw [admits_step s a op hr' hs] at this
          simp only [Bool.and_eq_true] at this; exact this.2
      · rintro ⟨h1, h2, h3⟩
        refine ⟨fun op hop => ?_, h3⟩
        rw [admits_step s a op hr' hs, h1 op hop, h2 op hop]; rfl

theorem simLoad_perm (s : Slot) {l₁ l₂ : List Op} (h : l₁.Perm l₂) : simLoad s l₁ = simLoad s l₂ := by
  unfold simLoad; rw [h.countP_eq]

theorem raises_perm (s : Slot) {l₁ l₂ : List Op} (h : l₁.Perm l₂) (hload : simLoad s l₁ ≤ 1) :
    s.raises l₁ = s.raises l₂ := by
  have hload2 : simLoad s l₂ ≤ 1 := by rw [← simLoad_perm s h]; exact hload
  have e1 := raises_false_iff l₁ s hload
  have e2 := raises_false_iff l₂ s hload2
  have : s.raises l₁ = false ↔ s.raises l₂ = false := by
    rw [e1, e2]
    have hp : l₁.Pairwise (fun a b => a.compat b = true) ↔ l₂.Pairwise (fun a b => a.compat b = true) :=
      h.pairwise_iff (fun {a b} hab => by rw [compat_symm]; exact hab)
    rw [hp]
    constructor
    · rintro ⟨h1, h2⟩; exact ⟨fun op hop => h1 op (h.mem_iff.2 hop), h2⟩
    · rintro ⟨h1, h2⟩; exact ⟨fun op hop => h1 op (h.mem_iff.1 hop), h2⟩
  cases h1 : s.raises l₁ <;> cases h2 : s.raises l₂ <;> simp_all

/-! ### histories with rejected insertions -/

theorem run_cons (s : Slot) (a : Op) (l : List Op) :
    s.run (a :: l) = (((s.step a).1.run l).1, (s.step a).2 :: ((s.step a).1.run l).2) := rfl

theorem run_length (l : List Op) : ∀ s : Slot, (s.run l).2.length = l.length := by
  induction l with
  | nil => intro s; rfl
  | cons a l ih => intro s; simp [run_cons, ih]

theorem run_append (l l' : List Op) : ∀ s : Slot,
    s.run (l ++ l') = (((s.run l).1.run l').1, (s.run l).2 ++ ((s.run l).1.run l').2) := by
  induction l with
  | nil => intro s; simp [Slot.run]
  | cons a l ih => intro s; simp [run_cons, ih]

/-- replaying only the accepted insertions: none raises and the final content is the same -/
theorem run_accepted (l : List Op) : ∀ s : Slot,
    s.run (accepted l (s.run l).2) =
      ((s.run l).1, (accepted l (s.run l).2).map (fun _ => false)) := by
  induction l with
  | nil => intro s; rfl
  | cons a l ih =>
    intro s
    rw [run_cons]
    by_cases hr : (s.step a).2 = true
    · have h0 := step_noop s a hr
      simp only [accepted, hr, if_true]
      rw [h0]; exact ih s
    · have hr' : (s.step a).2 = false := by simpa using hr
      simp only [accepted, hr', Bool.false_eq_true, if_false, run_cons, List.map_cons]
      rw [ih (s.step a).1]

/-! ### several time points -/

theorem store_run_cons (st : Store) (x : String × Op) (h : List (String × Op)) :
    st.run (x :: h) = ((Store.run (st.step x).1 h).1, (st.step x).2 :: (Store.run (st.step x).1 h).2) := rfl

theorem store_raises_cons (st : Store) (x : String × Op) (h : List (String × Op)) :
    st.raises (x :: h) = ((st.step x).2 || Store.raises (st.step x).1 h) := by
  simp [Store.raises, store_run_cons]

theorem atTiming_cons_eq (t : String) (op : Op) (h : List (String × Op)) :
    atTiming t ((t, op) :: h) = op :: atTiming t h := by
  simp [atTiming]

theorem atTiming_cons_ne (t u : String) (op : Op) (h : List (String × Op)) (hne : u ≠ t) :
    atTiming t ((u, op) :: h) = atTiming t h := by
  simp [atTiming, hne]

/-- the content stored for time point `t` after a multi-timing history is the content the slot
    of `t` gets from the insertions made at `t` alone (frame property) -/
theorem store_run_at (h : List (String × Op)) : ∀ (st : Store) (t : String),
    (st.run h).1 t = ((st t).run (atTiming t h)).1 := by
  induction h with
  | nil => intro st t; rfl
  | cons x h ih =>
    intro st t
    obtain ⟨u, op⟩ := x
    rw [store_run_cons, ih]
    by_cases e : u = t
    · subst e
      rw [atTiming_cons_eq, run_cons]
      simp [Store.step]
    · rw [atTiming_cons_ne t u op h e]
      have : (Store.step st (u, op)).1 t = st t := by
        simp only [Store.step]
        have e' : ¬ t = u := fun x => e x.symm
        simp [e']
      rw [this]

/-- some insertion of a multi-timing history raises iff, at some time point, the insertions made
    there raise -/
theorem store_raises_iff (h : List (String × Op)) : ∀ (st : Store),
    st.raises h = true ↔ ∃ t, (st t).raises (atTiming t h) = true := by
  induction h with
  | nil => intro st; simp [Store.raises, Store.run, atTiming, raises_nil]
  | cons x h ih =>
    intro st
    obtain ⟨u, op⟩ := x
    rw [store_raises_cons, Bool.or_eq_true, ih]
    have hu : (Store.step st (u, op)).1 u = ((st u).step op).1 := by simp [Store.step]
    have hne : ∀ t, t ≠ u → (Store.step st (u, op)).1 t = st t := by
      intro t ht; simp [Store.step, ht]
    constructor
    · rintro (h1 | ⟨t, ht⟩)
      · refine ⟨u, ?_⟩
        rw [atTiming_cons_eq, raises_cons]
        have : (Store.step st (u, op)).2 = ((st u).step op).2 := rfl
        rw [← this, h1]; rfl
      · by_cases e : t = u
        · subst e
          refine ⟨t, ?_⟩
          rw [atTiming_cons_eq, raises_cons, ← hu, ht]; simp
        · refine ⟨t, ?_⟩
          rw [atTiming_cons_ne t u op h (fun x => e x.symm), ← hne t e]; exact ht
    · rintro ⟨t, ht⟩
      by_cases e : t = u
      · subst e
        rw [atTiming_cons_eq, raises_cons, Bool.or_eq_true] at ht
        rcases ht with ht | ht
        · exact Or.inl ht
        · exact Or.inr ⟨t, by rw [hu]; exact ht⟩
      · rw [atTiming_cons_ne t u op h (fun x => e x.symm)] at ht
        exact Or.inr ⟨t, by rw [hne t e]; exact ht⟩

theorem atTiming_perm (t : String) {h₁ h₂ : List (String × Op)} (p : h₁.Perm h₂) :
    (atTiming t h₁).Perm (atTiming t h₂) := by
  unfold atTiming
  exact (p.filter _).map _

theorem store_step_noop (st : Store) (x : String × Op) (h : (st.step x).2 = true) :
    ∀ u, (st.step x).1 u = st u := by
  intro u
  simp only [Store.step] at *
  by_cases e : u = x.1
  · subst e; simp [step_noop _ _ h]
  · simp [e]

end UPVerif.Conflicts
